#!/usr/bin/env python3
"""Regenerates MANIFEST.json from claims.json (per-property claim text) so the manifest stays valid."""
import json, os
V = os.path.dirname(os.path.abspath(__file__))
claims = json.load(open(os.path.join(V, "claims.json")))
props = [json.loads(l) for l in open(os.path.join(V, "properties.jsonl"))]
checks, na = [], []
for p in props:
    pid = p["id"]
    c = claims.get(pid)
    if not c or c.get("not_applicable"):
        na.append({"property_id": pid, "reason": (c or {}).get("reason", "no check built yet in this tree (the Lean model for this property is not yet tied to the code); see DESIGN.md section 6")})
        continue
    checks.append({
        "property_id": pid,
        "quick_cmd": f"./check {pid} --tier quick",
        "thorough_cmd": f"./check {pid} --tier thorough",
        "evidence_file": f"/verif/evidence/{pid}.json",
        "replay_cmd_template": f"./check {pid} --replay {{path}}",
        "engine": "lean4-model+correspondence",
        "level_claimed": {"category": "proof", "text": c["text"], "design_ref": c.get("design_ref", "DESIGN.md section 6 " + pid)},
        "level_note": c["note"],
        "technique": c["technique"],
    })
m = {
    "version": 1,
    "setup_cmd": "./setup.sh",
    "hooks": {
        "guard": "verif",
        "enable": "go build -tags verif (files ruleguard/verif_hooks.go etc., all //go:build verif, add-only)",
        "baseline_off_cmd": "cd /repo && for m in . ./cmd/gorules ./dsl ./rules; do (cd $m && GOFLAGS=-mod=mod GOPROXY=off go test -vet=off -count=1 ./...) || exit 1; done",
        "source_commits": claims["_hook_commits"],
        "add_only": True,
    },
    "engines": [
        {"name": "lean4-model+correspondence", "path": "/verif/lean, /verif/harness, /verif/check",
         "serves_properties": [c["property_id"] for c in checks],
         "kind_free_text": "Lean 4 theorems about hand-written executable models (lean/Rg), tied to /repo on every run by regenerated tables (rgh extract -> lean/Rg/Gen) and by a differential correspondence between the Go implementation (harness, -tags verif) and the compiled Lean driver (rgdrv)"},
    ],
    "checks": checks,
    "not_applicable": na,
    "notes": "fix: commits in /repo: " + "; ".join(claims["_fix_commits"]),
}
json.dump(m, open(os.path.join(V, "MANIFEST.json"), "w"), indent=1)
print("checks:", len(checks), "not claimed:", len(na))
