#!/bin/sh
# MANIFEST.setup_cmd: build the framework from files on disk only (offline).
set -e
cd "$(dirname "$0")"
export GOFLAGS=-mod=mod GOPROXY=off GOSUMDB=off GOTOOLCHAIN=local
mkdir -p evidence replays harness/bin
(cd harness && go build -tags verif -o bin/rgh ./cmd/rgh)
(cd harness && ./bin/rgh extract -out ../lean/Rg/Gen)   # cwd must be the harness module: rule files import dsl through `go list`
(cd lean && lake build Rg Drv rgdrv)
echo setup ok
