import Rg.Base
/-!
# Rg.Proto — line protocol helpers for the driver (core Lean only)

Byte strings cross the boundary hex-encoded (`-` is the empty string), integers in decimal,
trees as S-expressions `(head child child …)` with atoms free of blanks and parentheses.
-/

namespace Proto

def hexDigit (n : Nat) : Char :=
  if n < 10 then Char.ofNat (48 + n) else Char.ofNat (87 + n)

def hexOfBytes (b : Bytes) : String :=
  if b.isEmpty then "-" else
  String.ofList (b.flatMap fun x => [hexDigit (x.toNat / 16), hexDigit (x.toNat % 16)])

def hexVal (c : Char) : Option Nat :=
  if '0' ≤ c ∧ c ≤ '9' then some (c.toNat - 48)
  else if 'a' ≤ c ∧ c ≤ 'f' then some (c.toNat - 87)
  else if 'A' ≤ c ∧ c ≤ 'F' then some (c.toNat - 55)
  else none

def bytesOfHexAux : List Char → Option Bytes
  | [] => some []
  | [_] => none
  | a :: b :: rest => do
    let x ← hexVal a
    let y ← hexVal b
    let r ← bytesOfHexAux rest
    pure (UInt8.ofNat (x * 16 + y) :: r)

def bytesOfHex (s : String) : Option Bytes :=
  if s == "-" then some [] else bytesOfHexAux s.toList

def bytesOfString (s : String) : Bytes := s.toUTF8.toList

/-- lossy display only (never compared) -/
def stringOfBytes (b : Bytes) : String :=
  String.ofList (b.map fun x => Char.ofNat x.toNat)

def fields (line : String) : List String :=
  (line.splitOn " ").filter (· ≠ "")

/-- S-expressions -/
inductive SExp
  | atom (s : String)
  | list (xs : List SExp)
deriving Repr, Inhabited

partial def SExp.toString : SExp → String
  | .atom s => s
  | .list xs => "(" ++ " ".intercalate (xs.map SExp.toString) ++ ")"

inductive Tok | lp | rp | at (s : String)
deriving Repr, DecidableEq

def tokenize (s : String) : List Tok := Id.run do
  let mut out : Array Tok := #[]
  let mut cur : String := ""
  for c in s.toList do
    if c == '(' || c == ')' || c == ' ' || c == '\t' || c == '\n' || c == '\r' then
      if cur ≠ "" then
        out := out.push (.at cur)
        cur := ""
      if c == '(' then out := out.push .lp
      else if c == ')' then out := out.push .rp
    else
      cur := cur.push c
  if cur ≠ "" then out := out.push (.at cur)
  return out.toList

/-- stack-based parser; returns the list of top-level expressions -/
def parseSExps (toks : List Tok) : Option (List SExp) := Id.run do
  let mut stack : List (Array SExp) := [#[]]
  for t in toks do
    match t with
    | .lp => stack := #[] :: stack
    | .rp =>
      match stack with
      | top :: next :: rest => stack := (next.push (.list top.toList)) :: rest
      | _ => return none
    | .at s =>
      match stack with
      | top :: rest => stack := (top.push (.atom s)) :: rest
      | [] => return none
  match stack with
  | [top] => return some top.toList
  | _ => return none

def parseSExp (s : String) : Option SExp :=
  match parseSExps (tokenize s) with
  | some [e] => some e
  | _ => none

def natOfAtom : SExp → Option Nat
  | .atom s => s.toNat?
  | _ => none

def intOfAtom : SExp → Option Int
  | .atom s => s.toInt?
  | _ => none

end Proto
