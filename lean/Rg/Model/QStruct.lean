import Rg.Model.QVM
/-!
# Rg.Model.QStruct — the compiler of compile.go in structured form

`structCompile` produces the same functions as the byte-level transcription `compileFunc`
(labels + back-patching), but as a list of decoded instructions with relative jump offsets computed
from the sizes of the sub-blocks; `break` is a placeholder (`SI.brk`) resolved by the enclosing loop.
The simulation proof (Rg/Proofs/QSim*.lean) is about this form; that it yields the same bytes as
`compileFunc` is checked by the driver on every generated program (op `qstruct`).
-/
namespace Q

def Instr.width : Instr → Nat
  | .pushParam _ | .pushIntParam _ | .pushLocal _ | .pushIntLocal _ | .pushConst _ | .pushIntConst _
  | .setLocal _ | .setIntLocal _ | .incLocal _ | .decLocal _ | .setVariadicLen _ => 2
  | .jump _ | .jumpFalse _ | .jumpTrue _ | .callNative _ | .call _ | .intCall _ | .voidCall _ => 3
  | _ => 1

def Instr.opcode : Instr → Nat
  | .pop => Opc.Pop | .dup => Opc.Dup
  | .pushParam _ => Opc.PushParam | .pushIntParam _ => Opc.PushIntParam
  | .pushLocal _ => Opc.PushLocal | .pushIntLocal _ => Opc.PushIntLocal
  | .pushFalse => Opc.PushFalse | .pushTrue => Opc.PushTrue
  | .pushConst _ => Opc.PushConst | .pushIntConst _ => Opc.PushIntConst
  | .convIntToIface => Opc.ConvIntToIface
  | .setLocal _ => Opc.SetLocal | .setIntLocal _ => Opc.SetIntLocal
  | .incLocal _ => Opc.IncLocal | .decLocal _ => Opc.DecLocal
  | .returnTop => Opc.ReturnTop | .returnIntTop => Opc.ReturnIntTop
  | .returnFalse => Opc.ReturnFalse | .returnTrue => Opc.ReturnTrue | .ret => Opc.Return
  | .jump _ => Opc.Jump | .jumpFalse _ => Opc.JumpFalse | .jumpTrue _ => Opc.JumpTrue
  | .setVariadicLen _ => Opc.SetVariadicLen
  | .callNative _ => Opc.CallNative | .call _ => Opc.Call | .intCall _ => Opc.IntCall | .voidCall _ => Opc.VoidCall
  | .isNil => Opc.IsNil | .isNotNil => Opc.IsNotNil | .not => Opc.Not
  | .eqInt => Opc.EqInt | .notEqInt => Opc.NotEqInt | .gtInt => Opc.GtInt | .gtEqInt => Opc.GtEqInt
  | .ltInt => Opc.LtInt | .ltEqInt => Opc.LtEqInt
  | .eqString => Opc.EqString | .notEqString => Opc.NotEqString | .concat => Opc.Concat
  | .add => Opc.Add | .sub => Opc.Sub
  | .stringSlice => Opc.StringSlice | .stringSliceFrom => Opc.StringSliceFrom
  | .stringSliceTo => Opc.StringSliceTo | .stringLen => Opc.StringLen

/-- the bytes of one instruction -/
def encI (i : Instr) : Bytes :=
  match i with
  | .pushParam a | .pushIntParam a | .pushLocal a | .pushIntLocal a | .pushConst a | .pushIntConst a
  | .setLocal a | .setIntLocal a | .incLocal a | .decLocal a | .setVariadicLen a => [byte i.opcode, byte a]
  | .jump o | .jumpFalse o | .jumpTrue o | .callNative o | .call o | .intCall o | .voidCall o => byte i.opcode :: le16 o
  | _ => [byte i.opcode]

def enc : List Instr → Bytes
  | [] => []
  | i :: is => encI i ++ enc is

def isize : List Instr → Nat
  | [] => 0
  | i :: is => i.width + isize is

/-- structured instruction: a VM instruction, or the `opJump` of a `break` waiting for its loop -/
inductive SI
  | i (ins : Instr)
  | brk
deriving DecidableEq, Repr, Inhabited

def SI.width : SI → Nat
  | .i ins => ins.width
  | .brk => 3

def ssize : List SI → Nat
  | [] => 0
  | x :: xs => x.width + ssize xs

/-- turn the `break`s of a loop body into jumps; `d` = bytes between the end of `xs` and the loop exit -/
def resolve : List SI → Nat → List Instr
  | [], _ => []
  | .i ins :: xs, d => ins :: resolve xs d
  | .brk :: xs, d => .jump ((3 + ssize xs + d : Nat) : Int) :: resolve xs d

def lift (is : List Instr) : List SI := is.map .i

structure SState where
  locals : List (Nat × Nat) := []
  consts : List Bytes := []
  intConsts : List Int64 := []
deriving Repr, DecidableEq, Inhabited

/-- `internConstant` / `internIntConstant` -/
def internIn {α} [BEq α] (v : α) (pool : List α) : Nat × List α :=
  match pool.idxOf? v with
  | some i => (i, pool)
  | none => (pool.length, pool ++ [v])

/-- the 8-bit operand of `emit8` -/
def op8 (fx : Fixes) (arg : Nat) : Option Nat :=
  if fx.range && arg > 255 then none else some (arg % 256)

/-- the instruction `compileBinaryExpr` picks -/
def binInstr (op : BinOp) (ty : Ty) : Option Instr :=
  match op with
  | .neq => if isStr ty then some .notEqString else if isInt ty then some .notEqInt else none
  | .eql => if isStr ty then some .eqString else if isInt ty then some .eqInt else none
  | .gtr => if isInt ty then some .gtInt else none
  | .geq => if isInt ty then some .gtEqInt else none
  | .lss => if isInt ty then some .ltInt else none
  | .leq => if isInt ty then some .ltEqInt else none
  | .add => if isStr ty then some .concat else if isInt ty then some .add else none
  | .sub => if isInt ty then some .sub else none
  | _ => none

mutual
def compE (fx : Fixes) (env : CEnv) (fn : CFn) : Expr → SState → Option (List Instr × SState)
  | .cint v, s => do
    let (id, pool) := internIn v s.intConsts
    let a ← op8 fx id
    pure ([.pushIntConst a], { s with intConsts := pool })
  | .cstr v, s => do
    let (id, pool) := internIn v s.consts
    let a ← op8 fx id
    pure ([.pushConst a], { s with consts := pool })
  | .cbool v _, s => some ([if v then .pushTrue else .pushFalse], s)
  | .cbad, _ => none
  | .nil, _ => none
  | .ident name ty, s =>
    match mapGet fn.params name with
    | some i => do let a ← op8 fx i; pure ([.pushParam a], s)
    | none =>
      match mapGet fn.intParams name with
      | some i => do let a ← op8 fx i; pure ([.pushIntParam a], s)
      | none =>
        match mapGet s.locals name with
        | some i => do let a ← op8 fx i; pure ([if isInt ty then .pushIntLocal a else .pushLocal a], s)
        | none => none
  | .not x, s => do
    let (ix, s) ← compE fx env fn x s
    pure (ix ++ [.not], s)
  | .bin op ty x y, s =>
    match op with
    | .lor => do
      let (ix, s) ← compE fx env fn x s
      let (iy, s) ← compE fx env fn y s
      let mid := (if fx.orPop then [Instr.pop] else []) ++ iy
      pure (ix ++ [.dup, .jumpTrue ((3 + isize mid : Nat) : Int)] ++ mid, s)
    | .land => do
      let (ix, s) ← compE fx env fn x s
      let (iy, s) ← compE fx env fn y s
      let mid := (if fx.orPop then [Instr.pop] else []) ++ iy
      pure (ix ++ [.dup, .jumpFalse ((3 + isize mid : Nat) : Int)] ++ mid, s)
    | .other => none
    | op =>
      if (op == .neq || op == .eql) && isNilIdent x then do
        let (iy, s) ← compE fx env fn y s
        pure (iy ++ [if op == .neq then .isNotNil else .isNil], s)
      else if (op == .neq || op == .eql) && isNilIdent y then do
        let (ix, s) ← compE fx env fn x s
        pure (ix ++ [if op == .neq then .isNotNil else .isNil], s)
      else
        match binInstr op ty with
        | none => none
        | some ins => do
          let (ix, s) ← compE fx env fn x s
          let (iy, s) ← compE fx env fn y s
          pure (ix ++ iy ++ [ins], s)
  | .sliceAll x, s => compE fx env fn x s
  | .sliceTo xty x hi, s =>
    if !isStr xty then none else do
      let (ix, s) ← compE fx env fn x s
      let (ih, s) ← compE fx env fn hi s
      pure (ix ++ ih ++ [.stringSliceTo], s)
  | .sliceFrom xty x lo, s =>
    if !isStr xty then none else do
      let (ix, s) ← compE fx env fn x s
      let (il, s) ← compE fx env fn lo s
      pure (ix ++ il ++ [.stringSliceFrom], s)
  | .slice xty x lo hi, s =>
    if !isStr xty then none else do
      let (ix, s) ← compE fx env fn x s
      let (il, s) ← compE fx env fn lo s
      let (ih, s) ← compE fx env fn hi s
      pure (ix ++ il ++ ih ++ [.stringSlice], s)
  | .len xty x, s => do
    let (ix, s) ← compE fx env fn x s
    if !isStr xty then none else pure (ix ++ [.stringLen], s)
  | .call ci recv args, s => do
    let (ir, s) ← compEs fx env fn recv s
    match idOf env.natives ci.key with
    | some fid =>
      if ci.tupleArg == 2 && !fx.argSig then none
      else if ci.tupleArg == 1 then none else do
        let (ia, s) ← compArgs fx env fn ci.variadic 0 args ci.argTys s
        let iv ← (if ci.variadic != 0 then
                    (if args.length - ci.variadic > 255 then none
                     else do let a ← op8 fx (args.length - ci.variadic); pure [Instr.setVariadicLen a])
                  else some [])
        pure (ir ++ ia ++ iv ++ [.callNative fid], s)
    | none =>
      if ci.nativeOnly then none
      else if ci.sigVariadic then none
      else
        match idOf env.funcs ci.key with
        | none => none
        | some fid => do
          let (ia, s) ← compEs fx env fn args s
          let ins : Instr := if ci.res == .void then .voidCall fid else if isInt ci.res then .intCall fid else .call fid
          pure (ir ++ ia ++ [ins], s)
  | .bad, _ => none

def compEs (fx : Fixes) (env : CEnv) (fn : CFn) : List Expr → SState → Option (List Instr × SState)
  | [], s => some ([], s)
  | e :: es, s => do
    let (i1, s) ← compE fx env fn e s
    let (i2, s) ← compEs fx env fn es s
    pure (i1 ++ i2, s)

def compArgs (fx : Fixes) (env : CEnv) (fn : CFn) (variadic : Nat) : Nat → List Expr → List Ty → SState → Option (List Instr × SState)
  | _, [], _, s => some ([], s)
  | i, e :: es, tys, s => do
    let (i1, s) ← compE fx env fn e s
    let conv := if variadic != 0 && i ≥ variadic && isInt (tys.headD .obj) then [Instr.convIntToIface] else []
    let (i2, s) ← compArgs fx env fn variadic (i + 1) es tys.tail s
    pure (i1 ++ conv ++ i2, s)
end

def compTargets (fx : Fixes) (fn : CFn) (define : Bool) : List (Nat × Ty) → SState → Option (List Instr × SState)
  | [], s => some ([], s)
  | (name, ty) :: rest, s =>
    if define then
      if (mapGet s.locals name).isSome then none
      else if !isSupported ty then none
      else if s.locals.length == Opc.maxLocals then none
      else if fx.shadow && isParamName fn name then none
      else do
        let id := s.locals.length
        let a ← op8 fx id
        let s := { s with locals := mapSet s.locals name id }
        let (r, s) ← compTargets fx fn define rest s
        pure ((if isInt ty then Instr.setIntLocal a else .setLocal a) :: r, s)
    else
      match mapGet s.locals name with
      | none => none
      | some id => do
        let a ← op8 fx id
        let (r, s) ← compTargets fx fn define rest s
        pure ((if isInt ty then Instr.setIntLocal a else .setLocal a) :: r, s)

mutual
/-- `compileStmt`: `inLoop` = a `break` has a target, `lu` = `isUncondJump(cl.lastOp)` before the statement -/
def compS (fx : Fixes) (env : CEnv) (fn : CFn) (inLoop : Bool) : Stmt → SState → Bool → Option (List SI × SState × Bool)
  | .ret ty e, s, _ =>
    if fn.retVoid then some ([.i .ret], s, false)
    else
      match e with
      | .cbool true true => some ([.i .returnTrue], s, true)
      | .cbool false true => some ([.i .returnFalse], s, true)
      | e => do
        let (ie, s) ← compE fx env fn e s
        pure (lift (ie ++ [if isInt ty then .returnIntTop else .returnTop]), s, true)
  | .retNone, s, _ => if fn.retVoid then some ([.i .ret], s, false) else none
  | .assign define lhs rhs, s, _ => do
    let (ie, s) ← compE fx env fn rhs s
    let (it, s) ← compTargets fx fn define lhs.reverse s
    pure (lift (ie ++ it), s, false)
  | .assignBad, _, _ => none
  | .assignOp _ name ty rhs, s, _ =>
    if fx.assignOp then none else do
      let (ie, s) ← compE fx env fn rhs s
      let (it, s) ← compTargets fx fn false [(name, ty)] s
      pure (lift (ie ++ it), s, false)
  | .incdec inc name, s, _ =>
    match mapGet s.locals name with
    | none => none
    | some id => do
      let a ← op8 fx id
      pure ([.i (if inc then .incLocal a else .decLocal a)], s, false)
  | .incdecBad, _, _ => none
  | .ifThen c body, s, _ => do
    let (ic, s) ← compE fx env fn c s
    let (ib, s, lu) ← compS fx env fn inLoop body s false
    pure (lift ic ++ [.i (.jumpFalse ((3 + ssize ib : Nat) : Int))] ++ ib, s, if fx.ifJump then false else lu)
  | .ifElse c body els, s, _ => do
    let (ic, s) ← compE fx env fn c s
    let (ib, s, lu) ← compS fx env fn inLoop body s false
    let (ie, s, lu2) ← compS fx env fn inLoop els s (if fx.ifJump then false else true)
    let jmp : List SI := if lu then [] else [.i (.jump ((3 + ssize ie : Nat) : Int))]
    pure (lift ic ++ [.i (.jumpFalse ((3 + ssize ib + ssize jmp : Nat) : Int))] ++ ib ++ jmp ++ ie, s,
          if fx.ifJump then false else lu2)
  | .ifInit _ rest, s, lu => if fx.ifInit then none else compS fx env fn inLoop rest s lu
  | .forCond c body, s, _ => do
    let (ib, s, _) ← compS fx env fn true body s (if fx.ifJump then false else true)
    let (ic, s) ← compE fx env fn c s
    let body' := resolve ib (isize ic + 3)
    pure (lift ([.jump ((3 + isize body' : Nat) : Int)] ++ body' ++ ic ++
                [.jumpTrue (-((isize body' + isize ic : Nat) : Int))]), s, false)
  | .forEver body, s, lu => do
    let (ib, s, _) ← compS fx env fn true body s (if fx.ifJump then false else lu)
    let body' := resolve ib 3
    pure (lift (body' ++ [.jump (-((isize body' : Nat) : Int))]), s, if fx.ifJump then false else true)
  | .forClause hasInit hasCond hasPost _ _ _ body, s, lu =>
    if hasInit && hasCond && hasPost then none
    else if fx.forClause then none
    else do
      let (ib, s, _) ← compS fx env fn true body s (if fx.ifJump then false else lu)
      let body' := resolve ib 3
      pure (lift (body' ++ [.jump (-((isize body' : Nat) : Int))]), s, if fx.ifJump then false else true)
  | .brk, s, _ => if inLoop then some ([.brk], s, true) else none
  | .exprCall e, s, _ => do
    let (ie, s) ← compE fx env fn e s
    pure (lift ie, s, false)
  | .exprBad, _, _ => none
  | .block ss, s, lu => compSs fx env fn inLoop ss s lu
  | .bad, _, _ => none

def compSs (fx : Fixes) (env : CEnv) (fn : CFn) (inLoop : Bool) : List Stmt → SState → Bool → Option (List SI × SState × Bool)
  | [], s, lu => some ([], s, lu)
  | st :: ss, s, lu => do
    let (i1, s, lu) ← compS fx env fn inLoop st s lu
    let (i2, s, lu) ← compSs fx env fn inLoop ss s lu
    pure (i1 ++ i2, s, lu)
end

def jumpInRange : Instr → Bool
  | .jump o | .jumpFalse o | .jumpTrue o => decide (-32768 ≤ o) && decide (o ≤ 32767)
  | _ => true

/-- the instructions of a function and its pools -/
structure SFunc where
  instrs : List Instr
  consts : List Bytes
  intConsts : List Int64
  numObjectParams : Nat
  numIntParams : Nat
deriving Repr, DecidableEq, Inhabited

/-- the result type `compileFunc` works with: `void` for no results, none for several -/
def retTyOf : List Ty → Option Ty
  | [] => some Ty.void
  | [t] => some t
  | _ => none

def structCompile (fx : Fixes) (env : CEnv) (f : FuncDecl) : Option SFunc :=
  match retTyOf f.results with
  | none => none
  | some retTy =>
    if !isSupported retTy then none else
    match collectParams f.params [] [] with
    | .ok (ps, ips) =>
      let fnc : CFn := { retVoid := retTy == .void, params := ps, intParams := ips }
      match compS fx env fnc false f.body {} false with
      | none => none
      | some (sis, s, _) =>
        let is := resolve sis 0 ++ (if fnc.retVoid then [Instr.ret] else [])
        if fx.range && !(is.all jumpInRange) then none
        else some { instrs := is, consts := s.consts, intConsts := s.intConsts,
                    numObjectParams := ps.length, numIntParams := ips.length }
    | _ => none

def SFunc.toCFunc (f : SFunc) : CFunc :=
  { code := enc f.instrs, consts := f.consts, intConsts := f.intConsts,
    numObjectParams := f.numObjectParams, numIntParams := f.numIntParams }

end Q
