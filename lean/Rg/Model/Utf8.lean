import Rg.Base
/-!
# Mirror of the two `unicode/utf8` facts the text matchers and the regexp semantics rest on

* `decodeRune p`  = `utf8.DecodeRune(p)` : `(rune, width)`; `(0xFFFD, 0)` on empty input,
  `(0xFFFD, 1)` on any ill-formed prefix (over-long forms, surrogates, > U+10FFFF, truncated).
* `encodeRune r`  = `string(rune(r))` / `utf8.AppendRune` : surrogates and values above
  U+10FFFF are replaced by U+FFFD.

Runes are `Nat`s.  `unicode/utf8` is a trusted library; these definitions are tied to it by the
`utf8` suite of the C11 harness (exhaustive over all 1- and 2-byte prefixes and all runes
near the encoding boundaries, seeded elsewhere).
-/
namespace Utf8

def runeError : Nat := 0xFFFD

def isCont (b : Nat) : Bool := 0x80 ≤ b && b ≤ 0xBF

/-- two-byte form `110xxxxx 10xxxxxx` (lead byte `x` in C2..DF) -/
def dec2 (x b1 : Nat) : Nat × Nat :=
  if isCont b1 then ((x - 0xC0) * 64 + (b1 - 0x80), 2) else (runeError, 1)

/-- three-byte form (lead E0..EF; E0 needs A0..BF, ED needs 80..9F as second byte) -/
def dec3 (x b1 b2 : Nat) : Nat × Nat :=
  let lo := if x = 0xE0 then 0xA0 else 0x80
  let hi := if x = 0xED then 0x9F else 0xBF
  if lo ≤ b1 ∧ b1 ≤ hi ∧ isCont b2 then ((x - 0xE0) * 4096 + (b1 - 0x80) * 64 + (b2 - 0x80), 3)
  else (runeError, 1)

/-- four-byte form (lead F0..F4; F0 needs 90..BF, F4 needs 80..8F as second byte) -/
def dec4 (x b1 b2 b3 : Nat) : Nat × Nat :=
  let lo := if x = 0xF0 then 0x90 else 0x80
  let hi := if x = 0xF4 then 0x8F else 0xBF
  if lo ≤ b1 ∧ b1 ≤ hi ∧ isCont b2 ∧ isCont b3 then
    ((x - 0xF0) * 262144 + (b1 - 0x80) * 4096 + (b2 - 0x80) * 64 + (b3 - 0x80), 4)
  else (runeError, 1)

/-- `utf8.DecodeRune` -/
def decodeRune (p : Bytes) : Nat × Nat :=
  match p with
  | [] => (runeError, 0)
  | c0 :: rest =>
    let x := c0.toNat
    if x < 0x80 then (x, 1)
    else if x < 0xC2 then (runeError, 1)
    else if x < 0xE0 then
      match rest with
      | c1 :: _ => dec2 x c1.toNat
      | [] => (runeError, 1)
    else if x < 0xF0 then
      match rest with
      | c1 :: c2 :: _ => dec3 x c1.toNat c2.toNat
      | _ => (runeError, 1)
    else if x < 0xF5 then
      match rest with
      | c1 :: c2 :: c3 :: _ => dec4 x c1.toNat c2.toNat c3.toNat
      | _ => (runeError, 1)
    else (runeError, 1)

/-- a Unicode scalar value: what UTF-8 can encode -/
def validRune (r : Nat) : Bool := r < 0xD800 || (0xE000 ≤ r && r ≤ 0x10FFFF)

def byte (n : Nat) : UInt8 := UInt8.ofNat n

/-- `string(rune(r))` -/
def encodeRune (r : Nat) : Bytes :=
  if r < 0x80 then [byte r]
  else if r < 0x800 then [byte (0xC0 + r / 64), byte (0x80 + r % 64)]
  else if !validRune r then [0xEF, 0xBF, 0xBD]
  else if r < 0x10000 then [byte (0xE0 + r / 4096), byte (0x80 + r / 64 % 64), byte (0x80 + r % 64)]
  else [byte (0xF0 + r / 262144), byte (0x80 + r / 4096 % 64), byte (0x80 + r / 64 % 64), byte (0x80 + r % 64)]

/-- `string([]rune)` -/
def encodeRunes (rs : List Nat) : Bytes := rs.flatMap encodeRune

end Utf8
