import Rg.Base
/-!
# Model of `ruleguard/ast_walker.go` (+ `nodepath.go`)

A file is a `Tree`: every node carries its go/ast kind, an identity (`id`, its index in
`ast.Inspect` order), the struct field (`slot`) of its parent it sits in, and `attr` — for an
`IfStmt` the oracle answer the walker reads from go/types (0: condition not constant, 1: constant
true, 2: constant false).  `kids` are the non-nil children in `ast.Inspect` order.

`walk` transcribes `astWalker.walk`: push on the ancestor stack, visit (if the kind has a tag),
descend into the fields the `switch` case names, in that order (`Row.order`, regenerated from the
code by probing — `Rg/Gen/WalkTables.lean`), pop.  The `IfStmt` case (dead-code flag: save / set /
flip / restore) and the `FuncDecl` case (current function: save / set / restore) are transcribed by
hand.
-/
namespace Walk

inductive Tree
  | node (kind id slot attr : Nat) (kids : List Tree)
deriving Repr, Inhabited

namespace Tree
def kind : Tree → Nat | node k _ _ _ _ => k
def id   : Tree → Nat | node _ i _ _ _ => i
def slot : Tree → Nat | node _ _ s _ _ => s
def attr : Tree → Nat | node _ _ _ a _ => a
def kids : Tree → List Tree | node _ _ _ _ ks => ks
end Tree

/-- one `case` of the walker's type switch -/
structure Row where
  tag   : Option Nat    -- `w.visit(n, tag)`; none: the node is not visited
  order : List Nat      -- fields descended into, in order
deriving Repr, DecidableEq, Inhabited

structure Cfg where
  ifKind : Nat
  ifInit : Nat
  ifCond : Nat
  ifBody : Nat
  ifElse : Nat
  funcKind : Nat
deriving Repr, DecidableEq

/-- what the visit callback can observe (`VerifVisit`) -/
structure Visit where
  id      : Nat
  tag     : Nat
  dead    : Bool          -- filterParams.deadcode
  func    : Option Nat    -- filterParams.currentFunc (id of the FuncDecl)
  pathLen : Nat           -- nodePath.Len()
  parent  : Option Nat    -- nodePath.Parent()
deriving Repr, DecidableEq

/-- the walker's mutable state -/
structure WState where
  path : List Nat         -- nodePath.stack, innermost first
  dead : Bool
  func : Option Nat
deriving Repr, DecidableEq

def pushV (st : WState) (id : Nat) : WState := { st with path := id :: st.path }
def popV (st : WState) : WState := { st with path := st.path.tail }

/-- run `f` over a list of children, threading the state, concatenating the visits -/
def seqKids {α} (f : α → WState → List Visit × WState) : List α → WState → List Visit × WState
  | [], st => ([], st)
  | c :: cs, st =>
    let r := f c st
    let r' := seqKids f cs r.2
    (r.1 ++ r'.1, r'.2)

/-- children sitting in field `s` -/
def slotKids {α} (slotOf : α → Nat) (s : Nat) (kids : List α) : List α :=
  kids.filter (fun c => slotOf c == s)

/-- children in the order the walker descends into them -/
def orderedKids {α} (slotOf : α → Nat) (order : List Nat) (kids : List α) : List α :=
  order.flatMap (fun s => slotKids slotOf s kids)

def selfVisit (T : Nat → Row) (k id : Nat) (st : WState) : List Visit :=
  match (T k).tag with
  | some t => [{ id := id, tag := t, dead := st.dead, func := st.func,
                 pathLen := st.path.length, parent := st.path.tail.head? }]
  | none => []

/-- `astWalker.walk` -/
def walk (C : Cfg) (T : Nat → Row) : Tree → WState → List Visit × WState
  | .node k id _ attr kids, st0 =>
    let st := pushV st0 id                                   -- w.nodePath.Push(n); defer Pop()
    let self := selfVisit T k id st                          -- w.visit(n, tag)
    let sub (c : { c // c ∈ kids }) (s : WState) := walk C T c.1 s
    let A := kids.attach
    let so (c : { c // c ∈ kids }) := c.1.slot
    if k = C.ifKind then
      let r1 := seqKids sub (slotKids so C.ifInit A) st      -- if n.Init != nil { w.walk(n.Init) }
      let r2 := seqKids sub (slotKids so C.ifCond A) r1.2    -- w.walk(n.Cond)
      let deadcode := r2.2.dead                              -- deadcode := w.filterParams.deadcode
      if !deadcode && attr != 0 then                         -- if !deadcode { cv := …; if cv != nil {
        let s3 := { r2.2 with dead := !deadcode && (attr == 2) }   -- deadcode = !deadcode && !BoolVal(cv)
        let r3 := seqKids sub (slotKids so C.ifBody A) s3    -- w.walk(n.Body)
        let s4 := { r3.2 with dead := !r3.2.dead }           -- deadcode = !deadcode
        let r4 := seqKids sub (slotKids so C.ifElse A) s4    -- if n.Else != nil { w.walk(n.Else) }
        let s5 := { r4.2 with dead := deadcode }             -- deadcode = saved; return
        (self ++ r1.1 ++ r2.1 ++ r3.1 ++ r4.1, popV s5)
      else
        let r3 := seqKids sub (slotKids so C.ifBody A) r2.2
        let r4 := seqKids sub (slotKids so C.ifElse A) r3.2
        (self ++ r1.1 ++ r2.1 ++ r3.1 ++ r4.1, popV r4.2)
    else if k = C.funcKind then
      let prev := st.func                                    -- prevFunc := currentFunc
      let r := seqKids sub (orderedKids so (T k).order A) { st with func := some id }
      (self ++ r.1, popV { r.2 with func := prev })          -- currentFunc = prevFunc
    else
      let r := seqKids sub (orderedKids so (T k).order A) st
      (self ++ r.1, popV r.2)
termination_by t => sizeOf t
decreasing_by
  all_goals simp_wf
  all_goals (have := List.sizeOf_lt_of_mem c.2; omega)

/-- `astWalker.Walk(root, visit)` from a fresh walker: the visits in order -/
def trace (C : Cfg) (T : Nat → Row) (t : Tree) : List Visit :=
  (walk C T t { path := [], dead := false, func := none }).1

def tableOf (rows : List Row) (k : Nat) : Row := rows.getD k { tag := none, order := [] }

end Walk
