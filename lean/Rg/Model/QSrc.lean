import Rg.Base
/-!
# Rg.Model.QSrc — the Go subset `ruleguard/quasigo/compile.go` looks at, as an inductive

The harness serialises the *type-checked* `go/ast` of a function into this tree.  Everything the
compiler asks `go/types` for is an input recorded in the tree:

* a sub-expression with a constant value (`Types[e].Value != nil`) is a `c…` leaf carrying the value,
* `ty` annotations are the answers of `typeIsInt` / `typeIsString` / `isSupportedType` for the type
  `go/types` recorded (`Ty.int`, `Ty.str`; `Ty.bool`/`Ty.obj` = other supported; `Ty.bad` = unsupported),
* identifiers and function keys `(qualifier, name)` are numbered by the harness (`Nat`).

The single inductive nests only through `List` (calls, blocks) so that structural mutual recursion
and kernel evaluation (`decide`) work on it.
-/
namespace Q

inductive Ty | int | str | bool | obj | void | bad
deriving DecidableEq, Repr, Inhabited

inductive BinOp | lor | land | neq | eql | gtr | geq | lss | leq | add | sub | other
deriving DecidableEq, Repr, Inhabited

/-- what `compileCallExpr`/`compileNativeCall`/`compileCall` read off the callee's signature -/
structure CallInfo where
  key : Nat                -- (qualifier, name) of the resolved function
  nativeOnly : Bool        -- builtin `println` / field access: only the native table is consulted
  sigVariadic : Bool       -- `sig.Variadic()`
  variadic : Nat           -- `sig.Params().Len()-1` if variadic, else 0
  tupleArg : Nat           -- the single argument is a call: 1 = with more than one result, 2 = whose `Fun` has no
                           -- recorded signature (conversion, constant builtin call: the type assertion panics), 0 = neither
  res : Ty                 -- type of the first result, `void` when there is none
  argTys : List Ty         -- `TypeOf(arg)` of every argument
deriving DecidableEq, Repr, Inhabited

inductive Expr
  | cint (v : Int64)                       -- constant of kind Int (exact int64)
  | cstr (v : Bytes)                       -- constant of kind String
  | cbool (v : Bool) (lit : Bool)          -- constant of kind Bool; `lit` = it is the bare identifier true/false
  | cbad                                   -- constant of another kind / inexact
  | nil                                    -- the identifier `nil`
  | ident (name : Nat) (ty : Ty)
  | not (x : Expr)
  | bin (op : BinOp) (ty : Ty) (x y : Expr) -- `ty` = type of `x`
  | sliceAll (x : Expr)                    -- `x[:]`
  | sliceTo (xty : Ty) (x hi : Expr)
  | sliceFrom (xty : Ty) (x lo : Expr)
  | slice (xty : Ty) (x lo hi : Expr)
  | len (xty : Ty) (x : Expr)
  | call (ci : CallInfo) (recv : List Expr) (args : List Expr)   -- `recv` has 0 or 1 elements
  | bad                                    -- any other expression form
deriving Repr, Inhabited

inductive Stmt
  | ret (ty : Ty) (e : Expr)               -- `return e`; `ty` = type of `e`
  | retNone                                -- `return`
  | assign (define : Bool) (lhs : List (Nat × Ty)) (rhs : Expr)
  | assignBad                              -- several right operands or a non-identifier on the left
  | assignOp (op : BinOp) (name : Nat) (ty : Ty) (rhs : Expr)   -- `x += e`, `x -= e` (one identifier on the left)
  | incdec (inc : Bool) (name : Nat)
  | incdecBad
  | ifThen (c : Expr) (body : Stmt)
  | ifElse (c : Expr) (body els : Stmt)
  | ifInit (init : Stmt) (rest : Stmt)     -- `if init; c {…}`: `rest` is the ifThen/ifElse without the init
  | forCond (c : Expr) (body : Stmt)       -- `for c { … }`
  | forEver (body : Stmt)                  -- `for { … }`
  | forClause (hasInit hasCond hasPost : Bool) (init : Stmt) (c : Expr) (post : Stmt) (body : Stmt)
  | brk                                    -- unlabelled `break`
  | exprCall (e : Expr)                    -- expression statement: call of a function without results
  | exprBad
  | block (ss : List Stmt)
  | bad                                    -- any other statement (continue, labelled break, var decl, …)
deriving Repr, Inhabited

structure FuncDecl where
  key : Nat
  params : List (Nat × Ty)
  results : List Ty
  body : Stmt
deriving Repr, Inhabited

/-- The repairs of the defects found in the unchanged code; all `false` = the code as it is. -/
structure Fixes where
  frame : Bool      -- eval.go: pop the callee frame after opCall/opIntCall/opVoidCall
  ifJump : Bool     -- compile.go: bindLabel resets lastOp (the peephole in compileIfStmt)
  orPop : Bool      -- compile.go: compileOr/compileAnd pop the duplicated operand
  range : Bool      -- compile.go: 8-bit operands / 16-bit offsets that do not fit are compile errors
  shadow : Bool     -- compile.go: a local may not shadow a parameter
  forClause : Bool  -- compile.go: `for` with an init or post statement is rejected
  assignOp : Bool   -- compile.go: `x op= e` is rejected (it is compiled as `x = e`)
  ifInit : Bool     -- compile.go: `if init; cond` is rejected (the init statement is dropped)
  argSig : Bool     -- compile.go: compileNativeCall tests the signature assertion instead of panicking
deriving DecidableEq, Repr, Inhabited

def Fixes.asis : Fixes := ⟨false, false, false, false, false, false, false, false, false⟩
def Fixes.all : Fixes := ⟨true, true, true, true, true, true, true, true, true⟩

end Q
