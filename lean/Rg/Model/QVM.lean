import Rg.Model.QCompile
/-!
# Rg.Model.QVM — transcription of `ruleguard/quasigo/eval.go` (and `quasigo.Call`)

Split object/int stacks shared between frames (top of stack = head of the list), frame-relative
parameters (`top`/`intTop` count from the bottom), 8 locals of each kind per frame, 16-bit relative
jumps, calls that recurse into `eval` on the same stack.  Every Go run-time panic the interpreter can
raise on arbitrary bytecode (index, type assertion, `reflect` misuse, malformed opcode) is a
`panic` outcome.  Termination by fuel: one unit per instruction, a call runs the callee with the
remaining fuel.
-/
namespace Q

/-- values of the object stack (`interface{}`) -/
inductive Obj
  | str (b : Bytes)
  | bool (b : Bool)
  | nil
  | int (i : Int64)                 -- boxed by opConvIntToIface
  | err (kind : Nat) (s : Bytes)    -- a non-nil `error` produced by a native
deriving DecidableEq, Repr, Inhabited

structure Stack where
  objs : List Obj := []
  ints : List Int64 := []
  variadicLen : Nat := 0
deriving DecidableEq, Repr, Inhabited

/-- `CallResult` -/
structure CallResult where
  value : Obj := .nil
  scalar : Int64 := 0
deriving DecidableEq, Repr, Inhabited

inductive Out (α : Type)
  | done (a : α)
  | panic (p : Panic)
  | fuel                            -- out of fuel
  | unsup                           -- a native the model does not implement was called
deriving DecidableEq, Repr

inductive Instr
  | pop | dup
  | pushParam (i : Nat) | pushIntParam (i : Nat)
  | pushLocal (i : Nat) | pushIntLocal (i : Nat)
  | pushFalse | pushTrue
  | pushConst (i : Nat) | pushIntConst (i : Nat)
  | convIntToIface
  | setLocal (i : Nat) | setIntLocal (i : Nat)
  | incLocal (i : Nat) | decLocal (i : Nat)
  | returnTop | returnIntTop | returnFalse | returnTrue | ret
  | jump (off : Int) | jumpFalse (off : Int) | jumpTrue (off : Int)
  | setVariadicLen (n : Nat)
  | callNative (id : Int) | call (id : Int) | intCall (id : Int) | voidCall (id : Int)
  | isNil | isNotNil | not
  | eqInt | notEqInt | gtInt | gtEqInt | ltInt | ltEqInt
  | eqString | notEqString | concat | add | sub
  | stringSlice | stringSliceFrom | stringSliceTo | stringLen
deriving DecidableEq, Repr, Inhabited

/-- `code[pc]` -/
def byteAt (code : Bytes) (pc : Int) : Res Nat :=
  if pc < 0 then .panic .index else
  match code[pc.toNat]? with
  | some b => .ok b.toNat
  | none => .panic .index

/-- `decode16(code, pos)`: little-endian, sign-extended -/
def decode16 (code : Bytes) (pos : Int) : Res Int :=
  if pos < 0 then .panic .slice else
  -- `code[pos:]` panics with a slice error when pos > len; Uint16 panics with an index error when short
  if pos.toNat > code.length then .panic .slice else
  match code[pos.toNat]?, code[pos.toNat + 1]? with
  | some a, some b =>
    let u := a.toNat + 256 * b.toNat
    .ok (if u ≥ 32768 then (u : Int) - 65536 else (u : Int))
  | _, _ => .panic .index

/-- fetch and decode the instruction at `pc` the way the big `switch` of `eval` reads it -/
def decodeAt (code : Bytes) (pc : Int) : Res Instr := do
  let op ← byteAt code pc
  let u8 (k : Nat → Instr) : Res Instr := do let a ← byteAt code (pc + 1); pure (k a)
  let i16 (k : Int → Instr) : Res Instr := do let a ← decode16 code (pc + 1); pure (k a)
  if op = Opc.Pop then pure .pop
  else if op = Opc.Dup then pure .dup
  else if op = Opc.PushParam then u8 .pushParam
  else if op = Opc.PushIntParam then u8 .pushIntParam
  else if op = Opc.PushLocal then u8 .pushLocal
  else if op = Opc.PushIntLocal then u8 .pushIntLocal
  else if op = Opc.PushFalse then pure .pushFalse
  else if op = Opc.PushTrue then pure .pushTrue
  else if op = Opc.PushConst then u8 .pushConst
  else if op = Opc.PushIntConst then u8 .pushIntConst
  else if op = Opc.ConvIntToIface then pure .convIntToIface
  else if op = Opc.SetLocal then u8 .setLocal
  else if op = Opc.SetIntLocal then u8 .setIntLocal
  else if op = Opc.IncLocal then u8 .incLocal
  else if op = Opc.DecLocal then u8 .decLocal
  else if op = Opc.ReturnTop then pure .returnTop
  else if op = Opc.ReturnIntTop then pure .returnIntTop
  else if op = Opc.ReturnFalse then pure .returnFalse
  else if op = Opc.ReturnTrue then pure .returnTrue
  else if op = Opc.Return then pure .ret
  else if op = Opc.Jump then i16 .jump
  else if op = Opc.JumpFalse then i16 .jumpFalse
  else if op = Opc.JumpTrue then i16 .jumpTrue
  else if op = Opc.SetVariadicLen then u8 .setVariadicLen
  else if op = Opc.CallNative then i16 .callNative
  else if op = Opc.Call then i16 .call
  else if op = Opc.IntCall then i16 .intCall
  else if op = Opc.VoidCall then i16 .voidCall
  else if op = Opc.IsNil then pure .isNil
  else if op = Opc.IsNotNil then pure .isNotNil
  else if op = Opc.Not then pure .not
  else if op = Opc.EqInt then pure .eqInt
  else if op = Opc.NotEqInt then pure .notEqInt
  else if op = Opc.GtInt then pure .gtInt
  else if op = Opc.GtEqInt then pure .gtEqInt
  else if op = Opc.LtInt then pure .ltInt
  else if op = Opc.LtEqInt then pure .ltEqInt
  else if op = Opc.EqString then pure .eqString
  else if op = Opc.NotEqString then pure .notEqString
  else if op = Opc.Concat then pure .concat
  else if op = Opc.Add then pure .add
  else if op = Opc.Sub then pure .sub
  else if op = Opc.StringSlice then pure .stringSlice
  else if op = Opc.StringSliceFrom then pure .stringSliceFrom
  else if op = Opc.StringSliceTo then pure .stringSliceTo
  else if op = Opc.StringLen then pure .stringLen
  else .panic .explicit

/-! ### stack primitives (`ValueStack`) -/

def pushObj (o : Obj) (st : Stack) : Stack := { st with objs := o :: st.objs }
def pushInt (i : Int64) (st : Stack) : Stack := { st with ints := i :: st.ints }

def popObj (st : Stack) : Res (Obj × Stack) :=
  match st.objs with
  | o :: rest => .ok (o, { st with objs := rest })
  | [] => .panic .index

def popInt (st : Stack) : Res (Int64 × Stack) :=
  match st.ints with
  | i :: rest => .ok (i, { st with ints := rest })
  | [] => .panic .index

def asBool : Obj → Res Bool
  | .bool b => .ok b
  | _ => .panic .typeAssert

def asStr : Obj → Res Bytes
  | .str b => .ok b
  | _ => .panic .typeAssert

def popBool (st : Stack) : Res (Bool × Stack) := do
  let (o, st) ← popObj st
  let b ← asBool o
  pure (b, st)

def popStr (st : Stack) : Res (Bytes × Stack) := do
  let (o, st) ← popObj st
  let b ← asStr o
  pure (b, st)

/-- `pop2`: both elements are read before the stack is cut -/
def pop2 (st : Stack) : Res (Obj × Obj × Stack) :=
  match st.objs with
  | y :: x :: rest => .ok (x, y, { st with objs := rest })
  | _ => .panic .index

def popInt2 (st : Stack) : Res (Int64 × Int64 × Stack) :=
  match st.ints with
  | y :: x :: rest => .ok (x, y, { st with ints := rest })
  | _ => .panic .index

/-- element `i` counted from the bottom of a stack whose top is the head -/
def fromBottom {α} (l : List α) (i : Int) : Res α :=
  if i < 0 then .panic .index else
  if i.toNat < l.length then
    match l[l.length - 1 - i.toNat]? with
    | some a => .ok a
    | none => .panic .index
  else .panic .index

/-- `s = s[:n]` on a stack whose top is the head (`n` counted from the bottom) -/
def truncTo {α} (l : List α) (n : Int) : Res (List α) :=
  if n < 0 then .panic .slice
  else if n.toNat ≤ l.length then .ok (l.drop (l.length - n.toNat))
  else .panic .slice      -- beyond the length (capacity is not modelled)

def strSlice (s : Bytes) (lo hi : Int64) : Res Bytes := goSlice s lo.toInt hi.toInt

def lenInt (s : Bytes) : Int64 := Int64.ofNat s.length

/-- `x == nil || reflect.ValueOf(x).IsNil()` -/
def objIsNil : Obj → Res Bool
  | .nil => .ok true
  | .err _ _ => .ok false
  | _ => .panic .explicit     -- reflect: call of reflect.Value.IsNil on string/bool/int Value

/-- `x != nil && !reflect.ValueOf(x).IsNil()` -/
def objIsNotNil : Obj → Res Bool
  | .nil => .ok false
  | .err _ _ => .ok true
  | _ => .panic .explicit

/-! ### natives -/

inductive Native
  | hasPrefix | hasSuffix | contains | trimPrefix | trimSuffix | replace | replaceAll | itoa | atoi | sprintf | unknown
deriving DecidableEq, Repr, Inhabited

def isPrefixB (p s : Bytes) : Bool := p.isPrefixOf s
def isSuffixB (p s : Bytes) : Bool := p.isSuffixOf s

def containsB : Bytes → Bytes → Bool
  | [], sub => sub.isEmpty
  | c :: s, sub => sub.isPrefixOf (c :: s) || containsB s sub

def digitsAux : Nat → Nat → Bytes → Bytes
  | 0, _, acc => acc
  | fuel + 1, n, acc =>
    let acc := UInt8.ofNat (48 + n % 10) :: acc
    if n / 10 = 0 then acc else digitsAux fuel (n / 10) acc

/-- `strconv.Itoa` -/
def itoaB (i : Int64) : Bytes :=
  let v := i.toInt
  if v < 0 then 45 :: digitsAux 20 v.natAbs [] else digitsAux 20 v.toNat []

/-- `strings.Replace(s, old, new, n)` for a non-empty `old` (`n < 0`: all occurrences); `fuel ≥ |s| + 1` -/
def replaceAux : Nat → Bytes → Bytes → Bytes → Int → Bytes
  | 0, s, _, _, _ => s
  | f + 1, s, old, new, n =>
    if n = 0 then s else
    match s with
    | [] => []
    | c :: rest =>
      if old.isPrefixOf (c :: rest) then new ++ replaceAux f ((c :: rest).drop old.length) old new (n - 1)
      else c :: replaceAux f rest old new n

/-- `none`: empty `old` (rune-wise insertion is not modelled) -/
def replaceB (s old new : Bytes) (n : Int) : Option Bytes :=
  if old.isEmpty then none else some (replaceAux (s.length + 1) s old new n)

def digitsVal : Bytes → Nat → Option Nat
  | [], acc => some acc
  | c :: cs, acc => if 48 ≤ c.toNat ∧ c.toNat ≤ 57 then digitsVal cs (acc * 10 + (c.toNat - 48)) else none

/-- `strconv.Atoi`: the value and the error class (0 = nil, 1 = syntax error, 2 = out of range) -/
def atoiB (s : Bytes) : Int64 × Nat :=
  let (neg, body) := match s with
    | 45 :: rest => (true, rest)
    | 43 :: rest => (false, rest)
    | _ => (false, s)
  if body.isEmpty then (0, 1) else
  match digitsVal body 0 with
  | none => (0, 1)
  | some n =>
    if neg then
      if n > 9223372036854775808 then (Int64.ofInt (-9223372036854775808), 2) else (Int64.ofInt (-(n : Int)), 0)
    else
      if n > 9223372036854775807 then (Int64.ofInt 9223372036854775807, 2) else (Int64.ofInt n, 0)

/-- `fmt.Sprintf` for the verbs `%s` (string operand), `%d` (int operand), `%v` (string, int or bool operand)
and `%%`, with exactly as many operands as verbs; anything else has no model (`none`) -/
def sprintfB : Bytes → List Obj → Option Bytes
  | [], [] => some []
  | [], _ :: _ => none
  | 37 :: 37 :: rest, args => (sprintfB rest args).map (37 :: ·)
  | 37 :: 115 :: rest, .str s :: args => (sprintfB rest args).map (s ++ ·)
  | 37 :: 100 :: rest, .int i :: args => (sprintfB rest args).map (itoaB i ++ ·)
  | 37 :: 118 :: rest, .str s :: args => (sprintfB rest args).map (s ++ ·)
  | 37 :: 118 :: rest, .int i :: args => (sprintfB rest args).map (itoaB i ++ ·)
  | 37 :: 118 :: rest, .bool b :: args =>
    (sprintfB rest args).map ((if b then [116, 114, 117, 101] else [102, 97, 108, 115, 101]) ++ ·)
  | 37 :: _, _ => none
  | c :: rest, args => (sprintfB rest args).map (c :: ·)

/-- the bindings of stdlib/qstrings, qstrconv, qfmt: pop order and type assertions as in the Go code -/
def runNative (n : Native) (st : Stack) : Out Stack :=
  let lift (r : Res Stack) : Out Stack := match r with | .ok s => .done s | .panic p => .panic p
  match n with
  | .hasPrefix => lift do
      let (p, st) ← popStr st; let (s, st) ← popStr st; pure (pushObj (.bool (isPrefixB p s)) st)
  | .hasSuffix => lift do
      let (p, st) ← popStr st; let (s, st) ← popStr st; pure (pushObj (.bool (isSuffixB p s)) st)
  | .contains => lift do
      let (p, st) ← popStr st; let (s, st) ← popStr st; pure (pushObj (.bool (containsB s p)) st)
  | .trimPrefix => lift do
      let (p, st) ← popStr st; let (s, st) ← popStr st
      pure (pushObj (.str (if isPrefixB p s then s.drop p.length else s)) st)
  | .trimSuffix => lift do
      let (p, st) ← popStr st; let (s, st) ← popStr st
      pure (pushObj (.str (if isSuffixB p s then s.take (s.length - p.length) else s)) st)
  | .itoa => lift do
      let (i, st) ← popInt st; pure (pushObj (.str (itoaB i)) st)
  | .replace =>
    match (do let (n, st) ← popInt st; let (nw, st) ← popStr st; let (old, st) ← popStr st; let (s, st) ← popStr st
              pure (n, nw, old, s, st) : Res (Int64 × Bytes × Bytes × Bytes × Stack)) with
    | .panic p => .panic p
    | .ok (n, nw, old, s, st) =>
      match replaceB s old nw n.toInt with
      | some r => .done (pushObj (.str r) st)
      | none => .unsup
  | .replaceAll =>
    match (do let (nw, st) ← popStr st; let (old, st) ← popStr st; let (s, st) ← popStr st
              pure (nw, old, s, st) : Res (Bytes × Bytes × Bytes × Stack)) with
    | .panic p => .panic p
    | .ok (nw, old, s, st) =>
      match replaceB s old nw (-1) with
      | some r => .done (pushObj (.str r) st)
      | none => .unsup
  | .atoi => lift do
      -- s := stack.Pop().(string); v, err := strconv.Atoi(s); stack.PushInt(v); stack.Push(err)
      let (s, st) ← popStr st
      let (v, e) := atoiB s
      pure (pushObj (if e = 0 then .nil else .err e s) (pushInt v st))
  | .sprintf =>
    -- args := stack.PopVariadic(); format := stack.Pop().(string)
    if st.objs.length < st.variadicLen then .panic .slice else
    let args := (st.objs.take st.variadicLen).reverse
    match popStr { st with objs := st.objs.drop st.variadicLen } with
    | .panic p => .panic p
    | .ok (format, st) =>
      match sprintfB format args with
      | some r => .done (pushObj (.str r) st)
      | none => .unsup
  | .unknown => .unsup

/-- run-time environment (`EvalEnv` minus the stack) -/
structure VEnv where
  natives : List Native
  funcs : List CFunc
deriving Repr, Inhabited

structure Frame where
  top : Int
  intTop : Int
  locals : List Obj
  intLocals : List Int64
deriving DecidableEq, Repr, Inhabited

def newFrame (top intTop : Int) : Frame :=
  { top := top, intTop := intTop, locals := List.replicate Opc.maxLocals .nil,
    intLocals := List.replicate Opc.maxLocals 0 }

def getIdx {α} (l : List α) (i : Nat) : Res α :=
  match l[i]? with
  | some a => .ok a
  | none => .panic .index

def setIdx {α} (l : List α) (i : Nat) (a : α) : Res (List α) :=
  if i < l.length then .ok (l.set i a) else .panic .index

/-- what one instruction other than a call or a return does -/
inductive Next
  | cont (fr : Frame) (st : Stack) (pc : Int)
  | ret (r : CallResult) (st : Stack)
  | call (id : Int) (kind : Nat)          -- 0 = opCall, 1 = opIntCall, 2 = opVoidCall
  | native (id : Int)
deriving Repr

def cmpInt (f : Int64 → Int64 → Bool) (fr : Frame) (st : Stack) (pc : Int) : Res Next := do
  let (x, y, st) ← popInt2 st
  pure (.cont fr (pushObj (.bool (f x y)) st) (pc + 1))

def step (f : CFunc) (fr : Frame) (st : Stack) (pc : Int) : Instr → Res Next
  | .pushParam i => do
    let v ← fromBottom st.objs (fr.top + i)
    pure (.cont fr (pushObj v st) (pc + 2))
  | .pushIntParam i => do
    let v ← fromBottom st.ints (fr.intTop + i)
    pure (.cont fr (pushInt v st) (pc + 2))
  | .pushLocal i => do
    let v ← getIdx fr.locals i
    pure (.cont fr (pushObj v st) (pc + 2))
  | .pushIntLocal i => do
    let v ← getIdx fr.intLocals i
    pure (.cont fr (pushInt v st) (pc + 2))
  | .setLocal i => do
    -- `locals[index] = stack.Pop()`: the index expression is evaluated (and bounds-checked) after the pop
    let (v, st) ← popObj st
    let ls ← setIdx fr.locals i v
    pure (.cont { fr with locals := ls } st (pc + 2))
  | .setIntLocal i => do
    let (v, st) ← popInt st
    let ls ← setIdx fr.intLocals i v
    pure (.cont { fr with intLocals := ls } st (pc + 2))
  | .incLocal i => do
    let v ← getIdx fr.intLocals i
    let ls ← setIdx fr.intLocals i (v + 1)
    pure (.cont { fr with intLocals := ls } st (pc + 2))
  | .decLocal i => do
    let v ← getIdx fr.intLocals i
    let ls ← setIdx fr.intLocals i (v - 1)
    pure (.cont { fr with intLocals := ls } st (pc + 2))
  | .pop =>
    match st.objs with
    | _ :: rest => pure (.cont fr { st with objs := rest } (pc + 1))
    | [] => .panic .slice          -- `s.objects[:len-1]` with len = 0
  | .dup =>
    match st.objs with
    | o :: _ => pure (.cont fr (pushObj o st) (pc + 1))
    | [] => .panic .index
  | .pushConst i => do
    let v ← getIdx f.consts i
    pure (.cont fr (pushObj (.str v) st) (pc + 2))
  | .pushIntConst i => do
    let v ← getIdx f.intConsts i
    pure (.cont fr (pushInt v st) (pc + 2))
  | .convIntToIface => do
    let (v, st) ← popInt st
    pure (.cont fr (pushObj (.int v) st) (pc + 1))
  | .pushTrue => pure (.cont fr (pushObj (.bool true) st) (pc + 1))
  | .pushFalse => pure (.cont fr (pushObj (.bool false) st) (pc + 1))
  | .returnTrue => pure (.ret { value := .bool true } st)
  | .returnFalse => pure (.ret { value := .bool false } st)
  | .returnTop =>
    match st.objs with
    | o :: _ => pure (.ret { value := o } st)
    | [] => .panic .index
  | .returnIntTop =>
    match st.ints with
    | i :: _ => pure (.ret { scalar := i } st)
    | [] => .panic .index
  | .ret => pure (.ret {} st)
  | .setVariadicLen n => pure (.cont fr { st with variadicLen := n } (pc + 2))
  | .callNative id => pure (.native id)
  | .call id => pure (.call id 0)
  | .intCall id => pure (.call id 1)
  | .voidCall id => pure (.call id 2)
  | .jump off => pure (.cont fr st (pc + off))
  | .jumpFalse off => do
    let (b, st) ← popBool st
    pure (.cont fr st (if !b then pc + off else pc + 3))
  | .jumpTrue off => do
    let (b, st) ← popBool st
    pure (.cont fr st (if b then pc + off else pc + 3))
  | .not => do
    let (b, st) ← popBool st
    pure (.cont fr (pushObj (.bool (!b)) st) (pc + 1))
  | .concat => do
    let (x, y, st) ← pop2 st
    let x ← asStr x
    let y ← asStr y
    pure (.cont fr (pushObj (.str (x ++ y)) st) (pc + 1))
  | .add => do
    let (x, y, st) ← popInt2 st
    pure (.cont fr (pushInt (x + y) st) (pc + 1))
  | .sub => do
    let (x, y, st) ← popInt2 st
    pure (.cont fr (pushInt (x - y) st) (pc + 1))
  | .eqInt => cmpInt (fun x y => x == y) fr st pc
  | .notEqInt => cmpInt (fun x y => x != y) fr st pc
  | .gtInt => cmpInt (fun x y => decide (x > y)) fr st pc
  | .gtEqInt => cmpInt (fun x y => decide (x ≥ y)) fr st pc
  | .ltInt => cmpInt (fun x y => decide (x < y)) fr st pc
  | .ltEqInt => cmpInt (fun x y => decide (x ≤ y)) fr st pc
  | .eqString => do
    let (x, y, st) ← pop2 st
    let x ← asStr x
    let y ← asStr y
    pure (.cont fr (pushObj (.bool (x == y)) st) (pc + 1))
  | .notEqString => do
    let (x, y, st) ← pop2 st
    let x ← asStr x
    let y ← asStr y
    pure (.cont fr (pushObj (.bool (x != y)) st) (pc + 1))
  | .isNil => do
    let (x, st) ← popObj st
    let b ← objIsNil x
    pure (.cont fr (pushObj (.bool b) st) (pc + 1))
  | .isNotNil => do
    let (x, st) ← popObj st
    let b ← objIsNotNil x
    pure (.cont fr (pushObj (.bool b) st) (pc + 1))
  | .stringSlice => do
    let (to, st) ← popInt st
    let (from_, st) ← popInt st
    let (s, st) ← popStr st
    let r ← strSlice s from_ to
    pure (.cont fr (pushObj (.str r) st) (pc + 1))
  | .stringSliceFrom => do
    let (from_, st) ← popInt st
    let (s, st) ← popStr st
    let r ← strSlice s from_ (lenInt s)
    pure (.cont fr (pushObj (.str r) st) (pc + 1))
  | .stringSliceTo => do
    let (to, st) ← popInt st
    let (s, st) ← popStr st
    let r ← strSlice s 0 to
    pure (.cont fr (pushObj (.str r) st) (pc + 1))
  | .stringLen => do
    let (s, st) ← popStr st
    pure (.cont fr (pushInt (lenInt s) st) (pc + 1))

/-- `env.userFuncs[id]` / `env.nativeFuncs[id]`: `id` is a decoded int16, negative ids panic -/
def funcAt {α} (l : List α) (id : Int) : Res α :=
  if id < 0 then .panic .index else getIdx l id.toNat

/-- `eval(env, fn, top, intTop)` from `pc` on: `fuel` bounds the instructions executed in this frame
and the depth/length of the calls made from it -/
def run (fx : Fixes) (env : VEnv) : Nat → CFunc → Frame → Int → Stack → Out (CallResult × Stack)
  | 0, _, _, _, _ => .fuel
  | n + 1, f, fr, pc, st =>
    match decodeAt f.code pc with
    | .panic p => .panic p
    | .ok ins =>
      match step f fr st pc ins with
      | .panic p => .panic p
      | .ok (.cont fr st pc) => run fx env n f fr pc st
      | .ok (.ret r st) => .done (r, st)
      | .ok (.native id) =>
        match funcAt env.natives id with
        | .panic p => .panic p
        | .ok nat =>
          match runNative nat st with
          | .done st => run fx env n f fr (pc + 3) st
          | .panic p => .panic p
          | .fuel => .fuel
          | .unsup => .unsup
      | .ok (.call id kind) =>
        match funcAt env.funcs id with
        | .panic p => .panic p
        | .ok g =>
          let top : Int := (st.objs.length : Int) - g.numObjectParams
          let intTop : Int := (st.ints.length : Int) - g.numIntParams
          match run fx env n g (newFrame top intTop) 0 st with
          | .done (r, st) =>
            -- repaired variant: cut both stacks back to the callee's frame base
            match (if fx.frame then
                     (do let o ← truncTo st.objs top; let i ← truncTo st.ints intTop
                         pure { st with objs := o, ints := i } : Res Stack)
                   else .ok st) with
            | .panic p => .panic p
            | .ok st =>
              let st := if kind = 0 then pushObj r.value st
                        else if kind = 1 then pushInt r.scalar st else st
              run fx env n f fr (pc + 3) st
          | .panic p => .panic p
          | .fuel => .fuel
          | .unsup => .unsup

/-- `quasigo.Call`: run from the bottom frame; the stacks are cut back to the arguments afterwards,
so only the result is observable -/
def callFunc (fx : Fixes) (env : VEnv) (fuel : Nat) (f : CFunc) (args : Stack) : Out CallResult :=
  match run fx env fuel f (newFrame 0 0) 0 args with
  | .done (r, _) => .done r
  | .panic p => .panic p
  | .fuel => .fuel
  | .unsup => .unsup

end Q
