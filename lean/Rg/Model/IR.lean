import Rg.Base
import Rg.Gen.IROpNames
/-!
# Lean mirror of `ruleguard/ir/ir.go` (core Lean only)

Go `string` = `Bytes`; Go `int` = `Int`; `FilterOp` = `Nat` (negative numbers are modelled out: they
behave like any other number outside the name table); `FilterExpr.Value interface{}` = `Val`
(the dynamic types the converter produces: none, `string`, `int64`).

A Go slice is a list **plus one bit**: `reflect.Value.IsZero` (which decides whether `irprint`
prints a field at all) distinguishes the nil slice from the empty non-nil one
(`strings.Fields("")`, `[]T{}`), so the mirror keeps `nn` ("non-nil although empty").  The bit is
meaningless when the list is non-empty.  `normalize` clears it everywhere: that is the
"nil and empty slices identified" of the property.
-/

namespace IR

structure Sl (α : Type) where
  elems : List α
  nn : Bool
deriving DecidableEq, Repr

/-- `v.IsNil()` of a slice value -/
def Sl.isNil {α} (s : Sl α) : Bool := s.elems.isEmpty && !s.nn

def Sl.nil {α} : Sl α := ⟨[], false⟩
def Sl.norm {α} (s : Sl α) : Sl α := ⟨s.elems, false⟩
def Sl.map {α β} (f : α → β) (s : Sl α) : Sl β := ⟨s.elems.map f, s.nn⟩

inductive Val
  | nil
  | str (b : Bytes)
  | int64 (n : Int)
deriving DecidableEq, Repr

/-- `ir.FilterExpr`; `args`/`argsNN` together are the slice `Args` (see `Sl`). -/
inductive FilterExpr
  | mk (line : Int) (op : Nat) (src : Bytes) (value : Val) (args : List FilterExpr) (argsNN : Bool)
deriving Repr

namespace FilterExpr
def line : FilterExpr → Int | .mk l _ _ _ _ _ => l
def op : FilterExpr → Nat | .mk _ o _ _ _ _ => o
def src : FilterExpr → Bytes | .mk _ _ s _ _ _ => s
def value : FilterExpr → Val | .mk _ _ _ v _ _ => v
def args : FilterExpr → List FilterExpr | .mk _ _ _ _ a _ => a
def argsNN : FilterExpr → Bool | .mk _ _ _ _ _ n => n
def argsSl (e : FilterExpr) : Sl FilterExpr := ⟨e.args, e.argsNN⟩

/-- the zero value `ir.FilterExpr{}` -/
def zero : FilterExpr := .mk 0 0 [] .nil [] false

mutual
def decEq : (a b : FilterExpr) → Decidable (a = b)
  | .mk l o s v as nn, .mk l' o' s' v' as' nn' =>
    if h1 : l = l' then if h2 : o = o' then if h3 : s = s' then if h4 : v = v' then if h5 : nn = nn' then
      match decEqList as as' with
      | isTrue h => isTrue (by subst h1 h2 h3 h4 h5 h; rfl)
      | isFalse h => isFalse (by intro e; cases e; exact h rfl)
    else isFalse (by intro e; cases e; exact h5 rfl)
    else isFalse (by intro e; cases e; exact h4 rfl)
    else isFalse (by intro e; cases e; exact h3 rfl)
    else isFalse (by intro e; cases e; exact h2 rfl)
    else isFalse (by intro e; cases e; exact h1 rfl)
def decEqList : (a b : List FilterExpr) → Decidable (a = b)
  | [], [] => isTrue rfl
  | [], _::_ => isFalse (by intro h; cases h)
  | _::_, [] => isFalse (by intro h; cases h)
  | a::as, b::bs =>
    match decEq a b, decEqList as bs with
    | isTrue h1, isTrue h2 => isTrue (by subst h1 h2; rfl)
    | isFalse h1, _ => isFalse (by intro e; cases e; exact h1 rfl)
    | _, isFalse h2 => isFalse (by intro e; cases e; exact h2 rfl)
end
instance : DecidableEq FilterExpr := decEq
end FilterExpr

structure PatternString where
  line : Int
  value : Bytes
deriving DecidableEq, Repr

structure PackageImport where
  path : Bytes
  name : Bytes
deriving DecidableEq, Repr

structure Rule where
  line : Int
  syntaxPatterns : Sl PatternString
  commentPatterns : Sl PatternString
  reportTemplate : Bytes
  suggestTemplate : Bytes
  doFuncName : Bytes
  whereExpr : FilterExpr
  locationVar : Bytes
deriving DecidableEq, Repr

structure RuleGroup where
  line : Int
  name : Bytes
  matcherName : Bytes
  docTags : Sl Bytes
  docSummary : Bytes
  docBefore : Bytes
  docAfter : Bytes
  docNote : Bytes
  imports : Sl PackageImport
  rules : Sl Rule
deriving DecidableEq, Repr

structure BundleImport where
  line : Int
  pkgPath : Bytes
  pfx : Bytes          -- field `Prefix`
deriving DecidableEq, Repr

structure File where
  pkgPath : Bytes
  ruleGroups : Sl RuleGroup
  customDecls : Sl Bytes
  bundleImports : Sl BundleImport
deriving DecidableEq, Repr

/-! ## The op-name table (regenerated: `Rg/Gen/IROpNames.lean`) -/

/-- `FilterOp.String()`: `filterOpNames[op]`, the empty string for a number not in the map. -/
def opName (op : Nat) : String := (Gen.irOpNames.lookup op).getD ""

/-- the identifier `irprint` writes for an op: `Filter%sOp` -/
def opIdent (op : Nat) : String := "Filter" ++ opName op ++ "Op"

/-- the constant `ir.Filter<name>Op` (0 if the table has no such name: the model then never takes
the branch, which the correspondence would notice) -/
def opNamed (name : String) : Nat :=
  ((Gen.irOpNames.find? (fun p => p.2 == name)).map (·.1)).getD 0

def opString : Nat := opNamed "String"
def opVarPure : Nat := opNamed "VarPure"
def opVarText : Nat := opNamed "VarText"

/-- the ops `irprint` prints in its one-line form -/
def isCompactOp (op : Nat) : Bool := op == opString || op == opVarPure || op == opVarText

/-! ## Zero values (`reflect.Value.IsZero`) -/

def Val.isZero : Val → Bool | .nil => true | _ => false

/-- `IsZero` of a struct: every field zero; of a slice: nil; of an interface: nil. -/
def FilterExpr.isZero : FilterExpr → Bool
  | .mk l o s v as nn => l == 0 && o == 0 && s.isEmpty && v.isZero && (as.isEmpty && !nn)

def PatternString.isZero (p : PatternString) : Bool := p.line == 0 && p.value.isEmpty
def PackageImport.isZero (p : PackageImport) : Bool := p.path.isEmpty && p.name.isEmpty
def Rule.isZero (r : Rule) : Bool :=
  r.line == 0 && r.syntaxPatterns.isNil && r.commentPatterns.isNil && r.reportTemplate.isEmpty &&
  r.suggestTemplate.isEmpty && r.doFuncName.isEmpty && r.whereExpr.isZero && r.locationVar.isEmpty
def RuleGroup.isZero (g : RuleGroup) : Bool :=
  g.line == 0 && g.name.isEmpty && g.matcherName.isEmpty && g.docTags.isNil && g.docSummary.isEmpty &&
  g.docBefore.isEmpty && g.docAfter.isEmpty && g.docNote.isEmpty && g.imports.isNil && g.rules.isNil

/-! ## `normalize`: nil and empty slices identified -/

mutual
def FilterExpr.norm : FilterExpr → FilterExpr
  | .mk l o s v as _ => .mk l o s v (FilterExpr.normList as) false
def FilterExpr.normList : List FilterExpr → List FilterExpr
  | [] => []
  | a :: as => a.norm :: FilterExpr.normList as
end

def Rule.norm (r : Rule) : Rule :=
  { r with syntaxPatterns := r.syntaxPatterns.norm, commentPatterns := r.commentPatterns.norm,
           whereExpr := r.whereExpr.norm }

def RuleGroup.norm (g : RuleGroup) : RuleGroup :=
  { g with docTags := g.docTags.norm, imports := g.imports.norm, rules := (g.rules.map Rule.norm).norm }

def normalize (f : File) : File :=
  { f with ruleGroups := (f.ruleGroups.map RuleGroup.norm).norm, customDecls := f.customDecls.norm,
           bundleImports := f.bundleImports.norm }

/-! ## The IR schema (`filter_op.gen.go`: "$Value type: string", leaf ops)

`WF` is the domain of the round-trip theorems: every op is a number of the table, and the three
ops that `irprint` prints in its one-line form (`String`, `VarPure`, `VarText`, all leaves with a
string `$Value`) carry a string and no arguments.  `irconv` produces only such values (checked on
every converted file by the harness through `wfFile`). -/

mutual
def FilterExpr.wf : FilterExpr → Bool
  | .mk _ o _ v as _ =>
    (Gen.irOpNames.lookup o).isSome &&
    (if isCompactOp o then (match v with | .str _ => true | _ => false) && as.isEmpty else true) &&
    FilterExpr.wfList as
def FilterExpr.wfList : List FilterExpr → Bool
  | [] => true
  | a :: as => a.wf && FilterExpr.wfList as
end

def Rule.wf (r : Rule) : Bool := r.whereExpr.wf
def RuleGroup.wf (g : RuleGroup) : Bool := g.rules.elems.all Rule.wf
def wfFile (f : File) : Bool := f.ruleGroups.elems.all RuleGroup.wf

/-! `noZeroElems`: no slice of the file holds a zero-valued element (the as-is printer drops them). -/

mutual
def FilterExpr.noZeroElems : FilterExpr → Bool
  | .mk _ _ _ _ as _ => FilterExpr.noZeroElemsList as
def FilterExpr.noZeroElemsList : List FilterExpr → Bool
  | [] => true
  | a :: as => !a.isZero && a.noZeroElems && FilterExpr.noZeroElemsList as
end

def Rule.noZeroElems (r : Rule) : Bool :=
  r.syntaxPatterns.elems.all (fun p => !p.isZero) && r.commentPatterns.elems.all (fun p => !p.isZero) &&
  r.whereExpr.noZeroElems
def RuleGroup.noZeroElems (g : RuleGroup) : Bool :=
  g.docTags.elems.all (fun t => !t.isEmpty) && g.imports.elems.all (fun i => !i.isZero) &&
  g.rules.elems.all (fun r => !r.isZero && r.noZeroElems)
def noZeroElemsFile (f : File) : Bool :=
  f.ruleGroups.elems.all (fun g => !g.isZero && g.noZeroElems)

end IR
