import Rg.Model.IRConv
import Rg.Model.Loader
/-!
# The seam between the two halves of `Engine.Load`: irconv's output is the loader's input

`Rg/Model/IRConv.lean` produces `IR.FilterExpr` (the mirror of `ir.FilterExpr` used by the printer
round trip: strings are byte lists, `Line : Int`, `Src`, the nil/empty bit of `Args`);
`Rg/Model/Loader.lean` consumes `Loader.FE` (what `ir_loader.go` looks at: op, line, the dynamic type of
`Value`, the arguments).  `toFE` is the forgetful map between the two mirrors of the *same* Go value.

Strings: the loader model keys its oracles by Lean `String`s, the IR mirror keeps Go's bytes.  The
decoding `dec : Bytes → String` is a parameter: every theorem about the composition holds for every
decoding (the loader's control flow only looks at *whether* a value is a string).

Op numbers: both mirrors use the numbers of `ir.FilterOp`; `Rg/Gen/IROpNames.lean` (number ↦ name, from
`filterOpNames`) and `Rg/Gen/FilterOps.lean` (constants, names, flags, from ruleguard/ir's API) are
regenerated independently — `Comp.tables_agree` (Rg/Proofs/ConvWf.lean) is the obligation that they
number and flag the ops identically.
-/
namespace Comp
open Conv

def toVal (dec : Bytes → String) : IR.Val → Loader.Val
  | .nil => .nil
  | .str b => .str (dec b)
  | .int64 n => .int n

mutual
/-- the `ir.FilterExpr` the converter built, as the loader sees it -/
def toFE (dec : Bytes → String) : IR.FilterExpr → Loader.FE
  | .mk line op _ v args _ => .mk op line.toNat (toVal dec v) (toFEList dec args)
def toFEList (dec : Bytes → String) : List IR.FilterExpr → List Loader.FE
  | [] => []
  | a :: as => toFE dec a :: toFEList dec as
end

/-- a decoding that is total, injective and reduces in the kernel (one `Char` per byte); the harness
and the driver decode UTF-8 instead — the theorems do not depend on the choice -/
def latin1 (b : Bytes) : String := String.ofList (b.map fun x => Char.ofNat x.toNat)

/-! ## A rule as `convertRuleExpr` sees it, after the chain walk

The walk over `m.Match(…).Where(…).At(…).Report(…)` collects the argument list of each clause
(`nil` = clause absent).  `convertRuleG` transcribes what happens to them: which arguments are read
with `[0]`, which go through `parseStringArg`, which through `convertFilterExpr`.  `ar` = the arity
checks of `fixes/c06-chain-arity.diff` are present (a clause without arguments — possible only for a
user type whose methods are named like the DSL's — is a located error instead of
`index out of range [0] with length 0`). -/

structure Chain where
  line : Nat
  matchArgs : Option (List (Nat × CExpr))          -- (line of the argument, the argument)
  matchCommentArgs : Option (List (Nat × CExpr))
  whereArgs : Option (List CExpr)
  suggestArgs : Option (List CExpr)
  reportArgs : Option (List CExpr)
  atArgs : Option (List CExpr)
  doArgs : Option (List CExpr)

/-- `(*args)[0]` as it was / `arg0(method, args)` after the repair -/
def chainArg0 (ar : Bool) : List CExpr → CRes CExpr
  | a :: _ => .ok a
  | [] => if ar then .err else .panic .index

def parsePatterns (dec : Bytes → String) : List (Nat × CExpr) → CRes (List Loader.Pat)
  | [] => .ok []
  | (l, a) :: as =>
    (parseStringArg a).bind fun s => (parsePatterns dec as).bind fun ps => .ok (⟨l, dec s⟩ :: ps)

/-- `convertRuleExpr` after the chain walk, with the rule it appends to the group as `Loader.Rule`
(the rule's `WhereExpr` through `toFE`).  `conv` = `convertFilterExpr` as the group sees it (with the
group's local helpers: `Rg/Model/SrcGroup.lean`; without any: `convertRuleG`). -/
def convertRuleW (conv : CExpr → CRes IR.FilterExpr) (ar : Bool) (dec : Bytes → String) (c : Chain) : CRes Loader.Rule :=
  if c.matchArgs.isNone && c.matchCommentArgs.isNone then .err else    -- "missing Match() or MatchComment() call"
  (parsePatterns dec (match c.matchArgs with | some as => as | none => c.matchCommentArgs.getD [])).bind fun alts =>
  -- At()
  (match c.atArgs with
   | none => CRes.ok ""
   | some as => (chainArg0 ar as).bind fun a =>
     match a with
     | .index _ _ i => (parseStringArg i).bind fun s => .ok (dec s)
     | _ => .err).bind fun loc =>
  -- Where()
  (match c.whereArgs with
   | none => CRes.ok IR.FilterExpr.zero
   | some as => (chainArg0 ar as).bind fun a => conv a).bind fun wh =>
  -- Suggest()
  (match c.suggestArgs with
   | none => CRes.ok ""
   | some as => (chainArg0 ar as).bind fun a => (parseStringArg a).bind fun s => .ok (dec s)).bind fun sugg =>
  if c.suggestArgs.isNone && c.reportArgs.isNone && c.doArgs.isNone then .err else  -- "missing Report(), Suggest() or Do() call"
  (match c.doArgs with
   | some as =>
     (if c.suggestArgs.isSome || c.reportArgs.isSome then .err        -- "can't combine Report/Suggest with Do yet"
     else if c.matchCommentArgs.isSome then .err                     -- "can't use Do() with MatchComment() yet"
     else (chainArg0 ar as).bind fun a =>
       match a with
       | .ident _ name => .ok (name, "")
       | _ => .err : CRes (String × String))
   | none =>
     match c.reportArgs with
     | none => .ok ("", "suggestion: " ++ sugg)
     | some as => (chainArg0 ar as).bind fun a => (parseStringArg a).bind fun s => .ok ("", dec s)).bind fun dr =>
  .ok { line := c.line,
        syntaxPatterns := if c.matchArgs.isSome then alts else [],
        commentPatterns := if c.matchArgs.isSome then [] else alts,
        reportTemplate := dr.2, suggestTemplate := sugg, doFuncName := dr.1,
        whereExpr := toFE dec wh, locationVar := loc }

/-- … in a group without local helpers -/
def convertRuleG (ar : Bool) (dec : Bytes → String) (c : Chain) : CRes Loader.Rule :=
  convertRuleW (convertG noHook ar) ar dec c

/-- a rule group: its name and the chains of its call statements -/
structure SrcGroup where
  line : Nat
  name : String
  chains : List Chain

def seqC {α β} (f : α → CRes β) : List α → CRes (List β)
  | [] => .ok []
  | a :: as => (f a).bind fun b => (seqC f as).bind fun bs => .ok (b :: bs)

def convertGroupG (ar : Bool) (dec : Bytes → String) (g : SrcGroup) : CRes Loader.Group :=
  (seqC (convertRuleG ar dec) g.chains).bind fun rs => .ok { line := g.line, name := g.name, rules := rs }

/-- the rule groups of a file, converted front to back (the first error or panic ends the conversion) -/
def convertFileG (ar : Bool) (dec : Bytes → String) (gs : List SrcGroup) : CRes Loader.File :=
  (seqC (convertGroupG ar dec) gs).bind fun gs' => .ok ⟨gs'⟩

end Comp
