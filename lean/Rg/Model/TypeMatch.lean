import Rg.Model.XTypes
/-!
# Model of `ruleguard/typematch/typematch.go`

* `TExpr` — the fragment of `go/ast` expressions `parseExpr` looks at (the result of `parser.ParseExpr` on
  the pattern string with `$*` / `$` replaced by the placeholder prefixes; that parser is trusted).
* `Pat` — `pattern{op, value, subs}`.
* `parseExpr` — `Parse`'s conversion, with the import table (`ImportsTab`) as a stack of scopes.
* `matchK` / `matchFieldsK` — `(*Pattern).matchIdentical` / `matchFields` as they are now (after
  `fixes/c10-*.diff`): a backtracking matcher in continuation-passing style.  `next` is "the rest of the match";
  the binding tables (`MatcherState`, mutable in Go) are threaded through every call and through `next`, a
  binding made for an attempt whose continuation fails is deleted again (`MState.delT` / `delI`), every split
  point of a `$*_` is tried (`trySplits`).  The type is unaliased on entry, `opFunc*` reject variadic and
  generic signatures, `opNamed` rejects function-local types and strips the import path up to the *last*
  `/vendor/` or a leading `vendor/`; `opNamed` still ignores type arguments.
* `matchIdenticalAsIs` / `matchSubsAsIs` / `matchAllAsIs` — `matchIdentical` / `matchIdenticalFielder` as they
  were before the repairs (kept for the kernel-checked counterexamples): the tables *keep* what a failed
  alternative bound; the sequence matcher is non-greedy with one-pattern look-ahead and never backtracks;
  nothing is unaliased; `opFunc*` ignore `Variadic()`.  Identity of types is `xtypes.Identical`
  (`XTypes.tid fx`, `fx = false`: before `fixes/xtypes-identical.diff`).

The `for i < len(subs)` loop of the old `matchIdenticalFielder` (indices `i`, `fieldsMatched`, flag `matchAny`) is
written as structural recursion: `matchSubsAsIs st subs fields` is the loop at `subs[i:]`, `fields[fieldsMatched:]`
with `matchAny = false`; when `subs[i]` is `$*_` the flag is set and `scanSeq` is the run of iterations with
`matchAny = true` at that `i` (each one either stops on "nothing left", succeeds in the look-ahead
`subs[i+1]` against the current field, or skips the field).
-/

namespace TypeMatch
open XTypes

/-! ## go/ast fragment -/

inductive TExpr where
  | ident (name : String)
  | sel (x : TExpr) (sel : String)
  | star (x : TExpr)
  | sliceT (elt : TExpr)                       -- `ArrayType` with `Len == nil`
  | arrayT (len : TExpr) (elt : TExpr)
  | intLit (value : String)                    -- `BasicLit` of kind `token.INT`
  | otherLit                                   -- any other `BasicLit`
  | mapT (key value : TExpr)
  | chanT (dir : Nat) (value : TExpr)          -- `ast.ChanDir` bits: SEND = 1, RECV = 2
  | paren (x : TExpr)
  | field (nnames : Nat) (type : TExpr)        -- `*ast.Field` (only the number of names matters)
  | funcT (params results : List TExpr)        -- lists of `field`
  | structT (fields : List TExpr)
  | ifaceT (methods : List TExpr)
  | other                                      -- every other expression kind
deriving Repr, Inhabited

/-! ## patterns -/

inductive Pat where
  | builtin (t : Ty)                           -- opBuiltinType, value = the type
  | ptr (e : Pat)
  | var (name : String)
  | varSeq                                     -- only `$*_`
  | slice (e : Pat)
  | arrayVar (name : String) (e : Pat)         -- opArray, value = string
  | arrayLit (len : Int) (e : Pat)             -- opArray, value = int64
  | map (k v : Pat)
  | chan (dir : Nat) (e : Pat)                 -- types.ChanDir: SendRecv = 0, SendOnly = 1, RecvOnly = 2
  | funcNoSeq (params results : List Pat)       -- value = len(params), subs = params ++ results
  | func (params results : List Pat)
  | structNoSeq (subs : List Pat)
  | struct (subs : List Pat)
  | anyIface
  | named (pkgPath typeName : String)
deriving Repr, Inhabited

/-! ## import table -/

/-- `ImportsTab.imports`: innermost scope last -/
abbrev Itab := List (List (String × String))

/-- `(*ImportsTab).Lookup` -/
def Itab.lookup (itab : Itab) (pkgName : String) : Option String :=
  itab.reverse.findSome? fun scope => (scope.find? fun kv => kv.1 == pkgName).map (·.2)

/-! ## parseExpr -/

def varPrefix : String := "ᐸvarᐳ"
def varSeqPrefix : String := "ᐸvar_seqᐳ"

/-- kinds of `types.Basic` (go/types numbering) -/
def builtinKind : String → Option Nat
  | "bool" => some 1 | "int" => some 2 | "int8" => some 3 | "int16" => some 4 | "int32" => some 5
  | "int64" => some 6 | "uint" => some 7 | "uint8" => some 8 | "uint16" => some 9 | "uint32" => some 10
  | "uint64" => some 11 | "uintptr" => some 12 | "float32" => some 13 | "float64" => some 14
  | "complex64" => some 15 | "complex128" => some 16 | "string" => some 17
  | "byte" => some 8 | "rune" => some 5
  | _ => none

/-- the universe's `error`: a named type without package (declaration number supplied by the harness) -/
def errorTy (errObj : Nat) : Ty := .named 0 errObj none "error" false false []
/-- `types.NewInterfaceType(nil, nil)` -/
def efaceTy : Ty := .iface true false [] []
def unsafePointerKind : Nat := 18

/-- `strconv.ParseInt(s, 10, 64)` on an INT literal: decimal digits only, must fit int64 -/
def parseInt10 (s : String) : Option Int :=
  let cs := s.toList
  if cs.isEmpty || !cs.all Char.isDigit then none
  else
    let v := cs.foldl (fun acc c => acc * 10 + (c.toNat - 48)) 0
    if v < 9223372036854775808 then some (v : Nat) else none

mutual
/-- `parseExpr(ctx, e)`; `none` = `nil` -/
def parseExpr (errObj : Nat) (itab : Itab) : TExpr → Option Pat
  | .ident name =>
      match builtinKind name with
      | some k => some (.builtin (.basic k))
      | none =>
        if name == "error" then some (.builtin (errorTy errObj))
        else if name.startsWith varPrefix then some (.var (name.drop varPrefix.length).toString)
        else if name.startsWith varSeqPrefix then
          (if (name.drop varSeqPrefix.length).toString == "_" then some .varSeq else none)
        else none
  | .sel x sel =>
      match x with
      | .ident pkg =>
        if pkg == "unsafe" && sel == "Pointer" then some (.builtin (.basic unsafePointerKind))
        else match itab.lookup pkg with
          | some path => some (.named path sel)
          | none => none
      | _ => none
  | .star x => (parseExpr errObj itab x).map .ptr
  | .sliceT elt => (parseExpr errObj itab elt).map .slice
  | .arrayT len elt =>
      match parseExpr errObj itab elt with
      | none => none
      | some e =>
        match len with
        | .ident name =>
            if name.startsWith varPrefix then some (.arrayVar (name.drop varPrefix.length).toString e) else none
        | .intLit v => (parseInt10 v).map fun n => .arrayLit n e
        | _ => none
  | .mapT k v =>
      match parseExpr errObj itab k with
      | none => none
      | some pk => (parseExpr errObj itab v).map fun pv => .map pk pv
  | .chanT dir v =>
      match parseExpr errObj itab v with
      | none => none
      | some e =>
        if dir % 2 == 1 && dir / 2 % 2 == 1 then some (.chan 0 e)       -- SEND and RECV
        else if dir % 2 == 1 then some (.chan 1 e)                      -- SEND
        else if dir / 2 % 2 == 1 then some (.chan 2 e)                  -- RECV
        else none
  | .paren x => parseExpr errObj itab x
  | .funcT params results =>
      match parseFields errObj itab params, parseFields errObj itab results with
      | some ps, some rs =>
        if (ps ++ rs).any (fun p => match p with | .varSeq => true | _ => false)
        then some (.func ps rs) else some (.funcNoSeq ps rs)
      | _, _ => none
  | .structT fields =>
      match parseFields errObj itab fields with
      | some ms =>
        if ms.any (fun p => match p with | .varSeq => true | _ => false)
        then some (.struct ms) else some (.structNoSeq ms)
      | none => none
  | .ifaceT methods =>
      match methods with
      | [] => some (.builtin efaceTy)
      | [.field _ t] =>
          match parseExpr errObj itab t with
          | some .varSeq => some .anyIface
          | _ => none
      | _ => none
  | _ => none

/-- the loops over `e.Params.List` / `e.Results.List` / `e.Fields.List`: every field's type must
convert and no field may carry a name -/
def parseFields (errObj : Nat) (itab : Itab) : List TExpr → Option (List Pat)
  | [] => some []
  | .field nnames t :: rest =>
      match parseExpr errObj itab t with
      | none => none
      | some p =>
        if nnames != 0 then none
        else (parseFields errObj itab rest).map (p :: ·)
  | _ :: _ => none
end

/-! ## matching -/

/-- `MatcherState`: the two maps (first binding wins; a key is never overwritten) -/
structure MState where
  tm : List (String × Ty)
  im : List (String × Int)
deriving Repr, Inhabited

def MState.empty : MState := ⟨[], []⟩
def lookupT (st : MState) (n : String) : Option Ty := (st.tm.find? (·.1 == n)).map (·.2)
def lookupI (st : MState) (n : String) : Option Int := (st.im.find? (·.1 == n)).map (·.2)

/-- first index of `pat` in `s` (`strings.Index`), on character lists -/
def indexOf (pat : List Char) : List Char → Nat → Option Nat
  | [], i => if pat.isEmpty then some i else none
  | c :: cs, i => if pat.isPrefixOf (c :: cs) then some i else indexOf pat cs (i + 1)

/-- all suffixes `s.drop i` of `s` that follow an occurrence of `pat` ending at `i` -/
def afterOccurrences (pat : List Char) : List Char → List (List Char)
  | [] => []
  | c :: cs =>
    (if pat.isPrefixOf (c :: cs) then [(c :: cs).drop pat.length] else []) ++ afterOccurrences pat cs

/-- `opNamed` at the pinned commit: `objPath[vendorPos+len("/vendor/"):]` for the *first* `/vendor/`, else `objPath`
(kept for the kernel-checked counterexample D24) -/
def vendorStripAsIs (path : String) : String :=
  match indexOf "/vendor/".toList path.toList 0 with
  | some i => String.ofList (path.toList.drop (i + 8))
  | none => path

/-- `opNamed` (current): what follows the *last* `/vendor/`, else the path without a leading `vendor/` -/
def vendorStrip (path : String) : String :=
  match (afterOccurrences "/vendor/".toList path.toList).getLast? with
  | some s => String.ofList s
  | none => if "vendor/".toList.isPrefixOf path.toList then String.ofList (path.toList.drop 7) else path

/-- field types of a `*types.Struct` / element types of a `*types.Tuple` (`fielder.Field(i).Type()`) -/
def fieldTypes : List Ty → List Ty
  | [] => []
  | .field _ _ _ _ _ ty :: fs => ty :: fieldTypes fs
  | t :: fs => t :: fieldTypes fs

def tupleElems : Ty → List Ty
  | .tuple es => es
  | _ => []

/-- `pat.op == opVarSeq` -/
def Pat.isSeq : Pat → Bool
  | .varSeq => true
  | _ => false

/-- the run of loop iterations with `matchAny = true` at one `$*_`: `look st t` is the look-ahead
`p.matchIdentical(state, subs[i+1], field.Type())`, `rest st fields` continues after a successful
look-ahead (`i += 2`), `stop st` continues when nothing is left (`i++` with no fields: from there on the
loop can only pass over further `$*_`, any other pattern hits `fieldsLeft == 0 → return false`, so the
answer is "all remaining patterns are `$*_`", cf. `matchSubsAsIs_nil` in `Rg/Proofs/TypeMatch.lean`). -/
def scanSeq (look : MState → Ty → Bool × MState) (rest : MState → List Ty → Bool × MState)
    (stop : MState → Bool × MState) (st : MState) : List Ty → Bool × MState
  | [] => stop st
  | f :: fs =>
      match look st f with
      | (true, st') => rest st' fs
      | (false, st') => scanSeq look rest stop st' fs

mutual
/-- `(*Pattern).matchIdentical(state, sub, typ)` before the repairs -/
def matchIdenticalAsIs (fx : Bool) (st : MState) (sub : Pat) (typ : Ty) : Bool × MState :=
  match sub, typ with
  | .var name, typ =>
      if name == "_" then (true, st)
      else match lookupT st name with
        | none => (true, { st with tm := (name, typ) :: st.tm })
        | some y => if y = .nil then (decide (typ = .nil), st) else (tid fx typ y, st)
  | .builtin b, typ => (tid fx typ b, st)
  | .ptr e, typ =>
      match typ with
      | .ptr t => matchIdenticalAsIs fx st e t
      | _ => (false, st)
  | .slice e, typ =>
      match typ with
      | .slice t => matchIdenticalAsIs fx st e t
      | _ => (false, st)
  | .arrayVar v e, typ =>
      match typ with
      | .array n t =>
        if v == "_" then matchIdenticalAsIs fx st e t
        else match lookupI st v with
          | some len => if len == n then matchIdenticalAsIs fx st e t else (false, st)
          | none => matchIdenticalAsIs fx { st with im := (v, n) :: st.im } e t
      | _ => (false, st)
  | .arrayLit len e, typ =>
      match typ with
      | .array n t => if len == n then matchIdenticalAsIs fx st e t else (false, st)
      | _ => (false, st)
  | .map k v, typ =>
      match typ with
      | .map tk tv =>
        match matchIdenticalAsIs fx st k tk with
        | (true, st') => matchIdenticalAsIs fx st' v tv
        | (false, st') => (false, st')
      | _ => (false, st)
  | .chan dir e, typ =>
      match typ with
      | .chan d t => if dir == d then matchIdenticalAsIs fx st e t else (false, st)
      | _ => (false, st)
  | .named pkgPath typeName, typ =>
      match typ with
      | .named _ _ pkg name _ _ _ =>
        match pkg with
        | none => (false, st)
        | some objPath => (typeName == name && vendorStrip objPath == pkgPath, st)
      | _ => (false, st)
  | .funcNoSeq pps prs, typ =>
      match typ with
      | .sig _ _ params results =>
        let ps := tupleElems params
        let rs := tupleElems results
        if ps.length != pps.length then (false, st)
        else if rs.length != prs.length then (false, st)
        else
          match matchAllAsIs fx st pps ps with
          | (true, st') => matchAllAsIs fx st' prs rs
          | (false, st') => (false, st')
      | _ => (false, st)
  | .func pps prs, typ =>
      match typ with
      | .sig _ _ params results =>
        match matchSubsAsIs fx st pps (tupleElems params) with
        | (true, st') => matchSubsAsIs fx st' prs (tupleElems results)
        | (false, st') => (false, st')
      | _ => (false, st)
  | .structNoSeq subs, typ =>
      match typ with
      | .struct fs => if fs.length != subs.length then (false, st) else matchAllAsIs fx st subs (fieldTypes fs)
      | _ => (false, st)
  | .struct subs, typ =>
      match typ with
      | .struct fs => matchSubsAsIs fx st subs (fieldTypes fs)
      | _ => (false, st)
  | .anyIface, typ =>
      match typ with
      | .iface .. => (true, st)
      | _ => (false, st)
  | .varSeq, _ => (false, st)                       -- `default: return false`
termination_by structural sub

/-- the `for i := …` loops of `opFuncNoSeq` / `opStructNoSeq` (lengths already checked equal) -/
def matchAllAsIs (fx : Bool) (st : MState) (subs : List Pat) (ts : List Ty) : Bool × MState :=
  match subs, ts with
  | [], _ => (true, st)
  | _ :: _, [] => (true, st)
  | p :: ps, t :: ts =>
      match matchIdenticalAsIs fx st p t with
      | (true, st') => matchAllAsIs fx st' ps ts
      | (false, st') => (false, st')
termination_by structural subs

/-- `matchIdenticalFielder(state, subs, f)` from position `i` with `matchAny = false` -/
def matchSubsAsIs (fx : Bool) (st : MState) (subs : List Pat) (fields : List Ty) : Bool × MState :=
  match subs, fields with
  | [], fields => (fields.isEmpty, st)              -- `return numFields == fieldsMatched`
  | .varSeq :: rest, fields =>
      match rest with
      | [] => (true, st)                            -- every remaining field is skipped, then `i++`
      | next :: rest' =>
          scanSeq (fun st t => matchIdenticalAsIs fx st next t) (fun st fs => matchSubsAsIs fx st rest' fs)
            (fun st => (rest.all Pat.isSeq, st)) st fields
  | pat :: rest, fields =>
      match fields with
      | [] => (false, st)                           -- `fieldsLeft == 0`
      | f :: fs =>
        match matchIdenticalAsIs fx st pat f with
        | (true, st') => matchSubsAsIs fx st' rest fs
        | (false, st') => (false, st')
termination_by structural subs
end

/-- `(*Pattern).MatchIdentical(state, typ)` before the repairs: reset, then match the root -/
def matchTopAsIs (fx : Bool) (p : Pat) (typ : Ty) : Bool := (matchIdenticalAsIs fx MState.empty p typ).1


/-! ## matching, current code: backtracking in continuation-passing style -/

/-- `delete(state.typeMatches, name)` -/
def MState.delT (st : MState) (n : String) : MState := { st with tm := st.tm.filter fun kv => !(kv.1 == n) }
/-- `delete(state.int64Matches, name)` -/
def MState.delI (st : MState) (n : String) : MState := { st with im := st.im.filter fun kv => !(kv.1 == n) }

/-- the loop `for i := pos; i <= f.NumFields(); i++ { if p.matchFields(state, subs[1:], f, i, next) { return true } }; return false`
of `matchFields` at a `$*_`: `rest fields st` is `p.matchFields(state, subs[1:], f, i, next)` with `fields` the fields from `i` on -/
def trySplits (rest : List Ty → MState → Bool × MState) : List Ty → MState → Bool × MState
  | [], st => rest [] st
  | f :: fs, st =>
      match rest (f :: fs) st with
      | (true, st') => (true, st')
      | (false, st') => trySplits rest fs st'

mutual
/-- `(*Pattern).matchIdentical(state, sub, typ, next)` -/
def matchK (fx : Bool) (sub : Pat) (typ : Ty) (st : MState) (next : MState → Bool × MState) : Bool × MState :=
  match sub with
  | .var name =>
      if name == "_" then next st
      else match lookupT st name with
        | none =>
            -- `state.typeMatches[name] = typ; if next() { return true }; delete(state.typeMatches, name); return false`
            match next { st with tm := (name, unalias typ) :: st.tm } with
            | (true, st') => (true, st')
            | (false, st') => (false, st'.delT name)
        | some y =>
            if y = .nil then (if unalias typ = .nil then next st else (false, st))
            else (if tid fx (unalias typ) y then next st else (false, st))
  | .builtin b => if tid fx (unalias typ) b then next st else (false, st)
  | .ptr e =>
      match unalias typ with
      | .ptr t => matchK fx e t st next
      | _ => (false, st)
  | .slice e =>
      match unalias typ with
      | .slice t => matchK fx e t st next
      | _ => (false, st)
  | .arrayVar v e =>
      match unalias typ with
      | .array n t =>
        if v == "_" then matchK fx e t st next
        else match lookupI st v with
          | some len => if len == n then matchK fx e t st next else (false, st)
          | none =>
              match matchK fx e t { st with im := (v, n) :: st.im } next with
              | (true, st') => (true, st')
              | (false, st') => (false, st'.delI v)
      | _ => (false, st)
  | .arrayLit len e =>
      match unalias typ with
      | .array n t => if len == n then matchK fx e t st next else (false, st)
      | _ => (false, st)
  | .map k v =>
      match unalias typ with
      | .map tk tv => matchK fx k tk st fun st' => matchK fx v tv st' next
      | _ => (false, st)
  | .chan dir e =>
      match unalias typ with
      | .chan d t => if dir == d then matchK fx e t st next else (false, st)
      | _ => (false, st)
  | .named pkgPath typeName =>
      match unalias typ with
      | .named _ _ pkg name _ loc _ =>
        match pkg with
        | none => (false, st)
        | some objPath =>
            if typeName == name && !loc && vendorStrip objPath == pkgPath then next st else (false, st)
      | _ => (false, st)
  | .funcNoSeq pps prs =>
      match unalias typ with
      | .sig variadic tps params results =>
        if variadic || !tps.isEmpty then (false, st)
        else if (tupleElems params).length != pps.length then (false, st)
        else if (tupleElems results).length != prs.length then (false, st)
        else matchFieldsK fx pps (tupleElems params) st fun st' => matchFieldsK fx prs (tupleElems results) st' next
      | _ => (false, st)
  | .func pps prs =>
      match unalias typ with
      | .sig variadic tps params results =>
        if variadic || !tps.isEmpty then (false, st)
        else matchFieldsK fx pps (tupleElems params) st fun st' => matchFieldsK fx prs (tupleElems results) st' next
      | _ => (false, st)
  | .structNoSeq subs =>
      match unalias typ with
      | .struct fs => if fs.length != subs.length then (false, st) else matchFieldsK fx subs (fieldTypes fs) st next
      | _ => (false, st)
  | .struct subs =>
      match unalias typ with
      | .struct fs => matchFieldsK fx subs (fieldTypes fs) st next
      | _ => (false, st)
  | .anyIface =>
      match unalias typ with
      | .iface .. => next st
      | _ => (false, st)
  | .varSeq => (false, st)                          -- `default: return false`
termination_by structural sub

/-- `(*Pattern).matchFields(state, subs, f, pos, next)`; `fields` are the fields of `f` from `pos` on -/
def matchFieldsK (fx : Bool) (subs : List Pat) (fields : List Ty) (st : MState) (next : MState → Bool × MState) :
    Bool × MState :=
  match subs with
  | [] => if fields.isEmpty then next st else (false, st)      -- `return pos == f.NumFields() && next()`
  | pat :: rest =>
      if pat.isSeq then trySplits (fun fs st' => matchFieldsK fx rest fs st' next) fields st
      else match fields with
        | [] => (false, st)                                      -- `pos == f.NumFields()`
        | f :: fs => matchK fx pat f st fun st' => matchFieldsK fx rest fs st' next
termination_by structural subs
end

/-- the continuation of a complete match (`matched`) -/
def matchedK (st : MState) : Bool × MState := (true, st)

/-- `(*Pattern).MatchIdentical(state, typ)`: reset, then match the root -/
def matchTop (fx : Bool) (p : Pat) (typ : Ty) : Bool := (matchK fx p typ MState.empty matchedK).1

end TypeMatch
