import Rg.Model.QSrc
import Rg.Gen.Opcodes
/-!
# Rg.Model.QCompile — byte-level transcription of `ruleguard/quasigo/compile.go`

`emit/emit8/emit16/emitJump`, label records with `sources`, `bindLabel`, `linkJumps` (relative 16-bit
offsets patched after the body), the `lastOp` peephole of `compileIfStmt`, constant interning with
8-bit ids, the 8-locals limit, parameter indices.  A compile error is `CR.err`, a Go run-time panic of
the compiler itself (nil label) is `CR.panic`.  `Fixes` selects the repaired variants; `Fixes.asis`
is the code as it stands.
-/
namespace Q

inductive CR (α : Type) | ok (a : α) | err | panic (p : Panic)
deriving Repr, DecidableEq

namespace CR
def bind {α β} (x : CR α) (f : α → CR β) : CR β :=
  match x with | .ok a => f a | .err => .err | .panic p => .panic p
instance : Monad CR where
  pure := .ok
  bind := CR.bind
@[simp] theorem bind_ok {α β} (a : α) (f : α → CR β) : (CR.ok a >>= f) = f a := rfl
@[simp] theorem bind_err {α β} (f : α → CR β) : ((CR.err : CR α) >>= f) = .err := rfl
@[simp] theorem bind_panic {α β} (p : Panic) (f : α → CR β) : ((CR.panic p : CR α) >>= f) = .panic p := rfl
@[simp] theorem pure_eq {α} (a : α) : (pure a : CR α) = .ok a := rfl
end CR

structure Label where
  target : Nat := 0
  sources : List Nat := []
deriving Repr, DecidableEq, Inhabited

/-- compile-time environment: the keys of `nameToNativeFuncID` / `nameToFuncID` in registration order
(the id of a key is the index of its last registration) -/
structure CEnv where
  natives : List Nat
  funcs : List Nat
deriving Repr, DecidableEq, Inhabited

def idOfAux (k : Nat) : List Nat → Nat → Option Nat → Option Nat
  | [], _, acc => acc
  | x :: xs, i, acc => idOfAux k xs (i + 1) (if x = k then some i else acc)

def idOf (keys : List Nat) (k : Nat) : Option Nat := idOfAux k keys 0 none

/-- Go map with insertion: `m[k] = v` -/
def mapSet (m : List (Nat × Nat)) (k v : Nat) : List (Nat × Nat) :=
  if m.any (·.1 == k) then m.map (fun p => if p.1 == k then (k, v) else p) else m ++ [(k, v)]

def mapGet (m : List (Nat × Nat)) (k : Nat) : Option Nat := (m.find? (·.1 == k)).map (·.2)

structure CState where
  code : Bytes := []
  lastOp : Nat := 0
  locals : List (Nat × Nat) := []
  consts : List Bytes := []
  intConsts : List Int64 := []
  labels : List Label := []
  breakTarget : Option Nat := none
  continueTarget : Option Nat := none
deriving Repr, DecidableEq, Inhabited

/-- per-function read-only data of the `compiler` struct -/
structure CFn where
  retVoid : Bool
  params : List (Nat × Nat)
  intParams : List (Nat × Nat)
deriving Repr, DecidableEq, Inhabited

def byte (n : Nat) : UInt8 := UInt8.ofNat n

/-- `binary.LittleEndian.PutUint16(_, uint16(v))` for an `int` value -/
def le16 (v : Int) : Bytes :=
  let u := (v % 65536).toNat
  [byte (u % 256), byte (u / 256)]

def emit (op : Nat) (s : CState) : CState :=
  { s with lastOp := op, code := s.code ++ [byte op] }

def emit8 (fx : Fixes) (op arg : Nat) (s : CState) : CR CState :=
  if fx.range && arg > 255 then .err
  else .ok { s with lastOp := op, code := s.code ++ [byte op, byte arg] }

def emit16 (op arg : Nat) (s : CState) : CState :=
  { s with lastOp := op, code := s.code ++ (byte op :: le16 arg) }

def newLabel (s : CState) : Nat × CState :=
  (s.labels.length, { s with labels := s.labels ++ [{}] })

def bindLabel (fx : Fixes) (l : Nat) (s : CState) : CState :=
  { s with labels := s.labels.modify l (fun lb => { lb with target := s.code.length }),
           lastOp := if fx.ifJump then Opc.Invalid else s.lastOp }

def emitJump (op : Nat) (l : Option Nat) (s : CState) : CR CState :=
  match l with
  | none => .panic .nilDeref
  | some l =>
    .ok { s with labels := s.labels.modify l (fun lb => { lb with sources := lb.sources ++ [s.code.length] }),
                 lastOp := op, code := s.code ++ [byte op, 0, 0] }

def internInt (v : Int64) (s : CState) : Nat × CState :=
  match s.intConsts.idxOf? v with
  | some i => (i, s)
  | none => (s.intConsts.length, { s with intConsts := s.intConsts ++ [v] })

def internStr (v : Bytes) (s : CState) : Nat × CState :=
  match s.consts.idxOf? v with
  | some i => (i, s)
  | none => (s.consts.length, { s with consts := s.consts ++ [v] })

def patch16 (code : Bytes) (pos : Nat) (v : Int) : Bytes :=
  match le16 v with
  | [a, b] => (code.set pos a).set (pos + 1) b
  | _ => code

def linkSources (fx : Fixes) (target : Nat) : List Nat → Bytes → CR Bytes
  | [], code => .ok code
  | j :: js, code =>
    let off : Int := (target : Int) - (j : Int)
    if fx.range && (off < -32768 || off > 32767) then .err
    else linkSources fx target js (patch16 code (j + 1) off)

def linkJumps (fx : Fixes) : List Label → Bytes → CR Bytes
  | [], code => .ok code
  | l :: ls, code => do
    let code ← linkSources fx l.target l.sources code
    linkJumps fx ls code

def isUncondJump (op : Nat) : Bool :=
  op == Opc.Jump || op == Opc.ReturnFalse || op == Opc.ReturnTrue || op == Opc.ReturnTop || op == Opc.ReturnIntTop

def isInt (t : Ty) : Bool := t == .int
def isStr (t : Ty) : Bool := t == .str
def isSupported (t : Ty) : Bool := t != .bad

def isParamName (fn : CFn) (name : Nat) : Bool :=
  (mapGet fn.params name).isSome || (mapGet fn.intParams name).isSome

def getLocal (s : CState) (name : Nat) : CR Nat :=
  match mapGet s.locals name with
  | some id => .ok id
  | none => .err

/-- the opcode `compileBinaryExpr` picks for a non-short-circuit operator, by the type of the left operand -/
def binOpcode (op : BinOp) (ty : Ty) : Option Nat :=
  match op with
  | .neq => if isStr ty then some Opc.NotEqString else if isInt ty then some Opc.NotEqInt else none
  | .eql => if isStr ty then some Opc.EqString else if isInt ty then some Opc.EqInt else none
  | .gtr => if isInt ty then some Opc.GtInt else none
  | .geq => if isInt ty then some Opc.GtEqInt else none
  | .lss => if isInt ty then some Opc.LtInt else none
  | .leq => if isInt ty then some Opc.LtEqInt else none
  | .add => if isStr ty then some Opc.Concat else if isInt ty then some Opc.Add else none
  | .sub => if isInt ty then some Opc.Sub else none
  | _ => none

def isNilIdent : Expr → Bool
  | .nil => true
  | _ => false

mutual
/-- `compileExpr` (and the functions it dispatches to) -/
def compileExpr (fx : Fixes) (env : CEnv) (fn : CFn) : Expr → CState → CR CState
  | .cint v, s =>
    let (id, s) := internInt v s
    emit8 fx Opc.PushIntConst id s
  | .cstr v, s =>
    let (id, s) := internStr v s
    emit8 fx Opc.PushConst id s
  | .cbool v _, s => .ok (emit (if v then Opc.PushTrue else Opc.PushFalse) s)
  | .cbad, _ => .err
  | .nil, _ => .err
  | .ident name ty, s =>
    match mapGet fn.params name with
    | some i => emit8 fx Opc.PushParam i s
    | none =>
      match mapGet fn.intParams name with
      | some i => emit8 fx Opc.PushIntParam i s
      | none =>
        match mapGet s.locals name with
        | some i => emit8 fx (if isInt ty then Opc.PushIntLocal else Opc.PushLocal) i s
        | none => .err
  | .not x, s => do
    let s ← compileExpr fx env fn x s
    pure (emit Opc.Not s)
  | .bin op ty x y, s =>
    match op with
    | .lor => do
      let (lend, s) := newLabel s
      let s ← compileExpr fx env fn x s
      let s := emit Opc.Dup s
      let s ← emitJump Opc.JumpTrue (some lend) s
      let s := if fx.orPop then emit Opc.Pop s else s
      let s ← compileExpr fx env fn y s
      pure (bindLabel fx lend s)
    | .land => do
      let (lend, s) := newLabel s
      let s ← compileExpr fx env fn x s
      let s := emit Opc.Dup s
      let s ← emitJump Opc.JumpFalse (some lend) s
      let s := if fx.orPop then emit Opc.Pop s else s
      let s ← compileExpr fx env fn y s
      pure (bindLabel fx lend s)
    | .other => .err
    | op =>
      if (op == .neq || op == .eql) && isNilIdent x then do
        let s ← compileExpr fx env fn y s
        pure (emit (if op == .neq then Opc.IsNotNil else Opc.IsNil) s)
      else if (op == .neq || op == .eql) && isNilIdent y then do
        let s ← compileExpr fx env fn x s
        pure (emit (if op == .neq then Opc.IsNotNil else Opc.IsNil) s)
      else
        match binOpcode op ty with
        | none => .err
        | some opc => do
          let s ← compileExpr fx env fn x s
          let s ← compileExpr fx env fn y s
          pure (emit opc s)
  | .sliceAll x, s => compileExpr fx env fn x s
  | .sliceTo xty x hi, s =>
    if !isStr xty then .err else do
      let s ← compileExpr fx env fn x s
      let s ← compileExpr fx env fn hi s
      pure (emit Opc.StringSliceTo s)
  | .sliceFrom xty x lo, s =>
    if !isStr xty then .err else do
      let s ← compileExpr fx env fn x s
      let s ← compileExpr fx env fn lo s
      pure (emit Opc.StringSliceFrom s)
  | .slice xty x lo hi, s =>
    if !isStr xty then .err else do
      let s ← compileExpr fx env fn x s
      let s ← compileExpr fx env fn lo s
      let s ← compileExpr fx env fn hi s
      pure (emit Opc.StringSlice s)
  | .len xty x, s => do
    let s ← compileExpr fx env fn x s
    if !isStr xty then .err else pure (emit Opc.StringLen s)
  | .call ci recv args, s => do
    let s ← compileExprs fx env fn recv s
    match idOf env.natives ci.key with
    | some fid =>
      -- compileNativeCall
      if ci.tupleArg == 2 && !fx.argSig then .panic .typeAssert
      else if ci.tupleArg == 1 then .err else do
        let s ← compileArgs fx env fn ci.variadic 0 args ci.argTys s
        let s ← (if ci.variadic != 0 then
                   (if args.length - ci.variadic > 255 then CR.err
                    else emit8 fx Opc.SetVariadicLen (args.length - ci.variadic) s)
                 else CR.ok s)
        pure (emit16 Opc.CallNative fid s)
    | none =>
      if ci.nativeOnly then .err
      else if ci.sigVariadic then .err
      else
        match idOf env.funcs ci.key with
        | none => .err
        | some fid => do
          let s ← compileExprs fx env fn args s
          let op := if ci.res == .void then Opc.VoidCall else if isInt ci.res then Opc.IntCall else Opc.Call
          pure (emit16 op fid s)
  | .bad, _ => .err

def compileExprs (fx : Fixes) (env : CEnv) (fn : CFn) : List Expr → CState → CR CState
  | [], s => .ok s
  | e :: es, s => do
    let s ← compileExpr fx env fn e s
    compileExprs fx env fn es s

/-- the two argument loops of `compileNativeCall`: arguments before index `variadic` (all of them when
`variadic = 0`) are compiled plainly, the others are boxed into the object stack when they are ints -/
def compileArgs (fx : Fixes) (env : CEnv) (fn : CFn) (variadic : Nat) : Nat → List Expr → List Ty → CState → CR CState
  | _, [], _, s => .ok s
  | i, e :: es, tys, s => do
    let s ← compileExpr fx env fn e s
    let s := if variadic != 0 && i ≥ variadic && isInt (tys.headD .obj) then emit Opc.ConvIntToIface s else s
    compileArgs fx env fn variadic (i + 1) es tys.tail s
end

/-- the assignment loop of `compileAssignStmt`, over the left-hand sides in reverse order -/
def compileAssignTargets (fx : Fixes) (fn : CFn) (define : Bool) : List (Nat × Ty) → CState → CR CState
  | [], s => .ok s
  | (name, ty) :: rest, s =>
    if define then
      if (mapGet s.locals name).isSome then .err
      else if !isSupported ty then .err
      else if s.locals.length == Opc.maxLocals then .err
      else if fx.shadow && isParamName fn name then .err
      else do
        let id := s.locals.length
        let s := { s with locals := mapSet s.locals name id }
        let s ← emit8 fx (if isInt ty then Opc.SetIntLocal else Opc.SetLocal) id s
        compileAssignTargets fx fn define rest s
    else do
      let id ← getLocal s name
      let s ← emit8 fx (if isInt ty then Opc.SetIntLocal else Opc.SetLocal) id s
      compileAssignTargets fx fn define rest s

mutual
def compileStmt (fx : Fixes) (env : CEnv) (fn : CFn) : Stmt → CState → CR CState
  | .ret ty e, s =>
    if fn.retVoid then .ok (emit Opc.Return s)
    else
      match e with
      | .cbool true true => .ok (emit Opc.ReturnTrue s)
      | .cbool false true => .ok (emit Opc.ReturnFalse s)
      | e => do
        let s ← compileExpr fx env fn e s
        pure (emit (if isInt ty then Opc.ReturnIntTop else Opc.ReturnTop) s)
  | .retNone, s => if fn.retVoid then .ok (emit Opc.Return s) else .err
  | .assign define lhs rhs, s => do
    let s ← compileExpr fx env fn rhs s
    compileAssignTargets fx fn define lhs.reverse s
  | .assignBad, _ => .err
  | .assignOp _ name ty rhs, s =>
    -- compileAssignStmt only distinguishes `:=` from everything else: `x += e` is compiled as `x = e`
    if fx.assignOp then .err else do
      let s ← compileExpr fx env fn rhs s
      compileAssignTargets fx fn false [(name, ty)] s
  | .incdec inc name, s => do
    let id ← getLocal s name
    emit8 fx (if inc then Opc.IncLocal else Opc.DecLocal) id s
  | .incdecBad, _ => .err
  | .ifThen c body, s => do
    let (lend, s) := newLabel s
    let s ← compileExpr fx env fn c s
    let s ← emitJump Opc.JumpFalse (some lend) s
    let s ← compileStmt fx env fn body s
    pure (bindLabel fx lend s)
  | .ifElse c body els, s => do
    let (lend, s) := newLabel s
    let (lelse, s) := newLabel s
    let s ← compileExpr fx env fn c s
    let s ← emitJump Opc.JumpFalse (some lelse) s
    let s ← compileStmt fx env fn body s
    let s ← (if !isUncondJump s.lastOp then emitJump Opc.Jump (some lend) s else CR.ok s)
    let s := bindLabel fx lelse s
    let s ← compileStmt fx env fn els s
    pure (bindLabel fx lend s)
  | .ifInit _init rest, s =>
    -- compileIfStmt never looks at stmt.Init
    if fx.ifInit then .err else compileStmt fx env fn rest s
  | .forCond c body, s => do
    let (lbreak, s) := newLabel s
    let (lcont, s) := newLabel s
    let prevB := s.breakTarget
    let prevC := s.continueTarget
    let s := { s with breakTarget := some lbreak, continueTarget := some lcont }
    let (lbody, s) := newLabel s
    let s ← emitJump Opc.Jump (some lcont) s
    let s := bindLabel fx lbody s
    let s ← compileStmt fx env fn body s
    let s := bindLabel fx lcont s
    let s ← compileExpr fx env fn c s
    let s ← emitJump Opc.JumpTrue (some lbody) s
    let s := bindLabel fx lbreak s
    pure { s with breakTarget := prevB, continueTarget := prevC }
  | .forEver body, s => do
    let (lbreak, s) := newLabel s
    let (lcont, s) := newLabel s
    let prevB := s.breakTarget
    let prevC := s.continueTarget
    let s := { s with breakTarget := some lbreak, continueTarget := some lcont }
    let s := bindLabel fx lcont s
    let s ← compileStmt fx env fn body s
    let s ← emitJump Opc.Jump (some lcont) s
    let s := bindLabel fx lbreak s
    pure { s with breakTarget := prevB, continueTarget := prevC }
  | .forClause hasInit hasCond hasPost _init _c _post body, s =>
    -- the switch of compileForStmt: all three present → error; anything else that is not the pure
    -- `for cond` form lands in `default:` and is compiled as `for { body }`
    if hasInit && hasCond && hasPost then .err
    else if fx.forClause then .err
    else do
      let (lbreak, s) := newLabel s
      let (lcont, s) := newLabel s
      let prevB := s.breakTarget
      let prevC := s.continueTarget
      let s := { s with breakTarget := some lbreak, continueTarget := some lcont }
      let s := bindLabel fx lcont s
      let s ← compileStmt fx env fn body s
      let s ← emitJump Opc.Jump (some lcont) s
      let s := bindLabel fx lbreak s
      pure { s with breakTarget := prevB, continueTarget := prevC }
  | .brk, s => emitJump Opc.Jump s.breakTarget s
  | .exprCall e, s => compileExpr fx env fn e s
  | .exprBad, _ => .err
  | .block ss, s => compileStmts fx env fn ss s
  | .bad, _ => .err

def compileStmts (fx : Fixes) (env : CEnv) (fn : CFn) : List Stmt → CState → CR CState
  | [], s => .ok s
  | st :: ss, s => do
    let s ← compileStmt fx env fn st s
    compileStmts fx env fn ss s
end

/-- a compiled function (`quasigo.Func`) -/
structure CFunc where
  code : Bytes
  consts : List Bytes
  intConsts : List Int64
  numObjectParams : Nat
  numIntParams : Nat
deriving Repr, DecidableEq, Inhabited

/-- the parameter loop of `compileFunc` -/
def collectParams : List (Nat × Ty) → List (Nat × Nat) → List (Nat × Nat) → CR (List (Nat × Nat) × List (Nat × Nat))
  | [], ps, ips => .ok (ps, ips)
  | (name, ty) :: rest, ps, ips =>
    if !isSupported ty || ty == .void then .err
    else if isInt ty then collectParams rest ps (mapSet ips name ips.length)
    else collectParams rest (mapSet ps name ps.length) ips

/-- `compile` / `compileFunc` -/
def compileFunc (fx : Fixes) (env : CEnv) (f : FuncDecl) : CR CFunc :=
  match (match f.results with
         | [] => CR.ok Ty.void
         | [t] => CR.ok t
         | _ => CR.err) with
  | .err => .err
  | .panic p => .panic p
  | .ok retTy =>
    if !isSupported retTy then .err else do
      let (ps, ips) ← collectParams f.params [] []
      let fnc : CFn := { retVoid := retTy == .void, params := ps, intParams := ips }
      let s ← compileStmt fx env fnc f.body {}
      let s := if fnc.retVoid then emit Opc.Return s else s
      let code ← linkJumps fx s.labels s.code
      pure { code := code, consts := s.consts, intConsts := s.intConsts,
             numObjectParams := ps.length, numIntParams := ips.length }

/-- compile the functions of a file in order, each one registered under its key after it compiled
(`compileFilterFuncs` in ir_loader.go); stops at the first error -/
def compileProgram (fx : Fixes) (natives : List Nat) : List FuncDecl → List Nat → List CFunc → CR (List CFunc)
  | [], _, acc => .ok acc
  | f :: fs, keys, acc => do
    let c ← compileFunc fx { natives := natives, funcs := keys } f
    compileProgram fx natives fs (keys ++ [f.key]) (acc ++ [c])

end Q
