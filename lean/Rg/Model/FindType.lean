import Rg.Base
/-!
# Rg.Model.FindType — the FQN → type cache of `engineState.FindType` under concurrency (C08)

`ruleguard/engine.go:FindType` as it stands (`recheck = false`):

```
RLock; v, ok := cache[fqn]; RUnlock; if ok { return v }
Lock; defer Unlock                       -- no second look at the cache
typ, err := findTypeNoCache(..)          -- resolve in the caller's universe; on success cache[fqn] = typ
if err != nil { return nil, err }
cache[fqn] = typ; return typ
```

and the repaired variant (`recheck = true`, `fixes/findtype-recheck.diff`) that looks again after `Lock`.
Each line is one atomic step of a thread; the lock state is *derived* from the program counters
(`inR`, `inW`, `pending`).  A value is a pair (name, universe): two types of the same name from
different type-checker universes are distinct objects that C14's identity treats as equal.
`resolvable` is the oracle: does the name denote a type (a function of the name only).
-/
namespace FT

abbrev Fqn := Nat

structure Val where
  name : Fqn
  univ : Nat
deriving DecidableEq, Repr, Inhabited

inductive Out | ok (v : Val) | err
deriving DecidableEq, Repr, Inhabited

/-- one `FindType(fqn)` call; `univ` is the universe the caller would resolve the name in -/
structure Call where
  fqn : Fqn
  univ : Nat
deriving DecidableEq, Repr, Inhabited

inductive Pc
  | idle                      -- between calls
  | rheld                     -- after RLock
  | rread (hit : Option Val)  -- after the map read, before RUnlock
  | announce                  -- missed; about to call Lock
  | pending                   -- inside Lock, waiting
  | wheld                     -- write lock held
  | resolve                   -- about to resolve and fill
  | wdone (out : Out)         -- about to Unlock and return
deriving DecidableEq, Repr, Inhabited

structure FThread where
  pc : Pc
  calls : List Call
  done : List (Call × Out)
deriving Repr, Inhabited

structure FState where
  n : Nat
  cache : List (Fqn × Val)
  th : Nat → FThread

def lookup (c : List (Fqn × Val)) (k : Fqn) : Option Val :=
  match c with
  | [] => none
  | (k', v) :: r => if k' = k then some v else lookup r k

def FThread.inW (t : FThread) : Bool :=
  match t.pc with
  | .wheld | .resolve | .wdone _ => true
  | _ => false

def FThread.inR (t : FThread) : Bool :=
  match t.pc with
  | .rheld | .rread _ => true
  | _ => false

def FThread.isPending (t : FThread) : Bool :=
  match t.pc with
  | .pending => true
  | _ => false

def anyW (st : FState) : Bool := (List.range st.n).any (fun j => (st.th j).inW)
def anyR (st : FState) : Bool := (List.range st.n).any (fun j => (st.th j).inR)
def anyP (st : FState) : Bool := (List.range st.n).any (fun j => (st.th j).isPending)

def FState.set (st : FState) (i : Nat) (t : FThread) : FState :=
  { n := st.n, cache := st.cache, th := fun k => if k = i then t else st.th k }

/-- `wp`: a pending writer blocks new readers (Go's RWMutex) -/
def enabled (wp : Bool) (st : FState) (i : Nat) : Bool :=
  decide (i < st.n) &&
  match (st.th i).pc, (st.th i).calls with
  | _, [] => false
  | .idle, _ :: _ => !anyW st && !(wp && anyP st)
  | .pending, _ :: _ => !anyW st && !anyR st
  | _, _ :: _ => true

/-- one step of a thread against the current cache: the new thread state and the entry it inserts
(if any); `recheck` selects the repaired variant -/
def tstep (recheck : Bool) (resolvable : Fqn → Bool) (cache : List (Fqn × Val)) (t : FThread) :
    FThread × Option (Fqn × Val) :=
  match t.calls with
  | [] => (t, none)
  | c :: rest =>
    match t.pc with
    | .idle => ({ t with pc := .rheld }, none)
    | .rheld => ({ t with pc := .rread (lookup cache c.fqn) }, none)
    | .rread (some v) => ({ pc := .idle, calls := rest, done := (c, .ok v) :: t.done }, none)
    | .rread none => ({ t with pc := .announce }, none)
    | .announce => ({ t with pc := .pending }, none)
    | .pending => ({ t with pc := .wheld }, none)
    | .wheld =>
      if recheck then
        match lookup cache c.fqn with
        | some v => ({ t with pc := .wdone (.ok v) }, none)
        | none => ({ t with pc := .resolve }, none)
      else ({ t with pc := .resolve }, none)
    | .resolve =>
      if resolvable c.fqn then
        ({ t with pc := .wdone (.ok { name := c.fqn, univ := c.univ }) }, some (c.fqn, { name := c.fqn, univ := c.univ }))
      else ({ t with pc := .wdone .err }, none)
    | .wdone o => ({ pc := .idle, calls := rest, done := (c, o) :: t.done }, none)

def insertOpt (cache : List (Fqn × Val)) : Option (Fqn × Val) → List (Fqn × Val)
  | none => cache
  | some e => e :: cache

/-- the step of thread `i` -/
def fire (recheck : Bool) (resolvable : Fqn → Bool) (st : FState) (i : Nat) : FState :=
  let r := tstep recheck resolvable st.cache (st.th i)
  { n := st.n, cache := insertOpt st.cache r.2, th := fun k => if k = i then r.1 else st.th k }

inductive Reach (recheck wp : Bool) (resolvable : Fqn → Bool) (s : FState) : FState → Prop
  | refl : Reach recheck wp resolvable s s
  | step {s' : FState} (i : Nat) : Reach recheck wp resolvable s s' → enabled wp s' i = true →
      Reach recheck wp resolvable s (fire recheck resolvable s' i)

def runSched (recheck wp : Bool) (resolvable : Fqn → Bool) : FState → List Nat → Option FState
  | st, [] => some st
  | st, i :: is => if enabled wp st i then runSched recheck wp resolvable (fire recheck resolvable st i) is else none

def init (cache : List (Fqn × Val)) (progs : List (List Call)) : FState :=
  { n := progs.length, cache := cache,
    th := fun i => { pc := .idle, calls := progs.getD i [], done := [] } }

def FState.done (st : FState) : Bool := (List.range st.n).all (fun i => (st.th i).calls.isEmpty)

/-- run round-robin until everybody is done (fuel-bounded); used by the driver -/
def runRR (recheck wp : Bool) (resolvable : Fqn → Bool) : Nat → FState → FState
  | 0, st => st
  | fuel + 1, st =>
    match (List.range st.n).find? (fun i => enabled wp st i) with
    | none => st
    | some i => runRR recheck wp resolvable fuel (fire recheck resolvable st i)

/-- a fair-ish schedule that forces overlap: every enabled thread takes one step per round -/
def runRounds (recheck wp : Bool) (resolvable : Fqn → Bool) : Nat → FState → FState
  | 0, st => st
  | fuel + 1, st =>
    let st' := (List.range st.n).foldl (fun s i => if enabled wp s i then fire recheck resolvable s i else s) st
    if st'.done then st' else runRounds recheck wp resolvable fuel st'

/-- the distinct keys of the cache -/
def keys : List (Fqn × Val) → List Fqn
  | [] => []
  | (k, _) :: r => if (keys r).contains k then keys r else k :: keys r

/-- all completed calls of all threads, thread by thread, in call order -/
def FState.allDone (st : FState) : List (Call × Out) :=
  (List.range st.n).flatMap (fun i => (st.th i).done.reverse)

/-! ## the package cache (`goImporter.Import` + `AddCachedPackage`)

`closure p` = `p` together with its complete transitive imports (what `addCachedPackage` inserts
under one write lock), `none` when `p` cannot be imported.  A hit in the cache imports nothing. -/

def addAll (cache : List Nat) : List Nat → List Nat
  | [] => cache
  | d :: ds => if cache.contains d then addAll cache ds else addAll (d :: cache) ds

def importAll (closure : Nat → Option (List Nat)) (cache : List Nat) : List Nat → List Nat
  | [] => cache
  | p :: ps =>
    if cache.contains p then importAll closure cache ps
    else match closure p with
      | none => importAll closure cache ps
      | some ds => importAll closure (addAll cache ds) ps

end FT
