import Rg.Model.IR
import Rg.Model.GoTok
/-!
# Model of `ruleguard/irprint/irprint.go` as a token-stream printer

`printFileV fixed f` transcribes `printer.printFile` / `printReflectElemNoNewline`: the
reflection walk is unfolded per IR type (the Go code dispatches on `v.Type().Name()` and
`v.Type().Kind()`; every IR type takes exactly one of those branches).  Output is the go/scanner
token stream of the text *after* `format.Source`: gofmt changes white space and deletes a comma that
is directly followed by a closing brace on the same line, which happens exactly at the end of a slice
that `isCompactSlice` makes the printer write on one line (see `pSlice`).

* `fixed = false` — the code as it is (`printFile_asis`): bundle imports are written without
  element braces and with `PkgPath` in the `Prefix` position (D13); a zero-valued element of a
  slice is skipped like a zero-valued field; the one-line form of `String`/`VarPure`/`VarText`
  expressions type-asserts `Value.(string)` and never prints `Args`.
* `fixed = true` — the code after `fixes/irprint-roundtrip.diff` (`printFile`): bundle imports are
  braced and print `Prefix`; zero elision applies to struct fields only, never to slice elements.
-/

namespace IR

def key (k : String) : List GTok := if k == "" then [] else [.ident k, .colon]

/-- `%d` / `%v` of an integer as go/scanner sees it: `-` is a separate token -/
def intToks (n : Int) : List GTok := if n < 0 then [.sub, .int n.natAbs] else [.int n.toNat]

def qual (p n : String) : List GTok := [.ident p, .dot, .ident n]

/-- `v.Type().String()` of a slice type, then `{` -/
def sliceOpen (elem : List GTok) : List GTok := [.lbrack, .rbrack] ++ elem ++ [.lbrace]

/-- is the zero check of `printReflectElemNoNewline` in force?  (as-is: always; fixed: not for slice elements) -/
def elide (fixed inList : Bool) : Bool := !(fixed && inList)

/-- an `int` field (`default:` branch, `%#v,`) -/
def pInt (k : String) (v : Int) : List GTok :=
  if v == 0 then [] else key k ++ intToks v ++ [.comma]

/-- a `string` field or element (`default:` branch, `%#v,` = `strconv.Quote`) -/
def pStr (fixed inList : Bool) (k : String) (v : Bytes) : List GTok :=
  if v.isEmpty && elide fixed inList then [] else key k ++ [.str v, .comma]

/-- a `FilterOp` field: `ir.Filter%sOp,` -/
def pOp (k : String) (op : Nat) : List GTok :=
  if op == 0 then [] else key k ++ qual "ir" (opIdent op) ++ [.comma]

/-- the `interface{}` field `Value`: `int64(%v),` or `%#v,` -/
def pVal (k : String) : Val → List GTok
  | .nil => []
  | .str b => key k ++ [.str b, .comma]
  | .int64 n => key k ++ [.ident "int64", .lparen] ++ intToks n ++ [.rparen, .comma]

/-- `PatternString` (always a slice element): `{Line: %d, Value: %#v},` -/
def pPattern (fixed : Bool) (p : PatternString) : List GTok :=
  if p.isZero && elide fixed true then [] else
  [.lbrace, .ident "Line", .colon] ++ intToks p.line ++ [.comma, .ident "Value", .colon, .str p.value, .rbrace, .comma]

/-- `isCompactSlice`: string/int elements: at most 4; anything else: at most 1 (all elements count,
also those that are then not printed) -/
def isCompactSlice (strElems : Bool) (len : Nat) : Bool := if strElems then len ≤ 4 else len ≤ 1

/-- a slice field: nothing when nil, else `key: []T{ elems },`.  A compact slice is written on one
line, and `format.Source` then deletes the comma in front of the closing brace (the last token of
`elems`, every printed element ending in a comma); otherwise every element is followed by a newline
and all commas stay. -/
def pSlice {α} (k : String) (strElems : Bool) (elemTy : List GTok) (s : Sl α) (elems : List GTok) : List GTok :=
  if s.isNil then [] else
  key k ++ sliceOpen elemTy ++ (if isCompactSlice strElems s.elems.length then elems.dropLast else elems) ++ [.rbrace, .comma]

mutual
/-- `FilterExpr`: the one-line form for String/VarPure/VarText, the generic struct form otherwise -/
def pFilter (fixed : Bool) (k : String) (inList : Bool) : FilterExpr → Res (List GTok)
  | .mk l o s v as nn =>
    if (FilterExpr.mk l o s v as nn).isZero && elide fixed inList then .ok [] else
    let pre := key k ++ (if inList then [] else qual "ir" "FilterExpr")
    if isCompactOp o then
      match v with
      | .str b => .ok (pre ++ [.lbrace, .ident "Line", .colon] ++ intToks l ++
          [.comma, .ident "Op", .colon] ++ qual "ir" (opIdent o) ++
          [.comma, .ident "Src", .colon, .str s, .comma, .ident "Value", .colon, .str b, .rbrace, .comma])
      | _ => .panic .typeAssert            -- v.Value.(string)
    else
      match pFilterList fixed as with
      | .panic p => .panic p
      | .ok ts => .ok (pre ++ [.lbrace] ++ pInt "Line" l ++ pOp "Op" o ++ pStr fixed false "Src" s ++
          pVal "Value" v ++ pSlice "Args" false (qual "ir" "FilterExpr") (⟨as, nn⟩ : Sl FilterExpr) ts ++ [.rbrace, .comma])
def pFilterList (fixed : Bool) : List FilterExpr → Res (List GTok)
  | [] => .ok []
  | a :: as =>
    match pFilter fixed "" true a with
    | .panic p => .panic p
    | .ok t => match pFilterList fixed as with
      | .panic p => .panic p
      | .ok ts => .ok (t ++ ts)
end

def pImport (fixed : Bool) (i : PackageImport) : List GTok :=
  if i.isZero && elide fixed true then [] else
  [.lbrace] ++ pStr fixed false "Path" i.path ++ pStr fixed false "Name" i.name ++ [.rbrace, .comma]

def pRule (fixed : Bool) (r : Rule) : Res (List GTok) :=
  if r.isZero && elide fixed true then .ok [] else
  match pFilter fixed "WhereExpr" false r.whereExpr with
  | .panic p => .panic p
  | .ok w => .ok ([.lbrace] ++ pInt "Line" r.line ++
      pSlice "SyntaxPatterns" false (qual "ir" "PatternString") r.syntaxPatterns (r.syntaxPatterns.elems.flatMap (pPattern fixed)) ++
      pSlice "CommentPatterns" false (qual "ir" "PatternString") r.commentPatterns (r.commentPatterns.elems.flatMap (pPattern fixed)) ++
      pStr fixed false "ReportTemplate" r.reportTemplate ++
      pStr fixed false "SuggestTemplate" r.suggestTemplate ++
      pStr fixed false "DoFuncName" r.doFuncName ++
      w ++
      pStr fixed false "LocationVar" r.locationVar ++ [.rbrace, .comma])

def pRules (fixed : Bool) : List Rule → Res (List GTok)
  | [] => .ok []
  | r :: rs =>
    match pRule fixed r with
    | .panic p => .panic p
    | .ok t => match pRules fixed rs with
      | .panic p => .panic p
      | .ok ts => .ok (t ++ ts)

def pGroup (fixed : Bool) (g : RuleGroup) : Res (List GTok) :=
  if g.isZero && elide fixed true then .ok [] else
  match pRules fixed g.rules.elems with
  | .panic p => .panic p
  | .ok rs => .ok ([.lbrace] ++ pInt "Line" g.line ++
      pStr fixed false "Name" g.name ++
      pStr fixed false "MatcherName" g.matcherName ++
      pSlice "DocTags" true [.ident "string"] g.docTags (g.docTags.elems.flatMap (pStr fixed true "")) ++
      pStr fixed false "DocSummary" g.docSummary ++
      pStr fixed false "DocBefore" g.docBefore ++
      pStr fixed false "DocAfter" g.docAfter ++
      pStr fixed false "DocNote" g.docNote ++
      pSlice "Imports" false (qual "ir" "PackageImport") g.imports (g.imports.elems.flatMap (pImport fixed)) ++
      pSlice "Rules" false (qual "ir" "Rule") g.rules rs ++ [.rbrace, .comma])

def pGroups (fixed : Bool) : List RuleGroup → Res (List GTok)
  | [] => .ok []
  | g :: gs =>
    match pGroup fixed g with
    | .panic p => .panic p
    | .ok t => match pGroups fixed gs with
      | .panic p => .panic p
      | .ok ts => .ok (t ++ ts)

/-- one bundle import as `printFile` writes it by hand -/
def pBundle (fixed : Bool) (b : BundleImport) : List GTok :=
  if fixed then
    [.lbrace, .ident "Line", .colon] ++ intToks b.line ++ [.comma, .ident "PkgPath", .colon, .str b.pkgPath,
      .comma, .ident "Prefix", .colon, .str b.pfx, .rbrace, .comma]
  else
    -- p.writef("Line: %d,\n", imp.Line); p.writef("PkgPath: %q,\n", imp.PkgPath); p.writef("Prefix: %q,\n", imp.PkgPath)
    [.ident "Line", .colon] ++ intToks b.line ++ [.comma, .ident "PkgPath", .colon, .str b.pkgPath,
      .comma, .ident "Prefix", .colon, .str b.pkgPath, .comma]

/-- `printer.printFile` -/
def printFileV (fixed : Bool) (f : File) : Res (List GTok) :=
  match pGroups fixed f.ruleGroups.elems with
  | .panic p => .panic p
  | .ok gs => .ok (qual "ir" "File" ++ [.lbrace,
      .ident "PkgPath", .colon, .str f.pkgPath, .comma,
      .ident "CustomDecls", .colon] ++ sliceOpen [.ident "string"] ++
        f.customDecls.elems.flatMap (fun s => [.str s, .comma]) ++ [.rbrace, .comma,
      .ident "BundleImports", .colon] ++ sliceOpen (qual "ir" "BundleImport") ++
        f.bundleImports.elems.flatMap (pBundle fixed) ++ [.rbrace, .comma] ++
      pSlice "RuleGroups" false (qual "ir" "RuleGroup") f.ruleGroups gs ++ [.rbrace])

/-- the printer as it is in the repository -/
def printFile_asis (f : File) : Res (List GTok) := printFileV false f
/-- the printer after `fixes/irprint-roundtrip.diff` -/
def printFile (f : File) : Res (List GTok) := printFileV true f

end IR
