import Rg.Base
/-!
# Model of `ruleguard/runner.go:truncateText` and of the effective limit chosen by `newRulesRunner`

`truncAsIs` is the function as it stood at the pinned commit (defect D4, kept for the
kernel-checked counterexamples); `trunc` is the function as it stands after
`fix: truncateText…` and is what the correspondence check compares the code with.
-/

def marker : Bytes := [60, 46, 46, 46, 62]   -- "<...>"

/-- runner.go:truncateText at the pinned commit (before the fix). -/
def truncAsIs (s : Bytes) (maxLen : Int) : Res Bytes :=
  if (s.length : Int) ≤ maxLen - 5 then .ok s else
  let m := maxLen - 5
  let leftLen := Int.tdiv m 2
  let rightLen := Int.tmod m 2 + leftLen
  do
    let left ← goSlice s 0 leftLen
    let right ← goSlice s ((s.length : Int) - rightLen) s.length
    pure (left ++ marker ++ right)

/-- runner.go:truncateText (current). -/
def trunc (s : Bytes) (maxLen : Int) : Res Bytes :=
  if (s.length : Int) ≤ maxLen then .ok s else
  let m := if maxLen - 5 < 0 then 0 else maxLen - 5
  let leftLen := Int.tdiv m 2
  let rightLen := Int.tmod m 2 + leftLen
  do
    let left ← goSlice s 0 leftLen
    let right ← goSlice s ((s.length : Int) - rightLen) s.length
    pure (left ++ marker ++ right)

/-- `newRulesRunner`: `rr.truncateLen = ctx.TruncateLen`, 60 when that is zero. -/
def effLen (cfg : Int) : Int := if cfg = 0 then 60 else cfg

/-- The text `renderMessage` substitutes for a capture whose source text is `s`:
truncated iff `truncate` (true for Report, false for Suggest). -/
def interp (truncate : Bool) (s : Bytes) (cfg : Int) : Res Bytes :=
  if truncate then trunc s (effLen cfg) else .ok s
