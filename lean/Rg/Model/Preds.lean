import Rg.Base
import Rg.Model.FilterIR
/-!
# Model of the Where() predicates' own logic (C02)

Inputs are *facts* about the captured node that the harness computes with go/types and go/ast
independently of ruleguard: the shape of its type (`Ty`), the shape of the expression (`Ex`, with
the `types.Object` facts of its identifiers), node tags, oracle answers of the go/types relations
(`AssignableTo`, `ConvertibleTo`, `Comparable`, `Implements`, `Identical`, pattern match) the
predicates delegate to.  Modelled line by line: `utils.go:isPure/isPureList/isTypeExpr/
isConstantSlice/identOf`, `filters.go:typeHasPointers`, `makeTypeIsIntUintFilter`,
`makeTypeIsSignedFilter`, `makeTypeOfKindFilter`, `makeObjectIsFilter`, `makeObjectIsGlobalFilter`,
`makeObjectIsVariadicParamFilter`, `nodeIs`, `makeGoVersionFilter`, `go_version.go`,
`ir_loader.go:stringToBasicKind` and the OfKind case of `newFilter`, the node accessor
(`subExpr` / `subNode` / `typeofNode`) and `$*xs` handling of every predicate constructor, and the
dispatch itself (`evalPred` over a `Site`).  Behaviour-changing repairs of the Go code are flags
(`fixed`, `ext`, `lists`, `stmt`, collected in `Variant`): cleared = the code as it stood.
-/
namespace PR
open FIR (Tok)

/-! ## go/types constants the code mentions (tied to the real package by `Rg/Gen/FilterTables.lean`) -/
def kInt : Nat := 2
def kUint : Nat := 7
def kUint8 : Nat := 8
def kString : Nat := 17
def kUnsafePointer : Nat := 18
def kUntypedString : Nat := 24
def kUntypedNil : Nat := 25
def bInteger : Nat := 2
def bUnsigned : Nat := 4
def bFloat : Nat := 8
def bComplex : Nat := 16
def bUntyped : Nat := 64
def bNumeric : Nat := 26

/-! ## types -/

/-- a `types.Type` as far as ruleguard's own predicates look into it -/
inductive Ty
  | basic (kind : Nat) (info : Nat)   -- *types.Basic: Kind(), Info()
  | named (under : Ty)                -- *types.Named with its Underlying()
  | alias (actual : Ty)               -- *types.Alias (GODEBUG gotypesalias=1) with what it stands for
  | strct (fields : List Ty)          -- *types.Struct
  | array (elem : Ty)                 -- *types.Array
  | tparam                            -- *types.TypeParam
  | other                             -- pointer, slice, map, chan, signature, interface, tuple
deriving Repr, Inhabited

/-- `types.Typ[types.Invalid]` -/
def invalidTy : Ty := .basic 0 0

/-- `typ.Underlying()` -/
def Ty.underlying : Ty → Ty
  | .named u => u
  | .alias a => a.underlying
  | t => t

mutual
/-- `filters.go:typeHasPointers`; `fixed`: with `case *types.Alias: return typeHasPointers(types.Unalias(typ))` -/
def typeHasPointers (fixed : Bool) : Ty → Bool
  | .basic k _ => k == kUnsafePointer || k == kString || k == kUntypedNil || k == kUntypedString
  | .named u => typeHasPointers fixed u
  | .strct fs => anyHasPointers fixed fs
  | .array e => typeHasPointers fixed e
  | .alias a => if fixed then typeHasPointers fixed a else true
  | _ => true                          -- default: (type parameter, pointer, slice, …)
def anyHasPointers (fixed : Bool) : List Ty → Bool
  | [] => false
  | f :: fs => if typeHasPointers fixed f then true else anyHasPointers fixed fs
end

/-- `types.Unalias` -/
def unalias : Ty → Ty
  | .alias a => unalias a
  | t => t

/-- `basicType, ok := typ.(*types.Basic)` with `Kind()` and `Info()` -/
def basicView : Ty → Option (Nat × Nat)
  | .basic k i => some (k, i)
  | _ => none

/-- `if underlying { typ = typ.Underlying() }; basicType, ok := typ.(*types.Basic)`;
`fixed`: with `typ = types.Unalias(typ)` in front of the type assertion -/
def asBasic (fixed : Bool) (underlying : Bool) (t : Ty) : Option (Nat × Nat) :=
  let t1 := if underlying then t.underlying else t
  basicView (if fixed then unalias t1 else t1)

/-- `makeTypeIsIntUintFilter` -/
def typeIsIntUint (fixed : Bool) (underlying : Bool) (kind : Nat) (t : Ty) : Bool :=
  match asBasic fixed underlying t with
  | some (k, _) => kind ≤ k && k ≤ kind + 4
  | none => false

/-- `makeTypeIsSignedFilter` -/
def typeIsSigned (fixed : Bool) (underlying : Bool) (t : Ty) : Bool :=
  match asBasic fixed underlying t with
  | some (_, i) => (i &&& bInteger != 0) && (i &&& bUnsigned == 0)
  | none => false

/-- `makeTypeOfKindFilter` -/
def typeOfKind (fixed : Bool) (underlying : Bool) (bits : Nat) (t : Ty) : Bool :=
  match asBasic fixed underlying t with
  | some (_, i) => i &&& bits != 0
  | none => false

/-- the strings the OfKind case and `stringToBasicKind` switch on (vocabulary shared with the spec) -/
inductive KindName
  | integer | unsigned | float | complex | untyped | numeric | signed | int | uint | empty | unknown
deriving DecidableEq, Repr, Inhabited

def kindOfString (s : String) : KindName :=
  if s == "" then .empty
  else if s == "integer" then .integer
  else if s == "unsigned" then .unsigned
  else if s == "float" then .float
  else if s == "complex" then .complex
  else if s == "untyped" then .untyped
  else if s == "numeric" then .numeric
  else if s == "signed" then .signed
  else if s == "int" then .int
  else if s == "uint" then .uint
  else .unknown

/-- `ir_loader.go:stringToBasicKind`; `fixed = false` is the code as it stands ("untyped" ↦ IsUnsigned) -/
def basicKindOf (fixed : Bool) : KindName → Nat
  | .integer => bInteger
  | .unsigned => bUnsigned
  | .float => bFloat
  | .complex => bComplex
  | .untyped => if fixed then bUntyped else bUnsigned
  | .numeric => bNumeric
  | _ => 0

def stringToBasicKind (fixed : Bool) (s : String) : Nat := basicKindOf fixed (kindOfString s)

/-- the `FilterVarTypeOfKindOp` / `FilterVarTypeUnderlyingOfKindOp` case of `newFilter`: `none` = load error -/
def ofKindK (fixed : Bool) (underlying : Bool) : KindName → Option (Ty → Bool)
  | .empty => none                                         -- "expected a non-empty string argument"
  | .signed => some (typeIsSigned fixed underlying)
  | .int => some (typeIsIntUint fixed underlying kInt)
  | .uint => some (typeIsIntUint fixed underlying kUint)
  | k =>
    let bits := basicKindOf fixed k
    if bits == 0 then none else some (typeOfKind fixed underlying bits)   -- "unknown kind %s"

def ofKind (fixed : Bool) (underlying : Bool) (kind : String) : Option (Ty → Bool) :=
  ofKindK fixed underlying (kindOfString kind)

/-! ## expressions -/

inductive ObjKind | func | var | const | typeName | label | pkgName | builtin | nil
deriving DecidableEq, Repr, Inhabited

/-- facts about the `types.Object` of an identifier -/
structure Obj where
  kind : ObjKind
  parentIsPkgScope : Bool     -- `obj.Parent() == ctx.Pkg.Scope()`
  lastParamOfDecl : Bool      -- is the last parameter of the enclosing *FuncDecl*'s signature
  variadicParam : Bool        -- (spec side) is the `...T` parameter of some function, declared or literal
  variadicOfLit : Bool        -- is the `...T` parameter of a function literal on the node path of the match (the match root or an ancestor)
deriving DecidableEq, Repr, Inhabited

/-- an `ast.Expr` as far as `isPure`, `isConstantSlice`, `identOf` look into it; `none` objects are
identifiers go/types has no object for -/
inductive Ex
  | star (x : Ex)
  | binary (x y : Ex)
  | unary (isArrow : Bool) (x : Ex)
  | basicLit (isString : Bool)
  | ident (o : Option Obj)
  | funcLit
  | index (x i : Ex)
  | selector (x : Ex) (sel : Option Obj)
  | paren (x : Ex)
  | composite (elts : List Ex) (eltsConst : List Bool) (isSlice : Bool)  -- with `isConstant(info, elt)` per element; "the literal's type is a slice"
  | call (fn : Ex) (args : List Ex) (funIsByteSlice : Bool)      -- with "TypeOf(Fun) is []uint8-like"
  | typeLit                                                      -- FuncType, StructType, InterfaceType, ArrayType, MapType, ChanType
  | keyValue (k v : Ex)                                          -- an element `k: v` of a composite literal
  | slice (x : Ex) (idx : List Ex)                               -- x[lo:hi:max]
  | typeAssert (x : Ex)                                          -- x.(T)
  | other
deriving Repr, Inhabited

def isTypeName : Option Obj → Bool
  | some o => o.kind == .typeName
  | none => false

/-- `utils.go:isTypeExpr` -/
def isTypeExpr : Ex → Bool
  | .star x => isTypeExpr x
  | .paren x => isTypeExpr x
  | .selector _ sel => isTypeName sel
  | .ident o => isTypeName o
  | .typeLit => true
  | _ => false

mutual
/-- `utils.go:isPure` (the `default` case answers `false`).  `ext = false`: the code as it stood;
`ext = true`: after `fixes/c02-pure-whitelist.diff` (key-value elements, slice expressions, type
assertions and type expressions are on the whitelist; a slice expression's present bounds are `idx`) -/
def isPure (ext : Bool) : Ex → Bool
  | .star x => isPure ext x
  | .binary x y => isPure ext x && isPure ext y
  | .unary arrow x => !arrow && isPure ext x
  | .basicLit _ | .ident _ | .funcLit => true
  | .index x i => isPure ext x && isPure ext i
  | .selector x _ => isPure ext x
  | .paren x => isPure ext x
  | .composite elts _ _ => isPureList ext elts
  | .call fn args _ => isTypeExpr fn && isPureList ext args
  | .keyValue k v => ext && (isPure ext k && isPure ext v)
  | .slice x idx => ext && (isPure ext x && isPureList ext idx)
  | .typeAssert x => ext && isPure ext x
  | .typeLit => ext
  | .other => false
def isPureList (ext : Bool) : List Ex → Bool
  | [] => true
  | e :: es => if !isPure ext e then false else isPureList ext es
end

/-- `utils.go:isConstantSlice`.  `fixed = true`: after `fixes/c02-constslice-literal-type.diff` (a composite
literal must be of slice or array type) -/
def isConstantSlice (fixed : Bool) : Ex → Bool
  | .call _ args funIsByteSlice =>
    match args with
    | [.basicLit true] => funIsByteSlice
    | _ => false
  | .composite _ eltsConst isSlice => (!fixed || isSlice) && eltsConst.all id
  | _ => false

/-- `utils.go:identOf`: `none` = nil; otherwise the object facts of the identifier found -/
def identOf : Ex → Option (Option Obj)
  | .paren x => identOf x
  | .ident o => some o
  | .selector _ sel => some sel
  | _ => none

/-- the `predicate` closures of `makeObjectIsFilter` (a type assertion on the object; nil fails) -/
def objIsKind (k : ObjKind) : Option Obj → Bool
  | some o => o.kind == k
  | none => false

/-- `makeObjectIsFilter` on one expression (`none` = `subExpr` returned nil) -/
def objectIs (k : ObjKind) (e : Option Ex) : Bool :=
  match e with
  | none => false
  | some e =>
    match identOf e with
    | none => false
    | some o => objIsKind k o

/-- `params.ctx.Types.ObjectOf(identOf(params.subExpr(varname)))` (`ObjectOf(nil)` is nil) -/
def objOf (e : Option Ex) : Option Obj :=
  match e with
  | none => none
  | some e => match identOf e with | some o => o | none => none

/-- `makeObjectIsGlobalFilter`: `ObjectOf(identOf(e)).Parent() == Pkg.Scope()`.
`fixed = false`: the method call on a nil object panics. -/
def objectIsGlobal (fixed : Bool) (e : Option Ex) : Res Bool :=
  match objOf e with
  | some o => .ok o.parentIsPkgScope
  | none => if fixed then .ok false else .panic .nilDeref

/-- what `makeObjectIsVariadicParamFilter` knows about `params.currentFunc` -/
inductive CurFunc
  | none                    -- not inside a FuncDecl
  | notFunc                 -- ObjectOf(name) is not a *types.Func
  | decl (variadic : Bool)
deriving DecidableEq, Repr, Inhabited

/-- `makeObjectIsVariadicParamFilter` on one expression.  `fixed = false`: only the enclosing function
declaration is consulted; `fixed = true` (after `fixes/c02-variadic-funclit.diff`): also the function
literals on the node path of the match -/
def objectIsVariadicParam (fixed : Bool) (cf : CurFunc) (e : Option Ex) : Bool :=
  if fixed then
    match objOf e with
    | none => false                                   -- `obj == nil`
    | some o => (match cf with | .decl true => o.lastParamOfDecl | _ => false) || o.variadicOfLit
  else
    match cf with
    | .none | .notFunc => false
    | .decl false => false
    | .decl true =>
      match objOf e with
      | some o => o.lastParamOfDecl
      | none => false             -- paramObj != nil

/-! ## nodes -/

structure NodeF where
  tag : String              -- name of `nodetag.FromNode(n)`
  isExpr : Bool             -- `n.(ast.Expr)`
  isStmt : Bool             -- `n.(ast.Stmt)`
deriving DecidableEq, Repr, Inhabited

/-- `filters.go:nodeIs` (`none` = a nil node; its tag is Unknown, which no loaded filter asks for) -/
def nodeIs (n : Option NodeF) (tag : String) : Bool :=
  if tag == "Expr" then (match n with | some f => f.isExpr | none => false)
  else if tag == "Stmt" then (match n with | some f => f.isStmt | none => false)
  else if tag == "Node" then true
  else match n with | some f => tag == f.tag | none => false

/-! ## Go versions -/

structure GoVersion where
  major : Int
  minor : Int
deriving DecidableEq, Repr, Inhabited

/-- `go_version.go:versionCompare` -/
def versionCompare (x : GoVersion) (t : Tok) (y : GoVersion) : Bool :=
  match t with
  | .eql => x.major == y.major && x.minor == y.minor
  | .neq => !(x.major == y.major && x.minor == y.minor)
  | .gtr => x.major > y.major || (x.major == y.major && x.minor > y.minor)
  | .geq => x.major > y.major || (x.major == y.major && x.minor ≥ y.minor)
  | .lss => x.major < y.major || (x.major == y.major && x.minor < y.minor)
  | .leq => x.major < y.major || (x.major == y.major && x.minor ≤ y.minor)

/-- `makeGoVersionFilter` -/
def goVersionFilter (target : GoVersion) (t : Tok) (v : GoVersion) : Bool :=
  if target.major == 0 then true else versionCompare target t v

def atoiNat (ds : List UInt8) : Option Nat :=
  ds.foldl (fun acc (d : UInt8) => match acc with
    | none => none
    | some n => if 48 ≤ d && d ≤ 57 then some (n * 10 + (d.toNat - 48)) else none) (some 0)

/-- `strconv.Atoi` on ASCII bytes: optional sign, at least one digit, digits only, int64 range -/
def atoi (s : Bytes) : Option Int :=
  match s with
  | [] => none
  | 43 :: ds => if ds.isEmpty then none else (atoiNat ds).bind fun n => if n ≤ 9223372036854775807 then some (n : Int) else none
  | 45 :: ds => if ds.isEmpty then none else (atoiNat ds).bind fun n => if n ≤ 9223372036854775808 then some (-(n : Int)) else none
  | ds => (atoiNat ds).bind fun n => if n ≤ 9223372036854775807 then some (n : Int) else none

/-- `strings.Split(s, ".")` -/
def splitDot : Bytes → List Bytes
  | [] => [[]]
  | c :: cs =>
    match splitDot cs with
    | [] => [[c]]            -- unreachable
    | p :: ps => if c == 46 then [] :: p :: ps else (c :: p) :: ps

/-- `go_version.go:ParseGoVersion` (`none` = an error) -/
def parseGoVersion (s : Bytes) : Option GoVersion :=
  if s.isEmpty then some ⟨0, 0⟩
  else match splitDot s with
    | [a, b] =>
      match atoi a with
      | none => none
      | some major => match atoi b with
        | none => none
        | some minor => some ⟨major, minor⟩
    | _ => none

/-! ## which node a predicate reads, and `$*xs` -/

/-- per capture, the answers of an oracle relation (a go/types call the predicate delegates to) -/
structure Oracle where
  onSubNode : Bool            -- on `typeofNode(params.subNode(v))`
  onSubExpr : Bool            -- on `typeofNode(params.subExpr(v))`
  onElems : Option (List Bool)  -- `some`: the capture is an ExprNodeSlice, one answer per element
deriving DecidableEq, Repr, Inhabited

/-- `exprListFilterApply` -/
def allElems (l : List Bool) : Bool := l.all id

/-- the predicates that delegate to a go/types relation -/
inductive Rel
  | typeIs | typeUnderlyingIs | convertibleTo | assignableTo | implements | comparable
  | hasMethod | identicalTo | addressable | const
  | sinkTypeIs            -- `m["$$"].SinkType.Is(T)`: delegated to the harness' own derivation of the sink + go/types identity
  | textMatches | textCmp -- `Text.Matches(re)`, `Text == s` / `Text != s`: delegated to regexp / string comparison on the source text
deriving DecidableEq, Repr, Inhabited

/-- the relation on `typeofNode(params.subNode(v))`.  `stmt = false`: only an `ast.Expr` has a type there;
`stmt = true` (after `fixes/c02-typeof-exprstmt.diff`): `typeofNode` gives an `*ast.ExprStmt` the type of
its expression, so that it coincides with `typeofNode(params.subExpr(v))` on every capture the record
describes (expressions, statements, lists; `*ast.Field` captures are outside it) -/
def Oracle.onNode (stmt : Bool) (o : Oracle) : Bool := if stmt then o.onSubExpr else o.onSubNode

/-- `makeTypeIsFilter`, `makeTypeConvertibleToFilter`, `makeTypeAssignableToFilter`,
`makeTypeImplementsFilter`, `makeComparableFilter`, `makeTypeHasMethodFilter`,
`makeTypesIdenticalFilter`, `makeAddressableFilter`, `makeConstFilter`: which accessor, and whether
an expression list is handled element-wise -/
def relFilter (stmt : Bool) (r : Rel) (o : Oracle) : Bool :=
  match r with
  | .typeIs | .typeUnderlyingIs | .comparable | .hasMethod =>   -- HasMethod: element-wise since the `fix:` commit 4160912
    match o.onElems with | some l => allElems l | none => o.onNode stmt
  | .convertibleTo | .assignableTo | .implements | .addressable | .const =>
    match o.onElems with | some l => allElems l | none => o.onSubExpr
  | .identicalTo => o.onNode stmt
  -- `makeRootSinkTypeIsFilter` reads the match node and its ancestors, `makeTextMatchesFilter` /
  -- `makeTextConstFilter` read `nodeText(params.subNode(v))`: the node itself (an expression list is one
  -- node: its text is the span of its elements, "" when empty), no list case
  | .sinkTypeIs | .textMatches | .textCmp => o.onSubNode

/-- a capture as the expression predicates see it -/
inductive ExCap
  | one (e : Option Ex)          -- `subExpr(v)`; `none`: not an expression
  | list (es : List Ex)
deriving Repr, Inhabited

/-- `makePureFilter` / `makeConstSliceFilter` / `makeObjectIsFilter`: element-wise on lists -/
def exprFilter (p : Option Ex → Bool) : ExCap → Bool
  | .one e => p e
  | .list es => es.all fun e => p (some e)

def pureOpt (ext : Bool) : Option Ex → Bool | some e => isPure ext e | none => false
def constSliceOpt (fixed : Bool) : Option Ex → Bool | some e => isConstantSlice fixed e | none => false

/-- the predicates that read only `subExpr` (a list capture is not an expression: nil) -/
def ExCap.subExpr : ExCap → Option Ex
  | .one e => e
  | .list _ => none

/-- `exprListFilterApply` with a closure that may panic: stops at the first element that fails -/
def allRes {α : Type} (f : α → Res Bool) : List α → Res Bool
  | [] => .ok true
  | a :: as =>
    match f a with
    | .ok true => allRes f as
    | r => r

/-- the expression predicates that had no list case (`Object.IsGlobal`, `Object.IsVariadicParam`):
`lists = false`: the code as it stood, a list capture is read as a nil expression;
`lists = true` (after `fixes/c02-list-captures.diff`): element-wise -/
def exprFilterV (lists : Bool) (p : Option Ex → Res Bool) (c : ExCap) : Res Bool :=
  match c with
  | .one e => p e
  | .list es => if lists then allRes (fun e => p (some e)) es else p none

/-- a capture as the type predicates see it: `typeofNode(subExpr(v))`, or one type per element of `$*xs` -/
inductive TyCap
  | one (t : Ty)
  | list (ts : List Ty)
deriving Repr, Inhabited

/-- `makeTypeOfKindFilter` / `makeTypeIsSignedFilter` / `makeTypeIsIntUintFilter` / `makeTypeHasPointersFilter`
on a capture.  `lists = false`: a list capture is read as a nil expression (`types.Typ[types.Invalid]`);
`lists = true` (after `fixes/c02-list-captures.diff`): element-wise -/
def tyFilter (lists : Bool) (p : Ty → Bool) : TyCap → Bool
  | .one t => p t
  | .list ts => if lists then ts.all p else p invalidTy

/-! ## variants, sites, and the dispatch of `newFilter` -/

/-- which repairs are in: each flag is one diff (or, `base`, the three earlier ones) of `fixes/` -/
structure Variant where
  base : Bool      -- ofkind-untyped, isglobal-nil-object, alias-transparent-type-predicates
  lists : Bool     -- c02-list-captures
  stmt : Bool      -- c02-typeof-exprstmt
  cslice : Bool    -- c02-constslice-literal-type
  pure : Bool      -- c02-pure-whitelist
  flit : Bool      -- c02-variadic-funclit
deriving DecidableEq, Repr, Inhabited

/-- the pinned tree -/
def Variant.asis : Variant := ⟨false, false, false, false, false, false⟩
/-- after the three earlier repairs -/
def Variant.fixed : Variant := ⟨true, false, false, false, false, false⟩
/-- after every repair -/
def Variant.repaired : Variant := ⟨true, true, true, true, true, true⟩

/-- everything the predicates read at one capture of one match -/
structure Site where
  ex : ExCap                  -- the expression view: `subExpr(v)` or the elements of `$*xs`
  ty : TyCap                  -- the type view (`typeofNode` of the former)
  node : Option NodeF         -- `subNode(v)`
  parent : Option NodeF       -- `nodePath.Parent()`
  cf : CurFunc
  oracle : Option Oracle      -- answers of the go/types relation the predicate delegates to (`none`: not supplied)
deriving Repr, Inhabited

/-- `makeObjectIsFilter`'s switch (and the loader's check of the name) -/
def objKindOfString (s : String) : Option ObjKind :=
  if s == "Func" then some .func else if s == "Var" then some .var else if s == "Const" then some .const
  else if s == "TypeName" then some .typeName else if s == "Label" then some .label
  else if s == "PkgName" then some .pkgName else if s == "Builtin" then some .builtin
  else if s == "Nil" then some .nil else none

/-- a predicate with its (string) argument as the loader receives it -/
inductive Pred
  | ofKind (underlying : Bool) (kind : String)
  | hasPointers | pure | constSlice
  | objectIs (name : String)
  | isGlobal | isVariadic
  | nodeIs (known : Bool) (tag : String)       -- `known`: `nodetag.FromString(tag) != Unknown` (oracle)
  | parentIs (known : Bool) (tag : String)
  | rel (r : Rel)
deriving DecidableEq, Repr, Inhabited

/-- `ir_loader.go:newFilter` for these predicates, then the filter on a site.
Outer `none`: the loader rejects the argument; inner `none`: the site carries no oracle answer. -/
def evalPred (v : Variant) : Pred → Option (Site → Option (Res Bool))
  | .ofKind u kind =>
    match ofKind v.base u kind with
    | none => none
    | some f => some fun s => some (.ok (tyFilter v.lists f s.ty))
  | .hasPointers => some fun s => some (.ok (tyFilter v.lists (typeHasPointers v.base) s.ty))
  | .pure => some fun s => some (.ok (exprFilter (pureOpt v.pure) s.ex))
  | .constSlice => some fun s => some (.ok (exprFilter (constSliceOpt v.cslice) s.ex))
  | .objectIs name =>
    match objKindOfString name with
    | none => none                                   -- "" / "%s is not a valid go/types object name"
    | some k => some fun s => some (.ok (exprFilter (objectIs k) s.ex))
  | .isGlobal => some fun s => some (exprFilterV v.lists (objectIsGlobal v.base) s.ex)
  | .isVariadic => some fun s => some (exprFilterV v.lists (fun e => .ok (objectIsVariadicParam v.flit s.cf e)) s.ex)
  | .nodeIs known tag => if known then some fun s => some (.ok (nodeIs s.node tag)) else none
  | .parentIs known tag => if known then some fun s => some (.ok (nodeIs s.parent tag)) else none
  | .rel r => some fun s => s.oracle.map fun o => .ok (relFilter v.stmt r o)

end PR
