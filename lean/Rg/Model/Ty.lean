import Rg.Base
/-!
# Rg.Model.Ty — go/types types as finite trees (shared by C14 and C10; core Lean only)

One inductive whose only nesting is `List Ty`.  Struct fields, interface methods, union terms are
constructors of the same type (`field`, `method`, `term`) and occur only as list elements of
`struct`, `iface`, `union`; the functions over `Ty` are total on ill-formed trees as well.

*Named types are leaves.*  `named u obj pkg name exported loc targs`:
* `u`    — universe: which type-check session created the package the declaring object belongs to
           (0 = the Go universe scope and everything shared by all sessions);
* `obj`  — the declaration: two leaves have the same `obj` iff their `*types.TypeName`s come from the
           same declaration *in the sources* (same package path, name and position), so that
           `x.Obj() == y.Obj()` (pointer equality) is `u₁ = u₂ ∧ obj₁ = obj₂`, and "counterpart in an
           independent type-check of the same sources" is `obj₁ = obj₂`;
* `pkg`  — `Obj().Pkg()`: `none` for nil, else the package path;
* `exported` — `Obj().Exported()`;  `loc` — declared inside a function (`Obj().Parent() ≠ Pkg().Scope()`);
* `targs` — `TypeArgs()` of an instantiated generic type (`obj` is the origin's object).

`alias u obj target` carries `types.Unalias(x)` as `target`; `tparam u obj` is a type parameter (its
`Obj()` numbered like a named type's); `union pid terms` carries a pointer id (a `*types.Union` has no object; `x == y` is `pid₁ = pid₂`).
`tuple` is a `*types.Tuple` (the nil tuple is `tuple []`); `sig variadic tps params results` has the
constraint types of its own type parameters in `tps`.  `iface ms cmp methods embeds`: `methods` is
`Method(0..NumMethods-1)` (the whole method set, in go/types' order), `ms = IsMethodSet()`,
`cmp = IsComparable()`, `embeds` the embedded non-method-set components when `ms = false`.
`array len` has `len < 0` for an unknown length.
-/

inductive Ty where
  | nil
  | basic (kind : Nat)
  | array (len : Int) (elem : Ty)
  | slice (elem : Ty)
  | ptr (elem : Ty)
  | map (key elem : Ty)
  | chan (dir : Nat) (elem : Ty)
  | tuple (elems : List Ty)
  | sig (variadic : Bool) (tps : List Ty) (params results : Ty)
  | field (name : String) (pkg : Option String) (exported embedded : Bool) (tag : String) (ty : Ty)
  | struct (fields : List Ty)
  | method (name : String) (pkg : Option String) (exported : Bool) (ty : Ty)
  | iface (ms cmp : Bool) (methods embeds : List Ty)
  | named (u obj : Nat) (pkg : Option String) (name : String) (exported loc : Bool) (targs : List Ty)
  | alias (u obj : Nat) (target : Ty)
  | tparam (u obj : Nat)
  | term (tilde : Bool) (ty : Ty)
  | union (pid : Nat) (terms : List Ty)
deriving Repr, Inhabited

namespace Ty

/-! ## Decidable equality (hand-written: `deriving DecidableEq` does not handle nested inductives) -/

mutual
def beq : Ty → Ty → Bool
  | .nil, .nil => true
  | .basic k, .basic k' => k == k'
  | .array n e, .array n' e' => n == n' && beq e e'
  | .slice e, .slice e' => beq e e'
  | .ptr e, .ptr e' => beq e e'
  | .map k e, .map k' e' => beq k k' && beq e e'
  | .chan d e, .chan d' e' => d == d' && beq e e'
  | .tuple es, .tuple es' => beqList es es'
  | .sig v tp p r, .sig v' tp' p' r' => v == v' && beqList tp tp' && beq p p' && beq r r'
  | .field n p x m t ty, .field n' p' x' m' t' ty' =>
      n == n' && p == p' && x == x' && m == m' && t == t' && beq ty ty'
  | .struct fs, .struct fs' => beqList fs fs'
  | .method n p x ty, .method n' p' x' ty' => n == n' && p == p' && x == x' && beq ty ty'
  | .iface a c ms es, .iface a' c' ms' es' => a == a' && c == c' && beqList ms ms' && beqList es es'
  | .named u o p n x l ts, .named u' o' p' n' x' l' ts' =>
      u == u' && o == o' && p == p' && n == n' && x == x' && l == l' && beqList ts ts'
  | .alias u o t, .alias u' o' t' => u == u' && o == o' && beq t t'
  | .tparam u o, .tparam u' o' => u == u' && o == o'
  | .term a t, .term a' t' => a == a' && beq t t'
  | .union i ts, .union i' ts' => i == i' && beqList ts ts'
  | _, _ => false
def beqList : List Ty → List Ty → Bool
  | [], [] => true
  | a :: as, b :: bs => beq a b && beqList as bs
  | _, _ => false
end

mutual
theorem beq_refl : ∀ a : Ty, beq a a = true
  | .nil => by simp [beq]
  | .basic _ => by simp [beq]
  | .array _ e => by simp [beq, beq_refl e]
  | .slice e => by simp [beq, beq_refl e]
  | .ptr e => by simp [beq, beq_refl e]
  | .map k e => by simp [beq, beq_refl k, beq_refl e]
  | .chan _ e => by simp [beq, beq_refl e]
  | .tuple es => by simp [beq, beqList_refl es]
  | .sig _ tp p r => by simp [beq, beqList_refl tp, beq_refl p, beq_refl r]
  | .field _ _ _ _ _ ty => by simp [beq, beq_refl ty]
  | .struct fs => by simp [beq, beqList_refl fs]
  | .method _ _ _ ty => by simp [beq, beq_refl ty]
  | .iface _ _ ms es => by simp [beq, beqList_refl ms, beqList_refl es]
  | .named _ _ _ _ _ _ ts => by simp [beq, beqList_refl ts]
  | .alias _ _ t => by simp [beq, beq_refl t]
  | .tparam _ _ => by simp [beq]
  | .term _ t => by simp [beq, beq_refl t]
  | .union _ ts => by simp [beq, beqList_refl ts]
theorem beqList_refl : ∀ as : List Ty, beqList as as = true
  | [] => by simp [beqList]
  | a :: as => by simp [beqList, beq_refl a, beqList_refl as]
end

mutual
theorem eq_of_beq : ∀ a b : Ty, beq a b = true → a = b
  | .nil, b, h => by cases b <;> simp_all [beq]
  | .basic _, b, h => by cases b <;> simp_all [beq]
  | .array _ e, b, h => by
      cases b <;> simp [beq] at h
      obtain ⟨h1, h2⟩ := h; rw [h1, eq_of_beq e _ h2]
  | .slice e, b, h => by
      cases b <;> simp [beq] at h
      rw [eq_of_beq e _ h]
  | .ptr e, b, h => by
      cases b <;> simp [beq] at h
      rw [eq_of_beq e _ h]
  | .map k e, b, h => by
      cases b <;> simp [beq] at h
      obtain ⟨h1, h2⟩ := h; rw [eq_of_beq k _ h1, eq_of_beq e _ h2]
  | .chan _ e, b, h => by
      cases b <;> simp [beq] at h
      obtain ⟨h1, h2⟩ := h; rw [h1, eq_of_beq e _ h2]
  | .tuple es, b, h => by
      cases b <;> simp [beq] at h
      rw [eqList_of_beq es _ h]
  | .sig _ tp p r, b, h => by
      cases b <;> simp [beq] at h
      obtain ⟨⟨⟨h1, h2⟩, h3⟩, h4⟩ := h
      rw [h1, eqList_of_beq tp _ h2, eq_of_beq p _ h3, eq_of_beq r _ h4]
  | .field _ _ _ _ _ ty, b, h => by
      cases b <;> simp [beq] at h
      obtain ⟨⟨⟨⟨⟨h1, h2⟩, h3⟩, h4⟩, h5⟩, h6⟩ := h
      rw [h1, h2, h3, h4, h5, eq_of_beq ty _ h6]
  | .struct fs, b, h => by
      cases b <;> simp [beq] at h
      rw [eqList_of_beq fs _ h]
  | .method _ _ _ ty, b, h => by
      cases b <;> simp [beq] at h
      obtain ⟨⟨⟨h1, h2⟩, h3⟩, h4⟩ := h
      rw [h1, h2, h3, eq_of_beq ty _ h4]
  | .iface _ _ ms es, b, h => by
      cases b <;> simp [beq] at h
      obtain ⟨⟨⟨h1, h2⟩, h3⟩, h4⟩ := h
      rw [h1, h2, eqList_of_beq ms _ h3, eqList_of_beq es _ h4]
  | .named _ _ _ _ _ _ ts, b, h => by
      cases b <;> simp [beq] at h
      obtain ⟨⟨⟨⟨⟨⟨h1, h2⟩, h3⟩, h4⟩, h5⟩, h6⟩, h7⟩ := h
      rw [h1, h2, h3, h4, h5, h6, eqList_of_beq ts _ h7]
  | .alias _ _ t, b, h => by
      cases b <;> simp [beq] at h
      obtain ⟨⟨h1, h2⟩, h3⟩ := h
      rw [h1, h2, eq_of_beq t _ h3]
  | .tparam _ _, b, h => by cases b <;> simp_all [beq]
  | .term _ t, b, h => by
      cases b <;> simp [beq] at h
      obtain ⟨h1, h2⟩ := h; rw [h1, eq_of_beq t _ h2]
  | .union _ ts, b, h => by
      cases b <;> simp [beq] at h
      obtain ⟨h1, h2⟩ := h; rw [h1, eqList_of_beq ts _ h2]
theorem eqList_of_beq : ∀ as bs : List Ty, beqList as bs = true → as = bs
  | [], bs, h => by cases bs <;> simp_all [beqList]
  | a :: as, bs, h => by
      cases bs with
      | nil => simp [beqList] at h
      | cons b bs =>
        simp [beqList] at h
        rw [eq_of_beq a b h.1, eqList_of_beq as bs h.2]
end

instance : DecidableEq Ty := fun a b =>
  if h : beq a b = true then isTrue (eq_of_beq a b h)
  else isFalse (fun e => h (e ▸ beq_refl a))

/-- `Ty.rec` for propositions, with distinct names for the list cases (usable with `induction … using`) -/
theorem ind2 {motive_1 : Ty → Prop} {motive_2 : List Ty → Prop}
    (nil : motive_1 .nil)
    (basic : ∀ k, motive_1 (.basic k))
    (array : ∀ n e, motive_1 e → motive_1 (.array n e))
    (slice : ∀ e, motive_1 e → motive_1 (.slice e))
    (ptr : ∀ e, motive_1 e → motive_1 (.ptr e))
    (map : ∀ k e, motive_1 k → motive_1 e → motive_1 (.map k e))
    (chan : ∀ d e, motive_1 e → motive_1 (.chan d e))
    (tuple : ∀ es, motive_2 es → motive_1 (.tuple es))
    (sig : ∀ v tps p r, motive_2 tps → motive_1 p → motive_1 r → motive_1 (.sig v tps p r))
    (field : ∀ n p x m t ty, motive_1 ty → motive_1 (.field n p x m t ty))
    (struct : ∀ fs, motive_2 fs → motive_1 (.struct fs))
    (method : ∀ n p x ty, motive_1 ty → motive_1 (.method n p x ty))
    (iface : ∀ a c ms es, motive_2 ms → motive_2 es → motive_1 (.iface a c ms es))
    (named : ∀ u o p n x l ts, motive_2 ts → motive_1 (.named u o p n x l ts))
    (alias : ∀ u o t, motive_1 t → motive_1 (.alias u o t))
    (tparam : ∀ u o, motive_1 (.tparam u o))
    (term : ∀ a t, motive_1 t → motive_1 (.term a t))
    (union : ∀ i ts, motive_2 ts → motive_1 (.union i ts))
    (lnil : motive_2 [])
    (lcons : ∀ a as, motive_1 a → motive_2 as → motive_2 (a :: as))
    (t : Ty) : motive_1 t :=
  Ty.rec (motive_1 := motive_1) (motive_2 := motive_2) nil basic array slice ptr map chan tuple sig field
    struct method iface named alias tparam term union lnil lcons t

end Ty
