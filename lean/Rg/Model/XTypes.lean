import Rg.Model.Ty
/-!
# Model of `internal/xtypes/xtypes.go` — `Identical` / `typeIdentical` / `sameID` / `Implements`

`tid fx` transcribes `typeIdentical` case by case.  `fx = false` is the code as it stands
(`typeIdentical_asis`); `fx = true` is the code after `fixes/xtypes-identical.diff`
(`typeIdentical`), which differs in exactly three places, each marked `-- FIX`:

* both operands are unaliased on entry (as-is: only a left-hand `*types.Alias` is looked through);
* struct tags are compared (as-is: ignored);
* named types: type arguments are compared, and two different `Obj()`s are the same declaration only
  when both are package-level objects with equal name and equal package path (as-is: `sameID`, which
  ignores the package of an exported name and never looks at type arguments).

Pointer equality.  The code starts with `if x == y { return true }`.  Serialised trees carry the
identities that matter (`named`/`alias`/`tparam` objects, `union` pointers), and on every other node the
structural comparison below already answers `true` for equal trees (`Rg/Proofs/XTypes.lean:tidS_refl`), so
`x == y` is modelled by equality of the trees.

Modelled out: the `ifacePair` stack (only reachable by anonymous interfaces that recur through
their own method signatures — such trees are infinite and are not serialised), and
`panic("unreachable")` (no `types.Type` implementation outside the listed ones exists).
-/

namespace XTypes

/-- `types.Unalias` -/
def unalias : Ty → Ty
  | .alias _ _ t => unalias t
  | t => t

/-- `pkg == obj.Pkg()` when one is nil, else equality of the paths (tail of `sameID`) -/
def samePkg : Option String → Option String → Bool
  | some p, some q => p == q
  | none, none => true
  | _, _ => false

/-- `sameID(obj, pkg, name)`: `obj` given by its name, `Exported()` and `Pkg()`. -/
def sameID (objName : String) (objExported : Bool) (objPkg : Option String)
    (pkg : Option String) (name : String) : Bool :=
  if name != objName then false
  else if objExported then true
  else samePkg pkg objPkg

/-- `(*types.Func).Id()` = `types.Id(pkg, name)` -/
def funcId (name : String) (exported : Bool) (pkg : Option String) : String :=
  if exported then name
  else (match pkg with
        | some p => if p == "" then "_" else p
        | none => "_") ++ "." ++ name

/-- FIX helper `sameDecl`: two distinct `*types.TypeName`s denote the same declaration (seen by two
type-checks) iff both are package-level, have a package, and agree on name and package path. -/
def sameDecl (n : String) (l : Bool) (p : Option String) (n' : String) (l' : Bool) (p' : Option String) : Bool :=
  n == n' && !l && !l' &&
  (match p, p' with
   | some a, some b => a == b
   | _, _ => false)

/-- FIX: `y = types.Unalias(y)` on entry of `typeIdentical` (as-is: nothing) -/
def norm (fx : Bool) (y : Ty) : Ty := if fx then unalias y else y

mutual
/-- `typeIdentical(x, y, p)` after the entry normalisation of `y` (see `tid`); the recursive calls
normalise the right operand they pass on, the left operand is unaliased by the `alias` case. -/
def tidC (fx : Bool) (x y : Ty) : Bool :=
  -- `if x == y { return true }`
  if x = y then true else
    match x, y with
    -- `case *types.Alias: return typeIdentical(types.Unalias(x), y, p)`
    | .alias _ _ t, _ => tidC fx t y
    | .basic k, .basic k' => k == k'
    | .array n e, .array n' e' => (decide (n < 0) || decide (n' < 0) || n == n') && tidC fx e (norm fx e')
    | .slice e, .slice e' => tidC fx e (norm fx e')
    | .struct fs, .struct gs => tidFields fx fs gs
    | .ptr e, .ptr e' => tidC fx e (norm fx e')
    | .tuple es, .tuple es' => tidList fx es es'
    | .sig v _ p r, .sig v' _ p' r' => v == v' && tidC fx p (norm fx p') && tidC fx r (norm fx r')
    | .iface _ _ ms _, .iface _ _ ms' _ => tidMethods fx ms ms'
    | .map k e, .map k' e' => tidC fx k (norm fx k') && tidC fx e (norm fx e')
    | .chan d e, .chan d' e' => d == d' && tidC fx e (norm fx e')
    | .named u o p n ex l ts, .named u' o' p' n' _ l' ts' =>
        if fx then
          -- FIX: type arguments, then `Obj() ==`, then `sameDecl`
          tidList fx ts ts' && ((u == u' && o == o') || sameDecl n l p n' l' p')
        else
          -- `x.Obj() == y.Obj()`, then `sameID(x.Obj(), y.Obj().Pkg(), y.Obj().Name())`
          (u == u' && o == o') || sameID n ex p p' n'
    -- `*Union`: false; `*TypeParam`: nothing to do; `nil`: nothing to do; kind mismatch: false
    | _, _ => false
termination_by structural x

/-- the field loop of the `*types.Struct` case (with its `NumFields` test) -/
def tidFields (fx : Bool) (fs gs : List Ty) : Bool :=
  match fs, gs with
  | [], [] => true
  | .field n p ex em tg ty :: fs, .field n' p' _ em' tg' ty' :: gs =>
      -- `f.Embedded() != g.Embedded() || !sameID(f, g.Pkg(), g.Name()) || !typeIdentical(f.Type(), g.Type(), p)`
      (em == em' && (!fx || tg == tg')                       -- FIX: `|| x.Tag(i) != y.Tag(i)`
        && sameID n ex p p' n' && tidC fx ty (norm fx ty')) && tidFields fx fs gs
  | _, _ => false
termination_by structural fs

/-- the element loop of the `*types.Tuple` case (with its `Len` test); also used for type arguments -/
def tidList (fx : Bool) (as bs : List Ty) : Bool :=
  match as, bs with
  | [], [] => true
  | a :: as, b :: bs => tidC fx a (norm fx b) && tidList fx as bs
  | _, _ => false
termination_by structural as

/-- the method loop of the `*types.Interface` case (with its `NumMethods` test) -/
def tidMethods (fx : Bool) (fs gs : List Ty) : Bool :=
  match fs, gs with
  | [], [] => true
  | .method n p ex ty :: fs, .method n' p' ex' ty' :: gs =>
      -- `f.Id() != g.Id() || !typeIdentical(f.Type(), g.Type(), q)`
      (funcId n ex p == funcId n' ex' p' && tidC fx ty (norm fx ty')) && tidMethods fx fs gs
  | _, _ => false
termination_by structural fs
end

/-- `typeIdentical(x, y, nil)`.  FIX: `x, y = Unalias(x), Unalias(y)` on entry. -/
def tid (fx : Bool) (x y : Ty) : Bool := tidC fx x (norm fx y)

/-- `xtypes.Identical` as it stands -/
abbrev typeIdentical_asis : Ty → Ty → Bool := tid false
/-- `xtypes.Identical` after `fixes/xtypes-identical.diff` -/
abbrev typeIdentical : Ty → Ty → Bool := tid true

/-- What `types.LookupFieldOrMethod(v, false, m.Pkg(), m.Name())` answered for one method `m` of the
interface (an oracle input): nothing, a field, or a method. -/
inductive Found | none | field | func
deriving DecidableEq, Repr

/-- one iteration of the loops in `Implements`: the lookup's answer, `obj.Type()`, `m.Type()` -/
structure Probe where
  found : Found
  objTy : Ty
  mTy : Ty

/-- `xtypes.Implements(v, iface)`.  Inputs: `iface.Empty()`, whether `v.Underlying()` is an
interface, and one `Probe` per `iface.Method(i)`. -/
def implements (fx : Bool) (ifaceEmpty vIsIface : Bool) (ps : List Probe) : Bool :=
  if ifaceEmpty then true
  else if vIsIface then
    ps.all fun p => p.found != .none && tid fx p.objTy p.mTy
  else
    ps.all fun p => p.found == .func && tid fx p.objTy p.mTy

abbrev implements_asis := implements false

end XTypes
