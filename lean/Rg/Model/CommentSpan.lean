import Rg.Base
/-!
# Carriage returns in comment text: go/scanner's `stripCR` and `runner.go:commentTextSpan`

`ast.Comment.Text` is not always the bytes of the file: go/scanner removes carriage returns from it
(`scanner.go:scanComment`, `stripCR`).  `commentText raw` is the text the scanner delivers for the source
bytes `raw` of one comment (from its `/` up to and excluding the line break of a `//` comment, up to and
including the closing `*/` of a block comment).

`textSpan src base text begin end` is `commentTextSpan`: the file offsets that `text[begin:end]` occupies,
found by walking `src` from `base` in lockstep with `text` and skipping the `\r` bytes the text lacks.
-/
namespace CM

def cr : UInt8 := 13

/-- the loop of `scanner.stripCR(b, comment)`: `i` = bytes written so far, `prev` = `c[i-1]`.
A `\r` is kept only in a block comment, after a `*` that is not the one of the opening `/*`, before a `/`. -/
def stripLoop (comment : Bool) : Bytes → Nat → UInt8 → Bytes
  | [], _, _ => []
  | ch :: rest, i, prev =>
    if ch ≠ cr ∨ (comment = true ∧ i > 2 ∧ prev = 42 ∧ rest.head? = some 47) then
      ch :: stripLoop comment rest (i + 1) ch
    else stripLoop comment rest i prev

def stripCR (comment : Bool) (b : Bytes) : Bytes := stripLoop comment b 0 0

/-- `lit[1] == '/' && lit[len(lit)-1] == '\r'`: the final `\r` of a `//` comment line is cut off first -/
def lopFinalCR (raw : Bytes) : Bytes :=
  if raw[1]? = some 47 ∧ raw.getLast? = some cr then raw.dropLast else raw

/-- `ast.Comment.Text` for the comment whose source bytes are `raw` (`scanComment` from `exit:` on;
`stripCR` is the identity when there is no `\r`, so the `numCR > 0` guards need no model) -/
def commentText (raw : Bytes) : Bytes :=
  stripCR (raw[1]? = some 42) (lopFinalCR raw)

/-- `for pos < len(src) && src[pos] == '\r' && text[i] != '\r' { pos++ }` on `s = src[pos:]`:
what is left of `s`, and how many bytes were skipped -/
def skipCR (c : UInt8) : Bytes → Bytes × Nat
  | [] => ([], 0)
  | b :: s => if b = cr ∧ c ≠ cr then ((skipCR c s).1, (skipCR c s).2 + 1) else (b :: s, 0)

/-- the loop of `commentTextSpan`, `n = end - i` iterations to go, `t = text[i:]`, `s = src[pos:]` -/
def spanLoop (base begin end_ : Nat) : Nat → Bytes → Bytes → Nat → Nat → Nat → Res (Nat × Nat)
  | 0, _, _, _, pos, frm => .ok (if begin = end_ then pos else frm, pos)
  | _ + 1, [], s, _, _, _ =>
    -- text[i] is out of range: reached only when `src[pos]` exists
    if s = [] then .ok (base + begin, base + end_) else .panic .index
  | n + 1, c :: t, s, i, pos, frm =>
    match skipCR c s with
    | ([], _) => .ok (base + begin, base + end_)
    | (b :: s', k) =>
      if b ≠ c then .ok (base + begin, base + end_)
      else spanLoop base begin end_ n t s' (i + 1) (pos + k + 1) (if i = begin then pos + k else frm)

/-- `commentTextSpan(src, base, text, begin, end)`; `from` starts as the zero value -/
def textSpan (src : Bytes) (base : Nat) (text : Bytes) (begin end_ : Nat) : Res (Nat × Nat) :=
  spanLoop base begin end_ end_ text (src.drop base) 0 base 0

end CM
