import Rg.Base
/-!
# Model of the load state machine (C13)

`engine.go:Load/LoadFromIR`, `ir_loader.go:LoadFile/loadBundle/compileFilterFuncs/loadRuleGroup/loadRule`
(the parts that decide *which* groups, rules and custom functions end up in the engine),
`gorule.go:mergeRuleSets/appendScopedRuleSet`, `quasigo/env.go:addFunc`, `quasigo.Env.GetFunc`,
`engine.go:LoadedGroups/Run` + the first-match loop of `runner.go:runRules/runCommentRules`.

Abstractions (all justified in `Rg/Props/C13.lean`'s header):
* names (functions, groups, prefixes, files, package paths, message texts) are atoms (`Nat`);
  a prefixed group name `prefix + "/" + name` is the pair `(prefix, name)` with prefix `0` = none
  (Go identifiers contain no '/', so the pairing is injective exactly like the concatenation);
* a custom function body is `(kind, tag, lit, callee?)`: it produces the trace `tag` / `tag > trace(callee)`
  and the boolean `lit` / `value(callee)`; which callee a call is bound to is decided by the model
  exactly as `compileCall` does (lookup in the engine-wide name table at compile time);
* conversion / type-check / pattern-compilation outcomes of a file are inputs (`convErr`, `declsErr`,
  `FuncDecl.bad`, `RuleDecl.bad`, `BundleDecl.err`).

`fixed = false` is the code as it is; `fixed = true` is the code after `verif/fixes/c13-*.diff`
(including `c13-own-funcs.diff`: the names a rule gives to `Do` / `Filter` are resolved among the functions
compiled from the custom declarations of the rule's own file, `irLoader.customFuncs`; the engine-wide
name table is only used for calls between functions).
-/
namespace LoadM

/-! ## requests: what a rules file contains -/

inductive FKind | str | bool | doF | filt
deriving DecidableEq, Repr, Inhabited

/-- a custom function declaration (`CustomDecls` entry) -/
structure FuncDecl where
  name : Nat
  kind : FKind
  tag : Nat
  lit : Bool
  callee : Option Nat     -- name of the function it calls
  bad : Bool              -- `quasigo.Compile` rejects it for a reason unrelated to calls
deriving DecidableEq, Repr

structure RuleDecl where
  bucket : Nat            -- 0 = CallExpr, 1 = IncDecStmt, 2 = comment rule
  key : Nat               -- matches the probe node with this key …
  wild : Bool             -- … or every node of the bucket
  msg : Nat               -- Report() text
  doFn : Option Nat       -- Do(f)
  filtFn : Option Nat     -- Where(m[..].Filter(f))
  bad : Bool              -- the rule itself does not load (pattern / regexp does not compile)
  line : Nat
deriving DecidableEq, Repr

structure GroupDecl where
  name : Nat
  line : Nat
  rules : List RuleDecl
deriving DecidableEq, Repr

/-- one file as `LoadFile` sees it (a top-level file or one file of a bundle) -/
structure FileUnit where
  file : Nat
  convErr : Bool          -- `convertAST` fails (source files only)
  declsErr : Bool         -- `CustomDecls` is non-empty and does not parse / type-check
  funcs : List FuncDecl
  groups : List GroupDecl
deriving DecidableEq, Repr

structure BundleDecl where
  pfx : Nat               -- 0 = ""
  err : Bool              -- `findBundleFiles` fails
  files : List FileUnit
deriving DecidableEq, Repr

structure Req where
  isIR : Bool             -- LoadFromIR (no conversion step) or Load
  pkgPath : Nat           -- `ir.File.PkgPath`; 0 = "gorules" (what `convertAST` always produces)
  unit : FileUnit
  bundles : List BundleDecl
  rejected : List (Nat × Nat)   -- GroupFilter: the (prefixed) names it answers `false` for
deriving DecidableEq, Repr

/-! ## engine state -/

structure Func where
  kind : FKind
  tag : Nat
  lit : Bool
  callee : Option Nat     -- function id emitted by `compileCall`
deriving DecidableEq, Repr

/-- `quasigo.Env`: `userFuncs` and `nameToFuncID` (most recent binding first) -/
structure Env where
  funcs : List Func
  names : List ((Nat × Nat) × Nat)
deriving DecidableEq, Repr

def Env.lookup (e : Env) (k : Nat × Nat) : Option Nat :=
  match e.names.find? (fun x => x.1 == k) with
  | some x => some x.2
  | none => none

/-- `env.addFunc` -/
def Env.addFunc (e : Env) (k : Nat × Nat) (f : Func) : Env :=
  { funcs := e.funcs ++ [f], names := (k, e.funcs.length) :: e.names }

/-- repaired loader only: forget the bindings of the names this file is about to declare -/
def Env.forget (e : Env) (ks : List (Nat × Nat)) : Env :=
  { e with names := e.names.filter (fun x => !ks.contains x.1) }

structure Rule where
  group : Nat × Nat
  line : Nat
  bucket : Nat
  key : Nat
  wild : Bool
  msg : Nat
  doFn : Option Nat       -- the `*quasigo.Func` held by the rule, as the id it has in `userFuncs`
  filtFn : Option Nat
deriving DecidableEq, Repr

structure GroupInfo where
  name : Nat × Nat
  file : Nat
  line : Nat
deriving DecidableEq, Repr

/-- `goRuleSet`: the per-tag rule slices (one list, read per bucket) and the `groups` map -/
structure RuleSet where
  rules : List Rule
  groups : List GroupInfo
deriving DecidableEq, Repr

structure Engine where
  ruleSet : Option RuleSet
  env : Env
deriving DecidableEq, Repr

def Engine.new : Engine := { ruleSet := none, env := { funcs := [], names := [] } }

inductive LoadErr | conv | bundle | decls | compile | nofunc | rule | redef
deriving DecidableEq, Repr

inductive Out (α : Type) | ok (a : α) | err (e : LoadErr) | panic (p : Panic)
deriving DecidableEq, Repr

/-- the package path custom declarations are compiled under (`package gorules`) -/
def gorules : Nat := 0

/-! ## compileFilterFuncs -/

/-- the `for _, decl := range f.Syntax.Decls` loop: `quasigo.Compile` then `Env.AddFunc` -/
def compileFuncs (env : Env) : List FuncDecl → Env × Out Unit
  | [] => (env, .ok ())
  | d :: ds =>
    if d.bad then (env, .err .compile) else
    match d.callee with
    | none => compileFuncs (env.addFunc (gorules, d.name) ⟨d.kind, d.tag, d.lit, none⟩) ds
    | some c =>
      match env.lookup (gorules, c) with
      | none => (env, .err .compile)                       -- "can't compile a call to … func"
      | some id => compileFuncs (env.addFunc (gorules, d.name) ⟨d.kind, d.tag, d.lit, some id⟩) ds

def compileFilterFuncs (fixed : Bool) (env : Env) (u : FileUnit) : Env × Out Unit :=
  if u.declsErr then (env, .err .decls) else
  let env := if fixed then env.forget (u.funcs.map fun d => (gorules, d.name)) else env
  compileFuncs env u.funcs

/-- repaired loader only: `irLoader.customFuncs` once the declaration loop of `compileFilterFuncs` has
compiled every declaration of `ds`: name ↦ the function compiled from it, written as the id that function
got in `userFuncs` (`base` = number of functions the engine held when the loop started; every declaration
adds exactly one).  Most recent first, so that a lookup finds what the Go map holds after
`l.customFuncs[name] = compiled` ran for the declarations in order.
(`Rg/Proofs/Loads.lean:compileFuncs_names`: this is exactly the segment the loop prepends to the name table.) -/
def customFuncs (base : Nat) : List FuncDecl → List (Nat × Nat)
  | [] => []
  | d :: ds => customFuncs (base + 1) ds ++ [(d.name, base)]

/-- `l.customFuncs[name]` (a nil map — no declarations — has no entries) -/
def ownLookup (own : List (Nat × Nat)) (n : Nat) : Option Nat :=
  match own.find? (fun x => x.1 == n) with
  | some x => some x.2
  | none => none

/-! ## loadRuleGroup / loadRule -/

/-- `Env.GetFunc` (as is: a missing key reads id 0; repaired: nil) followed by the caller's nil check.
The repaired loader no longer calls it for rules (`ownFunc` below); `getFunc true` remains the model of the
repaired public `Env.GetFunc`. -/
def getFunc (fixed : Bool) (env : Env) (k : Nat × Nat) : Out Nat :=
  match env.lookup k with
  | some id => if id < env.funcs.length then .ok id else .panic .index
  | none =>
    if fixed then .err .nofunc
    else if 0 < env.funcs.length then .ok 0 else .panic .index

/-- repaired loader: `l.customFuncs[name]` followed by the caller's nil check
("can't find a compiled version of …"); the map holds the `*quasigo.Func` itself, nothing is indexed -/
def ownFunc (own : List (Nat × Nat)) (n : Nat) : Out Nat :=
  match ownLookup own n with
  | some id => .ok id
  | none => .err .nofunc

/-- how `loadRule` / `newFilter` turn a `Do` / `Filter` function name into a function:
as is `l.state.env.GetFunc(l.file.PkgPath, name)`, repaired `l.customFuncs[name]` (`own`) -/
def getFuncOpt (fixed : Bool) (env : Env) (own : List (Nat × Nat)) (pkg : Nat) : Option Nat → Out (Option Nat)
  | none => .ok none
  | some n => match (if fixed then ownFunc own n else getFunc false env (pkg, n)) with
    | .ok id => .ok (some id)
    | .err e => .err e
    | .panic p => .panic p

def loadRule (fixed : Bool) (env : Env) (own : List (Nat × Nat)) (pkg : Nat) (g : Nat × Nat) (r : RuleDecl) :
    Out Rule :=
  match getFuncOpt fixed env own pkg r.doFn with
  | .panic p => .panic p
  | .err e => .err e
  | .ok d =>
    match getFuncOpt fixed env own pkg r.filtFn with
    | .panic p => .panic p
    | .err e => .err e
    | .ok f =>
      if r.bad then .err .rule
      else .ok ⟨g, r.line, r.bucket, r.key, r.wild, r.msg, d, f⟩

def loadRules (fixed : Bool) (env : Env) (own : List (Nat × Nat)) (pkg : Nat) (g : Nat × Nat) :
    List RuleDecl → Out (List Rule)
  | [] => .ok []
  | r :: rs =>
    match loadRule fixed env own pkg g r with
    | .panic p => .panic p
    | .err e => .err e
    | .ok x =>
      match loadRules fixed env own pkg g rs with
      | .ok xs => .ok (x :: xs)
      | o => o

/-- `loadRuleGroup`: prefix, GroupFilter early return, duplicate check, register, load the rules -/
def loadGroup (fixed : Bool) (env : Env) (own : List (Nat × Nat)) (pkg pfx file : Nat) (rejected : List (Nat × Nat))
    (res : RuleSet) (g : GroupDecl) : Out RuleSet :=
  let name := (pfx, g.name)
  if rejected.contains name then .ok res
  else if res.groups.any (fun x => x.name == name) then
    (if fixed then .err .redef else .panic .explicit)   -- "duplicated function … after the typecheck"
  else
    match loadRules fixed env own pkg name g.rules with
    | .ok rs => .ok { rules := res.rules ++ rs, groups := res.groups ++ [⟨name, file, g.line⟩] }
    | .err e => .err e
    | .panic p => .panic p

def loadGroups (fixed : Bool) (env : Env) (own : List (Nat × Nat)) (pkg pfx file : Nat) (rejected : List (Nat × Nat))
    (res : RuleSet) : List GroupDecl → Out RuleSet
  | [] => .ok res
  | g :: gs =>
    match loadGroup fixed env own pkg pfx file rejected res g with
    | .ok res' => loadGroups fixed env own pkg pfx file rejected res' gs
    | o => o

/-- the `own` argument of the rule loaders for unit `u` loaded into `env`: the repaired loader's `customFuncs`
after a successful `compileFilterFuncs` (`Env.forget` leaves `userFuncs` alone, so the first function of the
unit gets id `env.funcs.length`); the code as it is has no such map -/
def ownOf (fixed : Bool) (env : Env) (u : FileUnit) : List (Nat × Nat) :=
  if fixed then customFuncs env.funcs.length u.funcs else []

/-- `LoadFile` without its bundle part -/
def loadUnit (fixed : Bool) (env : Env) (pkg pfx : Nat) (rejected : List (Nat × Nat)) (u : FileUnit) :
    Env × Out RuleSet :=
  match compileFilterFuncs fixed env u with
  | (env', .ok ()) =>
    (env', loadGroups fixed env' (ownOf fixed env u) pkg pfx u.file rejected ⟨[], []⟩ u.groups)
  | (env', .err e) => (env', .err e)
  | (env', .panic p) => (env', .panic p)

/-! ## mergeRuleSets -/

def mergeInto (out : RuleSet) (x : RuleSet) : Out RuleSet :=
  if x.groups.any (fun g => out.groups.any (fun h => h.name == g.name)) then .err .redef
  else .ok { rules := out.rules ++ x.rules, groups := out.groups ++ x.groups }

def mergeRuleSetsFrom (out : RuleSet) : List RuleSet → Out RuleSet
  | [] => .ok out
  | x :: xs =>
    match mergeInto out x with
    | .ok out' => mergeRuleSetsFrom out' xs
    | o => o

def mergeRuleSets (xs : List RuleSet) : Out RuleSet := mergeRuleSetsFrom ⟨[], []⟩ xs

/-! ## bundles -/

def loadBundleFiles (fixed : Bool) (env : Env) (pfx : Nat) (rejected : List (Nat × Nat)) :
    List FileUnit → Env × Out (List RuleSet)
  | [] => (env, .ok [])
  | u :: us =>
    if u.convErr then (env, .err .conv) else
    match loadUnit fixed env gorules pfx rejected u with
    | (env', .ok rs) =>
      (match loadBundleFiles fixed env' pfx rejected us with
       | (env'', .ok rss) => (env'', .ok (rs :: rss))
       | o => o)
    | (env', .err e) => (env', .err e)
    | (env', .panic p) => (env', .panic p)

def loadBundles (fixed : Bool) (env : Env) (rejected : List (Nat × Nat)) :
    List BundleDecl → Env × Out (List RuleSet)
  | [] => (env, .ok [])
  | b :: bs =>
    if b.err then (env, .err .bundle) else
    match loadBundleFiles fixed env b.pfx rejected b.files with
    | (env', .ok rss) =>
      (match loadBundles fixed env' rejected bs with
       | (env'', .ok more) => (env'', .ok (rss ++ more))
       | o => o)
    | o => o

/-- `irLoader.LoadFile` -/
def loadFile (fixed : Bool) (env : Env) (r : Req) : Env × Out RuleSet :=
  match loadBundles fixed env r.rejected r.bundles with
  | (env1, .err e) => (env1, .err e)
  | (env1, .panic p) => (env1, .panic p)
  | (env1, .ok imported) =>
    match loadUnit fixed env1 r.pkgPath 0 r.rejected r.unit with
    | (env2, .ok res) =>
      if imported.isEmpty then (env2, .ok res) else (env2, mergeRuleSets (res :: imported))
    | o => o

/-! ## engine.Load / LoadFromIR -/

def load (fixed : Bool) (e : Engine) (r : Req) : Engine × Out Unit :=
  if !r.isIR && r.unit.convErr then (e, .err .conv) else
  match loadFile fixed e.env r with
  | (env', .err x) => ({ e with env := env' }, .err x)
  | (env', .panic p) => ({ e with env := env' }, .panic p)
  | (env', .ok rset) =>
    match e.ruleSet with
    | none => ({ ruleSet := some rset, env := env' }, .ok ())
    | some cur =>
      match mergeRuleSets [cur, rset] with
      | .ok m => ({ ruleSet := some m, env := env' }, .ok ())
      | .err x => ({ e with env := env' }, .err x)
      | .panic p => ({ e with env := env' }, .panic p)

/-! ## LoadedGroups -/

def nameLt (a b : Nat × Nat) : Bool := a.1 < b.1 || (a.1 == b.1 && a.2 < b.2)

def insertSorted (g : GroupInfo) : List GroupInfo → List GroupInfo
  | [] => [g]
  | h :: t => if nameLt g.name h.name then g :: h :: t else h :: insertSorted g t

def sortGroups : List GroupInfo → List GroupInfo
  | [] => []
  | g :: gs => insertSorted g (sortGroups gs)

def loadedGroups (fixed : Bool) (e : Engine) : Res (List GroupInfo) :=
  match e.ruleSet with
  | none => if fixed then .ok [] else .panic .nilDeref
  | some rs => .ok (sortGroups rs.groups)

/-! ## Run on a probe file -/

/-- what calling a compiled function produces: its trace and its boolean -/
abbrev Val := Res (List Nat × Bool)

/-- executing function `f` when the functions with smaller ids evaluate to `vals`;
`snap` = length of the `userFuncs` snapshot held by the `EvalEnv` in use (`opCall` indexes it) -/
def valOf (snap : Nat) (vals : List Val) (f : Func) : Val :=
  match f.callee with
  | none => .ok ([f.tag], f.lit)
  | some c =>
    if snap ≤ c then .panic .index else
    match vals[c]? with
    | none => .panic .index
    | some (.panic p) => .panic p
    | some (.ok (t, b)) => .ok (f.tag :: t, b)

def tableFrom (snap : Nat) (vals : List Val) : List Func → List Val
  | [] => vals
  | f :: fs => tableFrom snap (vals ++ [valOf snap vals f]) fs

def table (snap : Nat) (funcs : List Func) : List Val := tableFrom snap [] funcs

inductive Msg | text (id : Nat) | trace (tags : List Nat) | empty
deriving DecidableEq, Repr

structure Report where
  bucket : Nat
  key : Nat
  group : Nat × Nat
  line : Nat
  msg : Msg
deriving DecidableEq, Repr

/-- the filter part of `handleMatch` -/
def filterAccepts (funcs : List Func) (vals : List Val) : Option Nat → Res Bool
  | none => .ok true
  | some id =>
    match funcs[id]?, vals[id]? with
    | some f, some v =>
      (match v with
       | .panic p => .panic p
       | .ok (_, b) =>
         match f.kind with
         | .bool | .filt => .ok b
         | _ => .panic .typeAssert)          -- `result.Value().(bool)`
    | _, _ => .panic .index

/-- the message part of `handleMatch` -/
def message (funcs : List Func) (vals : List Val) (r : Rule) : Res Msg :=
  if r.bucket == 2 then .ok (.text r.msg) else     -- handleCommentMatch never looks at `do`
  match r.doFn with
  | none => .ok (.text r.msg)
  | some id =>
    match funcs[id]?, vals[id]? with
    | some f, some v =>
      (match v with
       | .panic p => .panic p
       | .ok (t, _) =>
         match f.kind with
         | .doF => .ok (.trace t)
         | _ => .ok .empty)                  -- no SetReport happened: "<empty message>"
    | _, _ => .panic .index

/-- `runRules` / `runCommentRules` on one node: the first rule that matches and is accepted reports -/
def runNode (funcs : List Func) (vals : List Val) (node : Nat × Nat) : List Rule → Res (Option Report)
  | [] => .ok none
  | r :: rs =>
    if r.bucket == node.1 && (r.wild || r.key == node.2) then
      match filterAccepts funcs vals r.filtFn with
      | .panic p => .panic p
      | .ok false => runNode funcs vals node rs
      | .ok true =>
        match message funcs vals r with
        | .panic p => .panic p
        | .ok m => .ok (some ⟨node.1, node.2, r.group, r.line, m⟩)
    else runNode funcs vals node rs

/-- reports delivered before the run ends or panics -/
def runNodes (funcs : List Func) (vals : List Val) (rules : List Rule) :
    List (Nat × Nat) → List Report × Option Panic
  | [] => ([], none)
  | n :: ns =>
    match runNode funcs vals n rules with
    | .panic p => ([], some p)
    | .ok none => runNodes funcs vals rules ns
    | .ok (some r) =>
      let (rs, p) := runNodes funcs vals rules ns
      (r :: rs, p)

inductive RunOut
  | noRules                                             -- "used Run() with an empty rule set"
  | reports (rs : List Report) (p : Option Panic)
deriving DecidableEq, Repr

/-- `Engine.Run` with a RunnerState whose function snapshot has length `snap` -/
def runWith (snap : Nat) (e : Engine) (probe : List (Nat × Nat)) : RunOut :=
  match e.ruleSet with
  | none => .noRules
  | some rs =>
    let (r, p) := runNodes e.env.funcs (table snap e.env.funcs) rs.rules probe
    .reports r p

/-- `Engine.Run` with a fresh state -/
def run (e : Engine) (probe : List (Nat × Nat)) : RunOut := runWith e.env.funcs.length e probe

/-! ## histories -/

structure StepObs where
  out : Out Unit
  groups : Res (List GroupInfo)
  run : RunOut
deriving DecidableEq, Repr

def runHist (fixed : Bool) (probe : List (Nat × Nat)) : Engine → List Req → List StepObs
  | _, [] => []
  | e, r :: rs =>
    let (e', o) := load fixed e r
    ⟨o, loadedGroups fixed e', run e' probe⟩ :: runHist fixed probe e' rs

def finalEngine (fixed : Bool) : Engine → List Req → Engine
  | e, [] => e
  | e, r :: rs => finalEngine fixed (load fixed e r).1 rs

end LoadM
