import Rg.Base
import Rg.Model.Utf8
import Rg.Model.Regex
/-!
# Model of `ruleguard/textmatch`: `compile`, `compileOptimized` (compile.go) and the matchers (matchers.go)

`compileOptimizedAsIs` transcribes the function as it stands (it never looks at `Flags` and turns the
literal's runes into a string with `string(re.Rune)`); `compileOptimized` is the variant after
`fixes/textmatch-foldcase.diff` (`isLit` additionally demands a case-sensitive literal made of runes that
UTF-8 encodes faithfully).  The only difference is the predicate `isLit`, passed as a parameter of
`compileOptimizedWith`.

Oracle parameters: the parsed tree (`syntax.Parse(s, syntax.Perl)`), `unicode.IsUpper/IsLower`
(a rune predicate; instantiated by the driver with the regenerated tables of `Rg/Gen/Unicode.lean`)
and, for the fallback, the answer of the `*regexp.Regexp`.
-/
namespace TM
open Rx Utf8

/-- the five matcher types of matchers.go; `value` as bytes -/
inductive Matcher
  | contains (v : Bytes)     -- containsLiteralMatcher
  | hasPrefix (v : Bytes)    -- prefixLiteralMatcher
  | hasSuffix (v : Bytes)    -- suffixLiteralMatcher
  | eq (v : Bytes)           -- eqLiteralMatcher
  | runePred (upper : Bool)  -- prefixRunePredMatcher{unicode.IsUpper | unicode.IsLower}
deriving DecidableEq, Repr

/-- `bytes.Contains(s, v)` / `strings.Contains` -/
def containsB (v : Bytes) : Bytes → Bool
  | [] => v.isPrefixOf []
  | c :: cs => v.isPrefixOf (c :: cs) || containsB v cs

/-- rune predicates `unicode.IsUpper`, `unicode.IsLower` -/
structure Preds where
  isUpper : Nat → Bool
  isLower : Nat → Bool

/-- `Match(b)`; `MatchString(s)` is the same function of the bytes of `s`. -/
def Matcher.run (P : Preds) : Matcher → Bytes → Bool
  | .contains v, s => containsB v s
  | .hasPrefix v, s => v.isPrefixOf s
  | .hasSuffix v, s => v.isSuffixOf s
  | .eq v, s => v == s
  | .runePred true, s => P.isUpper (decodeRune s).1
  | .runePred false, s => P.isLower (decodeRune s).1

/-- `isAny`: `re.Op == OpStar && re.Sub[0].Op == OpAnyCharNotNL` (indexes `Sub[0]` unguarded) -/
def isAny (re : Re) : Res Bool :=
  if re.op = .star then
    match re.subs with
    | [] => .panic .index
    | s :: _ => .ok (s.op == .anyCharNotNL)
  else .ok false

def isBegin (re : Re) : Bool := re.op == .beginText
def isEnd (re : Re) : Bool := re.op == .endText

/-- `isLit` as it stands -/
def isLitAsIs (re : Re) : Bool := re.op == .literal

/-- a rune that `string(rune)` encodes so that decoding gives the same rune back and nothing else does -/
def faithful (r : Nat) : Bool := validRune r && r != runeError

/-- `isLit` after the fix -/
def isLitFixed (re : Re) : Bool :=
  re.op == .literal && !foldCase re.flags && re.runes.all faithful

def patUpper : Bytes := [94, 92, 112, 123, 76, 117, 125]   -- `^\p{Lu}`
def patLower : Bytes := [94, 92, 112, 123, 76, 108, 125]   -- `^\p{Ll}`

def litValue (re : Re) : Bytes := encodeRunes re.runes      -- string(re.Rune)

/-- `.*` lit `.*` -/
def tryContains3 (isLit : Re → Bool) (re : Re) : Res (Option Matcher) :=
  match re.op, re.subs with
  | .concat, [a, b, c] =>
    (isAny a).bind fun x =>
      if x && isLit b then
        (isAny c).bind fun z => .ok (if z then some (.contains (litValue b)) else none)
      else .ok none
  | _, _ => .ok none

/-- `^` lit -/
def tryPrefix (isLit : Re → Bool) (re : Re) : Option Matcher :=
  match re.op, re.subs with
  | .concat, [a, b] => if isBegin a && isLit b then some (.hasPrefix (litValue b)) else none
  | _, _ => none

/-- lit `$` -/
def trySuffix (isLit : Re → Bool) (re : Re) : Option Matcher :=
  match re.op, re.subs with
  | .concat, [a, b] => if isLit a && isEnd b then some (.hasSuffix (litValue a)) else none
  | _, _ => none

/-- `^` lit `$` -/
def tryEq (isLit : Re → Bool) (re : Re) : Option Matcher :=
  match re.op, re.subs with
  | .concat, [a, b, c] => if isBegin a && isLit b && isEnd c then some (.eq (litValue b)) else none
  | _, _ => none

/-- the final `switch s` -/
def tryPred (s : Bytes) : Option Matcher :=
  if s = patUpper then some (.runePred true)
  else if s = patLower then some (.runePred false)
  else none

/-- compile.go:compileOptimized, in source order -/
def compileOptimizedWith (isLit : Re → Bool) (s : Bytes) (re : Re) : Res (Option Matcher) :=
  if isLit re then .ok (some (.contains (litValue re))) else
  (tryContains3 isLit re).bind fun r =>
  match r with
  | some m => .ok (some m)
  | none =>
  match tryPrefix isLit re with
  | some m => .ok (some m)
  | none =>
  match trySuffix isLit re with
  | some m => .ok (some m)
  | none =>
  match tryEq isLit re with
  | some m => .ok (some m)
  | none => .ok (tryPred s)

def compileOptimizedAsIs := compileOptimizedWith isLitAsIs
def compileOptimized := compileOptimizedWith isLitFixed

/-- what `textmatch.Compile` returns: one of the matchers, or whatever `regexp.Compile(s)` returns -/
inductive Pattern
  | fast (m : Matcher)
  | regexp
deriving DecidableEq, Repr

/-- compile.go:compile (`parsed = none` ≙ `syntax.Parse` failed) -/
def compileWith (isLit : Re → Bool) (s : Bytes) (parsed : Option Re) : Res Pattern :=
  match parsed with
  | none => .ok .regexp
  | some re =>
    (compileOptimizedWith isLit s re).bind fun r =>
      match r with
      | some m => .ok (.fast m)
      | none => .ok .regexp

def compileAsIs := compileWith isLitAsIs
def compile := compileWith isLitFixed

/-- `p.Match(input)`; `oracle` is the answer of the `*regexp.Regexp` for the fallback -/
def Pattern.run (P : Preds) (oracle : Bool) : Pattern → Bytes → Bool
  | .fast m, s => m.run P s
  | .regexp, _ => oracle

/-- range-table lookup (`unicode.Is(table, r)` over the expanded table) -/
def inTable (t : List (Nat × Nat)) (r : Nat) : Bool := t.any fun p => p.1 ≤ r && r ≤ p.2

end TM
