import Rg.Model.SrcLoad
import Rg.Model.IRPrint
import Rg.Spec.C05
/-!
# The precompiled-IR path: `ir.File` → loader, and the two ways an `ir.File` reaches it

`Engine.Load(source)`      = parse, type-check, `irconv.ConvertFile`, then `irLoader.LoadFile` on the IR value;
`Engine.LoadFromIR(value)` = `irLoader.LoadFile` on the value that the Go compiler built from the composite
literal `gorules precompile` printed (`irconv.ConvertFile` → `irprint.File`).

The two mirrors of `ir.File` that exist already meet here:

* `IR.File` (`Rg/Model/IR.lean`) — the *whole* Go value, byte strings, `Line : Int`, `Src`, the nil/empty bit
  of every slice: what the printer and the literal evaluator are about (`C05.roundtrip`);
* `Loader.File` (`Rg/Model/Loader.lean`) — what `ir_loader.go` looks at: `loadFile` (C06).

`toLoaderFile` is the forgetful map between them (it extends `Comp.toFE`, the map on filter expressions).

## What `Loader.File` abstracts away (precisely)

Kept: every rule group (`Line`, `Name`), every rule (`Line`, `SyntaxPatterns`, `CommentPatterns` with their
lines, `ReportTemplate`, `SuggestTemplate`, `DoFuncName`, `WhereExpr` through `toFE`, `LocationVar`), in order.

Dropped, with the reason the loader's *outcome* (accepted alternatives with their buckets / located error /
panic) cannot depend on it other than through an oracle:

* `File.PkgPath` — never read by `ir_loader.go`.
* `File.CustomDecls` — read by `compileFilterFuncs` only (`len(…) == 0`, `range`): its result is the function
  table, which the loader model takes as the oracles `funcKnown` / `numFuncs`.  `loadIR` below makes that
  dependency explicit (`Env.compile` sees the *elements* of the slice).
* `File.BundleImports` — `loadBundle` per element (`range`); the imported rule sets are merged into the result
  at the end.  Outside `Loader.loadFile`; `loadIR` keeps only "the first bundle that fails ends the load".
* `RuleGroup.MatcherName` — never read.  `RuleGroup.Doc*`, `DocTags` — copied into `GoRuleGroup` (the
  `DocTags` slice header is copied as it is, so `GoRuleGroup.DocTags == nil` *is* the IR's bit; nothing in the
  engine reads it, `LoadedGroups()` hands it out; the harness compares groups by `%+v`, which prints both `[]`).
* `RuleGroup.Imports` — `itab.Load` per element (`range`) and `len(group.Imports) != 0` in `gogrepCompile`:
  they change the answers of typematch / gogrep on the group's strings, i.e. the oracles (which the model
  takes per file, not per group — the harness computes them under the group's imports).
* `FilterExpr.Src` — stored in the filter closure for debug output.
* the nil/empty bit of every slice (`Sl.nn`, `argsNN`): the loader ranges over slices, indexes them and takes
  `len`; it never compares one with `nil`.  That is the content of `load_respects_normalize` — true of
  the *model* by construction of `toLoaderFile`, and checked on the real loader by the harness (suite `nil-empty`).
* negative `Line`s (`Int.toNat`; they only appear in messages).
* `redefinition of %s() inside one file` (two groups of one file with the same name): not in `Loader.loadGroup`
  (impossible for IR converted from a Go file: two functions of one package cannot share a name).
-/
namespace Comp
open Conv

/-! ## (1) `toLoaderFile` -/

def toPat (dec : Bytes → String) (p : IR.PatternString) : Loader.Pat := ⟨p.line.toNat, dec p.value⟩

def toRule (dec : Bytes → String) (r : IR.Rule) : Loader.Rule :=
  { line := r.line.toNat,
    syntaxPatterns := r.syntaxPatterns.elems.map (toPat dec),
    commentPatterns := r.commentPatterns.elems.map (toPat dec),
    reportTemplate := dec r.reportTemplate, suggestTemplate := dec r.suggestTemplate,
    doFuncName := dec r.doFuncName, whereExpr := toFE dec r.whereExpr, locationVar := dec r.locationVar }

def toGroup (dec : Bytes → String) (g : IR.RuleGroup) : Loader.Group :=
  { line := g.line.toNat, name := dec g.name, rules := g.rules.elems.map (toRule dec) }

/-- the `ir.File` as `irLoader.LoadFile`'s loop over the rule groups sees it -/
def toLoaderFile (dec : Bytes → String) (f : IR.File) : Loader.File := ⟨f.ruleGroups.elems.map (toGroup dec)⟩

/-! ## `LoadFile` with its first two stages as oracles -/

/-- `compileFilterFuncs` and `loadBundle`, as functions of the *elements* of the slices they range over -/
structure Env where
  /-- `for _, imp := range f.BundleImports { … loadBundle(imp) … }`: the first error, if any -/
  bundles : List IR.BundleImport → Option Loader.LoadErr
  /-- `compileFilterFuncs(filename, f)`: an error (parse / type-check / quasigo compile), or the trusted
  libraries' answers together with the function table it built (`funcKnown`, `numFuncs`) -/
  compile : List Bytes → Except Loader.LoadErr Loader.Oracles

/-- `irLoader.LoadFile` on an IR value (without the rule sets of imported bundles in the result) -/
def loadIR (env : Env) (tc : Loader.TagCfg) (dec : Bytes → String) (f : IR.File) : Loader.LRes (List Loader.Accepted) :=
  match env.bundles f.bundleImports.elems with
  | some e => .ok (.error e)
  | none =>
    match env.compile f.customDecls.elems with
    | .error e => .ok (.error e)
    | .ok o => Loader.loadFile o tc (toLoaderFile dec f)

/-! ## (3) the precompiled path: print, read the literal back, load -/

/-- `gorules precompile` (printer after fixes/irprint-roundtrip.diff) followed by `LoadFromIR` of the value
the printed literal denotes; `none` = the printer panicked or the text is not an `ir.File` literal -/
def precompiledLoad (o : Loader.Oracles) (tc : Loader.TagCfg) (dec : Bytes → String) (f : IR.File) :
    Option (Loader.LRes (List Loader.Accepted)) :=
  match IR.printFile f with
  | .panic _ => none
  | .ok ts =>
    match SpecC05.evalLit ts with
    | none => none
    | some f' => some (Loader.loadFile o tc (toLoaderFile dec f'))

/-- the same with the printer as it was before that repair -/
def precompiledLoad_asis (o : Loader.Oracles) (tc : Loader.TagCfg) (dec : Bytes → String) (f : IR.File) :
    Option (Loader.LRes (List Loader.Accepted)) :=
  match IR.printFile_asis f with
  | .panic _ => none
  | .ok ts =>
    match SpecC05.evalLit ts with
    | none => none
    | some f' => some (Loader.loadFile o tc (toLoaderFile dec f'))

/-- the same through `loadIR` (custom declarations and bundle imports of the value that was read back) -/
def precompiledLoadIR (env : Env) (tc : Loader.TagCfg) (dec : Bytes → String) (f : IR.File) :
    Option (Loader.LRes (List Loader.Accepted)) :=
  match IR.printFile f with
  | .panic _ => none
  | .ok ts =>
    match SpecC05.evalLit ts with
    | none => none
    | some f' => some (loadIR env tc dec f')

/-! ## (4) the source side: `irconv.ConvertFile` with `ir.File` as its result

`Rg/Model/SrcLoad.lean` transcribes `convertRuleExpr` after the chain walk with `Loader.Rule` as the result
type (strings already decoded).  Here is the same transcription with `ir.Rule` as the result — the value
that is printed by `gorules precompile` — and the rest of the `ir.File` around it.

Modelled fragment: rule groups whose statements are rule chains (`Comp.Chain`: the argument lists of
`Match/MatchComment/Where/Suggest/Report/At/Do`, annotated by go/types as in `Rg/Model/IRConv.lean`).  What
`convertDocComments`, `doMatcherImport`, `addCustomDecl`/`addCustomImport` and `convertInitFunc` contribute
(doc pragmas, group imports, custom declarations, bundle imports) arrives as data: those fields go through the
printer and the evaluator (they matter for the round trip) but the statements producing them are not
transcribed.  As in `Rg/Model/IRConv.lean`, `Line` and `Src` of filter nodes are left zero and helper calls
(`expandMacro`) are outside. -/

/-- `"suggestion: "` -/
def suggPrefix : Bytes := [115, 117, 103, 103, 101, 115, 116, 105, 111, 110, 58, 32]

/-- `ident.String()` as a Go string: the UTF-8 bytes of the name (kernel-reducible, unlike `String.toUTF8`) -/
def identBytes (s : String) : Bytes := s.toList.flatMap String.utf8EncodeChar

def parsePatternsIR : List (Nat × CExpr) → CRes (List IR.PatternString)
  | [] => .ok []
  | (l, a) :: as =>
    (parseStringArg a).bind fun s => (parsePatternsIR as).bind fun ps => .ok (⟨l, s⟩ :: ps)

/-- `convertRuleExpr` after the chain walk, with the `ir.Rule` it appends to the group; `conv` is
`convertFilterExpr` (a parameter so that this transcription does not depend on how `Conv.convertG` is
parametrised: see `convFilter`) -/
def convertRuleIRW (conv : CExpr → CRes IR.FilterExpr) (ar : Bool) (c : Chain) : CRes IR.Rule :=
  if c.matchArgs.isNone && c.matchCommentArgs.isNone then .err else    -- "missing Match() or MatchComment() call"
  (parsePatternsIR (match c.matchArgs with | some as => as | none => c.matchCommentArgs.getD [])).bind fun alts =>
  -- At()
  (match c.atArgs with
   | none => CRes.ok []
   | some as => (chainArg0 ar as).bind fun a =>
     match a with
     | .index _ _ i => parseStringArg i
     | _ => .err).bind fun loc =>
  -- Where()
  (match c.whereArgs with
   | none => CRes.ok IR.FilterExpr.zero
   | some as => (chainArg0 ar as).bind fun a => conv a).bind fun wh =>
  -- Suggest()
  (match c.suggestArgs with
   | none => CRes.ok []
   | some as => (chainArg0 ar as).bind fun a => parseStringArg a).bind fun sugg =>
  if c.suggestArgs.isNone && c.reportArgs.isNone && c.doArgs.isNone then .err else  -- "missing Report(), Suggest() or Do() call"
  (match c.doArgs with
   | some as =>
     (if c.suggestArgs.isSome || c.reportArgs.isSome then .err        -- "can't combine Report/Suggest with Do yet"
     else if c.matchCommentArgs.isSome then .err                     -- "can't use Do() with MatchComment() yet"
     else (chainArg0 ar as).bind fun a =>
       match a with
       | .ident _ name => .ok (identBytes name, [])
       | _ => .err : CRes (Bytes × Bytes))
   | none =>
     match c.reportArgs with
     | none => .ok ([], suggPrefix ++ sugg)
     | some as => (chainArg0 ar as).bind fun a => (parseStringArg a).bind fun s => .ok ([], s)).bind fun dr =>
  -- `rule.SyntaxPatterns = append(rule.SyntaxPatterns, pat)` from nil: nil when there is no alternative
  .ok { line := c.line,
        syntaxPatterns := ⟨if c.matchArgs.isSome then alts else [], false⟩,
        commentPatterns := ⟨if c.matchArgs.isSome then [] else alts, false⟩,
        reportTemplate := dr.2, suggestTemplate := sugg, doFuncName := dr.1,
        whereExpr := wh, locationVar := loc }

/-- `convertFilterExpr` of `Rg/Model/IRConv.lean` (the only place this file names `Conv.convertG`) -/
def convFilter (ar : Bool) : CExpr → CRes IR.FilterExpr := convertG noHook ar

def convertRuleIR (ar : Bool) (c : Chain) : CRes IR.Rule := convertRuleIRW (convFilter ar) ar c

/-- a rule group function as `convertRuleGroup` leaves it, the rule chains still to be converted -/
structure SrcRuleGroup where
  line : Nat
  name : Bytes
  matcherName : Bytes
  docTags : IR.Sl Bytes            -- `strings.Fields(s)`: empty and non-nil after a bare `//doc:tags`
  docSummary : Bytes
  docBefore : Bytes
  docAfter : Bytes
  docNote : Bytes
  imports : List IR.PackageImport  -- `m.Import(…)` statements
  chains : List Chain

structure SrcFile where
  pkgPath : Bytes
  customDecls : List Bytes         -- `addCustomImport` / `addCustomDecl`, in file order
  bundleImports : List IR.BundleImport
  groups : List SrcRuleGroup

def convertGroupIR (ar : Bool) (g : SrcRuleGroup) : CRes IR.RuleGroup :=
  (seqC (convertRuleIR ar) g.chains).bind fun rs =>
    .ok { line := g.line, name := g.name, matcherName := g.matcherName, docTags := g.docTags,
          docSummary := g.docSummary, docBefore := g.docBefore, docAfter := g.docAfter, docNote := g.docNote,
          imports := ⟨g.imports, false⟩, rules := ⟨rs, false⟩ }

/-- `irconv.ConvertFile` on the modelled fragment (every slice is built by `append` from nil) -/
def convertFileIR (ar : Bool) (s : SrcFile) : CRes IR.File :=
  (seqC (convertGroupIR ar) s.groups).bind fun gs =>
    .ok { pkgPath := s.pkgPath, ruleGroups := ⟨gs, false⟩, customDecls := ⟨s.customDecls, false⟩,
          bundleImports := ⟨s.bundleImports, false⟩ }

/-- the groups of a source file as `Comp.convertFileG` (the C06 composition) takes them -/
def SrcRuleGroup.toSrcGroup (dec : Bytes → String) (g : SrcRuleGroup) : SrcGroup :=
  { line := g.line, name := dec g.name, chains := g.chains }

def _root_.Conv.CRes.map {α β} (f : α → β) : CRes α → CRes β
  | .ok a => .ok (f a)
  | .err => .err
  | .panic p => .panic p

/-- `Engine.Load` on the modelled fragment: convert, then load the IR value -/
def sourceLoad (o : Loader.Oracles) (tc : Loader.TagCfg) (dec : Bytes → String) (s : SrcFile) :
    CRes (Loader.LRes (List Loader.Accepted)) :=
  (convertFileIR true s).map fun f => Loader.loadFile o tc (toLoaderFile dec f)

/-- `gorules precompile` then `Engine.LoadFromIR` on the modelled fragment -/
def sourcePrecompiledLoad (o : Loader.Oracles) (tc : Loader.TagCfg) (dec : Bytes → String) (s : SrcFile) :
    CRes (Option (Loader.LRes (List Loader.Accepted))) :=
  (convertFileIR true s).map fun f => precompiledLoad o tc dec f

end Comp
