import Rg.Base
/-!
# Model of rule placement and of the per-node rule loop

* `ir_loader.go:loadSyntaxRule` — a rule is appended to the bucket(s) `dst rootTag` (list tags fan out);
* `gorule.go:mergeRuleSets/appendScopedRuleSet` — per bucket, append in order;
* `runner.go:runRules` — per visited node, the rules of the node's bucket in order; `matched` is set by
  *any* accepted `handleMatch` callback gogrep made for that rule (since the `fix:` commit; the pinned code
  assigned `matched = handleMatch(…)`, i.e. kept the verdict of the *last* callback — `runRulesAsIs`);
  `break` iff `matched && !multiMatchTags[tag]`.

gogrep itself (does the pattern match, how many callbacks) and the filter verdict are oracle inputs:
`cb rule node : List Bool` = the verdict of `handleMatch` for every callback, in order.
-/
namespace Rules

structure Rule where
  id : Nat
  rootTag : Nat
deriving Repr, DecidableEq

/-- buckets: tag ↦ rules in order -/
abbrev Buckets := Nat → List Rule

def emptyBuckets : Buckets := fun _ => []

/-- `loadSyntaxRule`: append `r` to every bucket in `dst r.rootTag` -/
def place (dst : Nat → List Nat) (b : Buckets) (r : Rule) : Buckets :=
  fun t => if (dst r.rootTag).contains t then b t ++ [r] else b t

/-- one file: rules in source order -/
def loadFile (dst : Nat → List Nat) (rules : List Rule) : Buckets :=
  rules.foldl (place dst) emptyBuckets

/-- `appendScopedRuleSet` -/
def merge (a b : Buckets) : Buckets := fun t => a t ++ b t

/-- a history of successful loads, merged in call order (`engine.Load` after the first one) -/
def loadAll (dst : Nat → List Nat) : List (List Rule) → Buckets
  | [] => emptyBuckets
  | f :: fs => fs.foldl (fun acc g => merge acc (loadFile dst g)) (loadFile dst f)

/-- `runRules` for one node: ids of the rules that reported (one entry per accepted callback) -/
def runRules (multi : Bool) (cb : Rule → List Bool) : List Rule → List Nat
  | [] => []
  | r :: rs =>
    let outs := cb r
    let reps := (outs.filter id).map (fun _ => r.id)
    let matched := outs.any id
    reps ++ (if matched && !multi then [] else runRules multi cb rs)

/-- the pinned code: `matched = rr.handleMatch(rule, m)` inside the callback keeps the last verdict only -/
def runRulesAsIs (multi : Bool) (cb : Rule → List Bool) : List Rule → List Nat
  | [] => []
  | r :: rs =>
    let outs := cb r
    let reps := (outs.filter id).map (fun _ => r.id)
    let matched := outs.getLast?.getD false
    reps ++ (if matched && !multi then [] else runRulesAsIs multi cb rs)

/-- a whole run over the visits `(node id, tag)` of a file: `(node id, rule id)` in delivery order -/
def runOver (dst : Nat → List Nat) (multi : Nat → Bool) (hist : List (List Rule))
    (cb : Nat → Rule → List Bool) (visits : List (Nat × Nat)) : List (Nat × Nat) :=
  visits.flatMap fun v => (runRules (multi v.2) (cb v.1) (loadAll dst hist v.2)).map fun r => (v.1, r)

end Rules
