import Rg.Model.TextMatch
import Rg.Gen.Unicode
/-! The rune predicates of `prefixRunePredMatcher` as the regenerated tables (what the driver runs). -/
namespace TM
def tablePreds : Preds :=
  { isUpper := inTable Gen.Unicode.upperTable, isLower := inTable Gen.Unicode.lowerTable }
end TM
