import Rg.Model.Trunc
/-!
# Model of `runner.go:renderMessage`, `fixedText`, `nodeText` (offset logic) and of the report
payload built by `handleMatch`

A capture is its name, whether the captured node is a typed nil (`reflect.ValueOf(n).IsNil()` and
not an empty node slice — such captures are dropped before interpolation), whether it is an
address-of expression `&x` / `&x[i]` / `&x.y` (the `fixedText` special case), and its source text
(what `nodeText` returns: an oracle input here, modelled separately by `nodeText`).
-/
namespace Render

structure Cap where
  name : Bytes
  typedNil : Bool
  amp : Bool
  text : Bytes
deriving Repr, DecidableEq

def dollar : UInt8 := 36
def dot : UInt8 := 46
def ampersand : UInt8 := 38

/-- `fixedText`: `&buf` followed by `.` is inserted as `buf` -/
def fixedText (text : Bytes) (amp : Bool) (following : Bytes) : Bytes :=
  if amp && following.head? == some dot then
    (if text.head? == some ampersand then text.tail else text)
  else text

/-- insertion into a list sorted by descending name length (the order `sort.Slice` establishes;
its order among equal lengths is unspecified and irrelevant, see `Props/C03`) -/
def insertByLen (c : Cap) : List Cap → List Cap
  | [] => [c]
  | d :: ds => if d.name.length < c.name.length then c :: d :: ds else d :: insertByLen c ds

def sortByLen (cs : List Cap) : List Cap := cs.foldr insertByLen []

/-- text substituted for node `c` when followed by `following` -/
def subst (truncate : Bool) (limit : Int) (c : Cap) (following : Bytes) : Res Bytes :=
  let t := fixedText c.text c.amp following
  if truncate then trunc t limit else .ok t

/-- the interpolation loop (fuel = remaining message length + 1; the loop always advances) -/
def loop (truncate : Bool) (limit : Int) (whole : Cap) (caps : List Cap) :
    Nat → Bytes → Res Bytes
  | 0, _ => .ok []
  | _ + 1, [] => .ok []
  | fuel + 1, c :: rest =>
    if c != dollar then do
      let r ← loop truncate limit whole caps fuel rest
      pure (c :: r)
    else if rest.head? == some dollar then do            -- `$$`
      let t ← subst truncate limit whole rest.tail
      let r ← loop truncate limit whole caps fuel rest.tail
      pure (t ++ r)
    else
      match caps.find? (fun k => k.name.isPrefixOf rest) with
      | some k => do
        let t ← subst truncate limit k (rest.drop k.name.length)
        let r ← loop truncate limit whole caps fuel (rest.drop k.name.length)
        pure (t ++ r)
      | none => do
        let r ← loop truncate limit whole caps fuel rest
        pure (dollar :: r)

/-- `renderMessage(msg, m, truncate)` with `rr.truncateLen = limit` -/
def render (msg : Bytes) (whole : Cap) (caps : List Cap) (truncate : Bool) (limit : Int) : Res Bytes :=
  if !msg.contains dollar then .ok msg
  else
    let live := caps.filter (fun c => !c.typedNil)
    loop truncate limit whole (if live.length > 1 then sortByLen live else live) (msg.length + 1) msg

/-- `nodeText` for a non-empty node: the file bytes between the node's offsets when both are inside
the file, the fallback (go/printer output, or the comment's text) otherwise. -/
def nodeText (src : Bytes) (fromOff toOff : Int) (fallback : Bytes) : Res Bytes :=
  if (0 ≤ fromOff ∧ fromOff < src.length) ∧ (0 ≤ toOff ∧ toOff ≤ src.length) then goSlice src fromOff toOff
  else .ok fallback

/-- `nodeText` as it stood at the pinned commit (`to < len(src)`: a node ending at EOF took the
printer fallback) -/
def nodeTextAsIs (src : Bytes) (fromOff toOff : Int) (fallback : Bytes) : Res Bytes :=
  if (0 ≤ fromOff ∧ fromOff < src.length) ∧ (0 ≤ toOff ∧ toOff < src.length) then goSlice src fromOff toOff
  else .ok fallback

/-- the part of `handleMatch` that builds the payload: reported span and suggestion -/
structure Span where
  pos : Int
  endp : Int
deriving Repr, DecidableEq

structure Payload where
  message : Bytes
  node : Span
  suggestion : Option (Span × Bytes)
  line : Nat
deriving Repr, DecidableEq

/-- `handleMatch` without `Do`: `location` = the At() capture's span if the rule has one -/
def payload (msgT suggT : Bytes) (whole : Cap) (caps : List Cap) (limit : Int)
    (matchSpan : Span) (atSpan : Option Span) (line : Nat) : Res Payload := do
  let message ← render msgT whole caps true limit
  let node := atSpan.getD matchSpan
  let sugg ← if suggT.isEmpty then pure none else do
      let s ← render suggT whole caps false limit
      pure (if s.isEmpty then none else some (node, s))
  pure { message := message, node := node, suggestion := sugg, line := line }

end Render
