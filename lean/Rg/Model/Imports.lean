import Rg.Base
/-!
# Model of qualified-name resolution (C20)

* `typematch.ImportsTab` (Lookup / Load / EnterScope / LeaveScope) — `Itab`
* `ir_loader.go:loadRuleGroup`'s scope handling (GroupFilter early return *before* EnterScope, deferred
  LeaveScope on every exit) — `loadGroup`
* `typematch.parseExpr` on `pkg.T` (with `*` / `[]` wrappers) — `parseType`
* `ir_loader.go:unwrapInterfaceExpr` (FQN first, then the table), `unwrapFuncRefExpr` (FQN only) and
  `engine.go:findTypeNoCache`'s split at the last '.' — `resolveIface`, `resolveFuncRef`, `splitFQN`
* vendor stripping in `typematch.matchIdentical` `opNamed` — `stripVendor`, `namedMatches`

Go strings are `Bytes`.  What packages exist, what they export and which target types implement which
interface are inputs (`World`): go/types and the importer are trusted.
`fixed = false` is the code as it is; `fixed = true` the code after `verif/fixes/c20-*.diff`.
-/
namespace ImpM

/-! ## byte-string search (strings.Index / LastIndexByte) -/

/-- `strings.Index(s, sub)`; `none` = -1 -/
def indexOf (sub : Bytes) : Bytes → Option Nat
  | [] => if sub.isEmpty then some 0 else none
  | c :: t =>
    if sub.isPrefixOf (c :: t) then some 0
    else match indexOf sub t with
      | some i => some (i + 1)
      | none => none

/-- `strings.LastIndex(s, sub)` -/
def lastIndexOf (sub : Bytes) : Bytes → Option Nat
  | [] => if sub.isEmpty then some 0 else none
  | c :: t =>
    match lastIndexOf sub t with
    | some i => some (i + 1)
    | none => if sub.isPrefixOf (c :: t) then some 0 else none

def dot : UInt8 := 46
def slash : UInt8 := 47
def vendorSep : Bytes := [47, 118, 101, 110, 100, 111, 114, 47]      -- "/vendor/"
def vendorPfx : Bytes := [118, 101, 110, 100, 111, 114, 47]          -- "vendor/"

/-- `findTypeNoCache`: `pos := strings.LastIndexByte(fqn, '.')`, `fqn[:pos]`, `fqn[pos+1:]` -/
def splitFQN (fqn : Bytes) : Option (Bytes × Bytes) :=
  match lastIndexOf [dot] fqn with
  | none => none
  | some pos => some (fqn.take pos, fqn.drop (pos + 1))

/-- `opNamed`: the object's package path with everything up to the first "/vendor/" removed;
repaired: up to the *last* "/vendor/", and a leading "vendor/" is removed too -/
def stripVendor (fixed : Bool) (objPath : Bytes) : Bytes :=
  if fixed then
    match lastIndexOf vendorSep objPath with
    | some pos => objPath.drop (pos + vendorSep.length)
    | none => if vendorPfx.isPrefixOf objPath then objPath.drop vendorPfx.length else objPath
  else
    match indexOf vendorSep objPath with
    | some pos => objPath.drop (pos + vendorSep.length)
    | none => objPath

/-! ## the import table -/

abbrev Scope := List (Bytes × Bytes)       -- a Go map written through `Load`: the latest write comes first
abbrev Itab := List Scope                  -- innermost scope first (`imports[len-1]`)

def scopeGet (s : Scope) (name : Bytes) : Option Bytes :=
  match s.find? (fun x => x.1 == name) with
  | some x => some x.2
  | none => none

def Itab.lookup : Itab → Bytes → Option Bytes
  | [], _ => none
  | s :: rest, name =>
    match scopeGet s name with
    | some p => some p
    | none => Itab.lookup rest name

/-- `itab.imports[len-1][name] = path` -/
def Itab.load : Itab → Bytes → Bytes → Res Itab
  | [], _, _ => .panic .index
  | s :: rest, name, path => .ok (((name, path) :: s) :: rest)

def Itab.enter (t : Itab) : Itab := [] :: t

/-- `itab.imports = itab.imports[:len-1]` -/
def Itab.leave : Itab → Res Itab
  | [] => .panic .slice
  | _ :: rest => .ok rest

def Itab.loadAll : Itab → List (Bytes × Bytes) → Res Itab
  | t, [] => .ok t
  | t, (n, p) :: rest =>
    match t.load n p with
    | .ok t' => Itab.loadAll t' rest
    | .panic e => .panic e

/-! ## the world outside: packages, their objects, the target's types -/

inductive ObjKind | iface | other
deriving DecidableEq, Repr

structure Obj where
  name : Bytes
  kind : ObjKind
  methods : List Bytes          -- method names (interfaces)
  impls : List Nat              -- indices of the target values whose type implements it
  methImpls : List (Bytes × List Nat)   -- per method: target values that have this method (HasMethod)
deriving DecidableEq, Repr

structure Pkg where
  path : Bytes
  objs : List Obj
deriving DecidableEq, Repr

/-- one target value: its type as a wrapper chain around a named type -/
inductive TType
  | named (path name : Bytes)
  | ptr (t : TType)
  | slice (t : TType)
  | other                        -- anything else (basic types, …)
deriving DecidableEq, Repr

structure World where
  pkgs : List Pkg                -- packages the importer can load
  targets : List TType           -- static types of the probe values, in order
  underlying : List TType        -- their underlying types
deriving DecidableEq, Repr

def World.pkg (w : World) (path : Bytes) : Option Pkg := w.pkgs.find? (fun p => p.path == path)
def Pkg.obj (p : Pkg) (name : Bytes) : Option Obj := p.objs.find? (fun o => o.name == name)

/-! ## type patterns: typematch.Parse on the fragment `[*|[]]* pkg.T` -/

inductive Pat
  | named (path name : Bytes)
  | ptr (p : Pat)
  | slice (p : Pat)
deriving DecidableEq, Repr

inductive LoadErr
  | typeExpr        -- "parse type expr: can't convert … type expression"
  | notFQN | importFail | notFound | notIface | notImported | badExpr | noMethod
deriving DecidableEq, Repr

def isIdentByte (c : UInt8) : Bool :=
  (97 ≤ c && c ≤ 122) || (65 ≤ c && c ≤ 90) || (48 ≤ c && c ≤ 57) || c == 95

/-- `pkg.T` with both sides identifiers (what go/parser gives a SelectorExpr of two Idents for) -/
def splitSelector (s : Bytes) : Option (Bytes × Bytes) :=
  match indexOf [dot] s with
  | none => none
  | some pos =>
    let a := s.take pos
    let b := s.drop (pos + 1)
    if !a.isEmpty && !b.isEmpty && a.all isIdentByte && b.all isIdentByte then some (a, b) else none

/-- `parseExpr`: StarExpr / ArrayType without length / SelectorExpr through the table; anything else
of this fragment (a path with slashes parses as a division) is not convertible.  Fuel = length. -/
def parseType (t : Itab) : Nat → Bytes → Option Pat
  | 0, _ => none
  | fuel + 1, s =>
    match s with
    | 42 :: rest => (parseType t fuel rest).map .ptr                    -- '*'
    | 91 :: 93 :: rest => (parseType t fuel rest).map .slice            -- "[]"
    | _ =>
      match splitSelector s with
      | none => none
      | some (pkg, name) =>
        match t.lookup pkg with
        | none => none
        | some path => some (.named path name)

/-- `matchIdentical` on this fragment -/
def patMatches (fixed : Bool) : Pat → TType → Bool
  | .named path name, .named objPath objName => name == objName && stripVendor fixed objPath == path
  | .ptr p, .ptr t => patMatches fixed p t
  | .slice p, .slice t => patMatches fixed p t
  | _, _ => false

/-! ## interface and method references -/

/-- `engineState.FindType` without its cache: split, import, look up -/
def findType (w : World) (fqn : Bytes) : Except LoadErr (Bytes × Obj) :=
  match splitFQN fqn with
  | none => .error .notFQN
  | some (path, name) =>
    match w.pkg path with
    | none => .error .importFail
    | some p =>
      match p.obj name with
      | none => .error .notFound
      | some o => .ok (path, o)

/-- `unwrapInterfaceExpr` (as is: the string goes to FindType first, the table is the fallback).
Repaired: a `pkg.T` whose `pkg` the table knows is looked up as `path.T` first. -/
def resolveIface (fixed : Bool) (w : World) (t : Itab) (s0 : Bytes) : Except LoadErr (Bytes × Obj) :=
  let s := if fixed then
      (match splitSelector s0 with
       | some (pkg, name) => (match t.lookup pkg with | some path => path ++ [dot] ++ name | none => s0)
       | none => s0)
    else s0
  match findType w s with
  | .ok (path, o) => if o.kind == .iface then .ok (path, o) else .error .notIface
  | .error _ =>
    match splitSelector s0 with
    | none => .error .badExpr           -- "can't resolve … type; try a fully-qualified name" / parse error
    | some (pkg, name) =>
      match t.lookup pkg with
      | none => .error .notImported
      | some path =>
        match w.pkg path with
        | none => .error .importFail
        | some p =>
          match p.obj name with
          | none => .error .notFound
          | some o => if o.kind == .iface then .ok (path, o) else .error .notIface

/-- `unwrapFuncRefExpr` on `pkg.Type.Method`: `fqn := pkgName + "." + typeName` goes straight to FindType
(as is).  Repaired: the package name goes through the import table first. -/
def resolveFuncRef (fixed : Bool) (w : World) (t : Itab) (s : Bytes) : Except LoadErr (Bytes × Obj × Bytes) :=
  match lastIndexOf [dot] s with
  | none => .error .badExpr
  | some pos =>
    let recv := s.take pos
    let meth := s.drop (pos + 1)
    match splitSelector recv with
    | none => .error .badExpr
    | some (pkg, name) =>
      let path := if fixed then (match t.lookup pkg with | some p => p | none => pkg) else pkg
      match findType w (path ++ [dot] ++ name) with
      | .error _ => .error .notFound           -- "can't find %s type"
      | .ok (path, o) =>
        if o.kind != .iface then .error .notIface
        else if o.methods.contains meth then .ok (path, o, meth) else .error .noMethod

/-! ## rules, groups, files -/

inductive RKind | typeIs | underlyingIs | implements | hasMethod
deriving DecidableEq, Repr

structure RuleReq where
  kind : RKind
  arg : Bytes
deriving DecidableEq, Repr

structure GroupReq where
  name : Nat
  rejected : Bool                         -- the GroupFilter's answer
  imports : List (Bytes × Bytes)          -- (name, path) of the Import() calls, in order
  rules : List RuleReq
deriving DecidableEq, Repr

def indicesWhere (p : TType → Bool) (ts : List TType) : List Nat :=
  (List.range ts.length).filter fun i => match ts[i]? with | some t => p t | none => false

/-- loading one rule's filter: the target values it will accept -/
def loadRule (fixed : Bool) (w : World) (t : Itab) (r : RuleReq) : Except LoadErr (List Nat) :=
  match r.kind with
  | .typeIs =>
    (match parseType t (r.arg.length + 1) r.arg with
     | none => .error .typeExpr
     | some p => .ok (indicesWhere (patMatches fixed p) w.targets))
  | .underlyingIs =>
    (match parseType t (r.arg.length + 1) r.arg with
     | none => .error .typeExpr
     | some p => .ok (indicesWhere (patMatches fixed p) w.underlying))
  | .implements =>
    (match resolveIface fixed w t r.arg with
     | .ok (_, o) => .ok o.impls
     | .error e => .error e)
  | .hasMethod =>
    (match resolveFuncRef fixed w t r.arg with
     | .ok (_, o, m) =>
       .ok (match o.methImpls.find? (fun x => x.1 == m) with | some x => x.2 | none => [])
     | .error e => .error e)

def loadRules (fixed : Bool) (w : World) (t : Itab) : List RuleReq → Except LoadErr (List (List Nat))
  | [] => .ok []
  | r :: rs =>
    match loadRule fixed w t r with
    | .error e => .error e
    | .ok m =>
      match loadRules fixed w t rs with
      | .error e => .error e
      | .ok ms => .ok (m :: ms)

inductive GroupOut
  | skipped
  | loaded (ms : List (List Nat))
  | failed (e : LoadErr)
deriving DecidableEq, Repr

/-- `loadRuleGroup`: filter → EnterScope → `defer LeaveScope` → Import()s → rules.
Returns the table as the *next* group finds it. -/
def loadGroup (fixed : Bool) (w : World) (t : Itab) (g : GroupReq) : Res (Itab × GroupOut) :=
  if g.rejected then .ok (t, .skipped) else
  match (t.enter).loadAll g.imports with
  | .panic e => .panic e
  | .ok t1 =>
    let out := match loadRules fixed w t1 g.rules with
      | .ok ms => GroupOut.loaded ms
      | .error e => GroupOut.failed e
    match t1.leave with                      -- deferred
    | .panic e => .panic e
    | .ok t2 => .ok (t2, out)

/-- the groups of a file in order, stopping at the first failing one (`LoadFile` returns its error) -/
def loadGroups (fixed : Bool) (w : World) : Itab → List GroupReq → Res (Itab × List GroupOut)
  | t, [] => .ok (t, [])
  | t, g :: gs =>
    match loadGroup fixed w t g with
    | .panic e => .panic e
    | .ok (t', .failed e) => .ok (t', [.failed e])
    | .ok (t', o) =>
      match loadGroups fixed w t' gs with
      | .panic e => .panic e
      | .ok (t'', os) => .ok (t'', o :: os)

/-- `Load`: a fresh table over the stdlib defaults -/
def loadFile (fixed : Bool) (w : World) (base : Scope) (gs : List GroupReq) : Res (Itab × List GroupOut) :=
  loadGroups fixed w [base] gs

/-! ## dependency-first package resolution (`utils.go:findDependency`, used by `engine.go:findTypeNoCache`) -/

/-- a package of the analysed program's import graph: its path, `Complete()`, and `Imports()` as indices into the graph -/
structure DPkg where
  path : Bytes
  complete : Bool
  imports : List Nat
deriving Repr, DecidableEq

abbrev DGraph := List DPkg

def DGraph.isComplete (g : DGraph) (d : Nat) : Bool :=
  match g[d]? with
  | some p => p.complete
  | none => false

/-- `findDependency(pkg, path)`:
```
if pkg.Path() == path { return pkg }
for _, imported := range pkg.Imports() {
    if dep := findDependency(imported, path); dep != nil && dep.Complete() { return dep }
}
return nil
```
`fuel` bounds the depth of the recursion (import graphs are acyclic: `g.length` is always enough). -/
def findDep (g : DGraph) (path : Bytes) : Nat → Nat → Option Nat
  | 0, _ => none
  | fuel + 1, i =>
    match g[i]? with
    | none => none
    | some p =>
      if p.path == path then some i
      else p.imports.findSome? fun j =>
        match findDep g path fuel j with
        | some d => if g.isComplete d then some d else none
        | none => none

/-- where `findTypeNoCache` takes the package of a fully-qualified name from -/
inductive PkgSource
  | graph (d : Nat)     -- a package of the analysed program (found by `findDependency`)
  | importer            -- the engine's own importer (its build context), the fallback
deriving Repr, DecidableEq

def pkgSource (g : DGraph) (root : Nat) (path : Bytes) : PkgSource :=
  match findDep g path g.length.succ root with
  | some d => .graph d
  | none => .importer

end ImpM
