import Rg.Model.Render
/-!
# Model of the nil-tolerant edges of `Run` (runner.go: handleMatch / handleCommentMatch / nodeText,
filters.go: the Line filters, Contains): what a capture can look like and how each consumer treats it

A capture bound by a pattern is one of:
* `present span` — an ordinary node with positions,
* `typedNil`     — a typed nil pointer (`func $_() $results { $*_ }` on a function without results),
* `emptySlice`   — a `$*xs` list that matched nothing,
* `absent`       — the name is not bound (rejected at Load since the `fix:` commits; kept here so the
                   run-time code is total on it too).
-/
namespace RunSafe
open Render

inductive Capture
  | present (sp : Span)
  | typedNil
  | emptySlice
  | absent
deriving Repr, DecidableEq

/-- `isNilNode(n) || gogrep.IsEmptyNodeSlice(n)` / not found -/
def usable : Capture → Option Span
  | .present sp => some sp
  | _ => none

/-- handleMatch: `node := m.Node; if rule.location != "" { located … }` -/
def reportNode (matchSpan : Span) (location : Option Capture) : Span :=
  match location with
  | none => matchSpan
  | some c => (usable c).getD matchSpan

/-- `nodeText`: empty for captures that matched nothing, else the source slice / fallback -/
def captureText (src : Bytes) (c : Capture) (fallback : Bytes) : Res Bytes :=
  match usable c with
  | none => .ok []
  | some sp => nodeText src sp.pos sp.endp fallback

/-- the Line filters: the line is unknown for captures that matched nothing → the filter rejects -/
def lineOf (lineAt : Int → Nat) (c : Capture) : Option Nat :=
  (usable c).map (fun sp => lineAt sp.pos)

def lineConstFilter (lineAt : Int → Nat) (c : Capture) (cmp : Nat → Bool) : Res Bool :=
  match lineOf lineAt c with
  | none => .ok false
  | some l => .ok (cmp l)

/-- a delivered report -/
structure Report where
  node : Span
  suggestion : Option Span
deriving Repr, DecidableEq

def mkReport (matchSpan : Span) (location : Option Capture) (hasSuggestion : Bool) : Report :=
  let n := reportNode matchSpan location
  { node := n, suggestion := if hasSuggestion then some n else none }

def inFile (len : Int) (sp : Span) : Prop := 0 ≤ sp.pos ∧ sp.pos ≤ sp.endp ∧ sp.endp ≤ len

end RunSafe
