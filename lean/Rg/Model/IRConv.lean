import Rg.Model.IR
/-!
# Model of `irconv.go:convertFilterExpr / convertFilterExprImpl / toStringValue / parseStringArg /
inspectFilterSelector` (outside helper bodies)

The rules file's Go AST comes annotated with what `types.Info` says about each node (trusted go/types):
`cv` = `Types[e].Value` (none / a string / an int that fits int64 / a bigger int / another kind) and
`isString` = "`Types` has `e` and `Type.String() == "string"`".  A basic literal also carries
`strconv.Unquote(Value)`.  The result is the IR modulo `Src` and `Line` (both left zero).
Local helper calls (`findLocalMacro` / `expandMacro`) enter through the `Hook` parameter: the hook is asked at
the point of the Go code where `findLocalMacro` is (after the string-valued calls, before
`convertExprList`), and answers with `expandMacro`'s result (see `Rg/Model/SrcGroup.lean`, `Rg/Model/Macro.lean`).

Arity: the dsl package fixes the number of arguments of the real predicates, but the converter goes by
names, so a user method named like a predicate can arrive with none.  The string-valued calls read their
argument through `arg0()` (commit 149f4cd: a located error); the calls converted after
`convertExprList` did not — `convertAsIs` — until `fixes/c06-predicate-arity.diff` — `convert`.
No partial operation is left in either (`Comp.convertG_noPanic`); `CRes.panic` stays in the result type
for the rule-level model (`Rg/Model/SrcLoad.lean`: `(*atArgs)[0]` before `fixes/c06-chain-arity.diff`).
-/
namespace Conv
open IR

inductive CV
  | none
  | str (b : Bytes)
  | int (n : Int)       -- constant.Int with an exact int64 value
  | intBig              -- constant.Int, Int64Val not exact
  | other               -- Bool, Float, Complex, Unknown
deriving DecidableEq, Repr

structure Ann where
  cv : CV
  isString : Bool
deriving DecidableEq, Repr

inductive CExpr
  | lit (a : Ann) (isStringLit : Bool) (unq : Option Bytes)
  | ident (a : Ann) (name : String)
  | paren (a : Ann) (x : CExpr)
  | sel (a : Ann) (x : CExpr) (name : String)
  | index (a : Ann) (x i : CExpr)
  | call (a : Ann) (f : CExpr) (args : List CExpr)
  | unary (a : Ann) (op : String) (x : CExpr)
  | binary (a : Ann) (op : String) (x y : CExpr)
  | other (a : Ann)
deriving Repr

def CExpr.ann : CExpr → Ann
  | .lit a _ _ => a | .ident a _ => a | .paren a _ => a | .sel a _ _ => a | .index a _ _ => a
  | .call a _ _ => a | .unary a _ _ => a | .binary a _ _ _ => a | .other a => a

/-- outcome of a conversion: the IR, a located error (`conv.errorf`), or a run-time panic -/
inductive CRes (α : Type)
  | ok (v : α)
  | err
  | panic (p : Panic)
deriving DecidableEq, Repr

def CRes.bind {α β} (x : CRes α) (f : α → CRes β) : CRes β :=
  match x with
  | .ok v => f v
  | .err => .err
  | .panic p => .panic p

/-- `toStringValue`: a string literal is unquoted; any other expression is read from `types.Info`
when its type is exactly `string` and it has a constant string value; a string-typed expression that
is not a constant is "not a string argument" (since the `fix:` commit for D28; the pinned code called
`constant.StringVal` on the nil value and panicked) -/
def toStringValue : CExpr → CRes (Option Bytes)
  | .lit _ isStr unq => .ok (if isStr then unq else none)
  | e =>
    if e.ann.isString then
      match e.ann.cv with
      | .str s => .ok (some s)
      | _ => .ok none               -- typ.Value == nil || typ.Value.Kind() != constant.String
    else .ok none

/-- `parseStringArg` -/
def parseStringArg (e : CExpr) : CRes Bytes :=
  match toStringValue e with
  | .ok (some s) => .ok s
  | .ok none => .err
  | .err => .err
  | .panic p => .panic p

def unparen : CExpr → CExpr
  | .paren _ x => unparen x
  | e => e

mutual
/-- the selector chain of `inspectFilterSelector`, innermost name first; returns the names and the
expression the chain starts from.  `pathAt` is the loop body at a position where parentheses are
*not* looked through (the call's `Fun`), `pathUnder` below a selector (`astutil.Unparen(selector.X)`). -/
def pathAt : CExpr → List String × CExpr
  | .call _ f _ => pathAt f
  | .sel _ x n => let r := pathUnder x; (r.1 ++ [n], r.2)
  | e => ([], e)
def pathUnder : CExpr → List String × CExpr
  | .paren _ x => pathUnder x
  | .call _ f _ => pathAt f
  | .sel _ x n => let r := pathUnder x; (r.1 ++ [n], r.2)
  | e => ([], e)
end

structure Selector where
  path : List String
  varName : Bytes
deriving DecidableEq, Repr

/-- `inspectFilterSelector` (the `mapName` field is never read by the converter) -/
def inspect (e : CExpr) : CRes Selector :=
  let r := (match e with
    | .call _ f _ => pathAt f
    | e => pathAt e)
  match unparen r.2 with
  | .index _ x i =>
    (match unparen x with
     | .ident _ _ =>
       (match toStringValue i with
        | .ok s => .ok ⟨r.1, s.getD []⟩
        | .err => .ok ⟨r.1, []⟩
        | .panic p => .panic p)
     | _ => .ok ⟨r.1, []⟩)
  | _ => .ok ⟨r.1, []⟩

def mkOp (name : String) (value : Val) (args : List FilterExpr) : FilterExpr :=
  .mk 0 (opNamed name) [] value args false

def invalid : FilterExpr := FilterExpr.zero

/-- binary operator token ↦ op name -/
def binaryOp (op : String) : Option String :=
  if op == "&&" then some "And" else if op == "||" then some "Or" else if op == "!=" then some "Neq"
  else if op == "==" then some "Eq" else if op == ">" then some "Gt" else if op == "<" then some "Lt"
  else if op == ">=" then some "GtEq" else if op == "<=" then some "LtEq" else none

/-- selector paths (`case *ast.SelectorExpr`) -/
def selectorOps : List (List String × String) :=
  [(["Text"], "VarText"), (["Line"], "VarLine"), (["Pure"], "VarPure"), (["Const"], "VarConst"),
   (["ConstSlice"], "VarConstSlice"), (["Addressable"], "VarAddressable"), (["Comparable"], "VarComparable"),
   (["Type", "Size"], "VarTypeSize")]

/-- call paths whose single argument is read with `parseStringArg` into `Value` -/
def stringValueCalls : List (List String × String) :=
  [(["GoVersion", "Eq"], "GoVersionEq"), (["GoVersion", "LessThan"], "GoVersionLessThan"),
   (["GoVersion", "GreaterThan"], "GoVersionGreaterThan"), (["GoVersion", "LessEqThan"], "GoVersionLessEqThan"),
   (["GoVersion", "GreaterEqThan"], "GoVersionGreaterEqThan"), (["File", "Imports"], "FileImports"),
   (["File", "PkgPath", "Matches"], "FilePkgPathMatches"), (["File", "Name", "Matches"], "FileNameMatches")]

/-- call paths converted after `convertExprList(e.Args)`: (path, op, keeps the variable name, keeps the arguments) -/
def listCalls : List (List String × String × Bool × Bool) :=
  [(["Value", "Int"], "VarValueInt", true, true), (["Text", "Matches"], "VarTextMatches", true, true),
   (["Node", "Is"], "VarNodeIs", true, true), (["Object", "Is"], "VarObjectIs", true, true),
   (["Object", "IsGlobal"], "VarObjectIsGlobal", true, false), (["Object", "IsVariadicParam"], "VarObjectIsVariadicParam", true, false),
   (["Type", "HasPointers"], "VarTypeHasPointers", true, false), (["Type", "Is"], "VarTypeIs", true, true),
   (["Type", "Underlying", "Is"], "VarTypeUnderlyingIs", true, true), (["Type", "OfKind"], "VarTypeOfKind", true, true),
   (["Type", "Underlying", "OfKind"], "VarTypeUnderlyingOfKind", true, true),
   (["Type", "ConvertibleTo"], "VarTypeConvertibleTo", true, true), (["Type", "AssignableTo"], "VarTypeAssignableTo", true, true),
   (["Type", "Implements"], "VarTypeImplements", true, true), (["Type", "HasMethod"], "VarTypeHasMethod", true, true)]

def dollars : Bytes := [36, 36]

/-- call paths whose first argument the loader reads (`filter.Args[0]`): since
`fixes/c06-predicate-arity.diff` the converter asks for it with `arg0()` — a located error when a user
method merely named like the predicate is called without arguments -/
def argCalls : List (List String) :=
  [["Text", "Matches"], ["Node", "Is"], ["Node", "Parent", "Is"], ["Object", "Is"], ["SinkType", "Is"],
   ["Type", "Is"], ["Type", "Underlying", "Is"], ["Type", "OfKind"], ["Type", "Underlying", "OfKind"],
   ["Type", "ConvertibleTo"], ["Type", "AssignableTo"], ["Type", "Implements"], ["Type", "HasMethod"]]

/-- `findLocalMacro` + `expandMacro` as `convertFilterExprImpl` sees them: asked with the name of a call's
bare-identifier `Fun` and the call's arguments; `none` = the group has no local helper of that name,
`some r` = what `expandMacro` returns (`convertFilterExpr` of the expansion) or how it ends.
`Rg/Model/SrcGroup.lean` builds the hook from the group's helper table (`Macro.expand`'s substitution);
`noHook` = outside any group (the C18 conv suite, `Comp.convertRuleG`). -/
abbrev Hook := String → List CExpr → Option (CRes FilterExpr)
def noHook : Hook := fun _ _ => none
/-- `findLocalMacro(call)`: `call.Fun.(*ast.Ident)` (no parentheses looked through), then the table -/
def askHook (hk : Hook) (f : CExpr) (args : List CExpr) : Option (CRes FilterExpr) :=
  match f with
  | .ident _ name => hk name args
  | _ => none

mutual
/-- the names of the bare-identifier calls of an expression: the only places the hook is asked about -/
def callNames : CExpr → List String
  | .call _ f args => (match f with | .ident _ n => [n] | _ => []) ++ (callNames f ++ callNamesL args)
  | .paren _ x => callNames x
  | .sel _ x _ => callNames x
  | .index _ x i => callNames x ++ callNames i
  | .unary _ _ x => callNames x
  | .binary _ _ x y => callNames x ++ callNames y
  | .lit _ _ _ => []
  | .ident _ _ => []
  | .other _ => []
def callNamesL : List CExpr → List String
  | [] => []
  | a :: as => callNames a ++ callNamesL as
end

/-!
`ar` = the arity check of `fixes/c06-predicate-arity.diff` is present (`convert` = the repaired
converter, `convertAsIs` = the converter before that repair, which hands `VarTextMatches` & co. with
`Args: []` to the loader).  The string-valued calls (`GoVersion.Eq`, `File.Imports`, `Contains`,
`Type.IdenticalTo`, `Filter`, …) read their argument through `arg0()` in both (commit 149f4cd).
-/
mutual
/-- `convertFilterExpr` (modulo Src/Line): the implementation's result must be a valid op -/
def convertG (hk : Hook) (ar : Bool) : CExpr → CRes FilterExpr
  | e =>
    match convertImplG hk ar e with
    | .ok r => if r.op == 0 then .err else .ok r
    | .err => .err
    | .panic p => .panic p
/-- `convertFilterExprImpl`: constant folding first, then the structure -/
def convertImplG (hk : Hook) (ar : Bool) : CExpr → CRes FilterExpr
  | e =>
    match e.ann.cv with
    | .str s => .ok (mkOp "String" (.str s) [])
    | .int n => .ok (mkOp "Int" (.int64 n) [])
    | _ => convertStructG hk ar e
def convertStructG (hk : Hook) (ar : Bool) : CExpr → CRes FilterExpr
  | .paren _ x => convertG hk ar x
  | .unary _ op x =>
    (match convertG hk ar x with
     | .ok x' => if op == "!" then .ok (mkOp "Not" .nil [x']) else .ok invalid
     | .err => .err
     | .panic p => .panic p)
  | .binary _ op x y =>
    (match convertG hk ar x with
     | .ok x' =>
       (match convertG hk ar y with
        | .ok y' =>
          (match binaryOp op with
           | some name => .ok (mkOp name .nil [x', y'])
           | none => .err)
        | .err => .err
        | .panic p => .panic p)
     | .err => .err
     | .panic p => .panic p)
  | .sel a x n =>
    (match inspect (.sel a x n) with
     | .ok s =>
       (match selectorOps.lookup s.path with
        | some name => .ok (mkOp name (.str s.varName) [])
        | none => .ok invalid)
     | .err => .err
     | .panic p => .panic p)
  | .call a f args =>
    (match inspect (.call a f args) with
     | .err => .err
     | .panic p => .panic p
     | .ok s =>
       if s.path == ["Deadcode"] then .ok (mkOp "Deadcode" .nil [])
       else match stringValueCalls.lookup s.path with
       | some name =>
         (match args with
          | a0 :: _ => (match parseStringArg a0 with
            | .ok v => .ok (mkOp name (.str v) [])
            | .err => .err
            | .panic p => .panic p)
          | [] => .err)                      -- arg0(): "expected an argument"
       | none =>
         if s.path == ["Contains"] then
           (match args with
            | a0 :: _ => (match parseStringArg a0 with
              | .ok v => .ok (mkOp "VarContains" (.str s.varName) [mkOp "String" (.str v) []])
              | .err => .err
              | .panic p => .panic p)
            | [] => .err)
         else if s.path == ["Type", "IdenticalTo"] then
           (match args with
            | .index _ _ i :: _ => (match parseStringArg i with
              | .ok v => .ok (mkOp "VarTypeIdenticalTo" (.str s.varName) [mkOp "String" (.str v) []])
              | .err => .err
              | .panic p => .panic p)
            | _ :: _ => .err
            | [] => .err)
         else if s.path == ["Filter"] then
           (match args with
            | .ident _ name :: _ => .ok (mkOp "VarFilter" (.str s.varName) [mkOp "FilterFuncRef" (.str name.toUTF8.toList) []])
            | _ :: _ => .err
            | [] => .err)
         else
           -- `if macro := conv.findLocalMacro(e); macro != nil { return conv.expandMacro(macro, e) }`
           match askHook hk f args with
           | some r => r
           | none =>
           -- args := convertExprList(e.Args): every argument is converted before the path is looked at
           (match convertListG hk ar args with
            | .err => .err
            | .panic p => .panic p
            | .ok args' =>
              -- `arg0()` for the predicates whose Args[0] the loader reads (c06-predicate-arity)
              if ar && argCalls.contains s.path && args.isEmpty then .err else
              match listCalls.lookup s.path with
              | some (name, _, keepArgs) => .ok (mkOp name (.str s.varName) (if keepArgs then args' else []))
              | none =>
                if s.path == ["Node", "Parent", "Is"] then
                  (if s.varName == dollars then .ok (mkOp "RootNodeParentIs" .nil args') else .err)
                else if s.path == ["SinkType", "Is"] then
                  (if s.varName == dollars then .ok (mkOp "RootSinkTypeIs" (.str s.varName) args') else .err)
                else .ok invalid))
  | _ => .ok invalid
def convertListG (hk : Hook) (ar : Bool) : List CExpr → CRes (List FilterExpr)
  | [] => .ok []
  | a :: as =>
    (match convertG hk ar a with
     | .ok a' =>
       (match convertListG hk ar as with
        | .ok as' => .ok (a' :: as')
        | .err => .err
        | .panic p => .panic p)
     | .err => .err
     | .panic p => .panic p)
end

/-- the converter after `fixes/c06-predicate-arity.diff` -/
abbrev convert : CExpr → CRes FilterExpr := convertG noHook true
abbrev convertImpl : CExpr → CRes FilterExpr := convertImplG noHook true
abbrev convertStruct : CExpr → CRes FilterExpr := convertStructG noHook true
abbrev convertList : List CExpr → CRes (List FilterExpr) := convertListG noHook true
/-- the converter before it -/
abbrev convertAsIs : CExpr → CRes FilterExpr := convertG noHook false

end Conv
