import Rg.Model.IR
/-!
# Model of `irconv.go:convertFilterExpr / convertFilterExprImpl / toStringValue / parseStringArg /
inspectFilterSelector` (outside helper bodies)

The rules file's Go AST comes annotated with what `types.Info` says about each node (trusted go/types):
`cv` = `Types[e].Value` (none / a string / an int that fits int64 / a bigger int / another kind) and
`isString` = "`Types` has `e` and `Type.String() == "string"`".  A basic literal also carries
`strconv.Unquote(Value)`.  The result is the IR modulo `Src` and `Line` (both left zero).
Local helper calls (`findLocalMacro`) are outside this model (see `Rg/Model/Macro.lean`).
-/
namespace Conv
open IR

inductive CV
  | none
  | str (b : Bytes)
  | int (n : Int)       -- constant.Int with an exact int64 value
  | intBig              -- constant.Int, Int64Val not exact
  | other               -- Bool, Float, Complex, Unknown
deriving DecidableEq, Repr

structure Ann where
  cv : CV
  isString : Bool
deriving DecidableEq, Repr

inductive CExpr
  | lit (a : Ann) (isStringLit : Bool) (unq : Option Bytes)
  | ident (a : Ann) (name : String)
  | paren (a : Ann) (x : CExpr)
  | sel (a : Ann) (x : CExpr) (name : String)
  | index (a : Ann) (x i : CExpr)
  | call (a : Ann) (f : CExpr) (args : List CExpr)
  | unary (a : Ann) (op : String) (x : CExpr)
  | binary (a : Ann) (op : String) (x y : CExpr)
  | other (a : Ann)
deriving Repr

def CExpr.ann : CExpr → Ann
  | .lit a _ _ => a | .ident a _ => a | .paren a _ => a | .sel a _ _ => a | .index a _ _ => a
  | .call a _ _ => a | .unary a _ _ => a | .binary a _ _ _ => a | .other a => a

/-- outcome of a conversion: the IR, a located error (`conv.errorf`), or a run-time panic -/
inductive CRes (α : Type)
  | ok (v : α)
  | err
  | panic (p : Panic)
deriving DecidableEq, Repr

def CRes.bind {α β} (x : CRes α) (f : α → CRes β) : CRes β :=
  match x with
  | .ok v => f v
  | .err => .err
  | .panic p => .panic p

/-- `toStringValue`: a string literal is unquoted; any other expression is read from `types.Info`
when its type is exactly `string` and it has a constant string value; a string-typed expression that
is not a constant is "not a string argument" (since the `fix:` commit for D28; the pinned code called
`constant.StringVal` on the nil value and panicked) -/
def toStringValue : CExpr → CRes (Option Bytes)
  | .lit _ isStr unq => .ok (if isStr then unq else none)
  | e =>
    if e.ann.isString then
      match e.ann.cv with
      | .str s => .ok (some s)
      | _ => .ok none               -- typ.Value == nil || typ.Value.Kind() != constant.String
    else .ok none

/-- `parseStringArg` -/
def parseStringArg (e : CExpr) : CRes Bytes :=
  match toStringValue e with
  | .ok (some s) => .ok s
  | .ok none => .err
  | .err => .err
  | .panic p => .panic p

def unparen : CExpr → CExpr
  | .paren _ x => unparen x
  | e => e

mutual
/-- the selector chain of `inspectFilterSelector`, innermost name first; returns the names and the
expression the chain starts from.  `pathAt` is the loop body at a position where parentheses are
*not* looked through (the call's `Fun`), `pathUnder` below a selector (`astutil.Unparen(selector.X)`). -/
def pathAt : CExpr → List String × CExpr
  | .call _ f _ => pathAt f
  | .sel _ x n => let r := pathUnder x; (r.1 ++ [n], r.2)
  | e => ([], e)
def pathUnder : CExpr → List String × CExpr
  | .paren _ x => pathUnder x
  | .call _ f _ => pathAt f
  | .sel _ x n => let r := pathUnder x; (r.1 ++ [n], r.2)
  | e => ([], e)
end

structure Selector where
  path : List String
  varName : Bytes
deriving DecidableEq, Repr

/-- `inspectFilterSelector` (the `mapName` field is never read by the converter) -/
def inspect (e : CExpr) : CRes Selector :=
  let r := (match e with
    | .call _ f _ => pathAt f
    | e => pathAt e)
  match unparen r.2 with
  | .index _ x i =>
    (match unparen x with
     | .ident _ _ =>
       (match toStringValue i with
        | .ok s => .ok ⟨r.1, s.getD []⟩
        | .err => .ok ⟨r.1, []⟩
        | .panic p => .panic p)
     | _ => .ok ⟨r.1, []⟩)
  | _ => .ok ⟨r.1, []⟩

def mkOp (name : String) (value : Val) (args : List FilterExpr) : FilterExpr :=
  .mk 0 (opNamed name) [] value args false

def invalid : FilterExpr := FilterExpr.zero

/-- binary operator token ↦ op name -/
def binaryOp (op : String) : Option String :=
  if op == "&&" then some "And" else if op == "||" then some "Or" else if op == "!=" then some "Neq"
  else if op == "==" then some "Eq" else if op == ">" then some "Gt" else if op == "<" then some "Lt"
  else if op == ">=" then some "GtEq" else if op == "<=" then some "LtEq" else none

/-- selector paths (`case *ast.SelectorExpr`) -/
def selectorOps : List (List String × String) :=
  [(["Text"], "VarText"), (["Line"], "VarLine"), (["Pure"], "VarPure"), (["Const"], "VarConst"),
   (["ConstSlice"], "VarConstSlice"), (["Addressable"], "VarAddressable"), (["Comparable"], "VarComparable"),
   (["Type", "Size"], "VarTypeSize")]

/-- call paths whose single argument is read with `parseStringArg` into `Value` -/
def stringValueCalls : List (List String × String) :=
  [(["GoVersion", "Eq"], "GoVersionEq"), (["GoVersion", "LessThan"], "GoVersionLessThan"),
   (["GoVersion", "GreaterThan"], "GoVersionGreaterThan"), (["GoVersion", "LessEqThan"], "GoVersionLessEqThan"),
   (["GoVersion", "GreaterEqThan"], "GoVersionGreaterEqThan"), (["File", "Imports"], "FileImports"),
   (["File", "PkgPath", "Matches"], "FilePkgPathMatches"), (["File", "Name", "Matches"], "FileNameMatches")]

/-- call paths converted after `convertExprList(e.Args)`: (path, op, keeps the variable name, keeps the arguments) -/
def listCalls : List (List String × String × Bool × Bool) :=
  [(["Value", "Int"], "VarValueInt", true, true), (["Text", "Matches"], "VarTextMatches", true, true),
   (["Node", "Is"], "VarNodeIs", true, true), (["Object", "Is"], "VarObjectIs", true, true),
   (["Object", "IsGlobal"], "VarObjectIsGlobal", true, false), (["Object", "IsVariadicParam"], "VarObjectIsVariadicParam", true, false),
   (["Type", "HasPointers"], "VarTypeHasPointers", true, false), (["Type", "Is"], "VarTypeIs", true, true),
   (["Type", "Underlying", "Is"], "VarTypeUnderlyingIs", true, true), (["Type", "OfKind"], "VarTypeOfKind", true, true),
   (["Type", "Underlying", "OfKind"], "VarTypeUnderlyingOfKind", true, true),
   (["Type", "ConvertibleTo"], "VarTypeConvertibleTo", true, true), (["Type", "AssignableTo"], "VarTypeAssignableTo", true, true),
   (["Type", "Implements"], "VarTypeImplements", true, true), (["Type", "HasMethod"], "VarTypeHasMethod", true, true)]

def dollars : Bytes := [36, 36]

mutual
/-- `convertFilterExpr` (modulo Src/Line): the implementation's result must be a valid op -/
def convert : CExpr → CRes FilterExpr
  | e =>
    match convertImpl e with
    | .ok r => if r.op == 0 then .err else .ok r
    | .err => .err
    | .panic p => .panic p
/-- `convertFilterExprImpl`: constant folding first, then the structure -/
def convertImpl : CExpr → CRes FilterExpr
  | e =>
    match e.ann.cv with
    | .str s => .ok (mkOp "String" (.str s) [])
    | .int n => .ok (mkOp "Int" (.int64 n) [])
    | _ => convertStruct e
def convertStruct : CExpr → CRes FilterExpr
  | .paren _ x => convert x
  | .unary _ op x =>
    (match convert x with
     | .ok x' => if op == "!" then .ok (mkOp "Not" .nil [x']) else .ok invalid
     | .err => .err
     | .panic p => .panic p)
  | .binary _ op x y =>
    (match convert x with
     | .ok x' =>
       (match convert y with
        | .ok y' =>
          (match binaryOp op with
           | some name => .ok (mkOp name .nil [x', y'])
           | none => .err)
        | .err => .err
        | .panic p => .panic p)
     | .err => .err
     | .panic p => .panic p)
  | .sel a x n =>
    (match inspect (.sel a x n) with
     | .ok s =>
       (match selectorOps.lookup s.path with
        | some name => .ok (mkOp name (.str s.varName) [])
        | none => .ok invalid)
     | .err => .err
     | .panic p => .panic p)
  | .call a f args =>
    (match inspect (.call a f args) with
     | .err => .err
     | .panic p => .panic p
     | .ok s =>
       if s.path == ["Deadcode"] then .ok (mkOp "Deadcode" .nil [])
       else match stringValueCalls.lookup s.path with
       | some name =>
         (match args with
          | a0 :: _ => (match parseStringArg a0 with
            | .ok v => .ok (mkOp name (.str v) [])
            | .err => .err
            | .panic p => .panic p)
          | [] => .panic .index)
       | none =>
         if s.path == ["Contains"] then
           (match args with
            | a0 :: _ => (match parseStringArg a0 with
              | .ok v => .ok (mkOp "VarContains" (.str s.varName) [mkOp "String" (.str v) []])
              | .err => .err
              | .panic p => .panic p)
            | [] => .panic .index)
         else if s.path == ["Type", "IdenticalTo"] then
           (match args with
            | .index _ _ i :: _ => (match parseStringArg i with
              | .ok v => .ok (mkOp "VarTypeIdenticalTo" (.str s.varName) [mkOp "String" (.str v) []])
              | .err => .err
              | .panic p => .panic p)
            | _ :: _ => .err
            | [] => .panic .index)
         else if s.path == ["Filter"] then
           (match args with
            | .ident _ name :: _ => .ok (mkOp "VarFilter" (.str s.varName) [mkOp "FilterFuncRef" (.str name.toUTF8.toList) []])
            | _ :: _ => .err
            | [] => .panic .index)
         else
           -- args := convertExprList(e.Args): every argument is converted before the path is looked at
           (match convertList args with
            | .err => .err
            | .panic p => .panic p
            | .ok args' =>
              match listCalls.lookup s.path with
              | some (name, _, keepArgs) => .ok (mkOp name (.str s.varName) (if keepArgs then args' else []))
              | none =>
                if s.path == ["Node", "Parent", "Is"] then
                  (if s.varName == dollars then .ok (mkOp "RootNodeParentIs" .nil args') else .err)
                else if s.path == ["SinkType", "Is"] then
                  (if s.varName == dollars then .ok (mkOp "RootSinkTypeIs" (.str s.varName) args') else .err)
                else .ok invalid))
  | _ => .ok invalid
def convertList : List CExpr → CRes (List FilterExpr)
  | [] => .ok []
  | a :: as =>
    (match convert a with
     | .ok a' =>
       (match convertList as with
        | .ok as' => .ok (a' :: as')
        | .err => .err
        | .panic p => .panic p)
     | .err => .err
     | .panic p => .panic p)
end

end Conv
