import Rg.Model.SrcLoad
import Rg.Model.MacroLit
/-!
# `irconv.go` from `ConvertFile` down to `convertRuleExpr`'s chain walk: rule-group bodies as source

`Rg/Model/SrcLoad.lean` starts *after* the chain walk and the statement classification.  This file is the part in
front of it, transcribed line by line over an abstract syntax of what those loops look at:

* `RExpr`        — the expression of an expression statement: nested call / selector expressions with any receiver
                   and any arity (`m.Match(…).Where(…).Report(…)`, `lm.Report()`, `f(x).Foo(1, 2).Match()`, `(m.Match(…)).Report(…)` …);
* `link`, `walk` — the loop of `convertRuleExpr` (outermost call inwards; per selector name: duplicate checks, the
                   `Match`/`MatchComment` exclusion, `Do` overwriting silently, any other name an error; the loop ends at
                   the first `Fun` that is not a selector or receiver that is not a call);
* `localDefine`  — the seven refusals of a `:=` statement and the helper it records;
* `stmtLoopG`    — the statement loop of `convertRuleGroup` (`:=` → `localDefine`, `DeclStmt` skipped, expression
                   statements → `Import` or a rule, everything else an error; `seenRules`), generic in what is done with a
                   rule statement: with `ruleExpr` it is the converter, with `resolveCalls` it **is** `MacroLit.groupLoop`
                   (`Rg/Proofs/SrcGroup.lean: stmtLoop_groupLoop`) — the C18 model of helper definitions is an instance, not a copy;
* `docComment`   — `convertDocComments` (pragma recognition; `TrimSpace`/`Fields` of the payload stay with Go);
* `hookOf`, `convertM` — `findLocalMacro` + `expandMacro` as the `Conv.Hook` of `convertFilterExprImpl`: the
                   argument check and the substitution are `Macro.expand`'s (`expandC_shape`: the annotated expansion is a
                   `types.Info` annotation of `Macro.expand`'s result), the expansion is converted again with the same
                   table — so a helper whose expansion calls it again recurses without bound.  Go's recursion is
                   modelled with fuel: `convertM n` allows `n` nested expansions and answers `panic stack` (the
                   runtime's fatal "stack overflow") where the `n+1`-st would start.  `rg` = a recursion guard is
                   present (`fixes/c06-helper-recursion.diff`: a helper that is being expanded is not expanded again — located error);
* `initStmt`     — `convertInitFunc` (`dsl.ImportRules(prefix, pkg.Bundle)` recognised by names alone: `call.Args[0]`,
                   `call.Args[1]`, `bundleObj.Pkg().Path()`); `ifx` = the arity / object checks of `fixes/c06-init-arity.diff`;
* `convertFileM` — the declaration loop of `ConvertFile` over declarations already classified by go/types
                   (`isMatcherFunc`), producing the `Loader.File` of the IR-level loader model.

Trusted, as before: go/parser and go/types (the syntax arrives annotated), `strconv.Unquote` on literal text (`unq`).
-/
namespace Grp
open Conv Comp Macro MacroLit

/-! ## syntax -/

/-- the expression of an expression statement, as far as `convertRuleGroup` / `convertRuleExpr` look:
every argument comes with the line of its first token (`fset.Position(arg.Pos()).Line`) -/
inductive RExpr
  | ident (name : String)
  | call (fn : RExpr) (args : List (Nat × CExpr))      -- *ast.CallExpr
  | sel (x : RExpr) (name : String)                    -- *ast.SelectorExpr
  | other                                              -- parenthesised, index, literal, func literal, …

inductive Lhs
  | ident (name : String)
  | other

/-- a statement of a func literal's body -/
inductive FStmt
  | ret (results : List GExpr)
  | other

inductive Rhs
  | funcLit (boolResult : Bool) (params : List String) (body : List FStmt)   -- boolResult: go/types (`isBoolResult`)
  | other

inductive Stmt
  | assign (isDefine : Bool) (lhs : List Lhs) (rhs : List Rhs)   -- *ast.AssignStmt; `Tok == token.DEFINE`
  | decl                                                         -- *ast.DeclStmt
  | expr (line : Nat) (x : RExpr)                                -- *ast.ExprStmt, line of `X.Pos()`
  | other

def RExpr.isCall : RExpr → Bool
  | .call _ _ => true
  | _ => false

/-! ## helper calls: `findLocalMacro` + `expandMacro` on annotated arguments -/

/-- `types.Info` about a node `astcopy` created: nothing -/
def noAnn : Ann := ⟨.none, false⟩

/-- `isSafe` of `expandMacro` (`Macro.isSafe` on the annotated tree; a literal's kind is all that is asked) -/
def isSafeC (matcher : String) (arg : CExpr) : Bool :=
  match Conv.unparen arg with
  | .lit _ _ _ => true
  | .ident _ _ => true
  | .index _ x i =>
    (match Conv.unparen x with
     | .ident _ n => n == matcher
     | _ => false) &&
    (match Conv.unparen i with
     | .lit _ isStr _ => isStr
     | _ => false)
  | _ => false

/-- the argument loop (`Macro.checkArgs true`): every error is a located error -/
def checkArgsC (matcher : String) : List String → List CExpr → Bool
  | _, [] => true
  | [], _ :: _ => false
  | _ :: ps, a :: as => isSafeC matcher a && checkArgsC matcher ps as

/-- `Macro.bindArgs` -/
def bindArgsC : List String → List CExpr → List (String × CExpr)
  | p :: ps, a :: as => bindArgsC ps as ++ [(p, Conv.unparen a)]
  | _, _ => []

/-- the literal's text as `MacroLit.retype` reads it (one `Char` per byte: `Proto.stringOfBytes`) -/
def textNat (t : String) : List Nat := t.toList.map (·.toNat)

mutual
/-- `Macro.subst` with what `types.Info` holds afterwards: argument nodes are the original nodes (their
annotations stay), nodes of the copied body have no entry, copied basic literals get `MacroLit.retype`'s -/
def inst (unq : String → Option Bytes) (env : List (String × CExpr)) : GExpr → CExpr
  | .ident n => (env.lookup n).getD (.ident noAnn n)
  | .lit k t => .lit ⟨retype k (textNat t) (unq t), false⟩ (k == "STRING") (if k == "STRING" then unq t else none)
  | .paren x => .paren noAnn (inst unq env x)
  | .sel x n => .sel noAnn (inst unq env x) n
  | .index x i => .index noAnn (inst unq env x) (inst unq env i)
  | .call f as => .call noAnn (inst unq env f) (instList unq env as)
  | .unary o x => .unary noAnn o (inst unq env x)
  | .binary o x y => .binary noAnn o (inst unq env x) (inst unq env y)
def instList (unq : String → Option Bytes) (env : List (String × CExpr)) : List GExpr → List CExpr
  | [] => []
  | a :: as => inst unq env a :: instList unq env as
end

/-- `expandMacro` up to the expanded expression (`Macro.expand`) -/
def expandC (unq : String → Option Bytes) (matcher : String) (d : MacroDef) (args : List CExpr) : CRes CExpr :=
  if checkArgsC matcher d.params args then .ok (inst unq (bindArgsC d.params args) d.body) else .err

/-- the configuration of one group's conversions -/
structure Cfg where
  unq : String → Option Bytes        -- strconv.Unquote on the text of a literal of a helper body
  matcher : String                   -- conv.group.MatcherName
  ar : Bool                          -- the arity repairs of irconv (c06-predicate-arity, c06-chain-arity) are present
  rg : Bool                          -- a recursion guard for helper expansion is present

/-- the hook of a group: `fs` = conv.groupFuncs, `active` = the helpers being expanded, `conv` = the recursive
`convertFilterExpr` -/
def hookOf (cfg : Cfg) (fs : List MacroDef) (active : List String)
    (conv : List String → CExpr → CRes IR.FilterExpr) : Hook :=
  fun name args =>
    match findMacro fs name with
    | none => none
    | some d =>
      some (if cfg.rg && active.contains name then .err
            else (expandC cfg.unq cfg.matcher d args).bind (conv (name :: active)))

/-- `convertFilterExpr` inside a group, `n` nested helper expansions allowed -/
def convertM (cfg : Cfg) (fs : List MacroDef) : Nat → List String → CExpr → CRes IR.FilterExpr
  | 0, active, e => convertG (hookOf cfg fs active fun _ _ => .panic .stack) cfg.ar e
  | n + 1, active, e => convertG (hookOf cfg fs active (convertM cfg fs n)) cfg.ar e

/-! ## `convertRuleExpr`: the chain walk -/

def emptyChain (line : Nat) : Chain :=
  { line := line, matchArgs := none, matchCommentArgs := none, whereArgs := none, suggestArgs := none,
    reportArgs := none, atArgs := none, doArgs := none }

def exprs (args : List (Nat × CExpr)) : List CExpr := args.map (·.2)

/-- the `switch chain.Sel.Name` of the walk -/
def link (c : Chain) (name : String) (args : List (Nat × CExpr)) : CRes Chain :=
  if name == "Match" then
    (if c.matchArgs.isSome then .err                  -- "Match() can't be repeated"
     else if c.matchCommentArgs.isSome then .err      -- "Match() and MatchComment() can't be combined"
     else .ok { c with matchArgs := some args })
  else if name == "MatchComment" then
    (if c.matchCommentArgs.isSome then .err
     else if c.matchArgs.isSome then .err
     else .ok { c with matchCommentArgs := some args })
  else if name == "Where" then
    (if c.whereArgs.isSome then .err else .ok { c with whereArgs := some (exprs args) })
  else if name == "Suggest" then
    (if c.suggestArgs.isSome then .err else .ok { c with suggestArgs := some (exprs args) })
  else if name == "Report" then
    (if c.reportArgs.isSome then .err else .ok { c with reportArgs := some (exprs args) })
  else if name == "Do" then .ok { c with doArgs := some (exprs args) }     -- no check: the innermost Do() wins
  else if name == "At" then
    (if c.atArgs.isSome then .err else .ok { c with atArgs := some (exprs args) })
  else .err                                           -- "unexpected %s method"

/-- the `for` loop of `convertRuleExpr`, entered with `call` -/
def walk : Chain → RExpr → CRes Chain
  | c, .call (.sel x name) args =>
    (link c name args).bind fun c' =>
      if x.isCall then walk c' x        -- call, ok = chain.X.(*ast.CallExpr)
      else .ok c'
  | c, _ => .ok c                       -- chain, ok := call.Fun.(*ast.SelectorExpr); !ok

/-- `convertRuleExpr` -/
def ruleExpr (dec : Bytes → String) (cfg : Cfg) (fuel : Nat) (fs : List MacroDef) (line : Nat) (call : RExpr) :
    CRes Loader.Rule :=
  (walk (emptyChain line) call).bind fun c => convertRuleW (convertM cfg fs fuel []) cfg.ar dec c

/-! ## `convertRuleGroup`: the statement loop -/

/-- `localDefine` -/
def localDefine : List Lhs → List Rhs → CRes MacroDef
  | [l], [r] =>
    (match l with
     | .other => .err                                  -- "only simple ident lhs is supported"
     | .ident name =>
       match r with
       | .other => .err                                -- "only func literals are supported on the rhs"
       | .funcLit isBool params body =>
         if !isBool then .err                          -- "only funcs returning bool are supported"
         else match body with
           | [s] =>
             (match s with
              | .other => .err                         -- "expected a return statement, found %T"
              | .ret [e] => .ok ⟨name, params, e⟩
              | .ret _ => .err)                        -- "expected a return statement with 1 result"
           | _ => .err)                                -- "only simple 1 return statement funcs are supported"
  | _, _ => .err                                       -- "multi-value := is not supported"

/-- `matcherMethodName` -/
def matcherMethodName (matcher : String) : RExpr → String
  | .call (.sel (.ident id) name) _ => if id == matcher then name else ""
  | _ => ""

/-- `doMatcherImport`: `conv.parseStringArg(call.Args[0])` -/
def doImport : RExpr → CRes Bytes
  | .call _ ((_, a) :: _) => parseStringArg a
  | .call _ [] => .panic .index
  | _ => .err

/-- the statement loop; `cr` = what is done with a rule statement under the helpers recorded so far.
Result: the imported paths and the rules, in order. -/
def stmtLoopG {ρ : Type} (matcher : String) (cr : List MacroDef → Nat → RExpr → CRes ρ) :
    List MacroDef → Bool → List Stmt → CRes (List Bytes × List ρ)
  | _, _, [] => .ok ([], [])
  | fs, seen, .assign true lhs rhs :: rest =>
    (localDefine lhs rhs).bind fun d => stmtLoopG matcher cr (fs ++ [d]) seen rest
  | fs, seen, .decl :: rest => stmtLoopG matcher cr fs seen rest
  | fs, seen, .expr line x :: rest =>
    if !x.isCall then .err                             -- "expected a %s method call, found %s"
    else if matcherMethodName matcher x == "Import" then
      (if seen then .err                               -- "Import() should be used before any rules definitions"
       else (doImport x).bind fun p =>
         (stmtLoopG matcher cr fs seen rest).bind fun out => .ok (p :: out.1, out.2))
    else
      (cr fs line x).bind fun r =>
        (stmtLoopG matcher cr fs true rest).bind fun out => .ok (out.1, r :: out.2)
  | _, _, .assign false _ _ :: _ => .err               -- "expected a %s method call, found %s"
  | _, _, .other :: _ => .err

/-! ### the loop as C18's model of helper definitions sees it -/

/-- the names of the bare-identifier calls anywhere in a statement's expression (what `MacroLit.Stmt.rule` lists) -/
def rcalls : RExpr → List String
  | .call f args => (match f with | .ident n => [n] | _ => []) ++ (rcalls f ++ callNamesL (exprs args))
  | .sel x _ => rcalls x
  | .ident _ => []
  | .other => []

/-- a statement as `MacroLit.groupLoop` classifies it (an `Import` statement defines nothing and calls no helper) -/
def toMacroStmt (matcher : String) : Stmt → MacroLit.Stmt
  | .assign true l r => (match localDefine l r with | .ok d => .define d.name d.params d.body | _ => .defineBad)
  | .assign false _ _ => .other
  | .decl => .decl
  | .expr _ x =>
    if !x.isCall then .other
    else if matcherMethodName matcher x == "Import" then .decl
    else .rule (rcalls x)
  | .other => .other

/-- the rule "conversion" that only resolves the called names: with it the statement loop is `MacroLit.groupLoop` -/
def resolveCalls (fs : List MacroDef) (_line : Nat) (x : RExpr) : CRes (List (Option MacroDef)) :=
  .ok ((rcalls x).map (findMacro fs))

/-! ## `convertDocComments` -/

def docPrefix : Bytes := [47, 47, 100, 111, 99, 58]                      -- "//doc:"
def pTags : Bytes := [116, 97, 103, 115]
def pSummary : Bytes := [115, 117, 109, 109, 97, 114, 121]
def pBefore : Bytes := [98, 101, 102, 111, 114, 101]
def pAfter : Bytes := [97, 102, 116, 101, 114]
def pNote : Bytes := [110, 111, 116, 101]
def knownPragmas : List Bytes := [pTags, pSummary, pBefore, pAfter, pNote]
/-- the cases of the final `switch pragma` -/
def handledPragmas : List Bytes := [pSummary, pBefore, pAfter, pNote, pTags]

def hasPrefix (s p : Bytes) : Bool := s.take p.length == p
def trimPrefix (s p : Bytes) : Bytes := if hasPrefix s p then s.drop p.length else s

/-- one comment of the doc group: `none` = not a `//doc:` line, otherwise the pragma and the text after it
(before `strings.TrimSpace` / `strings.Fields`) -/
def docComment (text : Bytes) : CRes (Option (Bytes × Bytes)) :=
  if !hasPrefix text docPrefix then .ok none
  else
    let s := trimPrefix text docPrefix
    match knownPragmas.find? (hasPrefix s) with
    | none => .err                                     -- "unrecognized 'doc' pragma in comment"
    | some pragma =>
      if handledPragmas.contains pragma then .ok (some (pragma, trimPrefix s pragma))
      else .panic .explicit                            -- panic("unhandled 'doc' pragma: " + pragma)

def docComments : List Bytes → CRes (List (Bytes × Bytes))
  | [] => .ok []
  | t :: ts => (docComment t).bind fun d => (docComments ts).bind fun ds =>
      .ok (match d with | some x => x :: ds | none => ds)

/-! ## a rule group -/

structure Group where
  line : Nat                          -- of decl.Name
  name : String
  paramNames : List String            -- decl.Type.Params.List[0].Names
  doc : Option (List Bytes)           -- decl.Doc: the text of each comment
  body : List Stmt

structure GroupOut where
  group : Loader.Group
  imports : List Bytes                -- group.Imports[i].Path (Name = path.Base(Path))
  docs : List (Bytes × Bytes)

/-- the static part of a `Cfg`: everything but the matcher name -/
structure Env where
  unq : String → Option Bytes
  ar : Bool
  rg : Bool

def Env.cfg (env : Env) (matcher : String) : Cfg := { unq := env.unq, matcher := matcher, ar := env.ar, rg := env.rg }

/-- `convertRuleGroup` -/
def convertGroupM (dec : Bytes → String) (env : Env) (fuel : Nat) (g : Group) : CRes GroupOut :=
  match g.paramNames with
  | [] => .err                                         -- "the dsl.Matcher parameter should have a name"
  | matcher :: _ =>
    (match g.doc with
     | none => CRes.ok []
     | some cs => docComments cs).bind fun docs =>
    (stmtLoopG matcher (ruleExpr dec (env.cfg matcher) fuel) [] false g.body).bind fun out =>
      .ok { group := { line := g.line, name := g.name, rules := out.2 }, imports := out.1, docs := docs }

/-! ## `convertInitFunc` -/

/-- what `types.Info.ObjectOf(sel.Sel)` and `.Pkg()` say about a selector argument -/
inductive ObjPkg
  | noObject
  | noPkg                             -- e.g. `err.Error`: a method of the universe's `error`
  | pkg (path : Bytes)

structure IArg where
  e : CExpr
  obj : ObjPkg

inductive IRecv                       -- fn.X
  | ident (name : String)
  | other

inductive IFun                        -- call.Fun
  | sel (x : IRecv) (name : String)
  | other

inductive IStmt
  | call (line : Nat) (fn : IFun) (args : List IArg)   -- an ExprStmt whose X is a call
  | exprOther                                          -- an ExprStmt, X not a call
  | other

structure Bundle where
  line : Nat
  pfx : Bytes
  pkgPath : Bytes

/-- one iteration of the loop of `convertInitFunc` -/
def initStmt (ifx : Bool) (dslName : String) : IStmt → CRes Bundle
  | .other => .err                                     -- "unsupported statement"
  | .exprOther => .err                                 -- "unsupported expr"
  | .call line fn args =>
    match fn with
    | .other => .err                                   -- "unsupported call"
    | .sel x name =>
      match x with
      | .other => .err
      | .ident pkg =>
        if pkg != dslName then .err
        else if name == "ImportRules" then
          (if ifx && args.length != 2 then .err else
           match args with
           | [] => .panic .index                       -- call.Args[0]
           | a0 :: rest =>
             (parseStringArg a0.e).bind fun pfx =>
               match rest with
               | [] => .panic .index                   -- call.Args[1]
               | a1 :: _ =>
                 match a1.e with
                 | .sel _ _ _ =>
                   (match a1.obj with
                    | .pkg p => .ok ⟨line, pfx, p⟩
                    | _ => if ifx then .err else .panic .nilDeref)   -- bundleObj.Pkg().Path()
                 | _ => .err)                          -- "expected a `pkgname.Bundle` argument"
        else .err                                      -- "unsupported %s call"

/-! ## `ConvertFile` -/

structure Imp where
  name : Option String                -- imp.Name
  path : Option Bytes                 -- strconv.Unquote(imp.Path.Value); none = error

/-- "github.com/quasilyte/go-ruleguard/dsl" -/
def dslPath : Bytes :=
  [103, 105, 116, 104, 117, 98, 46, 99, 111, 109, 47, 113, 117, 97, 115, 105, 108, 121, 116, 101, 47, 103, 111, 45, 114, 117, 108, 101, 103, 117, 97, 114, 100, 47, 100, 115, 108]

/-- the import loop: the local name of the dsl package -/
def dslPkgname : String → List Imp → CRes String
  | cur, [] => .ok cur
  | cur, i :: is =>
    match i.path with
    | none => .err
    | some p => dslPkgname (if p == dslPath then (match i.name with | some n => n | none => cur) else cur) is

/-- a declaration after go/types has classified it -/
inductive Decl
  | gen                               -- *ast.GenDecl (imports skipped, the others copied to CustomDecls)
  | bodyless                          -- a FuncDecl without a body
  | init (body : List IStmt)          -- a FuncDecl named `init`
  | group (g : Group)                 -- isMatcherFunc
  | custom                            -- any other FuncDecl

structure SrcFile where
  imports : List Imp
  decls : List Decl

structure FileOut where
  file : Loader.File
  groups : List GroupOut
  bundles : List Bundle

def declLoop (dec : Bytes → String) (env : Env) (ifx : Bool) (fuel : Nat) (dslName : String) :
    List Decl → CRes (List GroupOut × List Bundle)
  | [] => .ok ([], [])
  | .gen :: ds => declLoop dec env ifx fuel dslName ds
  | .bodyless :: _ => .err
  | .init body :: ds =>
    (seqC (initStmt ifx dslName) body).bind fun bs =>
      (declLoop dec env ifx fuel dslName ds).bind fun out => .ok (out.1, bs ++ out.2)
  | .group g :: ds =>
    (convertGroupM dec env fuel g).bind fun go =>
      (declLoop dec env ifx fuel dslName ds).bind fun out => .ok (go :: out.1, out.2)
  | .custom :: ds => declLoop dec env ifx fuel dslName ds

/-- `ConvertFile` -/
def convertFileM (dec : Bytes → String) (env : Env) (ifx : Bool) (fuel : Nat) (f : SrcFile) : CRes FileOut :=
  (dslPkgname "dsl" f.imports).bind fun dslName =>
    (declLoop dec env ifx fuel dslName f.decls).bind fun out =>
      .ok { file := ⟨out.1.map (·.group)⟩, groups := out.1, bundles := out.2 }

/-! ## the conditions under which the code as it is does not crash -/

/-- a call with at least one argument -/
def RExpr.hasArg : RExpr → Bool
  | .call _ (_ :: _) => true
  | _ => false

/-- go/types: `m.Import` on the `dsl.Matcher` parameter (which nothing at the top level of the body can shadow)
has exactly one argument.  The converter does not check it (`call.Args[0]`). -/
def importTyped (matcher : String) : List Stmt → Bool
  | [] => true
  | .expr _ x :: rest => (if matcherMethodName matcher x == "Import" then x.hasArg else true) && importTyped matcher rest
  | _ :: rest => importTyped matcher rest

mutual
/-- the names a helper body calls as bare identifiers -/
def gcallNames : GExpr → List String
  | .call f as => (match f with | .ident n => [n] | _ => []) ++ (gcallNames f ++ gcallNamesL as)
  | .paren x => gcallNames x
  | .sel x _ => gcallNames x
  | .index x i => gcallNames x ++ gcallNames i
  | .unary _ x => gcallNames x
  | .binary _ x y => gcallNames x ++ gcallNames y
  | .ident _ => []
  | .lit _ _ => []
def gcallNamesL : List GExpr → List String
  | [] => []
  | a :: as => gcallNames a ++ gcallNamesL as
end

/-- position of the helper `findLocalMacro` answers with -/
def idxOf (fs : List MacroDef) (name : String) : Option Nat := fs.findIdx? (fun f => f.name == name)

/-- every call in a helper's body that names a helper names one recorded *earlier*, and never a parameter -/
def acyclicAt (fs : List MacroDef) : Bool :=
  (List.range fs.length).all fun j =>
    match fs[j]? with
    | none => true
    | some d =>
      (gcallNames d.body).all fun n =>
        !d.params.contains n &&
        (match idxOf fs n with
         | none => true
         | some j' => decide (j' < j))

/-- `acyclicAt` for every helper table a rule statement of the body is converted with -/
def acyclicBody : List MacroDef → List Stmt → Bool
  | _, [] => true
  | fs, .assign true lhs rhs :: rest =>
    (match localDefine lhs rhs with
     | .ok d => acyclicBody (fs ++ [d]) rest
     | _ => true)
  | fs, .expr _ _ :: rest => acyclicAt fs && acyclicBody fs rest
  | fs, .decl :: rest => acyclicBody fs rest
  | _, _ :: _ => true                                  -- the loop ends here with an error

/-- `importTyped` / `acyclicBody` of a group (its matcher name is the first name of the parameter) -/
def Group.importTyped (g : Group) : Bool :=
  match g.paramNames with
  | [] => true
  | m :: _ => Grp.importTyped m g.body
def Group.acyclic (g : Group) : Bool := acyclicBody [] g.body

/-- at least two arguments, and a selector in the second place has an object with a package -/
def importRulesSafe : List IArg → Bool
  | _ :: a1 :: _ =>
    (match a1.e with
     | .sel _ _ _ => (match a1.obj with | .pkg _ => true | _ => false)
     | _ => true)
  | _ => false

/-- what `dsl.ImportRules` being the dsl's function gives (go/types: two arguments, the second of type
`dsl.Bundle`, so a selector among them selects a declared object).  Nothing in the converter checks that `dsl`
is the package — it goes by the identifier's name. -/
def initSafe (dslName : String) : List IStmt → Bool
  | [] => true
  | .call _ (.sel (.ident pkg) name) args :: rest =>
    (if pkg == dslName && name == "ImportRules" then importRulesSafe args else true) && initSafe dslName rest
  | _ :: rest => initSafe dslName rest

end Grp
