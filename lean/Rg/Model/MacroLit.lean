import Rg.Model.IRConv
import Rg.Model.Macro
/-!
# Model of the `types.Info` patch of `irconv.go:expandMacro` and of the statement loop of `convertRuleGroup`

`astcopy.Expr` gives the helper's body fresh nodes that `types.Info` knows nothing about; `expandMacro`
re-creates the constant value of every copied **basic literal** from its source text:

* `STRING` — `strconv.Unquote` (trusted; its result is an input here);
* `INT`    — `strconv.ParseInt(lit.Value, 0, 64)`, transcribed below (`parseInt0`: sign, base prefix
  detection of `ParseUint` with base 0, the digit loop with its cutoff / overflow checks, `underscoreOK`);
* `FLOAT`  — `strconv.ParseFloat`: a Float constant, which `convertFilterExprImpl` never folds;
* `CHAR`, `IMAG` — no entry.

A failed parse leaves the literal without an entry (`CV.none`): the expansion is then rejected by
`convertFilterExpr` ("unsupported expr"), which C18 allows.  Text is a list of byte values (`Nat`).

The second half is the statement loop of `convertRuleGroup` together with `findLocalMacro`: which
statements define a helper, which are skipped, which are refused, and which definition a call sees.
-/
namespace MacroLit
open Conv

/-- `strconv.lower`: `c | ('x' - 'X')` -/
def lower (c : Nat) : Nat := c ||| 32

/-- the digit classification of the loop of `ParseUint` (after the `_` case) -/
def digitOf (c : Nat) : Option Nat :=
  if 48 ≤ c ∧ c ≤ 57 then some (c - 48)
  else if 97 ≤ lower c ∧ lower c ≤ 122 then some (lower c - 97 + 10)
  else none

def maxU64 : Nat := 2 ^ 64 - 1

/-- the loop of `ParseUint` with `base0 = true`; `none` = syntax or range error.  `n < cutoff`
guarantees that `n * base` does not wrap, so the wrap test `n1 < n` of the code is `n * base + d > maxU64`.
The flag says whether an underscore was seen. -/
def uloop (base cutoff : Nat) : List Nat → Nat → Bool → Option (Nat × Bool)
  | [], n, us => some (n, us)
  | c :: cs, n, us =>
    if c = 95 then uloop base cutoff cs n true
    else match digitOf c with
      | none => none
      | some d =>
        if d ≥ base then none
        else if n ≥ cutoff then none
        else if n * base + d > maxU64 then none
        else uloop base cutoff cs (n * base + d) us

/-- `strconv.underscoreOK`'s loop; `saw`: 0 = `^` (beginning), 1 = `0` (digit), 2 = `_`, 3 = `!` (anything else) -/
def usLoop (hex : Bool) : List Nat → Nat → Bool
  | [], saw => saw != 2
  | c :: cs, saw =>
    if (48 ≤ c ∧ c ≤ 57) ∨ (hex = true ∧ 97 ≤ lower c ∧ lower c ≤ 102) then usLoop hex cs 1
    else if c = 95 then (if saw != 1 then false else usLoop hex cs 2)
    else if saw = 2 then false
    else usLoop hex cs 3

def stripSign : List Nat → List Nat
  | c :: r => if c = 45 ∨ c = 43 then r else c :: r
  | [] => []

def isPrefixLetter (c : Nat) : Bool := lower c = 98 ∨ lower c = 111 ∨ lower c = 120

/-- `strconv.underscoreOK` -/
def underscoreOK (s0 : List Nat) : Bool :=
  match stripSign s0 with
  | c0 :: c1 :: r =>
    if c0 = 48 ∧ isPrefixLetter c1 = true then usLoop (decide (lower c1 = 120)) r 1
    else usLoop false (c0 :: c1 :: r) 0
  | s => usLoop false s 0

/-- base detection of `ParseUint(s, 0, …)`: `len(s) >= 3 && lower(s[1]) == 'b'|'o'|'x'` after a leading `0`,
otherwise a leading `0` alone means octal, otherwise decimal -/
def splitBase : List Nat → Nat × List Nat
  | c0 :: c1 :: c2 :: r =>
    if c0 = 48 then
      if lower c1 = 98 then (2, c2 :: r) else if lower c1 = 111 then (8, c2 :: r)
      else if lower c1 = 120 then (16, c2 :: r) else (8, c1 :: c2 :: r)
    else (10, c0 :: c1 :: c2 :: r)
  | c0 :: r => if c0 = 48 then (8, r) else (10, c0 :: r)
  | [] => (10, [])

/-- `strconv.ParseUint(s, 0, 64)`; every error is `none` -/
def parseUint0 (s : List Nat) : Option Nat :=
  match s with
  | [] => none
  | _ =>
    let bb := splitBase s
    match uloop bb.1 (maxU64 / bb.1 + 1) bb.2 0 false with
    | none => none
    | some (n, us) => if us && !underscoreOK s then none else some n

/-- `strconv.ParseInt(s, 0, 64)`; every error (syntax, range) is `none` -/
def parseInt0 (s : List Nat) : Option Int :=
  match s with
  | [] => none
  | c :: r =>
    if c = 43 then (match parseUint0 r with
      | some un => if un ≥ 2 ^ 63 then none else some (Int.ofNat un)
      | none => none)
    else if c = 45 then (match parseUint0 r with
      | some un => if un > 2 ^ 63 then none else some (- Int.ofNat un)
      | none => none)
    else (match parseUint0 (c :: r) with
      | some un => if un ≥ 2 ^ 63 then none else some (Int.ofNat un)
      | none => none)

/-- the `types.Info` entry `expandMacro` re-creates for a copied basic literal of the given token kind -/
def retype (kind : String) (text : List Nat) (unq : Option Bytes) : CV :=
  if kind == "STRING" then (match unq with | some s => .str s | none => .none)
  else if kind == "INT" then (match parseInt0 text with | some n => .int n | none => .none)
  else if kind == "FLOAT" then .other
  else .none

/-! ## the statement loop of `convertRuleGroup` -/

inductive Stmt
  | define (name : String) (params : List String) (body : Macro.GExpr)  -- `name := func(params) bool { return body }`, accepted by `localDefine`
  | defineBad            -- any other `:=` (several names, not a func literal, not one `return` of a bool …): `localDefine` refuses
  | assign (name : String) (params : List String) (body : Macro.GExpr)  -- `name = func(params) bool { return body }`
  | decl                 -- `*ast.DeclStmt` (`var …`, `const …`, `type …`): skipped
  | rule (calls : List String)   -- an expression statement that is a call: a rule; the helper names its Where calls
  | other                -- anything else (plain `=`, blocks, `if`, …): "expected a m method call"
deriving Repr

structure MacroDef where
  name : String
  params : List String
  body : Macro.GExpr
deriving Repr, DecidableEq

/-- `findLocalMacro`: the first recorded helper of that name -/
def findMacro (fs : List MacroDef) (name : String) : Option MacroDef := fs.find? (fun f => f.name == name)

/-- the statement loop: for every rule, in order, the definition each called name resolves to
(`none` = not a helper: the call is converted as a DSL call); `none` as a whole = the group is refused -/
def groupLoop : List MacroDef → List Stmt → Option (List (List (Option MacroDef)))
  | _, [] => some []
  | fs, .define n ps b :: rest => groupLoop (fs ++ [⟨n, ps, b⟩]) rest
  | _, .defineBad :: _ => none
  | _, .assign _ _ _ :: _ => none          -- `assign.Tok == token.DEFINE` is false: falls through to "expected a … method call"
  | fs, .decl :: rest => groupLoop fs rest
  | fs, .rule calls :: rest =>
    match groupLoop fs rest with
    | some out => some (calls.map (findMacro fs) :: out)
    | none => none
  | _, .other :: _ => none

/-- Go's meaning: the value a function variable has when the rule statement is reached — the latest
`:=` or `=` of that name before it (one flat scope: blocks are `other`) -/
def goBinding : List Stmt → String → Option MacroDef
  | [], _ => none
  | .define n ps b :: rest, name =>
    (match goBinding rest name with
     | some d => some d
     | none => if n == name then some ⟨n, ps, b⟩ else none)
  | .assign n ps b :: rest, name =>
    (match goBinding rest name with
     | some d => some d
     | none => if n == name then some ⟨n, ps, b⟩ else none)
  | _ :: rest, name => goBinding rest name

/-- Go's meaning of the whole group: for every rule, in order, the binding of each called name when the
rule statement is reached (`pre` = the statements already executed) -/
def goGroup : List Stmt → List Stmt → List (List (Option MacroDef))
  | _, [] => []
  | pre, .rule calls :: rest => calls.map (goBinding pre) :: goGroup (pre ++ [.rule calls]) rest
  | pre, .define n ps b :: rest => goGroup (pre ++ [.define n ps b]) rest
  | pre, .defineBad :: rest => goGroup (pre ++ [.defineBad]) rest
  | pre, .assign n ps b :: rest => goGroup (pre ++ [.assign n ps b]) rest
  | pre, .decl :: rest => goGroup (pre ++ [.decl]) rest
  | pre, .other :: rest => goGroup (pre ++ [.other]) rest

/-- what the loop would do if a plain `=` were recorded like `:=` (it is not: see `groupLoop`) -/
def groupLoopCapturingAssign : List MacroDef → List Stmt → Option (List (List (Option MacroDef)))
  | _, [] => some []
  | fs, .define n ps b :: rest => groupLoopCapturingAssign (fs ++ [⟨n, ps, b⟩]) rest
  | _, .defineBad :: _ => none
  | fs, .assign n ps b :: rest => groupLoopCapturingAssign (fs ++ [⟨n, ps, b⟩]) rest
  | fs, .decl :: rest => groupLoopCapturingAssign fs rest
  | fs, .rule calls :: rest =>
    match groupLoopCapturingAssign fs rest with
    | some out => some (calls.map (findMacro fs) :: out)
    | none => none
  | _, .other :: _ => none

end MacroLit
