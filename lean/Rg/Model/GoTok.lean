import Rg.Base
/-!
# Go tokens (the subset of `go/token` that a printed IR literal consists of)

String literals carry their *unquoted* value (so `strconv.Quote`/`Unquote` stay trusted), integer
literals their value; automatically inserted semicolons are not tokens here.
-/

inductive GTok
  | ident (s : String)
  | str (b : Bytes)
  | int (n : Nat)
  | lbrace | rbrace | lbrack | rbrack | lparen | rparen
  | colon | comma | dot | sub
  | other (s : String)     -- any other go/scanner token (never printed; the evaluator rejects it)
deriving DecidableEq, Repr
