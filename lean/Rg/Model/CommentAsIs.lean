import Rg.Base
import Rg.Model.Trunc
import Rg.Model.Regex
/-!
# The comment-rule runner AS IT WAS before `fixes/c12-cr-offsets.diff`

Verbatim copy of the model of `runner.go:runCommentRules` / `handleCommentMatch` / `nodeText` of the
unrepaired code: a submatch index into `ast.Comment.Text` is used as a byte distance from the comment's
start in the file, a node's end is its start plus the length of its text, and node texts are read from
the file when it is readable.  False in files with CRLF line endings (go/scanner strips the carriage
returns from the comment text): kept for `C12.cr_counterexample` and for the driver variant `crasis`.
The model of the code as it stands is `Rg/Model/Comment.lean`.
-/
namespace CMAsIs
open Rx

structure Node where
  pos : Nat
  text : Bytes
deriving DecidableEq, Repr

def Node.endPos (n : Node) : Nat := n.pos + n.text.length

structure Cap where
  name : Bytes
  node : Node
deriving DecidableEq, Repr

/-- `matchData` of a comment match -/
structure MatchD where
  node : Node
  caps : List Cap
deriving DecidableEq, Repr

inductive Atom
  | textEq (var lit : Bytes)     -- m[var].Text == lit
  | textNe (var lit : Bytes)     -- m[var].Text != lit
deriving DecidableEq, Repr

/-- one `goCommentRule` (one MatchComment alternative) together with the regexp's answers for the
comment at hand -/
structure CRule where
  captureGroups : Bool             -- regexpHasCaptureGroups(src), computed at load time
  names : List Bytes               -- pat.SubexpNames()
  sub : Option (List Int)          -- pat.FindStringSubmatchIndex(comment.Text)
  idx : Option (Int × Int)         -- pat.FindStringIndex(comment.Text)
  filter : Option (List Atom)      -- Where(a && b && …); none = no Where
  msg : Bytes                      -- base.msg
  location : Bytes                 -- base.location (At)
  suggestion : Bytes               -- base.suggestion
  line : Int                       -- base.line as loaded (the rule's line)
  altLine : Int                    -- the line of this alternative (what `resultBase.line` holds)
deriving Repr

structure Report where
  rule : Nat                       -- index in commentRules
  line : Int                       -- RuleInfo.Line
  node : Option Node               -- ReportData.Node (none = nil interface)
  msg : Bytes
  sugg : Option (Nat × Nat × Bytes)  -- From, To, Replacement
deriving DecidableEq, Repr

/-- `token.File.Pos(x)` as an offset: clamped into the file (`fixOffset`) -/
def filePos (size : Nat) (x : Int) : Nat :=
  if x < 0 then 0 else if x > (size : Int) then size else x.toNat

/-- `Fset.Position(file.Pos(base+p)).Offset`: a position past the file's end belongs to no file → 0 -/
def offsetOf (size : Nat) (p : Nat) : Nat := if p ≤ size then p else 0

/-- `rr.nodeText(n)` for an `*ast.Comment` -/
def nodeText (src : Bytes) (size : Nat) (n : Node) : Res Bytes :=
  let frm := offsetOf size n.pos
  let to := offsetOf size n.endPos
  if frm < src.length ∧ to ≤ src.length then goSlice src frm to else .ok n.text

def dollar : UInt8 := 36
def dollarDollar : Bytes := [36, 36]

/-- `sort.Slice(capture, len(name_i) > len(name_j))` (insertion sort, as the runtime does up to 12 elements) -/
def insertByLen (c : Cap) : List Cap → List Cap
  | [] => [c]
  | d :: ds => if d.name.length < c.name.length then c :: d :: ds else d :: insertByLen c ds
def sortCaps (l : List Cap) : List Cap := l.foldl (fun acc c => insertByLen c acc) []

/-- text substituted for a node: `nodeText`, then `truncateText` when `truncate` -/
def substText (src : Bytes) (size : Nat) (truncate : Bool) (cfg : Int) (n : Node) : Res Bytes :=
  (nodeText src size n).bind fun t => interp truncate t cfg

/-- the interpolation loop of `renderMessage`; `skip` = bytes of a variable name still to jump over -/
def renderLoop (src : Bytes) (size : Nat) (truncate : Bool) (cfg : Int) (m : MatchD) (caps : List Cap) :
    Nat → Bytes → Res Bytes
  | _, [] => .ok []
  | skip + 1, _ :: rest => renderLoop src size truncate cfg m caps skip rest
  | 0, b :: rest =>
    if b = dollar then
      if [dollar].isPrefixOf rest then
        (substText src size truncate cfg m.node).bind fun t =>
          (renderLoop src size truncate cfg m caps 1 rest).bind fun r => .ok (t ++ r)
      else
        match caps.find? (fun c => c.name.isPrefixOf rest) with
        | some c =>
          (substText src size truncate cfg c.node).bind fun t =>
            (renderLoop src size truncate cfg m caps c.name.length rest).bind fun r => .ok (t ++ r)
        | none => (renderLoop src size truncate cfg m caps 0 rest).bind fun r => .ok (dollar :: r)
    else (renderLoop src size truncate cfg m caps 0 rest).bind fun r => .ok (b :: r)

/-- `rr.renderMessage(msg, m, truncate)` -/
def renderMessage (src : Bytes) (size : Nat) (cfg : Int) (msg : Bytes) (m : MatchD) (truncate : Bool) : Res Bytes :=
  if !msg.contains dollar then .ok msg else
  renderLoop src size truncate cfg m (if m.caps.length > 1 then sortCaps m.caps else m.caps) 0 msg

/-- `m.CapturedByName(name)` (gogrep: `$$` is the whole match, otherwise the first capture of that name) -/
def capturedByName (m : MatchD) (name : Bytes) : Option Node :=
  if name = dollarDollar then some m.node else (m.caps.find? (fun c => c.name = name)).map (·.node)

/-- the named-group loop of `runCommentRules` -/
def capsLoop (size off : Nat) (text : Bytes) (result : List Int) : Nat → List Bytes → Res (List Cap)
  | _, [] => .ok []
  | i, name :: rest =>
    if i = 0 ∨ name = [] then capsLoop size off text result (i + 1) rest else
    match result[2 * i]?, result[2 * i + 1]? with
    | some b, some e =>
      if b < 0 ∨ e < 0 then
        (capsLoop size off text result (i + 1) rest).bind fun cs => .ok (⟨name, ⟨off, []⟩⟩ :: cs)
      else
        (goSlice text b e).bind fun t =>
          (capsLoop size off text result (i + 1) rest).bind fun cs =>
            .ok (⟨name, ⟨filePos size (b + off), t⟩⟩ :: cs)
    | _, _ => .panic .index

/-- `&ast.Comment{Slash: file.Pos(lo + off), Text: comment.Text[lo:hi]}` -/
def mkNode (size off : Nat) (text : Bytes) (lo hi : Int) : Res Node :=
  (goSlice text lo hi).bind fun t => .ok ⟨filePos size (lo + off), t⟩

/-- the match data `runCommentRules` builds for one rule; `none` = the regexp does not match (`continue`) -/
def buildMatch (size off : Nat) (text : Bytes) (r : CRule) : Res (Option MatchD) :=
  if r.captureGroups then
    match r.sub with
    | none => .ok none
    | some result =>
      (capsLoop size off text result 0 r.names).bind fun caps =>
        match result[0]?, result[1]? with
        | some lo, some hi => (mkNode size off text lo hi).bind fun n => .ok (some ⟨n, caps⟩)
        | _, _ => .panic .index
  else
    match r.idx with
    | none => .ok none
    | some (lo, hi) => (mkNode size off text lo hi).bind fun n => .ok (some ⟨n, []⟩)

def evalFilter (src : Bytes) (size : Nat) (m : MatchD) : List Atom → Res Bool
  | [] => .ok true
  | a :: rest =>
    let (var, lit, wantEq) := match a with | .textEq v l => (v, l, true) | .textNe v l => (v, l, false)
    match capturedByName m var with
    | none => .panic .nilDeref            -- nodeText(nil)
    | some n =>
      (nodeText src size n).bind fun t =>
        if (t == lit) == wantEq then evalFilter src size m rest else .ok false

/-- `if rule.base.filter.fn != nil { … }`: does the filter let the match through -/
def filterResult (src : Bytes) (size : Nat) (m : MatchD) (r : CRule) : Res Bool :=
  match r.filter with
  | none => .ok true
  | some atoms => evalFilter src size m atoms

/-- `node := m.Node(); if location != "" { node, _ = m.CapturedByName(location) }` (none = nil interface) -/
def reportNode (m : MatchD) (r : CRule) : Option Node :=
  if r.location ≠ [] then capturedByName m r.location else some m.node

/-- the `Suggestion` literal: the replacement is rendered, then `node.Pos()`/`node.End()` are taken -/
def suggestionOf (src : Bytes) (size : Nat) (cfg : Int) (m : MatchD) (r : CRule) : Res (Option (Nat × Nat × Bytes)) :=
  if r.suggestion ≠ [] then
    (renderMessage src size cfg r.suggestion m false).bind fun repl =>
      match reportNode m r with
      | none => .panic .nilDeref         -- node.Pos() on a nil interface
      | some n => .ok (some (n.pos, n.endPos, repl))
  else .ok none

/-- `rr.handleCommentMatch(rule, m)`; `none` = rejected by the filter.  `useAltLine` selects the
variant after `fixes/comment-rule-line.diff` (`base: resultBase`). -/
def handleCommentMatch (useAltLine : Bool) (src : Bytes) (size : Nat) (cfg : Int) (k : Nat) (r : CRule) (m : MatchD) :
    Res (Option Report) :=
  (filterResult src size m r).bind fun ok =>
  if !ok then .ok none else
  (renderMessage src size cfg r.msg m true).bind fun message =>
  (suggestionOf src size cfg m r).bind fun sugg =>
  .ok (some ⟨k, if useAltLine then r.altLine else r.line, reportNode m r, message, sugg⟩)

/-- `rr.runCommentRules(comment)`: the first rule that matches and accepts reports; the rest is skipped -/
def runFrom (useAltLine : Bool) (src : Bytes) (size : Nat) (cfg : Int) (off : Nat) (text : Bytes) :
    Nat → List CRule → Res (Option Report)
  | _, [] => .ok none
  | k, r :: rest =>
    (buildMatch size off text r).bind fun om =>
      match om with
      | none => runFrom useAltLine src size cfg off text (k + 1) rest
      | some m =>
        (handleCommentMatch useAltLine src size cfg k r m).bind fun rep =>
          match rep with
          | some x => .ok (some x)
          | none => runFrom useAltLine src size cfg off text (k + 1) rest

def runCommentRules (useAltLine : Bool) (src : Bytes) (size : Nat) (cfg : Int) (off : Nat) (text : Bytes)
    (rules : List CRule) : Res (Option Report) :=
  runFrom useAltLine src size cfg off text 0 rules

end CMAsIs
