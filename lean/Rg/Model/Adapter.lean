import Rg.Base
/-!
# Rg.Model.Adapter — the once-only engine of `analyzer/analyzer.go` as a transition system (C08/C19)

`prepareEngine` under `globalEngineMu`, followed by the *unguarded* uses of `runnerStatePool` (and, inside
the pool's `New` closure, of `globalEngine`) in `runAnalyzer`.  These reads are not under the lock; they
are safe because the variables are written once, inside the critical section in which `globalEngine`
was seen to be nil, and every reader has gone through a later critical section (or is the writer).
State: `e` = globalEngine ≠ nil, `b` = globalEngineErrored, `p` = runnerStatePool assigned.
-/
namespace Adapter

inductive Pc
  | start          -- before globalEngineMu.Lock()
  | locked         -- holds the mutex, about to read globalEngine
  | sawNil         -- globalEngine was nil, about to read globalEngineErrored
  | creating       -- not errored: calling newEngine()
  | writeE         -- newEngine succeeded: about to assign globalEngine
  | writeP         -- about to assign runnerStatePool
  | writeB         -- newEngine failed: about to set globalEngineErrored
  | unlockSome     -- about to Unlock and return the engine
  | unlockNone     -- about to Unlock and return nil
  | usePool (k : Nat)  -- engine in hand: k more unguarded reads of runnerStatePool / globalEngine
  | done
deriving DecidableEq, Repr, Inhabited

def Pc.holdsG : Pc → Bool
  | .locked | .sawNil | .creating | .writeE | .writeP | .writeB | .unlockSome | .unlockNone => true
  | _ => false

def Pc.isUse : Pc → Bool
  | .usePool _ => true
  | _ => false

structure St where
  n : Nat
  e : Bool
  b : Bool
  p : Bool
  pc : Nat → Pc

def anyHoldsG (st : St) : Bool := (List.range st.n).any (fun j => (st.pc j).holdsG)

def enabled (st : St) (i : Nat) : Bool :=
  decide (i < st.n) &&
  match st.pc i with
  | .start => !anyHoldsG st
  | .done => false
  | _ => true

def St.upd (st : St) (i : Nat) (pc' : Pc) (e b p : Bool) : St :=
  { n := st.n, e := e, b := b, p := p, pc := fun k => if k = i then pc' else st.pc k }

/-- one step of thread `i`; `ok` = outcome of `newEngine()`, `k` = how often the caller then touches the pool -/
def fire (ok : Bool) (k : Nat) (st : St) (i : Nat) : St :=
  match st.pc i with
  | .start => st.upd i .locked st.e st.b st.p
  | .locked => st.upd i (if st.e then .unlockSome else .sawNil) st.e st.b st.p
  | .sawNil => st.upd i (if st.b then .unlockNone else .creating) st.e st.b st.p
  | .creating => st.upd i (if ok then .writeE else .writeB) st.e st.b st.p
  | .writeE => st.upd i .writeP true st.b st.p
  | .writeP => st.upd i .unlockSome st.e st.b true
  | .writeB => st.upd i .unlockNone st.e true st.p
  | .unlockSome => st.upd i (.usePool k) st.e st.b st.p
  | .unlockNone => st.upd i .done st.e st.b st.p
  | .usePool (j + 1) => st.upd i (.usePool j) st.e st.b st.p
  | .usePool 0 => st.upd i .done st.e st.b st.p
  | .done => st

inductive Reach (s : St) : St → Prop
  | refl : Reach s s
  | step {s' : St} (ok : Bool) (k i : Nat) : Reach s s' → enabled s' i = true → Reach s (fire ok k s' i)

def init (n : Nat) : St := { n := n, e := false, b := false, p := false, pc := fun _ => .start }

def runSched : St → List (Nat × Bool × Nat) → Option St
  | st, [] => some st
  | st, (i, ok, k) :: r => if enabled st i then runSched (fire ok k st i) r else none

/-- the event lists of `prepareEngine` this model stands for (0 = the mutex; variables: 0 = globalEngine,
1 = globalEngineErrored, 2 = runnerStatePool), duplicates of adjacent events removed -/
inductive Ev | lock | unlock | readE | readB | writeE | writeB | writeP
deriving DecidableEq, Repr

def modelPaths : List (List Ev) := [
  [],                                                          -- ForceNewEngine: no shared state touched
  [.lock, .readE, .unlock],                                    -- engine already there
  [.lock, .readE, .readB, .unlock],                            -- failed before
  [.lock, .readE, .readB, .writeB, .unlock],                   -- fails now
  [.lock, .readE, .readB, .writeE, .writeP, .unlock]           -- created now
]

end Adapter
