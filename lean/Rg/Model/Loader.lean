import Rg.Base
import Rg.Gen.FilterOps
/-!
# Model of the IR-level loader (`ruleguard/ir_loader.go`: LoadFile, loadRuleGroup, loadRule,
loadSyntaxRule, loadCommentRule, newFilter, newBinaryExprFilter) with every partial operation explicit

Input: a mirror of `ir.File`.  Oracle parameters (trusted libraries, answers supplied by the harness
from the real code): gogrep compilation (root tag + variables), typematch / textmatch / regexp
compilation, type-string parsing, interface / method resolution, Go-version parsing, the function
table of the bytecode environment.  Output: `Res (Except LoadErr Loaded)` — a *panic* (index out of
range, failed type assertion), a located *error*, or the accepted rules.

Partial operations of the Go code that are explicit here: `filter.Args[i]`, `filter.Value.(string)`,
`rhs.Value.(int64)`, `rulesByTag[tag]`, `env.userFuncs[id]`.
-/
namespace Loader
open Gen.Op

/-- `FilterExpr.Value interface{}` -/
inductive Val
  | nil
  | str (s : String)
  | int (i : Int)
  | other
deriving Repr, DecidableEq, Inhabited

/-- `ir.FilterExpr` (Src omitted: only used in messages) -/
inductive FE
  | mk (op : Nat) (line : Nat) (value : Val) (args : List FE)
deriving Repr, Inhabited

namespace FE
def op : FE → Nat | mk o _ _ _ => o
def line : FE → Nat | mk _ l _ _ => l
def value : FE → Val | mk _ _ v _ => v
def args : FE → List FE | mk _ _ _ a => a
end FE

structure Pat where
  line : Nat
  value : String
deriving Repr, DecidableEq

structure Rule where
  line : Nat
  syntaxPatterns : List Pat
  commentPatterns : List Pat
  reportTemplate : String
  suggestTemplate : String
  doFuncName : String
  whereExpr : FE
  locationVar : String
deriving Repr

structure Group where
  line : Nat
  name : String
  rules : List Rule
deriving Repr

structure File where
  groups : List Group
deriving Repr

/-- trusted libraries, as functions of their string argument -/
structure Oracles where
  gogrep : String → Option (Nat × List String)   -- none: compile error; (root tag, pattern variables)
  typematchOK : String → Bool                    -- typematch.Parse
  textmatchOK : String → Bool                    -- textmatch.Compile
  regexpOK : String → Bool                       -- regexp.Compile
  regexpGroups : String → List String            -- SubexpNames (non-empty ones)
  strict : Bool                                  -- true: the loader after the `fix:` commits (validates At()/comment-rule variables, GetFunc returns nil); false: as pinned
  typeFromString : String → Nat                  -- 0 ok, 1 parse error, 2 nil type
  nodeTagOK : String → Bool                      -- nodetag.FromString ≠ Unknown
  ifaceOK : String → Bool                        -- unwrapInterfaceExpr resolves
  funcRef : String → Nat                         -- unwrapFuncRefExpr: 0 fn, 1 error, 2 (nil, nil)
  goVersionOK : String → Bool                    -- ParseGoVersion
  funcKnown : String → Bool                      -- nameToFuncID has the key
  numFuncs : Nat                                 -- len(env.userFuncs)
  groupAccepted : String → Bool                  -- ctx.GroupFilter

/-- errors carry the line they are reported at (the file name is the loader's) -/
structure LoadErr where
  line : Nat
  what : String
deriving Repr, DecidableEq

/-- an accepted rule alternative -/
structure Accepted where
  group : String
  line : Nat                 -- line of the alternative
  comment : Bool
  buckets : List Nat
  patternVars : List String
  whereVars : List String
  locationVar : String
deriving Repr, DecidableEq

abbrev LRes (α : Type) := Res (Except LoadErr α)

def lerr {α} (line : Nat) (what : String) : LRes α := .ok (.error ⟨line, what⟩)
def lok {α} (a : α) : LRes α := .ok (.ok a)

def lbind {α β} (x : LRes α) (f : α → LRes β) : LRes β :=
  match x with
  | .panic p => .panic p
  | .ok (.error e) => .ok (.error e)
  | .ok (.ok a) => f a

/-- `filter.Value.(string)` -/
def asString (v : Val) : Res String :=
  match v with
  | .str s => .ok s
  | _ => .panic .typeAssert

/-- `filter.Args[i]` -/
def argAt (args : List FE) (i : Nat) : Res FE :=
  match args[i]? with
  | some a => .ok a
  | none => .panic .index

def flagsOf (op : Nat) : Bool × Bool × Bool := Gen.Op.flags.getD op (false, false, false)
def isBinaryExpr (op : Nat) : Bool := (flagsOf op).1
def isBasicLit (op : Nat) : Bool := (flagsOf op).2.1
def hasVar (op : Nat) : Bool := (flagsOf op).2.2

/-- `unwrapStringExpr`: "" unless the node is a string literal -/
def unwrapString (e : FE) : Res String :=
  if e.op = fString then asString e.value else .ok ""

/-- `env.GetFunc(pkgPath, name)`: a missing key reads id 0 (`userFuncs[0]`) -/
def getFunc (o : Oracles) (name : String) : Res Bool :=
  if o.strict then .ok (o.funcKnown name)                -- after the fix: `id, ok := …; if !ok { return nil }`
  else if o.funcKnown name then .ok true
  else if o.numFuncs = 0 then .panic .index else .ok true

def objectKinds : List String := ["Func", "Var", "Const", "TypeName", "Label", "PkgName", "Builtin", "Nil"]
def basicKinds : List String := ["integer", "unsigned", "float", "complex", "untyped", "numeric"]

/-- which `Line` a located error of a leaf case carries: the filter node's (`l.errorf(filter.Line, …)` in
`newFilter` itself) or its first argument's (the `unwrap…Expr(filter.Args[0])` helpers report at the line of
the expression they are given) — they differ for a call that spans lines and for a helper's expansion -/
inductive ErrAt | node | arg
deriving Repr, DecidableEq

def errLine (w : ErrAt) (e : FE) (argLine : Nat) : Nat :=
  match w with
  | .node => e.line
  | .arg => argLine

/-- first stage of most cases: `s := unwrapStringExpr(filter.Args[0])`, error when empty; answers the
argument's line and the string -/
def stringArg0 (e : FE) (emptyAt : ErrAt) : LRes (Nat × String) :=
  match argAt e.args 0 with
  | .panic p => .panic p
  | .ok a =>
    match unwrapString a with
    | .panic p => .panic p
    | .ok "" => lerr (errLine emptyAt e a.line) "expected a non-empty string argument"
    | .ok s => lok (a.line, s)

/-- which check the `Args[0].Value.(string)` of IdenticalTo / Contains / Filter goes through -/
inductive ArgCheck | identical | contains | filterFn
deriving Repr, DecidableEq

/-- shape of a non-binary case of `newFilter` -/
inductive LeafKind
  | strArg (check : Oracles → String → Option (ErrAt × String)) (needVar : Bool) (emptyAt : ErrAt)
      -- `s := unwrapStringExpr(filter.Args[0])`, error when empty, then `check`, then (needVar) `filter.Value.(string)`
  | varOnly                                    -- constructor takes `filter.Value.(string)` only
  | noArgs                                     -- Deadcode
  | valueStr (check : Oracles → String → Option String)   -- `filter.Value.(string)` is the argument
  | varAndArgValue (check : ArgCheck)
      -- `filter.Value.(string)` and `filter.Args[0].Value.(string)` (IdenticalTo, Contains, Filter)
  | unsupported

def leafKind (op : Nat) : LeafKind :=
  if op = fVarTextMatches then .strArg (fun o s => if o.textmatchOK s then none else some (.arg, "compile regexp")) true .arg
  else if op = fVarObjectIs then .strArg (fun _ s => if objectKinds.contains s then none else some (.node, "not a valid go/types object name")) true .node
  else if op = fRootNodeParentIs then .strArg (fun o s => if o.nodeTagOK s then none else some (.arg, "not a valid go/ast type name")) false .arg
  else if op = fVarNodeIs then .strArg (fun o s => if o.nodeTagOK s then none else some (.arg, "not a valid go/ast type name")) true .arg
  else if op = fRootSinkTypeIs then .strArg (fun o s => if o.typematchOK s then none else some (.node, "parse type expr")) false .node
  else if op = fVarTypeHasPointers then .varOnly
  else if op = fVarTypeOfKind ∨ op = fVarTypeUnderlyingOfKind then
    .strArg (fun _ s => if s = "signed" ∨ s = "int" ∨ s = "uint" ∨ basicKinds.contains s then none else some (.node, "unknown kind")) true .node
  else if op = fVarTypeIdenticalTo then .varAndArgValue .identical
  else if op = fVarTypeIs ∨ op = fVarTypeUnderlyingIs then
    .strArg (fun o s => if o.typematchOK s then none else some (.node, "parse type expr")) true .node
  else if op = fVarTypeConvertibleTo ∨ op = fVarTypeAssignableTo then
    .strArg (fun o s => match o.typeFromString s with
      | 0 => none | 1 => some (.arg, "parse type expr") | _ => some (.arg, "can't convert into a type constraint yet")) true .arg
  else if op = fVarTypeImplements then .strArg (fun o s => if o.ifaceOK s then none else some (.arg, "can't resolve interface")) true .arg
  else if op = fVarTypeHasMethod then
    .strArg (fun o s => match o.funcRef s with
      | 0 => none | 1 => some (.arg, "func ref") | _ => some (.node, "can't resolve HasMethod() argument")) true .arg
  else if op = fVarPure ∨ op = fVarConst ∨ op = fVarObjectIsGlobal ∨ op = fVarObjectIsVariadicParam ∨
      op = fVarConstSlice ∨ op = fVarAddressable ∨ op = fVarComparable ∨ op = fFileImports then .varOnly
  else if op = fDeadcode then .noArgs
  else if op = fGoVersionEq ∨ op = fGoVersionLessThan ∨ op = fGoVersionGreaterThan ∨
      op = fGoVersionLessEqThan ∨ op = fGoVersionGreaterEqThan then
    .valueStr (fun o s => if o.goVersionOK s then none else some "parse Go version")
  else if op = fFilePkgPathMatches ∨ op = fFileNameMatches then
    .valueStr (fun o s => if o.regexpOK s then none else some "compile regexp")
  else if op = fVarContains then .varAndArgValue .contains
  else if op = fVarFilter then .varAndArgValue .filterFn
  else .unsupported

def argCheck (o : Oracles) : ArgCheck → String → Res (Option String)
  | .identical, _ => .ok none
  | .contains, s => .ok (if (o.gogrep s).isSome then none else some "parse contains pattern")
  | .filterFn, s =>
    match getFunc o s with
    | .panic p => .panic p
    | .ok true => .ok none
    | .ok false => .ok (some "can't find a compiled version")

/-- the non-binary cases of `newFilter` after the variable was recorded: outcome only
(the closures themselves are the subject of C02/C17) -/
def leafFilter (o : Oracles) (e : FE) : LRes Unit :=
  match leafKind e.op with
  | .strArg check needVar emptyAt =>
    lbind (stringArg0 e emptyAt) fun ls =>
      match check o ls.2 with
      | some (w, msg) => lerr (errLine w e ls.1) msg
      | none => if needVar then (match asString e.value with | .panic p => .panic p | .ok _ => lok ()) else lok ()
  | .varOnly => (match asString e.value with | .panic p => .panic p | .ok _ => lok ())
  | .noArgs => lok ()
  | .valueStr check =>
    (match asString e.value with
     | .panic p => .panic p
     | .ok s => match check o s with | some msg => lerr e.line msg | none => lok ())
  | .varAndArgValue check =>
    (match argAt e.args 0 with
     | .panic p => .panic p
     | .ok a =>
       match asString a.value with
       | .panic p => .panic p
       | .ok s =>
         match argCheck o check s with
         | .panic p => .panic p
         | .ok (some msg) => lerr e.line msg
         | .ok none => (match asString e.value with | .panic p => .panic p | .ok _ => lok ()))
  | .unsupported => lerr e.line "unsupported expr"

/-- `rhsValue != nil`: the right operand is a string / int literal (its value is type-asserted) -/
def rhsConstOf (rhs : FE) : Res Bool :=
  if rhs.op = fString then (match rhs.value with | .str _ => .ok true | _ => .panic .typeAssert)
  else if rhs.op = fInt then (match rhs.value with | .int _ => .ok true | _ => .panic .typeAssert)
  else .ok false

/-- a constructor taking `lhs.Value.(string)` -/
def strOnly (a : FE) : LRes Unit :=
  match asString a.value with | .panic p => .panic p | .ok _ => lok ()

/-- a constructor taking `lhs.Value.(string)` and `rhs.Value.(string)` -/
def strBoth (a b : FE) : LRes Unit :=
  match asString a.value with
  | .panic p => .panic p
  | .ok _ => match asString b.value with | .panic p => .panic p | .ok _ => lok ()

def operandVar1 (a : FE) : Res (List String) :=
  if hasVar a.op then (match asString a.value with | .panic p => .panic p | .ok s => .ok [s]) else .ok []

/-- `if operand.HasVar() { info.Vars[operand.Value.(string)] = … }` for the two operands of a
comparison (present since `fix: variables used in comparisons are validated`; `strict` only) -/
def operandVars (strict : Bool) (lhs rhs : FE) : Res (List String) :=
  if !strict then .ok [] else
  match operandVar1 lhs with
  | .panic p => .panic p
  | .ok v0 => match operandVar1 rhs with | .panic p => .panic p | .ok v1 => .ok (v0 ++ v1)

/-- the comparison part of `newBinaryExprFilter` once both operands are fetched: outcome and the
operand variables recorded in `info.Vars` -/
def cmpCore (strict : Bool) (op line : Nat) (lhs rhs : FE) : LRes (List String) :=
  if ¬ (op = fEq ∨ op = fNeq ∨ op = fGt ∨ op = fGtEq ∨ op = fLt ∨ op = fLtEq) then
    lerr line "unsupported operator in binary expr"
  else
    match operandVars strict lhs rhs with
    | .panic p => .panic p
    | .ok ovs =>
    match rhsConstOf rhs with
    | .panic p => .panic p
    | .ok isConst =>
      lbind (
      if lhs.op = fVarLine ∨ lhs.op = fVarValueInt ∨ lhs.op = fVarText then
        if isConst then strOnly lhs
        else if rhs.op = lhs.op then strBoth lhs rhs
        else lerr line "unsupported binary expr"
      else if lhs.op = fVarTypeSize then
        if isConst then strOnly lhs
        else if !strict || rhs.op = lhs.op then strBoth lhs rhs   -- the `rhs.Op == lhs.Op` guard exists since the D17 `fix:` (strict)
        else lerr line "unsupported binary expr"
      else lerr line "unsupported binary expr") fun _ => lok ovs

/-- variables a filter expression mentions (`info.Vars`), in visiting order -/
def feSize : FE → Nat
  | .mk _ _ _ args => 1 + (args.attach.map (fun a => feSize a.1)).sum
termination_by e => sizeOf e
decreasing_by simp_wf; have := List.sizeOf_lt_of_mem a.2; omega

/-- variables a leaf case records beyond `filter.Value`: the right-hand variable of `IdenticalTo`
(`info.Vars[rhsVarname]`, present since the `fix:` commit; `strict` only) -/
def leafVars (o : Oracles) (e : FE) : List String :=
  if o.strict && e.op == fVarTypeIdenticalTo then
    (match e.args[0]? with
     | some a => (match a.value with | .str s => [s] | _ => [])
     | none => [])
  else []

/-- `newFilter` / `newBinaryExprFilter`: outcome + the variables recorded in `info.Vars`.
`fuel` bounds the recursion (always called with `feSize e + 1`). -/
def newFilter (o : Oracles) : Nat → FE → LRes (List String)
  | 0, e => lerr e.line "fuel"
  | fuel + 1, e =>
    -- if filter.HasVar() { info.Vars[filter.Value.(string)] = … }
    let var? : Res (List String) :=
      if hasVar e.op then (match asString e.value with | .panic p => .panic p | .ok s => .ok [s]) else .ok []
    match var? with
    | .panic p => .panic p
    | .ok vs =>
      if isBinaryExpr e.op then
        if e.op = fAnd ∨ e.op = fOr then
          match argAt e.args 0 with
          | .panic p => .panic p
          | .ok a0 =>
            lbind (newFilter o fuel a0) fun v0 =>
              match argAt e.args 1 with
              | .panic p => .panic p
              | .ok a1 => lbind (newFilter o fuel a1) fun v1 => lok (vs ++ v0 ++ v1)
        else
          -- operand swap: constant on the left of == / != (string or int64 value)
          match argAt e.args 0, argAt e.args 1 with
          | .panic p, _ => .panic p
          | _, .panic p => .panic p
          | .ok a0, .ok a1 =>
            let swap := isBasicLit a0.op && !isBasicLit a1.op &&
              (match a0.value with | .str _ => true | .int _ => true | _ => false) &&
              (e.op == fEq || e.op == fNeq)
            lbind (if swap then cmpCore o.strict e.op e.line a1 a0 else cmpCore o.strict e.op e.line a0 a1) fun ovs => lok (vs ++ ovs)
      else if e.op = fNot then
        match argAt e.args 0 with
        | .panic p => .panic p
        | .ok a0 => lbind (newFilter o fuel a0) fun v0 => lok (vs ++ v0)
      else lbind (leafFilter o e) fun _ => lok (vs ++ leafVars o e)

/-- the `switch` of `loadSyntaxRule` on the pattern's root tag -/
def dstTags (tagNumBuckets tagStmtList tagExprList tagDeclList tagNode tagUnknown : Nat)
    (stmtDst exprDst declDst : List Nat) (tag : Nat) : Res (Option (List Nat)) :=
  if tag = tagUnknown ∨ tag = tagNode then .ok none
  else if tag = tagStmtList then .ok (some stmtDst)
  else if tag = tagExprList then .ok (some exprDst)
  else if tag = tagDeclList then .ok (some declDst)
  else if tag < tagNumBuckets then .ok (some [tag])
  else .panic .index                                     -- rulesByTag[tag] out of range

structure TagCfg where
  numBuckets : Nat
  stmtList : Nat
  exprList : Nat
  declList : Nat
  node : Nat
  unknown : Nat
  stmtDst : List Nat
  exprDst : List Nat
  declDst : List Nat

/-- `loadSyntaxRule` -/
def loadSyntaxRule (o : Oracles) (tc : TagCfg) (g : String) (r : Rule) (whereVars : List String) (p : Pat) :
    LRes Accepted :=
  match o.gogrep p.value with
  | none => lerr r.line "parse match pattern"
  | some (tag, pvars) =>
    match whereVars.find? (fun v => v != "$$" && !pvars.contains v) with
    | some _ => lerr r.line "filter refers to a non-existing var"
    | none =>
      if o.strict && r.locationVar != "" && r.locationVar != "$$" && !pvars.contains r.locationVar then
        lerr r.line "At() refers to a non-existing var"
      else
      match dstTags tc.numBuckets tc.stmtList tc.exprList tc.declList tc.node tc.unknown
          tc.stmtDst tc.exprDst tc.declDst tag with
      | .panic q => .panic q
      | .ok none => lerr r.line "can't infer a tag / too general"
      | .ok (some bs) =>
        lok { group := g, line := p.line, comment := false, buckets := bs, patternVars := pvars,
              whereVars := whereVars, locationVar := r.locationVar }

/-- `loadCommentRule` -/
def loadCommentRule (o : Oracles) (g : String) (r : Rule) (whereVars : List String) (p : Pat) : LRes Accepted :=
  if o.regexpOK p.value then
    let names := o.regexpGroups p.value
    if o.strict && (whereVars.any (fun v => v != "$$" && !names.contains v)) then
      lerr r.line "filter refers to a non-existing var"
    else if o.strict && r.locationVar != "" && r.locationVar != "$$" && !names.contains r.locationVar then
      lerr r.line "At() refers to a non-existing var"
    else
    lok { group := g, line := p.line, comment := true, buckets := [], patternVars := names,
          whereVars := whereVars, locationVar := r.locationVar }
  else lerr r.line "compile regexp"

def seqL {α β} (f : α → LRes β) : List α → LRes (List β)
  | [] => lok []
  | a :: as => lbind (f a) fun b => lbind (seqL f as) fun bs => lok (b :: bs)

/-- `loadRule` -/
def loadRule (o : Oracles) (tc : TagCfg) (g : String) (r : Rule) : LRes (List Accepted) :=
  let doStage : LRes Unit :=
    if r.doFuncName ≠ "" then
      match getFunc o r.doFuncName with
      | .panic p => .panic p
      | .ok true => lok ()
      | .ok false => lerr r.line "can't find a compiled version"
    else lok ()
  lbind doStage fun _ =>
    let whereStage : LRes (List String) :=
      if r.whereExpr.op ≠ fInvalid then newFilter o (feSize r.whereExpr + 1) r.whereExpr else lok []
    lbind whereStage fun wv =>
      lbind (seqL (loadSyntaxRule o tc g r wv) r.syntaxPatterns) fun a1 =>
        lbind (seqL (loadCommentRule o g r wv) r.commentPatterns) fun a2 => lok (a1 ++ a2)

/-- `loadRuleGroup` (the GroupFilter early return comes first) -/
def loadGroup (o : Oracles) (tc : TagCfg) (g : Group) : LRes (List Accepted) :=
  if !o.groupAccepted g.name then lok []
  else lbind (seqL (loadRule o tc g.name) g.rules) fun xs => lok xs.flatten

/-- `LoadFile` without bundles and custom declarations -/
def loadFile (o : Oracles) (tc : TagCfg) (f : File) : LRes (List Accepted) :=
  lbind (seqL (loadGroup o tc) f.groups) fun xs => lok xs.flatten

end Loader
