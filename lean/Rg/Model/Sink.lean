import Rg.Base
/-!
# Model of the sink logic of `m["$$"].SinkType.Is(T)` (C02)

Line-by-line transcription of `ruleguard/filters.go`: `makeRootSinkTypeIsFilter`, `findSinkRoot`,
`findContainingFunc`, `findSinkType` over the runner's ancestor stack (`nodePath.NthParent`).

## Abstract syntax

The input is the *ancestor chain* of the match: `frames[0]` is `nodePath.NthParent(1)`, `frames[1]`
is `NthParent(2)`, … up to the `*ast.File`.  Every frame records the kind of that ancestor, **which
child slot the previous node of the chain sits in**, and the facts the code reads from go/types and
go/ast at that node.  Types are abstract: `Ty.id n` is the n-th class of `types.Identical`,
`Ty.nil` the nil `types.Type` interface value (what `Info.TypeOf` answers for an expression it has
no type for, and for a nil expression), `Ty.invalid` is `types.Typ[types.Invalid]`.

The go/ast tree property is built in: the children of a node are distinct nodes, so
`astutil.Unparen(child) == e` (a pointer comparison) holds for the child that contains the match,
provided the match itself is not a `*ast.ParenExpr` (the parentheses *between* the match and the
sink root are the `paren` frames `findSinkRoot` skips; `Unparen` strips those **and** the match).
-/
namespace Sink

/-- a `types.Type` value as the sink code handles it -/
inductive Ty
  | nil                -- the nil interface value
  | invalid            -- `types.Typ[types.Invalid]` (= `invalidType` of filters.go)
  | id (n : Nat)       -- a type, up to `types.Identical`
deriving DecidableEq, Repr, Inhabited

/-- `sig.Params().At(i)`: its `Type()`, and `Type().(*types.Slice)` with `Elem()` when that assertion holds -/
structure Param where
  ty : Ty
  sliceElem : Option Ty
deriving DecidableEq, Repr, Inhabited

/-- a `*types.Signature` -/
structure Sig where
  params : List Param
  variadic : Bool
  results : List Ty
deriving DecidableEq, Repr, Inhabited

/-- `t.Underlying().(type)` as far as the switches of `findSinkType` (and the prescription) look -/
inductive Under
  | slice (elem : Ty)
  | array (elem : Ty)
  | map (key elem : Ty)
  | strct (fields : List (Nat × Ty))   -- `Field(i).Name()` (interned), `Field(i).Type()`
  | pointer (base : Under)             -- `*T`, with the underlying type of `T`
  | chan (elem : Ty)
  | other
deriving DecidableEq, Repr, Inhabited

/-- `parent.Tok` of an assignment -/
inductive AssignTok | assign | define | other
deriving DecidableEq, Repr, Inhabited

/-- `params.ctx.Types.TypeOf(parent.Fun).(type)` -/
inductive FunTy
  | sig (s : Sig)
  | notSig (t : Ty) (isType : Bool)    -- anything else; `isType`: go/types records `Fun` as a type expression (a conversion)
deriving DecidableEq, Repr, Inhabited

/-- the slot of a `*ast.ValueSpec` the previous node sits in -/
inductive VSlot | name | type | value
deriving DecidableEq, Repr, Inhabited

/-- one ancestor of the match -/
inductive Frame
  /-- `*ast.ParenExpr` -/
  | paren
  /-- `*ast.KeyValueExpr`; `inKey`: the previous node is `Key` (else `Value`); `keyIdent`: `Key.(*ast.Ident)` and its name -/
  | keyValue (inKey : Bool) (keyIdent : Option Nat)
  /-- `*ast.ValueSpec` (`var` / `const`); `declType = none`: `parent.Type == nil`, else `TypeOf(parent.Type)` -/
  | valueSpec (slot : VSlot) (declType : Option Ty)
  /-- `*ast.ReturnStmt`: the previous node is `Results[before]` of `before + 1 + after` operands -/
  | ret (before after : Nat)
  /-- `*ast.IndexExpr`; `inIndex`: the previous node is `Index` (else `X`); `TypeOf(parent.X)` and its `Underlying()` -/
  | index (inIndex : Bool) (xType : Ty) (xUnder : Under)
  /-- `*ast.AssignStmt`: the previous node is `Rhs[pos]` (`onRhs`) or `Lhs[pos]`; `TypeOf(Lhs[i])` for every i; `len(Rhs)` -/
  | assign (tok : AssignTok) (onRhs : Bool) (pos : Nat) (lhs : List Ty) (nRhs : Nat)
  /-- `*ast.CompositeLit`: the previous node is `Elts[i]` (`slot = some i`) or `Type`; `len(Elts)`; `TypeOf(parent)`, its
  `Underlying()`; `elided`: `parent.Type == nil` (the literal is an element of an enclosing literal) -/
  | composite (slot : Option Nat) (nElts : Nat) (litType : Ty) (under : Under) (elided : Bool)
  /-- `*ast.CallExpr`: the previous node is `Args[i]` (`slot = some i`) or `Fun`; `len(Args)`; `TypeOf(Fun)`; `Ellipsis.IsValid()` -/
  | call (slot : Option Nat) (nArgs : Nat) (fn : FunTy) (ellipsis : Bool)
  /-- `*ast.FuncLit` with `TypeOf(n.Type).(*types.Signature)` -/
  | funcLit (sig : Option Sig)
  /-- `*ast.FuncDecl` with `TypeOf(n.Name).(*types.Signature)` -/
  | funcDecl (sig : Option Sig)
  /-- `*ast.SendStmt`; `inValue`: the previous node is `Value` (else `Chan`); `TypeOf(Chan)` and its `Underlying()` -/
  | send (inValue : Bool) (chanType : Ty) (chanUnder : Under)
  /-- any other node, whatever the slot; `isExpr`: it is an `ast.Expr` -/
  | other (isExpr : Bool)
deriving DecidableEq, Repr, Inhabited

/-- `n.(ast.Expr)` -/
def Frame.isExpr : Frame → Bool
  | .paren | .keyValue .. | .index .. | .composite .. | .call .. | .funcLit _ => true
  | .other e => e
  | _ => false

/-- the match and its ancestors -/
structure Ctx where
  matchIsExpr : Bool       -- `params.match.Node().(ast.Expr)`
  matchIsParen : Bool      -- the match is itself a `*ast.ParenExpr`
  frames : List Frame      -- `NthParent(1)`, `NthParent(2)`, …
deriving DecidableEq, Repr, Inhabited

/-- the `*ast.KeyValueExpr` `findSinkRoot` returns -/
structure KV where
  inKey : Bool
  keyIdent : Option Nat
deriving DecidableEq, Repr, Inhabited

/-- `findSinkRoot`: `for i := 1; i < Len(); i++ { switch n := NthParent(i).(type) … }`.
A `*ast.KeyValueExpr` answers `NthParent(i + 1).(ast.Expr)`: the assertion panics on a nil interface
(no further ancestor) and on a node that is no expression. -/
def findSinkRoot : List Frame → Res (Option Frame × Option KV)
  | [] => .ok (none, none)
  | .paren :: rest => findSinkRoot rest                 -- case *ast.ParenExpr: continue
  | .keyValue k id :: rest =>
    match rest with
    | [] => .panic .typeAssert
    | p :: _ => if p.isExpr then .ok (some p, some ⟨k, id⟩) else .panic .typeAssert
  | f :: _ => .ok (some f, none)

/-- the loop of `findContainingFunc` over `NthParent(i)`, `NthParent(i + 1)`, … -/
def containingFunc : List Frame → Option Sig
  | [] => none
  | .funcDecl (some s) :: _ => some s
  | .funcLit (some s) :: _ => some s
  | _ :: rest => containingFunc rest

/-- `findContainingFunc`: the loop starts at `i := 2` -/
def findContainingFunc (frames : List Frame) : Option Sig := containingFunc (frames.drop 1)

/-- `for i, x := range xs { if astutil.Unparen(x) != e { continue }; … }`: the first index whose child is the match -/
def firstIdx (isE : Nat → Bool) (n : Nat) : Option Nat := (List.range n).find? isE

/-- `for i := 0; i < typ.NumFields(); i++ { if typ.Field(i).Name() == name { return typ.Field(i).Type() } }` -/
def fieldByName (name : Nat) : List (Nat × Ty) → Option Ty
  | [] => none
  | (n, t) :: fs => if n == name then some t else fieldByName name fs

/-- `typ.Params().At(i).Type()` for an index known to be in range -/
def Sig.paramTy (s : Sig) (i : Nat) : Res Ty :=
  match s.params[i]? with
  | some p => .ok p.ty
  | none => .panic .index

/-- the `*types.Signature` case of the `*ast.CallExpr` case, at the argument index `i` found by the loop -/
def callArg (s : Sig) (ellipsis : Bool) (i : Nat) : Res Ty :=
  let len : Int := s.params.length
  let isVariadicArg := decide ((i : Int) ≥ len - 1) && s.variadic
  if isVariadicArg && !ellipsis then
    -- typ.Params().At(typ.Params().Len() - 1).Type().(*types.Slice).Elem()
    if len - 1 < 0 then .panic .index else
    match s.params[(len - 1).toNat]? with
    | none => .panic .index
    | some p =>
      match p.sliceElem with
      | some el => .ok el
      | none => .panic .typeAssert
  else if (i : Int) < len then s.paramTy i
  else .ok .invalid                                      -- break

/-- `findSinkType(params, parent, kv, e)`.  `isE hole` is `astutil.Unparen(child) == e` for the child that contains
the match (`hole = true`) or another child. -/
def findSinkType (c : Ctx) (parent : Option Frame) (kv : Option KV) : Res Ty :=
  let isE (hole : Bool) : Bool := hole && !c.matchIsParen
  match parent with
  | some (.valueSpec _ declType) =>
    -- return params.ctx.Types.TypeOf(parent.Type)
    match declType with
    | none => .ok .nil
    | some t => .ok t
  | some (.ret before after) =>
    match firstIdx (fun j => isE (j == before)) (before + 1 + after) with
    | none => .ok .invalid
    | some i =>
      match findContainingFunc c.frames with
      | none => .ok .invalid                             -- break
      | some sig =>
        match sig.results[i]? with                       -- sig.Results().At(i).Type()
        | some t => .ok t
        | none => .panic .index
  | some (.index inIndex xType xUnder) =>
    if isE inIndex then
      if xType = .nil then .panic .nilDeref else         -- TypeOf(parent.X).Underlying()
      match xUnder with
      | .map k _ => .ok k
      | .slice _ | .array _ => .ok .nil                  -- return nil // TODO: some untyped int type?
      | _ => .ok .invalid
    else .ok .invalid
  | some (.assign tok onRhs pos lhs nRhs) =>
    if tok != .assign || lhs.length != nRhs then .ok .invalid else
    match firstIdx (fun j => isE (onRhs && j == pos)) nRhs with
    | none => .ok .invalid
    | some i =>
      match lhs[i]? with                                 -- TypeOf(parent.Lhs[i]); in range: len(Lhs) == len(Rhs)
      | some t => .ok t
      | none => .panic .index
  | some (.composite slot nElts litType under _) =>
    if litType = .nil then .panic .nilDeref else         -- TypeOf(parent).Underlying()
    match under with
    | .slice el => .ok el
    | .array el => .ok el
    | .map k el =>
      match kv with
      | some kv => if isE kv.inKey then .ok k else .ok el
      | none => .ok el
    | .strct fields =>
      match kv with
      | none =>
        -- for i, elt := range parent.Elts { if Unparen(elt) == e && i < typ.NumFields() { return typ.Field(i).Type() } }
        match firstIdx (fun j => isE (slot == some j) && decide (j < fields.length)) nElts with
        | some i => (match fields[i]? with | some f => .ok f.2 | none => .panic .index)
        | none => .ok .invalid
      | some kv =>
        match kv.keyIdent with
        | none => .ok .invalid                           -- fieldName, ok := kv.Key.(*ast.Ident); if !ok { break }
        | some name =>
          match fieldByName name fields with
          | some t => .ok t
          | none => .ok .invalid
    | _ => .ok .invalid
  | some (.call slot nArgs fn ellipsis) =>
    match fn with
    | .sig s =>
      match firstIdx (fun j => isE (slot == some j)) nArgs with
      | none => .ok .invalid
      | some i => callArg s ellipsis i
    | .notSig t _ => .ok t                               -- default: "Probably a type cast."
  | _ => .ok .invalid

/-- `findSinkRoot` followed by `findSinkType` -/
def findSink (c : Ctx) : Res Ty :=
  match findSinkRoot c.frames with
  | .panic p => .panic p
  | .ok (parent, kv) => findSinkType c parent kv

/-- `makeRootSinkTypeIsFilter`; `isT t`: `pat.MatchIdentical(state, t)` for the type pattern `T` of the rule — a closed
pattern (no `$` variable), which rejects the nil type and `invalidType` (typematch; C10) -/
def sinkTypeIs (c : Ctx) (isT : Nat → Bool) : Res Bool :=
  if c.matchIsExpr then
    match findSink c with
    | .panic p => .panic p
    | .ok (.id n) => .ok (isT n)
    | .ok _ => .ok false
  else .ok false

end Sink
