import Rg.Base
/-!
# Model of `irconv.go:localDefine / expandMacro` over a small Go-expression AST

`GExpr` is the expression subset a `Where` clause (and so a helper body) can contain.  A selector
`X.Sel` keeps `Sel` as a *name*, because in go/ast it is an `*ast.Ident` **node** that
`astutil.Apply` visits like any other identifier.

`expandAsIs params args body` transcribes the post-order callback of `expandMacro`:
every identifier node whose name is a parameter is replaced by the argument — also in the `Sel`
position, where `Cursor.Replace` does `reflect.Value.Set` on a field of type `*ast.Ident`:
an identifier argument renames the selector, any other argument panics (D18).
`expand` is the function after `fixes/irconv-macro.diff` (selector names are left alone; too many
arguments are a located error).
`inline` is the specification: substitution of the parameters in variable positions.
-/
namespace Macro

inductive GExpr
  | ident (name : String)
  | lit (kind : String) (text : String)        -- BasicLit: token kind (INT, FLOAT, IMAG, CHAR, STRING) and source text
  | paren (x : GExpr)
  | sel (x : GExpr) (name : String)            -- X.Sel
  | index (x : GExpr) (i : GExpr)
  | call (f : GExpr) (args : List GExpr)
  | unary (op : String) (x : GExpr)
  | binary (op : String) (x y : GExpr)
deriving Repr

namespace GExpr
mutual
def decEq : (a b : GExpr) → Decidable (a = b)
  | .ident a, .ident b => if h : a = b then isTrue (by rw [h]) else isFalse (by intro e; cases e; exact h rfl)
  | .lit k t, .lit k' t' =>
    if h1 : k = k' then if h2 : t = t' then isTrue (by rw [h1, h2]) else isFalse (by intro e; cases e; exact h2 rfl)
    else isFalse (by intro e; cases e; exact h1 rfl)
  | .paren x, .paren y => match decEq x y with
    | isTrue h => isTrue (by rw [h])
    | isFalse h => isFalse (by intro e; cases e; exact h rfl)
  | .sel x n, .sel y m => match decEq x y with
    | isTrue h => if h2 : n = m then isTrue (by rw [h, h2]) else isFalse (by intro e; cases e; exact h2 rfl)
    | isFalse h => isFalse (by intro e; cases e; exact h rfl)
  | .index x i, .index y j => match decEq x y, decEq i j with
    | isTrue h1, isTrue h2 => isTrue (by rw [h1, h2])
    | isFalse h, _ => isFalse (by intro e; cases e; exact h rfl)
    | _, isFalse h => isFalse (by intro e; cases e; exact h rfl)
  | .call f as, .call g bs => match decEq f g, decEqList as bs with
    | isTrue h1, isTrue h2 => isTrue (by rw [h1, h2])
    | isFalse h, _ => isFalse (by intro e; cases e; exact h rfl)
    | _, isFalse h => isFalse (by intro e; cases e; exact h rfl)
  | .unary o x, .unary p y => match decEq x y with
    | isTrue h => if h2 : o = p then isTrue (by rw [h, h2]) else isFalse (by intro e; cases e; exact h2 rfl)
    | isFalse h => isFalse (by intro e; cases e; exact h rfl)
  | .binary o x y, .binary p x' y' => match decEq x x', decEq y y' with
    | isTrue h1, isTrue h2 => if h3 : o = p then isTrue (by rw [h1, h2, h3]) else isFalse (by intro e; cases e; exact h3 rfl)
    | isFalse h, _ => isFalse (by intro e; cases e; exact h rfl)
    | _, isFalse h => isFalse (by intro e; cases e; exact h rfl)
  | .ident _, .lit _ _ => isFalse (by intro e; cases e)
  | .ident _, .paren _ => isFalse (by intro e; cases e)
  | .ident _, .sel _ _ => isFalse (by intro e; cases e)
  | .ident _, .index _ _ => isFalse (by intro e; cases e)
  | .ident _, .call _ _ => isFalse (by intro e; cases e)
  | .ident _, .unary _ _ => isFalse (by intro e; cases e)
  | .ident _, .binary _ _ _ => isFalse (by intro e; cases e)
  | .lit _ _, .ident _ => isFalse (by intro e; cases e)
  | .lit _ _, .paren _ => isFalse (by intro e; cases e)
  | .lit _ _, .sel _ _ => isFalse (by intro e; cases e)
  | .lit _ _, .index _ _ => isFalse (by intro e; cases e)
  | .lit _ _, .call _ _ => isFalse (by intro e; cases e)
  | .lit _ _, .unary _ _ => isFalse (by intro e; cases e)
  | .lit _ _, .binary _ _ _ => isFalse (by intro e; cases e)
  | .paren _, .ident _ => isFalse (by intro e; cases e)
  | .paren _, .lit _ _ => isFalse (by intro e; cases e)
  | .paren _, .sel _ _ => isFalse (by intro e; cases e)
  | .paren _, .index _ _ => isFalse (by intro e; cases e)
  | .paren _, .call _ _ => isFalse (by intro e; cases e)
  | .paren _, .unary _ _ => isFalse (by intro e; cases e)
  | .paren _, .binary _ _ _ => isFalse (by intro e; cases e)
  | .sel _ _, .ident _ => isFalse (by intro e; cases e)
  | .sel _ _, .lit _ _ => isFalse (by intro e; cases e)
  | .sel _ _, .paren _ => isFalse (by intro e; cases e)
  | .sel _ _, .index _ _ => isFalse (by intro e; cases e)
  | .sel _ _, .call _ _ => isFalse (by intro e; cases e)
  | .sel _ _, .unary _ _ => isFalse (by intro e; cases e)
  | .sel _ _, .binary _ _ _ => isFalse (by intro e; cases e)
  | .index _ _, .ident _ => isFalse (by intro e; cases e)
  | .index _ _, .lit _ _ => isFalse (by intro e; cases e)
  | .index _ _, .paren _ => isFalse (by intro e; cases e)
  | .index _ _, .sel _ _ => isFalse (by intro e; cases e)
  | .index _ _, .call _ _ => isFalse (by intro e; cases e)
  | .index _ _, .unary _ _ => isFalse (by intro e; cases e)
  | .index _ _, .binary _ _ _ => isFalse (by intro e; cases e)
  | .call _ _, .ident _ => isFalse (by intro e; cases e)
  | .call _ _, .lit _ _ => isFalse (by intro e; cases e)
  | .call _ _, .paren _ => isFalse (by intro e; cases e)
  | .call _ _, .sel _ _ => isFalse (by intro e; cases e)
  | .call _ _, .index _ _ => isFalse (by intro e; cases e)
  | .call _ _, .unary _ _ => isFalse (by intro e; cases e)
  | .call _ _, .binary _ _ _ => isFalse (by intro e; cases e)
  | .unary _ _, .ident _ => isFalse (by intro e; cases e)
  | .unary _ _, .lit _ _ => isFalse (by intro e; cases e)
  | .unary _ _, .paren _ => isFalse (by intro e; cases e)
  | .unary _ _, .sel _ _ => isFalse (by intro e; cases e)
  | .unary _ _, .index _ _ => isFalse (by intro e; cases e)
  | .unary _ _, .call _ _ => isFalse (by intro e; cases e)
  | .unary _ _, .binary _ _ _ => isFalse (by intro e; cases e)
  | .binary _ _ _, .ident _ => isFalse (by intro e; cases e)
  | .binary _ _ _, .lit _ _ => isFalse (by intro e; cases e)
  | .binary _ _ _, .paren _ => isFalse (by intro e; cases e)
  | .binary _ _ _, .sel _ _ => isFalse (by intro e; cases e)
  | .binary _ _ _, .index _ _ => isFalse (by intro e; cases e)
  | .binary _ _ _, .call _ _ => isFalse (by intro e; cases e)
  | .binary _ _ _, .unary _ _ => isFalse (by intro e; cases e)
def decEqList : (a b : List GExpr) → Decidable (a = b)
  | [], [] => isTrue rfl
  | [], _ :: _ => isFalse (by intro h; cases h)
  | _ :: _, [] => isFalse (by intro h; cases h)
  | a :: as, b :: bs =>
    match decEq a b, decEqList as bs with
    | isTrue h1, isTrue h2 => isTrue (by rw [h1, h2])
    | isFalse h1, _ => isFalse (by intro e; cases e; exact h1 rfl)
    | _, isFalse h2 => isFalse (by intro e; cases e; exact h2 rfl)
end
instance : DecidableEq GExpr := decEq
end GExpr

open GExpr

/-- `astutil.Unparen` -/
def unparen : GExpr → GExpr
  | .paren x => unparen x
  | e => e

/-- `isSafe` of `expandMacro`: a literal, an identifier, or `m["…"]` with the group's matcher name
and a string literal key (parentheses anywhere are looked through) -/
def isSafe (matcher : String) (arg : GExpr) : Bool :=
  match unparen arg with
  | .lit _ _ => true
  | .ident _ => true
  | .index x i =>
    (match unparen x with
     | .ident n => n == matcher
     | _ => false) &&
    (match unparen i with
     | .lit k _ => k == "STRING"
     | _ => false)
  | _ => false

/-- the `args` map: parameter name ↦ unparenthesised argument; later parameters of the same name win
(Go map assignment) -/
def bindArgs : List String → List GExpr → List (String × GExpr)
  | p :: ps, a :: as => bindArgs ps as ++ [(p, unparen a)]
  | _, _ => []

def lookupArg (env : List (String × GExpr)) (name : String) : Option GExpr := env.lookup name

mutual
/-- the post-order rewrite as it is: `sel` replaces an identifier `Sel` too -/
def substAsIs (env : List (String × GExpr)) : GExpr → Res GExpr
  | .ident n => .ok ((lookupArg env n).getD (.ident n))
  | .lit k t => .ok (.lit k t)
  | .paren x => match substAsIs env x with
    | .ok x' => .ok (.paren x')
    | .panic p => .panic p
  | .sel x n => match substAsIs env x with
    | .panic p => .panic p
    | .ok x' =>
      match lookupArg env n with
      | none => .ok (.sel x' n)
      | some (.ident n') => .ok (.sel x' n')       -- *ast.Ident into the *ast.Ident field: the selector is renamed
      | some _ => .panic .explicit                 -- reflect.Set: value of type *ast.IndexExpr is not assignable to type *ast.Ident
  | .index x i => match substAsIs env x, substAsIs env i with
    | .ok x', .ok i' => .ok (.index x' i')
    | .panic p, _ => .panic p
    | _, .panic p => .panic p
  | .call f as => match substAsIs env f, substAsIsList env as with
    | .ok f', .ok as' => .ok (.call f' as')
    | .panic p, _ => .panic p
    | _, .panic p => .panic p
  | .unary o x => match substAsIs env x with
    | .ok x' => .ok (.unary o x')
    | .panic p => .panic p
  | .binary o x y => match substAsIs env x, substAsIs env y with
    | .ok x', .ok y' => .ok (.binary o x' y')
    | .panic p, _ => .panic p
    | _, .panic p => .panic p
def substAsIsList (env : List (String × GExpr)) : List GExpr → Res (List GExpr)
  | [] => .ok []
  | a :: as => match substAsIs env a, substAsIsList env as with
    | .ok a', .ok as' => .ok (a' :: as')
    | .panic p, _ => .panic p
    | _, .panic p => .panic p
end

mutual
/-- substitution in variable positions only: the specification (`inline`), and the rewrite after the fix -/
def subst (env : List (String × GExpr)) : GExpr → GExpr
  | .ident n => (lookupArg env n).getD (.ident n)
  | .lit k t => .lit k t
  | .paren x => .paren (subst env x)
  | .sel x n => .sel (subst env x) n
  | .index x i => .index (subst env x) (subst env i)
  | .call f as => .call (subst env f) (substList env as)
  | .unary o x => .unary o (subst env x)
  | .binary o x y => .binary o (subst env x) (subst env y)
def substList (env : List (String × GExpr)) : List GExpr → List GExpr
  | [] => []
  | a :: as => subst env a :: substList env as
end

inductive Outcome
  | ok (e : GExpr)
  | unsafeArg (i : Nat)        -- conv.errorf(arg, "unsupported/too complex %s argument")
  | tooManyArgs                -- (after the fix only) conv.errorf(arg, "… variadic and unnamed parameters are not supported")
  | panic (p : Panic)
deriving DecidableEq, Repr

/-- the argument loop of `expandMacro`: `macro.params[i]` is read first — as it is, an index
expression without a bound check: more arguments than recorded parameter names (a variadic or an
unnamed parameter) panic; after the fix a located error — then `isSafe(arg)` -/
def checkArgs (fixed : Bool) (matcher : String) : List String → List GExpr → Nat → Option Outcome
  | _, [], _ => none
  | [], _ :: _, _ => some (if fixed then .tooManyArgs else .panic .index)
  | _ :: ps, a :: as, i => if isSafe matcher a then checkArgs fixed matcher ps as (i + 1) else some (.unsafeArg i)

/-- `expandMacro` up to the expanded expression, as it is -/
def expandAsIs (matcher : String) (params : List String) (args : List GExpr) (body : GExpr) : Outcome :=
  match checkArgs false matcher params args 0 with
  | some o => o
  | none =>
    match substAsIs (bindArgs params args) body with
    | .ok e => .ok e
    | .panic p => .panic p

/-- `expandMacro` after `fixes/irconv-macro.diff` -/
def expand (matcher : String) (params : List String) (args : List GExpr) (body : GExpr) : Outcome :=
  match checkArgs true matcher params args 0 with
  | some o => o
  | none => .ok (subst (bindArgs params args) body)

/-- the specification: the helper's body with arguments substituted for the parameters -/
def inline (params : List String) (args : List GExpr) (body : GExpr) : GExpr :=
  subst (bindArgs params args) body

mutual
/-- does a name of `ps` occur as a selected field name? -/
def selNames : GExpr → List String
  | .ident _ => []
  | .lit _ _ => []
  | .paren x => selNames x
  | .sel x n => n :: selNames x
  | .index x i => selNames x ++ selNames i
  | .call f as => selNames f ++ selNamesList as
  | .unary _ x => selNames x
  | .binary _ x y => selNames x ++ selNames y
def selNamesList : List GExpr → List String
  | [] => []
  | a :: as => selNames a ++ selNamesList as
end

end Macro
