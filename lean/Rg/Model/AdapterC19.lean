import Rg.Base
/-!
# Model of the go/analysis adapter `analyzer/analyzer.go` (C19)

* `prepareEngine`: mutex-guarded, lazily created process-wide engine with a sticky failure flag — `prepare`
* `newEngine`'s GroupFilter built from `-enable` / `-disable` — `groupFilter`
* `runAnalyzer`'s ReportData → Diagnostic / SuggestedFix mapping — `diagOf`, `runPass`

The engine itself (what `newEngine` answers for the flags, which reports `Engine.Run` makes) is an input.
-/
namespace AdM

/-! ## -enable / -disable -/

def comma : UInt8 := 44

/-- `strings.Split(s, ",")` -/
def splitComma : Bytes → List Bytes
  | [] => [[]]
  | c :: t =>
    match splitComma t with
    | [] => [[c]]                      -- unreachable: the result is never empty
    | h :: rest => if c == comma then [] :: h :: rest else (c :: h) :: rest

/-- ASCII white space as `unicode.IsSpace` sees it: \t \n \v \f \r, space (+ U+0085, U+00A0 are not single
bytes in UTF-8 and are left to the harness' generator, which stays in ASCII) -/
def isSpace (c : UInt8) : Bool := c == 32 || (9 ≤ c && c ≤ 13)

def trimLeft : Bytes → Bytes
  | [] => []
  | c :: t => if isSpace c then trimLeft t else c :: t

/-- `strings.TrimSpace` -/
def trimSpace (s : Bytes) : Bytes := (trimLeft (trimLeft s).reverse).reverse

def fields (s : Bytes) : List Bytes := (splitComma s).map trimSpace

def allLit : Bytes := [60, 97, 108, 108, 62]      -- "<all>"

/-- the `GroupFilter` closure of `newEngine`: `disabledGroups` / `enabledGroups` maps + the switch -/
def groupFilter (enable disable : Bytes) (name : Bytes) : Bool :=
  let disabledGroups := fields disable
  let enabledGroups := if enable != allLit then fields enable else []
  let enabled := enable == allLit || enabledGroups.contains name
  if !enabled then false                 -- "not enabled by -enabled flag"
  else if disabledGroups.contains name then false   -- "disabled by -disable flag"
  else true

/-! ## prepareEngine -/

inductive Prep (E : Type)
  | engine (e : E)        -- (engine, nil)
  | failed                -- (nil, err)
  | nothing               -- (nil, nil): somebody else already reported the failure
deriving DecidableEq, Repr

structure Adapter (E : Type) where
  engine : Option E       -- globalEngine
  errored : Bool          -- globalEngineErrored
  created : Nat           -- how many times newEngine has run (ghost)
deriving DecidableEq, Repr

def Adapter.init {E : Type} : Adapter E := ⟨none, false, 0⟩

/-- one `prepareEngine()` call under `globalEngineMu`; `mk` = what `newEngine()` answers (`none` = error) -/
def prepare {E : Type} (force : Bool) (mk : Option E) (a : Adapter E) : Adapter E × Prep E :=
  if force then
    (match mk with
     | some e => ({ a with created := a.created + 1 }, .engine e)
     | none => ({ a with created := a.created + 1 }, .failed))
  else
    match a.engine with
    | some e => (a, .engine e)
    | none =>
      if a.errored then (a, .nothing)
      else
        match mk with
        | none => ({ a with errored := true, created := a.created + 1 }, .failed)
        | some e => ({ engine := some e, errored := a.errored, created := a.created + 1 }, .engine e)

/-- any sequence of calls (every schedule: the mutex serialises them) -/
def prepareN {E : Type} (force : Bool) (mk : Option E) : Nat → Adapter E → Adapter E × List (Prep E)
  | 0, a => (a, [])
  | n + 1, a =>
    let (a1, r) := prepare force mk a
    let (a2, rs) := prepareN force mk n a1
    (a2, r :: rs)

/-! ## reports → diagnostics -/

structure Suggestion where
  from_ : Int
  to : Int
  replacement : Bytes
deriving DecidableEq, Repr

structure Report where
  group : Bytes
  filename : Bytes        -- Group.Filename
  line : Nat              -- RuleInfo.Line
  message : Bytes
  pos : Int               -- Node.Pos()
  suggestion : Option Suggestion
deriving DecidableEq, Repr

structure TextEdit where
  pos : Int
  end_ : Int
  newText : Bytes
deriving DecidableEq, Repr

structure Fix where
  message : Bytes
  edits : List TextEdit
deriving DecidableEq, Repr

structure Diag where
  pos : Int
  message : Bytes
  fixes : List Fix
deriving DecidableEq, Repr

def slash : UInt8 := 47

/-- `filepath.Base` on a non-empty path without trailing slashes -/
def baseName (p : Bytes) : Bytes := (p.reverse.takeWhile (· != slash)).reverse

def digits : Nat → Nat → List UInt8
  | 0, _ => []
  | fuel + 1, n => if n < 10 then [UInt8.ofNat (48 + n)] else digits fuel (n / 10) ++ [UInt8.ofNat (48 + n % 10)]

/-- `%d` -/
def decimal (n : Nat) : Bytes := digits (n + 1) n

def fixMessage : Bytes := [115, 117, 103, 103, 101, 115, 116, 101, 100, 32, 114, 101, 112, 108, 97, 99, 101, 109, 101, 110, 116]

/-- the `Report` callback; `printLoc` = `flagE == ""` -/
def diagOf (printLoc : Bool) (r : Report) : Diag :=
  let msg :=
    if printLoc then r.group ++ [58, 32] ++ r.message ++ [32, 40] ++ baseName r.filename ++ [58] ++ decimal r.line ++ [41]
    else r.message
  { pos := r.pos, message := msg,
    fixes := match r.suggestion with
      | none => []
      | some s => [⟨fixMessage, [⟨s.from_, s.to, s.replacement⟩]⟩] }

/-- what `Engine.Run` does on one file: its reports in order, then possibly an error -/
structure FileRun where
  reports : List Report
  err : Bool
deriving DecidableEq, Repr

inductive PassOut
  | loadError              -- "load rules: …"
  | versionError           -- "parse Go version: …"
  | runError (ds : List Diag)
  | done (ds : List Diag)
deriving DecidableEq, Repr

/-- `for _, f := range pass.Files { if err := engine.Run(ctx, f); err != nil { return nil, err } }` -/
def runFiles (printLoc : Bool) : List FileRun → List Diag × Bool
  | [] => ([], false)
  | f :: fs =>
    let ds := f.reports.map (diagOf printLoc)
    if f.err then (ds, true) else
    let (more, e) := runFiles printLoc fs
    (ds ++ more, e)

/-- `runAnalyzer` after `prepareEngine` answered `p` -/
def runPass {E : Type} (p : Prep E) (printLoc versionOK : Bool) (files : List FileRun) : PassOut :=
  match p with
  | .failed => .loadError
  | .nothing => .done []
  | .engine _ =>
    if !versionOK then .versionError else
    match runFiles printLoc files with
    | (ds, true) => .runError ds
    | (ds, false) => .done ds

end AdM
