import Rg.Base
/-!
# Rg.Model.Locks — lock events, the static lock discipline, and an RW-lock scheduler (C08)

Three layers, all core Lean, all executable:

* **Events** (`Step`, `Item`, `Fn`, `Table`): what `rgh extract` regenerates from the SSA form of
  `ruleguard/engine.go`, `importer.go`, `analyzer/analyzer.go` (→ `Rg/Gen/LockEvents.lean`).
* **Static discipline** (`stepOK`, `pathFrom`, `itemsFrom`, `tableOK`): a thread-local simulation of one
  control-flow path with the set of locks held, checking guarded accesses, lock order (mutex id =
  rank, strictly increasing while nested), matching unlocks and balance.
* **Scheduler** (`Thread`, `State`, `enabled`, `fire`, `Reach`): N threads of step lists under the
  semantics of `sync.RWMutex` (writer exclusive, readers shared, no re-entry, and — flag `wp` — a
  writer that has announced itself blocks new readers, as Go's implementation does).

Also the table of memory-writing instructions reachable from `(*Engine).Run` (`WriteSite`).
-/
namespace Locks

abbrev Mutex := Nat
abbrev Var := Nat

inductive Step
  | rlock (m : Mutex) | runlock (m : Mutex) | lock (m : Mutex) | unlock (m : Mutex)
  | read (v : Var) | write (v : Var)
deriving DecidableEq, Repr, Inhabited

/-- One element of an extracted path. -/
inductive Item
  /-- a single event -/
  | step (s : Step)
  /-- a lock-free loop or recursion: any sequence of the accesses `ss`, interleaved with any number of
  complete calls of entry functions that lock only mutexes in `ms` -/
  | any (ss : List Step) (ms : List Mutex)
  /-- a call that is not inlined and may run complete entry functions locking only mutexes in `ms` -/
  | calls (ms : List Mutex)
deriving DecidableEq, Repr, Inhabited

structure Fn where
  name : String
  /-- called from outside the set of extracted functions: must be self-contained -/
  entry : Bool
  /-- the extraction had to approximate (lock operation in a loop, `go`, unidentified mutex) -/
  approx : Bool
  paths : List (List Item)
deriving Repr

structure Table where
  nMutex : Nat
  /-- guard of each tracked variable by the naming convention `<p>Mu` guards `<p>*` -/
  guard : List (Option Mutex)
  fns : List Fn
deriving Repr

/-- What the discipline demands of a variable. -/
inductive Policy
  /-- every read under the lock (any mode), every write under the write lock -/
  | guarded (m : Mutex)
  /-- writes under the write lock; reads are ordered by other means (publication, see `Adapter`) -/
  | writeGuarded (m : Mutex)
  | free
deriving DecidableEq, Repr, Inhabited

/-! ## Static discipline -/

/-- locks held by one thread, most recent first; `true` = write mode -/
abbrev Held := List (Mutex × Bool)

def holds (h : Held) (m : Mutex) : Bool := h.any (fun x => x.1 == m)
def holdsW (h : Held) (m : Mutex) : Bool := h.contains (m, true)
/-- every held mutex has a smaller rank than `m` (mutex id = rank) -/
def above (h : Held) (m : Mutex) : Bool := h.all (fun x => decide (x.1 < m))

/-- One event against the held set; `none` = the discipline is violated. -/
def stepOK (pol : Var → Policy) (h : Held) : Step → Option Held
  | .rlock m => if above h m then some ((m, false) :: h) else none
  | .lock m => if above h m then some ((m, true) :: h) else none
  | .runlock m => if h.contains (m, false) then some (h.erase (m, false)) else none
  | .unlock m => if h.contains (m, true) then some (h.erase (m, true)) else none
  | .read v =>
    match pol v with
    | .guarded m => if holds h m then some h else none
    | _ => some h
  | .write v =>
    match pol v with
    | .guarded m => if holdsW h m then some h else none
    | .writeGuarded m => if holdsW h m then some h else none
    | .free => some h

/-- Simulate a list of events; the result is the final held set. -/
def pathFrom (pol : Var → Policy) : Held → List Step → Option Held
  | h, [] => some h
  | h, s :: ss => match stepOK pol h s with
    | none => none
    | some h' => pathFrom pol h' ss

/-- A self-contained path: starts and ends with nothing held. -/
def pathOK (pol : Var → Policy) (ss : List Step) : Bool := pathFrom pol [] ss == some []

def Step.isAccess : Step → Bool
  | .read _ | .write _ => true
  | _ => false

/-- mutexes a step list acquires -/
def locksOf : List Step → List Mutex
  | [] => []
  | .rlock m :: ss => m :: locksOf ss
  | .lock m :: ss => m :: locksOf ss
  | _ :: ss => locksOf ss

def Item.mutexes : Item → List Mutex
  | .step (.rlock m) => [m]
  | .step (.lock m) => [m]
  | .step _ => []
  | .any _ ms => ms
  | .calls ms => ms

/-- all mutexes a path may acquire, directly or inside calls -/
def itemsMutexes (p : List Item) : List Mutex := p.flatMap Item.mutexes

/-- Simulate an extracted path.  `any` and `calls` leave the held set unchanged: accesses are checked
against it, mutexes possibly locked inside must rank above everything held. -/
def itemsFrom (pol : Var → Policy) : Held → List Item → Option Held
  | h, [] => some h
  | h, .step s :: is => match stepOK pol h s with
    | none => none
    | some h' => itemsFrom pol h' is
  | h, .any ss ms :: is =>
    if ss.all (fun s => s.isAccess && (stepOK pol h s).isSome) && ms.all (above h) then itemsFrom pol h is else none
  | h, .calls ms :: is => if ms.all (above h) then itemsFrom pol h is else none

def itemsOK (pol : Var → Policy) (p : List Item) : Bool := itemsFrom pol [] p == some []

def Fn.ok (pol : Var → Policy) (f : Fn) : Bool :=
  !f.approx && (!f.entry || f.paths.all (itemsOK pol))

/-- The obligation on the regenerated table. -/
def tableOK (pol : Var → Policy) (t : Table) : Bool := t.fns.all (Fn.ok pol)

/-- the policy the naming convention suggests -/
def conventionPolicy (t : Table) (v : Var) : Policy :=
  match t.guard[v]? with
  | some (some m) => .guarded m
  | _ => .free

/-! ## What an extracted path stands for

`Expands T items ss`: the event sequence `ss` is one execution of the extracted path `items` — an
`any` contributes any sequence of its accesses and of complete executions of entry functions locking
only its mutexes; a `calls` contributes any number of such executions.  `ThreadProg T ss`: `ss` is
any sequence of complete executions of entry functions of the table (what one Run call does). -/

inductive Expands (T : Table) : List Item → List Step → Prop
  | nil : Expands T [] []
  | step {s : Step} {is : List Item} {ss : List Step} :
      Expands T is ss → Expands T (.step s :: is) (s :: ss)
  | any_done {vs : List Step} {ms : List Mutex} {is : List Item} {ss : List Step} :
      Expands T is ss → Expands T (.any vs ms :: is) ss
  | any_acc {vs : List Step} {ms : List Mutex} {is : List Item} {ss : List Step} {x : Step} :
      x ∈ vs → Expands T (.any vs ms :: is) ss → Expands T (.any vs ms :: is) (x :: ss)
  | any_call {vs : List Step} {ms : List Mutex} {is : List Item} {ss xs : List Step} {f : Fn} {p : List Item} :
      f ∈ T.fns → f.entry = true → p ∈ f.paths → (∀ m, m ∈ itemsMutexes p → m ∈ ms) →
      Expands T p xs → Expands T (.any vs ms :: is) ss → Expands T (.any vs ms :: is) (xs ++ ss)
  | calls_done {ms : List Mutex} {is : List Item} {ss : List Step} :
      Expands T is ss → Expands T (.calls ms :: is) ss
  | calls_call {ms : List Mutex} {is : List Item} {ss xs : List Step} {f : Fn} {p : List Item} :
      f ∈ T.fns → f.entry = true → p ∈ f.paths → (∀ m, m ∈ itemsMutexes p → m ∈ ms) →
      Expands T p xs → Expands T (.calls ms :: is) ss → Expands T (.calls ms :: is) (xs ++ ss)

inductive ThreadProg (T : Table) : List Step → Prop
  | nil : ThreadProg T []
  | call {f : Fn} {p : List Item} {xs ss : List Step} :
      f ∈ T.fns → f.entry = true → p ∈ f.paths → Expands T p xs → ThreadProg T ss → ThreadProg T (xs ++ ss)

/-! ## Scheduler -/

structure Thread where
  held : Held
  /-- `some m`: has called `Lock` on `m` and is waiting for it (blocks new readers when `wp`) -/
  pend : Option Mutex
  rest : List Step
deriving Repr, Inhabited

/-- `n` threads -/
structure State where
  n : Nat
  th : Nat → Thread

def State.set (st : State) (i : Nat) (t : Thread) : State :=
  { n := st.n, th := fun k => if k = i then t else st.th k }

def anyHolds (st : State) (m : Mutex) : Bool := (List.range st.n).any (fun j => holds (st.th j).held m)
def anyHoldsW (st : State) (m : Mutex) : Bool := (List.range st.n).any (fun j => holdsW (st.th j).held m)
def anyPending (st : State) (m : Mutex) : Bool := (List.range st.n).any (fun j => (st.th j).pend == some m)

/-- Can thread `i` take its next step?  `wp` = a waiting writer blocks new readers. -/
def enabled (wp : Bool) (st : State) (i : Nat) : Bool :=
  decide (i < st.n) &&
  match (st.th i).rest with
  | [] => false
  | .rlock m :: _ => !anyHoldsW st m && !(wp && anyPending st m)
  | .lock m :: _ => if (st.th i).pend == some m then !anyHolds st m else true
  | .runlock m :: _ => (st.th i).held.contains (m, false)
  | .unlock m :: _ => (st.th i).held.contains (m, true)
  | .read _ :: _ => true
  | .write _ :: _ => true

/-- The step of thread `i` (meaningful when `enabled`). -/
def fire (st : State) (i : Nat) : State :=
  let t := st.th i
  match t.rest with
  | [] => st
  | .rlock m :: r => st.set i { held := (m, false) :: t.held, pend := none, rest := r }
  | .lock m :: r =>
    if t.pend == some m then st.set i { held := (m, true) :: t.held, pend := none, rest := r }
    else st.set i { held := t.held, pend := some m, rest := .lock m :: r }
  | .runlock m :: r => st.set i { held := t.held.erase (m, false), pend := t.pend, rest := r }
  | .unlock m :: r => st.set i { held := t.held.erase (m, true), pend := t.pend, rest := r }
  | .read _ :: r => st.set i { held := t.held, pend := t.pend, rest := r }
  | .write _ :: r => st.set i { held := t.held, pend := t.pend, rest := r }

/-- states reachable by schedules the lock semantics admits -/
inductive Reach (wp : Bool) (s : State) : State → Prop
  | refl : Reach wp s s
  | step {s' : State} (i : Nat) : Reach wp s s' → enabled wp s' i = true → Reach wp s (fire s' i)

/-- run a schedule (list of thread ids); `none` if it asks for a step that is not enabled -/
def runSched (wp : Bool) : State → List Nat → Option State
  | st, [] => some st
  | st, i :: is => if enabled wp st i then runSched wp (fire st i) is else none

/-- initial state: thread `i` runs `progs[i]`, nothing held -/
def init (progs : List (List Step)) : State :=
  { n := progs.length, th := fun i => { held := [], pend := none, rest := progs.getD i [] } }

def State.done (st : State) : Bool := (List.range st.n).all (fun i => (st.th i).rest.isEmpty)

/-! ## Write sites -/

inductive WKind | field | elem | global | captured | param | unknown
deriving DecidableEq, Repr, Inhabited

structure WriteSite where
  kind : WKind
  /-- owning type `pkg.Type` (field/elem), package (global), creating function (captured) -/
  typ : String
  field : String
  how : String
  /-- captured only: the function that created the closure is itself reachable from Run -/
  fromRun : Bool
  count : Nat
  fn : String
  pos : String
deriving Repr

end Locks
