import Rg.Model.FilterIR
/-!
# Model of the Where() connectives and comparisons

* `newFilter`  — `ir_loader.go:newFilter` restricted to what it does with `Not`, the binary
  expressions and "everything else", together with `newBinaryExprFilter` (And/Or recursion,
  constant-on-the-left swap for `==`/`!=`, op → token table, lhs-op dispatch for
  Line / Type.Size / Value.Int / Text).  The result is a first-order description `Flt` of the
  closure the Go code builds.
* `evalFlt`    — what that closure returns at one match (`filters.go:makeNotFilter`, `makeAndFilter`,
  `makeOrFilter`, `makeLine(Const)Filter`, `makeTypeSize(Const)Filter`, `makeValueInt(Const)Filter`,
  `makeText(Const)Filter`), including the run-time panics.
* `runRule`    — `runner.go:handleMatch` folded over the matches of a file in order: a report per
  accepted match; a panic aborts the run.

`fixed = false` is the code as it stands (the `FilterVarTypeSizeOp` branch of
`newBinaryExprFilter` lacks the `rhs.Op == lhs.Op` guard its three siblings have);
`fixed = true` is the code after `fixes/typesize-rhs-op-guard.diff`.
-/
namespace FIR

inductive LErr
  | unsupportedExpr       -- "unsupported expr: %s (%s)"
  | unsupportedOperator   -- "unsupported operator in binary expr: %s"
  | unsupportedBinary     -- "unsupported binary expr: %s"
  | predicate             -- an error returned by one of the predicate cases
deriving DecidableEq, Repr, Inhabited

/-- result of loading: a value, a load error, or a panic inside Load -/
inductive LRes (α : Type) | ok (a : α) | err (e : LErr) | panic (p : Panic)
deriving DecidableEq, Repr

namespace LRes
def bind {α β} (x : LRes α) (f : α → LRes β) : LRes β :=
  match x with | .ok a => f a | .err e => .err e | .panic p => .panic p
instance : Monad LRes where
  pure := .ok
  bind := LRes.bind
@[simp] theorem bind_ok {α β} (a : α) (f : α → LRes β) : (LRes.ok a >>= f) = f a := rfl
@[simp] theorem bind_err {α β} (e : LErr) (f : α → LRes β) : ((LRes.err e : LRes α) >>= f) = .err e := rfl
@[simp] theorem bind_panic {α β} (p : Panic) (f : α → LRes β) : ((LRes.panic p : LRes α) >>= f) = .panic p := rfl
@[simp] theorem pure_eq {α} (a : α) : (pure a : LRes α) = .ok a := rfl
end LRes

/-- the closure built by `newFilter`, first order -/
inductive Flt
  | atom (id : Nat)
  | not (x : Flt)
  | and (l r : Flt)
  | or (l r : Flt)
  | lineConst (v : Bytes) (t : Tok) (c : CV)
  | line (v : Bytes) (t : Tok) (w : Bytes)
  | sizeConst (v : Bytes) (t : Tok) (c : CV)
  | size (v : Bytes) (t : Tok) (w : Bytes)
  | intConst (v : Bytes) (t : Tok) (c : CV)
  | int (v : Bytes) (t : Tok) (w : Bytes)
  | textConst (v : Bytes) (t : Tok) (c : CV)
  | text (v : Bytes) (t : Tok) (w : Bytes)
deriving DecidableEq, Repr, Inhabited

/-! ## Load -/

/-- the `switch filter.Op` that picks `tok` -/
def tokOf : Op → Option Tok
  | .eq => some .eql
  | .neq => some .neq
  | .gt => some .gtr
  | .gtEq => some .geq
  | .lt => some .lss
  | .ltEq => some .leq
  | _ => none

/-- `x.Value.(string)` -/
def valString : Val → LRes Bytes
  | .str s => .ok s
  | _ => .panic .typeAssert

/-- `switch rhs.Op { case FilterStringOp: MakeString(rhs.Value.(string)); case FilterIntOp: MakeInt64(rhs.Value.(int64)) }` -/
def rhsValueOf (rhs : FE) : LRes (Option CV) :=
  match rhs.op with
  | .string => match rhs.val with | .str s => .ok (some (.str s)) | _ => .panic .typeAssert
  | .int => match rhs.val with | .int i => .ok (some (.int i)) | _ => .panic .typeAssert
  | _ => .ok none

/-- the part of `newBinaryExprFilter` below the operand swap, with `lhs = Args[0]`, `rhs = Args[1]` -/
def newCmpCore (fixed : Bool) (op : Op) (lhs rhs : FE) : LRes Flt :=
  match tokOf op with
  | none => .err .unsupportedOperator
  | some tok => do
    let rhsValue ← rhsValueOf rhs
    match lhs.op with
    | .varLine =>
      match rhsValue with
      | some c => do let v ← valString lhs.val; pure (.lineConst v tok c)
      | none =>
        if rhs.op = lhs.op then do
          let v ← valString lhs.val; let w ← valString rhs.val; pure (.line v tok w)
        else .err .unsupportedBinary
    | .varTypeSize =>
      match rhsValue with
      | some c => do let v ← valString lhs.val; pure (.sizeConst v tok c)
      | none =>
        if !fixed || rhs.op = lhs.op then do
          let v ← valString lhs.val; let w ← valString rhs.val; pure (.size v tok w)
        else .err .unsupportedBinary
    | .varValueInt =>
      match rhsValue with
      | some c => do let v ← valString lhs.val; pure (.intConst v tok c)
      | none =>
        if rhs.op = lhs.op then do
          let v ← valString lhs.val; let w ← valString rhs.val; pure (.int v tok w)
        else .err .unsupportedBinary
    | .varText =>
      match rhsValue with
      | some c => do let v ← valString lhs.val; pure (.textConst v tok c)
      | none =>
        if rhs.op = lhs.op then do
          let v ← valString lhs.val; let w ← valString rhs.val; pure (.text v tok w)
        else .err .unsupportedBinary
    | _ => .err .unsupportedBinary

/-- `switch filter.Args[0].Value.(type) { case string, int64:` -/
def Val.isStrOrInt : Val → Bool
  | .str _ | .int _ => true
  | _ => false

/-- the swap condition: constant on the left, not on the right, `==` or `!=` -/
def swaps (op : Op) (a0 a1 : FE) : Bool :=
  a0.op.isBasicLit && !a1.op.isBasicLit && a0.val.isStrOrInt && (op == .eq || op == .neq)

/-- `newBinaryExprFilter` for an op other than And/Or.  The Go code re-enters itself with
`Args = [Args[1], Args[0]]` when `swaps`; the re-entered call cannot swap again (`swaps_swapped`),
so the recursion is unfolded here. -/
def newCmp (fixed : Bool) (op : Op) (args : List FE) : LRes Flt :=
  match args with
  | [] => .panic .index                                   -- filter.Args[0]
  | [a0] =>
    if a0.op.isBasicLit then .panic .index                -- filter.Args[1] in the swap condition
    else match tokOf op with
      | none => .err .unsupportedOperator
      | some _ => .panic .index                           -- rhs := filter.Args[1]
  | a0 :: a1 :: _ =>
    if swaps op a0 a1 then newCmpCore fixed op a1 a0 else newCmpCore fixed op a0 a1

/-- `filterOpFlags[op] & flagHasVar` for the ops that are not predicates -/
def Op.hasVar : Op → Bool
  | .varText | .varLine | .varValueInt | .varTypeSize => true
  | _ => false

def Val.isStr : Val → Bool
  | .str _ => true
  | _ => false

/-- `newFilter` (with `newBinaryExprFilter` inlined for And/Or so that the recursion is structural) -/
def newFilter (fixed : Bool) : FE → LRes Flt
  | .mk .and _ (a :: b :: _) => do
    let lhs ← newFilter fixed a; let rhs ← newFilter fixed b; pure (.and lhs rhs)
  | .mk .and _ [a] => do let _ ← newFilter fixed a; .panic .index
  | .mk .and _ [] => .panic .index
  | .mk .or _ (a :: b :: _) => do
    let lhs ← newFilter fixed a; let rhs ← newFilter fixed b; pure (.or lhs rhs)
  | .mk .or _ [a] => do let _ ← newFilter fixed a; .panic .index
  | .mk .or _ [] => .panic .index
  | .mk .not _ (a :: _) => do let x ← newFilter fixed a; pure (.not x)
  | .mk .not _ [] => .panic .index
  | .mk (.pred id loads) _ _ => if loads then .ok (.atom id) else .err .predicate
  | .mk op v args =>
    if op.isCmp then newCmp fixed op args
    else if op.hasVar && !v.isStr then .panic .typeAssert   -- info.Vars[filter.Value.(string)]
    else .err .unsupportedExpr                               -- result.fn == nil
termination_by structural e => e

/-! ## Evaluation at one match -/

def bytesLt : Bytes → Bytes → Bool
  | [], [] => false
  | [], _ :: _ => true
  | _ :: _, [] => false
  | a :: as, b :: bs => if a < b then true else if b < a then false else bytesLt as bs

def cmpInt (t : Tok) (a b : Int) : Bool :=
  match t with
  | .eql => a == b | .neq => a != b | .lss => a < b | .leq => a ≤ b | .gtr => a > b | .geq => a ≥ b

def cmpStr (t : Tok) (a b : Bytes) : Bool :=
  match t with
  | .eql => a == b | .neq => a != b | .lss => bytesLt a b | .leq => !bytesLt b a
  | .gtr => bytesLt b a | .geq => !bytesLt a b

/-- `constant.Compare(x, tok, y)` on Int/String values.  On mixed kinds `constant.match` replaces
both operands by the String one (ord(String) < ord(Int)), so the string is compared with itself. -/
def constCompare (x : CV) (t : Tok) (y : CV) : Bool :=
  match x, y with
  | .int a, .int b => cmpInt t a b
  | .str a, .str b => cmpStr t a b
  | .int _, .str s => cmpStr t s s
  | .str s, .int _ => cmpStr t s s

def invalidEF (c : Ctx) : EF := { tparam := false, size := some c.invSize, ival := none }

/-- facts of `params.subExpr(v)` (a nil expression has `types.Typ[types.Invalid]` and no value) -/
def subExprFacts (c : Ctx) (v : Bytes) : EF :=
  match c.lookup v with
  | some (.node _ _ (some e)) => e
  | _ => invalidEF c

/-- the line of `params.subNode(v)`: unknown (`none`) for a nil node or an empty `$*` list — the Line
filters reject then (`isNilNode(n) || gogrep.IsEmptyNodeSlice(n)`, since the `fix:` commit; the pinned
code panicked there: nil dereference / `NodeSlice.Pos` indexing `exprSlice[0]`) -/
def posLine (c : Ctx) (v : Bytes) : Res (Option Int) :=
  match c.lookup v with
  | none => .ok none
  | some (.node l _ _) => .ok (some l)
  | some (.list l _ es) => if es.isEmpty then .ok none else .ok (some l)

/-- `params.nodeText(params.subNode(v))` -/
def nodeText (c : Ctx) (v : Bytes) : Res Bytes :=
  match c.lookup v with
  | none => .ok []                                 -- nodeText(nil) is empty since the `fix:` commit
  | some (.node _ t _) => .ok t
  | some (.list _ t es) => if es.isEmpty then .ok [] else .ok t          -- IsEmptyNodeSlice

/-- `typeSize(params.ctx.Sizes, typ)`: unknown (`none`) for a type without a size (the untyped nil) — the
Type.Size filters reject then (since the `fix:` commit; the pinned code called `Sizes.Sizeof`, which
panics on untyped basic types) -/
def sizeOfEF (e : EF) : Res (Option Int) := .ok e.size

/-- `exprListFilterApply` with the closure of `makeTypeSizeConstFilter`: stops at the first element
that fails -/
def sizeAll (t : Tok) (k : CV) : List EF → Res Bool
  | [] => .ok true
  | e :: es =>
    if e.tparam then .ok false else
      match e.size with
      | none => .ok false
      | some s => if constCompare (.int s) t k then sizeAll t k es else .ok false

/-- the closure `makeValueIntConstFilter` hands to `exprListFilterApply` -/
def intElem (t : Tok) (k : CV) (e : EF) : Bool :=
  match e.ival with
  | some i => constCompare (.int i) t k
  | none => false

def evalFlt (c : Ctx) : Flt → Res Bool
  | .atom id => match c.atoms[id]? with | some r => r | none => .panic .explicit
  | .not x => do let r ← evalFlt c x; pure (!r)
  | .and l r => do
    let lr ← evalFlt c l
    if !lr then pure false else evalFlt c r
  | .or l r => do
    let lr ← evalFlt c l
    if lr then pure true else evalFlt c r
  | .lineConst v t k => do
    match ← posLine c v with
    | none => pure false
    | some l => pure (constCompare (.int l) t k)
  | .line v t w => do
    match ← posLine c v, ← posLine c w with
    | some l1, some l2 => pure (constCompare (.int l1) t (.int l2))
    | _, _ => pure false
  | .sizeConst v t k =>
    match c.lookup v with
    | some (.list _ _ es) => sizeAll t k es
    | _ =>
      let e := subExprFacts c v
      if e.tparam then .ok false else
        match e.size with
        | none => .ok false
        | some s => .ok (constCompare (.int s) t k)
  | .size v t w =>
    let a := subExprFacts c v; let b := subExprFacts c w
    if a.tparam || b.tparam then .ok false else
      match a.size, b.size with
      | some s1, some s2 => .ok (constCompare (.int s1) t (.int s2))
      | _, _ => .ok false
  | .intConst v t k =>
    match c.lookup v with
    | some (.list _ _ es) => .ok (es.all (intElem t k))
    | _ =>
      match (subExprFacts c v).ival with
      | none => .ok false
      | some i => .ok (constCompare (.int i) t k)
  | .int v t w =>
    match (subExprFacts c v).ival with
    | none => .ok false
    | some i =>
      match (subExprFacts c w).ival with
      | none => .ok false
      | some j => .ok (constCompare (.int i) t (.int j))
  | .textConst v t k => do
    let s ← nodeText c v
    pure (constCompare (.str s) t k)
  | .text v t w => do
    let s1 ← nodeText c v; let s2 ← nodeText c w
    pure (constCompare (.str s1) t (.str s2))

/-! ## A run over the matches of a file -/

/-- the matches accepted before the run ends, and the panic that ended it (if any) -/
def runFrom (f : Flt) : Nat → List Ctx → List Nat × Option Panic
  | _, [] => ([], none)
  | i, c :: cs =>
    match evalFlt c f with
    | .panic p => ([], some p)
    | .ok true => let r := runFrom f (i + 1) cs; (i :: r.1, r.2)
    | .ok false => runFrom f (i + 1) cs

def runRule (f : Flt) (ms : List Ctx) : List Nat × Option Panic := runFrom f 0 ms

end FIR
