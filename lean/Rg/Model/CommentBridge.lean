import Rg.Model.Comment
import Rg.Spec.C12
/-! How the model's data is presented to the executable spec `SpecC12.verdict` (used by the driver and by
`C12.model_meets_spec`). -/
namespace CM

def atomToSpec : Atom → SpecC12.Atom
  | .textEq v l => (true, v, l)
  | .textNe v l => (false, v, l)

/-- what the spec is told about a rule: what its author wrote and what the regexp answers -/
def toSpecRule (r : CRule) : SpecC12.Rule :=
  { names := r.names, sub := r.sub, filter := r.filter.map (·.map atomToSpec),
    msg := r.msg, location := r.location, suggestion := r.suggestion, line := r.line, altLine := r.altLine }

/-- what an observer sees of a report -/
def observe (rep : Report) : SpecC12.Observed :=
  { line := rep.line, node := rep.node.map fun n => (n.pos, n.endPos), msg := rep.msg, sugg := rep.sugg }

end CM
