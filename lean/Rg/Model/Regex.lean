import Rg.Base
/-!
# Mirror of `regexp/syntax.Regexp` (the tree `syntax.Parse(pattern, syntax.Perl)` returns)

`Re.mk op flags runes subs min max` ≙ `&syntax.Regexp{Op, Flags, Rune, Sub, Min, Max}`.
`Cap`/`Name` are not mirrored (no modelled code reads them).  The harness serialises the real
tree as the S-expression `(op flags (runes…) min max sub…)`.  One inductive whose only nesting is
`List Re`, so that structural recursion (mutual with the list) works.
-/
namespace Rx

inductive Op
  | noMatch | emptyMatch | literal | charClass | anyCharNotNL | anyChar
  | beginLine | endLine | beginText | endText | wordBoundary | noWordBoundary
  | capture | star | plus | quest | repeat | concat | alternate
  | other            -- any value outside the named constants (hand-made trees only)
deriving DecidableEq, Repr, Inhabited

inductive Re
  | mk (op : Op) (flags : Nat) (runes : List Nat) (subs : List Re) (min max : Int)
deriving Repr, Inhabited

namespace Re
def op : Re → Op | .mk o _ _ _ _ _ => o
def flags : Re → Nat | .mk _ f _ _ _ _ => f
def runes : Re → List Nat | .mk _ _ r _ _ _ => r
def subs : Re → List Re | .mk _ _ _ s _ _ => s
def min : Re → Int | .mk _ _ _ _ m _ => m
def max : Re → Int | .mk _ _ _ _ _ m => m
end Re

/-- `syntax.FoldCase` (bit 0 of `Flags`) -/
def foldCase (flags : Nat) : Bool := flags % 2 == 1

/-- leaf constructors used in examples and proofs -/
def lit (flags : Nat) (rs : List Nat) : Re := .mk .literal flags rs [] 0 0
def leaf (o : Op) (flags : Nat := 0) : Re := .mk o flags [] [] 0 0
def node (o : Op) (subs : List Re) (flags : Nat := 0) : Re := .mk o flags [] subs 0 0

end Rx
