import Rg.Base
/-!
# Rg.Model.FilterIR — data shared by the filter models and the C17 / C02 specs (core Lean only)

* `FE`   : `ir.FilterExpr` as `ir_loader.go:newFilter` sees it (`Op`, `Value`, `Args`; `Src`/`Line` are
           not modelled: they only feed error messages and reject reasons);
* `Ctx`  : what one match offers to a filter closure: the verdict of every opaque predicate
           (oracle: obtained by running the predicate as its own rule) and, per pattern variable,
           the facts the comparison filters read (`Fset.Position(..).Line`, `nodeText`,
           `Sizes.Sizeof(TypeOf(e))`, `isTypeParam`, `intValueOf`), computed by the harness with
           go/types independently of ruleguard.
-/
namespace FIR

/-- `FilterExpr.Value interface{}`: nil, a string, an int64, or anything else. -/
inductive Val | none | str (s : Bytes) | int (i : Int) | other
deriving DecidableEq, Repr, Inhabited

/-- `ir.FilterOp`.  Every op that `newFilter`'s big switch turns into a predicate closure without
looking at the connectives is `pred id loads` (`loads = false`: that case returns an error, e.g. a
regexp that does not compile).  The four "value" ops, the two literals and `Invalid` have no case
in the switch. -/
inductive Op
  | invalid | not | and | or | eq | neq | gt | lt | gtEq | ltEq
  | varText | varLine | varValueInt | varTypeSize
  | string | int
  | pred (id : Nat) (loads : Bool)
deriving DecidableEq, Repr, Inhabited

/-- `filterOpFlags[op] & flagIsBinaryExpr` -/
def Op.isBinaryExpr : Op → Bool
  | .and | .or | .eq | .neq | .gt | .lt | .gtEq | .ltEq => true
  | _ => false

/-- `filterOpFlags[op] & flagIsBasicLit` -/
def Op.isBasicLit : Op → Bool
  | .string | .int => true
  | _ => false

def Op.isCmp : Op → Bool
  | .eq | .neq | .gt | .lt | .gtEq | .ltEq => true
  | _ => false

inductive FE | mk (op : Op) (val : Val) (args : List FE)
deriving Repr, Inhabited

def FE.op : FE → Op | .mk o _ _ => o
def FE.val : FE → Val | .mk _ v _ => v
def FE.args : FE → List FE | .mk _ _ a => a

/-- `go/token` comparison tokens -/
inductive Tok | eql | neq | gtr | geq | lss | leq
deriving DecidableEq, Repr, Inhabited

/-- a `constant.Value` of kind Int or String -/
inductive CV | int (i : Int) | str (s : Bytes)
deriving DecidableEq, Repr, Inhabited

/-- facts about one expression -/
structure EF where
  tparam : Bool          -- `isTypeParam(TypeOf(e))`
  size : Option Int      -- `ctx.Sizes.Sizeof(TypeOf(e))`; `none`: that call panics (go/types asserts the type is typed)
  ival : Option Int      -- `intValueOf(info, e)`: the constant value when it is of kind Int
deriving DecidableEq, Repr, Inhabited

/-- what a pattern variable is bound to in one match -/
inductive Cap
  /-- a single node; `e` = facts of `subExpr(name)` (`none`: neither an `ast.Expr` nor an `*ast.ExprStmt`) -/
  | node (line : Int) (text : Bytes) (e : Option EF)
  /-- a `*gogrep.NodeSlice` of kind `ExprNodeSlice` (`$*xs`); `line`/`text` are those of the whole
  span and are meaningless when the slice is empty -/
  | list (line : Int) (text : Bytes) (es : List EF)
deriving DecidableEq, Repr, Inhabited

structure Ctx where
  atoms : List (Res Bool)          -- verdict of predicate `id` at this match (may panic)
  vars : List (Bytes × Cap)        -- `match.CapturedByName`
  invSize : Int                    -- `ctx.Sizes.Sizeof(types.Typ[types.Invalid])`
deriving Repr, Inhabited

def Ctx.lookup (c : Ctx) (v : Bytes) : Option Cap :=
  match c.vars.find? (fun p => p.1 == v) with
  | some p => some p.2
  | none => none

end FIR
