import Rg.Model.Sink
/-!
# The sink logic after `fixes/c02-sink-contexts.diff` (C02)

`findSinkTypeR` transcribes `findSinkType` as the diff leaves it (`findSinkRoot` and `findContainingFunc` are unchanged):

* `e = astutil.Unparen(e)` first: a match that is itself parenthesised is compared like any other;
* `*ast.ValueSpec`: only an initialiser (`parent.Values`) has the declared type as its sink;
* `*ast.ReturnStmt`: only when the function has as many results as the statement has operands;
* `*ast.SendStmt` (new): the channel's element type for the value;
* `*ast.CompositeLit`: not for the literal's own type expression; `{…}` standing for `&T{…}` is read as a literal of `T`;
  index keys (slice, array) and field names (struct) have no sink; a map element needs its key;
* `*ast.CallExpr`: only when the operand count fits the signature; a callee that is no signature must be a type, and
  only its arguments have the conversion's type as their sink.
-/
namespace Sink

/-- `isElement(parent.Elts, e)` / the argument loops: some child of the list is the match -/
def anyIdx (isE : Nat → Bool) (n : Nat) : Bool := (firstIdx isE n).isSome

/-- the operand counts of the call fit the signature:
`if typ.Variadic() && !parent.Ellipsis.IsValid() { len(Args) >= n-1 } else { len(Args) == n }` -/
def arityFits (s : Sig) (ellipsis : Bool) (nArgs : Nat) : Bool :=
  let n : Int := s.params.length
  if s.variadic && !ellipsis then !decide ((nArgs : Int) < n - 1) else nArgs == s.params.length

/-- `if ptr, ok := typ.(*types.Pointer); ok && parent.Type == nil { typ = ptr.Elem().Underlying() }` -/
def derefElided (under : Under) (elided : Bool) : Under :=
  match under, elided with
  | .pointer base, true => base
  | u, _ => u

/-- `findSinkType` after the repair -/
def findSinkTypeR (c : Ctx) (parent : Option Frame) (kv : Option KV) : Res Ty :=
  -- e = astutil.Unparen(e): `astutil.Unparen(child) == e` now holds for the child that contains the match
  match parent with
  | some (.valueSpec slot declType) =>
    -- for _, v := range parent.Values { if astutil.Unparen(v) == e { return TypeOf(parent.Type) } }
    if slot == .value then
      match declType with
      | none => .ok .nil
      | some t => .ok t
    else .ok .invalid
  | some (.ret before after) =>
    match firstIdx (fun j => j == before) (before + 1 + after) with
    | none => .ok .invalid
    | some i =>
      match findContainingFunc c.frames with
      | none => .ok .invalid
      | some sig =>
        if sig.results.length != before + 1 + after then .ok .invalid else   -- sig.Results().Len() != len(parent.Results)
        match sig.results[i]? with
        | some t => .ok t
        | none => .panic .index
  | some (.send inValue chanType chanUnder) =>
    if inValue then
      if chanType = .nil then .panic .nilDeref else                          -- TypeOf(parent.Chan).Underlying()
      match chanUnder with
      | .chan el => .ok el
      | _ => .ok .invalid
    else .ok .invalid
  | some (.index inIndex xType xUnder) =>
    if inIndex then
      if xType = .nil then .panic .nilDeref else
      match xUnder with
      | .map k _ => .ok k
      | .slice _ | .array _ => .ok .nil
      | _ => .ok .invalid
    else .ok .invalid
  | some (.assign tok onRhs pos lhs nRhs) =>
    if tok != .assign || lhs.length != nRhs then .ok .invalid else
    match firstIdx (fun j => onRhs && j == pos) nRhs with
    | none => .ok .invalid
    | some i =>
      match lhs[i]? with
      | some t => .ok t
      | none => .panic .index
  | some (.composite slot nElts litType under elided) =>
    -- isKey := kv != nil && astutil.Unparen(kv.Key) == e
    let isKey := match kv with | some kv => kv.inKey | none => false
    -- if kv == nil && !isElement(parent.Elts, e) { break }
    if kv.isNone && !anyIdx (fun j => slot == some j) nElts then .ok .invalid else
    if litType = .nil then .panic .nilDeref else
    -- if ptr, ok := typ.(*types.Pointer); ok && parent.Type == nil { typ = ptr.Elem().Underlying() }
    match derefElided under elided with
    | .slice el => if isKey then .ok .invalid else .ok el
    | .array el => if isKey then .ok .invalid else .ok el
    | .map k el => if isKey then .ok k else if kv.isSome then .ok el else .ok .invalid
    | .strct fields =>
      match kv with
      | none =>
        match firstIdx (fun j => (slot == some j) && decide (j < fields.length)) nElts with
        | some i => (match fields[i]? with | some f => .ok f.2 | none => .panic .index)
        | none => .ok .invalid
      | some kv =>
        match kv.keyIdent with
        | none => .ok .invalid
        | some name =>
          if isKey then .ok .invalid else                                    -- if !ok || isKey { break }
          match fieldByName name fields with
          | some t => .ok t
          | none => .ok .invalid
    | _ => .ok .invalid
  | some (.call slot nArgs fn ellipsis) =>
    match fn with
    | .sig s =>
      match firstIdx (fun j => slot == some j) nArgs with
      | none => .ok .invalid
      | some i => if arityFits s ellipsis nArgs then callArg s ellipsis i else .ok .invalid
    | .notSig t isType =>
      -- if tv, ok := Types.Types[parent.Fun]; ok && tv.IsType() { for _, arg := range parent.Args { if Unparen(arg) == e { return typ } } }
      if isType && anyIdx (fun j => slot == some j) nArgs then .ok t else .ok .invalid
  | _ => .ok .invalid

def findSinkR (c : Ctx) : Res Ty :=
  match findSinkRoot c.frames with
  | .panic p => .panic p
  | .ok (parent, kv) => findSinkTypeR c parent kv

def sinkTypeIsR (c : Ctx) (isT : Nat → Bool) : Res Bool :=
  if c.matchIsExpr then
    match findSinkR c with
    | .panic p => .panic p
    | .ok (.id n) => .ok (isT n)
    | .ok _ => .ok false
  else .ok false

end Sink
