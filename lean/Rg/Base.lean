/-!
# Rg.Base — shared vocabulary of all models (core Lean only)

* `Bytes`   : Go `[]byte` / `string` as a list of bytes
* `Panic`   : the run-time panics the models make explicit
* `Res α`   : a Go computation that may panic (`DecidableEq`, so counterexamples are `decide`-checkable)
* `goSlice` : Go's `s[lo:hi]` with its bounds check
-/

abbrev Bytes := List UInt8

inductive Panic
  | slice      -- slice bounds out of range
  | index      -- index out of range
  | nilDeref   -- nil pointer dereference
  | typeAssert -- failed type assertion
  | explicit   -- explicit panic(...)
  | stack      -- fatal error: stack overflow (unbounded recursion; the runtime's `throw`, not recoverable)
deriving Repr, DecidableEq, Inhabited

inductive Res (α : Type) | ok (a : α) | panic (p : Panic)
deriving Repr, DecidableEq

namespace Res
def bind {α β} (x : Res α) (f : α → Res β) : Res β :=
  match x with | .ok a => f a | .panic p => .panic p
instance : Monad Res where
  pure := .ok
  bind := Res.bind
@[simp] theorem bind_ok {α β} (a : α) (f : α → Res β) : (Res.ok a >>= f) = f a := rfl
@[simp] theorem bind_panic {α β} (p : Panic) (f : α → Res β) : ((Res.panic p : Res α) >>= f) = .panic p := rfl
@[simp] theorem pure_eq {α} (a : α) : (pure a : Res α) = .ok a := rfl
def isOk {α} : Res α → Bool | .ok _ => true | .panic _ => false
end Res

/-- Go `s[lo:hi]` on a byte slice: panics unless `0 ≤ lo ≤ hi ≤ len s`. -/
def goSlice (s : Bytes) (lo hi : Int) : Res Bytes :=
  if 0 ≤ lo ∧ lo ≤ hi ∧ hi ≤ s.length then .ok ((s.drop lo.toNat).take (hi - lo).toNat)
  else .panic .slice

def panicName : Panic → String
  | .slice => "slice" | .index => "index" | .nilDeref => "nil" | .typeAssert => "assert" | .explicit => "explicit" | .stack => "stack"
