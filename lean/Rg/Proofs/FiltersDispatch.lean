import Rg.Proofs.FiltersSound
/-! `newFilter` computes `SpecC17.sem` (C17.binary_dispatch_sound), and the as-is loader agrees with
the repaired one on size-guarded trees. -/
namespace FIR
open SpecC17

theorem bind_valString_ok {lval : Val} {F : Bytes → Flt} {f : Flt}
    (h : (do let v ← valString lval; pure (F v) : LRes Flt) = .ok f) : ∃ v, lval = .str v ∧ f = F v := by
  cases lval <;> simp [valString] at h
  exact ⟨_, rfl, h.symm⟩

theorem bind2_valString_ok {lval rval : Val} {F : Bytes → Bytes → Flt} {f : Flt}
    (h : (do let v ← valString lval; let w ← valString rval; pure (F v w) : LRes Flt) = .ok f) :
    ∃ v w, lval = .str v ∧ rval = .str w ∧ f = F v w := by
  cases lval <;> simp [valString] at h
  cases rval <;> simp at h
  exact ⟨_, _, rfl, rfl, h.symm⟩

theorem ite_ok {α} {p : Prop} [Decidable p] {x : LRes α} {e : LErr} {a : α}
    (h : (if p then x else .err e) = .ok a) : p ∧ x = .ok a := by
  by_cases hp : p <;> simp_all

theorem core_sound {c : Ctx} {op : Op} {l r : FE} {f : Flt} {rb : Bool}
    (hl : newCmpCore true op l r = .ok f) (hs : semCmp c op l r = some rb) : evalFlt c f = .ok rb := by
  unfold newCmpCore at hl
  cases ht : tokOf op with
  | none => simp [ht] at hl
  | some t =>
    simp only [ht] at hl
    cases hrv : rhsValueOf r with
    | err e => simp [hrv] at hl
    | panic p => simp [hrv] at hl
    | ok rv =>
      simp only [hrv, LRes.bind_ok] at hl
      obtain ⟨lop, lval, largs⟩ := l
      obtain ⟨rop, rval, rargs⟩ := r
      cases rv with
      | some k =>
        obtain ⟨hlit, hor⟩ := rhsValueOf_some (c := c) hrv
        cases lop <;> simp only [FE.op, FE.val] at hl <;> (try (simp at hl; done)) <;>
          obtain ⟨v, rfl, rfl⟩ := bind_valString_ok hl
        · exact textConst_sound ht hor hs
        · exact lineConst_sound ht hor hs
        · exact intConst_sound ht hlit hor hs
        · exact sizeConst_sound ht hlit hor hs
      | none =>
        cases lop <;> simp only [FE.op, FE.val, Bool.not_true, Bool.false_or] at hl <;>
          (try (simp at hl; done))
        · obtain ⟨heq, hl⟩ := ite_ok hl; subst heq
          obtain ⟨v, w, rfl, rfl, rfl⟩ := bind2_valString_ok hl
          exact text_sound ht hs
        · obtain ⟨heq, hl⟩ := ite_ok hl; subst heq
          obtain ⟨v, w, rfl, rfl, rfl⟩ := bind2_valString_ok hl
          exact line_sound ht hs
        · obtain ⟨heq, hl⟩ := ite_ok hl; subst heq
          obtain ⟨v, w, rfl, rfl, rfl⟩ := bind2_valString_ok hl
          exact int_sound ht hs
        · obtain ⟨heq, hl⟩ := ite_ok hl
          have heq := of_decide_eq_true heq; subst heq
          obtain ⟨v, w, rfl, rfl, rfl⟩ := bind2_valString_ok hl
          exact size_sound ht hs

/-! ## the operand swap -/

theorem swaps_swapped {op : Op} {a0 a1 : FE} (h : swaps op a0 a1 = true) : swaps op a1 a0 = false := by
  simp [swaps] at h ⊢
  intro h1; simp_all

theorem allSome_map_congr {α} {f g : α → Option Bool} {l : List α} (h : ∀ x, f x = g x) :
    allSome (l.map f) = allSome (l.map g) := by
  have : f = g := funext h
  rw [this]

theorem semCmp_swap {c : Ctx} {op : Op} (hop : op = .eq ∨ op = .neq) (a b : FE) :
    semCmp c op a b = semCmp c op b a := by
  unfold semCmp
  cases ha : operand c a with
  | none =>
    cases hb : operand c b with
    | none => rfl
    | some ob => cases ob <;> rfl
  | some oa =>
    cases hb : operand c b with
    | none => cases oa <;> rfl
    | some ob =>
      cases oa with
      | one u =>
        cases ob with
        | one v => exact rel_symm hop u v
        | each vs =>
          simp only []
          split
          · exact allSome_map_congr (fun v => rel_symm hop u v)
          · rfl
      | each us =>
        cases ob with
        | one v =>
          simp only []
          split
          · exact allSome_map_congr (fun u => rel_symm hop u v)
          · rfl
        | each vs => rfl

theorem swaps_op {op : Op} {a0 a1 : FE} (h : swaps op a0 a1 = true) : op = .eq ∨ op = .neq := by
  simp [swaps] at h
  exact h.2

/-- `newBinaryExprFilter` on a comparison with exactly two operands -/
theorem newCmp_sound {c : Ctx} {op : Op} {a b : FE} {f : Flt} {rb : Bool}
    (hl : newCmp true op [a, b] = .ok f) (hs : semCmp c op a b = some rb) : evalFlt c f = .ok rb := by
  simp only [newCmp] at hl
  split at hl
  · rename_i hsw
    rw [semCmp_swap (swaps_op hsw)] at hs
    exact core_sound hl hs
  · exact core_sound hl hs

/-! ## the whole filter -/

theorem evalFlt_and (c : Ctx) (l r : Flt) :
    evalFlt c (.and l r) = andR (evalFlt c l) (evalFlt c r) := by
  simp only [evalFlt, andR]
  cases evalFlt c l with
  | panic p => rfl
  | ok b => cases b <;> rfl

theorem evalFlt_or (c : Ctx) (l r : Flt) :
    evalFlt c (.or l r) = orR (evalFlt c l) (evalFlt c r) := by
  simp only [evalFlt, orR]
  cases evalFlt c l with
  | panic p => rfl
  | ok b => cases b <;> rfl

theorem evalFlt_not (c : Ctx) (x : Flt) : evalFlt c (.not x) = notR (evalFlt c x) := by
  simp only [evalFlt, notR]
  cases evalFlt c x with
  | panic p => rfl
  | ok b => rfl

theorem bind_ok_inv {α β} {x : LRes α} {g : α → LRes β} {b : β} (h : (x >>= g) = .ok b) :
    ∃ a, x = .ok a ∧ g a = .ok b := by
  cases x <;> simp at h
  exact ⟨_, rfl, h⟩

theorem sem_cmp_some {c : Ctx} {op : Op} {v : Val} {a b : FE} {rb : Bool} (h : op.isCmp = true)
    (hq : semCmp c op a b = some rb) : sem c (.mk op v [a, b]) = some (.ok rb) := by
  cases op <;> simp_all [sem, Op.isCmp]

theorem sem_cmp_none {c : Ctx} {op : Op} {v : Val} {a b : FE} (h : op.isCmp = true)
    (hq : semCmp c op a b = none) : sem c (.mk op v [a, b]) = none := by
  cases op <;> simp_all [sem, Op.isCmp]

/-- What a loaded filter answers at a match is what the expression denotes there. -/
theorem dispatch_sound (c : Ctx) (e : FE) : ∀ (f : Flt) (r : Res Bool),
    newFilter true e = .ok f → sem c e = some r → evalFlt c f = r := by
  fun_induction newFilter true e with
  | case1 v a b rest iha ihb =>
    intro f r hl hs
    obtain ⟨fa, ha, hl⟩ := bind_ok_inv hl
    obtain ⟨fb, hb, hl⟩ := bind_ok_inv hl
    simp at hl; subst hl
    cases rest with
    | cons x xs => simp [sem] at hs
    | nil =>
      simp only [sem] at hs
      cases hsa : sem c a with
      | none => simp [hsa] at hs
      | some x =>
        cases hsb : sem c b with
        | none => simp [hsa, hsb] at hs
        | some y =>
          simp [hsa, hsb] at hs; subst hs
          rw [evalFlt_and, iha fa x ha hsa, ihb fb y hb hsb]
  | case2 v a iha =>
    intro f r hl hs
    obtain ⟨fa, ha, hl⟩ := bind_ok_inv hl
    simp at hl
  | case3 v => intro f r hl; simp at hl
  | case4 v a b rest iha ihb =>
    intro f r hl hs
    obtain ⟨fa, ha, hl⟩ := bind_ok_inv hl
    obtain ⟨fb, hb, hl⟩ := bind_ok_inv hl
    simp at hl; subst hl
    cases rest with
    | cons x xs => simp [sem] at hs
    | nil =>
      simp only [sem] at hs
      cases hsa : sem c a with
      | none => simp [hsa] at hs
      | some x =>
        cases hsb : sem c b with
        | none => simp [hsa, hsb] at hs
        | some y =>
          simp [hsa, hsb] at hs; subst hs
          rw [evalFlt_or, iha fa x ha hsa, ihb fb y hb hsb]
  | case5 v a iha =>
    intro f r hl hs
    obtain ⟨fa, ha, hl⟩ := bind_ok_inv hl
    simp at hl
  | case6 v => intro f r hl; simp at hl
  | case7 v a rest iha =>
    intro f r hl hs
    obtain ⟨fa, ha, hl⟩ := bind_ok_inv hl
    simp at hl; subst hl
    cases rest with
    | cons x xs =>
      cases xs with
      | nil => simp [sem, Op.isCmp] at hs
      | cons y ys => simp [sem] at hs
    | nil =>
      simp only [sem] at hs
      cases hsa : sem c a with
      | none => simp [hsa] at hs
      | some x =>
        simp [hsa] at hs; subst hs
        rw [evalFlt_not, iha fa x ha hsa]
  | case8 v => intro f r hl; simp at hl
  | case9 id v args =>
    intro f r hl hs
    simp at hl; subst hl
    simp only [sem] at hs
    simp [evalFlt, hs]
  | case10 id loads v args hload =>
    intro f r hl; simp at hl
  | case11 op v args _ _ _ _ _ _ _ _ _ hcmp =>
    intro f r hl hs
    cases args with
    | nil => cases op <;> simp_all [sem]
    | cons a rest =>
      cases rest with
      | nil => cases op <;> simp_all [sem]
      | cons b rest2 =>
        cases rest2 with
        | cons x xs => cases op <;> simp_all [sem]
        | nil =>
          cases hq : semCmp c op a b with
          | none => rw [sem_cmp_none hcmp hq] at hs; simp at hs
          | some rb =>
            rw [sem_cmp_some hcmp hq] at hs; simp at hs; subst hs
            exact newCmp_sound hl hq
  | case12 op v args _ _ _ _ _ _ _ _ _ hcmp hv =>
    intro f r hl; simp at hl
  | case13 op v args _ _ _ _ _ _ _ _ _ hcmp hv =>
    intro f r hl; simp at hl

/-! ## the as-is loader on size-guarded trees -/

/-- the guard the `FilterVarTypeSizeOp` branch lacks: a `Type.Size` on the left (after the swap) is
compared with a literal or with another `Type.Size` -/
def cmpGuarded (op : Op) (args : List FE) : Bool :=
  match args with
  | a :: b :: _ =>
    let l := if swaps op a b then b else a
    let r := if swaps op a b then a else b
    !(l.op == .varTypeSize) || r.op.isBasicLit || r.op == .varTypeSize
  | _ => true

/-- every comparison `newFilter` reaches is guarded -/
def sizeGuarded : FE → Bool
  | .mk .and _ (a :: b :: _) => sizeGuarded a && sizeGuarded b
  | .mk .and _ [a] => sizeGuarded a
  | .mk .and _ [] => true
  | .mk .or _ (a :: b :: _) => sizeGuarded a && sizeGuarded b
  | .mk .or _ [a] => sizeGuarded a
  | .mk .or _ [] => true
  | .mk .not _ (a :: _) => sizeGuarded a
  | .mk .not _ [] => true
  | .mk (.pred _ _) _ _ => true
  | .mk op _ args => !op.isCmp || cmpGuarded op args
termination_by structural e => e

theorem core_asis_eq {op : Op} {l r : FE}
    (h : (!(l.op == .varTypeSize) || r.op.isBasicLit || r.op == .varTypeSize) = true) :
    newCmpCore false op l r = newCmpCore true op l r := by
  unfold newCmpCore
  cases tokOf op with
  | none => rfl
  | some t =>
    simp only []
    cases hrv : rhsValueOf r with
    | err e => rfl
    | panic p => rfl
    | ok rv =>
      simp only [LRes.bind_ok]
      obtain ⟨lop, lval, largs⟩ := l
      cases lop <;> try rfl
      cases rv with
      | some k => rfl
      | none =>
        have hnl := rhsValueOf_none hrv
        have hl : (FE.mk Op.varTypeSize lval largs).op = Op.varTypeSize := rfl
        rw [hl, hnl] at h
        have h2 : r.op = Op.varTypeSize := by simpa using h
        simp [hl, h2]

theorem newCmp_asis_eq {op : Op} {args : List FE} (h : cmpGuarded op args = true) :
    newCmp false op args = newCmp true op args := by
  unfold newCmp
  match args, h with
  | [], _ => rfl
  | [a], _ => rfl
  | a :: b :: rest, h =>
    simp only [cmpGuarded] at h
    by_cases hsw : swaps op a b = true
    · simp only [hsw, if_true] at h ⊢; exact core_asis_eq h
    · simp only [hsw] at h ⊢; exact core_asis_eq h

theorem newFilter_asis_eq (e : FE) : sizeGuarded e = true → newFilter false e = newFilter true e := by
  fun_induction sizeGuarded e with
  | case1 v a b rest iha ihb =>
    intro h; simp at h
    simp only [newFilter, iha h.1, ihb h.2]
  | case2 v a iha => intro h; simp only [newFilter, iha h]
  | case3 v => intro _; rfl
  | case4 v a b rest iha ihb =>
    intro h; simp at h
    simp only [newFilter, iha h.1, ihb h.2]
  | case5 v a iha => intro h; simp only [newFilter, iha h]
  | case6 v => intro _; rfl
  | case7 v a rest iha => intro h; simp only [newFilter, iha h]
  | case8 v => intro _; rfl
  | case9 id loads v args => intro _; simp only [newFilter]
  | case10 op v args _ _ _ _ _ _ _ _ _ =>
    intro h
    by_cases hc : op.isCmp = true
    · simp [hc] at h
      cases op <;> simp_all [newFilter, Op.isCmp, newCmp_asis_eq h]
    · cases op <;> simp_all [newFilter, Op.isCmp]

end FIR
