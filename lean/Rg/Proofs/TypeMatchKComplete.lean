import Rg.Proofs.TypeMatchKSound
/-!
# Completeness of the backtracking matcher

If the pattern denotes the type under *some* assignment `σ`, `matchK` finds a match: every split point of a
`$*_` is tried and a failed attempt leaves the binding tables as they were (`matchK_restores`), so the attempt
`σ` describes is eventually made — with tables whose entries are *identical* to (not necessarily equal to) the
values of `σ`.  Comparing a later occurrence of `$T` with the first one instead of with `σ T` is where symmetry
and transitivity of the identity relation are needed (`IdLaws`).
-/
open XTypes TypeMatch
open SpecC10 (Denotes DenotesSeq Rules)

namespace TypeMatch

/-- What completeness needs of `xtypes.Identical` (`tid fx`) on the types `W` a match can touch: symmetry,
transitivity, and that a left operand may be unaliased first; `W` is closed under the steps of the matcher. -/
structure IdLaws (fx : Bool) (W : Ty → Prop) : Prop extends WClosed W where
  symm : ∀ x y, W x → W y → tid fx x y = true → tid fx y x = true
  trans : ∀ x y z, W x → W y → W z → tid fx x y = true → tid fx y z = true → tid fx x z = true
  unaliasL : ∀ x y, W x → tid fx x y = true → tid fx (unalias x) y = true

/-- the binding tables `st` are consistent with the assignment `σ`: every type bound is identical to the value of
`σ`, every length bound equals it -/
def Compat (fx : Bool) (W : Ty → Prop) (st σ : MState) : Prop :=
  (∀ x z, lookupT st x = some z → W z ∧ ∃ y, lookupT σ x = some y ∧ tid fx z y = true) ∧
  (∀ v n, lookupI st v = some n → lookupI σ v = some n)

theorem compat_empty (fx : Bool) (W : Ty → Prop) (σ : MState) : Compat fx W MState.empty σ :=
  ⟨fun x z h => by simp [lookupT, MState.empty] at h, fun v n h => by simp [lookupI, MState.empty] at h⟩

theorem compat_bindT {fx : Bool} {W : Ty → Prop} {st σ : MState} {x : String} {z y : Ty} (hc : Compat fx W st σ)
    (hw : W z) (hy : lookupT σ x = some y) (hi : tid fx z y = true) :
    Compat fx W { st with tm := (x, z) :: st.tm } σ := by
  refine ⟨fun x' z' h => ?_, hc.2⟩
  by_cases hx : x = x'
  · subst hx
    rw [lookupT_bind_self] at h
    cases h
    exact ⟨hw, y, hy, hi⟩
  · have : (x == x') = false := by simpa using hx
    exact hc.1 x' z' (by simpa [lookupT, List.find?, this] using h)

theorem compat_bindI {fx : Bool} {W : Ty → Prop} {st σ : MState} {v : String} {n : Int} (hc : Compat fx W st σ)
    (hn : lookupI σ v = some n) : Compat fx W { st with im := (v, n) :: st.im } σ := by
  refine ⟨hc.1, fun v' n' h => ?_⟩
  by_cases hv : v = v'
  · subst hv
    rw [lookupI_bind_self] at h
    cases h
    exact hn
  · have : (v == v') = false := by simpa using hv
    exact hc.2 v' n' (by simpa [lookupI, List.find?, this] using h)

/-- only the nil type is identical to the nil type -/
theorem tid_nil_right (fx : Bool) (x : Ty) (hx : notAlias x = true) (h : tid fx x .nil = true) : x = .nil := by
  have hn : norm fx .nil = .nil := by cases fx <;> simp [norm, unalias]
  unfold tid at h
  rw [hn] at h
  cases x <;> first | rfl | (unfold tidC at h; simp at h; done) | (simp [notAlias] at hx)

/-! ## well-formed patterns: what `parseExpr` builds -/

def noSeq (ps : List Pat) : Bool := ps.all fun p => !p.isSeq

mutual
/-- the parameter / member lists of `opFuncNoSeq` / `opStructNoSeq` nodes contain no `$*_` -/
def Pat.wf : Pat → Bool
  | .ptr e => e.wf
  | .slice e => e.wf
  | .arrayVar _ e => e.wf
  | .arrayLit _ e => e.wf
  | .chan _ e => e.wf
  | .map k v => k.wf && v.wf
  | .funcNoSeq ps rs => noSeq ps && noSeq rs && wfList ps && wfList rs
  | .func ps rs => wfList ps && wfList rs
  | .structNoSeq ms => noSeq ms && wfList ms
  | .struct ms => wfList ms
  | _ => true
def wfList : List Pat → Bool
  | [] => true
  | p :: ps => p.wf && wfList ps
end

theorem denSeq_length {I : Ty → Ty → Bool} {R : Rules} {σ : MState} : ∀ (ps : List Pat) (ts : List Ty),
    noSeq ps = true → DenotesSeq I R σ ps ts → ts.length = ps.length
  | [], ts, _, h => by cases h; rfl
  | p :: ps, ts, hn, h => by
    simp only [noSeq, List.all_cons, Bool.and_eq_true, Bool.not_eq_true'] at hn
    cases h with
    | run _ _ n _ => simp [Pat.isSeq] at hn
    | cons _ _ t ts' _ hs =>
      simp only [List.length_cons, Nat.add_right_cancel_iff]
      exact denSeq_length ps ts' (by simpa [noSeq] using hn.2) hs

theorem trySplits_complete {rest : List Ty → MState → Bool × MState} (Hr : ∀ fs, Restoring (rest fs)) :
    ∀ (fields : List Ty) (n : Nat) (st : MState), (rest (fields.drop n) st).1 = true →
      (trySplits rest fields st).1 = true
  | [], n, st, h => by
    unfold trySplits
    simpa using h
  | f :: fs, n, st, h => by
    unfold trySplits
    rcases hr : rest (f :: fs) st with ⟨b, s1⟩
    cases b
    · simp only
      have e1 := Hr (f :: fs) st s1 hr
      subst e1
      cases n with
      | zero => simp [hr] at h
      | succ n => exact trySplits_complete Hr fs n s1 (by simpa using h)
    · rfl

section
variable {fx : Bool} {W : Ty → Prop}

theorem fst_of_bind (r : Bool × MState) (f : MState → MState) (h : r.1 = true) :
    (match r with | (true, s) => (true, s) | (false, s) => (false, f s)).1 = true := by
  rcases r with ⟨b, s⟩; cases b <;> simp_all

mutual
theorem completeK (L : IdLaws fx W) (σ : MState) (hσW : ∀ x y, lookupT σ x = some y → W y) :
    ∀ (p : Pat) (t : Ty) (k : MState → Bool × MState) (st : MState), p.wf = true → W t →
      Denotes (tid fx) Rules.repaired σ p t → Compat fx W st σ → Restoring k →
      (∀ s, Compat fx W s σ → (k s).1 = true) → (matchK fx p t st k).1 = true
  | .var name, t, k, st, _, hw, hd, hc, hk, hn => by
    unfold matchK
    split
    · exact hn st hc
    · rename_i hname
      cases hd with
      | wild => simp at hname
      | var _ y _ hy hi =>
        have hi' := L.unaliasL t y hw hi
        have hwu := L.w_unalias t hw
        split
        · exact fst_of_bind _ _ (hn _ (compat_bindT hc hwu hy hi'))
        · rename_i z hl
          obtain ⟨hwz, y', hy', hz⟩ := hc.1 name z hl
          rw [spec_lookupT] at hy
          rw [hy] at hy'
          cases hy'
          have hwy := hσW name y hy
          have hi'' : tid fx (unalias t) z = true :=
            L.trans _ y z hwu hwy hwz hi' (L.symm z y hwz hwy hz)
          split
          · rename_i hz0
            subst hz0
            have := tid_nil_right fx (unalias t) (notAlias_unalias t) hi''
            first
              | exact hn st hc
              | (simp only [this, if_true]; exact hn st hc)
          · first
              | exact hn st hc
              | (simp only [hi'', if_true]; exact hn st hc)
  | .builtin b, t, k, st, _, hw, hd, hc, hk, hn => by
    unfold matchK
    cases hd with
    | builtin _ _ hi =>
      simp only [L.unaliasL t b hw hi, if_true]
      exact hn st hc
  | .varSeq, t, k, st, _, hw, hd, hc, hk, hn => by cases hd
  | .ptr e, t, k, st, hwf, hw, hd, hc, hk, hn => by
    unfold matchK
    cases hd with
    | ptr _ _ a hu hd =>
      rw [unaliasTarget_repaired] at hu
      simp only [hu]
      have hwa := L.w_ptr a (hu ▸ L.w_unalias t hw)
      exact completeK L σ hσW e a k st (by simpa [Pat.wf] using hwf) hwa hd hc hk hn
  | .slice e, t, k, st, hwf, hw, hd, hc, hk, hn => by
    unfold matchK
    cases hd with
    | slice _ _ a hu hd =>
      rw [unaliasTarget_repaired] at hu
      simp only [hu]
      have hwa := L.w_slice a (hu ▸ L.w_unalias t hw)
      exact completeK L σ hσW e a k st (by simpa [Pat.wf] using hwf) hwa hd hc hk hn
  | .arrayVar v e, t, k, st, hwf, hw, hd, hc, hk, hn => by
    unfold matchK
    have hwe : e.wf = true := by simpa [Pat.wf] using hwf
    cases hd with
    | arrayWild _ _ n a hu hd =>
      rw [unaliasTarget_repaired] at hu
      simp only [hu, beq_self_eq_true, if_true]
      have hwa := L.w_array n a (hu ▸ L.w_unalias t hw)
      exact completeK L σ hσW e a k st hwe hwa hd hc hk hn
    | arrayVar _ _ _ n a hu hl hd =>
      rw [unaliasTarget_repaired] at hu
      simp only [hu]
      have hwa := L.w_array n a (hu ▸ L.w_unalias t hw)
      split
      · exact completeK L σ hσW e a k st hwe hwa hd hc hk hn
      · split
        · rename_i len hlen
          have := hc.2 v len hlen
          rw [spec_lookupI] at hl
          rw [hl] at this
          cases this
          simp only [beq_self_eq_true, if_true]
          exact completeK L σ hσW e a k st hwe hwa hd hc hk hn
        · exact fst_of_bind _ _ (completeK L σ hσW e a k _ hwe hwa hd (compat_bindI hc hl) hk hn)
  | .arrayLit len e, t, k, st, hwf, hw, hd, hc, hk, hn => by
    unfold matchK
    cases hd with
    | arrayLit _ _ _ a hu hd =>
      rw [unaliasTarget_repaired] at hu
      simp only [hu, beq_self_eq_true, if_true]
      have hwa := L.w_array len a (hu ▸ L.w_unalias t hw)
      exact completeK L σ hσW e a k st (by simpa [Pat.wf] using hwf) hwa hd hc hk hn
  | .map pk pv, t, k, st, hwf, hw, hd, hc, hk, hn => by
    unfold matchK
    simp only [Pat.wf, Bool.and_eq_true] at hwf
    cases hd with
    | map _ _ _ tk tv hu hd1 hd2 =>
      rw [unaliasTarget_repaired] at hu
      simp only [hu]
      have hwkv := L.w_map tk tv (hu ▸ L.w_unalias t hw)
      exact completeK L σ hσW pk tk _ st hwf.1 hwkv.1 hd1 hc (matchK_restores pv tv k hk)
        (fun s hs => completeK L σ hσW pv tv k s hwf.2 hwkv.2 hd2 hs hk hn)
  | .chan dir e, t, k, st, hwf, hw, hd, hc, hk, hn => by
    unfold matchK
    cases hd with
    | chan _ _ _ a hu hd =>
      rw [unaliasTarget_repaired] at hu
      simp only [hu, beq_self_eq_true, if_true]
      have hwa := L.w_chan dir a (hu ▸ L.w_unalias t hw)
      exact completeK L σ hσW e a k st (by simpa [Pat.wf] using hwf) hwa hd hc hk hn
  | .named pkgPath typeName, t, k, st, _, hw, hd, hc, hk, hn => by
    unfold matchK
    cases hd with
    | named _ _ _ u o path x l targs hu hs _ hl =>
      rw [unaliasTarget_repaired] at hu
      rw [stripVendor_repaired] at hs
      have hl' : l = false := hl (by simp [Rules.repaired])
      subst hl'
      simp only [hu, hs, beq_self_eq_true, Bool.not_false, Bool.and_self, if_true]
      exact hn st hc
  | .funcNoSeq pps prs, t, k, st, hwf, hw, hd, hc, hk, hn => by
    unfold matchK
    simp only [Pat.wf, Bool.and_eq_true] at hwf
    obtain ⟨⟨⟨hns1, hns2⟩, hw1⟩, hw2⟩ := hwf
    cases hd with
    | funcNoSeq _ _ _ v tps params results hu hv ht hd1 hd2 =>
      rw [unaliasTarget_repaired] at hu
      rw [tupleElems_eq] at hd1 hd2
      have hv' : v = false := hv (by simp [Rules.repaired])
      have ht' : tps = [] := ht (by simp [Rules.repaired])
      subst hv' ht'
      have hws := L.w_sig _ _ _ _ (hu ▸ L.w_unalias t hw)
      simp only [hu, denSeq_length _ _ hns1 hd1, denSeq_length _ _ hns2 hd2, Bool.false_or, List.isEmpty_nil,
        Bool.not_true, Bool.false_eq_true, if_false, bne_self_eq_false]
      exact completeFieldsK L σ hσW pps _ _ st hw1 hws.1 hd1 hc (matchFieldsK_restores prs _ k hk)
        (fun s hs => completeFieldsK L σ hσW prs _ k s hw2 hws.2 hd2 hs hk hn)
  | .func pps prs, t, k, st, hwf, hw, hd, hc, hk, hn => by
    unfold matchK
    simp only [Pat.wf, Bool.and_eq_true] at hwf
    cases hd with
    | func _ _ _ v tps params results hu hv ht hd1 hd2 =>
      rw [unaliasTarget_repaired] at hu
      rw [tupleElems_eq] at hd1 hd2
      have hv' : v = false := hv (by simp [Rules.repaired])
      have ht' : tps = [] := ht (by simp [Rules.repaired])
      subst hv' ht'
      have hws := L.w_sig _ _ _ _ (hu ▸ L.w_unalias t hw)
      simp only [hu, Bool.false_or, List.isEmpty_nil, Bool.not_true, Bool.false_eq_true, if_false]
      exact completeFieldsK L σ hσW pps _ _ st hwf.1 hws.1 hd1 hc (matchFieldsK_restores prs _ k hk)
        (fun s hs => completeFieldsK L σ hσW prs _ k s hwf.2 hws.2 hd2 hs hk hn)
  | .structNoSeq subs, t, k, st, hwf, hw, hd, hc, hk, hn => by
    unfold matchK
    simp only [Pat.wf, Bool.and_eq_true] at hwf
    cases hd with
    | structNoSeq _ _ fs hu hd =>
      rw [unaliasTarget_repaired] at hu
      rw [fieldTypes_eq] at hd
      have hws := L.w_struct fs (hu ▸ L.w_unalias t hw)
      have hlen := denSeq_length _ _ hwf.1 hd
      rw [fieldTypes_length] at hlen
      simp only [hu, hlen, bne_self_eq_false, Bool.false_eq_true, if_false]
      exact completeFieldsK L σ hσW subs _ k st hwf.2 hws hd hc hk hn
  | .struct subs, t, k, st, hwf, hw, hd, hc, hk, hn => by
    unfold matchK
    cases hd with
    | struct _ _ fs hu hd =>
      rw [unaliasTarget_repaired] at hu
      rw [fieldTypes_eq] at hd
      have hws := L.w_struct fs (hu ▸ L.w_unalias t hw)
      simp only [hu]
      exact completeFieldsK L σ hσW subs _ k st (by simpa [Pat.wf] using hwf) hws hd hc hk hn
  | .anyIface, t, k, st, _, hw, hd, hc, hk, hn => by
    unfold matchK
    cases hd with
    | anyIface _ a c ms es hu =>
      rw [unaliasTarget_repaired] at hu
      simp only [hu]
      exact hn st hc
theorem completeFieldsK (L : IdLaws fx W) (σ : MState) (hσW : ∀ x y, lookupT σ x = some y → W y) :
    ∀ (ps : List Pat) (fs : List Ty) (k : MState → Bool × MState) (st : MState), wfList ps = true →
      (∀ e ∈ fs, W e) → DenotesSeq (tid fx) Rules.repaired σ ps fs → Compat fx W st σ → Restoring k →
      (∀ s, Compat fx W s σ → (k s).1 = true) → (matchFieldsK fx ps fs st k).1 = true
  | [], fs, k, st, _, hw, hd, hc, hk, hn => by
    unfold matchFieldsK
    cases hd
    simp only [List.isEmpty_nil, if_true]
    exact hn st hc
  | p :: ps, fs, k, st, hwf, hw, hd, hc, hk, hn => by
    unfold matchFieldsK
    simp only [wfList, Bool.and_eq_true] at hwf
    split
    · rename_i hs
      have hp : p = .varSeq := by cases p <;> simp [Pat.isSeq] at hs ⊢
      subst hp
      cases hd with
      | run _ _ n hd =>
        refine trySplits_complete (fun fs' => matchFieldsK_restores ps fs' k hk) fs n st ?_
        exact completeFieldsK L σ hσW ps _ k st hwf.2 (fun e he => hw e (List.mem_of_mem_drop he)) hd hc hk hn
      | cons _ _ t ts hd1 _ => cases hd1
    · rename_i hs
      cases hd with
      | run _ _ n _ => simp [Pat.isSeq] at hs
      | cons _ _ t ts hd1 hd2 =>
        simp only
        exact completeK L σ hσW p t _ st hwf.1 (hw t (by simp)) hd1 hc (matchFieldsK_restores ps ts k hk)
          (fun s hs' => completeFieldsK L σ hσW ps ts k s hwf.2 (fun e he => hw e (by simp [he])) hd2 hs' hk hn)
end

end

end TypeMatch
