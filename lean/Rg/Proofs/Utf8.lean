import Rg.Model.Utf8
/-! Facts about the UTF-8 mirror: widths, `decode ∘ encode`, and `decode` determines the encoding
(for every rune other than U+FFFD). -/
namespace Utf8

theorem byte_toNat (n : Nat) (h : n < 256) : (byte n).toNat = n := by
  simp [byte, UInt8.toNat_ofNat']; omega

theorem byte_of_toNat (b : UInt8) : byte b.toNat = b := by simp [byte]

theorem validRune_iff (r : Nat) : validRune r = true ↔ (r < 0xD800 ∨ (0xE000 ≤ r ∧ r ≤ 0x10FFFF)) := by
  simp [validRune]

theorem isCont_iff (b : Nat) : isCont b = true ↔ (128 ≤ b ∧ b ≤ 191) := by simp [isCont]

/-- decoding what `string(rune)` wrote gives the rune back, whatever follows -/
theorem decode_encode (r : Nat) (hv : validRune r = true) (rest : Bytes) :
    decodeRune (encodeRune r ++ rest) = (r, (encodeRune r).length) := by
  rw [validRune_iff] at hv
  unfold encodeRune
  by_cases h1 : r < 0x80
  · simp [h1, decodeRune, byte_toNat r (by omega)]
  · by_cases h2 : r < 0x800
    · have a : (byte (0xC0 + r / 64)).toNat = 0xC0 + r / 64 := byte_toNat _ (by omega)
      have b : (byte (0x80 + r % 64)).toNat = 0x80 + r % 64 := byte_toNat _ (by omega)
      have c1 : ¬ (0xC0 + r / 64 < 0x80) := by omega
      have c2 : ¬ (0xC0 + r / 64 < 0xC2) := by omega
      have c3 : (0xC0 + r / 64 < 0xE0) := by omega
      have c4 : isCont (0x80 + r % 64) = true := by rw [isCont_iff]; omega
      simp only [h1, h2, if_false, if_true, List.cons_append, List.nil_append, decodeRune, a, b, c1, c2, c3, dec2, c4,
        List.length_cons, List.length_nil, Prod.mk.injEq]
      refine ⟨?_, trivial⟩
      omega
    · have hv' : validRune r = true := by rw [validRune_iff]; exact hv
      by_cases h3 : r < 0x10000
      · have a : (byte (0xE0 + r / 4096)).toNat = 0xE0 + r / 4096 := byte_toNat _ (by omega)
        have b : (byte (0x80 + r / 64 % 64)).toNat = 0x80 + r / 64 % 64 := byte_toNat _ (by omega)
        have c : (byte (0x80 + r % 64)).toNat = 0x80 + r % 64 := byte_toNat _ (by omega)
        have c1 : ¬ (0xE0 + r / 4096 < 0x80) := by omega
        have c2 : ¬ (0xE0 + r / 4096 < 0xC2) := by omega
        have c3 : ¬ (0xE0 + r / 4096 < 0xE0) := by omega
        have c4 : (0xE0 + r / 4096 < 0xF0) := by omega
        have c5 : isCont (0x80 + r % 64) = true := by rw [isCont_iff]; omega
        have c6 : (if 0xE0 + r / 4096 = 0xE0 then 0xA0 else 0x80) ≤ 0x80 + r / 64 % 64 := by split <;> omega
        have c7 : 0x80 + r / 64 % 64 ≤ (if 0xE0 + r / 4096 = 0xED then 0x9F else 0xBF) := by split <;> omega
        simp only [h1, h2, h3, hv', Bool.not_true, Bool.false_eq_true, if_false, if_true, List.cons_append, List.nil_append,
          decodeRune, a, b, c, c1, c2, c3, c4, dec3, c5, c6, c7, and_self,
          List.length_cons, List.length_nil, Prod.mk.injEq]
        refine ⟨?_, trivial⟩
        omega
      · have a : (byte (0xF0 + r / 262144)).toNat = 0xF0 + r / 262144 := byte_toNat _ (by omega)
        have b : (byte (0x80 + r / 4096 % 64)).toNat = 0x80 + r / 4096 % 64 := byte_toNat _ (by omega)
        have c : (byte (0x80 + r / 64 % 64)).toNat = 0x80 + r / 64 % 64 := byte_toNat _ (by omega)
        have d : (byte (0x80 + r % 64)).toNat = 0x80 + r % 64 := byte_toNat _ (by omega)
        have c1 : ¬ (0xF0 + r / 262144 < 0x80) := by omega
        have c2 : ¬ (0xF0 + r / 262144 < 0xC2) := by omega
        have c3 : ¬ (0xF0 + r / 262144 < 0xE0) := by omega
        have c4 : ¬ (0xF0 + r / 262144 < 0xF0) := by omega
        have c4' : (0xF0 + r / 262144 < 0xF5) := by omega
        have c5 : isCont (0x80 + r % 64) = true := by rw [isCont_iff]; omega
        have c5' : isCont (0x80 + r / 64 % 64) = true := by rw [isCont_iff]; omega
        have c6 : (if 0xF0 + r / 262144 = 0xF0 then 0x90 else 0x80) ≤ 0x80 + r / 4096 % 64 := by split <;> omega
        have c7 : 0x80 + r / 4096 % 64 ≤ (if 0xF0 + r / 262144 = 0xF4 then 0x8F else 0xBF) := by split <;> omega
        simp only [h1, h2, h3, hv', Bool.not_true, Bool.false_eq_true, if_false, if_true, List.cons_append, List.nil_append,
          decodeRune, a, b, c, d, c1, c2, c3, c4, c4', dec4, c5, c5', c6, c7, and_self,
          List.length_cons, List.length_nil, Prod.mk.injEq]
        refine ⟨?_, trivial⟩
        omega

theorem dec2_ok {x b1 r w : Nat} (h : dec2 x b1 = (r, w)) (hr : r ≠ runeError) :
    isCont b1 = true ∧ r = (x - 0xC0) * 64 + (b1 - 0x80) ∧ w = 2 := by
  unfold dec2 at h
  split at h
  · simp only [Prod.mk.injEq] at h; exact ⟨‹_›, h.1.symm, h.2.symm⟩
  · simp only [Prod.mk.injEq] at h; exact absurd h.1.symm hr

theorem dec3_ok {x b1 b2 r w : Nat} (h : dec3 x b1 b2 = (r, w)) (hr : r ≠ runeError) :
    ((if x = 0xE0 then 0xA0 else 0x80) ≤ b1 ∧ b1 ≤ (if x = 0xED then 0x9F else 0xBF) ∧ isCont b2 = true) ∧
      r = (x - 0xE0) * 4096 + (b1 - 0x80) * 64 + (b2 - 0x80) ∧ w = 3 := by
  simp only [dec3] at h
  by_cases hc : (if x = 0xE0 then 0xA0 else 0x80) ≤ b1 ∧ b1 ≤ (if x = 0xED then 0x9F else 0xBF) ∧ isCont b2 = true
  · rw [if_pos hc] at h; simp only [Prod.mk.injEq] at h; exact ⟨hc, h.1.symm, h.2.symm⟩
  · rw [if_neg hc] at h; simp only [Prod.mk.injEq] at h; exact absurd h.1.symm hr

theorem dec4_ok {x b1 b2 b3 r w : Nat} (h : dec4 x b1 b2 b3 = (r, w)) (hr : r ≠ runeError) :
    ((if x = 0xF0 then 0x90 else 0x80) ≤ b1 ∧ b1 ≤ (if x = 0xF4 then 0x8F else 0xBF) ∧ isCont b2 = true ∧ isCont b3 = true) ∧
      r = (x - 0xF0) * 262144 + (b1 - 0x80) * 4096 + (b2 - 0x80) * 64 + (b3 - 0x80) ∧ w = 4 := by
  simp only [dec4] at h
  by_cases hc : (if x = 0xF0 then 0x90 else 0x80) ≤ b1 ∧ b1 ≤ (if x = 0xF4 then 0x8F else 0xBF) ∧ isCont b2 = true ∧ isCont b3 = true
  · rw [if_pos hc] at h; simp only [Prod.mk.injEq] at h; exact ⟨hc, h.1.symm, h.2.symm⟩
  · rw [if_neg hc] at h; simp only [Prod.mk.injEq] at h; exact absurd h.1.symm hr

theorem decodeRune_cons (c0 : UInt8) (rest : Bytes) :
    decodeRune (c0 :: rest) =
      if c0.toNat < 0x80 then (c0.toNat, 1)
      else if c0.toNat < 0xC2 then (runeError, 1)
      else if c0.toNat < 0xE0 then
        match rest with
        | c1 :: _ => dec2 c0.toNat c1.toNat
        | [] => (runeError, 1)
      else if c0.toNat < 0xF0 then
        match rest with
        | c1 :: c2 :: _ => dec3 c0.toNat c1.toNat c2.toNat
        | _ => (runeError, 1)
      else if c0.toNat < 0xF5 then
        match rest with
        | c1 :: c2 :: c3 :: _ => dec4 c0.toNat c1.toNat c2.toNat c3.toNat
        | _ => (runeError, 1)
      else (runeError, 1) := rfl

private theorem err_absurd {r w n : Nat} {α : Prop} (h : (runeError, n) = (r, w)) (hr : r ≠ runeError) : α := by
  simp only [Prod.mk.injEq] at h; exact absurd h.1.symm hr

theorem sound2 (c0 c1 : UInt8) (rest : Bytes) (r w : Nat) (hlo : ¬ c0.toNat < 0xC2) (hhi : c0.toNat < 0xE0)
    (h : dec2 c0.toNat c1.toNat = (r, w)) (hr : r ≠ runeError) :
    c0 :: c1 :: rest = encodeRune r ++ rest ∧ w = (encodeRune r).length ∧ validRune r = true := by
  have hc1 := UInt8.toNat_lt c1
  obtain ⟨hb, hr', hw'⟩ := dec2_ok h hr
  rw [isCont_iff] at hb
  have e1 : ¬ (r < 0x80) := by omega
  have e2 : r < 0x800 := by omega
  have a0 : 0xC0 + r / 64 = c0.toNat := by omega
  have a1 : 0x80 + r % 64 = c1.toNat := by omega
  refine ⟨?_, ?_, ?_⟩
  · simp only [encodeRune, e1, e2, if_false, if_true, a0, a1, byte_of_toNat, List.cons_append, List.nil_append]
  · simp only [encodeRune, e1, e2, if_false, if_true, List.length_cons, List.length_nil]; omega
  · rw [validRune_iff]; omega

theorem sound3 (c0 c1 c2 : UInt8) (rest : Bytes) (r w : Nat) (hlo : ¬ c0.toNat < 0xE0) (hhi : c0.toNat < 0xF0)
    (h : dec3 c0.toNat c1.toNat c2.toNat = (r, w)) (hr : r ≠ runeError) :
    c0 :: c1 :: c2 :: rest = encodeRune r ++ rest ∧ w = (encodeRune r).length ∧ validRune r = true := by
  have hc1 := UInt8.toNat_lt c1
  have hc2 := UInt8.toNat_lt c2
  obtain ⟨⟨hb1, hb1', hb2⟩, hr', hw'⟩ := dec3_ok h hr
  rw [isCont_iff] at hb2
  have hb1a : 0x80 ≤ c1.toNat := by split at hb1 <;> omega
  have hb1b : c1.toNat ≤ 0xBF := by split at hb1' <;> omega
  have hE0 : c0.toNat = 0xE0 → 0xA0 ≤ c1.toNat := by intro e; rw [if_pos e] at hb1; exact hb1
  have hED : c0.toNat = 0xED → c1.toNat ≤ 0x9F := by intro e; rw [if_pos e] at hb1'; exact hb1'
  have e1 : ¬ (r < 0x80) := by omega
  have e2 : ¬ (r < 0x800) := by omega
  have e3 : r < 0x10000 := by omega
  have hv : validRune r = true := by rw [validRune_iff]; omega
  have a0 : 0xE0 + r / 4096 = c0.toNat := by omega
  have a1 : 0x80 + r / 64 % 64 = c1.toNat := by omega
  have a2 : 0x80 + r % 64 = c2.toNat := by omega
  refine ⟨?_, ?_, hv⟩
  · simp only [encodeRune, e1, e2, e3, hv, Bool.not_true, Bool.false_eq_true, if_false, if_true, a0, a1, a2, byte_of_toNat,
      List.cons_append, List.nil_append]
  · simp only [encodeRune, e1, e2, e3, hv, Bool.not_true, Bool.false_eq_true, if_false, if_true, List.length_cons,
      List.length_nil]; omega

theorem sound4 (c0 c1 c2 c3 : UInt8) (rest : Bytes) (r w : Nat) (hlo : ¬ c0.toNat < 0xF0) (hhi : c0.toNat < 0xF5)
    (h : dec4 c0.toNat c1.toNat c2.toNat c3.toNat = (r, w)) (hr : r ≠ runeError) :
    c0 :: c1 :: c2 :: c3 :: rest = encodeRune r ++ rest ∧ w = (encodeRune r).length ∧ validRune r = true := by
  have hc1 := UInt8.toNat_lt c1
  have hc2 := UInt8.toNat_lt c2
  have hc3 := UInt8.toNat_lt c3
  obtain ⟨⟨hb1, hb1', hb2, hb3⟩, hr', hw'⟩ := dec4_ok h hr
  rw [isCont_iff] at hb2 hb3
  have hb1a : 0x80 ≤ c1.toNat := by split at hb1 <;> omega
  have hb1b : c1.toNat ≤ 0xBF := by split at hb1' <;> omega
  have hF0 : c0.toNat = 0xF0 → 0x90 ≤ c1.toNat := by intro e; rw [if_pos e] at hb1; exact hb1
  have hF4 : c0.toNat = 0xF4 → c1.toNat ≤ 0x8F := by intro e; rw [if_pos e] at hb1'; exact hb1'
  have e1 : ¬ (r < 0x80) := by omega
  have e2 : ¬ (r < 0x800) := by omega
  have e3 : ¬ (r < 0x10000) := by omega
  have hv : validRune r = true := by rw [validRune_iff]; omega
  have a0 : 0xF0 + r / 262144 = c0.toNat := by omega
  have a1 : 0x80 + r / 4096 % 64 = c1.toNat := by omega
  have a2 : 0x80 + r / 64 % 64 = c2.toNat := by omega
  have a3 : 0x80 + r % 64 = c3.toNat := by omega
  refine ⟨?_, ?_, hv⟩
  · simp only [encodeRune, e1, e2, e3, hv, Bool.not_true, Bool.false_eq_true, if_false, a0, a1, a2, a3, byte_of_toNat,
      List.cons_append, List.nil_append]
  · simp only [encodeRune, e1, e2, e3, hv, Bool.not_true, Bool.false_eq_true, if_false, List.length_cons,
      List.length_nil]; omega

/-- a decoded rune other than U+FFFD pins down the bytes it was decoded from: they are exactly
`string(rune)` -/
theorem decode_sound (p : Bytes) (r w : Nat) (h : decodeRune p = (r, w)) (hr : r ≠ runeError) :
    ∃ rest, p = encodeRune r ++ rest ∧ w = (encodeRune r).length ∧ validRune r = true := by
  cases p with
  | nil => exact err_absurd h hr
  | cons c0 rest =>
    rw [decodeRune_cons] at h
    by_cases h1 : c0.toNat < 0x80
    · rw [if_pos h1] at h
      simp only [Prod.mk.injEq] at h
      refine ⟨rest, ?_, ?_, ?_⟩
      · simp [encodeRune, ← h.1, h1, byte_of_toNat]
      · simp [encodeRune, ← h.1, h1, ← h.2]
      · rw [validRune_iff]; omega
    rw [if_neg h1] at h
    by_cases h2 : c0.toNat < 0xC2
    · rw [if_pos h2] at h; exact err_absurd h hr
    rw [if_neg h2] at h
    by_cases h3 : c0.toNat < 0xE0
    · rw [if_pos h3] at h
      cases rest with
      | nil => exact err_absurd h hr
      | cons c1 rest => exact ⟨rest, sound2 c0 c1 rest r w h2 h3 h hr⟩
    rw [if_neg h3] at h
    by_cases h4 : c0.toNat < 0xF0
    · rw [if_pos h4] at h
      match rest, h with
      | [], h => exact err_absurd h hr
      | [_], h => exact err_absurd h hr
      | c1 :: c2 :: rest, h => exact ⟨rest, sound3 c0 c1 c2 rest r w h3 h4 h hr⟩
    rw [if_neg h4] at h
    by_cases h5 : c0.toNat < 0xF5
    · rw [if_pos h5] at h
      match rest, h with
      | [], h => exact err_absurd h hr
      | [_], h => exact err_absurd h hr
      | [_, _], h => exact err_absurd h hr
      | c1 :: c2 :: c3 :: rest, h => exact ⟨rest, sound4 c0 c1 c2 c3 rest r w h4 h5 h hr⟩
    rw [if_neg h5] at h
    exact err_absurd h hr

/-! widths, and the shape of a multi-byte step: its interior bytes are continuation bytes -/

theorem dec2_width (x b1 : Nat) : (dec2 x b1).2 = 1 ∨ ((dec2 x b1).2 = 2 ∧ isCont b1 = true) := by
  unfold dec2; split
  · exact .inr ⟨rfl, ‹_›⟩
  · exact .inl rfl

theorem dec3_width (x b1 b2 : Nat) :
    (dec3 x b1 b2).2 = 1 ∨ ((dec3 x b1 b2).2 = 3 ∧ isCont b1 = true ∧ isCont b2 = true) := by
  simp only [dec3]
  by_cases hc : (if x = 0xE0 then 0xA0 else 0x80) ≤ b1 ∧ b1 ≤ (if x = 0xED then 0x9F else 0xBF) ∧ isCont b2 = true
  · rw [if_pos hc]
    refine .inr ⟨rfl, ?_, hc.2.2⟩
    rw [isCont_iff]
    obtain ⟨h1, h2, _⟩ := hc
    constructor
    · split at h1 <;> omega
    · split at h2 <;> omega
  · rw [if_neg hc]; exact .inl rfl

theorem dec4_width (x b1 b2 b3 : Nat) :
    (dec4 x b1 b2 b3).2 = 1 ∨ ((dec4 x b1 b2 b3).2 = 4 ∧ isCont b1 = true ∧ isCont b2 = true ∧ isCont b3 = true) := by
  simp only [dec4]
  by_cases hc : (if x = 0xF0 then 0x90 else 0x80) ≤ b1 ∧ b1 ≤ (if x = 0xF4 then 0x8F else 0xBF) ∧ isCont b2 = true ∧ isCont b3 = true
  · rw [if_pos hc]
    refine .inr ⟨rfl, ?_, hc.2.2.1, hc.2.2.2⟩
    rw [isCont_iff]
    obtain ⟨h1, h2, _⟩ := hc
    constructor
    · split at h1 <;> omega
    · split at h2 <;> omega
  · rw [if_neg hc]; exact .inl rfl

/-- width is 1..4, never more than what is there, and every byte of the step after the first is a
continuation byte -/
theorem decode_shape (c0 : UInt8) (rest : Bytes) :
    1 ≤ (decodeRune (c0 :: rest)).2 ∧ (decodeRune (c0 :: rest)).2 ≤ (c0 :: rest).length ∧
      ∀ k, 0 < k → k < (decodeRune (c0 :: rest)).2 → ∃ c, (c0 :: rest)[k]? = some c ∧ isCont c.toNat = true := by
  rw [decodeRune_cons]
  have one : ∀ (v : Nat), 1 ≤ ((v, 1) : Nat × Nat).2 ∧ ((v, 1) : Nat × Nat).2 ≤ (c0 :: rest).length ∧
      ∀ k, 0 < k → k < ((v, 1) : Nat × Nat).2 → ∃ c, (c0 :: rest)[k]? = some c ∧ isCont c.toNat = true := by
    intro v; refine ⟨Nat.le_refl _, by simp, ?_⟩; intro k h0 h1; simp at h1; omega
  by_cases h1 : c0.toNat < 0x80
  · rw [if_pos h1]; exact one _
  rw [if_neg h1]
  by_cases h2 : c0.toNat < 0xC2
  · rw [if_pos h2]; exact one _
  rw [if_neg h2]
  by_cases h3 : c0.toNat < 0xE0
  · rw [if_pos h3]
    cases rest with
    | nil => exact one _
    | cons c1 rest =>
      simp only
      rcases dec2_width c0.toNat c1.toNat with hw | ⟨hw, hc⟩
      · rw [hw]; refine ⟨Nat.le_refl _, by simp, ?_⟩; intro k h0 h1; omega
      · rw [hw]; refine ⟨by omega, by simp, ?_⟩
        intro k h0 hk
        have : k = 1 := by omega
        subst this; exact ⟨c1, rfl, hc⟩
  rw [if_neg h3]
  by_cases h4 : c0.toNat < 0xF0
  · rw [if_pos h4]
    match rest with
    | [] => exact one _
    | [_] => exact one _
    | c1 :: c2 :: rest =>
      simp only
      rcases dec3_width c0.toNat c1.toNat c2.toNat with hw | ⟨hw, hc1, hc2⟩
      · rw [hw]; refine ⟨Nat.le_refl _, by simp, ?_⟩; intro k h0 h1; omega
      · rw [hw]; refine ⟨by omega, by simp, ?_⟩
        intro k h0 hk
        have : k = 1 ∨ k = 2 := by omega
        rcases this with rfl | rfl
        · exact ⟨c1, rfl, hc1⟩
        · exact ⟨c2, rfl, hc2⟩
  rw [if_neg h4]
  by_cases h5 : c0.toNat < 0xF5
  · rw [if_pos h5]
    match rest with
    | [] => exact one _
    | [_] => exact one _
    | [_, _] => exact one _
    | c1 :: c2 :: c3 :: rest =>
      simp only
      rcases dec4_width c0.toNat c1.toNat c2.toNat c3.toNat with hw | ⟨hw, hc1, hc2, hc3⟩
      · rw [hw]; refine ⟨Nat.le_refl _, by simp, ?_⟩; intro k h0 h1; omega
      · rw [hw]; refine ⟨by omega, by simp, ?_⟩
        intro k h0 hk
        have : k = 1 ∨ k = 2 ∨ k = 3 := by omega
        rcases this with rfl | rfl | rfl
        · exact ⟨c1, rfl, hc1⟩
        · exact ⟨c2, rfl, hc2⟩
        · exact ⟨c3, rfl, hc3⟩
  rw [if_neg h5]; exact one _

/-- the first byte `string(rune)` writes is never a continuation byte -/
theorem encode_head (r : Nat) : ∃ c tl, encodeRune r = c :: tl ∧ isCont c.toNat = false := by
  unfold encodeRune
  by_cases h1 : r < 0x80
  · refine ⟨_, _, by rw [if_pos h1], ?_⟩
    rw [byte_toNat r (by omega)]; simp [isCont]; omega
  rw [if_neg h1]
  by_cases h2 : r < 0x800
  · refine ⟨_, _, by rw [if_pos h2], ?_⟩
    rw [byte_toNat _ (by omega)]; simp [isCont]; omega
  rw [if_neg h2]
  by_cases hv : validRune r = true
  · have hv' := (validRune_iff r).1 hv
    simp only [hv, Bool.not_true, Bool.false_eq_true, if_false]
    by_cases h3 : r < 0x10000
    · refine ⟨_, _, by rw [if_pos h3], ?_⟩
      rw [byte_toNat _ (by omega)]; simp [isCont]; omega
    · refine ⟨_, _, by rw [if_neg h3], ?_⟩
      rw [byte_toNat _ (by omega)]; simp [isCont]; omega
  · simp only [hv, Bool.not_false, if_true]
    exact ⟨_, _, rfl, by decide⟩
end Utf8
