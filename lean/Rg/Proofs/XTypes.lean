import Rg.Model.XTypes
import Rg.Spec.C14
/-!
# Lemmas about the model of `xtypes` (`tidC`/`tid`) and the spec (`specId`)

Part 1: unaliasing.  Part 2: `specId` is reflexive on the fragment.  Part 3: declaration tables and the
hereditary well-formedness predicate `ok`.  Part 4: the model agrees with the spec (`agree`).
-/
open XTypes

namespace XTypes

/-! ## Part 1 — unaliasing -/

theorem unalias_not_alias : ∀ (t : Ty) (u o : Nat) (t' : Ty), unalias t ≠ .alias u o t'
  | .alias _ _ t, u, o, t' => by rw [unalias]; exact unalias_not_alias t u o t'
  | .nil, _, _, _ => by simp [unalias]
  | .basic _, _, _, _ => by simp [unalias]
  | .array .., _, _, _ => by simp [unalias]
  | .slice _, _, _, _ => by simp [unalias]
  | .ptr _, _, _, _ => by simp [unalias]
  | .map .., _, _, _ => by simp [unalias]
  | .chan .., _, _, _ => by simp [unalias]
  | .tuple _, _, _, _ => by simp [unalias]
  | .sig .., _, _, _ => by simp [unalias]
  | .field .., _, _, _ => by simp [unalias]
  | .struct _, _, _, _ => by simp [unalias]
  | .method .., _, _, _ => by simp [unalias]
  | .iface .., _, _, _ => by simp [unalias]
  | .named .., _, _, _ => by simp [unalias]
  | .tparam .., _, _, _ => by simp [unalias]
  | .term .., _, _, _ => by simp [unalias]
  | .union .., _, _, _ => by simp [unalias]

/-- `t` is not an `alias` node -/
def notAlias : Ty → Bool
  | .alias .. => false
  | _ => true

theorem unalias_of_notAlias {t : Ty} (h : notAlias t = true) : unalias t = t := by
  cases t <;> simp_all [notAlias, unalias]

theorem notAlias_unalias (t : Ty) : notAlias (unalias t) = true := by
  have := unalias_not_alias t
  cases h : unalias t <;> simp_all [notAlias]

theorem unalias_idem (t : Ty) : unalias (unalias t) = unalias t :=
  unalias_of_notAlias (notAlias_unalias t)

theorem spec_unalias_eq (t : Ty) : SpecC14.unalias t = unalias t := by
  induction t using Ty.rec (motive_2 := fun _ => True) <;> simp_all [SpecC14.unalias, unalias]

/-! ## Part 2 — the spec is reflexive on its fragment -/

section
open SpecC14
variable (cross : Bool)

mutual
theorem specId_refl_gen : ∀ (x y : Ty), plain x = true → unalias y = unalias x → specId cross x y = true
  | .nil, y, _, hu => by unfold specId; rw [spec_unalias_eq, hu]; simp [XTypes.unalias]
  | .basic k, y, _, hu => by unfold specId; rw [spec_unalias_eq, hu]; simp [XTypes.unalias]
  | .array n e, y, hp, hu => by
    unfold specId; rw [spec_unalias_eq, hu]
    simp [plain] at hp; simp [XTypes.unalias, specId_refl_gen e e hp rfl]
  | .slice e, y, hp, hu => by
    unfold specId; rw [spec_unalias_eq, hu]
    simp [plain] at hp; simp [XTypes.unalias, specId_refl_gen e e hp rfl]
  | .ptr e, y, hp, hu => by
    unfold specId; rw [spec_unalias_eq, hu]
    simp [plain] at hp; simp [XTypes.unalias, specId_refl_gen e e hp rfl]
  | .map k e, y, hp, hu => by
    unfold specId; rw [spec_unalias_eq, hu]
    simp [plain] at hp; simp [XTypes.unalias, specId_refl_gen k k hp.1 rfl, specId_refl_gen e e hp.2 rfl]
  | .chan d e, y, hp, hu => by
    unfold specId; rw [spec_unalias_eq, hu]
    simp [plain] at hp; simp [XTypes.unalias, specId_refl_gen e e hp rfl]
  | .tuple es, y, hp, hu => by
    unfold specId; rw [spec_unalias_eq, hu]
    simp [plain] at hp; simp [XTypes.unalias, specList_refl es hp]
  | .sig v tps p r, y, hp, hu => by
    unfold specId; rw [spec_unalias_eq, hu]
    simp [plain] at hp
    simp [XTypes.unalias, hp.1.1, specId_refl_gen p p hp.1.2 rfl, specId_refl_gen r r hp.2 rfl]
  | .field .., y, hp, _ => by simp [plain] at hp
  | .struct fs, y, hp, hu => by
    unfold specId; rw [spec_unalias_eq, hu]
    simp [plain] at hp; simp [XTypes.unalias, specFields_refl fs hp]
  | .method .., y, hp, _ => by simp [plain] at hp
  | .iface ms c mths es, y, hp, hu => by
    unfold specId; rw [spec_unalias_eq, hu]
    simp [plain] at hp; simp [XTypes.unalias, hp.1, specMethods_refl mths hp.2]
  | .named u o p n ex l ts, y, hp, hu => by
    unfold specId; rw [spec_unalias_eq, hu]
    simp [plain] at hp; simp [XTypes.unalias, declEq, specList_refl ts hp]
  | .alias u o t, y, hp, hu => by
    unfold specId
    simp [plain] at hp
    exact specId_refl_gen t y hp (by simpa [XTypes.unalias] using hu)
  | .tparam u o, y, _, hu => by unfold specId; rw [spec_unalias_eq, hu]; simp [XTypes.unalias, declEq]
  | .term .., y, hp, _ => by simp [plain] at hp
  | .union .., y, hp, _ => by simp [plain] at hp
theorem specList_refl : ∀ (as : List Ty), plainList as = true → specList cross as as = true
  | [], _ => by simp [specList]
  | a :: as, hp => by
    simp [plainList] at hp
    simp [specList, specId_refl_gen a a hp.1 rfl, specList_refl as hp.2]
theorem specFields_refl : ∀ (fs : List Ty), plainFields fs = true → specFields cross fs fs = true
  | [], _ => by simp [specFields]
  | .field n p ex em tg ty :: fs, hp => by
    simp [plainFields] at hp
    simp [specFields, sameIdent, specId_refl_gen ty ty hp.1 rfl, specFields_refl fs hp.2]
  | .nil :: _, hp | .basic _ :: _, hp | .array .. :: _, hp | .slice _ :: _, hp | .ptr _ :: _, hp
  | .map .. :: _, hp | .chan .. :: _, hp | .tuple _ :: _, hp | .sig .. :: _, hp | .struct _ :: _, hp
  | .method .. :: _, hp | .iface .. :: _, hp | .named .. :: _, hp | .alias .. :: _, hp
  | .tparam .. :: _, hp | .term .. :: _, hp | .union .. :: _, hp => by simp [plainFields] at hp
theorem specMethods_refl : ∀ (fs : List Ty), plainMethods fs = true → specMethods cross fs fs = true
  | [], _ => by simp [specMethods]
  | .method n p ex ty :: fs, hp => by
    simp [plainMethods] at hp
    simp [specMethods, specId_refl_gen ty ty hp.1 rfl, specMethods_refl fs hp.2]
  | .nil :: _, hp | .basic _ :: _, hp | .array .. :: _, hp | .slice _ :: _, hp | .ptr _ :: _, hp
  | .map .. :: _, hp | .chan .. :: _, hp | .tuple _ :: _, hp | .sig .. :: _, hp | .struct _ :: _, hp
  | .field .. :: _, hp | .iface .. :: _, hp | .named .. :: _, hp | .alias .. :: _, hp
  | .tparam .. :: _, hp | .term .. :: _, hp | .union .. :: _, hp => by simp [plainMethods] at hp
end

end

/-! ## Part 3 — declaration tables and well-formed trees -/

/-- what the sources declare under one declaration number -/
structure Decl where
  pkg : Option String
  name : String
  exported : Bool
  loc : Bool
deriving DecidableEq, Repr

/-- The numbering of declarations is faithful for the named-type rule of variant `fx`.
`fx = true`: two package-level declarations with the same package path and name are one declaration
(true of any set of Go packages).  `fx = false`: *no two declarations share a name* unless both are
unexported and in different packages — the restriction under which the code as it stands is right. -/
def TableOK (fx : Bool) (D : Nat → Decl) : Prop :=
  ∀ o o', (if fx then (D o).loc = false ∧ (D o').loc = false ∧ (D o).pkg ≠ none ∧ (D o).pkg = (D o').pkg ∧
                      (D o).name = (D o').name
           else (D o).name = (D o').name ∧ ((D o).exported = true ∨ (D o).pkg = (D o').pkg)) → o = o'

mutual
/-- Hereditary consistency of a tree with the declaration table `D` and the universe assignment `U`
(package path ↦ universe).  Named leaves spell what `D` declares; inside one universe (`cross = false`)
their universe is the one of their package; across universes the repaired code needs package-level
declarations (function-local ones have no cross-universe identity) and universe 0 for the objects without
package; type parameters have no cross-universe identity at all.  For the code as it stands (`fx = false`)
additionally: no type arguments and no struct tags. -/
def ok (fx cross : Bool) (D : Nat → Decl) (U : Option String → Nat) : Ty → Bool
  | .nil => true
  | .basic _ => true
  | .array _ e => ok fx cross D U e
  | .slice e => ok fx cross D U e
  | .ptr e => ok fx cross D U e
  | .map k e => ok fx cross D U k && ok fx cross D U e
  | .chan _ e => ok fx cross D U e
  | .tuple es => okList fx cross D U es
  | .sig _ tps p r => okList fx cross D U tps && ok fx cross D U p && ok fx cross D U r
  | .field _ _ _ _ tg ty => (fx || tg == "") && ok fx cross D U ty
  | .struct fs => okList fx cross D U fs
  | .method _ _ _ ty => ok fx cross D U ty
  | .iface _ _ ms es => okList fx cross D U ms && okList fx cross D U es
  | .named u o p n ex l ts =>
      decide (D o = ⟨p, n, ex, l⟩) &&
      (if cross then (!fx || (!l && (p.isSome || u == 0))) else u == U p) &&
      (fx || ts.isEmpty) && okList fx cross D U ts
  | .alias _ _ t => ok fx cross D U t
  | .tparam _ _ => !cross
  | .term _ t => ok fx cross D U t
  | .union _ ts => okList fx cross D U ts
def okList (fx cross : Bool) (D : Nat → Decl) (U : Option String → Nat) : List Ty → Bool
  | [] => true
  | a :: as => ok fx cross D U a && okList fx cross D U as
end

mutual
/-- no `alias` node anywhere -/
def noAlias : Ty → Bool
  | .nil => true
  | .basic _ => true
  | .array _ e => noAlias e
  | .slice e => noAlias e
  | .ptr e => noAlias e
  | .map k e => noAlias k && noAlias e
  | .chan _ e => noAlias e
  | .tuple es => noAliasList es
  | .sig _ tps p r => noAliasList tps && noAlias p && noAlias r
  | .field _ _ _ _ _ ty => noAlias ty
  | .struct fs => noAliasList fs
  | .method _ _ _ ty => noAlias ty
  | .iface _ _ ms es => noAliasList ms && noAliasList es
  | .named _ _ _ _ _ _ ts => noAliasList ts
  | .alias _ _ _ => false
  | .tparam _ _ => true
  | .term _ t => noAlias t
  | .union _ ts => noAliasList ts
def noAliasList : List Ty → Bool
  | [] => true
  | a :: as => noAlias a && noAliasList as
end

theorem pred_unalias (P : Ty → Bool) (h : ∀ u o t, P (.alias u o t) = P t) (y : Ty) :
    P (unalias y) = P y := by
  induction y using Ty.ind2 (motive_2 := fun _ => True) <;> simp_all [unalias]

theorem plain_unalias (y : Ty) : SpecC14.plain (unalias y) = SpecC14.plain y :=
  pred_unalias _ (by intros; simp [SpecC14.plain]) y

theorem ok_unalias (fx cross D U) (y : Ty) : ok fx cross D U (unalias y) = ok fx cross D U y :=
  pred_unalias _ (by intros; simp [ok]) y

theorem noAlias_notAlias {y : Ty} (h : noAlias y = true) : notAlias y = true := by
  cases y <;> simp_all [noAlias, notAlias]

/-- the right operand handed to a recursive call is its own unaliasing: always after the fix, and for
the code as it stands when it contains no alias -/
theorem norm_eq_unalias {fx : Bool} {y : Ty} (h : (fx || noAlias y) = true) : norm fx y = unalias y := by
  cases fx
  · simp at h; simp [norm, unalias_of_notAlias (noAlias_notAlias h)]
  · simp [norm]

theorem noAlias_or_unalias {fx : Bool} {y : Ty} (h : (fx || noAlias y) = true) :
    (fx || noAlias (unalias y)) = true := by
  cases fx
  · simp at h ⊢; rw [unalias_of_notAlias (noAlias_notAlias h)]; exact h
  · simp

/-! ## Part 4 — the model agrees with the spec -/

section
open SpecC14

theorem sameID_eq_sameIdent (n : String) (ex : Bool) (p p' : Option String) (n' : String) :
    sameID n ex p p' n' = sameIdent n ex p n' p' := by
  unfold sameID sameIdent samePkg
  by_cases hn : n = n'
  · subst hn
    cases ex <;> cases p <;> cases p' <;> simp
    rename_i a b
    rw [Bool.eq_iff_iff]; simp only [beq_iff_eq]; exact eq_comm
  · have : n' ≠ n := fun h => hn h.symm
    simp [hn, this]

theorem funcId_eq_methodId (n : String) (ex : Bool) (p : Option String) : funcId n ex p = methodId n ex p := rfl

theorem named_rule_fix {D : Nat → Decl} {U : Option String → Nat} {cross : Bool} (hT : TableOK true D)
    {u o : Nat} {p : Option String} {n : String} {ex l : Bool}
    {u' o' : Nat} {p' : Option String} {n' : String} {ex' l' : Bool}
    (h1 : D o = ⟨p, n, ex, l⟩) (h2 : D o' = ⟨p', n', ex', l'⟩)
    (hu : (if cross then (!l && (p.isSome || u == 0)) else u == U p) = true)
    (hu' : (if cross then (!l' && (p'.isSome || u' == 0)) else u' == U p') = true) :
    ((u == u' && o == o') || sameDecl n l p n' l' p') = declEq cross u o u' o' := by
  rw [Bool.eq_iff_iff]
  simp only [Bool.or_eq_true, Bool.and_eq_true, beq_iff_eq, declEq]
  constructor
  · rintro (⟨rfl, rfl⟩ | hs)
    · simp
    · unfold sameDecl at hs
      cases p <;> cases p' <;> simp at hs
      rename_i a b
      obtain ⟨⟨⟨rfl, rfl⟩, rfl⟩, rfl⟩ := hs
      have := hT o o' (by simp [h1, h2])
      subst this
      cases cross <;> simp_all
  · rintro ⟨rfl, hc⟩
    rw [h1] at h2
    injection h2 with hp hn hx hl
    subst hp hn hx hl
    cases cross
    · simp at hc; left; exact ⟨hc, rfl⟩
    · simp at hu hu'
      cases p with
      | none => simp at hu hu'; left; exact ⟨hu.2.trans hu'.2.symm, rfl⟩
      | some a => right; simp [sameDecl, hu.1]

theorem named_rule_asis {D : Nat → Decl} {U : Option String → Nat} {cross : Bool} (hT : TableOK false D)
    {u o : Nat} {p : Option String} {n : String} {ex l : Bool}
    {u' o' : Nat} {p' : Option String} {n' : String} {ex' l' : Bool}
    (h1 : D o = ⟨p, n, ex, l⟩) (h2 : D o' = ⟨p', n', ex', l'⟩)
    (hu : (if cross then true else u == U p) = true)
    (hu' : (if cross then true else u' == U p') = true) :
    ((u == u' && o == o') || sameID n ex p p' n') = declEq cross u o u' o' := by
  rw [Bool.eq_iff_iff, sameID_eq_sameIdent]
  simp only [Bool.or_eq_true, Bool.and_eq_true, beq_iff_eq, declEq, sameIdent]
  constructor
  · rintro (⟨rfl, rfl⟩ | ⟨rfl, hs⟩)
    · simp
    · have := hT o o' (by simpa [h1, h2] using hs)
      subst this
      rw [h1] at h2
      injection h2 with hp hn hx hl
      subst hp
      cases cross <;> simp_all
  · rintro ⟨rfl, hc⟩
    rw [h1] at h2
    injection h2 with hp hn hx hl
    subst hp hn hx hl
    right; simp

variable {fx cross : Bool} {D : Nat → Decl} {U : Option String → Nat}

theorem fx_or_and {fx a b : Bool} (h : (fx || (a && b)) = true) : (fx || a) = true ∧ (fx || b) = true := by
  cases fx <;> simp_all

-- prelude of every constructor case of `agreeC`: the pointer-equality branch is answered by
-- reflexivity of the spec; otherwise both matches are reduced on the shape of `unalias y`; all
-- off-diagonal cases are closed, the diagonal one is left.
set_option hygiene false in
macro "agree_cases" x:term : tactic => `(tactic| (
  have hpy' := (plain_unalias y).trans hpy
  have hoy' := (ok_unalias fx cross D U y).trans hoy
  have ha' := noAlias_or_unalias ha
  unfold tidC
  by_cases heq : $x = XTypes.unalias y
  · rw [if_pos heq]
    exact (specId_refl_gen cross _ y hpx (by rw [← heq]; simp [XTypes.unalias])).symm
  rw [if_neg heq]; unfold specId; rw [spec_unalias_eq]
  cases hy : XTypes.unalias y <;> simp only [hy] at hpy' hoy' ha' heq ⊢
  all_goals try rfl))

mutual
theorem agreeC (hT : TableOK fx D) : ∀ (x y : Ty), plain x = true → plain y = true →
    ok fx cross D U x = true → ok fx cross D U y = true → (fx || noAlias y) = true →
    tidC fx x (XTypes.unalias y) = specId cross x y
  | .nil, y, hpx, hpy, hox, hoy, ha => by
    agree_cases Ty.nil
    exact absurd trivial heq
  | .basic k, y, hpx, hpy, hox, hoy, ha => by
    agree_cases (Ty.basic k)
  | .array n e, y, hpx, hpy, hox, hoy, ha => by
    agree_cases (Ty.array n e)
    simp only [plain, ok, noAlias] at hpx hox hpy' hoy' ha'
    rw [norm_eq_unalias ha', agreeC hT e _ hpx hpy' hox hoy' ha']
  | .slice e, y, hpx, hpy, hox, hoy, ha => by
    agree_cases (Ty.slice e)
    simp only [plain, ok, noAlias] at hpx hox hpy' hoy' ha'
    rw [norm_eq_unalias ha', agreeC hT e _ hpx hpy' hox hoy' ha']
  | .ptr e, y, hpx, hpy, hox, hoy, ha => by
    agree_cases (Ty.ptr e)
    simp only [plain, ok, noAlias] at hpx hox hpy' hoy' ha'
    rw [norm_eq_unalias ha', agreeC hT e _ hpx hpy' hox hoy' ha']
  | .map k e, y, hpx, hpy, hox, hoy, ha => by
    agree_cases (Ty.map k e)
    simp only [plain, ok, Bool.and_eq_true] at hpx hox hpy' hoy'
    simp only [noAlias] at ha'
    obtain ⟨ha1, ha2⟩ := fx_or_and ha'
    rw [norm_eq_unalias ha1, norm_eq_unalias ha2, agreeC hT k _ hpx.1 hpy'.1 hox.1 hoy'.1 ha1,
      agreeC hT e _ hpx.2 hpy'.2 hox.2 hoy'.2 ha2]
  | .chan d e, y, hpx, hpy, hox, hoy, ha => by
    agree_cases (Ty.chan d e)
    simp only [plain, ok, noAlias] at hpx hox hpy' hoy' ha'
    rw [norm_eq_unalias ha', agreeC hT e _ hpx hpy' hox hoy' ha']
  | .tuple es, y, hpx, hpy, hox, hoy, ha => by
    agree_cases (Ty.tuple es)
    simp only [plain, ok, noAlias] at hpx hox hpy' hoy' ha'
    exact agreeList hT es _ hpx hpy' hox hoy' ha'
  | .sig v tps p r, y, hpx, hpy, hox, hoy, ha => by
    agree_cases (Ty.sig v tps p r)
    simp only [plain, ok, Bool.and_eq_true] at hpx hox hpy' hoy'
    simp only [noAlias] at ha'
    obtain ⟨ha0, ha2⟩ := fx_or_and ha'
    obtain ⟨_, ha1⟩ := fx_or_and ha0
    rw [norm_eq_unalias ha1, norm_eq_unalias ha2, agreeC hT p _ hpx.1.2 hpy'.1.2 hox.1.2 hoy'.1.2 ha1,
      agreeC hT r _ hpx.2 hpy'.2 hox.2 hoy'.2 ha2]
    simp [hpx.1.1, hpy'.1.1]
  | .field .., y, hpx, _, _, _, _ => by simp [plain] at hpx
  | .struct fs, y, hpx, hpy, hox, hoy, ha => by
    agree_cases (Ty.struct fs)
    simp only [plain, ok, noAlias] at hpx hox hpy' hoy' ha'
    exact agreeFields hT fs _ hpx hpy' hox hoy' ha'
  | .method .., y, hpx, _, _, _, _ => by simp [plain] at hpx
  | .iface ms c mths es, y, hpx, hpy, hox, hoy, ha => by
    agree_cases (Ty.iface ms c mths es)
    simp only [plain, ok, Bool.and_eq_true] at hpx hox hpy' hoy'
    simp only [noAlias] at ha'
    obtain ⟨ha1, _⟩ := fx_or_and ha'
    rw [agreeMethods hT mths _ hpx.2 hpy'.2 hox.1 hoy'.1 ha1]
    simp [hpx.1, hpy'.1]
  | .named u o p n ex l ts, y, hpx, hpy, hox, hoy, ha => by
    agree_cases (Ty.named u o p n ex l ts)
    rename_i u' o' p' n' ex' l' ts'
    simp only [plain, ok, Bool.and_eq_true, decide_eq_true_eq] at hpx hox hpy' hoy'
    simp only [noAlias] at ha'
    obtain ⟨⟨⟨h1, hu⟩, hts⟩, hol⟩ := hox
    obtain ⟨⟨⟨h2, hu'⟩, hts'⟩, hol'⟩ := hoy'
    have hl : fx = true → tidList fx ts ts' = specList cross ts ts' :=
      fun hfx => agreeList hT ts _ hpx hpy' hol hol' (by simp [hfx])
    cases fx
    · -- the code as it stands: no type arguments
      simp only [Bool.false_or, List.isEmpty_iff] at hts hts'
      subst hts hts'
      simp only [Bool.false_eq_true, if_false, specList, Bool.and_true]
      exact named_rule_asis (U := U) hT h1 h2 (by cases cross <;> simp_all) (by cases cross <;> simp_all)
    · simp only [if_true]
      rw [hl rfl, Bool.and_comm]
      congr 1
      exact named_rule_fix (U := U) hT h1 h2 (by cases cross <;> simpa using hu) (by cases cross <;> simpa using hu')
  | .alias u o t, y, hpx, hpy, hox, hoy, ha => by
    unfold tidC specId
    have hne : ¬ (Ty.alias u o t = XTypes.unalias y) := fun h => unalias_not_alias y u o t h.symm
    rw [if_neg hne]
    simp only [plain, ok] at hpx hox
    exact agreeC hT t y hpx hpy hox hoy ha
  | .tparam u o, y, hpx, hpy, hox, hoy, ha => by
    agree_cases (Ty.tparam u o)
    rename_i u' o'
    simp only [ok, Bool.not_eq_true'] at hox
    subst hox
    simp only [declEq, Bool.false_or]
    rw [eq_comm, Bool.and_eq_false_iff]
    by_cases ho : o = o'
    · right; simp; rintro rfl; exact heq (by rw [ho])
    · left; simpa using ho
  | .term .., y, hpx, _, _, _, _ => by simp [plain] at hpx
  | .union .., y, hpx, _, _, _, _ => by simp [plain] at hpx
theorem agreeList (hT : TableOK fx D) : ∀ (as bs : List Ty), plainList as = true → plainList bs = true →
    okList fx cross D U as = true → okList fx cross D U bs = true → (fx || noAliasList bs) = true →
    tidList fx as bs = specList cross as bs
  | [], [], _, _, _, _, _ => by simp [tidList, specList]
  | [], _ :: _, _, _, _, _, _ => by simp [tidList, specList]
  | _ :: _, [], _, _, _, _, _ => by simp [tidList, specList]
  | a :: as, b :: bs, hpa, hpb, hoa, hob, ha => by
    simp only [plainList, okList, Bool.and_eq_true] at hpa hpb hoa hob
    have ha1 : (fx || noAlias b) = true := by cases fx <;> simp_all [noAliasList]
    have ha2 : (fx || noAliasList bs) = true := by cases fx <;> simp_all [noAliasList]
    unfold tidList specList
    rw [norm_eq_unalias ha1, agreeC hT a b hpa.1 hpb.1 hoa.1 hob.1 ha1, agreeList hT as bs hpa.2 hpb.2 hoa.2 hob.2 ha2]
theorem agreeFields (hT : TableOK fx D) : ∀ (fs gs : List Ty), plainFields fs = true → plainFields gs = true →
    okList fx cross D U fs = true → okList fx cross D U gs = true → (fx || noAliasList gs) = true →
    tidFields fx fs gs = specFields cross fs gs
  | [], [], _, _, _, _, _ => by simp [tidFields, specFields]
  | [], _ :: _, _, _, _, _, _ => by simp [tidFields, specFields]
  | .field n p ex em tg ty :: fs, gs, hpf, hpg, hof, hog, ha => by
    cases gs with
    | nil => simp [tidFields, specFields]
    | cons g gs =>
      cases g <;> simp only [plainFields, Bool.false_eq_true] at hpg
      rename_i n' p' ex' em' tg' ty'
      simp only [plainFields, okList, ok, Bool.and_eq_true] at hpf hpg hof hog
      have ha1 : (fx || noAlias ty') = true := by cases fx <;> simp_all [noAliasList, noAlias]
      have ha2 : (fx || noAliasList gs) = true := by cases fx <;> simp_all [noAliasList, noAlias]
      unfold tidFields specFields
      rw [norm_eq_unalias ha1, agreeC hT ty ty' hpf.1 hpg.1 hof.1.2 hog.1.2 ha1,
        agreeFields hT fs gs hpf.2 hpg.2 hof.2 hog.2 ha2, sameID_eq_sameIdent]
      cases fx
      · have t1 : tg = "" := by simpa using hof.1.1
        have t2 : tg' = "" := by simpa using hog.1.1
        simp [t1, t2]
      · simp
  | .nil :: _, _, hp, _, _, _, _ | .basic _ :: _, _, hp, _, _, _, _ | .array .. :: _, _, hp, _, _, _, _
  | .slice _ :: _, _, hp, _, _, _, _ | .ptr _ :: _, _, hp, _, _, _, _ | .map .. :: _, _, hp, _, _, _, _
  | .chan .. :: _, _, hp, _, _, _, _ | .tuple _ :: _, _, hp, _, _, _, _ | .sig .. :: _, _, hp, _, _, _, _
  | .struct _ :: _, _, hp, _, _, _, _ | .method .. :: _, _, hp, _, _, _, _ | .iface .. :: _, _, hp, _, _, _, _
  | .named .. :: _, _, hp, _, _, _, _ | .alias .. :: _, _, hp, _, _, _, _ | .tparam .. :: _, _, hp, _, _, _, _
  | .term .. :: _, _, hp, _, _, _, _ | .union .. :: _, _, hp, _, _, _, _ => by simp [plainFields] at hp
theorem agreeMethods (hT : TableOK fx D) : ∀ (fs gs : List Ty), plainMethods fs = true → plainMethods gs = true →
    okList fx cross D U fs = true → okList fx cross D U gs = true → (fx || noAliasList gs) = true →
    tidMethods fx fs gs = specMethods cross fs gs
  | [], [], _, _, _, _, _ => by simp [tidMethods, specMethods]
  | [], _ :: _, _, _, _, _, _ => by simp [tidMethods, specMethods]
  | .method n p ex ty :: fs, gs, hpf, hpg, hof, hog, ha => by
    cases gs with
    | nil => simp [tidMethods, specMethods]
    | cons g gs =>
      cases g <;> simp only [plainMethods, Bool.false_eq_true] at hpg
      rename_i n' p' ex' ty'
      simp only [plainMethods, okList, ok, Bool.and_eq_true] at hpf hpg hof hog
      have ha1 : (fx || noAlias ty') = true := by cases fx <;> simp_all [noAliasList, noAlias]
      have ha2 : (fx || noAliasList gs) = true := by cases fx <;> simp_all [noAliasList, noAlias]
      unfold tidMethods specMethods
      rw [norm_eq_unalias ha1, agreeC hT ty ty' hpf.1 hpg.1 hof.1 hog.1 ha1,
        agreeMethods hT fs gs hpf.2 hpg.2 hof.2 hog.2 ha2]
      rfl
  | .nil :: _, _, hp, _, _, _, _ | .basic _ :: _, _, hp, _, _, _, _ | .array .. :: _, _, hp, _, _, _, _
  | .slice _ :: _, _, hp, _, _, _, _ | .ptr _ :: _, _, hp, _, _, _, _ | .map .. :: _, _, hp, _, _, _, _
  | .chan .. :: _, _, hp, _, _, _, _ | .tuple _ :: _, _, hp, _, _, _, _ | .sig .. :: _, _, hp, _, _, _, _
  | .struct _ :: _, _, hp, _, _, _, _ | .field .. :: _, _, hp, _, _, _, _ | .iface .. :: _, _, hp, _, _, _, _
  | .named .. :: _, _, hp, _, _, _, _ | .alias .. :: _, _, hp, _, _, _, _ | .tparam .. :: _, _, hp, _, _, _, _
  | .term .. :: _, _, hp, _, _, _, _ | .union .. :: _, _, hp, _, _, _, _ => by simp [plainMethods] at hp
end

/-- `tid fx` (= `xtypes.Identical`, variant `fx`) computes `specId cross` on well-formed trees of the fragment. -/
theorem agree (hT : TableOK fx D) (x y : Ty) (hpx : plain x = true) (hpy : plain y = true)
    (hox : ok fx cross D U x = true) (hoy : ok fx cross D U y = true) (ha : (fx || noAlias y) = true) :
    tid fx x y = specId cross x y := by
  unfold tid
  rw [norm_eq_unalias ha]
  exact agreeC hT x y hpx hpy hox hoy ha

end

/-! ## Part 5 — reflexivity, and what identifies two named types -/

/-- every type is identical to its own unaliasing (both variants) -/
theorem tidC_unalias_self (fx : Bool) : ∀ t : Ty, tidC fx t (unalias t) = true
  | .alias u o t => by
    unfold tidC
    have hne : ¬ (Ty.alias u o t = unalias (Ty.alias u o t)) := fun h => unalias_not_alias _ u o t h.symm
    rw [if_neg hne]
    simpa [unalias] using tidC_unalias_self fx t
  | .nil | .basic _ | .array .. | .slice _ | .ptr _ | .map .. | .chan .. | .tuple _ | .sig .. | .field ..
  | .struct _ | .method .. | .iface .. | .named .. | .tparam .. | .term .. | .union .. => by
    unfold tidC; simp [unalias]

theorem tid_refl (fx : Bool) (t : Ty) : tid fx t t = true := by
  cases fx
  · unfold tid tidC; simp [norm]
  · unfold tid; simp only [norm, if_true]; exact tidC_unalias_self true t

theorem tidList_refl (fx : Bool) : ∀ ts : List Ty, tidList fx ts ts = true
  | [] => by simp [tidList]
  | a :: as => by
    unfold tidList
    have := tid_refl fx a
    unfold tid at this
    rw [this, tidList_refl fx as]; rfl

/-- The repaired code identifies two named types only if their type arguments are pairwise identical and
they are the same object or two package-level declarations with the same name and package path. -/
theorem tid_named_fix {u o : Nat} {p : Option String} {n : String} {ex l : Bool} {ts : List Ty}
    {u' o' : Nat} {p' : Option String} {n' : String} {ex' l' : Bool} {ts' : List Ty}
    (h : tid true (.named u o p n ex l ts) (.named u' o' p' n' ex' l' ts') = true) :
    tidList true ts ts' = true ∧
      ((u = u' ∧ o = o') ∨ (n = n' ∧ l = false ∧ l' = false ∧ p = p' ∧ p ≠ none)) := by
  unfold tid tidC at h
  simp only [norm, if_true, unalias] at h
  split at h
  · rename_i heq
    injection heq with h1 h2 h3 h4 h5 h6 h7
    subst h7
    exact ⟨tidList_refl true ts, Or.inl ⟨h1, h2⟩⟩
  · simp only [Bool.and_eq_true, Bool.or_eq_true, beq_iff_eq] at h
    refine ⟨h.1, ?_⟩
    rcases h.2 with h2 | h2
    · exact Or.inl h2
    · right
      unfold sameDecl at h2
      cases p <;> cases p' <;> simp at h2
      simp [h2.1.1.1, h2.1.1.2, h2.1.2, h2.2]

/-- The code as it stands identifies two named types iff they are the same object or `sameID` holds:
type arguments are never looked at, nor is the package of an exported name. -/
theorem tid_named_asis (u o : Nat) (p : Option String) (n : String) (ex l : Bool) (ts : List Ty)
    (u' o' : Nat) (p' : Option String) (n' : String) (ex' l' : Bool) (ts' : List Ty) :
    tid false (.named u o p n ex l ts) (.named u' o' p' n' ex' l' ts') =
      ((u == u' && o == o') || sameID n ex p p' n') := by
  unfold tid tidC
  simp only [norm, Bool.false_eq_true, if_false]
  split
  · rename_i heq
    injection heq with h1 h2 h3 h4 h5 h6 h7
    simp [h1, h2]
  · rfl

end XTypes
