import Rg.Model.IRPrint
/-!
# The as-is printer agrees with the fixed one where no slice holds a zero-valued element and
there are no bundle imports (so the round-trip theorem transfers to it under these hypotheses).
-/
namespace IRProofs
open IR

theorem elide_false (inList : Bool) : elide false inList = true := by cases inList <;> rfl
theorem elide_true_notList : elide true false = true := rfl

theorem pStr_field_same (k : String) (v : Bytes) : pStr false false k v = pStr true false k v := rfl

theorem pStr_elem_same (v : Bytes) (h : v.isEmpty = false) : pStr false true "" v = pStr true true "" v := by
  unfold pStr; simp [h]

theorem pPattern_same (p : PatternString) (h : p.isZero = false) : pPattern false p = pPattern true p := by
  unfold pPattern; simp [h]

theorem pImport_same (i : PackageImport) (h : i.isZero = false) : pImport false i = pImport true i := by
  unfold pImport; simp [h, pStr_field_same]

theorem flatMap_same {α} (f g : α → List GTok) : ∀ (l : List α), (∀ a ∈ l, f a = g a) → l.flatMap f = l.flatMap g
  | [], _ => rfl
  | a :: l, h => by
    rw [List.flatMap_cons, List.flatMap_cons, h a (by simp), flatMap_same f g l (fun b hb => h b (by simp [hb]))]

mutual
theorem pFilter_same : ∀ (e : FilterExpr) (k : String) (inList : Bool), e.noZeroElems = true →
    (inList = true → e.isZero = false) → pFilter false k inList e = pFilter true k inList e
  | .mk l o s v as nn, k, inList, hnz, hz => by
    have hl : FilterExpr.noZeroElemsList as = true := by
      unfold FilterExpr.noZeroElems at hnz; exact hnz
    have ih := pFilterList_same as hl
    unfold pFilter
    rw [ih]
    cases inList with
    | false => rfl
    | true =>
      have := hz rfl
      simp only [this, Bool.false_and, pStr_field_same]
theorem pFilterList_same : ∀ (as : List FilterExpr), FilterExpr.noZeroElemsList as = true →
    pFilterList false as = pFilterList true as
  | [], _ => by unfold pFilterList; rfl
  | a :: as, h => by
    have hh : (a.isZero = false ∧ a.noZeroElems = true) ∧ FilterExpr.noZeroElemsList as = true := by
      unfold FilterExpr.noZeroElemsList at h; simpa using h
    have h1 := pFilter_same a "" true hh.1.2 (fun _ => hh.1.1)
    have h2 := pFilterList_same as hh.2
    unfold pFilterList
    rw [h1, h2]
end

theorem pRule_same (r : Rule) (hz : r.isZero = false) (h : r.noZeroElems = true) : pRule false r = pRule true r := by
  unfold Rule.noZeroElems at h
  simp only [Bool.and_eq_true, List.all_eq_true, Bool.not_eq_true'] at h
  obtain ⟨⟨hsp, hcp⟩, hw⟩ := h
  unfold pRule
  rw [pFilter_same r.whereExpr "WhereExpr" false hw (by simp),
    flatMap_same (pPattern false) (pPattern true) r.syntaxPatterns.elems (fun a ha => pPattern_same a (hsp a ha)),
    flatMap_same (pPattern false) (pPattern true) r.commentPatterns.elems (fun a ha => pPattern_same a (hcp a ha))]
  simp [hz, pStr_field_same]

theorem pRules_same : ∀ (rs : List Rule), (∀ r ∈ rs, r.isZero = false ∧ r.noZeroElems = true) → pRules false rs = pRules true rs
  | [], _ => rfl
  | r :: rs, h => by
    have h1 := h r (by simp)
    have ih := pRules_same rs (fun x hx => h x (by simp [hx]))
    unfold pRules
    rw [pRule_same r h1.1 h1.2, ih]

theorem pGroup_same (g : RuleGroup) (hz : g.isZero = false) (h : g.noZeroElems = true) : pGroup false g = pGroup true g := by
  unfold RuleGroup.noZeroElems at h
  simp only [Bool.and_eq_true, List.all_eq_true, Bool.not_eq_true'] at h
  obtain ⟨⟨ht, hi⟩, hr⟩ := h
  unfold pGroup
  rw [pRules_same g.rules.elems (fun r hr' => by simpa using hr r hr'),
    flatMap_same (pStr false true "") (pStr true true "") g.docTags.elems (fun a ha => pStr_elem_same a (ht a ha)),
    flatMap_same (pImport false) (pImport true) g.imports.elems (fun a ha => pImport_same a (hi a ha))]
  simp [hz, pStr_field_same]

theorem pGroups_same : ∀ (gs : List RuleGroup), (∀ g ∈ gs, g.isZero = false ∧ g.noZeroElems = true) → pGroups false gs = pGroups true gs
  | [], _ => rfl
  | g :: gs, h => by
    have h1 := h g (by simp)
    have ih := pGroups_same gs (fun x hx => h x (by simp [hx]))
    unfold pGroups
    rw [pGroup_same g h1.1 h1.2, ih]

/-- the two printers agree when no slice holds a zero-valued element and there is no bundle import -/
theorem printFile_asis_eq (f : File) (hz : noZeroElemsFile f = true) (hb : f.bundleImports.elems = []) :
    printFile_asis f = printFile f := by
  unfold noZeroElemsFile at hz
  simp only [List.all_eq_true, Bool.and_eq_true, Bool.not_eq_true'] at hz
  unfold printFile_asis printFile printFileV
  rw [pGroups_same f.ruleGroups.elems hz, hb]
  rfl

end IRProofs
