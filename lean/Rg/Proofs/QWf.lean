import Rg.Proofs.QSimTop
/-!
# The structured compiler only emits instructions whose operands fit their fields

8-bit operands are reduced mod 256 by `op8`, function ids are indices into the compile-time table, jump
offsets are checked by `structCompile` itself under the range repair.  Hence `World.linked` needs no
separate well-formedness hypothesis (`structCompile_wf`).
-/
namespace Q

/-- operand conditions other than jump ranges: 8-bit operands below 256, function ids in `[0, B)` with `B ≤ 32768` -/
def Instr.wfNJ (B : Nat) : Instr → Prop
  | .pushParam a | .pushIntParam a | .pushLocal a | .pushIntLocal a | .pushConst a | .pushIntConst a
  | .setLocal a | .setIntLocal a | .incLocal a | .decLocal a | .setVariadicLen a => a < 256
  | .callNative _ => False
  | .call o | .intCall o | .voidCall o => 0 ≤ o ∧ o < B
  | _ => True

def AllOK (B : Nat) (is : List Instr) : Prop := ∀ i ∈ is, i.wfNJ B

theorem AllOK.nil {B} : AllOK B [] := fun _ h => by simp at h
theorem AllOK.append {B a b} (h1 : AllOK B a) (h2 : AllOK B b) : AllOK B (a ++ b) := by
  intro i hi; rcases List.mem_append.mp hi with h | h; exact h1 i h; exact h2 i h
theorem AllOK.cons {B i is} (h1 : i.wfNJ B) (h2 : AllOK B is) : AllOK B (i :: is) := by
  intro j hj; rcases List.mem_cons.mp hj with h | h; exact h ▸ h1; exact h2 j h
theorem AllOK.single {B i} (h1 : i.wfNJ B) : AllOK B [i] := AllOK.cons h1 AllOK.nil

theorem op8_lt {fx : Fixes} {x a : Nat} (h : op8 fx x = some a) : a < 256 := by
  unfold op8 at h; split at h
  · simp at h
  · simp at h; omega

theorem binInstr_ok {op ty ins B} (h : binInstr op ty = some ins) : ins.wfNJ B := by
  cases op <;> simp only [binInstr] at h <;> (try (split at h <;> try split at h)) <;> simp_all [Instr.wfNJ] <;>
    (subst h; trivial)

section ExprOps
variable (fx : Fixes) (cenv : CEnv) (fn : CFn) (hn : cenv.natives = [])
include hn

theorem comp_ops : ∀ k,
    (∀ e cs is cs', Expr.depth e < k → compE fx cenv fn e cs = some (is, cs') → AllOK cenv.funcs.length is) ∧
    (∀ es cs is cs', depthL es < k → compEs fx cenv fn es cs = some (is, cs') → AllOK cenv.funcs.length is) ∧
    (∀ v i es tys cs is cs', depthL es < k → compArgs fx cenv fn v i es tys cs = some (is, cs') → AllOK cenv.funcs.length is) := by
  intro k
  induction k with
  | zero => exact ⟨fun _ _ _ _ h => by omega, fun _ _ _ _ h => by omega, fun _ _ _ _ _ _ _ h => by omega⟩
  | succ k ih =>
    obtain ⟨ihE, ihEs, ihA⟩ := ih
    refine ⟨?_, ?_, ?_⟩
    · intro e cs is cs' hd h
      cases e with
      | cint v => ucomp at h; obtain ⟨a, ha, rfl, _⟩ := h; exact AllOK.single (op8_lt ha)
      | cstr v => ucomp at h; obtain ⟨a, ha, rfl, _⟩ := h; exact AllOK.single (op8_lt ha)
      | cbool v l => ucomp at h; obtain ⟨rfl, _⟩ := h; exact AllOK.single (by cases v <;> trivial)
      | cbad => simp [compE] at h
      | nil => simp [compE] at h
      | bad => simp [compE] at h
      | ident x ty =>
        simp only [compE] at h
        split at h
        · ucomp at h; obtain ⟨a, ha, rfl, _⟩ := h; exact AllOK.single (op8_lt ha)
        · split at h
          · ucomp at h; obtain ⟨a, ha, rfl, _⟩ := h; exact AllOK.single (op8_lt ha)
          · split at h
            · ucomp at h; obtain ⟨a, ha, rfl, _⟩ := h
              exact AllOK.single (by split <;> exact op8_lt ha)
            · simp at h
      | not x =>
        simp only [Expr.depth] at hd
        ucomp at h
        obtain ⟨ix, s1, hx, rfl, _⟩ := h
        exact (ihE x _ _ _ (by omega) hx).append (AllOK.single trivial)
      | bin op ty x y =>
        simp only [Expr.depth] at hd
        have hx : x.depth < k := by omega
        have hy : y.depth < k := by omega
        cases op <;> simp only [compE] at h
        case lor =>
          ucomp at h
          obtain ⟨ix, s1, h1, iy, s2, h2, rfl, _⟩ := h
          have hxA := ihE x _ _ _ hx h1
          have hyA := ihE y _ _ _ hy h2
          intro i hi
          by_cases hp : fx.orPop = true
          · simp [hp] at hi
            rcases hi with h | h | h | h | h
            · exact hxA _ h
            · subst h; trivial
            · subst h; trivial
            · subst h; trivial
            · exact hyA _ h
          · simp [hp] at hi
            rcases hi with h | h | h | h
            · exact hxA _ h
            · subst h; trivial
            · subst h; trivial
            · exact hyA _ h
        case land =>
          ucomp at h
          obtain ⟨ix, s1, h1, iy, s2, h2, rfl, _⟩ := h
          have hxA := ihE x _ _ _ hx h1
          have hyA := ihE y _ _ _ hy h2
          intro i hi
          by_cases hp : fx.orPop = true
          · simp [hp] at hi
            rcases hi with h | h | h | h | h
            · exact hxA _ h
            · subst h; trivial
            · subst h; trivial
            · subst h; trivial
            · exact hyA _ h
          · simp [hp] at hi
            rcases hi with h | h | h | h
            · exact hxA _ h
            · subst h; trivial
            · subst h; trivial
            · exact hyA _ h
        case other => simp at h
        all_goals
          split at h
          · ucomp at h
            obtain ⟨iy, s2, h2, rfl, _⟩ := h
            exact (ihE y _ _ _ hy h2).append (AllOK.single (by split <;> trivial))
          · split at h
            · ucomp at h
              obtain ⟨ix, s1, h1, rfl, _⟩ := h
              exact (ihE x _ _ _ hx h1).append (AllOK.single (by split <;> trivial))
            · split at h
              · simp at h
              · rename_i ins hins
                ucomp at h
                obtain ⟨ix, s1, h1, iy, s2, h2, rfl, _⟩ := h
                exact ((ihE x _ _ _ hx h1).append (ihE y _ _ _ hy h2)).append (AllOK.single (binInstr_ok hins))
      | sliceAll x =>
        simp only [Expr.depth] at hd
        simp only [compE] at h
        exact ihE x _ _ _ (by omega) h
      | sliceTo xty x hi =>
        simp only [Expr.depth] at hd
        simp only [compE] at h
        split at h
        · simp at h
        · ucomp at h
          obtain ⟨ix, s1, h1, iy, s2, h2, rfl, _⟩ := h
          exact ((ihE x _ _ _ (by omega) h1).append (ihE hi _ _ _ (by omega) h2)).append (AllOK.single trivial)
      | sliceFrom xty x lo =>
        simp only [Expr.depth] at hd
        simp only [compE] at h
        split at h
        · simp at h
        · ucomp at h
          obtain ⟨ix, s1, h1, iy, s2, h2, rfl, _⟩ := h
          exact ((ihE x _ _ _ (by omega) h1).append (ihE lo _ _ _ (by omega) h2)).append (AllOK.single trivial)
      | slice xty x lo hi =>
        simp only [Expr.depth] at hd
        simp only [compE] at h
        split at h
        · simp at h
        · ucomp at h
          obtain ⟨ix, s1, h1, iy, s2, h2, iz, s3, h3, rfl, _⟩ := h
          exact (((ihE x _ _ _ (by omega) h1).append (ihE lo _ _ _ (by omega) h2)).append (ihE hi _ _ _ (by omega) h3)).append
            (AllOK.single trivial)
      | len xty x =>
        simp only [Expr.depth] at hd
        ucomp at h
        obtain ⟨ix, s1, h1, h⟩ := h
        split at h
        · simp at h
        · simp only [Option.some.injEq, Prod.mk.injEq] at h
          obtain ⟨rfl, _⟩ := h
          exact (ihE x _ _ _ (by omega) h1).append (AllOK.single trivial)
      | call ci recv args =>
        simp only [Expr.depth] at hd
        ucomp at h
        obtain ⟨ir, s1, h1, h⟩ := h
        have m1 := ihEs recv _ _ _ (by omega) h1
        simp only [hn, idOf, idOfAux] at h
        split at h
        · simp at h
        · split at h
          · simp at h
          · cases hid : idOfAux ci.key cenv.funcs 0 none with
            | none => simp [hid] at h
            | some fid =>
              simp only [hid, pure, Option.pure_def, Option.bind_eq_some_iff, Option.some.injEq, Prod.mk.injEq, Prod.exists] at h
              obtain ⟨ia, s2, h2, rfl, _⟩ := h
              have hlt : fid < cenv.funcs.length := (List.getElem?_eq_some_iff.mp (idOf_spec (keys := cenv.funcs) hid)).1
              refine (m1.append (ihEs args _ _ _ (by omega) h2)).append (AllOK.single ?_)
              split
              · exact ⟨by omega, by omega⟩
              · split <;> exact ⟨by omega, by omega⟩
    · intro es cs is cs' hd h
      cases es with
      | nil => ucomp at h; obtain ⟨rfl, _⟩ := h; exact AllOK.nil
      | cons e es =>
        simp only [depthL] at hd
        ucomp at h
        obtain ⟨i1, s1, h1, i2, s2, h2, rfl, _⟩ := h
        exact (ihE e _ _ _ (by omega) h1).append (ihEs es _ _ _ (by omega) h2)
    · intro v i es tys cs is cs' hd h
      cases es with
      | nil => ucomp at h; obtain ⟨rfl, _⟩ := h; exact AllOK.nil
      | cons e es =>
        simp only [depthL] at hd
        ucomp at h
        obtain ⟨i1, s1, h1, i2, s2, h2, rfl, _⟩ := h
        refine ((ihE e _ _ _ (by omega) h1).append ?_).append (ihA _ _ es _ _ _ _ (by omega) h2)
        split
        · exact AllOK.single trivial
        · exact AllOK.nil

theorem compE_ops {e : Expr} {cs is cs'} (h : compE fx cenv fn e cs = some (is, cs')) : AllOK cenv.funcs.length is :=
  (comp_ops fx cenv fn hn (e.depth + 1)).1 e cs is cs' (by omega) h

end ExprOps

def AllOKS (B : Nat) (sis : List SI) : Prop := ∀ ins, SI.i ins ∈ sis → ins.wfNJ B

theorem AllOKS.nil {B} : AllOKS B [] := fun _ h => by simp at h
theorem AllOKS.append {B a b} (h1 : AllOKS B a) (h2 : AllOKS B b) : AllOKS B (a ++ b) := by
  intro i hi; rcases List.mem_append.mp hi with h | h; exact h1 i h; exact h2 i h
theorem AllOKS.lift {B is} (h : AllOK B is) : AllOKS B (lift is) := by
  intro i hi
  simp only [Q.lift, List.mem_map] at hi
  obtain ⟨j, hj, e⟩ := hi
  cases e; exact h _ hj
theorem AllOKS.brk {B} : AllOKS B [SI.brk] := fun _ h => by simp at h
theorem AllOKS.single {B i} (h : i.wfNJ B) : AllOKS B [SI.i i] := by
  intro j hj; simp at hj; exact hj ▸ h

theorem AllOK.resolve {B} : ∀ (sis : List SI) (d : Nat), AllOKS B sis → AllOK B (resolve sis d)
  | [], _, _ => AllOK.nil
  | .i ins :: xs, d, h => by
    simp only [Q.resolve]
    exact AllOK.cons (h ins (by simp)) (AllOK.resolve xs d (fun j hj => h j (by simp [hj])))
  | .brk :: xs, d, h => by
    simp only [Q.resolve]
    exact AllOK.cons trivial (AllOK.resolve xs d (fun j hj => h j (by simp [hj])))

theorem compTargets_ops {fx : Fixes} {fn : CFn} {define : Bool} {B : Nat} :
    ∀ (lhs : List (Nat × Ty)) (cs : SState) (is : List Instr) (cs' : SState),
      compTargets fx fn define lhs cs = some (is, cs') → AllOK B is := by
  intro lhs
  induction lhs with
  | nil => intro cs is cs' h; simp [compTargets] at h; obtain ⟨rfl, _⟩ := h; exact AllOK.nil
  | cons t rest ih =>
    intro cs is cs' h
    obtain ⟨name, ty⟩ := t
    simp only [compTargets] at h
    cases define with
    | true =>
      simp only [if_true] at h
      split at h
      · simp at h
      · split at h
        · simp at h
        · split at h
          · simp at h
          · split at h
            · simp at h
            · simp only [bind, Option.bind_eq_bind, Option.bind_eq_some_iff, Prod.exists, pure, Option.pure_def,
                Option.some.injEq, Prod.mk.injEq] at h
              obtain ⟨a, ha, r, s2, hr, rfl, _⟩ := h
              exact AllOK.cons (by split <;> exact op8_lt ha) (ih _ _ _ hr)
    | false =>
      simp only [Bool.false_eq_true, if_false] at h
      split at h
      · simp at h
      · simp only [bind, Option.bind_eq_bind, Option.bind_eq_some_iff, Prod.exists, pure, Option.pure_def,
          Option.some.injEq, Prod.mk.injEq] at h
        obtain ⟨a, ha, r, s2, hr, rfl, _⟩ := h
        exact AllOK.cons (by split <;> exact op8_lt ha) (ih _ _ _ hr)

section StmtOps
variable (fx : Fixes) (cenv : CEnv) (fn : CFn) (hn : cenv.natives = [])
include hn

theorem compS_ops_aux : ∀ k,
    (∀ s inLoop cs lu sis cs' lu', Stmt.depth s < k → compS fx cenv fn inLoop s cs lu = some (sis, cs', lu') → AllOKS cenv.funcs.length sis) ∧
    (∀ ss inLoop cs lu sis cs' lu', depthSL ss < k → compSs fx cenv fn inLoop ss cs lu = some (sis, cs', lu') → AllOKS cenv.funcs.length sis) := by
  intro k
  induction k with
  | zero => exact ⟨fun _ _ _ _ _ _ _ h => by omega, fun _ _ _ _ _ _ _ h => by omega⟩
  | succ k ih =>
    obtain ⟨ihS, ihB⟩ := ih
    have hE := fun {e cs is cs'} (h : compE fx cenv fn e cs = some (is, cs')) => compE_ops fx cenv fn hn h
    refine ⟨?_, ?_⟩
    · intro s inLoop cs lu sis cs' lu' hd h
      cases s with
      | ret ty e =>
        simp only [compS] at h
        split at h
        · simp at h; obtain ⟨rfl, _⟩ := h; exact AllOKS.single (by trivial)
        · split at h
          · simp at h; obtain ⟨rfl, _⟩ := h; exact AllOKS.single (by trivial)
          · simp at h; obtain ⟨rfl, _⟩ := h; exact AllOKS.single (by trivial)
          · ucompS at h
            obtain ⟨ie, s1, he, rfl, _⟩ := h
            exact AllOKS.lift ((hE he).append (AllOK.single (by split <;> trivial)))
      | retNone =>
        simp only [compS] at h
        split at h
        · simp at h; obtain ⟨rfl, _⟩ := h; exact AllOKS.single (by trivial)
        · simp at h
      | assign define lhs rhs =>
        ucompS at h
        obtain ⟨ie, s1, he, it, s2, ht, rfl, _⟩ := h
        exact AllOKS.lift ((hE he).append (compTargets_ops _ _ _ _ ht))
      | assignBad => simp [compS] at h
      | assignOp op name ty rhs =>
        simp only [compS] at h
        split at h
        · simp at h
        · ucompS at h
          obtain ⟨ie, s1, he, it, s2, ht, rfl, _⟩ := h
          exact AllOKS.lift ((hE he).append (compTargets_ops _ _ _ _ ht))
      | incdec inc name =>
        simp only [compS] at h
        split at h
        · simp at h
        · ucompS at h; obtain ⟨a, ha, rfl, _⟩ := h; exact AllOKS.single (by split <;> exact op8_lt ha)
      | incdecBad => simp [compS] at h
      | ifThen c body =>
        simp only [Stmt.depth] at hd
        ucompS at h
        obtain ⟨ic, s1, hc, ib, s2, lu2, hb, rfl, _⟩ := h
        exact ((AllOKS.lift (hE hc)).append (AllOKS.single (by trivial))).append (ihS body _ _ _ _ _ _ (by omega) hb)
      | ifElse c body els =>
        simp only [Stmt.depth] at hd
        ucompS at h
        obtain ⟨ic, s1, hc, ib, s2, lu2, hb, ie, s3, lu3, he, rfl, _⟩ := h
        refine ((((AllOKS.lift (hE hc)).append (AllOKS.single (by trivial))).append (ihS body _ _ _ _ _ _ (by omega) hb)).append ?_).append
          (ihS els _ _ _ _ _ _ (by omega) he)
        split
        · exact AllOKS.nil
        · exact AllOKS.single (by trivial)
      | ifInit i r =>
        simp only [Stmt.depth] at hd
        simp only [compS] at h
        split at h
        · simp at h
        · exact ihS r _ _ _ _ _ _ (by omega) h
      | forCond c body =>
        simp only [Stmt.depth] at hd
        ucompS at h
        obtain ⟨ib, s1, lu1, hb, ic, s2, hc, rfl, _⟩ := h
        refine AllOKS.lift ?_
        exact (((AllOK.single (by trivial)).append (AllOK.resolve _ _ (ihS body _ _ _ _ _ _ (by omega) hb))).append (hE hc)).append
          (AllOK.single (by trivial))
      | forEver body =>
        simp only [Stmt.depth] at hd
        ucompS at h
        obtain ⟨ib, s1, lu1, hb, rfl, _⟩ := h
        exact AllOKS.lift ((AllOK.resolve _ _ (ihS body _ _ _ _ _ _ (by omega) hb)).append (AllOK.single (by trivial)))
      | forClause hi hc hp i c p b =>
        simp only [Stmt.depth] at hd
        simp only [compS] at h
        split at h
        · simp at h
        · split at h
          · simp at h
          · ucompS at h
            obtain ⟨ib, s1, lu1, hb, rfl, _⟩ := h
            exact AllOKS.lift ((AllOK.resolve _ _ (ihS b _ _ _ _ _ _ (by omega) hb)).append (AllOK.single (by trivial)))
      | brk =>
        simp only [compS] at h
        split at h
        · simp at h; obtain ⟨rfl, _⟩ := h; exact AllOKS.brk
        · simp at h
      | exprCall e =>
        ucompS at h
        obtain ⟨ie, s1, he, rfl, _⟩ := h
        exact AllOKS.lift (hE he)
      | exprBad => simp [compS] at h
      | block ss =>
        simp only [Stmt.depth] at hd
        simp only [compS] at h
        exact ihB ss _ _ _ _ _ _ (by omega) h
      | bad => simp [compS] at h
    · intro ss inLoop cs lu sis cs' lu' hd h
      cases ss with
      | nil => simp [compSs] at h; obtain ⟨rfl, _⟩ := h; exact AllOKS.nil
      | cons s ss =>
        simp only [depthSL] at hd
        ucompS at h
        obtain ⟨i1, s1, lu1, h1, i2, s2, lu2, h2, rfl, _⟩ := h
        exact (ihS s _ _ _ _ _ _ (by omega) h1).append (ihB ss _ _ _ _ _ _ (by omega) h2)

/-- every instruction of a function compiled under the range repair fits its encoding, provided the table of
compiled functions has at most 32768 entries -/
theorem structCompile_wf (hr : fx.range = true) (hB : cenv.funcs.length ≤ 32768) {g : FuncDecl} {sf : SFunc}
    (h : structCompile fx cenv g = some sf) : ∀ i ∈ sf.instrs, i.wf := by
  -- the range check of structCompile
  have hjr : sf.instrs.all jumpInRange = true := by
    unfold structCompile at h
    cases hrt : retTyOf g.results with
    | none => simp [hrt] at h
    | some retTy =>
      simp only [hrt] at h
      split at h
      · simp at h
      · cases hcp : collectParams g.params [] [] with
        | err => simp [hcp] at h
        | panic q => simp [hcp] at h
        | ok pp =>
          obtain ⟨ps, ips⟩ := pp
          simp only [hcp] at h
          cases hcs : compS fx cenv { retVoid := retTy == Ty.void, params := ps, intParams := ips } false g.body {} false with
          | none => simp [hcs] at h
          | some r =>
            obtain ⟨sis, s, lu⟩ := r
            simp only [hcs] at h
            generalize hgen : (resolve sis 0 ++ if (retTy == Ty.void) = true then [Instr.ret] else []) = is at h
            split at h
            · simp at h
            · rename_i hchk
              simp only [Option.some.injEq] at h
              subst h
              simpa [hr] using hchk
  obtain ⟨retTy, ps, ips, sis, s, lu, _, _, hcs, rfl⟩ := structCompile_some h
  have hops : AllOK cenv.funcs.length (resolve sis 0 ++ if (retTy == Ty.void) = true then [Instr.ret] else []) := by
    refine (AllOK.resolve _ _ ((compS_ops_aux fx cenv _ hn (g.body.depth + 1)).1 _ _ _ _ _ _ _ (by omega) hcs)).append ?_
    split
    · exact AllOK.single (by trivial)
    · exact AllOK.nil
  intro i hi
  have h1 := hops i hi
  have h2 : jumpInRange i = true := (List.all_eq_true.mp hjr) i hi
  cases i <;> simp_all [Instr.wf, Instr.wfNJ, jumpInRange] <;> omega

end StmtOps

/-- A program compiled function by function by the (repaired) structured compiler — the hypotheses of the
correctness theorem in checkable form: distinct function keys, distinct parameter names, no `void` result
type, fewer than 32768 functions, no natives; `cfs` is what `structCompile` returns for every function in
the environment of the functions before it. -/
structure Compiled where
  fx : Fixes
  hfx : FxOK fx
  P : SpecC04.Prog
  hnat : ∀ k, P.nat k = none
  cfs : List CFunc
  keysNodup : (P.funcs.map (·.key)).Nodup
  paramsNodup : ∀ g ∈ P.funcs, (g.params.map Prod.fst).Nodup
  novoid : ∀ g ∈ P.funcs, ∀ t ∈ g.results, t ≠ Ty.void
  small : P.funcs.length ≤ 32768
  compiled : ∀ j g, P.funcs[j]? = some g →
    ∃ sf, structCompile fx ⟨[], (P.funcs.take j).map (·.key)⟩ g = some sf ∧ cfs[j]? = some sf.toCFunc

def Compiled.toWorld (K : Compiled) : World where
  fx := K.fx
  hfx := K.hfx
  P := K.P
  hnat := K.hnat
  cfs := K.cfs
  keysNodup := K.keysNodup
  linked := by
    intro j g hg
    obtain ⟨sf, hsc, hcf⟩ := K.compiled j g hg
    have hmem : g ∈ K.P.funcs := List.mem_of_getElem? hg
    refine ⟨sf.toCFunc, hcf, ⟨⟨sf, hsc, rfl, ?_⟩, K.paramsNodup g hmem, K.novoid g hmem⟩⟩
    refine structCompile_wf K.fx _ rfl K.hfx.range ?_ hsc
    have := K.small
    simp only [List.length_map, List.length_take]
    omega

end Q
