import Rg.Proofs.QSim
import Rg.Spec.C04
/-!
# The simulation invariant between the reference semantics and the VM

* a source value lives on the int stack (ints) or the object stack (everything else): `pushVal`;
* the part of the stacks below the current expression temporaries (`BaseOf`) holds the frame's
  parameters, counted from the bottom;
* `FrameOK`: every variable visible in the source environment is where the compiler's lookup order
  (object parameters, int parameters, locals) will read it.
-/
namespace Q
open SpecC04 (Val Env lookup tagOf)

/-- the repairs the simulation needs (everything except `argSig`, which only concerns natives) -/
structure FxOK (fx : Fixes) : Prop where
  frame : fx.frame = true
  ifJump : fx.ifJump = true
  orPop : fx.orPop = true
  range : fx.range = true
  shadow : fx.shadow = true
  forClause : fx.forClause = true
  assignOp : fx.assignOp = true
  ifInit : fx.ifInit = true

theorem FxOK.all : FxOK Fixes.all := ⟨rfl, rfl, rfl, rfl, rfl, rfl, rfl, rfl⟩

def objOf : Val → Obj
  | .str b => .str b
  | .bool b => .bool b
  | .nil => .nil
  | .err k s => .err k s
  | .int i => .int i

def pushVal (v : Val) (st : Stack) : Stack :=
  match v with
  | .int i => pushInt i st
  | v => pushObj (objOf v) st

/-- `st` is some temporaries on top of the base stacks `bO`, `bI` -/
def BaseOf (st : Stack) (bO : List Obj) (bI : List Int64) : Prop :=
  ∃ tO tI, st.objs = tO ++ bO ∧ st.ints = tI ++ bI

theorem BaseOf.pushVal {st bO bI} (h : BaseOf st bO bI) (v : Val) : BaseOf (pushVal v st) bO bI := by
  obtain ⟨tO, tI, h1, h2⟩ := h
  cases v <;> simp [Q.pushVal, pushInt, pushObj, h1, h2]
  · exact ⟨tO, _ :: tI, rfl, rfl⟩
  all_goals exact ⟨_ :: tO, tI, rfl, rfl⟩

theorem BaseOf.pushObj {st bO bI} (h : BaseOf st bO bI) (o : Obj) : BaseOf (pushObj o st) bO bI := by
  obtain ⟨tO, tI, h1, h2⟩ := h
  exact ⟨o :: tO, tI, by simp [Q.pushObj, h1], by simp [Q.pushObj, h2]⟩

theorem BaseOf.pushInt {st bO bI} (h : BaseOf st bO bI) (i : Int64) : BaseOf (pushInt i st) bO bI := by
  obtain ⟨tO, tI, h1, h2⟩ := h
  exact ⟨tO, i :: tI, by simp [Q.pushInt, h1], by simp [Q.pushInt, h2]⟩

/-- where a local slot holds a value -/
def slotHolds (fr : Frame) (i : Nat) : Val → Prop
  | .int k => fr.intLocals[i]? = some k
  | v => fr.locals[i]? = some (objOf v)

/-- every visible source variable is where the compiled code reads it -/
def FrameOK (fn : CFn) (locals : List (Nat × Nat)) (env : Env) (fr : Frame) (bO : List Obj) (bI : List Int64) : Prop :=
  ∀ x v, lookup env x = some v →
    (∃ i, mapGet fn.params x = some i ∧ tagOf v ≠ .int ∧ fromBottom bO (fr.top + i) = .ok (objOf v)) ∨
    (mapGet fn.params x = none ∧ ∃ i k, mapGet fn.intParams x = some i ∧ v = .int k ∧
        fromBottom bI (fr.intTop + i) = .ok k) ∨
    (mapGet fn.params x = none ∧ mapGet fn.intParams x = none ∧
        ∃ i, mapGet locals x = some i ∧ slotHolds fr i v)

theorem fromBottom_append {α} (t b : List α) (i : Int) (a : α) (h : fromBottom b i = .ok a) :
    fromBottom (t ++ b) i = .ok a := by
  unfold fromBottom at h ⊢
  by_cases hi : i < 0
  · simp [hi] at h
  · simp only [hi, if_false] at h ⊢
    by_cases hl : i.toNat < b.length
    · simp only [hl, if_true] at h
      have hl' : i.toNat < (t ++ b).length := by simp; omega
      simp only [hl', if_true]
      have e : (t ++ b).length - 1 - i.toNat = t.length + (b.length - 1 - i.toNat) := by simp; omega
      rw [e, List.getElem?_append_right (by omega)]
      simpa using h
    · simp [hl] at h

/-- the constant pools of the finished function extend the pools at any earlier moment -/
def PoolOK (cs : SState) (f : CFunc) : Prop :=
  cs.consts <+: f.consts ∧ cs.intConsts <+: f.intConsts

theorem op8_eq {fx : Fixes} (h : fx.range = true) {i a : Nat} (ho : op8 fx i = some a) : a = i ∧ i < 256 := by
  unfold op8 at ho
  by_cases hi : i > 255
  · simp [h, hi] at ho
  · simp [h, hi] at ho
    omega

end Q
