import Rg.Model.TypeMatch
import Rg.Spec.C10
import Rg.Proofs.XTypes
/-!
# Lemmas about the model of `typematch`

Part 1: with no fields left the sequence loop accepts exactly the all-`$*_` remainders (`matchSubsAsIs_nil`).
Part 2: closed patterns (no named variable, no `$*_`) on tame types: the matcher leaves the binding
tables alone and computes the denotation (`closed_run`).
-/
open XTypes TypeMatch

namespace TypeMatch

/-! ## Part 1 -/

theorem matchSubsAsIs_nil (fx : Bool) (st : MState) : ∀ subs : List Pat, matchSubsAsIs fx st subs [] = (subs.all Pat.isSeq, st)
  | [] => by simp [matchSubsAsIs]
  | [.varSeq] => by simp [matchSubsAsIs, Pat.isSeq]
  | .varSeq :: next :: rest => by simp [matchSubsAsIs, scanSeq, Pat.isSeq]
  | .builtin _ :: _ | .ptr _ :: _ | .var _ :: _ | .slice _ :: _ | .arrayVar .. :: _ | .arrayLit .. :: _
  | .map .. :: _ | .chan .. :: _ | .funcNoSeq .. :: _ | .func .. :: _ | .structNoSeq _ :: _ | .struct _ :: _
  | .anyIface :: _ | .named .. :: _ => by simp [matchSubsAsIs, Pat.isSeq]

/-! ## Part 2 — closed patterns -/

mutual
/-- no named variable, no `$*_` (so no `func`/`struct` node either: `parseExpr` builds those only around a `$*_`);
every builtin payload is in `bs` -/
def closedIn (bs : List Ty) : Pat → Bool
  | .builtin b => bs.contains b
  | .ptr e => closedIn bs e
  | .var n => n == "_"
  | .varSeq => false
  | .slice e => closedIn bs e
  | .arrayVar n e => n == "_" && closedIn bs e
  | .arrayLit _ e => closedIn bs e
  | .map k v => closedIn bs k && closedIn bs v
  | .chan _ e => closedIn bs e
  | .funcNoSeq ps rs => closedInList bs ps && closedInList bs rs
  | .func _ _ => false
  | .structNoSeq ms => closedInList bs ms
  | .struct _ => false
  | .anyIface => true
  | .named _ _ => true
def closedInList (bs : List Ty) : List Pat → Bool
  | [] => true
  | p :: ps => closedIn bs p && closedInList bs ps
end

/-- the two ways of stripping a vendor prefix agree on this path (at most one `/vendor/`, no leading `vendor/`) -/
def vendorSimple (path : String) : Bool :=
  SpecC10.stripVendor SpecC10.Rules.strict path == vendorStrip path

/-- on this node the identity `I` of the spec answers like `xtypes.Identical` against every payload in `bs` -/
def idAt (fx : Bool) (I : Ty → Ty → Bool) (bs : List Ty) (t : Ty) : Bool :=
  bs.all fun b => tid fx t b == I t b

mutual
/-- Types on which the code's reading and the Go-spec reading of a pattern cannot part: no alias node, no
variadic or generic signature, no instantiated or function-local named type, vendor-simple package paths — and on every
subterm the identity `I` of the spec answers like `xtypes.Identical` against the builtin payloads `bs`. -/
def tame (fx : Bool) (I : Ty → Ty → Bool) (bs : List Ty) : Ty → Bool
  | .nil => idAt fx I bs .nil
  | .basic k => idAt fx I bs (.basic k)
  | .array n e => idAt fx I bs (.array n e) && tame fx I bs e
  | .slice e => idAt fx I bs (.slice e) && tame fx I bs e
  | .ptr e => idAt fx I bs (.ptr e) && tame fx I bs e
  | .map k e => idAt fx I bs (.map k e) && tame fx I bs k && tame fx I bs e
  | .chan d e => idAt fx I bs (.chan d e) && tame fx I bs e
  | .tuple es => idAt fx I bs (.tuple es) && tameList fx I bs es
  | .sig v tps p r => idAt fx I bs (.sig v tps p r) && !v && tps.isEmpty && tame fx I bs p && tame fx I bs r
  | .field n p x m tg ty => idAt fx I bs (.field n p x m tg ty) && tame fx I bs ty
  | .struct fs => idAt fx I bs (.struct fs) && tameList fx I bs fs
  | .method n p x ty => idAt fx I bs (.method n p x ty) && tame fx I bs ty
  | .iface a c ms es => idAt fx I bs (.iface a c ms es)
  | .named u o p n x l ts =>
      idAt fx I bs (.named u o p n x l ts) && ts.isEmpty && !l &&
        (match p with | some path => vendorSimple path | none => true)
  | .alias _ _ _ => false
  | .tparam u o => idAt fx I bs (.tparam u o)
  | .term _ _ => false
  | .union _ _ => false
def tameList (fx : Bool) (I : Ty → Ty → Bool) (bs : List Ty) : List Ty → Bool
  | [] => true
  | a :: as => tame fx I bs a && tameList fx I bs as
end

theorem tame_idAt {fx : Bool} {I : Ty → Ty → Bool} {bs : List Ty} {t : Ty} (h : tame fx I bs t = true) :
    idAt fx I bs t = true := by
  cases t <;> simp only [tame, Bool.and_eq_true, Bool.false_eq_true] at h
  all_goals first | exact h | exact h.1 | exact h.1.1 | exact h.1.1.1 | exact h.1.1.1.1 | exact h.elim

theorem idAt_apply {fx : Bool} {I : Ty → Ty → Bool} {bs : List Ty} {t b : Ty} (h : idAt fx I bs t = true)
    (hb : bs.contains b = true) : tid fx t b = I t b := by
  unfold idAt at h
  rw [List.all_eq_true] at h
  have := h b (by simpa using hb)
  simpa using this

theorem tame_notAlias {fx : Bool} {I : Ty → Ty → Bool} {bs : List Ty} {t : Ty} (h : tame fx I bs t = true) :
    SpecC10.unaliasTarget SpecC10.Rules.strict t = t := by
  cases t <;> simp_all [tame, SpecC10.unaliasTarget]

theorem tupleElems_eq (t : Ty) : SpecC10.tupleElems t = tupleElems t := by
  cases t <;> rfl

theorem fieldTypes_eq : ∀ fs : List Ty, SpecC10.fieldTypes fs = fieldTypes fs
  | [] => rfl
  | f :: fs => by cases f <;> simp [SpecC10.fieldTypes, fieldTypes, fieldTypes_eq fs]

theorem fieldTypes_length : ∀ fs : List Ty, (fieldTypes fs).length = fs.length
  | [] => rfl
  | f :: fs => by cases f <;> simp [fieldTypes, fieldTypes_length fs]

theorem tameList_fieldTypes {fx : Bool} {I : Ty → Ty → Bool} {bs : List Ty} :
    ∀ fs : List Ty, tameList fx I bs fs = true → tameList fx I bs (fieldTypes fs) = true
  | [], _ => by simp [fieldTypes, tameList]
  | f :: fs, h => by
    simp only [tameList, Bool.and_eq_true] at h
    have ih := tameList_fieldTypes fs h.2
    cases f
    case field n p x m tg ty =>
      have := h.1
      simp only [tame, Bool.and_eq_true] at this
      simp [fieldTypes, tameList, this.2, ih]
    all_goals simp [fieldTypes, tameList, h.1, ih]

theorem tameList_tupleElems {fx : Bool} {I : Ty → Ty → Bool} {bs : List Ty} {t : Ty}
    (h : tame fx I bs t = true) : tameList fx I bs (tupleElems t) = true := by
  cases t
  case tuple es =>
    simp only [tame, Bool.and_eq_true] at h
    simpa [tupleElems] using h.2
  all_goals simp [tupleElems, tameList]

section
variable {fx : Bool} {I : Ty → Ty → Bool} {bs : List Ty}
open SpecC10 (specM specSeq Rules)

theorem match_pair {α : Type} (x : Bool × MState) (f : MState → α) (g : MState → α) :
    (match x with | (true, s) => f s | (false, s) => g s) = if x.1 then f x.2 else g x.2 := by
  rcases x with ⟨b, s⟩; cases b <;> rfl

mutual
/-- A closed pattern against a tame type: the binding tables come back unchanged, and the assignments the
spec finds are `[st]` or none according to the matcher's answer. -/
theorem closed_run : ∀ (p : Pat) (st : MState) (t : Ty), closedIn bs p = true → tame fx I bs t = true →
    (matchIdenticalAsIs fx st p t).2 = st ∧
    specM I Rules.strict st p t = if (matchIdenticalAsIs fx st p t).1 then [st] else []
  | .builtin b, st, t, hc, ht => by
    have hid := idAt_apply (tame_idAt ht) (by simpa [closedIn] using hc)
    unfold matchIdenticalAsIs specM
    cases t <;> simp [hid]
  | .var n, st, t, hc, ht => by
    have : n = "_" := by simpa [closedIn] using hc
    subst this
    unfold matchIdenticalAsIs specM
    cases t <;> simp
  | .varSeq, st, t, hc, ht => by simp [closedIn] at hc
  | .ptr e, st, t, hc, ht => by
    have hu := tame_notAlias ht
    unfold matchIdenticalAsIs specM
    rw [hu]
    cases t <;> simp
    rename_i a
    simp only [closedIn] at hc; simp only [tame, Bool.and_eq_true] at ht
    exact closed_run e st a hc ht.2
  | .slice e, st, t, hc, ht => by
    have hu := tame_notAlias ht
    unfold matchIdenticalAsIs specM
    rw [hu]
    cases t <;> simp
    rename_i a
    simp only [closedIn] at hc; simp only [tame, Bool.and_eq_true] at ht
    exact closed_run e st a hc ht.2
  | .arrayVar v e, st, t, hc, ht => by
    have hu := tame_notAlias ht
    simp only [closedIn, Bool.and_eq_true, beq_iff_eq] at hc
    obtain ⟨rfl, hc⟩ := hc
    unfold matchIdenticalAsIs specM
    rw [hu]
    cases t <;> simp
    rename_i n a
    simp only [tame, Bool.and_eq_true] at ht
    exact closed_run e st a hc ht.2
  | .arrayLit len e, st, t, hc, ht => by
    have hu := tame_notAlias ht
    simp only [closedIn] at hc
    unfold matchIdenticalAsIs specM
    rw [hu]
    cases t <;> simp
    rename_i n a
    simp only [tame, Bool.and_eq_true] at ht
    have ih := closed_run e st a hc ht.2
    by_cases hl : len = n
    · simp [hl, ih]
    · simp [hl]
  | .map k v, st, t, hc, ht => by
    have hu := tame_notAlias ht
    simp only [closedIn, Bool.and_eq_true] at hc
    unfold matchIdenticalAsIs specM
    rw [hu]
    cases t <;> simp
    rename_i tk tv
    simp only [tame, Bool.and_eq_true] at ht
    have ihk := closed_run k st tk hc.1 ht.1.2
    have ihv := closed_run v st tv hc.2 ht.2
    have ek : matchIdenticalAsIs fx st k tk = ((matchIdenticalAsIs fx st k tk).1, st) := Prod.ext rfl ihk.1
    rw [ihk.2]
    generalize (matchIdenticalAsIs fx st k tk).1 = bk at ek
    simp only [ek]
    cases bk <;> simp [ihv]
  | .chan dir e, st, t, hc, ht => by
    have hu := tame_notAlias ht
    simp only [closedIn] at hc
    unfold matchIdenticalAsIs specM
    rw [hu]
    cases t <;> simp
    rename_i d a
    simp only [tame, Bool.and_eq_true] at ht
    have ih := closed_run e st a hc ht.2
    by_cases hl : dir = d
    · simp [hl, ih]
    · simp [hl]
  | .named pkgPath typeName, st, t, hc, ht => by
    have hu := tame_notAlias ht
    unfold matchIdenticalAsIs specM
    rw [hu]
    cases t <;> simp
    rename_i u o p n x l ts
    simp only [tame, Bool.and_eq_true, List.isEmpty_iff, Bool.not_eq_true'] at ht
    obtain ⟨⟨⟨_, rfl⟩, rfl⟩, hv⟩ := ht
    cases p with
    | none => simp
    | some path =>
      have hv' : SpecC10.stripVendor Rules.strict path = vendorStrip path := by simpa [vendorSimple] using hv
      simp [hv']
  | .funcNoSeq pps prs, st, t, hc, ht => by
    have hu := tame_notAlias ht
    simp only [closedIn, Bool.and_eq_true] at hc
    unfold matchIdenticalAsIs specM
    rw [hu]
    cases t <;> simp
    rename_i v tps params results
    simp only [tame, Bool.and_eq_true, Bool.not_eq_true', List.isEmpty_iff] at ht
    obtain ⟨⟨⟨⟨_, rfl⟩, rfl⟩, hp⟩, hr⟩ := ht
    have ihp := closed_runAll pps st (tupleElems params) hc.1 (tameList_tupleElems hp)
    have ihr := closed_runAll prs st (tupleElems results) hc.2 (tameList_tupleElems hr)
    have ep : matchAllAsIs fx st pps (tupleElems params) = ((matchAllAsIs fx st pps (tupleElems params)).1, st) :=
      Prod.ext rfl ihp.1
    simp only [tupleElems_eq]
    rw [ihp.2]
    generalize (matchAllAsIs fx st pps (tupleElems params)).1 = bp at ep
    simp only [ep]
    by_cases h1 : pps.length = (tupleElems params).length
    · by_cases h2 : prs.length = (tupleElems results).length
      · cases bp <;> simp [h1, h2, ihr]
      · have h2' : ¬ (tupleElems results).length = prs.length := fun e => h2 e.symm
        cases bp <;> simp [h1, h2, h2', ihr.2]
    · have h1' : ¬ (tupleElems params).length = pps.length := fun e => h1 e.symm
      simp [h1, h1']
  | .func _ _, st, t, hc, ht => by simp [closedIn] at hc
  | .structNoSeq subs, st, t, hc, ht => by
    have hu := tame_notAlias ht
    simp only [closedIn] at hc
    unfold matchIdenticalAsIs specM
    rw [hu]
    cases t <;> simp
    rename_i fs
    simp only [tame, Bool.and_eq_true] at ht
    have ih := closed_runAll subs st (fieldTypes fs) hc (tameList_fieldTypes fs ht.2)
    rw [fieldTypes_eq, ih.2, fieldTypes_length]
    by_cases hl : fs.length = subs.length
    · simp [hl, ih.1]
    · have hl' : ¬ subs.length = fs.length := fun e => hl e.symm
      simp [hl, hl']
  | .struct _, st, t, hc, ht => by simp [closedIn] at hc
  | .anyIface, st, t, hc, ht => by
    have hu := tame_notAlias ht
    unfold matchIdenticalAsIs specM
    rw [hu]
    cases t <;> simp
theorem closed_runAll : ∀ (ps : List Pat) (st : MState) (ts : List Ty), closedInList bs ps = true →
    tameList fx I bs ts = true →
    (matchAllAsIs fx st ps ts).2 = st ∧
    specSeq I Rules.strict st ps ts =
      if ps.length = ts.length ∧ (matchAllAsIs fx st ps ts).1 = true then [st] else []
  | [], st, [], _, _ => by simp [matchAllAsIs, specSeq]
  | [], st, _ :: _, _, _ => by simp [matchAllAsIs, specSeq]
  | p :: ps, st, [], hc, _ => by
    cases p <;> simp [matchAllAsIs, specSeq, closedInList, closedIn] at hc ⊢
  | p :: ps, st, t :: ts, hc, ht => by
    simp only [closedInList, Bool.and_eq_true] at hc
    simp only [tameList, Bool.and_eq_true] at ht
    have ih1 := closed_run p st t hc.1 ht.1
    have ih2 := closed_runAll ps st ts hc.2 ht.2
    have hns : p ≠ Pat.varSeq := by rintro rfl; simp [closedIn] at hc
    unfold matchAllAsIs specSeq
    cases p <;> first | (exact absurd rfl hns) | skip
    all_goals
      have e1 := Prod.ext (x := matchIdenticalAsIs fx st _ t) (y := ((matchIdenticalAsIs fx st _ t).1, st)) rfl ih1.1
      simp only [ih1.2]
      generalize (matchIdenticalAsIs fx st _ t).1 = b1 at e1
      simp only [e1]
      cases b1 <;> simp [ih2]
end

end

end TypeMatch
