import Rg.Proofs.Loads
/-! Behaviour of loaded rules (C13): after a successful load with the repaired loader every rule runs the
custom functions its own file declares. -/
namespace LoadM
open SpecC13

/-! ### the name table -/

theorem lookup_addFunc (env : Env) (k k' : Nat × Nat) (f : Func) :
    (env.addFunc k f).lookup k' = if k = k' then some env.funcs.length else env.lookup k' := by
  unfold Env.lookup Env.addFunc
  simp only [List.find?_cons]
  by_cases h : k = k'
  · subst h; simp
  · have : (k == k') = false := by simpa using h
    simp [this, h]

theorem lookup_forget_mem (env : Env) (ks : List (Nat × Nat)) (k : Nat × Nat) (h : k ∈ ks) :
    (env.forget ks).lookup k = none := by
  unfold Env.lookup Env.forget
  have : (env.names.filter fun x => !ks.contains x.1).find? (fun x => x.1 == k) = none := by
    rw [List.find?_eq_none]
    intro x hx
    simp only [List.mem_filter] at hx
    intro hxk
    have : x.1 = k := by simpa using hxk
    rw [this] at hx
    simp [h] at hx
  rw [this]

/-- what `compileFuncs` guarantees for a declaration it has compiled -/
def Bound (env' : Env) (base : Nat) (d : FuncDecl) : Prop :=
  ∃ id cid, env'.lookup (gorules, d.name) = some id ∧ base ≤ id ∧
    env'.funcs[id]? = some ⟨d.kind, d.tag, d.lit, cid⟩ ∧
    (d.callee = none → cid = none) ∧
    (∀ c, d.callee = some c → ∃ idc, cid = some idc ∧ env'.lookup (gorules, c) = some idc)

theorem compileFuncs_bound : ∀ (ds : List FuncDecl) (env env' : Env),
    (ds.map (·.name)).Nodup → (∀ d ∈ ds, env.lookup (gorules, d.name) = none) →
    compileFuncs env ds = (env', .ok ()) →
    (∀ k, (∀ d ∈ ds, k ≠ (gorules, d.name)) → env'.lookup k = env.lookup k) ∧
    ∀ d ∈ ds, Bound env' env.funcs.length d
  | [], env, env', _, _, h => by
    simp [compileFuncs] at h; subst h
    exact ⟨fun _ _ => rfl, fun d hd => by cases hd⟩
  | d :: rest, env, env', hnd, hnone, h => by
    have hnd0 : (d.name :: rest.map (·.name)).Nodup := hnd
    have hnd' : (rest.map (·.name)).Nodup := (List.nodup_cons.1 hnd0).2
    have hdn : ∀ d' ∈ rest, d'.name ≠ d.name := by
      intro d' hd' heq
      have := (List.nodup_cons.1 hnd0).1
      exact this (by rw [← heq]; exact List.mem_map_of_mem hd')
    -- the function registered for d and what is known about its callee
    have key : ∃ cid, compileFuncs (env.addFunc (gorules, d.name) ⟨d.kind, d.tag, d.lit, cid⟩) rest = (env', .ok ()) ∧
        (d.callee = none → cid = none) ∧
        (∀ c, d.callee = some c → ∃ idc, cid = some idc ∧ env.lookup (gorules, c) = some idc) := by
      unfold compileFuncs at h
      split at h
      · simp at h
      · split at h
        · rename_i hc
          exact ⟨none, h, fun _ => rfl, fun c hc' => (by rw [hc] at hc'; cases hc')⟩
        · rename_i c hc
          split at h
          · simp at h
          · rename_i idc hl
            exact ⟨some idc, h, fun hn => (by rw [hc] at hn; cases hn),
              fun c' hc' => (by rw [hc] at hc'; cases hc'; exact ⟨idc, rfl, hl⟩)⟩
    obtain ⟨cid, hrest, hcn, hcs⟩ := key
    let f : Func := ⟨d.kind, d.tag, d.lit, cid⟩
    let env1 := env.addFunc (gorules, d.name) f
    have hnone1 : ∀ d' ∈ rest, env1.lookup (gorules, d'.name) = none := by
      intro d' hd'
      show (env.addFunc (gorules, d.name) f).lookup (gorules, d'.name) = none
      rw [lookup_addFunc]
      have : ¬ ((gorules, d.name) = (gorules, d'.name)) := by
        intro e; exact hdn d' hd' (Prod.mk.inj e).2.symm
      simp [this, hnone d' (List.mem_cons_of_mem _ hd')]
    obtain ⟨ih1, ih2⟩ := compileFuncs_bound rest env1 env' hnd' hnone1 hrest
    have hext := compileFuncs_ext rest env1
    rw [hrest] at hext
    refine ⟨?_, ?_⟩
    · intro k hk
      rw [ih1 k (fun d' hd' => hk d' (List.mem_cons_of_mem _ hd'))]
      show (env.addFunc (gorules, d.name) f).lookup k = env.lookup k
      rw [lookup_addFunc]
      have : ¬ ((gorules, d.name) = k) := fun e => hk d (List.mem_cons_self ..) e.symm
      simp [this]
    · intro d' hd'
      rcases List.mem_cons.1 hd' with rfl | hd'
      · refine ⟨env.funcs.length, cid, ?_, Nat.le_refl _, ?_, hcn, ?_⟩
        · rw [ih1 _ (fun d'' hd'' e => hdn d'' hd'' (Prod.mk.inj e).2.symm)]
          show (env.addFunc (gorules, d'.name) f).lookup (gorules, d'.name) = _
          rw [lookup_addFunc]; simp
        · obtain ⟨more, hm⟩ := hext.1
          rw [hm]
          show ((env.funcs ++ [f]) ++ more)[env.funcs.length]? = some f
          rw [List.append_assoc, List.getElem?_append_right (Nat.le_refl _)]
          simp
        · intro c hc
          obtain ⟨idc, h1, h2⟩ := hcs c hc
          refine ⟨idc, h1, ?_⟩
          have hcne : c ≠ d'.name := by
            intro e; rw [e, hnone d' (List.mem_cons_self ..)] at h2; cases h2
          rw [ih1 _ (fun d'' hd'' e => by
            have : c = d''.name := (Prod.mk.inj e).2
            rw [this, hnone d'' (List.mem_cons_of_mem _ hd'')] at h2; cases h2)]
          show (env.addFunc (gorules, d'.name) f).lookup (gorules, c) = _
          rw [lookup_addFunc]
          have : ¬ ((gorules, d'.name) = (gorules, c)) := fun e => hcne (Prod.mk.inj e).2.symm
          simp [this, h2]
      · obtain ⟨id, cid', h1, h2, h3, h4, h5⟩ := ih2 d' hd'
        refine ⟨id, cid', h1, ?_, h3, h4, h5⟩
        have : env1.funcs.length = env.funcs.length + 1 := by simp [env1, Env.addFunc]
        omega

/-! ### one entry of the value table -/

theorem table_entry (snap : Nat) (funcs : List Func) (id : Nat) (f : Func) (hf : funcs[id]? = some f) :
    (table snap funcs)[id]? = some (valOf snap (table snap (funcs.take id)) f) := by
  have hid : id < funcs.length := by
    rcases Nat.lt_or_ge id funcs.length with h | h
    · exact h
    · rw [List.getElem?_eq_none h] at hf; cases hf
  have hsplit : funcs = funcs.take id ++ f :: funcs.drop (id + 1) := by
    have hfe : funcs[id] = f := by
      have := List.getElem?_eq_getElem hid
      rw [this] at hf; exact Option.some.inj hf
    rw [← hfe]
    exact (List.take_append_drop id funcs).symm.trans (by rw [List.drop_eq_getElem_cons hid])
  have hlen : (table snap (funcs.take id)).length = id := by
    rw [table_length]; simp; omega
  conv => lhs; rw [hsplit]
  unfold table
  rw [tableFrom_append]
  simp only [tableFrom]
  obtain ⟨rest, hr⟩ := tableFrom_prefix snap (funcs.drop (id + 1))
    (tableFrom snap [] (funcs.take id) ++ [valOf snap (tableFrom snap [] (funcs.take id)) f])
  rw [hr, List.append_assoc]
  have hlen' : (tableFrom snap [] (funcs.take id)).length = id := hlen
  rw [List.getElem?_append_right (by omega), hlen']
  simp

theorem table_take_prefix (snap : Nat) (funcs : List Func) (id c : Nat) (hc : c < id) (hid : id ≤ funcs.length) :
    (table snap (funcs.take id))[c]? = (table snap funcs)[c]? := by
  have hsplit : funcs = funcs.take id ++ funcs.drop id := (List.take_append_drop id funcs).symm
  obtain ⟨rest, hr⟩ := table_append_prefix snap (funcs.take id) (funcs.drop id)
  rw [← hsplit] at hr
  rw [hr, List.getElem?_append_left]
  rw [table_length]; simp; omega

/-- the value of a function whose callee (if any) has a known value -/
theorem table_value {env : Env} (hw : EnvWF env) (id : Nat) (f : Func) (hf : env.funcs[id]? = some f) :
    (f.callee = none → (table env.funcs.length env.funcs)[id]? = some (.ok ([f.tag], f.lit))) ∧
    (∀ c t b, f.callee = some c → (table env.funcs.length env.funcs)[c]? = some (.ok (t, b)) →
      (table env.funcs.length env.funcs)[id]? = some (.ok (f.tag :: t, b))) := by
  have hid : id < env.funcs.length := by
    rcases Nat.lt_or_ge id env.funcs.length with h | h
    · exact h
    · rw [List.getElem?_eq_none h] at hf; cases hf
  rw [table_entry _ _ id f hf]
  constructor
  · intro hn; simp [valOf, hn]
  · intro c t b hc hv
    have hcid : c < id := hw.2 id f hf c hc
    have : ¬ env.funcs.length ≤ c := by omega
    rw [← table_take_prefix _ _ id c hcid (by omega)] at hv
    simp [valOf, hc, this, hv]

/-! ### a compiled file's functions mean what the file says -/

/-- name `n` is bound — in the engine-wide table (calls) and in the file's own table `own` (rules) — to a
function of kind `k` whose value is `(t, b)` -/
def Good (env : Env) (own : List (Nat × Nat)) (n : Nat) (v : FKind × List Nat × Bool) : Prop :=
  ∃ id f, env.lookup (gorules, n) = some id ∧ ownLookup own n = some id ∧ env.funcs[id]? = some f ∧ f.kind = v.1 ∧
    (table env.funcs.length env.funcs)[id]? = some (.ok (v.2.1, v.2.2))

/-- on the names `ds` declares, the file's own table agrees with the engine-wide one -/
def OwnAgrees (env : Env) (own : List (Nat × Nat)) (ds : List FuncDecl) : Prop :=
  ∀ d ∈ ds, ∀ id, env.lookup (gorules, d.name) = some id → ownLookup own d.name = some id

theorem intended_good {env : Env} (hw : EnvWF env) (ds : List FuncDecl) (base : Nat) {own : List (Nat × Nat)}
    (hb : ∀ d ∈ ds, Bound env base d) (hown : OwnAgrees env own ds) :
    ∀ (fuel n : Nat) (v : FKind × List Nat × Bool), intended ds fuel n = some v → Good env own n v
  | 0, n, v, h => by simp [intended] at h
  | fuel + 1, n, v, h => by
    unfold intended at h
    split at h
    · cases h
    · rename_i d hd
      have hmem : d ∈ ds := List.mem_of_find?_eq_some hd
      have hname : d.name = n := by
        have := List.find?_some hd; simpa using this
      obtain ⟨id, cid, h1, _, h3, h4, h5⟩ := hb d hmem
      have h1o := hown d hmem id h1
      rw [hname] at h1 h1o
      obtain ⟨tv0, tv1⟩ := table_value hw id _ h3
      split at h
      · rename_i hc
        cases h
        refine ⟨id, _, h1, h1o, h3, rfl, ?_⟩
        have := h4 hc
        subst this
        exact tv0 rfl
      · rename_i c hc
        split at h
        · cases h
        · rename_i kc tc bc hi
          cases h
          obtain ⟨idc', fc, g1, _, _, _, g4⟩ := intended_good hw ds base hb hown fuel c (kc, tc, bc) hi
          obtain ⟨idc, e1, e2⟩ := h5 c hc
          rw [g1] at e2
          cases e2
          subst e1
          exact ⟨id, _, h1, h1o, h3, rfl, tv1 idc' tc bc rfl g4⟩


/-! ### the file's own table and the engine-wide table agree on the file's names -/

theorem lookup_own_prefix {env' : Env} {own : List (Nat × Nat)} {rest : List ((Nat × Nat) × Nat)}
    (h : env'.names = own.map (fun x => ((gorules, x.1), x.2)) ++ rest) {n id : Nat}
    (ho : ownLookup own n = some id) : env'.lookup (gorules, n) = some id := by
  unfold ownLookup at ho
  split at ho
  · rename_i x hx
    cases ho
    unfold Env.lookup
    rw [h, List.find?_append, List.find?_map]
    have : ((fun x : (Nat × Nat) × Nat => x.1 == (gorules, n)) ∘ fun x : Nat × Nat => ((gorules, x.1), x.2)) =
        fun x => x.1 == n := by
      funext y; simp only [Function.comp]; rw [Bool.eq_iff_iff]; simp
    rw [this, hx]; rfl
  · cases ho

theorem customFuncs_lookup_some : ∀ (ds : List FuncDecl) (base : Nat) (d : FuncDecl), d ∈ ds →
    ∃ id, ownLookup (customFuncs base ds) d.name = some id
  | [], _, _, h => by cases h
  | d0 :: ds, base, d, h => by
    simp only [customFuncs]
    rw [ownLookup_append]
    cases hl : ownLookup (customFuncs (base + 1) ds) d.name with
    | some id => exact ⟨id, rfl⟩
    | none =>
      rcases List.mem_cons.1 h with rfl | h
      · exact ⟨base, by simp [ownLookup]⟩
      · obtain ⟨id, hid⟩ := customFuncs_lookup_some ds (base + 1) d h
        rw [hl] at hid; cases hid

theorem ownAgrees_of_compile {env e1 : Env} {u : FileUnit}
    (hc : compileFuncs (env.forget (u.funcs.map fun d => (gorules, d.name))) u.funcs = (e1, .ok ())) :
    OwnAgrees e1 (ownOf true env u) u.funcs := by
  intro d hd id hl
  have hn := compileFuncs_names _ _ _ hc
  simp only [Env.forget] at hn
  obtain ⟨id', hid'⟩ := customFuncs_lookup_some u.funcs env.funcs.length d hd
  have := lookup_own_prefix hn hid'
  rw [hl] at this
  cases this
  simpa [ownOf] using hid'

/-! ### rules -/

/-- what a loaded rule does when it is tried on a node it matches: accept?, message -/
def behOf (funcs : List Func) (vals : List Val) (x : Rule) : Option SRule :=
  match filterAccepts funcs vals x.filtFn, message funcs vals x with
  | .ok a, .ok m => some ⟨x.group, x.line, x.bucket, x.key, x.wild, a, m⟩
  | _, _ => none

abbrev tbl (env : Env) : List Val := table env.funcs.length env.funcs

/-- the repaired loader resolves a rule's function name in the file's own table, whatever `PkgPath` says -/
theorem getFuncOpt_good (env : Env) {own : List (Nat × Nat)} (pkg : Nat) {n id : Nat} (h : ownLookup own n = some id) :
    getFuncOpt true env own pkg (some n) = .ok (some id) := by
  simp [getFuncOpt, ownFunc, h]

theorem loadRule_beh {env : Env} {own : List (Nat × Nat)} {pkg : Nat} (ds : List FuncDecl)
    (hgood : ∀ fuel n v, intended ds fuel n = some v → Good env own n v)
    {g : Nat × Nat} {r : RuleDecl} {x : Rule} {s : SRule}
    (hl : loadRule true env own pkg g r = .ok x) (hi : intendedRule ds g r = some s) :
    behOf env.funcs (tbl env) x = some s := by
  -- what the file says
  unfold intendedRule at hi
  split at hi <;> try cases hi
  rename_i a m ha hm
  -- the filter function
  have hf : ∃ fid, getFuncOpt true env own pkg r.filtFn = .ok fid ∧ filterAccepts env.funcs (tbl env) fid = .ok a := by
    cases hfn : r.filtFn with
    | none =>
      rw [hfn] at ha
      simp [intendedAccepts] at ha
      subst ha
      exact ⟨none, rfl, rfl⟩
    | some n =>
      rw [hfn] at ha
      simp only [intendedAccepts] at ha
      split at ha
      · rename_i t b hin
        cases ha
        obtain ⟨id, f, _, h1, h2, h3, h4⟩ := hgood _ _ _ hin
        refine ⟨some id, getFuncOpt_good env pkg h1, ?_⟩
        simp only [] at h3
        simp only [filterAccepts, h2, h4, h3]
      · rename_i t b hin
        cases ha
        obtain ⟨id, f, _, h1, h2, h3, h4⟩ := hgood _ _ _ hin
        refine ⟨some id, getFuncOpt_good env pkg h1, ?_⟩
        simp only [] at h3
        simp only [filterAccepts, h2, h4, h3]
      · cases ha
  -- the Do function
  have hd : ∃ did, getFuncOpt true env own pkg r.doFn = .ok did ∧
      ∀ y : Rule, y.bucket = r.bucket → y.msg = r.msg → y.doFn = did → message env.funcs (tbl env) y = .ok m := by
    unfold intendedMsg at hm
    split at hm
    · rename_i hb
      cases hm
      cases hdo : r.doFn with
      | none => exact ⟨none, rfl, fun y hy1 hy2 _ => by simp [message, hy1, hy2, hb]⟩
      | some n =>
        -- a comment rule never looks at its Do function, but the loader still resolves the name
        cases hg : getFuncOpt true env own pkg (some n) with
        | ok did => exact ⟨did, rfl, fun y hy1 hy2 _ => by simp [message, hy1, hy2, hb]⟩
        | err e => rw [loadRule, hdo, hg] at hl; cases hl
        | panic p => rw [loadRule, hdo, hg] at hl; cases hl
    · rename_i hb
      split at hm
      · rename_i hdo
        cases hm
        exact ⟨none, by rw [hdo]; rfl, fun y hy1 hy2 hy3 => by simp [message, hy1, hy2, hy3, hb]⟩
      · rename_i n hdo
        split at hm
        · rename_i t b hin
          cases hm
          obtain ⟨id, f, _, h1, h2, h3, h4⟩ := hgood _ _ _ hin
          refine ⟨some id, by rw [hdo]; exact getFuncOpt_good env pkg h1, ?_⟩
          intro y hy1 _ hy3
          simp only [] at h3
          simp [message, hy1, hy3, hb, h2, h4, h3]
        · cases hm
  obtain ⟨fid, hf1, hf2⟩ := hf
  obtain ⟨did, hd1, hd2⟩ := hd
  unfold loadRule at hl
  rw [hd1, hf1] at hl
  simp only at hl
  split at hl
  · cases hl
  · cases hl
    have hmsg := hd2 ⟨g, r.line, r.bucket, r.key, r.wild, r.msg, did, fid⟩ rfl rfl rfl
    simp only [behOf, hf2, hmsg]

theorem loadRules_beh {env : Env} {own : List (Nat × Nat)} {pkg : Nat} (ds : List FuncDecl)
    (hgood : ∀ fuel n v, intended ds fuel n = some v → Good env own n v) {g : Nat × Nat} :
    ∀ {rs : List RuleDecl} {xs : List Rule}, loadRules true env own pkg g rs = .ok xs →
      (∀ r ∈ rs, (intendedRule ds g r).isSome) →
      xs.map (behOf env.funcs (tbl env)) = rs.map (intendedRule ds g)
  | [], xs, h, _ => by simp [loadRules] at h; subst h; rfl
  | r :: rs, xs, h, hc => by
    unfold loadRules at h
    split at h <;> try cases h
    rename_i x hx
    split at h
    · rename_i ys hys
      cases h
      obtain ⟨s, hs⟩ := Option.isSome_iff_exists.1 (hc r (List.mem_cons_self ..))
      have := loadRules_beh ds hgood hys (fun q hq => hc q (List.mem_cons_of_mem _ hq))
      simp [loadRule_beh ds hgood hx hs, hs, this]
    · rename_i o hne
      cases o <;> simp_all


/-! ### groups, units -/

theorem loadGroups_beh {env : Env} {own : List (Nat × Nat)} {pkg : Nat} (ds : List FuncDecl)
    (hgood : ∀ fuel n v, intended ds fuel n = some v → Good env own n v) {pfx file : Nat} {rejected : List (Nat × Nat)} :
    ∀ {gs : List GroupDecl} {res res' : RuleSet},
      loadGroups true env own pkg pfx file rejected res gs = .ok res' →
      (∀ g ∈ acceptedDecls pfx rejected gs, ∀ r ∈ g.rules, (intendedRule ds (pfx, g.name) r).isSome) →
      res'.rules.map (behOf env.funcs (tbl env)) = res.rules.map (behOf env.funcs (tbl env)) ++
        (acceptedDecls pfx rejected gs).flatMap (fun g => g.rules.map (intendedRule ds (pfx, g.name)))
  | [], res, res', h, _ => by simp [loadGroups] at h; subst h; simp [acceptedDecls]
  | g :: gs, res, res', h, hc => by
    unfold loadGroups at h
    split at h
    · rename_i r1 h1
      unfold loadGroup at h1
      simp only at h1
      split at h1
      · rename_i hrej
        cases h1
        have hrej' : rejected.contains (pfx, g.name) = true := by simpa using hrej
        rw [acceptedDecls_cons_rej hrej'] at hc ⊢
        exact loadGroups_beh ds hgood h hc
      · rename_i hrej
        have hrej' : rejected.contains (pfx, g.name) = false := by simpa using hrej
        rw [acceptedDecls_cons_acc hrej'] at hc ⊢
        split at h1
        · simp at h1
        · split at h1 <;> try cases h1
          rename_i rs hrs
          have ih := loadGroups_beh ds hgood h (fun g' hg' => hc g' (List.mem_cons_of_mem _ hg'))
          have hr := loadRules_beh ds hgood hrs (hc g (List.mem_cons_self ..))
          rw [ih]
          simp [hr]
    · rename_i o hne
      cases o <;> simp_all

def UnitClosed (pfx : Nat) (rejected : List (Nat × Nat)) (u : FileUnit) : Prop :=
  ∀ g ∈ acceptedDecls pfx rejected u.groups, ∀ r ∈ g.rules, (intendedRule u.funcs (pfx, g.name) r).isSome

theorem rules_acceptedOfUnit (pfx : Nat) (rejected : List (Nat × Nat)) (u : FileUnit) :
    (acceptedOfUnit pfx rejected u).flatMap SGroup.rules =
      (acceptedDecls pfx rejected u.groups).flatMap (fun g => g.rules.map (intendedRule u.funcs (pfx, g.name))) := by
  simp [acceptedOfUnit, acceptedDecls, SGroup.rules, List.flatMap_map]

theorem loadUnit_beh {env : Env} (hw : EnvWF env) {pkg pfx : Nat} {rejected : List (Nat × Nat)} {u : FileUnit}
    {env1 : Env} {rs : RuleSet} (h : loadUnit true env pkg pfx rejected u = (env1, .ok rs))
    (hnd : (u.funcs.map (·.name)).Nodup) (hcl : UnitClosed pfx rejected u) :
    rs.rules.map (behOf env1.funcs (tbl env1)) = (acceptedOfUnit pfx rejected u).flatMap SGroup.rules := by
  have hw1 : EnvWF env1 := by
    have := (loadUnit_ext true env pkg pfx rejected u).2 hw
    rw [h] at this; exact this
  unfold loadUnit at h
  split at h
  · rename_i e1 hc
    simp only [Prod.mk.injEq] at h
    obtain ⟨rfl, hg⟩ := h
    -- the compile step
    unfold compileFilterFuncs at hc
    split at hc
    · simp at hc
    · simp only [if_true] at hc
      have hw0 : EnvWF (env.forget (u.funcs.map fun d => (gorules, d.name))) := (Ext_forget env _).2 hw
      have hnone : ∀ d ∈ u.funcs, (env.forget (u.funcs.map fun d => (gorules, d.name))).lookup (gorules, d.name) = none :=
        fun d hd => lookup_forget_mem env _ _ (List.mem_map_of_mem (f := fun d => (gorules, d.name)) hd)
      obtain ⟨_, hb⟩ := compileFuncs_bound u.funcs _ e1 hnd hnone hc
      have hown : OwnAgrees e1 (ownOf true env u) u.funcs := ownAgrees_of_compile hc
      have hgood := intended_good hw1 u.funcs _ hb hown
      have := loadGroups_beh u.funcs hgood hg hcl
      rw [rules_acceptedOfUnit]
      simpa using this
  · simp at h
  · simp at h

/-! ### growth of the table does not change what loaded rules do -/

theorem behOf_ext {env env' : Env} (hw : EnvWF env) (hx : Ext env env') {rules : List Rule}
    (hb : RuleIdsBelow env.funcs.length rules) :
    rules.map (behOf env'.funcs (tbl env')) = rules.map (behOf env.funcs (tbl env)) := by
  have ha : AgreeBelow env.funcs.length env.funcs env'.funcs (tbl env) (tbl env') :=
    fun id hid => table_ext hw hx.1 hid
  apply List.map_congr_left
  intro x hx'
  obtain ⟨h1, h2⟩ := hb x hx'
  simp only [behOf, filterAccepts_congr ha h2, message_congr ha h1]


/-! ### bundles, files -/

def UnitOK (pfx : Nat) (rejected : List (Nat × Nat)) (u : FileUnit) : Prop :=
  (u.funcs.map (·.name)).Nodup ∧ UnitClosed pfx rejected u

theorem loadBundleFiles_beh {pfx : Nat} {rejected : List (Nat × Nat)} : ∀ {us : List FileUnit} {env env' : Env}
    {rss : List RuleSet}, EnvWF env → loadBundleFiles true env pfx rejected us = (env', .ok rss) →
    (∀ u ∈ us, UnitOK pfx rejected u) →
    (rss.flatMap (·.rules)).map (behOf env'.funcs (tbl env')) =
      (us.flatMap (acceptedOfUnit pfx rejected)).flatMap SGroup.rules
  | [], env, env', rss, _, h, _ => by simp [loadBundleFiles] at h; obtain ⟨_, rfl⟩ := h; simp
  | u :: us, env, env', rss, hw, h, hok => by
    unfold loadBundleFiles at h
    split at h
    · simp at h
    · split at h
      · rename_i e1 rs h1
        have hw1 : EnvWF e1 := by
          have := (loadUnit_ext true env gorules pfx rejected u).2 hw; rw [h1] at this; exact this
        have hx := loadBundleFiles_ext true pfx rejected us e1
        split at h
        · rename_i e2 rss' h2
          simp only [Prod.mk.injEq, Out.ok.injEq] at h
          obtain ⟨rfl, rfl⟩ := h
          rw [h2] at hx
          have hu := loadUnit_beh hw h1 (hok u (List.mem_cons_self ..)).1 (hok u (List.mem_cons_self ..)).2
          have hrest := loadBundleFiles_beh hw1 h2 (fun v hv => hok v (List.mem_cons_of_mem _ hv))
          have hstable := behOf_ext hw1 hx (loadUnit_ids h1)
          simp only [List.flatMap_cons, List.map_append, List.flatMap_append]
          rw [hstable, hu, hrest]
        · rename_i o hne
          rcases o with ⟨e3, o3⟩
          cases o3 <;> simp_all
      · simp at h
      · simp at h

theorem loadBundles_beh {rejected : List (Nat × Nat)} : ∀ {bs : List BundleDecl} {env env' : Env}
    {imported : List RuleSet}, EnvWF env → loadBundles true env rejected bs = (env', .ok imported) →
    (∀ b ∈ bs, ∀ u ∈ b.files, UnitOK b.pfx rejected u) →
    (imported.flatMap (·.rules)).map (behOf env'.funcs (tbl env')) =
      (bs.flatMap fun b => b.files.flatMap (acceptedOfUnit b.pfx rejected)).flatMap SGroup.rules
  | [], env, env', imported, _, h, _ => by simp [loadBundles] at h; obtain ⟨_, rfl⟩ := h; simp
  | b :: bs, env, env', imported, hw, h, hok => by
    unfold loadBundles at h
    split at h
    · simp at h
    · split at h
      · rename_i e1 rss h1
        have hw1 : EnvWF e1 := by
          have := (loadBundleFiles_ext true b.pfx rejected b.files env).2 hw; rw [h1] at this; exact this
        have hx := loadBundles_ext true rejected bs e1
        split at h
        · rename_i e2 more h2
          simp only [Prod.mk.injEq, Out.ok.injEq] at h
          obtain ⟨rfl, rfl⟩ := h
          rw [h2] at hx
          have hb := loadBundleFiles_beh hw h1 (hok b (List.mem_cons_self ..))
          have hrest := loadBundles_beh hw1 h2 (fun c hc => hok c (List.mem_cons_of_mem _ hc))
          have hstable := behOf_ext hw1 hx (loadBundleFiles_ids h1)
          simp only [List.flatMap_cons, List.map_append, List.flatMap_append]
          rw [hstable, hb, hrest]
        · rename_i o hne
          rcases o with ⟨e3, o3⟩
          cases o3 <;> simp_all
      · rename_i o hne
        rcases o with ⟨e3, o3⟩
        cases o3 <;> simp_all

/-- what a request must satisfy for its rules to have a meaning: no function declared twice in a file, every
function a loaded rule uses — directly or through calls — declared in the rule's own file (with the right
kind).  (`PkgPath` is free: the repaired loader no longer looks rule functions up under it.) -/
def ReqOK (r : Req) : Prop :=
  UnitOK 0 r.rejected r.unit ∧ ∀ b ∈ r.bundles, ∀ u ∈ b.files, UnitOK b.pfx r.rejected u

theorem loadFile_beh {env env' : Env} {r : Req} {rset : RuleSet} (hw : EnvWF env) (hok : ReqOK r)
    (h : loadFile true env r = (env', .ok rset)) :
    rset.rules.map (behOf env'.funcs (tbl env')) = (accepted r).flatMap SGroup.rules := by
  obtain ⟨hunit, hbund⟩ := hok
  unfold loadFile at h
  split at h
  · simp at h
  · simp at h
  · rename_i env1 imported hb
    have hw1 : EnvWF env1 := by
      have := (loadBundles_ext true r.rejected r.bundles env).2 hw; rw [hb] at this; exact this
    have hbb := loadBundles_beh hw hb hbund
    have hx := loadUnit_ext true env1 r.pkgPath 0 r.rejected r.unit
    split at h
    · rename_i env2 res hu
      rw [hu] at hx
      have huu := loadUnit_beh hw1 hu hunit.1 hunit.2
      have hstable := behOf_ext hw1 hx (loadBundles_ids hb)
      split at h
      · rename_i hemp
        simp only [Prod.mk.injEq, Out.ok.injEq] at h
        obtain ⟨rfl, rfl⟩ := h
        have : imported = [] := by simpa using hemp
        subst this
        simp only [List.flatMap_nil, List.map_nil] at hbb
        simp only [accepted, List.flatMap_append, huu, ← hbb, List.append_nil]
      · simp only [Prod.mk.injEq] at h
        obtain ⟨rfl, hm⟩ := h
        obtain ⟨_, mr⟩ := merge_ok hm
        rw [mr]
        simp only [List.flatMap_cons, List.map_append, accepted, List.flatMap_append]
        rw [huu, hstable, hbb]
    · rename_i o hne
      rcases o with ⟨e3, o3⟩
      cases o3 <;> simp_all

/-! ### the engine -/

/-- every rule in the engine does what its own file says -/
def Behaves (e : Engine) (u : List SGroup) : Prop :=
  match e.ruleSet with
  | none => u = []
  | some rs => rs.rules.map (behOf e.env.funcs (tbl e.env)) = u.flatMap SGroup.rules

theorem load_step_behaves {e : Engine} {r : Req} {u : List SGroup} (hw : EngineWF e) (hok : ReqOK r)
    (hb : Behaves e u) :
    Behaves (load true e r).1 (u ++ if okOut (load true e r).2 then accepted r else []) := by
  have hx := load_ext true e r
  rcases load_cases true e r with ⟨env', x, hl, hxo⟩ | ⟨env', rset, hf, hn, hl⟩ | ⟨env', rset, cur, hf, hc, _, hl⟩
  · rw [hl] at hx ⊢
    simp only [hxo, Bool.false_eq_true, if_false, List.append_nil]
    unfold Behaves at hb ⊢
    cases hrs : e.ruleSet with
    | none => rw [hrs] at hb; exact hb
    | some rs =>
      rw [hrs] at hb
      simp only
      rw [← hb]
      exact behOf_ext hw.1 hx (hw.2 rs hrs)
  · rw [hl]
    simp only [okOut, if_true]
    unfold Behaves at hb ⊢
    rw [hn] at hb
    subst hb
    simp only [List.nil_append]
    exact loadFile_beh hw.1 hok hf
  · rw [hl] at hx ⊢
    simp only [okOut, if_true]
    unfold Behaves at hb ⊢
    rw [hc] at hb
    simp only [List.map_append, List.flatMap_append]
    rw [loadFile_beh hw.1 hok hf, behOf_ext hw.1 hx (hw.2 cur hc), hb]

theorem behaves_final : ∀ {hist : List Req} {e : Engine} {u : List SGroup}, EngineWF e → (∀ r ∈ hist, ReqOK r) →
    Behaves e u → Behaves (finalEngine true e hist) (u ++ unionFrom true e hist)
  | [], e, u, _, _, hb => by simpa [finalEngine, unionFrom] using hb
  | r :: rs, e, u, hw, hok, hb => by
    have h1 := load_step_behaves (r := r) hw (hok r (List.mem_cons_self ..)) hb
    have := behaves_final (hist := rs) (load_wf (fixed := true) (r := r) hw)
      (fun q hq => hok q (List.mem_cons_of_mem _ hq)) h1
    simpa [finalEngine, unionFrom, List.append_assoc] using this

/-! ### a run of such an engine is the property's run -/

theorem runNode_spec (funcs : List Func) (vals : List Val) (node : Nat × Nat) :
    ∀ (rules : List Rule) (srules : List SRule), rules.map (behOf funcs vals) = srules.map some →
      runNode funcs vals node rules = .ok (specNode node srules)
  | [], [], _ => rfl
  | [], _ :: _, h => by simp at h
  | _ :: _, [], h => by simp at h
  | x :: xs, s :: ss, h => by
    simp only [List.map_cons, List.cons.injEq] at h
    obtain ⟨hx, hrest⟩ := h
    have ih := runNode_spec funcs vals node xs ss hrest
    unfold behOf at hx
    split at hx
    · rename_i a m ha hm
      cases hx
      unfold runNode specNode
      simp only
      by_cases hmatch : (x.bucket == node.1 && (x.wild || x.key == node.2)) = true
      · rw [if_pos hmatch, ha]
        cases a
        · simp [hmatch, ih]
        · simp [hmatch, hm]
      · rw [if_neg hmatch]
        have : (x.bucket == node.1 && (x.wild || x.key == node.2) && a) = false := by
          simp only [Bool.not_eq_true] at hmatch; simp [hmatch]
        simp [this, ih]
    · cases hx

theorem runNodes_spec (funcs : List Func) (vals : List Val) (rules : List Rule) (srules : List SRule)
    (h : rules.map (behOf funcs vals) = srules.map some) :
    ∀ (probe : List (Nat × Nat)), runNodes funcs vals rules probe = (specRun srules probe, none)
  | [] => rfl
  | n :: ns => by
    unfold runNodes
    rw [runNode_spec funcs vals n rules srules h, runNodes_spec funcs vals rules srules h ns]
    unfold specRun
    cases hs : specNode n srules <;> simp [hs]

end LoadM
