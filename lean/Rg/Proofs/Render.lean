import Rg.Spec.C03
import Rg.Proofs.Trunc
namespace Render
open SpecC03

/-! ### sorting by descending name length -/

theorem mem_insertByLen (c k : Cap) (l : List Cap) : k ∈ insertByLen c l ↔ k = c ∨ k ∈ l := by
  induction l with
  | nil => simp [insertByLen]
  | cons d ds ih =>
    unfold insertByLen
    split
    · simp
    · simp only [List.mem_cons, ih]
      constructor
      · rintro (h | h | h) <;> simp [h]
      · rintro (h | h | h) <;> simp [h]

theorem mem_sortByLen (k : Cap) (l : List Cap) : k ∈ sortByLen l ↔ k ∈ l := by
  induction l with
  | nil => simp [sortByLen]
  | cons c cs ih =>
    have : sortByLen (c :: cs) = insertByLen c (sortByLen cs) := rfl
    rw [this, mem_insertByLen, ih]; simp

/-- sortedness: every later element is not longer than any earlier one -/
def SortedDesc : List Cap → Prop
  | [] => True
  | c :: cs => (∀ k ∈ cs, k.name.length ≤ c.name.length) ∧ SortedDesc cs

theorem sorted_insertByLen (c : Cap) (l : List Cap) (h : SortedDesc l) : SortedDesc (insertByLen c l) := by
  induction l with
  | nil => simp [insertByLen, SortedDesc]
  | cons d ds ih =>
    unfold insertByLen
    split
    · rename_i hlt
      refine ⟨?_, h⟩
      intro k hk
      rcases List.mem_cons.mp hk with rfl | hk
      · omega
      · have := h.1 k hk; omega
    · rename_i hge
      refine ⟨?_, ih h.2⟩
      intro k hk
      rcases (mem_insertByLen c k ds).mp hk with rfl | hk
      · omega
      · exact h.1 k hk

theorem sorted_sortByLen (l : List Cap) : SortedDesc (sortByLen l) := by
  induction l with
  | nil => simp [sortByLen, SortedDesc]
  | cons c cs ih => exact sorted_insertByLen c _ ih

/-- first hit in a list sorted by descending length is a longest hit -/
theorem find_sorted_longest (p : Cap → Bool) :
    ∀ (l : List Cap), SortedDesc l → ∀ k, l.find? p = some k →
      k ∈ l ∧ p k = true ∧ ∀ k' ∈ l, p k' = true → k'.name.length ≤ k.name.length := by
  intro l
  induction l with
  | nil => intro _ k h; simp at h
  | cons c cs ih =>
    intro hs k h
    rw [List.find?_cons] at h
    split at h
    · rename_i hp
      injection h with h; subst h
      refine ⟨by simp, hp, ?_⟩
      intro k' hk' _
      rcases List.mem_cons.mp hk' with rfl | hk'
      · exact Nat.le_refl _
      · exact hs.1 k' hk'
    · rename_i hp
      obtain ⟨hm, hpk, hmax⟩ := ih hs.2 k h
      refine ⟨by simp [hm], hpk, ?_⟩
      intro k' hk' hpk'
      rcases List.mem_cons.mp hk' with rfl | hk'
      · simp [hpk'] at hp
      · exact hmax k' hk' hpk'

theorem find_none_iff (p : Cap → Bool) (l : List Cap) : l.find? p = none ↔ ∀ k ∈ l, p k = false := by
  simp [List.find?_eq_none]

/-! ### the reference choice -/

theorem pickLongest_aux (rest : Bytes) (l : List Cap) (best : Option Cap)
    (hb : ∀ b, best = some b → b.name.isPrefixOf rest = true) :
    let r := l.foldl (fun best k =>
      if k.name.isPrefixOf rest then
        match best with
        | none => some k
        | some b => if b.name.length < k.name.length then some k else some b
      else best) best
    (∀ k, r = some k → (k ∈ l ∨ best = some k) ∧ k.name.isPrefixOf rest = true ∧
        (∀ k' ∈ l, k'.name.isPrefixOf rest = true → k'.name.length ≤ k.name.length) ∧
        (∀ b, best = some b → b.name.length ≤ k.name.length)) ∧
    (r = none → best = none ∧ ∀ k ∈ l, k.name.isPrefixOf rest = false) := by
  induction l generalizing best with
  | nil =>
    simp only [List.foldl_nil]
    refine ⟨?_, ?_⟩
    · intro k hk
      refine ⟨Or.inr hk, hb k hk, by simp, ?_⟩
      intro b hbb; rw [hk] at hbb; injection hbb with e; subst e; exact Nat.le_refl _
    · intro h; exact ⟨h, by simp⟩
  | cons c cs ih =>
    simp only [List.foldl_cons]
    by_cases hp : c.name.isPrefixOf rest = true
    · simp only [hp, if_true]
      cases hbest : best with
      | none =>
        have := ih (some c) (by intro b hb'; injection hb' with e; subst e; exact hp)
        simp only at this
        refine ⟨?_, ?_⟩
        · intro k hk
          obtain ⟨h1, h2, h3, h4⟩ := this.1 k hk
          refine ⟨?_, h2, ?_, by simp⟩
          · rcases h1 with h1 | h1
            · exact Or.inl (by simp [h1])
            · injection h1 with e; subst e; exact Or.inl (by simp)
          · intro k' hk' hpk'
            rcases List.mem_cons.mp hk' with rfl | hk'
            · exact h4 _ rfl
            · exact h3 k' hk' hpk'
        · intro h; have := (this.2 h).1; simp at this
      | some b =>
        by_cases hlt : b.name.length < c.name.length
        · simp only [hlt, if_true]
          have := ih (some c) (by intro b' hb'; injection hb' with e; subst e; exact hp)
          simp only at this
          refine ⟨?_, ?_⟩
          · intro k hk
            obtain ⟨h1, h2, h3, h4⟩ := this.1 k hk
            refine ⟨?_, h2, ?_, ?_⟩
            · rcases h1 with h1 | h1
              · exact Or.inl (by simp [h1])
              · injection h1 with e; subst e; exact Or.inl (by simp)
            · intro k' hk' hpk'
              rcases List.mem_cons.mp hk' with rfl | hk'
              · exact h4 _ rfl
              · exact h3 k' hk' hpk'
            · intro b' hb'; injection hb' with e; subst e
              have := h4 c rfl; omega
          · intro h; have := (this.2 h).1; simp at this
        · simp only [hlt, if_false]
          have := ih (some b) (by intro b' hb'; injection hb' with e; subst e; exact hb b hbest)
          simp only at this
          refine ⟨?_, ?_⟩
          · intro k hk
            obtain ⟨h1, h2, h3, h4⟩ := this.1 k hk
            refine ⟨?_, h2, ?_, ?_⟩
            · rcases h1 with h1 | h1
              · exact Or.inl (by simp [h1])
              · exact Or.inr h1
            · intro k' hk' hpk'
              rcases List.mem_cons.mp hk' with rfl | hk'
              · have := h4 b rfl; omega
              · exact h3 k' hk' hpk'
            · intro b' hb'; injection hb' with e; subst e; exact h4 _ rfl
          · intro h; have := (this.2 h).1; simp at this
    · simp only [hp, Bool.false_eq_true, if_false]
      have hpf : c.name.isPrefixOf rest = false := by
        cases h : c.name.isPrefixOf rest <;> simp_all
      have := ih best hb
      simp only at this
      refine ⟨?_, ?_⟩
      · intro k hk
        obtain ⟨h1, h2, h3, h4⟩ := this.1 k hk
        refine ⟨?_, h2, ?_, h4⟩
        · rcases h1 with h1 | h1
          · exact Or.inl (by simp [h1])
          · exact Or.inr h1
        · intro k' hk' hpk'
          rcases List.mem_cons.mp hk' with rfl | hk'
          · rw [hpf] at hpk'; simp at hpk'
          · exact h3 k' hk' hpk'
      · intro h
        obtain ⟨h1, h2⟩ := this.2 h
        refine ⟨h1, ?_⟩
        intro k hk
        rcases List.mem_cons.mp hk with rfl | hk
        · exact hpf
        · exact h2 k hk

theorem pickLongest_some {live : List Cap} {rest : Bytes} {k : Cap} (h : pickLongest live rest = some k) :
    k ∈ live ∧ k.name.isPrefixOf rest = true ∧
      ∀ k' ∈ live, k'.name.isPrefixOf rest = true → k'.name.length ≤ k.name.length := by
  have := (pickLongest_aux rest live none (by simp)).1 k h
  obtain ⟨h1, h2, h3, _⟩ := this
  refine ⟨?_, h2, h3⟩
  rcases h1 with h1 | h1
  · exact h1
  · simp at h1

theorem pickLongest_none {live : List Cap} {rest : Bytes} (h : pickLongest live rest = none) :
    ∀ k ∈ live, k.name.isPrefixOf rest = false :=
  ((pickLongest_aux rest live none (by simp)).2 h).2

/-- two names of equal length that are both prefixes of the same text are equal -/
theorem prefix_same_len {a b rest : Bytes} (ha : a.isPrefixOf rest = true) (hb : b.isPrefixOf rest = true)
    (hl : a.length = b.length) : a = b := by
  have ha' := List.isPrefixOf_iff_prefix.mp ha
  have hb' := List.isPrefixOf_iff_prefix.mp hb
  have h1 := List.prefix_iff_eq_take.mp ha'
  have h2 := List.prefix_iff_eq_take.mp hb'
  rw [h1, h2, hl]

/-- **the choice lemma**: with pairwise distinct capture names, "first prefix hit after sorting by
descending length" is "the longest bound name that is a prefix". -/
theorem find_sorted_eq_pickLongest (live : List Cap) (rest : Bytes)
    (hnd : ∀ a ∈ live, ∀ b ∈ live, a.name = b.name → a = b) :
    (sortByLen live).find? (fun k => k.name.isPrefixOf rest) = pickLongest live rest := by
  cases hf : (sortByLen live).find? (fun k => k.name.isPrefixOf rest) with
  | none =>
    have hnone := (find_none_iff _ _).mp hf
    cases hp : pickLongest live rest with
    | none => rfl
    | some k =>
      obtain ⟨hm, hpk, _⟩ := pickLongest_some hp
      have := hnone k ((mem_sortByLen k live).mpr hm)
      simp [hpk] at this
  | some k =>
    obtain ⟨hm, hpk, hmax⟩ := find_sorted_longest _ _ (sorted_sortByLen live) k hf
    have hm' := (mem_sortByLen k live).mp hm
    cases hp : pickLongest live rest with
    | none =>
      have := pickLongest_none hp k hm'
      rw [this] at hpk; simp at hpk
    | some k2 =>
      obtain ⟨hm2, hpk2, hmax2⟩ := pickLongest_some hp
      have l1 := hmax k2 ((mem_sortByLen k2 live).mpr hm2) hpk2
      have l2 := hmax2 k hm' hpk
      have : k.name = k2.name := prefix_same_len hpk hpk2 (by omega)
      rw [hnd k hm' k2 hm2 this]

/-- with at most one live capture, no sorting happens and the choice is the same -/
theorem find_eq_pickLongest_small (live : List Cap) (rest : Bytes) (h : ¬ live.length > 1) :
    live.find? (fun k => k.name.isPrefixOf rest) = pickLongest live rest := by
  match live, h with
  | [], _ => rfl
  | [c], _ =>
    simp only [List.find?_cons, pickLongest, List.foldl_cons, List.foldl_nil, List.find?_nil]
    split <;> simp_all
  | _ :: _ :: _, h => simp at h

theorem loop_eq_specLoop (truncate : Bool) (limit : Int) (whole : Cap) (sorted live : List Cap)
    (hch : ∀ rest, sorted.find? (fun k => k.name.isPrefixOf rest) = pickLongest live rest) :
    ∀ fuel msg, loop truncate limit whole sorted fuel msg = specLoop truncate limit whole live fuel msg := by
  intro fuel
  induction fuel with
  | zero => intro msg; rfl
  | succ n ih =>
    intro msg
    cases msg with
    | nil => rfl
    | cons c rest =>
      simp only [loop, specLoop, hch, ih]
      split
      · rfl
      · split
        · rfl
        · cases pickLongest live rest <;> rfl

end Render
