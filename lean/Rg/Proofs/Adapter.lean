import Rg.Model.Adapter
/-!
# Invariant of the once-only engine protocol: unguarded readers never meet the writer
-/
namespace Adapter

/-- what the shared flags must be, seen from a thread at `pc` -/
def Loc (e p : Bool) : Pc → Prop
  | .sawNil => e = false
  | .creating => e = false
  | .writeE => e = false
  | .writeB => e = false
  | .writeP => e = true ∧ p = false
  | .unlockSome => e = true ∧ p = true
  | .usePool _ => e = true ∧ p = true
  | _ => True

structure AInv (st : St) : Prop where
  excl : ∀ i j, i < st.n → j < st.n → i ≠ j → (st.pc i).holdsG = true → (st.pc j).holdsG = false
  loc : ∀ i, i < st.n → Loc st.e st.p (st.pc i)
  ep : st.e = false → st.p = false
  win : st.e = true → st.p = false → ∃ i, i < st.n ∧ st.pc i = .writeP

theorem anyHoldsG_false {st : St} (h : anyHoldsG st = false) : ∀ j, j < st.n → (st.pc j).holdsG = false := by
  intro j hj
  simp only [anyHoldsG, List.any_eq_false, List.mem_range] at h
  simpa using h j hj

@[simp] theorem upd_n (st : St) (i : Nat) (pc' : Pc) (e b p : Bool) : (st.upd i pc' e b p).n = st.n := rfl
@[simp] theorem upd_e (st : St) (i : Nat) (pc' : Pc) (e b p : Bool) : (st.upd i pc' e b p).e = e := rfl
@[simp] theorem upd_p (st : St) (i : Nat) (pc' : Pc) (e b p : Bool) : (st.upd i pc' e b p).p = p := rfl
theorem upd_pc_self (st : St) (i : Nat) (pc' : Pc) (e b p : Bool) : (st.upd i pc' e b p).pc i = pc' := by
  simp [St.upd]
theorem upd_pc_ne (st : St) {i j : Nat} (pc' : Pc) (e b p : Bool) (h : j ≠ i) :
    (st.upd i pc' e b p).pc j = st.pc j := by
  simp [St.upd, h]

theorem AInv.upd {st : St} (hI : AInv st) {i : Nat} (hi : i < st.n) (pc' : Pc) (e' b' p' : Bool)
    (h1 : pc'.holdsG = true → (st.pc i).holdsG = true ∨ anyHoldsG st = false)
    (h2 : Loc e' p' pc')
    (h3 : ∀ j, j < st.n → j ≠ i → Loc e' p' (st.pc j))
    (h4 : e' = false → p' = false)
    (h5 : e' = true → p' = false → pc' = .writeP ∨ ∃ j, j < st.n ∧ j ≠ i ∧ st.pc j = .writeP) :
    AInv (st.upd i pc' e' b' p') := by
  refine ⟨?_, ?_, ?_, ?_⟩
  · intro a b ha hb hab hw
    simp only [upd_n] at ha hb
    by_cases hai : a = i
    · subst hai
      have hba : b ≠ a := fun h => hab h.symm
      rw [upd_pc_self] at hw
      rw [upd_pc_ne _ _ _ _ _ hba]
      rcases h1 hw with h | h
      · exact hI.excl a b ha hb hab h
      · exact anyHoldsG_false h b hb
    · rw [upd_pc_ne _ _ _ _ _ hai] at hw
      by_cases hbi : b = i
      · subst hbi
        rw [upd_pc_self]
        cases hh : pc'.holdsG with
        | false => rfl
        | true =>
          rcases h1 hh with h | h
          · have := hI.excl b a hb ha (fun h => hab h.symm) h
            rw [hw] at this; cases this
          · have := anyHoldsG_false h a ha
            rw [hw] at this; cases this
      · rw [upd_pc_ne _ _ _ _ _ hbi]; exact hI.excl a b ha hb hab hw
  · intro j hj
    simp only [upd_n] at hj
    simp only [upd_e, upd_p]
    by_cases hji : j = i
    · subst hji; rw [upd_pc_self]; exact h2
    · rw [upd_pc_ne _ _ _ _ _ hji]; exact h3 j hj hji
  · exact h4
  · intro he hp
    simp only [upd_e, upd_p] at he hp
    rcases h5 he hp with h | ⟨j, hj, hji, hpj⟩
    · exact ⟨i, hi, by rw [upd_pc_self]; exact h⟩
    · exact ⟨j, hj, by rw [upd_pc_ne _ _ _ _ _ hji]; exact hpj⟩

theorem init_AInv (n : Nat) : AInv (init n) :=
  ⟨fun i j _ _ _ hw => by simp [init, Pc.holdsG] at hw, fun i _ => trivial, fun _ => rfl,
   fun he => by simp [init] at he⟩

/-- flags unchanged: everybody else's local condition is untouched -/
theorem others_same {st : St} (hI : AInv st) {i : Nat} : ∀ j, j < st.n → j ≠ i → Loc st.e st.p (st.pc j) :=
  fun j hj _ => hI.loc j hj

theorem win_same {st : St} (hI : AInv st) {i : Nat} (hne : st.pc i ≠ .writeP) :
    st.e = true → st.p = false → (∃ j, j < st.n ∧ j ≠ i ∧ st.pc j = .writeP) := by
  intro he hp
  obtain ⟨j, hj, hpj⟩ := hI.win he hp
  exact ⟨j, hj, fun h => hne (h ▸ hpj), hpj⟩

theorem enabled_lt {st : St} {i : Nat} (he : enabled st i = true) : i < st.n := by
  simp only [enabled, Bool.and_eq_true, decide_eq_true_eq] at he; exact he.1

theorem AInv.fire {st : St} (hI : AInv st) {i : Nat} (he : enabled st i = true) (ok : Bool) (k : Nat) :
    AInv (fire ok k st i) := by
  have hi := enabled_lt he
  have hloc := hI.loc i hi
  unfold Adapter.fire
  -- while `i` holds the mutex nobody else does: their pc is start / usePool / done
  have othersFree : (st.pc i).holdsG = true → ∀ j, j < st.n → j ≠ i → (st.pc j).holdsG = false :=
    fun h j hj hji => hI.excl i j hi hj (fun e => hji e.symm) h
  cases hp : st.pc i with
  | start =>
    simp only
    refine hI.upd hi _ _ _ _ (fun _ => Or.inr ?_) trivial (others_same hI) hI.ep
      (fun h1 h2 => Or.inr (win_same hI (by rw [hp]; simp) h1 h2))
    simp only [enabled, hp, Bool.and_eq_true, Bool.not_eq_true'] at he
    exact he.2
  | locked =>
    simp only
    refine hI.upd hi _ _ _ _ (fun _ => Or.inl (by rw [hp]; rfl)) ?_ (others_same hI) hI.ep
      (fun h1 h2 => Or.inr (win_same hI (by rw [hp]; simp) h1 h2))
    cases hE : st.e with
    | false => simp [Loc]
    | true =>
      simp only [if_true, Loc, true_and]
      cases hP : st.p with
      | true => rfl
      | false =>
        exfalso
        obtain ⟨j, hj, hpj⟩ := hI.win hE hP
        have hji : j ≠ i := fun h => by rw [h, hp] at hpj; cases hpj
        have := othersFree (by rw [hp]; rfl) j hj hji
        rw [hpj] at this; cases this
  | sawNil =>
    simp only
    rw [hp] at hloc
    refine hI.upd hi _ _ _ _ (fun _ => Or.inl (by rw [hp]; rfl)) ?_ (others_same hI) hI.ep
      (fun h1 h2 => Or.inr (win_same hI (by rw [hp]; simp) h1 h2))
    cases st.b with
    | true => simp [Loc]
    | false => simpa [Loc] using hloc
  | creating =>
    simp only
    rw [hp] at hloc
    refine hI.upd hi _ _ _ _ (fun _ => Or.inl (by rw [hp]; rfl)) ?_ (others_same hI) hI.ep
      (fun h1 h2 => Or.inr (win_same hI (by rw [hp]; simp) h1 h2))
    cases ok <;> simpa [Loc] using hloc
  | writeE =>
    simp only
    rw [hp] at hloc
    have hE : st.e = false := hloc
    have hP : st.p = false := hI.ep hE
    refine hI.upd hi _ _ _ _ (fun _ => Or.inl (by rw [hp]; rfl)) ⟨rfl, hP⟩ ?_ (fun h => by cases h)
      (fun _ _ => Or.inl rfl)
    intro j hj hji
    have hfree := othersFree (by rw [hp]; rfl) j hj hji
    have hl := hI.loc j hj
    cases hpj : st.pc j with
    | usePool q => rw [hpj] at hl; simp only [Loc] at hl; rw [hE] at hl; cases hl.1
    | start => trivial
    | done => trivial
    | locked => trivial
    | unlockNone => trivial
    | sawNil => rw [hpj] at hfree; cases hfree
    | creating => rw [hpj] at hfree; cases hfree
    | writeE => rw [hpj] at hfree; cases hfree
    | writeP => rw [hpj] at hfree; cases hfree
    | writeB => rw [hpj] at hfree; cases hfree
    | unlockSome => rw [hpj] at hfree; cases hfree
  | writeP =>
    simp only
    rw [hp] at hloc
    obtain ⟨hE, hP⟩ := hloc
    refine hI.upd hi _ _ _ _ (fun _ => Or.inl (by rw [hp]; rfl)) ⟨hE, rfl⟩ ?_ (fun h => by rw [hE] at h; cases h)
      (fun _ h => by cases h)
    intro j hj hji
    have hfree := othersFree (by rw [hp]; rfl) j hj hji
    have hl := hI.loc j hj
    cases hpj : st.pc j with
    | usePool q => rw [hpj] at hl; exact ⟨hl.1, rfl⟩
    | start => trivial
    | done => trivial
    | locked => trivial
    | unlockNone => trivial
    | sawNil => rw [hpj] at hfree; cases hfree
    | creating => rw [hpj] at hfree; cases hfree
    | writeE => rw [hpj] at hfree; cases hfree
    | writeP => rw [hpj] at hfree; cases hfree
    | writeB => rw [hpj] at hfree; cases hfree
    | unlockSome => rw [hpj] at hfree; cases hfree
  | writeB =>
    simp only
    exact hI.upd hi _ _ _ _ (fun _ => Or.inl (by rw [hp]; rfl)) trivial (others_same hI) hI.ep
      (fun h1 h2 => Or.inr (win_same hI (by rw [hp]; simp) h1 h2))
  | unlockSome =>
    simp only
    rw [hp] at hloc
    exact hI.upd hi _ _ _ _ (fun h => by simp [Pc.holdsG] at h) hloc (others_same hI) hI.ep
      (fun h1 h2 => Or.inr (win_same hI (by rw [hp]; simp) h1 h2))
  | unlockNone =>
    simp only
    exact hI.upd hi _ _ _ _ (fun h => by simp [Pc.holdsG] at h) trivial (others_same hI) hI.ep
      (fun h1 h2 => Or.inr (win_same hI (by rw [hp]; simp) h1 h2))
  | usePool q =>
    rw [hp] at hloc
    cases q with
    | zero =>
      simp only
      exact hI.upd hi _ _ _ _ (fun h => by simp [Pc.holdsG] at h) trivial (others_same hI) hI.ep
        (fun h1 h2 => Or.inr (win_same hI (by rw [hp]; simp) h1 h2))
    | succ q' =>
      simp only
      exact hI.upd hi _ _ _ _ (fun h => by simp [Pc.holdsG] at h) hloc (others_same hI) hI.ep
        (fun h1 h2 => Or.inr (win_same hI (by rw [hp]; simp) h1 h2))
  | done => simp [enabled, hp] at he

theorem AInv.reach {s s' : St} (hI : AInv s) (hr : Reach s s') : AInv s' := by
  induction hr with
  | refl => exact hI
  | step ok k i _ he ih => exact ih.fire he ok k

end Adapter
