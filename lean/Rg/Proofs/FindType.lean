import Rg.Model.FindType
/-!
# Invariants of the cache-protocol model (both variants, every schedule)

`CInv` — about the cache: an entry carries the name it is filed under; it is either an initial entry or
the name resolves and somebody asked for it; initial entries never disappear.
`TInv` — about one thread: every completed call answered with the type of that name exactly when
the name resolves (or was cached initially), with an error otherwise; successful names are cached.
Both are preserved by every step of every thread, whatever the interleaving.
-/
namespace FT

/-! ## lookup / keys -/

theorem lookup_cons (k : Fqn) (v : Val) (c : List (Fqn × Val)) (k' : Fqn) :
    lookup ((k, v) :: c) k' = if k = k' then some v else lookup c k' := rfl

theorem lookup_isSome_cons {e : Fqn × Val} {c : List (Fqn × Val)} {k : Fqn}
    (h : (lookup c k).isSome = true) : (lookup (e :: c) k).isSome = true := by
  obtain ⟨k0, v0⟩ := e
  rw [lookup_cons]; split <;> simp [h]

theorem lookup_isSome_insertOpt {o : Option (Fqn × Val)} {c : List (Fqn × Val)} {k : Fqn}
    (h : (lookup c k).isSome = true) : (lookup (insertOpt c o) k).isSome = true := by
  cases o with
  | none => exact h
  | some e => exact lookup_isSome_cons h

theorem mem_keys (c : List (Fqn × Val)) (k : Fqn) : k ∈ keys c ↔ (lookup c k).isSome = true := by
  induction c with
  | nil => simp [keys, lookup]
  | cons e r ih =>
    obtain ⟨k0, v0⟩ := e
    simp only [keys, lookup_cons]
    by_cases hk : k0 = k
    · subst hk
      simp only [if_true, Option.isSome_some, iff_true]
      split
      · rename_i hc; simpa using hc
      · simp
    · simp only [hk, if_false]
      split
      · exact ih
      · rw [List.mem_cons]
        constructor
        · rintro (h | h)
          · exact (hk h.symm).elim
          · exact ih.1 h
        · intro h; exact Or.inr (ih.2 h)

/-! ## what a thread has asked for -/

def reqOf (t : FThread) : List Fqn := t.calls.map (·.fqn) ++ t.done.map (·.1.fqn)

def Req (st : FState) (k : Fqn) : Prop := ∃ i, i < st.n ∧ k ∈ reqOf (st.th i)

/-! ## invariants -/

structure CInv (keys0 : List Fqn) (res : Fqn → Bool) (st : FState) : Prop where
  name : ∀ k v, lookup st.cache k = some v → v.name = k
  why : ∀ k, (lookup st.cache k).isSome = true → k ∈ keys0 ∨ (res k = true ∧ Req st k)
  keep : ∀ k, k ∈ keys0 → (lookup st.cache k).isSome = true

/-- the answer a call must get -/
def OutOK (keys0 : List Fqn) (res : Fqn → Bool) (c : Call) : Out → Prop
  | .ok v => v.name = c.fqn ∧ (res c.fqn = true ∨ c.fqn ∈ keys0)
  | .err => res c.fqn = false ∧ c.fqn ∉ keys0

/-- condition on the program counter of a thread working on call `c` -/
def PcOK (keys0 : List Fqn) (res : Fqn → Bool) (cache : List (Fqn × Val)) (c : Call) : Pc → Prop
  | .idle => True
  | .rheld => True
  | .rread (some v) => v.name = c.fqn ∧ (res c.fqn = true ∨ c.fqn ∈ keys0) ∧ (lookup cache c.fqn).isSome = true
  | .rread none => c.fqn ∉ keys0
  | .announce => c.fqn ∉ keys0
  | .pending => c.fqn ∉ keys0
  | .wheld => c.fqn ∉ keys0
  | .resolve => c.fqn ∉ keys0
  | .wdone (.ok v) => v.name = c.fqn ∧ (res c.fqn = true ∨ c.fqn ∈ keys0) ∧ (lookup cache c.fqn).isSome = true
  | .wdone .err => res c.fqn = false ∧ c.fqn ∉ keys0

structure TInv (keys0 : List Fqn) (res : Fqn → Bool) (cache : List (Fqn × Val)) (t : FThread) : Prop where
  done : ∀ c o, (c, o) ∈ t.done → OutOK keys0 res c o ∧
    ((res c.fqn = true ∨ c.fqn ∈ keys0) → (lookup cache c.fqn).isSome = true)
  pc : ∀ c rest, t.calls = c :: rest → PcOK keys0 res cache c t.pc

theorem PcOK.mono {keys0 : List Fqn} {res : Fqn → Bool} {cache cache' : List (Fqn × Val)} {c : Call} {pc : Pc}
    (hm : ∀ k, (lookup cache k).isSome = true → (lookup cache' k).isSome = true)
    (h : PcOK keys0 res cache c pc) : PcOK keys0 res cache' c pc := by
  cases pc with
  | rread hit =>
    cases hit with
    | none => exact h
    | some v => exact ⟨h.1, h.2.1, hm _ h.2.2⟩
  | wdone o =>
    cases o with
    | err => exact h
    | ok v => exact ⟨h.1, h.2.1, hm _ h.2.2⟩
  | _ => exact h

theorem TInv.mono {keys0 : List Fqn} {res : Fqn → Bool} {cache cache' : List (Fqn × Val)} {t : FThread}
    (hm : ∀ k, (lookup cache k).isSome = true → (lookup cache' k).isSome = true)
    (h : TInv keys0 res cache t) : TInv keys0 res cache' t :=
  ⟨fun c o hc => ⟨(h.done c o hc).1, fun hr => hm _ ((h.done c o hc).2 hr)⟩,
   fun c rest hc => (h.pc c rest hc).mono hm⟩

/-- the set of names a thread has asked for does not change when it steps -/
theorem reqOf_tstep (rc : Bool) (res : Fqn → Bool) (cache : List (Fqn × Val)) (t : FThread) (k : Fqn) :
    k ∈ reqOf (tstep rc res cache t).1 ↔ k ∈ reqOf t := by
  obtain ⟨pc, calls, done⟩ := t
  cases calls with
  | nil => simp [tstep]
  | cons c rest =>
    have moved : ∀ o, k ∈ reqOf { pc := Pc.idle, calls := rest, done := (c, o) :: done } ↔
        k ∈ reqOf { pc := pc, calls := c :: rest, done := done } := by
      intro o
      simp only [reqOf, List.map_cons, List.mem_append, List.mem_cons, List.mem_map]
      constructor
      · rintro (h | h | h)
        · exact Or.inl (Or.inr h)
        · exact Or.inl (Or.inl h)
        · exact Or.inr h
      · rintro ((h | h) | h)
        · exact Or.inr (Or.inl h)
        · exact Or.inl h
        · exact Or.inr (Or.inr h)
    cases pc with
    | idle => exact Iff.rfl
    | rheld => exact Iff.rfl
    | rread hit =>
      cases hit with
      | none => exact Iff.rfl
      | some v => exact moved _
    | announce => exact Iff.rfl
    | pending => exact Iff.rfl
    | wheld =>
      simp only [tstep]
      cases rc with
      | false => exact Iff.rfl
      | true =>
        simp only [if_true]
        cases lookup cache c.fqn <;> exact Iff.rfl
    | resolve =>
      simp only [tstep]
      cases res c.fqn <;> exact Iff.rfl
    | wdone o => exact moved _

/-- what `tstep` may insert: the name it was asked for, in the asking thread's universe, and only
when the name resolves -/
theorem tstep_insert {rc : Bool} {res : Fqn → Bool} {cache : List (Fqn × Val)} {t : FThread} {e : Fqn × Val}
    (h : (tstep rc res cache t).2 = some e) :
    ∃ c rest, t.calls = c :: rest ∧ t.pc = .resolve ∧ res c.fqn = true ∧ e = (c.fqn, { name := c.fqn, univ := c.univ }) := by
  obtain ⟨pc, calls, done⟩ := t
  cases calls with
  | nil => simp [tstep] at h
  | cons c rest =>
    cases pc with
    | resolve =>
      simp only [tstep] at h
      cases hr : res c.fqn with
      | false => simp [hr] at h
      | true =>
        simp only [hr, if_true, Option.some.injEq] at h
        exact ⟨c, rest, rfl, rfl, hr, h.symm⟩
    | rread hit => cases hit <;> simp [tstep] at h
    | wheld =>
      simp only [tstep] at h
      cases rc with
      | false => simp at h
      | true =>
        simp only [if_true] at h
        cases hl : lookup cache c.fqn with
        | none => rw [hl] at h; simp at h
        | some v => rw [hl] at h; simp at h
    | idle => simp [tstep] at h
    | rheld => simp [tstep] at h
    | announce => simp [tstep] at h
    | pending => simp [tstep] at h
    | wdone o => simp [tstep] at h

/-- the stepping thread keeps its invariant (against the cache after its own insertion) -/
theorem tstep_TInv {keys0 : List Fqn} {rc : Bool} {res : Fqn → Bool} {cache : List (Fqn × Val)} {t : FThread}
    (hname : ∀ k v, lookup cache k = some v → v.name = k)
    (hwhy : ∀ k, (lookup cache k).isSome = true → k ∈ keys0 ∨ res k = true)
    (hkeep : ∀ k, k ∈ keys0 → (lookup cache k).isSome = true)
    (h : TInv keys0 res cache t) :
    TInv keys0 res (insertOpt cache (tstep rc res cache t).2) (tstep rc res cache t).1 := by
  obtain ⟨pc, calls, done⟩ := t
  cases calls with
  | nil =>
    have : tstep rc res cache { pc := pc, calls := [], done := done } = ({ pc := pc, calls := [], done := done }, none) := by
      simp [tstep]
    rw [this]; exact h
  | cons c rest =>
    have hpc := h.pc c rest rfl
    -- a thread that only changes its pc to `pc'` (no insertion)
    have stay : ∀ pc', PcOK keys0 res cache c pc' →
        TInv keys0 res cache { pc := pc', calls := c :: rest, done := done } := by
      intro pc' hp
      exact ⟨h.done, fun c' rest' hc' => by
        have h1 : c :: rest = c' :: rest' := hc'
        injection h1 with h1 _; subst h1; exact hp⟩
    -- a thread that completes the call with outcome `o`
    have fin : ∀ o, OutOK keys0 res c o →
        ((res c.fqn = true ∨ c.fqn ∈ keys0) → (lookup cache c.fqn).isSome = true) →
        TInv keys0 res cache { pc := Pc.idle, calls := rest, done := (c, o) :: done } := by
      intro o ho hcached
      refine ⟨?_, fun _ _ _ => trivial⟩
      intro c' o' hmem
      rcases List.mem_cons.1 hmem with heq | hmem
      · injection heq with h1 h2; subst h1; subst h2; exact ⟨ho, hcached⟩
      · exact h.done c' o' hmem
    have hitOK : ∀ v, lookup cache c.fqn = some v →
        v.name = c.fqn ∧ (res c.fqn = true ∨ c.fqn ∈ keys0) ∧ (lookup cache c.fqn).isSome = true := by
      intro v hl
      refine ⟨hname _ _ hl, ?_, by rw [hl]; rfl⟩
      rcases hwhy c.fqn (by rw [hl]; rfl) with h0 | h0
      · exact Or.inr h0
      · exact Or.inl h0
    cases pc with
    | idle => exact stay _ trivial
    | rheld =>
      simp only [tstep, insertOpt]
      refine stay _ ?_
      cases hl : lookup cache c.fqn with
      | none =>
        show c.fqn ∉ keys0
        intro hk; have := hkeep _ hk; rw [hl] at this; cases this
      | some v => exact hitOK v hl
    | rread hit =>
      cases hit with
      | none => exact stay _ hpc
      | some v => exact fin _ ⟨hpc.1, hpc.2.1⟩ (fun _ => hpc.2.2)
    | announce => exact stay _ hpc
    | pending => exact stay _ hpc
    | wheld =>
      simp only [tstep]
      cases rc with
      | false => exact stay _ hpc
      | true =>
        simp only [if_true]
        cases hl : lookup cache c.fqn with
        | none => exact stay _ hpc
        | some v => exact stay _ (hitOK v hl)
    | resolve =>
      simp only [tstep]
      cases hr : res c.fqn with
      | false =>
        simp only [Bool.false_eq_true, if_false]
        exact stay _ ⟨hr, hpc⟩
      | true =>
        simp only [if_true, insertOpt]
        have hin : (lookup ((c.fqn, ({ name := c.fqn, univ := c.univ } : Val)) :: cache) c.fqn).isSome = true := by
          rw [lookup_cons]; simp
        refine ⟨fun c' o' hmem => ⟨(h.done c' o' hmem).1, fun hr' => lookup_isSome_cons ((h.done c' o' hmem).2 hr')⟩, ?_⟩
        intro c' rest' hc'
        have h1 : c :: rest = c' :: rest' := hc'
        injection h1 with h1 _; subst h1
        exact ⟨rfl, Or.inl hr, hin⟩
    | wdone o =>
      cases o with
      | err => exact fin _ ⟨hpc.1, hpc.2⟩ (fun hr => by
          rcases hr with hr | hr
          · rw [hpc.1] at hr; cases hr
          · exact (hpc.2 hr).elim)
      | ok v => exact fin _ ⟨hpc.1, hpc.2.1⟩ (fun _ => hpc.2.2)

/-- the global invariant -/
structure FInv (keys0 : List Fqn) (res : Fqn → Bool) (st : FState) : Prop where
  c : CInv keys0 res st
  t : ∀ i, i < st.n → TInv keys0 res st.cache (st.th i)

theorem fire_n (rc : Bool) (res : Fqn → Bool) (st : FState) (i : Nat) : (fire rc res st i).n = st.n := rfl

theorem Req_fire {rc : Bool} {res : Fqn → Bool} {st : FState} {i : Nat} {k : Fqn} :
    Req (fire rc res st i) k ↔ Req st k := by
  constructor
  · rintro ⟨j, hj, hk⟩
    refine ⟨j, hj, ?_⟩
    simp only [fire] at hk
    by_cases hji : j = i
    · subst hji; simp only [if_true] at hk; exact (reqOf_tstep rc res st.cache _ k).1 hk
    · simp only [hji, if_false] at hk; exact hk
  · rintro ⟨j, hj, hk⟩
    refine ⟨j, hj, ?_⟩
    simp only [fire]
    by_cases hji : j = i
    · subst hji; simp only [if_true]; exact (reqOf_tstep rc res st.cache _ k).2 hk
    · simp only [hji, if_false]; exact hk

theorem FInv.fire {keys0 : List Fqn} {rc : Bool} {res : Fqn → Bool} {st : FState} (hI : FInv keys0 res st)
    {i : Nat} (hi : i < st.n) : FInv keys0 res (fire rc res st i) := by
  have hwhy' : ∀ k, (lookup st.cache k).isSome = true → k ∈ keys0 ∨ res k = true := by
    intro k hk
    rcases hI.c.why k hk with h | h
    · exact Or.inl h
    · exact Or.inr h.1
  refine ⟨⟨?_, ?_, ?_⟩, ?_⟩
  · -- names
    intro k v hl
    simp only [FT.fire] at hl
    cases hins : (tstep rc res st.cache (st.th i)).2 with
    | none => rw [hins] at hl; exact hI.c.name k v hl
    | some e =>
      rw [hins] at hl
      obtain ⟨c, rest, _, _, _, he⟩ := tstep_insert hins
      subst he
      simp only [insertOpt, lookup_cons] at hl
      by_cases hk : c.fqn = k
      · simp only [hk, if_true, Option.some.injEq] at hl; rw [← hl]
      · simp only [hk, if_false] at hl; exact hI.c.name k v hl
  · -- why
    intro k hk
    simp only [FT.fire] at hk
    cases hins : (tstep rc res st.cache (st.th i)).2 with
    | none =>
      rw [hins] at hk
      rcases hI.c.why k hk with h | h
      · exact Or.inl h
      · exact Or.inr ⟨h.1, Req_fire.2 h.2⟩
    | some e =>
      rw [hins] at hk
      obtain ⟨c, rest, hcalls, _, hres, he⟩ := tstep_insert hins
      subst he
      simp only [insertOpt, lookup_cons] at hk
      by_cases hkk : c.fqn = k
      · subst hkk
        refine Or.inr ⟨hres, Req_fire.2 ⟨i, hi, ?_⟩⟩
        simp [reqOf, hcalls]
      · simp only [hkk, if_false] at hk
        rcases hI.c.why k hk with h | h
        · exact Or.inl h
        · exact Or.inr ⟨h.1, Req_fire.2 h.2⟩
  · -- keep
    intro k hk
    exact lookup_isSome_insertOpt (hI.c.keep k hk)
  · -- threads
    intro j hj
    simp only [FT.fire]
    by_cases hji : j = i
    · subst hji
      simp only [if_true]
      exact tstep_TInv hI.c.name hwhy' hI.c.keep (hI.t j hj)
    · simp only [hji, if_false]
      exact (hI.t j hj).mono (fun k hk => lookup_isSome_insertOpt hk)

theorem enabled_lt {wp : Bool} {st : FState} {i : Nat} (he : enabled wp st i = true) : i < st.n := by
  simp only [enabled, Bool.and_eq_true, decide_eq_true_eq] at he; exact he.1

theorem FInv.reach {keys0 : List Fqn} {rc wp : Bool} {res : Fqn → Bool} {s s' : FState}
    (hI : FInv keys0 res s) (hr : Reach rc wp res s s') : FInv keys0 res s' := by
  induction hr with
  | refl => exact hI
  | step i _ he ih => exact ih.fire (enabled_lt he)

theorem init_FInv {res : Fqn → Bool} {cache : List (Fqn × Val)} (progs : List (List Call))
    (hwf : ∀ k v, lookup cache k = some v → v.name = k) : FInv (keys cache) res (init cache progs) := by
  refine ⟨⟨hwf, ?_, ?_⟩, ?_⟩
  · intro k hk; exact Or.inl ((mem_keys cache k).2 hk)
  · intro k hk; exact (mem_keys cache k).1 hk
  · intro i _
    exact ⟨fun c o h => by simp [init] at h, fun c rest _ => trivial⟩

/-! ## the calls of a thread are answered in order, none lost -/

theorem tstep_hist (rc : Bool) (res : Fqn → Bool) (cache : List (Fqn × Val)) (t : FThread) :
    (tstep rc res cache t).1.done.reverse.map (·.1) ++ (tstep rc res cache t).1.calls =
      t.done.reverse.map (·.1) ++ t.calls := by
  obtain ⟨pc, calls, done⟩ := t
  cases calls with
  | nil => simp [tstep]
  | cons c rest =>
    cases pc with
    | idle => rfl
    | rheld => rfl
    | rread hit =>
      cases hit with
      | none => rfl
      | some v => simp [tstep]
    | announce => rfl
    | pending => rfl
    | wheld =>
      simp only [tstep]
      cases rc with
      | false => rfl
      | true =>
        simp only [if_true]
        cases lookup cache c.fqn <;> rfl
    | resolve =>
      simp only [tstep]
      cases res c.fqn <;> rfl
    | wdone o => simp [tstep]

def HistOK (progs : List (List Call)) (st : FState) : Prop :=
  ∀ i, i < st.n → (st.th i).done.reverse.map (·.1) ++ (st.th i).calls = progs.getD i []

theorem HistOK.fire {progs : List (List Call)} {rc : Bool} {res : Fqn → Bool} {st : FState}
    (h : HistOK progs st) (i : Nat) : HistOK progs (fire rc res st i) := by
  intro j hj
  simp only [FT.fire]
  by_cases hji : j = i
  · subst hji; simp only [if_true]; rw [tstep_hist]; exact h j hj
  · simp only [hji, if_false]; exact h j hj

theorem HistOK.reach {progs : List (List Call)} {rc wp : Bool} {res : Fqn → Bool} {s s' : FState}
    (h : HistOK progs s) (hr : Reach rc wp res s s') : HistOK progs s' := by
  induction hr with
  | refl => exact h
  | step i _ _ ih => exact ih.fire i

theorem init_HistOK (cache : List (Fqn × Val)) (progs : List (List Call)) : HistOK progs (init cache progs) := by
  intro i _; simp [init]

/-! ## cached names stay cached -/

theorem cached_fire {rc : Bool} {res : Fqn → Bool} {st : FState} {i : Nat} {k : Fqn}
    (h : (lookup st.cache k).isSome = true) : (lookup (fire rc res st i).cache k).isSome = true :=
  lookup_isSome_insertOpt h

theorem cached_reach {rc wp : Bool} {res : Fqn → Bool} {s s' : FState} (hr : Reach rc wp res s s') {k : Fqn}
    (h : (lookup s.cache k).isSome = true) : (lookup s'.cache k).isSome = true := by
  induction hr with
  | refl => exact h
  | step i _ _ ih => exact cached_fire ih

theorem reach_trans {rc wp : Bool} {res : Fqn → Bool} {a b c : FState}
    (h1 : Reach rc wp res a b) (h2 : Reach rc wp res b c) : Reach rc wp res a c := by
  induction h2 with
  | refl => exact h1
  | step i _ he ih => exact Reach.step i ih he

/-! ## mutual exclusion and value stability of the repaired variant -/

theorem anyW_false {st : FState} (h : anyW st = false) : ∀ j, j < st.n → (st.th j).inW = false := by
  intro j hj
  simp only [anyW, List.any_eq_false, List.mem_range] at h
  simpa using h j hj

theorem anyR_false {st : FState} (h : anyR st = false) : ∀ j, j < st.n → (st.th j).inR = false := by
  intro j hj
  simp only [anyR, List.any_eq_false, List.mem_range] at h
  simpa using h j hj

theorem tstep_inW {rc : Bool} {res : Fqn → Bool} {cache : List (Fqn × Val)} {t : FThread}
    (h : (tstep rc res cache t).1.inW = true) : t.inW = true ∨ (t.pc = .pending ∧ t.calls ≠ []) := by
  obtain ⟨pc, calls, done⟩ := t
  cases calls with
  | nil => left; simpa [tstep] using h
  | cons c rest =>
    cases pc with
    | pending => right; exact ⟨rfl, by simp⟩
    | wheld => left; rfl
    | resolve => left; rfl
    | wdone o => left; rfl
    | idle => simp [tstep, FThread.inW] at h
    | rheld => simp [tstep, FThread.inW] at h
    | announce => simp [tstep, FThread.inW] at h
    | rread hit => cases hit <;> simp [tstep, FThread.inW] at h

theorem tstep_inR {rc : Bool} {res : Fqn → Bool} {cache : List (Fqn × Val)} {t : FThread}
    (h : (tstep rc res cache t).1.inR = true) : t.inR = true ∨ (t.pc = .idle ∧ t.calls ≠ []) := by
  obtain ⟨pc, calls, done⟩ := t
  cases calls with
  | nil => left; simpa [tstep] using h
  | cons c rest =>
    cases pc with
    | idle => right; exact ⟨rfl, by simp⟩
    | rheld => left; rfl
    | rread hit => left; rfl
    | pending => simp [tstep, FThread.inR] at h
    | announce => simp [tstep, FThread.inR] at h
    | wdone o => simp [tstep, FThread.inR] at h
    | wheld =>
      simp only [tstep] at h
      cases rc with
      | false => simp [FThread.inR] at h
      | true =>
        simp only [if_true] at h
        cases hl : lookup cache c.fqn with
        | none => rw [hl] at h; simp [FThread.inR] at h
        | some v => rw [hl] at h; simp [FThread.inR] at h
    | resolve =>
      simp only [tstep] at h
      cases hr : res c.fqn with
      | false => rw [hr] at h; simp [FThread.inR] at h
      | true => rw [hr] at h; simp [FThread.inR] at h

/-- a thread reaches `resolve` in the repaired variant only after seeing the name absent -/
theorem tstep_resolve {res : Fqn → Bool} {cache : List (Fqn × Val)} {t : FThread} {c : Call} {rest : List Call}
    (hc : (tstep true res cache t).1.calls = c :: rest) (hp : (tstep true res cache t).1.pc = .resolve) :
    (t.pc = .resolve ∧ t.calls = c :: rest) ∨ lookup cache c.fqn = none := by
  obtain ⟨pc, calls, done⟩ := t
  cases calls with
  | nil => simp [tstep] at hc
  | cons c' rest' =>
    cases pc with
    | resolve =>
      simp only [tstep] at hp
      cases hr : res c'.fqn with
      | false => rw [hr] at hp; simp at hp
      | true => rw [hr] at hp; simp at hp
    | wheld =>
      simp only [tstep, if_true] at hp hc
      cases hl : lookup cache c'.fqn with
      | none =>
        rw [hl] at hc
        simp only at hc
        injection hc with h1 _
        subst h1; exact Or.inr hl
      | some v => rw [hl] at hp; simp at hp
    | idle => simp [tstep] at hp
    | rheld => simp [tstep] at hp
    | announce => simp [tstep] at hp
    | pending => simp [tstep] at hp
    | wdone o => simp [tstep] at hp
    | rread hit => cases hit <;> simp [tstep] at hp

structure XInv (st : FState) : Prop where
  excl : ∀ i j, i < st.n → j < st.n → i ≠ j → (st.th i).inW = true →
    (st.th j).inW = false ∧ (st.th j).inR = false
  fresh : ∀ i, i < st.n → ∀ c rest, (st.th i).calls = c :: rest → (st.th i).pc = .resolve →
    lookup st.cache c.fqn = none

theorem enabled_pending {wp : Bool} {st : FState} {i : Nat} (he : enabled wp st i = true)
    (hp : (st.th i).pc = .pending) : anyW st = false ∧ anyR st = false := by
  simp only [enabled, Bool.and_eq_true, decide_eq_true_eq] at he
  cases hc : (st.th i).calls with
  | nil => simp [hc] at he
  | cons c rest => simpa [hc, hp] using he.2

theorem enabled_idle {wp : Bool} {st : FState} {i : Nat} (he : enabled wp st i = true)
    (hp : (st.th i).pc = .idle) : anyW st = false := by
  simp only [enabled, Bool.and_eq_true, decide_eq_true_eq] at he
  cases hc : (st.th i).calls with
  | nil => simp [hc] at he
  | cons c rest =>
    have := he.2
    simp only [hc, hp, Bool.and_eq_true, Bool.not_eq_true'] at this
    exact this.1

theorem XInv.fire {wp : Bool} {res : Fqn → Bool} {st : FState} (hX : XInv st) {i : Nat}
    (he : enabled wp st i = true) : XInv (fire true res st i) := by
  have hi := enabled_lt he
  -- facts about the stepping thread
  have newW : ((tstep true res st.cache (st.th i)).1).inW = true →
      ∀ j, j < st.n → j ≠ i → (st.th j).inW = false ∧ (st.th j).inR = false := by
    intro h j hj hji
    rcases tstep_inW h with h | ⟨hp, _⟩
    · exact hX.excl i j hi hj (fun e => hji e.symm) h
    · obtain ⟨hw, hr⟩ := enabled_pending he hp
      exact ⟨anyW_false hw j hj, anyR_false hr j hj⟩
  have newR : ((tstep true res st.cache (st.th i)).1).inR = true →
      ∀ j, j < st.n → j ≠ i → (st.th j).inW = false := by
    intro h j hj hji
    rcases tstep_inR h with h | ⟨hp, _⟩
    · cases hw : (st.th j).inW with
      | false => rfl
      | true =>
        have := (hX.excl j i hj hi hji hw).2
        rw [h] at this; cases this
    · exact anyW_false (enabled_idle he hp) j hj
  refine ⟨?_, ?_⟩
  · intro a b ha hb hab hw
    simp only [FT.fire] at hw ⊢
    by_cases hai : a = i
    · subst hai
      have hba : b ≠ a := fun e => hab e.symm
      simp only [if_true] at hw
      simp only [hba, if_false]
      exact newW hw b hb hba
    · simp only [hai, if_false] at hw
      by_cases hbi : b = i
      · subst hbi
        simp only [if_true]
        constructor
        · cases hnw : ((tstep true res st.cache (st.th b)).1).inW with
          | false => rfl
          | true =>
            have := (newW hnw a ha hai).1
            rw [hw] at this; cases this
        · cases hnr : ((tstep true res st.cache (st.th b)).1).inR with
          | false => rfl
          | true =>
            have := newR hnr a ha hai
            rw [hw] at this; cases this
      · simp only [hbi, if_false]
        exact hX.excl a b ha hb hab hw
  · intro j hj c rest hc hp
    simp only [FT.fire] at hc hp ⊢
    by_cases hji : j = i
    · subst hji
      simp only [if_true] at hc hp
      rcases tstep_resolve hc hp with ⟨hp0, hc0⟩ | hnone
      · -- it was at `resolve` already: then it has just left it (contradiction with hp)
        exfalso
        have hst : st.th j = { pc := .resolve, calls := c :: rest, done := (st.th j).done } := by
          cases hth : st.th j with
          | mk pc calls done =>
            rw [hth] at hp0 hc0; simp only at hp0 hc0; subst hp0; subst hc0; rfl
        rw [hst] at hp
        simp only [tstep] at hp
        cases hr : res c.fqn with
        | false => rw [hr] at hp; simp at hp
        | true => rw [hr] at hp; simp at hp
      · -- it has just re-checked: nothing inserted by this step
        have hins : (tstep true res st.cache (st.th j)).2 = none := by
          cases hins : (tstep true res st.cache (st.th j)).2 with
          | none => rfl
          | some e =>
            obtain ⟨c', rest', hc', hp', _, _⟩ := tstep_insert hins
            exfalso
            have hst : st.th j = { pc := .resolve, calls := c' :: rest', done := (st.th j).done } := by
              cases hth : st.th j with
              | mk pc calls done =>
                rw [hth] at hp' hc'; simp only at hp' hc'; subst hp'; subst hc'; rfl
            rw [hst] at hp
            simp only [tstep] at hp
            cases hr : res c'.fqn with
            | false => rw [hr] at hp; simp at hp
            | true => rw [hr] at hp; simp at hp
        rw [hins]; exact hnone
    · simp only [hji, if_false] at hc hp
      have hold := hX.fresh j hj c rest hc hp
      cases hins : (tstep true res st.cache (st.th i)).2 with
      | none => exact hold
      | some e =>
        -- the inserting thread `i` is in its write section, so is `j`: impossible
        obtain ⟨c', rest', hc', hp', _, _⟩ := tstep_insert hins
        exfalso
        have hiW : (st.th i).inW = true := by simp [FThread.inW, hp']
        have hjW : (st.th j).inW = true := by simp [FThread.inW, hp]
        have := (hX.excl i j hi hj (fun e => hji e.symm) hiW).1
        rw [hjW] at this; cases this

theorem XInv.reach {wp : Bool} {res : Fqn → Bool} {s s' : FState} (hX : XInv s)
    (hr : Reach true wp res s s') : XInv s' := by
  induction hr with
  | refl => exact hX
  | step i _ he ih => exact ih.fire he

theorem init_XInv (cache : List (Fqn × Val)) (progs : List (List Call)) : XInv (init cache progs) :=
  ⟨fun i j _ _ _ hw => by simp [init, FThread.inW] at hw,
   fun i _ c rest _ hp => by simp [init] at hp⟩

/-- repaired variant: a step never changes an existing entry -/
theorem value_fire {wp : Bool} {res : Fqn → Bool} {st : FState} (hX : XInv st) {i : Nat}
    (he : enabled wp st i = true) {k : Fqn} {v : Val} (h : lookup st.cache k = some v) :
    lookup (fire true res st i).cache k = some v := by
  simp only [FT.fire]
  cases hins : (tstep true res st.cache (st.th i)).2 with
  | none => exact h
  | some e =>
    obtain ⟨c, rest, hc, hp, _, he'⟩ := tstep_insert hins
    subst he'
    have hnone := hX.fresh i (enabled_lt he) c rest hc hp
    simp only [insertOpt, lookup_cons]
    by_cases hk : c.fqn = k
    · subst hk; rw [hnone] at h; cases h
    · simp only [hk, if_false]; exact h

theorem value_reach {wp : Bool} {res : Fqn → Bool} {s s' : FState} (hX : XInv s)
    (hr : Reach true wp res s s') {k : Fqn} {v : Val} (h : lookup s.cache k = some v) :
    lookup s'.cache k = some v := by
  induction hr with
  | refl => exact h
  | step i hr' he ih => exact value_fire (hX.reach hr') he ih

end FT
