import Rg.Model.Locks
/-!
# Lemmas about the static discipline and the scheduler (C08)

`Inv pol st` — every thread's remaining program checks against the locks it holds and ends with
nothing held; a write-holder excludes every other holder; a pending writer is at its `lock`.
It holds initially for disciplined programs and is preserved by every enabled step; race freedom
and deadlock freedom are read off it.
-/
namespace Locks

/-! ## held sets -/

theorem holds_cons (x : Mutex × Bool) (h : Held) (m : Mutex) :
    holds (x :: h) m = (x.1 == m || holds h m) := by
  simp [holds]

theorem holds_iff (h : Held) (m : Mutex) : holds h m = true ↔ ∃ b, (m, b) ∈ h := by
  simp only [holds, List.any_eq_true, beq_iff_eq]
  constructor
  · rintro ⟨⟨m', b⟩, hx, rfl⟩; exact ⟨b, hx⟩
  · rintro ⟨b, hx⟩; exact ⟨(m, b), hx, rfl⟩

theorem holdsW_iff (h : Held) (m : Mutex) : holdsW h m = true ↔ (m, true) ∈ h := by
  simp [holdsW]

theorem holdsW_holds {h : Held} {m : Mutex} (hw : holdsW h m = true) : holds h m = true :=
  (holds_iff h m).2 ⟨true, (holdsW_iff h m).1 hw⟩

theorem holds_erase {h : Held} {x : Mutex × Bool} {m : Mutex} (hh : holds (h.erase x) m = true) :
    holds h m = true := by
  obtain ⟨b, hb⟩ := (holds_iff _ _).1 hh
  exact (holds_iff _ _).2 ⟨b, List.mem_of_mem_erase hb⟩

theorem holdsW_erase {h : Held} {x : Mutex × Bool} {m : Mutex} (hh : holdsW (h.erase x) m = true) :
    holdsW h m = true :=
  (holdsW_iff _ _).2 (List.mem_of_mem_erase ((holdsW_iff _ _).1 hh))

theorem above_iff (h : Held) (m : Mutex) : above h m = true ↔ ∀ x ∈ h, x.1 < m := by
  simp [above]

theorem above_not_holds {h : Held} {m : Mutex} (ha : above h m = true) : holds h m = false := by
  cases hh : holds h m with
  | false => rfl
  | true =>
    obtain ⟨b, hb⟩ := (holds_iff _ _).1 hh
    have := (above_iff h m).1 ha _ hb
    simp at this

/-- a held mutex ranks below anything acquired next -/
theorem above_lt {h : Held} {m m' : Mutex} (ha : above h m = true) (hh : holds h m' = true) : m' < m := by
  obtain ⟨b, hb⟩ := (holds_iff _ _).1 hh
  exact (above_iff h m).1 ha _ hb

/-! ## pathFrom -/

theorem pathFrom_nil (pol : Var → Policy) (h : Held) : pathFrom pol h [] = some h := rfl

theorem pathFrom_cons (pol : Var → Policy) (h : Held) (s : Step) (ss : List Step) :
    pathFrom pol h (s :: ss) = (stepOK pol h s).bind (fun h' => pathFrom pol h' ss) := by
  simp only [pathFrom]; cases stepOK pol h s <;> rfl

theorem pathFrom_append (pol : Var → Policy) (h : Held) (xs ys : List Step) :
    pathFrom pol h (xs ++ ys) = (pathFrom pol h xs).bind (fun h' => pathFrom pol h' ys) := by
  induction xs generalizing h with
  | nil => rfl
  | cons s xs ih =>
    simp only [List.cons_append, pathFrom_cons]
    cases stepOK pol h s with
    | none => rfl
    | some h' => simpa using ih h'

/-- a thread that still holds something has something left to do -/
theorem rest_ne_nil_of_held {pol : Var → Policy} {h : Held} {ss : List Step}
    (hp : pathFrom pol h ss = some []) (hne : h ≠ []) : ss ≠ [] := by
  intro hs; subst hs; simp [pathFrom] at hp; exact hne hp

/-! ## the scheduler state -/

@[simp] theorem set_n (st : State) (i : Nat) (t : Thread) : (st.set i t).n = st.n := rfl
@[simp] theorem set_th_self (st : State) (i : Nat) (t : Thread) : (st.set i t).th i = t := by
  simp [State.set]
theorem set_th_ne (st : State) {i k : Nat} (t : Thread) (h : k ≠ i) : (st.set i t).th k = st.th k := by
  simp [State.set, h]

theorem anyHolds_false {st : State} {m : Mutex} (h : anyHolds st m = false) :
    ∀ j, j < st.n → holds (st.th j).held m = false := by
  intro j hj
  simp only [anyHolds, List.any_eq_false, List.mem_range] at h
  simpa using h j hj

theorem anyHolds_true {st : State} {m : Mutex} (h : anyHolds st m = true) :
    ∃ j, j < st.n ∧ holds (st.th j).held m = true := by
  simpa [anyHolds, List.any_eq_true, List.mem_range] using h

theorem anyHoldsW_false {st : State} {m : Mutex} (h : anyHoldsW st m = false) :
    ∀ j, j < st.n → holdsW (st.th j).held m = false := by
  intro j hj
  simp only [anyHoldsW, List.any_eq_false, List.mem_range] at h
  simpa using h j hj

theorem anyHoldsW_true {st : State} {m : Mutex} (h : anyHoldsW st m = true) :
    ∃ j, j < st.n ∧ holdsW (st.th j).held m = true := by
  simpa [anyHoldsW, List.any_eq_true, List.mem_range] using h

theorem anyPending_true {st : State} {m : Mutex} (h : anyPending st m = true) :
    ∃ j, j < st.n ∧ (st.th j).pend = some m := by
  simpa [anyPending, List.any_eq_true, List.mem_range] using h

/-! ## the invariant -/

structure Inv (pol : Var → Policy) (st : State) : Prop where
  path : ∀ i, i < st.n → pathFrom pol (st.th i).held (st.th i).rest = some []
  excl : ∀ i j, i < st.n → j < st.n → i ≠ j → ∀ m,
    holdsW (st.th i).held m = true → holds (st.th j).held m = false
  pend : ∀ i, i < st.n → ∀ m, (st.th i).pend = some m → ∃ r, (st.th i).rest = .lock m :: r

/-- replacing thread `i` by `t'` keeps the invariant if `t'` checks and excludes / is excluded -/
theorem Inv.set {pol : Var → Policy} {st : State} (hI : Inv pol st) {i : Nat} (t' : Thread)
    (hp : pathFrom pol t'.held t'.rest = some [])
    (h1 : ∀ j, j < st.n → j ≠ i → ∀ m, holdsW t'.held m = true → holds (st.th j).held m = false)
    (h2 : ∀ j, j < st.n → j ≠ i → ∀ m, holdsW (st.th j).held m = true → holds t'.held m = false)
    (h3 : ∀ m, t'.pend = some m → ∃ r, t'.rest = .lock m :: r) :
    Inv pol (st.set i t') := by
  refine ⟨?_, ?_, ?_⟩
  · intro k hk
    by_cases hki : k = i
    · subst hki; simpa using hp
    · rw [set_th_ne st t' hki]; exact hI.path k hk
  · intro a b ha hb hab m hw
    by_cases hai : a = i
    · subst hai
      have hbi : b ≠ a := fun h => hab h.symm
      rw [set_th_ne st t' hbi]
      rw [set_th_self] at hw
      exact h1 b hb hbi m hw
    · rw [set_th_ne st t' hai] at hw
      by_cases hbi : b = i
      · subst hbi; rw [set_th_self]; exact h2 a ha hai m hw
      · rw [set_th_ne st t' hbi]; exact hI.excl a b ha hb hab m hw
  · intro k hk m hm
    by_cases hki : k = i
    · subst hki; rw [set_th_self] at hm ⊢; exact h3 m hm
    · rw [set_th_ne st t' hki] at hm ⊢; exact hI.pend k hk m hm

theorem init_inv {pol : Var → Policy} {progs : List (List Step)}
    (h : ∀ p ∈ progs, pathOK pol p = true) : Inv pol (init progs) := by
  refine ⟨?_, ?_, ?_⟩
  · intro i hi
    have hi' : i < progs.length := hi
    have hmem : progs.getD i [] ∈ progs := by
      simp [List.getD, List.getElem?_eq_getElem hi']
    have := h _ hmem
    simpa [init, pathOK] using this
  · intro i j _ _ _ m hw; simp [init, holdsW] at hw
  · intro i _ m hm; simp [init] at hm

/-! equations of `fire` / `enabled` by the shape of the thread's program -/

theorem fire_rlock {st : State} {i : Nat} {m : Mutex} {r : List Step} (h : (st.th i).rest = .rlock m :: r) :
    fire st i = st.set i { held := (m, false) :: (st.th i).held, pend := none, rest := r } := by
  simp [fire, h]

theorem fire_lock_acq {st : State} {i : Nat} {m : Mutex} {r : List Step} (h : (st.th i).rest = .lock m :: r)
    (hp : (st.th i).pend = some m) :
    fire st i = st.set i { held := (m, true) :: (st.th i).held, pend := none, rest := r } := by
  simp [fire, h, hp]

theorem fire_lock_ann {st : State} {i : Nat} {m : Mutex} {r : List Step} (h : (st.th i).rest = .lock m :: r)
    (hp : (st.th i).pend ≠ some m) :
    fire st i = st.set i { held := (st.th i).held, pend := some m, rest := .lock m :: r } := by
  simp [fire, h, hp]

theorem fire_runlock {st : State} {i : Nat} {m : Mutex} {r : List Step} (h : (st.th i).rest = .runlock m :: r) :
    fire st i = st.set i { held := (st.th i).held.erase (m, false), pend := (st.th i).pend, rest := r } := by
  simp [fire, h]

theorem fire_unlock {st : State} {i : Nat} {m : Mutex} {r : List Step} (h : (st.th i).rest = .unlock m :: r) :
    fire st i = st.set i { held := (st.th i).held.erase (m, true), pend := (st.th i).pend, rest := r } := by
  simp [fire, h]

theorem fire_read {st : State} {i : Nat} {v : Var} {r : List Step} (h : (st.th i).rest = .read v :: r) :
    fire st i = st.set i { held := (st.th i).held, pend := (st.th i).pend, rest := r } := by
  simp [fire, h]

theorem fire_write {st : State} {i : Nat} {v : Var} {r : List Step} (h : (st.th i).rest = .write v :: r) :
    fire st i = st.set i { held := (st.th i).held, pend := (st.th i).pend, rest := r } := by
  simp [fire, h]

theorem fire_n (st : State) (i : Nat) : (fire st i).n = st.n := by
  cases hr : (st.th i).rest with
  | nil => simp [fire, hr]
  | cons s r =>
    cases s with
    | rlock m => rw [fire_rlock hr]; rfl
    | lock m =>
      by_cases hp : (st.th i).pend = some m
      · rw [fire_lock_acq hr hp]; rfl
      · rw [fire_lock_ann hr hp]; rfl
    | runlock m => rw [fire_runlock hr]; rfl
    | unlock m => rw [fire_unlock hr]; rfl
    | read v => rw [fire_read hr]; rfl
    | write v => rw [fire_write hr]; rfl

theorem enabled_lt {wp : Bool} {st : State} {i : Nat} (he : enabled wp st i = true) : i < st.n := by
  simp only [enabled, Bool.and_eq_true, decide_eq_true_eq] at he; exact he.1

theorem enabled_rlock {wp : Bool} {st : State} {i : Nat} {m : Mutex} {r : List Step}
    (h : (st.th i).rest = .rlock m :: r) :
    enabled wp st i = (decide (i < st.n) && (!anyHoldsW st m && !(wp && anyPending st m))) := by
  simp [enabled, h]

theorem enabled_lock {wp : Bool} {st : State} {i : Nat} {m : Mutex} {r : List Step}
    (h : (st.th i).rest = .lock m :: r) :
    enabled wp st i = (decide (i < st.n) && (if (st.th i).pend == some m then !anyHolds st m else true)) := by
  simp [enabled, h]

/-- a step of the remaining program that checks: the rest checks from the new held set -/
theorem path_step {pol : Var → Policy} {h : Held} {s : Step} {r : List Step}
    (hp : pathFrom pol h (s :: r) = some []) : ∃ h', stepOK pol h s = some h' ∧ pathFrom pol h' r = some [] := by
  rw [pathFrom_cons] at hp
  cases hs : stepOK pol h s with
  | none => rw [hs] at hp; cases hp
  | some h' => rw [hs] at hp; exact ⟨h', rfl, hp⟩

theorem stepOK_rlock {pol : Var → Policy} {h h' : Held} {m : Mutex} (hs : stepOK pol h (.rlock m) = some h') :
    above h m = true ∧ h' = (m, false) :: h := by
  simp only [stepOK] at hs
  by_cases ha : above h m = true
  · simp [ha] at hs; exact ⟨ha, hs.symm⟩
  · simp [ha] at hs

theorem stepOK_lock {pol : Var → Policy} {h h' : Held} {m : Mutex} (hs : stepOK pol h (.lock m) = some h') :
    above h m = true ∧ h' = (m, true) :: h := by
  simp only [stepOK] at hs
  by_cases ha : above h m = true
  · simp [ha] at hs; exact ⟨ha, hs.symm⟩
  · simp [ha] at hs

theorem stepOK_runlock {pol : Var → Policy} {h h' : Held} {m : Mutex} (hs : stepOK pol h (.runlock m) = some h') :
    h.contains (m, false) = true ∧ h' = h.erase (m, false) := by
  simp only [stepOK] at hs
  by_cases ha : h.contains (m, false) = true
  · rw [if_pos ha] at hs; exact ⟨ha, (Option.some.inj hs).symm⟩
  · rw [if_neg ha] at hs; cases hs

theorem stepOK_unlock {pol : Var → Policy} {h h' : Held} {m : Mutex} (hs : stepOK pol h (.unlock m) = some h') :
    h.contains (m, true) = true ∧ h' = h.erase (m, true) := by
  simp only [stepOK] at hs
  by_cases ha : h.contains (m, true) = true
  · rw [if_pos ha] at hs; exact ⟨ha, (Option.some.inj hs).symm⟩
  · rw [if_neg ha] at hs; cases hs

theorem stepOK_access {pol : Var → Policy} {h h' : Held} {s : Step} (ha : s.isAccess = true)
    (hs : stepOK pol h s = some h') : h' = h := by
  cases s with
  | read v =>
    simp only [stepOK] at hs
    split at hs
    · split at hs
      · simpa using hs.symm
      · cases hs
    · simpa using hs.symm
  | write v =>
    simp only [stepOK] at hs
    split at hs
    · split at hs
      · simpa using hs.symm
      · cases hs
    · split at hs
      · simpa using hs.symm
      · cases hs
    · simpa using hs.symm
  | _ => simp [Step.isAccess] at ha

/-! ## framing: a checked path also checks below a base of lower-ranked locks -/

theorem holds_append (h b : Held) (m : Mutex) : holds (h ++ b) m = (holds h m || holds b m) := by
  simp [holds]

theorem holdsW_append (h b : Held) (m : Mutex) : holdsW (h ++ b) m = (holdsW h m || holdsW b m) := by
  simp [holdsW]

theorem above_append (h b : Held) (m : Mutex) : above (h ++ b) m = (above h m && above b m) := by
  simp [above]

theorem Step.mutexes_rlock (m : Mutex) : (Item.step (.rlock m)).mutexes = [m] := rfl
theorem Step.mutexes_lock (m : Mutex) : (Item.step (.lock m)).mutexes = [m] := rfl

theorem stepOK_frame {pol : Var → Policy} {h h' : Held} {s : Step} (base : Held)
    (hs : stepOK pol h s = some h') (hb : ∀ m, m ∈ (Item.step s).mutexes → above base m = true) :
    stepOK pol (h ++ base) s = some (h' ++ base) := by
  cases s with
  | rlock m =>
    obtain ⟨ha, rfl⟩ := stepOK_rlock hs
    simp [stepOK, above_append, ha, hb m (by simp [Item.mutexes])]
  | lock m =>
    obtain ⟨ha, rfl⟩ := stepOK_lock hs
    simp [stepOK, above_append, ha, hb m (by simp [Item.mutexes])]
  | runlock m =>
    obtain ⟨hc, rfl⟩ := stepOK_runlock hs
    have hmem : (m, false) ∈ h := by simpa using hc
    simp only [stepOK]
    rw [if_pos (by simp [hmem])]
    rw [List.erase_append_left _ hmem]
  | unlock m =>
    obtain ⟨hc, rfl⟩ := stepOK_unlock hs
    have hmem : (m, true) ∈ h := by simpa using hc
    simp only [stepOK]
    rw [if_pos (by simp [hmem])]
    rw [List.erase_append_left _ hmem]
  | read v =>
    have := stepOK_access (s := .read v) rfl hs; subst this
    simp only [stepOK] at hs ⊢
    cases hp : pol v with
    | guarded m =>
      rw [hp] at hs; simp only at hs ⊢
      by_cases hh : holds h' m = true
      · simp [holds_append, hh]
      · rw [if_neg hh] at hs; cases hs
    | writeGuarded m => rfl
    | free => rfl
  | write v =>
    have := stepOK_access (s := .write v) rfl hs; subst this
    simp only [stepOK] at hs ⊢
    cases hp : pol v with
    | guarded m =>
      rw [hp] at hs; simp only at hs ⊢
      by_cases hh : holdsW h' m = true
      · simp [holdsW_append, hh]
      · rw [if_neg hh] at hs; cases hs
    | writeGuarded m =>
      rw [hp] at hs; simp only at hs ⊢
      by_cases hh : holdsW h' m = true
      · simp [holdsW_append, hh]
      · rw [if_neg hh] at hs; cases hs
    | free => rfl

theorem itemsMutexes_cons (it : Item) (is : List Item) : itemsMutexes (it :: is) = it.mutexes ++ itemsMutexes is := by
  simp [itemsMutexes]

theorem itemsFrom_frame {pol : Var → Policy} (base : Held) (p : List Item) :
    ∀ (h h' : Held), itemsFrom pol h p = some h' → (∀ m, m ∈ itemsMutexes p → above base m = true) →
      itemsFrom pol (h ++ base) p = some (h' ++ base) := by
  induction p with
  | nil => intro h h' hp _; simp only [itemsFrom] at hp ⊢; injection hp with hp; rw [hp]
  | cons it is ih =>
    intro h h' hp hb
    have hb1 : ∀ m, m ∈ it.mutexes → above base m = true := fun m hm =>
      hb m (by rw [itemsMutexes_cons]; exact List.mem_append_left _ hm)
    have hb2 : ∀ m, m ∈ itemsMutexes is → above base m = true := fun m hm =>
      hb m (by rw [itemsMutexes_cons]; exact List.mem_append_right _ hm)
    cases it with
    | step s =>
      simp only [itemsFrom] at hp ⊢
      cases hs : stepOK pol h s with
      | none => rw [hs] at hp; cases hp
      | some h1 =>
        rw [hs] at hp
        rw [stepOK_frame base hs hb1]
        exact ih h1 h' hp hb2
    | any vs ms =>
      simp only [itemsFrom] at hp ⊢
      by_cases hc : (vs.all (fun s => s.isAccess && (stepOK pol h s).isSome) && ms.all (above h)) = true
      · rw [if_pos hc] at hp
        have hc' : (vs.all (fun s => s.isAccess && (stepOK pol (h ++ base) s).isSome) && ms.all (above (h ++ base))) = true := by
          simp only [Bool.and_eq_true, List.all_eq_true] at hc ⊢
          refine ⟨fun x hx => ?_, fun m hm => ?_⟩
          · have := hc.1 x hx
            refine ⟨this.1, ?_⟩
            cases hsx : stepOK pol h x with
            | none => rw [hsx] at this; simp at this
            | some hx' =>
              have hxm : ∀ m, m ∈ (Item.step x).mutexes → above base m = true := by
                intro m hm
                cases x <;> simp [Item.mutexes, Step.isAccess] at hm this
              rw [stepOK_frame base hsx hxm]; rfl
          · rw [above_append, hc.2 m hm, hb1 m (by simpa [Item.mutexes] using hm)]; rfl
        rw [if_pos hc']
        exact ih h h' hp hb2
      · rw [if_neg hc] at hp; cases hp
    | calls ms =>
      simp only [itemsFrom] at hp ⊢
      by_cases hc : ms.all (above h) = true
      · rw [if_pos hc] at hp
        have hc' : ms.all (above (h ++ base)) = true := by
          simp only [List.all_eq_true] at hc ⊢
          intro m hm
          rw [above_append, hc m hm, hb1 m (by simpa [Item.mutexes] using hm)]; rfl
        rw [if_pos hc']
        exact ih h h' hp hb2
      · rw [if_neg hc] at hp; cases hp

/-- an entry path of a checked table, run below any base it ranks above, restores the base -/
theorem entry_frame {pol : Var → Policy} {T : Table} (hT : tableOK pol T = true) {f : Fn} {p : List Item}
    (hf : f ∈ T.fns) (he : f.entry = true) (hp : p ∈ f.paths) (base : Held)
    (hb : ∀ m, m ∈ itemsMutexes p → above base m = true) : itemsFrom pol base p = some base := by
  have hfok : Fn.ok pol f = true := by
    simp only [tableOK, List.all_eq_true] at hT; exact hT f hf
  simp only [Fn.ok, Bool.and_eq_true, Bool.or_eq_true, Bool.not_eq_true', List.all_eq_true] at hfok
  have hpok : itemsOK pol p = true := by
    rcases hfok.2 with h | h
    · rw [he] at h; cases h
    · exact h p hp
  have h0 : itemsFrom pol [] p = some [] := by simpa [itemsOK] using hpok
  have := itemsFrom_frame (pol := pol) base p [] [] h0 hb
  simpa using this

/-- **Soundness of the static check.**  If the table checks, every execution an extracted path stands
for checks as a plain event sequence, from the same held set to the same held set. -/
theorem expands_sound {pol : Var → Policy} {T : Table} (hT : tableOK pol T = true)
    {items : List Item} {ss : List Step} (hx : Expands T items ss) :
    ∀ h h', itemsFrom pol h items = some h' → pathFrom pol h ss = some h' := by
  induction hx with
  | nil => intro h h' hp; simpa [itemsFrom, pathFrom] using hp
  | @step s _ _ _ ih =>
    intro h h' hp
    simp only [itemsFrom] at hp
    rw [pathFrom_cons]
    cases hs : stepOK pol h s with
    | none => rw [hs] at hp; cases hp
    | some h1 => rw [hs] at hp; exact ih h1 h' hp
  | any_done _ ih =>
    intro h h' hp
    simp only [itemsFrom] at hp
    split at hp
    · exact ih h h' hp
    · cases hp
  | @any_acc _ _ _ _ x hmem _ ih =>
    intro h h' hp
    have hp0 := hp
    simp only [itemsFrom] at hp
    split at hp
    · rename_i hc
      simp only [Bool.and_eq_true, List.all_eq_true] at hc
      have hx := hc.1 _ hmem
      rw [pathFrom_cons]
      cases hsx : stepOK pol h x with
      | none => rw [hsx] at hx; simp at hx
      | some hx' =>
        have := stepOK_access hx.1 hsx; subst this
        exact ih _ h' hp0
    · cases hp
  | any_call hf he hp' hsub _ _ ihp ih =>
    intro h h' hp
    have hp0 := hp
    simp only [itemsFrom] at hp
    split at hp
    · rename_i hc
      simp only [Bool.and_eq_true, List.all_eq_true] at hc
      rw [pathFrom_append]
      have hfr := entry_frame hT hf he hp' h (fun m hm => hc.2 m (hsub m hm))
      rw [ihp h h hfr]
      exact ih h h' hp0
    · cases hp
  | calls_done _ ih =>
    intro h h' hp
    simp only [itemsFrom] at hp
    split at hp
    · exact ih h h' hp
    · cases hp
  | calls_call hf he hp' hsub _ _ ihp ih =>
    intro h h' hp
    have hp0 := hp
    simp only [itemsFrom] at hp
    split at hp
    · rename_i hc
      simp only [List.all_eq_true] at hc
      rw [pathFrom_append]
      have hfr := entry_frame hT hf he hp' h (fun m hm => hc m (hsub m hm))
      rw [ihp h h hfr]
      exact ih h h' hp0
    · cases hp

/-- every program a thread can run over a checked table satisfies the discipline -/
theorem threadProg_ok {pol : Var → Policy} {T : Table} (hT : tableOK pol T = true) {ss : List Step}
    (h : ThreadProg T ss) : pathOK pol ss = true := by
  have : pathFrom pol [] ss = some [] := by
    induction h with
    | nil => rfl
    | call hf he hp hx _ ih =>
      rw [pathFrom_append]
      have h0 := entry_frame hT hf he hp [] (fun _ _ => by simp [above])
      rw [expands_sound hT hx [] [] h0]
      exact ih
  simp [pathOK, this]

/-- the step of an enabled thread preserves the invariant -/
theorem Inv.fire {pol : Var → Policy} {wp : Bool} {st : State} (hI : Inv pol st) {i : Nat}
    (he : enabled wp st i = true) : Inv pol (fire st i) := by
  have hi := enabled_lt he
  have hp := hI.path i hi
  cases hr : (st.th i).rest with
  | nil => simp [enabled, hr] at he
  | cons s r =>
    rw [hr] at hp
    obtain ⟨h', hs, hp'⟩ := path_step hp
    -- threads other than `i` are untouched; what `i` holds afterwards is `h'`
    have keepW : ∀ (x : Mutex × Bool) j, j < st.n → j ≠ i → ∀ m',
        holdsW ((st.th i).held.erase x) m' = true → holds (st.th j).held m' = false :=
      fun x j hj hji m' hw => hI.excl i j hi hj (fun h => hji h.symm) m' (holdsW_erase hw)
    have keepH : ∀ (x : Mutex × Bool) j, j < st.n → j ≠ i → ∀ m',
        holdsW (st.th j).held m' = true → holds ((st.th i).held.erase x) m' = false := by
      intro x j hj hji m' hw
      cases hh : holds ((st.th i).held.erase x) m' with
      | false => rfl
      | true =>
        have := hI.excl j i hj hi hji m' hw
        rw [holds_erase hh] at this; cases this
    have noPend : ∀ m', (st.th i).pend = some m' → ∀ s', s' ≠ Step.lock m' → s = s' → False := by
      intro m' hm s' hne hss
      obtain ⟨r', hr'⟩ := hI.pend i hi m' hm
      rw [hr] at hr'; injection hr' with h1 _; exact hne (hss ▸ h1)
    cases s with
    | rlock m =>
      obtain ⟨ha, rfl⟩ := stepOK_rlock hs
      rw [enabled_rlock hr] at he
      simp only [Bool.and_eq_true, decide_eq_true_eq, Bool.not_eq_true'] at he
      rw [fire_rlock hr]
      refine hI.set _ hp' ?_ ?_ ?_
      · intro j hj hji m' hw
        have : holdsW (st.th i).held m' = true := by
          simp only [holdsW, List.contains_cons, Bool.or_eq_true, beq_iff_eq, Prod.mk.injEq] at hw
          rcases hw with ⟨_, h⟩ | h
          · cases h
          · simpa [holdsW] using h
        exact hI.excl i j hi hj (fun h => hji h.symm) m' this
      · intro j hj hji m' hw
        show holds ((m, false) :: (st.th i).held) m' = false
        rw [holds_cons]
        have hne : (m == m') = false := by
          cases hmm : m == m' with
          | false => rfl
          | true =>
            have : m = m' := by simpa using hmm
            subst this
            have := anyHoldsW_false he.2.1 j hj
            rw [this] at hw; cases hw
        simp only [hne, Bool.false_or]
        exact hI.excl j i hj hi hji m' hw
      · intro m' hm; cases hm
    | lock m =>
      obtain ⟨ha, rfl⟩ := stepOK_lock hs
      rw [enabled_lock hr] at he
      simp only [Bool.and_eq_true, decide_eq_true_eq] at he
      by_cases hpd : (st.th i).pend = some m
      · simp only [hpd, beq_self_eq_true, if_true, Bool.not_eq_true'] at he
        rw [fire_lock_acq hr hpd]
        refine hI.set _ hp' ?_ ?_ ?_
        · intro j hj hji m' hw
          simp only [holdsW, List.contains_cons, Bool.or_eq_true, beq_iff_eq, Prod.mk.injEq] at hw
          rcases hw with ⟨h, _⟩ | h
          · subst h; exact anyHolds_false he.2 j hj
          · exact hI.excl i j hi hj (fun h => hji h.symm) m' (by simpa [holdsW] using h)
        · intro j hj hji m' hw
          show holds ((m, true) :: (st.th i).held) m' = false
          rw [holds_cons]
          have hne : (m == m') = false := by
            cases hmm : m == m' with
            | false => rfl
            | true =>
              have : m = m' := by simpa using hmm
              subst this
              have := anyHolds_false he.2 j hj
              rw [holdsW_holds hw] at this; cases this
          simp only [hne, Bool.false_or]
          exact hI.excl j i hj hi hji m' hw
        · intro m' hm; cases hm
      · rw [fire_lock_ann hr hpd]
        refine hI.set _ ?_ ?_ ?_ ?_
        · exact hp
        · intro j hj hji m' hw; exact hI.excl i j hi hj (fun h => hji h.symm) m' hw
        · intro j hj hji m' hw; exact hI.excl j i hj hi hji m' hw
        · intro m' hm
          have : m = m' := by simpa using hm
          subst this; exact ⟨r, rfl⟩
    | runlock m =>
      obtain ⟨_, rfl⟩ := stepOK_runlock hs
      rw [fire_runlock hr]
      refine hI.set _ hp' (keepW _) (keepH _) ?_
      · intro m' hm; exact (noPend m' hm _ (by simp) rfl).elim
    | unlock m =>
      obtain ⟨_, rfl⟩ := stepOK_unlock hs
      rw [fire_unlock hr]
      refine hI.set _ hp' (keepW _) (keepH _) ?_
      · intro m' hm; exact (noPend m' hm _ (by simp) rfl).elim
    | read v =>
      have := stepOK_access (s := .read v) rfl hs; subst this
      rw [fire_read hr]
      refine hI.set _ hp' ?_ ?_ ?_
      · intro j hj hji m' hw; exact hI.excl i j hi hj (fun h => hji h.symm) m' hw
      · intro j hj hji m' hw; exact hI.excl j i hj hi hji m' hw
      · intro m' hm; exact (noPend m' hm _ (by simp) rfl).elim
    | write v =>
      have := stepOK_access (s := .write v) rfl hs; subst this
      rw [fire_write hr]
      refine hI.set _ hp' ?_ ?_ ?_
      · intro j hj hji m' hw; exact hI.excl i j hi hj (fun h => hji h.symm) m' hw
      · intro j hj hji m' hw; exact hI.excl j i hj hi hji m' hw
      · intro m' hm; exact (noPend m' hm _ (by simp) rfl).elim

theorem Inv.reach {pol : Var → Policy} {wp : Bool} {s s' : State} (hI : Inv pol s)
    (hr : Reach wp s s') : Inv pol s' := by
  induction hr with
  | refl => exact hI
  | step i _ he ih => exact ih.fire he

theorem reach_n {wp : Bool} {s s' : State} (hr : Reach wp s s') : s'.n = s.n := by
  induction hr with
  | refl => rfl
  | step i _ _ ih => rw [fire_n]; exact ih

/-! ## deadlock freedom -/

/-- the mutex a thread is about to acquire -/
def want (t : Thread) : Option Mutex :=
  match t.rest with
  | .lock m :: _ => some m
  | .rlock m :: _ => some m
  | _ => none

theorem exists_max (n : Nat) (f : Nat → Option Nat) (h : ∃ i, i < n ∧ (f i).isSome = true) :
    ∃ i m, i < n ∧ f i = some m ∧ ∀ j m', j < n → f j = some m' → m' ≤ m := by
  induction n with
  | zero => obtain ⟨i, hi, _⟩ := h; omega
  | succ n ih =>
    by_cases hprev : ∃ i, i < n ∧ (f i).isSome = true
    · obtain ⟨i, m, hi, hfi, hmax⟩ := ih hprev
      cases hfn : f n with
      | none =>
        refine ⟨i, m, by omega, hfi, ?_⟩
        intro j m' hj hfj
        by_cases hjn : j = n
        · subst hjn; rw [hfn] at hfj; cases hfj
        · exact hmax j m' (by omega) hfj
      | some k =>
        by_cases hk : k ≤ m
        · refine ⟨i, m, by omega, hfi, ?_⟩
          intro j m' hj hfj
          by_cases hjn : j = n
          · subst hjn; rw [hfn] at hfj; cases hfj; exact hk
          · exact hmax j m' (by omega) hfj
        · refine ⟨n, k, by omega, hfn, ?_⟩
          intro j m' hj hfj
          by_cases hjn : j = n
          · subst hjn; rw [hfn] at hfj; cases hfj; omega
          · have := hmax j m' (by omega) hfj; omega
    · obtain ⟨i, hi, hfi⟩ := h
      have hin : i = n := by
        by_cases hin : i = n
        · exact hin
        · exact (hprev ⟨i, by omega, hfi⟩).elim
      subst hin
      cases hfn : f i with
      | none => rw [hfn] at hfi; cases hfi
      | some k =>
        refine ⟨i, k, by omega, hfn, ?_⟩
        intro j m' hj hfj
        by_cases hjn : j = i
        · subst hjn; rw [hfn] at hfj; cases hfj; omega
        · exact (hprev ⟨j, by omega, by rw [hfj]; rfl⟩).elim

/-- under the invariant an unfinished thread that cannot move is waiting for a lock -/
theorem want_of_stuck {pol : Var → Policy} {wp : Bool} {st : State} (hI : Inv pol st) {i : Nat}
    (hi : i < st.n) (hne : (st.th i).rest ≠ []) (hd : enabled wp st i = false) :
    ∃ m, want (st.th i) = some m := by
  have hp := hI.path i hi
  cases hr : (st.th i).rest with
  | nil => exact (hne hr).elim
  | cons s r =>
    rw [hr] at hp
    obtain ⟨h', hs, _⟩ := path_step hp
    cases s with
    | rlock m => exact ⟨m, by simp [want, hr]⟩
    | lock m => exact ⟨m, by simp [want, hr]⟩
    | runlock m =>
      have := (stepOK_runlock hs).1
      simp [enabled, hr, hi] at hd
      exact (hd (by simpa using this)).elim
    | unlock m =>
      have := (stepOK_unlock hs).1
      simp [enabled, hr, hi] at hd
      exact (hd (by simpa using this)).elim
    | read v => simp [enabled, hr, hi] at hd
    | write v => simp [enabled, hr, hi] at hd

/-- a thread waiting for `m` while nobody can move: somebody holds `m` -/
theorem holder_of_stuck {pol : Var → Policy} {wp : Bool} {st : State} (hI : Inv pol st)
    (hall : ∀ i, enabled wp st i = false) {i : Nat} (hi : i < st.n) {m : Mutex}
    (hw : want (st.th i) = some m) : ∃ j, j < st.n ∧ holds (st.th j).held m = true := by
  have stuckLock : ∀ k, k < st.n → ∀ r, (st.th k).rest = .lock m :: r → (st.th k).pend = some m →
      ∃ j, j < st.n ∧ holds (st.th j).held m = true := by
    intro k hk r hr hp
    have hd := hall k
    rw [enabled_lock hr] at hd
    simp only [hp, beq_self_eq_true, if_true, hk, decide_true, Bool.true_and, Bool.not_eq_false'] at hd
    exact anyHolds_true hd
  have hd := hall i
  cases hr : (st.th i).rest with
  | nil => simp [want, hr] at hw
  | cons s r =>
    cases s with
    | lock m' =>
      have : m' = m := by simpa [want, hr] using hw
      subst this
      by_cases hp : (st.th i).pend = some m'
      · exact stuckLock i hi r hr hp
      · rw [enabled_lock hr] at hd
        have hp' : ((st.th i).pend == some m') = false := by simpa using hp
        simp [hp', hi] at hd
    | rlock m' =>
      have : m' = m := by simpa [want, hr] using hw
      subst this
      rw [enabled_rlock hr] at hd
      simp only [hi, decide_true, Bool.true_and, Bool.and_eq_false_iff, Bool.not_eq_false',
        Bool.and_eq_true] at hd
      rcases hd with hd | ⟨_, hd⟩
      · obtain ⟨j, hj, hjw⟩ := anyHoldsW_true hd
        exact ⟨j, hj, holdsW_holds hjw⟩
      · obtain ⟨p, hp, hpp⟩ := anyPending_true hd
        obtain ⟨r', hr'⟩ := hI.pend p hp m' hpp
        exact stuckLock p hp r' hr' hpp
    | runlock _ => simp [want, hr] at hw
    | unlock _ => simp [want, hr] at hw
    | read _ => simp [want, hr] at hw
    | write _ => simp [want, hr] at hw

/-- what a thread wants ranks above everything it holds -/
theorem want_above {pol : Var → Policy} {st : State} (hI : Inv pol st) {i : Nat} (hi : i < st.n)
    {m : Mutex} (hw : want (st.th i) = some m) : above (st.th i).held m = true := by
  have hp := hI.path i hi
  cases hr : (st.th i).rest with
  | nil => simp [want, hr] at hw
  | cons s r =>
    rw [hr] at hp
    obtain ⟨h', hs, _⟩ := path_step hp
    cases s with
    | lock m' =>
      have : m' = m := by simpa [want, hr] using hw
      subst this; exact (stepOK_lock hs).1
    | rlock m' =>
      have : m' = m := by simpa [want, hr] using hw
      subst this; exact (stepOK_rlock hs).1
    | runlock _ => simp [want, hr] at hw
    | unlock _ => simp [want, hr] at hw
    | read _ => simp [want, hr] at hw
    | write _ => simp [want, hr] at hw

theorem Inv.progress {pol : Var → Policy} (wp : Bool) {st : State} (hI : Inv pol st)
    (hne : ∃ i, i < st.n ∧ (st.th i).rest ≠ []) : ∃ i, enabled wp st i = true := by
  refine Classical.byContradiction fun hno => ?_
  have hall : ∀ i, enabled wp st i = false := by
    intro i
    cases h : enabled wp st i with
    | false => rfl
    | true => exact (hno ⟨i, h⟩).elim
  obtain ⟨i0, hi0, hne0⟩ := hne
  obtain ⟨m0, hm0⟩ := want_of_stuck hI hi0 hne0 (hall i0)
  obtain ⟨i, m, hi, hwi, hmax⟩ :=
    exists_max st.n (fun k => want (st.th k)) ⟨i0, hi0, by simp [hm0]⟩
  obtain ⟨j, hj, hjh⟩ := holder_of_stuck hI hall hi hwi
  have hjne : (st.th j).held ≠ [] := by
    intro h; rw [h] at hjh; simp [holds] at hjh
  have hrest := rest_ne_nil_of_held (hI.path j hj) hjne
  obtain ⟨mj, hmj⟩ := want_of_stuck hI hj hrest (hall j)
  have hlt : m < mj := above_lt (want_above hI hj hmj) hjh
  have hle : mj ≤ m := hmax j mj hj hmj
  exact absurd hlt (Nat.not_lt.mpr hle)

/-! ## termination: every step consumes a measure, so with progress every run can be completed -/

def sumTo (f : Nat → Nat) : Nat → Nat
  | 0 => 0
  | n + 1 => sumTo f n + f n

theorem sumTo_congr {f g : Nat → Nat} {n : Nat} (h : ∀ k, k < n → f k = g k) : sumTo f n = sumTo g n := by
  induction n with
  | zero => rfl
  | succ n ih =>
    simp only [sumTo]
    rw [ih (fun k hk => h k (by omega)), h n (by omega)]

theorem sumTo_lt {f g : Nat → Nat} {n i : Nat} (hi : i < n) (hlt : g i < f i)
    (hsame : ∀ k, k ≠ i → g k = f k) : sumTo g n < sumTo f n := by
  induction n with
  | zero => omega
  | succ n ih =>
    simp only [sumTo]
    by_cases hin : i = n
    · subst hin
      have : sumTo g i = sumTo f i := sumTo_congr (fun k hk => hsame k (by omega))
      omega
    · have := ih (by omega)
      have hn : g n = f n := hsame n (fun h => hin h.symm)
      omega

def weight (t : Thread) : Nat := 2 * t.rest.length - (if t.pend.isSome then 1 else 0)

def measure (st : State) : Nat := sumTo (fun i => weight (st.th i)) st.n

theorem measure_set_lt {st : State} {i : Nat} (hi : i < st.n) {t' : Thread}
    (h : weight t' < weight (st.th i)) : measure (st.set i t') < measure st := by
  unfold measure
  simp only [set_n]
  apply sumTo_lt hi
  · simpa using h
  · intro k hk; simp [State.set, hk]

theorem Inv.fire_measure {pol : Var → Policy} {wp : Bool} {st : State} (hI : Inv pol st) {i : Nat}
    (he : enabled wp st i = true) : measure (Locks.fire st i) < measure st := by
  have hi := enabled_lt he
  cases hr : (st.th i).rest with
  | nil => simp [enabled, hr] at he
  | cons s r =>
    cases s with
    | rlock m =>
      rw [fire_rlock hr]
      apply measure_set_lt hi
      cases hpd : (st.th i).pend <;> simp [weight, hr, hpd] <;> omega
    | lock m =>
      by_cases hp : (st.th i).pend = some m
      · rw [fire_lock_acq hr hp]
        apply measure_set_lt hi
        simp only [weight, hr, hp, List.length_cons]
        simp; omega
      · rw [fire_lock_ann hr hp]
        apply measure_set_lt hi
        have hpn : (st.th i).pend = none := by
          cases hp' : (st.th i).pend with
          | none => rfl
          | some m' =>
            obtain ⟨r', hr'⟩ := hI.pend i hi m' hp'
            rw [hr] at hr'; injection hr' with h1 _; injection h1 with h1
            subst h1; exact absurd hp' hp
        simp only [weight, hr, hpn, List.length_cons]
        simp; omega
    | runlock m =>
      rw [fire_runlock hr]
      apply measure_set_lt hi
      cases hpd : (st.th i).pend <;> simp [weight, hr, hpd] <;> omega
    | unlock m =>
      rw [fire_unlock hr]
      apply measure_set_lt hi
      cases hpd : (st.th i).pend <;> simp [weight, hr, hpd] <;> omega
    | read v =>
      rw [fire_read hr]
      apply measure_set_lt hi
      cases hpd : (st.th i).pend <;> simp [weight, hr, hpd] <;> omega
    | write v =>
      rw [fire_write hr]
      apply measure_set_lt hi
      cases hpd : (st.th i).pend <;> simp [weight, hr, hpd] <;> omega

theorem not_done_unfinished {st : State} (h : st.done = false) : ∃ i, i < st.n ∧ (st.th i).rest ≠ [] := by
  simp only [State.done] at h
  have : ¬ ∀ i ∈ List.range st.n, (st.th i).rest.isEmpty = true := by
    intro hall
    have := List.all_eq_true.2 hall
    rw [this] at h; cases h
  refine Classical.byContradiction fun hno => this ?_
  intro i hi
  have hi' : i < st.n := List.mem_range.1 hi
  cases hr : (st.th i).rest with
  | nil => rfl
  | cons s r => exact (hno ⟨i, hi', by rw [hr]; simp⟩).elim

/-- from any state satisfying the invariant some schedule completes every thread -/
theorem Inv.can_finish {pol : Var → Policy} (wp : Bool) :
    ∀ (k : Nat) (st : State), Inv pol st → measure st ≤ k →
      ∃ sched st', runSched wp st sched = some st' ∧ st'.done = true := by
  intro k
  induction k with
  | zero =>
    intro st hI hm
    cases hd : st.done with
    | true => exact ⟨[], st, rfl, hd⟩
    | false =>
      obtain ⟨i, he⟩ := hI.progress wp (not_done_unfinished hd)
      have := hI.fire_measure he
      omega
  | succ k ih =>
    intro st hI hm
    cases hd : st.done with
    | true => exact ⟨[], st, rfl, hd⟩
    | false =>
      obtain ⟨i, he⟩ := hI.progress wp (not_done_unfinished hd)
      have hlt := hI.fire_measure he
      obtain ⟨sched, st', hrun, hdone⟩ := ih (Locks.fire st i) (hI.fire he) (by omega)
      exact ⟨i :: sched, st', by simp [runSched, he, hrun], hdone⟩

end Locks
