import Rg.Proofs.QSimCall
/-!
# Closing the induction on source fuel

`World`: a program whose functions were compiled in order by the structured compiler (each in the
environment of the functions before it).  `World.all`: every simulation statement holds for every amount
of source fuel.  `World.call_correct`: the compiled program computes what the reference semantics says.
-/
namespace Q
open SpecC04 (Val Env lookup tagOf evalExpr evalArgs evalCall callFn execStmt execBlock loop Flow)

section
variable (C : Ctx)
theorem simE_zero : SimE C 0 := by
  intro env e cs is cs' _ p _ _ fr bO bI _ st _
  simp [evalExpr, EGoal]

theorem simCall_zero : SimCall C 0 := by
  intro env ci recv args cs is cs' _ p _ _ fr bO bI _ st _
  simp [evalCall, CGoal]

/-- without natives and without compiled functions in scope no call expression compiles -/
theorem simCall_nocalls (h1 : C.cenv.natives = []) (h2 : C.cenv.funcs = []) (n : Nat) : SimCall C n := by
  intro env ci recv args cs is cs' hc
  exfalso
  simp only [compE, bind, Option.bind_eq_bind, Option.bind_eq_some_iff, Prod.exists] at hc
  obtain ⟨ir, s1, _, hc⟩ := hc
  simp [h1, h2, idOf, idOfAux] at hc


theorem simE_nocalls (hfx : FxOK C.fx) (h1 : C.cenv.natives = []) (h2 : C.cenv.funcs = []) : ∀ n, SimE C n
  | 0 => simE_zero C
  | n + 1 => simE_step C hfx n (simE_nocalls hfx h1 h2 n) (simCall_nocalls C h1 h2 n)

end

theorem idOfAux_spec (k : Nat) : ∀ (keys : List Nat) (i : Nat) (acc : Option Nat) (fid : Nat),
    idOfAux k keys i acc = some fid → acc = some fid ∨ (i ≤ fid ∧ keys[fid - i]? = some k)
  | [], _, _, _, h => by simp [idOfAux] at h; exact Or.inl h
  | x :: xs, i, acc, fid, h => by
    simp only [idOfAux] at h
    rcases idOfAux_spec k xs (i + 1) _ fid h with h1 | ⟨h1, h2⟩
    · split at h1
      · rename_i hx
        simp at h1; subst h1
        exact Or.inr ⟨Nat.le_refl _, by simp [hx]⟩
      · exact Or.inl h1
    · refine Or.inr ⟨by omega, ?_⟩
      have e : fid - i = (fid - (i + 1)) + 1 := by omega
      rw [e]; simpa using h2

theorem idOf_spec {keys : List Nat} {k fid : Nat} (h : idOf keys k = some fid) : keys[fid]? = some k := by
  rcases idOfAux_spec k keys 0 none fid h with h1 | ⟨_, h2⟩
  · simp at h1
  · simpa using h2

theorem find_of_nodup : ∀ (fs : List FuncDecl) (i : Nat) (g : FuncDecl), (fs.map (·.key)).Nodup → fs[i]? = some g →
    fs.find? (·.key == g.key) = some g
  | [], _, _, _, h => by simp at h
  | f :: fs, i, g, hnd, h => by
    simp only [List.map_cons, List.nodup_cons] at hnd
    cases i with
    | zero => simp at h; subst h; simp
    | succ i =>
      simp at h
      have hne : f.key ≠ g.key := by
        intro e
        exact hnd.1 (e ▸ List.mem_map.mpr ⟨g, List.mem_of_getElem? h, rfl⟩)
      simp only [List.find?_cons]
      have : (f.key == g.key) = false := by simpa using hne
      simp only [this]
      exact find_of_nodup fs i g hnd.2 h

/-- a program compiled function by function, each in the environment of the functions before it -/
structure World where
  fx : Fixes
  hfx : FxOK fx
  P : SpecC04.Prog
  hnat : ∀ k, P.nat k = none
  cfs : List CFunc
  keysNodup : (P.funcs.map (·.key)).Nodup
  linked : ∀ j g, P.funcs[j]? = some g →
    ∃ gc, cfs[j]? = some gc ∧ FnLinked fx ⟨[], (P.funcs.take j).map (·.key)⟩ g gc

namespace World
variable (W : World)

def venv : VEnv := ⟨[], W.cfs⟩
def cenv (j : Nat) : CEnv := ⟨[], (W.P.funcs.take j).map (·.key)⟩
def ctx (j : Nat) (fnc : CFn) (gc : CFunc) : Ctx := ⟨W.fx, W.P, W.cenv j, fnc, gc, W.venv⟩

/-- everything simulated for `n` units of source fuel -/
def All (n : Nat) : Prop :=
  ∀ j g gc, W.P.funcs[j]? = some g → W.cfs[j]? = some gc →
    FnGoal W.fx W.P W.venv n g gc ∧
    ∀ fnc, SimE (W.ctx j fnc gc) n ∧ SimArgs (W.ctx j fnc gc) n ∧ SimCall (W.ctx j fnc gc) n ∧ SimS (W.ctx j fnc gc) n ∧
      SimBlock (W.ctx j fnc gc) n ∧ SimLoopEver (W.ctx j fnc gc) n ∧ SimLoopCond (W.ctx j fnc gc) n

theorem retTyOf_len {l : List Ty} {t : Ty} (h : retTyOf l = some t) : l.length ≤ 1 := by
  cases l with
  | nil => simp
  | cons a l => cases l with
    | nil => simp
    | cons _ _ => simp [retTyOf] at h

theorem callsOK (n : Nat) (h : W.All n) (j : Nat) (fnc : CFn) (gc : CFunc) : CallsOK (W.ctx j fnc gc) n := by
  intro key fid hid
  have hk := idOf_spec hid
  simp only [ctx, cenv] at hk
  -- the key sits at index fid < j of the program
  have hlt : fid < (W.P.funcs.take j).length := by
    have := (List.getElem?_eq_some_iff.mp hk).1; simpa using this
  obtain ⟨g', hg'⟩ : ∃ g', W.P.funcs[fid]? = some g' := by
    have : fid < W.P.funcs.length := by simp at hlt; omega
    exact ⟨W.P.funcs[fid], by simp [this]⟩
  have hkey : g'.key = key := by
    have : ((W.P.funcs.take j).map (·.key))[fid]? = some g'.key := by
      rw [List.getElem?_map, List.getElem?_take]
      simp at hlt
      have : fid < j := by omega
      simp [this, hg']
    rw [this] at hk; simpa using hk
  obtain ⟨gc', hgc', hlink⟩ := W.linked fid g' hg'
  obtain ⟨sf, hsc, _, _⟩ := hlink.compiled
  obtain ⟨retTy, _, _, _, _, _, hrt, _⟩ := structCompile_some hsc
  refine ⟨g', gc', ?_, ?_, retTyOf_len hrt, (h fid g' gc' hg' hgc').1⟩
  · rw [← hkey]; exact find_of_nodup _ _ _ W.keysNodup hg'
  · simp [ctx, venv, funcAt, getIdx, hgc']

theorem all_zero : W.All 0 := by
  intro j g gc _ _
  refine ⟨?_, fun fnc => ⟨?_, ?_, ?_, ?_, ?_, ?_, ?_⟩⟩
  · intro av st0; simp [callFn]
  · intro env e cs is cs' _ p _ _ fr bO bI _ st _; simp [evalExpr, EGoal]
  · intro env es cs is cs' _ p _ _ fr bO bI _ st _; simp [evalArgs, LGoal]
  · intro env ci recv args cs is cs' _ p _ _ fr bO bI _ st _; simp [evalCall, CGoal]
  · intro env s il cs lu sis cs' lu' _ d p _ _ fr bO bI _ st _; simp [execStmt, SGoal]
  · intro env ss il cs lu sis cs' lu' _ d p _ _ fr bO bI _ st _; simp [execBlock, SGoal]
  · intro env body cs lu ib cs' lu' _ p _ _ fr bO bI _ st _; simp [loop, LoopGoal]
  · intro env c body cs lu ib cs1 lu1 ic cs' _ _ pb _ _ fr bO bI _ st _; simp [loop, LoopGoal]

theorem all_succ (n : Nat) (h : W.All n) : W.All (n + 1) := by
  intro j g gc hg hgc
  obtain ⟨hfn, hsim⟩ := h j g gc hg hgc
  obtain ⟨gc', hgc', hlink⟩ := W.linked j g hg
  rw [hgc] at hgc'; cases hgc'
  refine ⟨fnGoal_step W.hfx W.P W.venv (W.cenv j) g gc hlink n (fun fnc => (hsim fnc).2.2.2.1), fun fnc => ?_⟩
  obtain ⟨hE, hA, hC, hS, hB, hLE, hLC⟩ := hsim fnc
  have hcalls := W.callsOK n h j fnc gc
  refine ⟨simE_step _ W.hfx n hE hC, simArgs_step _ n hE hA,
    simCall_step _ W.hfx W.hnat rfl n hA hcalls, simS_step _ W.hfx n hE hC hS hB hLE hLC,
    simBlock_step _ W.hfx n hS hB, simLoopEver_step _ W.hfx n hS hLE, simLoopCond_step _ W.hfx n hE hS hLC⟩

theorem all (n : Nat) : W.All n := by
  induction n with
  | zero => exact W.all_zero
  | succ n ih => exact W.all_succ n ih

/-- **Compiler correctness**: calling function `j` of the program on the VM, with the argument values pushed the
way `quasigo.Call`'s callers push them, ends with the result (or the panic) the reference semantics gives. -/
theorem call_correct (j : Nat) (g : FuncDecl) (gc : CFunc) (hg : W.P.funcs[j]? = some g) (hgc : W.cfs[j]? = some gc)
    (fuel : Nat) (av : List Val) :
    match SpecC04.run W.P fuel j av with
    | .ok r => ∃ fuel', callFunc W.fx W.venv fuel' gc (pushVals av {}) = .done (resOf r)
    | .panic q => ∃ fuel', callFunc W.fx W.venv fuel' gc (pushVals av {}) = .panic q
    | _ => True := by
  have h := (W.all fuel j g gc hg hgc).1 av {}
  simp only [SpecC04.run, hg]
  cases hc : callFn W.P fuel g av with
  | ok r =>
    simp only [hc] at h
    obtain ⟨_, _, st1, ⟨m, hm⟩, _⟩ := h
    refine ⟨m, ?_⟩
    simp only [callFunc]
    simp only [List.length_nil, Int.ofNat_zero] at hm
    rw [hm]
  | panic q =>
    simp only [hc] at h
    obtain ⟨_, _, ⟨m, hm⟩⟩ := h
    refine ⟨m, ?_⟩
    simp only [callFunc]
    simp only [List.length_nil, Int.ofNat_zero] at hm
    rw [hm]
  | _ => trivial
end World

/-- the VM looks at the repairs only through the `frame` flag -/
theorem run_congr_frame (fx1 fx2 : Fixes) (h : fx1.frame = fx2.frame) (env : VEnv) :
    ∀ (n : Nat) (f : CFunc) (fr : Frame) (pc : Int) (st : Stack), run fx1 env n f fr pc st = run fx2 env n f fr pc st := by
  intro n
  induction n with
  | zero => intros; rfl
  | succ n ih =>
    intro f fr pc st
    simp only [run]
    cases decodeAt f.code pc with
    | panic p => rfl
    | ok ins =>
      simp only []
      cases step f fr st pc ins with
      | panic p => rfl
      | ok nx =>
        cases nx with
        | cont fr' st' pc' => exact ih _ _ _ _
        | ret r st' => rfl
        | native id =>
          simp only []
          cases funcAt env.natives id with
          | panic p => rfl
          | ok nat =>
            simp only []
            cases runNative nat st with
            | done st' => exact ih _ _ _ _
            | _ => rfl
        | call id kind =>
          simp only []
          cases funcAt env.funcs id with
          | panic p => rfl
          | ok g =>
            simp only []
            rw [ih g]
            cases run fx2 env n g (newFrame (↑st.objs.length - ↑g.numObjectParams) (↑st.ints.length - ↑g.numIntParams)) 0 st with
            | done rs =>
              obtain ⟨r, st1⟩ := rs
              simp only [h]
              split
              · rfl
              · exact ih _ _ _ _
            | _ => rfl

theorem callFunc_congr_frame (fx1 fx2 : Fixes) (h : fx1.frame = fx2.frame) (env : VEnv) (n : Nat) (f : CFunc) (st : Stack) :
    callFunc fx1 env n f st = callFunc fx2 env n f st := by
  simp only [callFunc, run_congr_frame fx1 fx2 h]

end Q
