import Rg.Proofs.IRRoundtrip
/-!
# Part C: the fixed printer writes exactly the literal trees `L…` of `IRRoundtrip`
-/
namespace IRProofs
open SpecC05 IR GoLit

theorem flatEl_append_true : ∀ (a b : List Lit), flatEl (a ++ b) true = flatEl a true ++ flatEl b true
  | [], b => by simp [flatEl]
  | e :: a, b => by
    have ih := flatEl_append_true a b
    simp [flatEl, ih]

theorem flatEl_single (v : Lit) : flatEl [v] true = flatten v ++ [.comma] := by
  simp [flatEl]

theorem flatEl_ents_cons (x : String × Option Lit) (xs : Spec) :
    flatEl (ents (x :: xs)) true = flatEl (ents [x]) true ++ flatEl (ents xs) true := by
  have : ents (x :: xs) = ents [x] ++ ents xs := by
    rw [← ents_append]; rfl
  rw [this, flatEl_append_true]

/-- (simp-safe form: only splits lists of two or more fields) -/
theorem flatEl_ents_cons2 (x y : String × Option Lit) (ys : Spec) :
    flatEl (ents (x :: y :: ys)) true = flatEl (ents [x]) true ++ flatEl (ents (y :: ys)) true :=
  flatEl_ents_cons x (y :: ys)

theorem flatEl_ents_nil : flatEl (ents []) true = [] := rfl

theorem flatEl_ent_none (k : String) : flatEl (ents [(k, none)]) true = [] := rfl

theorem flatEl_ent_some (k : String) (v : Lit) :
    flatEl (ents [(k, some v)]) true = [.ident k, .colon] ++ flatten v ++ [.comma] := by
  show flatEl [.keyed k v] true = _
  simp [flatEl, flatten]

theorem key_ne (k : String) (hk : (k == "") = false) : key k = [.ident k, .colon] := by
  unfold key; rw [hk]; rfl

theorem elide_tt : elide true true = false := rfl
theorem elide_tf : elide true false = true := rfl

/-! ## single fields -/

theorem pInt_eq (k : String) (hk : (k == "") = false) (n : Int) : pInt k n = flatEl (ents [(k, oInt n)]) true := by
  unfold pInt oInt
  by_cases h : (n == 0) = true
  · simp [h, flatEl_ent_none]
  · have h' : (n == 0) = false := by simpa using h
    rw [h']
    simp only [if_false, Bool.false_eq_true]
    rw [flatEl_ent_some, key_ne k hk]
    simp [flatten]

theorem pStr_eq (k : String) (hk : (k == "") = false) (b : Bytes) :
    pStr true false k b = flatEl (ents [(k, oStr b)]) true := by
  unfold pStr oStr
  rw [elide_tf]
  cases b with
  | nil => simp [flatEl_ent_none]
  | cons x xs =>
    simp only [List.isEmpty_cons, Bool.false_and, Bool.false_eq_true, if_false]
    rw [flatEl_ent_some, key_ne k hk]
    simp [flatten]

theorem pStrElem_eq (b : Bytes) : pStr true true "" b = flatEl [LStrElem b] true := by
  unfold pStr
  rw [elide_tt]
  simp [key, flatEl, flatten, LStrElem]

theorem pOp_eq (k : String) (hk : (k == "") = false) (o : Nat) : pOp k o = flatEl (ents [(k, oOp o)]) true := by
  unfold pOp oOp
  by_cases h : (o == 0) = true
  · simp [h, flatEl_ent_none]
  · have h' : (o == 0) = false := by simpa using h
    rw [h']
    simp only [if_false, Bool.false_eq_true]
    rw [flatEl_ent_some, key_ne k hk]
    simp [flatten, qual]

theorem pVal_eq (k : String) (hk : (k == "") = false) (v : Val) : pVal k v = flatEl (ents [(k, oVal v)]) true := by
  cases v with
  | nil => rfl
  | str b =>
    show key k ++ [GTok.str b, .comma] = flatEl (ents [(k, some (.str b))]) true
    rw [flatEl_ent_some, key_ne k hk]; simp [flatten]
  | int64 n =>
    show key k ++ [GTok.ident "int64", .lparen] ++ intToks n ++ [.rparen, .comma] = flatEl (ents [(k, some (.conv "int64" n))]) true
    rw [flatEl_ent_some, key_ne k hk]; simp [flatten]

/-! ## slices -/

theorem flatEl_true_ne_nil (e : Lit) (es : List Lit) : flatEl (e :: es) true ≠ [] := by
  simp [flatEl]

theorem flatEl_false_eq_dropLast : ∀ (es : List Lit), es ≠ [] → flatEl es false = (flatEl es true).dropLast
  | [], h => absurd rfl h
  | [e], _ => by simp [flatEl]
  | e :: e' :: r, _ => by
    have ih := flatEl_false_eq_dropLast (e' :: r) (by simp)
    have hne := flatEl_true_ne_nil e' r
    have h1 : flatEl (e :: e' :: r) false = (flatten e ++ [GTok.comma]) ++ flatEl (e' :: r) false := by
      simp [flatEl]
    have h2 : flatEl (e :: e' :: r) true = (flatten e ++ [GTok.comma]) ++ flatEl (e' :: r) true := by
      simp [flatEl]
    rw [h1, h2, List.dropLast_append_of_ne_nil hne, ih]

theorem flatEl_sliceTc (se : Bool) (es : List Lit) :
    flatEl es (sliceTc se es.length) =
      (if isCompactSlice se es.length then (flatEl es true).dropLast else flatEl es true) := by
  unfold sliceTc
  by_cases hc : isCompactSlice se es.length = true
  · rw [if_pos hc, hc]
    cases es with
    | nil => rfl
    | cons e r =>
      have : ((e :: r).length == 0) = false := by simp
      simp only [Bool.not_true, Bool.false_or, this]
      exact flatEl_false_eq_dropLast (e :: r) (by simp)
  · have hc' : isCompactSlice se es.length = false := by simpa using hc
    rw [hc']; simp

theorem pSlice_eq {α} (k : String) (hk : (k == "") = false) (se : Bool) (ty : Ty) (s : Sl α) (es : List Lit)
    (hlen : es.length = s.elems.length) :
    pSlice k se (tyToks ty) s (flatEl es true) = flatEl (ents [(k, oSlice ty s.isNil es (sliceTc se s.elems.length))]) true := by
  unfold pSlice oSlice
  by_cases hn : s.isNil = true
  · rw [if_pos hn, if_pos hn]; rfl
  · rw [if_neg hn, if_neg hn, flatEl_ent_some, key_ne k hk, ← hlen]
    simp only [flatten, otyToks, tyToks, sliceOpen, flatEl_sliceTc]
    simp

theorem flatMap_flatEl {α} (f : α → List GTok) (L : α → Lit) (h : ∀ a, f a = flatEl [L a] true) :
    ∀ l : List α, l.flatMap f = flatEl (l.map L) true
  | [] => rfl
  | a :: l => by
    have ih := flatMap_flatEl f L h l
    have : (a :: l).map L = [L a] ++ l.map L := rfl
    rw [List.flatMap_cons, this, flatEl_append_true, h a, ih]

theorem tyToks_ir (name : String) : tyToks (irTy name) = qual "ir" name := by
  simp [tyToks, irTy, qual]

theorem tyToks_string : tyToks stringTy = [.ident "string"] := by
  simp [tyToks, stringTy]

/-! ## structs -/

/-- a struct literal element: `{ fields },` -/
theorem flatEl_struct (ty : Option Ty) (xs : Spec) :
    flatEl [Lit.comp ty (ents xs) true] true = otyToks ty ++ [.lbrace] ++ flatEl (ents xs) true ++ [.rbrace, .comma] := by
  simp [flatEl, flatten]

theorem pPattern_eq (p : PatternString) : pPattern true p = flatEl [LPattern p] true := by
  unfold pPattern LPattern
  rw [elide_tt]
  simp [flatEl, flatten, ents, otyToks]

theorem pBundle_eq (b : BundleImport) : pBundle true b = flatEl [LBundle b] true := by
  unfold pBundle LBundle
  simp [flatEl, flatten, ents, otyToks]

theorem pImport_eq (i : PackageImport) : pImport true i = flatEl [LImport i] true := by
  unfold pImport LImport
  rw [elide_tt, flatEl_struct]
  simp only [Bool.and_false, Bool.false_eq_true, if_false, flatEl_ents_cons2,
    pStr_eq "Path" rfl, pStr_eq "Name" rfl, otyToks]
  simp

/-! ## FilterExpr -/

theorem compact_ne_zero (o : Nat) (h : isCompactOp o = true) : (o == 0) = false := by
  obtain ⟨h1, h2, h3⟩ := compactOps_named
  unfold isCompactOp at h
  simp only [Bool.or_eq_true, beq_iff_eq] at h
  have : o ≠ 0 := by
    rcases h with (h | h) | h <;> (subst h; assumption)
  simpa using this

theorem LFilterList_length : ∀ as : List FilterExpr, (LFilterList as).length = as.length
  | [] => by simp [LFilterList]
  | a :: as => by simp [LFilterList, LFilterList_length as]

theorem otyToks_elTy (inList : Bool) (name : String) :
    otyToks (elTy inList name) = (if inList then [] else qual "ir" name) := by
  cases inList <;> simp [elTy, otyToks, tyToks_ir]

/-- what `pFilter true k inList e` writes -/
def filterToks (k : String) (inList : Bool) (e : FilterExpr) : List GTok :=
  if e.isZero && !inList then [] else key k ++ flatten (LFilter inList e) ++ [.comma]

mutual
theorem pFilter_eq : ∀ (e : FilterExpr) (k : String) (inList : Bool), e.wf = true →
    pFilter true k inList e = .ok (filterToks k inList e)
  | .mk l o s v as nn, k, inList, hwf => by
    obtain ⟨_, hcomp, hwl⟩ := wf_mk l o s v as nn hwf
    have hel : elide true inList = !inList := by cases inList <;> rfl
    unfold pFilter filterToks
    rw [hel]
    by_cases hz : ((FilterExpr.mk l o s v as nn).isZero && !inList) = true
    · rw [if_pos hz, if_pos hz]
    · rw [if_neg hz, if_neg hz]
      by_cases hc : isCompactOp o = true
      · obtain ⟨⟨b, hb⟩, has⟩ := hcomp hc
        subst hb; subst has
        simp only [hc, if_true]
        unfold LFilter
        rw [if_pos hc]
        simp only [flatten, otyToks_elTy, ents_cons_some, valStr]
        cases inList <;> simp [flatEl, flatten, ents, qual]
      · have ih := pFilterList_eq as hwl
        simp only [hc, Bool.false_eq_true, if_false, ih]
        unfold LFilter
        rw [if_neg hc]
        have hsl := pSlice_eq "Args" rfl false (irTy "FilterExpr") (⟨as, nn⟩ : Sl FilterExpr) (LFilterList as)
          (LFilterList_length as)
        rw [tyToks_ir] at hsl
        have hnil : (⟨as, nn⟩ : Sl FilterExpr).isNil = (as.isEmpty && !nn) := rfl
        rw [hnil] at hsl
        simp only [flatten, otyToks_elTy, flatEl_ents_cons2, pInt_eq "Line" rfl, pOp_eq "Op" rfl, pStr_eq "Src" rfl,
          pVal_eq "Value" rfl, hsl]
        cases inList <;> simp
theorem pFilterList_eq : ∀ (as : List FilterExpr), FilterExpr.wfList as = true →
    pFilterList true as = .ok (flatEl (LFilterList as) true)
  | [], _ => by unfold pFilterList LFilterList; rfl
  | a :: as, h => by
    have hh : a.wf = true ∧ FilterExpr.wfList as = true := by
      unfold FilterExpr.wfList at h; simpa using h
    have h1 := pFilter_eq a "" true hh.1
    have h2 := pFilterList_eq as hh.2
    unfold pFilterList LFilterList
    rw [h1, h2]
    have : LFilter true a :: LFilterList as = [LFilter true a] ++ LFilterList as := rfl
    rw [this, flatEl_append_true]
    simp [filterToks, key, flatEl]
end

/-! ## Rule, RuleGroup, File -/

theorem filterToks_where (e : FilterExpr) :
    filterToks "WhereExpr" false e = flatEl (ents [("WhereExpr", oFilter e)]) true := by
  unfold filterToks oFilter
  by_cases hz : e.isZero = true
  · simp [hz, flatEl_ent_none]
  · have hz' : e.isZero = false := by simpa using hz
    rw [hz']
    simp only [Bool.false_and, Bool.false_eq_true, if_false]
    rw [flatEl_ent_some, key_ne "WhereExpr" rfl]

theorem pRule_eq (r : Rule) (h : r.wf = true) : pRule true r = .ok (flatEl [LRule r] true) := by
  unfold pRule LRule
  rw [elide_tt, pFilter_eq r.whereExpr "WhereExpr" false h, filterToks_where, flatEl_struct]
  have hsp := pSlice_eq "SyntaxPatterns" rfl false (irTy "PatternString") r.syntaxPatterns (r.syntaxPatterns.elems.map LPattern) (by simp)
  have hcp := pSlice_eq "CommentPatterns" rfl false (irTy "PatternString") r.commentPatterns (r.commentPatterns.elems.map LPattern) (by simp)
  rw [tyToks_ir] at hsp hcp
  simp only [Bool.and_false, Bool.false_eq_true, if_false, flatEl_ents_cons2, otyToks,
    flatMap_flatEl (pPattern true) LPattern pPattern_eq,
    pInt_eq "Line" rfl, pStr_eq "ReportTemplate" rfl, pStr_eq "SuggestTemplate" rfl, pStr_eq "DoFuncName" rfl,
    pStr_eq "LocationVar" rfl, hsp, hcp]
  simp

theorem pRules_eq : ∀ (rs : List Rule), rs.all Rule.wf = true → pRules true rs = .ok (flatEl (rs.map LRule) true)
  | [], _ => rfl
  | r :: rs, h => by
    have hh : r.wf = true ∧ rs.all Rule.wf = true := by simpa using h
    have ih := pRules_eq rs hh.2
    unfold pRules
    rw [pRule_eq r hh.1, ih]
    have : (r :: rs).map LRule = [LRule r] ++ rs.map LRule := rfl
    rw [this, flatEl_append_true]

theorem pGroup_eq (g : RuleGroup) (h : g.wf = true) : pGroup true g = .ok (flatEl [LGroup g] true) := by
  unfold pGroup LGroup
  rw [elide_tt, pRules_eq g.rules.elems h, flatEl_struct]
  have ht := pSlice_eq "DocTags" rfl true stringTy g.docTags (g.docTags.elems.map LStrElem) (by simp)
  have hi := pSlice_eq "Imports" rfl false (irTy "PackageImport") g.imports (g.imports.elems.map LImport) (by simp)
  have hr := pSlice_eq "Rules" rfl false (irTy "Rule") g.rules (g.rules.elems.map LRule) (by simp)
  rw [tyToks_ir] at hi hr
  rw [tyToks_string] at ht
  simp only [Bool.and_false, Bool.false_eq_true, if_false, flatEl_ents_cons2, otyToks,
    flatMap_flatEl (pStr true true "") LStrElem pStrElem_eq,
    flatMap_flatEl (pImport true) LImport pImport_eq,
    pInt_eq "Line" rfl, pStr_eq "Name" rfl, pStr_eq "MatcherName" rfl, pStr_eq "DocSummary" rfl, pStr_eq "DocBefore" rfl,
    pStr_eq "DocAfter" rfl, pStr_eq "DocNote" rfl, ht, hi, hr]
  simp

theorem pGroups_eq : ∀ (gs : List RuleGroup), gs.all RuleGroup.wf = true → pGroups true gs = .ok (flatEl (gs.map LGroup) true)
  | [], _ => rfl
  | g :: gs, h => by
    have hh : g.wf = true ∧ gs.all RuleGroup.wf = true := by simpa using h
    have ih := pGroups_eq gs hh.2
    unfold pGroups
    rw [pGroup_eq g hh.1, ih]
    have : (g :: gs).map LGroup = [LGroup g] ++ gs.map LGroup := rfl
    rw [this, flatEl_append_true]

theorem printFile_eq (f : File) (h : wfFile f = true) : printFile f = .ok (flatten (LFile f)) := by
  unfold printFile printFileV LFile
  rw [pGroups_eq f.ruleGroups.elems h]
  have hg := pSlice_eq "RuleGroups" rfl false (irTy "RuleGroup") f.ruleGroups (f.ruleGroups.elems.map LGroup) (by simp)
  rw [tyToks_ir] at hg
  have hd : f.customDecls.elems.flatMap (fun s => [GTok.str s, GTok.comma]) = flatEl (f.customDecls.elems.map LStrElem) true :=
    flatMap_flatEl _ LStrElem (fun a => by simp [flatEl, flatten, LStrElem]) _
  have hb := flatMap_flatEl (pBundle true) LBundle pBundle_eq f.bundleImports.elems
  simp only [hg, hd, hb, flatten, otyToks, tyToks_ir, tyToks_string, flatEl_ents_cons2, flatEl_ent_some, sliceOpen]
  simp [qual, tyToks, irTy, stringTy]

end IRProofs
