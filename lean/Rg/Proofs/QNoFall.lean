import Rg.Proofs.QInv
/-! # The repaired `lastOp` bookkeeping is sound: no fall-through behind "unconditional" code -/
namespace Q
open SpecC04 (Val Env lookup tagOf evalExpr evalArgs evalCall callFn execStmt execBlock loop Flow Out.bind_eq_ok inScope_eq_ok)

macro "ucompS" " at " h:ident : tactic =>
  `(tactic| simp only [compS, compSs, bind, Option.bind_eq_bind, Option.bind_eq_some_iff, pure, Option.pure_def, Option.some.injEq,
      Prod.mk.injEq, Prod.exists] at $h:ident)

/-- with the repaired `lastOp` bookkeeping: a statement after which the compiler believes control cannot
continue (`lu' = true`) indeed never completes normally, unless that was already believed before it -/
theorem noFall {fx : Fixes} (hfx : FxOK fx) (cenv : CEnv) (fn : CFn) (P : SpecC04.Prog) (vd : Bool) : ∀ n,
    (∀ env s inLoop cs lu sis cs' env', compS fx cenv fn inLoop s cs lu = some (sis, cs', true) →
      execStmt P vd n env s = .ok (.next, env') → lu = true) ∧
    (∀ env ss inLoop cs lu sis cs' env', compSs fx cenv fn inLoop ss cs lu = some (sis, cs', true) →
      execBlock P vd n env ss = .ok (.next, env') → lu = true) := by
  intro n
  induction n with
  | zero => exact ⟨fun _ _ _ _ _ _ _ _ _ h => by simp [execStmt] at h, fun _ _ _ _ _ _ _ _ _ h => by simp [execBlock] at h⟩
  | succ n ih =>
    obtain ⟨ihS, ihB⟩ := ih
    refine ⟨?_, ?_⟩
    · intro env s inLoop cs lu sis cs' env' hc he
      cases s with
      | ret ty e =>
        simp only [execStmt] at he
        split at he
        · simp at he
        obtain ⟨v, _, he⟩ := Out.bind_eq_ok he
        split at he <;> simp [pure] at he
      | retNone => simp only [execStmt] at he; split at he <;> simp [pure] at he
      | brk => simp [execStmt, pure] at he
      | assign define lhs rhs => ucompS at hc; obtain ⟨_, _, _, _, _, _, _, _, h⟩ := hc; simp at h
      | assignBad => simp [compS] at hc
      | assignOp op name ty rhs => simp [compS, hfx.assignOp] at hc
      | incdec inc name =>
        simp only [compS] at hc
        split at hc
        · simp at hc
        · ucompS at hc; obtain ⟨_, _, _, _, h⟩ := hc; simp at h
      | incdecBad => simp [compS] at hc
      | ifThen c body => ucompS at hc; obtain ⟨_, _, _, _, _, _, _, _, _, h⟩ := hc; simp [hfx.ifJump] at h
      | ifElse c body els =>
        ucompS at hc; obtain ⟨_, _, _, _, _, _, _, _, _, _, _, _, _, h⟩ := hc; simp [hfx.ifJump] at h
      | ifInit i r => simp [compS, hfx.ifInit] at hc
      | forCond c body => ucompS at hc; obtain ⟨_, _, _, _, _, _, _, _, _, h⟩ := hc; simp at h
      | forEver body => ucompS at hc; obtain ⟨_, _, _, _, _, _, h⟩ := hc; simp [hfx.ifJump] at h
      | forClause hi hc' hp i c p b => simp only [compS, hfx.forClause] at hc; split at hc <;> simp at hc
      | exprCall e => ucompS at hc; obtain ⟨_, _, _, _, _, h⟩ := hc; simp at h
      | exprBad => simp [compS] at hc
      | block ss =>
        simp only [compS] at hc
        simp only [execStmt] at he
        obtain ⟨⟨f1, e1⟩, h1, he⟩ := Out.bind_eq_ok he
        simp [pure] at he
        obtain ⟨rfl, _⟩ := he
        exact ihB env ss inLoop cs lu sis cs' e1 hc h1
      | bad => simp [compS] at hc
    · intro env ss inLoop cs lu sis cs' env' hc he
      cases ss with
      | nil => simp [compSs] at hc; exact hc.2.2
      | cons s ss =>
        ucompS at hc
        obtain ⟨i1, s1, lu1, h1, i2, s2, lu2, h2, _, _, rfl⟩ := hc
        simp only [execBlock] at he
        obtain ⟨⟨f1, e1⟩, he1, he⟩ := Out.bind_eq_ok he
        split at he
        · rename_i heq; simp at heq; obtain ⟨rfl, rfl⟩ := heq
          have hl1 : lu1 = true := ihB _ ss inLoop s1 lu1 i2 s2 env' h2 he
          subst hl1
          exact ihS env s inLoop cs lu i1 s1 _ h1 he1
        · rename_i hne
          simp [pure] at he
          obtain ⟨rfl, rfl⟩ := he
          exact absurd rfl (hne _)

end Q
