import Rg.Spec.Walk
/-! Lemmas: when the table passes `tableOK`, the walker-shaped reference `specT` is the property-level
reference `specFull` on every well-typed tree (nothing skipped, nothing twice, source order). -/
namespace Walk

/-- skipping, from a duplicate-free list of fields, exactly fields that contribute nothing -/
theorem flatMap_sublist_of_nil {α β} [DecidableEq α] (g : α → List β) :
    ∀ {l₁ l₂ : List α}, l₁.Sublist l₂ → l₂.Nodup → (∀ s ∈ l₂, s ∉ l₁ → g s = []) →
      l₁.flatMap g = l₂.flatMap g := by
  intro l₁ l₂ h
  induction h with
  | slnil => intros; rfl
  | cons a hsub ih =>
    rename_i l₁ l₂
    intro hnd hnil
    have hnd' := (List.nodup_cons.mp hnd)
    have ha : a ∉ l₁ := fun hm => hnd'.1 (hsub.subset hm)
    rw [List.flatMap_cons, hnil a (by simp) ha, List.nil_append]
    exact ih hnd'.2 (fun s hs hns => hnil s (by simp [hs]) hns)
  | cons_cons a hsub ih =>
    rename_i l₁ l₂
    intro hnd hnil
    have hnd' := (List.nodup_cons.mp hnd)
    rw [List.flatMap_cons, List.flatMap_cons]
    congr 1
    apply ih hnd'.2
    intro s hs hns
    apply hnil s (by simp [hs])
    intro hm
    rcases List.mem_cons.mp hm with rfl | hm
    · exact hnd'.1 hs
    · exact hns hm

theorem flatMap_congr' {α β} {l : List α} {f g : α → List β} (h : ∀ a ∈ l, f a = g a) :
    l.flatMap f = l.flatMap g := by
  induction l with
  | nil => rfl
  | cons a l ih =>
    simp only [List.flatMap_cons]
    rw [h a (by simp), ih (fun b hb => h b (by simp [hb]))]

theorem tagFree_specFull (C : Cfg) (A : Nat → List Nat) (G : Nat → Option Nat) (c0 : Ctx0) :
    ∀ (n : Nat) (t : Tree), sizeOf t < n → ∀ chain, tagFree G t = true → specFull C A G c0 chain t = [] := by
  intro n
  induction n with
  | zero => intro t h; omega
  | succ n ih =>
    intro t hsz chain htf
    obtain ⟨k, id, slot, attr, kids⟩ := t
    rw [tagFree] at htf
    simp only [Bool.and_eq_true, List.all_eq_true] at htf
    rw [specFull]
    have hk : G k = none := by
      cases h : G k <;> simp [h] at htf ⊢
    simp only [hk, List.nil_append, List.flatMap_eq_nil_iff]
    intro c _
    apply ih
    · have := List.sizeOf_lt_of_mem c.2
      simp at hsz; omega
    · exact htf.2 c (List.mem_attach _ _)

theorem mem_slotKids' {α} {so : α → Nat} {s : Nat} {L : List α} {c : α} (h : c ∈ slotKids so s L) :
    so c = s := by
  simp [slotKids] at h; exact h.2

theorem specT_eq_specFull_aux (C : Cfg) (T : Nat → Row) (A : Nat → List Nat) (G : Nat → Option Nat)
    (c0 : Ctx0)
    (hsub : ∀ k, (effOrder C T k).Sublist (A k)) (hnd : ∀ k, (A k).Nodup) :
    ∀ (n : Nat) (t : Tree), sizeOf t < n → ∀ chain, clean C T G t = true →
      specT C T c0 chain t = specFull C A G c0 chain t := by
  intro n
  induction n with
  | zero => intro t h; omega
  | succ n ih =>
    intro t hsz chain hcl
    obtain ⟨k, id, slot, attr, kids⟩ := t
    rw [clean] at hcl
    simp only [Bool.and_eq_true, List.all_eq_true, beq_iff_eq] at hcl
    obtain ⟨htag, hkids⟩ := hcl
    rw [specT, specFull, htag]
    congr 1
    -- children
    simp only [orderedKids, List.flatMap_assoc]
    have step1 : ∀ s ∈ effOrder C T k,
        (slotKids (fun c : { c // c ∈ kids } => c.1.slot) s kids.attach).flatMap
          (fun c => specT C T c0 (⟨k, id, attr, c.1.slot⟩ :: chain) c.1) =
        (slotKids (fun c : { c // c ∈ kids } => c.1.slot) s kids.attach).flatMap
          (fun c => specFull C A G c0 (⟨k, id, attr, c.1.slot⟩ :: chain) c.1) := by
      intro s hs
      apply flatMap_congr'
      intro c hc
      have hslot : c.1.slot = s := mem_slotKids' (so := fun c : { c // c ∈ kids } => c.1.slot) hc
      apply ih
      · have := List.sizeOf_lt_of_mem c.2
        simp at hsz; omega
      · have := hkids c (List.mem_attach _ _)
        have hin : c.1.slot ∈ effOrder C T k := by
          rw [hslot]; exact hs
        simpa [hin] using this
    rw [flatMap_congr' step1]
    apply flatMap_sublist_of_nil _ (hsub k) (hnd k)
    intro s _ hns
    rw [List.flatMap_eq_nil_iff]
    intro c hc
    have hslot : c.1.slot = s := mem_slotKids' (so := fun c : { c // c ∈ kids } => c.1.slot) hc
    apply tagFree_specFull C A G c0 (sizeOf c.1 + 1) c.1 (by omega)
    have := hkids c (List.mem_attach _ _)
    have hin : c.1.slot ∉ effOrder C T k := by
      rw [hslot]; exact hns
    simpa [hin] using this

theorem specT_eq_specFull (C : Cfg) (T : Nat → Row) (A : Nat → List Nat) (G : Nat → Option Nat)
    (c0 : Ctx0) (hsub : ∀ k, (effOrder C T k).Sublist (A k)) (hnd : ∀ k, (A k).Nodup)
    (t : Tree) (chain : List Anc) (hcl : clean C T G t = true) :
    specT C T c0 chain t = specFull C A G c0 chain t :=
  specT_eq_specFull_aux C T A G c0 hsub hnd (sizeOf t + 1) t (by omega) chain hcl

/-! ### from the decidable table check to the hypotheses above -/

theorem rowOK_of_tableOK {C : Cfg} {tb : Tables} (h : tableOK C tb = true) {k : Nat} (hk : k < tb.n) :
    rowOK C tb k = true := by
  simp only [tableOK, Bool.and_eq_true, List.all_eq_true, List.mem_range] at h
  exact h.2 k hk

theorem nodup_of_count {l : List Nat} (h : l.all (fun s => l.count s == 1) = true) : l.Nodup := by
  rw [List.nodup_iff_count]
  intro a
  by_cases ha : a ∈ l
  · simp only [List.all_eq_true, beq_iff_eq] at h
    rw [h a ha]; exact Nat.le_refl 1
  · rw [List.count_eq_zero_of_not_mem ha]; omega

/-- out-of-table kinds: empty row, no Inspect fields -/
theorem effOrder_sublist_of_tableOK {C : Cfg} {tb : Tables} (h : tableOK C tb = true)
    (hif : C.ifKind < tb.n) (k : Nat) : (effOrder C tb.T k).Sublist (tb.A k) := by
  by_cases hk : k < tb.n
  · have := rowOK_of_tableOK h hk
    simp only [rowOK, Bool.and_eq_true] at this
    exact List.isSublist_iff_sublist.mp this.1.1.2
  · have hne : k ≠ C.ifKind := fun e => hk (e ▸ hif)
    have hr : tb.T k = { tag := none, order := [] } := by
      simp only [Tables.T, Tables.n] at hk ⊢
      rw [List.getD_eq_getElem?_getD, List.getElem?_eq_none (by omega)]; rfl
    simp [effOrder, hne, hr]

theorem nodup_of_tableOK {C : Cfg} {tb : Tables} (h : tableOK C tb = true)
    (hlen : tb.insp.length = tb.n) (k : Nat) : (tb.A k).Nodup := by
  by_cases hk : k < tb.n
  · have := rowOK_of_tableOK h hk
    simp only [rowOK, Bool.and_eq_true] at this
    exact nodup_of_count this.1.2
  · have : tb.A k = [] := by
      simp only [Tables.A]
      rw [List.getD_eq_getElem?_getD, List.getElem?_eq_none (by omega)]; rfl
    rw [this]; exact List.nodup_nil

theorem tagFree_of_cert (tb : Tables) (hc : certOK tb = true) :
    ∀ (n : Nat) (t : Tree), sizeOf t < n → wellTyped tb t = true →
      tb.tagFreeKinds.contains t.kind = true → tagFree tb.G t = true := by
  intro n
  induction n with
  | zero => intro t h; omega
  | succ n ih =>
    intro t hsz hwt hin
    obtain ⟨k, id, slot, attr, kids⟩ := t
    rw [wellTyped] at hwt
    simp only [Bool.and_eq_true, List.all_eq_true, decide_eq_true_eq] at hwt
    simp only [Tree.kind] at hin
    simp only [certOK, List.all_eq_true, Bool.and_eq_true] at hc
    have hkin : k ∈ tb.tagFreeKinds := by simpa using hin
    have hck := hc k hkin
    rw [tagFree]
    simp only [Bool.and_eq_true, List.all_eq_true]
    refine ⟨hck.1, ?_⟩
    intro c _
    have hcw := hwt.2 c (List.mem_attach _ _)
    apply ih
    · have := List.sizeOf_lt_of_mem c.2
      simp at hsz; omega
    · exact hcw.2
    · have hs : c.1.slot ∈ tb.A k := by simpa using hcw.1.1
      have hkd : c.1.kind ∈ tb.K k c.1.slot := by simpa using hcw.1.2
      exact hck.2 _ hs _ hkd

theorem clean_of_tableOK (C : Cfg) (tb : Tables) (h : tableOK C tb = true) :
    ∀ (n : Nat) (t : Tree), sizeOf t < n → wellTyped tb t = true → clean C tb.T tb.G t = true := by
  intro n
  induction n with
  | zero => intro t h; omega
  | succ n ih =>
    intro t hsz hwt
    obtain ⟨k, id, slot, attr, kids⟩ := t
    have hwt0 := hwt
    rw [wellTyped] at hwt
    simp only [Bool.and_eq_true, List.all_eq_true, decide_eq_true_eq] at hwt
    have hrow := rowOK_of_tableOK h hwt.1
    simp only [rowOK, Bool.and_eq_true, List.all_eq_true, Bool.or_eq_true] at hrow
    have hcert : certOK tb = true := by
      simp only [tableOK, Bool.and_eq_true] at h; exact h.1
    rw [clean]
    simp only [Bool.and_eq_true, List.all_eq_true]
    refine ⟨hrow.1.1.1, ?_⟩
    intro c _
    have hcw := hwt.2 c (List.mem_attach _ _)
    have hlt : sizeOf c.1 < n := by
      have := List.sizeOf_lt_of_mem c.2
      simp at hsz; omega
    split
    · exact ih c.1 hlt hcw.2
    · rename_i hnot
      have hs : c.1.slot ∈ tb.A k := by simpa using hcw.1.1
      have hkd : c.1.kind ∈ tb.K k c.1.slot := by simpa using hcw.1.2
      rcases hrow.2 _ hs with hyes | hfree
      · exact absurd hyes hnot
      · apply tagFree_of_cert tb hcert (sizeOf c.1 + 1) c.1 (by omega) hcw.2
        exact hfree _ hkd

end Walk
