import Rg.Proofs.XTypes
/-! `xtypes.Implements` against `go/types.Implements`, given agreement of `Identical` on the probed method types -/
open XTypes SpecC14

namespace XTypes

def toSpecFound : XTypes.Found → SpecC14.Found
  | .none => .none | .field => .field | .func => .func

def toSpecProbe (p : Probe) : SpecC14.Found × Ty × Ty := (toSpecFound p.found, p.objTy, p.mTy)

theorem implements_eq (fx cross e vi : Bool) (ps : List Probe)
    (hid : ∀ p ∈ ps, tid fx p.objTy p.mTy = specId cross p.objTy p.mTy)
    (hvi : vi = true → ∀ p ∈ ps, p.found ≠ .field) :
    implements fx e vi ps = specImplements cross e (ps.map toSpecProbe) := by
  unfold implements specImplements
  cases e
  · simp only [Bool.false_eq_true, if_false, Bool.false_or]
    induction ps with
    | nil => cases vi <;> rfl
    | cons p ps ih =>
      have ih' := ih (fun q hq => hid q (List.mem_cons_of_mem _ hq)) (fun h q hq => hvi h q (List.mem_cons_of_mem _ hq))
      have hp := hid p (List.mem_cons_self ..)
      cases vi
      · simp only [Bool.false_eq_true, if_false, List.all_cons, List.map_cons] at ih' ⊢
        rw [ih', hp]
        cases h : p.found <;> simp [toSpecProbe, toSpecFound, h] <;> rfl
      · have hf := hvi rfl p (List.mem_cons_self ..)
        simp only [if_true, List.all_cons, List.map_cons] at ih' ⊢
        rw [ih', hp]
        cases h : p.found <;> simp_all [toSpecProbe, toSpecFound] <;> rfl
  · simp

end XTypes
