import Rg.Proofs.GoLit
import Rg.Proofs.FilterOpsTable
/-!
# `evalLit ∘ printFile = normalize` — the typed half of the round trip

* `ents xs`   : the elements of a keyed struct literal, from a list of (key, optional value)
* `L…`        : the literal tree `printFile` (fixed variant) writes for each IR type
* part B      : `interp… (L… x) = some (norm x)`
* part C      : `p… true x = .ok (flatEl [L… x] true)` (the printer writes exactly that tree)
-/
namespace IRProofs
open SpecC05 IR GoLit

/-! ## keyed elements -/

abbrev Spec := List (String × Option Lit)

def ents (xs : Spec) : List Lit := xs.filterMap (fun p => p.2.map (Lit.keyed p.1))
def pairs (xs : Spec) : List (String × Lit) := xs.filterMap (fun p => p.2.map (fun v => (p.1, v)))

theorem ents_append (a b : Spec) : ents (a ++ b) = ents a ++ ents b := by simp [ents]

theorem kvsOf_ents : ∀ xs : Spec, kvsOf (ents xs) = some (pairs xs)
  | [] => rfl
  | (k, none) :: xs => by simpa [ents, pairs] using kvsOf_ents xs
  | (k, some v) :: xs => by
    have ih := kvsOf_ents xs
    simp only [ents, pairs] at ih ⊢
    simp [kvsOf, ih]

theorem mem_pairs_key {xs : Spec} {kv : String × Lit} (h : kv ∈ pairs xs) : kv.1 ∈ xs.map (·.1) := by
  simp only [pairs, List.mem_filterMap] at h
  obtain ⟨p, hp, hv⟩ := h
  cases hpo : p.2 with
  | none => simp [hpo] at hv
  | some v =>
    simp [hpo] at hv
    subst hv
    exact List.mem_map.mpr ⟨p, hp, rfl⟩

theorem nodupKeys_pairs : ∀ xs : Spec, (xs.map (·.1)).Nodup → nodupKeys (pairs xs) = true
  | [], _ => rfl
  | (k, none) :: xs, h => by
    have := nodupKeys_pairs xs (List.nodup_cons.mp h).2
    simpa [pairs] using this
  | (k, some v) :: xs, h => by
    have hn := List.nodup_cons.mp h
    have ih := nodupKeys_pairs xs hn.2
    have : pairs ((k, some v) :: xs) = (k, v) :: pairs xs := by simp [pairs]
    rw [this]
    simp only [nodupKeys, ih, Bool.and_true, Bool.not_eq_true', List.any_eq_false]
    intro kv hkv
    have hm := mem_pairs_key hkv
    intro heq
    have hk : kv.1 = k := by simpa using heq
    rw [hk] at hm
    exact hn.1 hm

theorem allowed_pairs (fields : List String) (xs : Spec) (h : ∀ k ∈ xs.map (·.1), fields.contains k = true) :
    (pairs xs).all (fun kv => fields.contains kv.1) = true := by
  rw [List.all_eq_true]
  intro kv hkv
  exact h _ (mem_pairs_key hkv)

theorem lookup_pairs_none (k : String) : ∀ xs : Spec, k ∉ xs.map (·.1) → (pairs xs).lookup k = none
  | [], _ => rfl
  | (k', o) :: xs, h => by
    have hk : k ≠ k' := by intro e; apply h; simp [e]
    have hx : k ∉ xs.map (·.1) := by intro e; apply h; simp [e]
    have ih := lookup_pairs_none k xs hx
    cases o with
    | none => simpa [pairs] using ih
    | some v =>
      have : pairs ((k', some v) :: xs) = (k', v) :: pairs xs := by simp [pairs]
      rw [this, List.lookup_cons]
      have : (k == k') = false := by simpa using hk
      rw [this]; exact ih

theorem lookup_pairs (k : String) : ∀ xs : Spec, (xs.map (·.1)).Nodup →
    (pairs xs).lookup k = (xs.lookup k).bind id
  | [], _ => rfl
  | (k', o) :: xs, h => by
    have hn := List.nodup_cons.mp h
    have ih := lookup_pairs k xs hn.2
    by_cases hk : k = k'
    · subst hk
      cases o with
      | none =>
        have : pairs ((k, none) :: xs) = pairs xs := by simp [pairs]
        rw [this, lookup_pairs_none k xs hn.1]
        simp [List.lookup_cons]
      | some v =>
        have : pairs ((k, some v) :: xs) = (k, v) :: pairs xs := by simp [pairs]
        rw [this]
        simp [List.lookup_cons]
    · have hb : (k == k') = false := by simpa using hk
      cases o with
      | none =>
        have : pairs ((k', none) :: xs) = pairs xs := by simp [pairs]
        rw [this, ih]
        simp [List.lookup_cons, hb]
      | some v =>
        have : pairs ((k', some v) :: xs) = (k', v) :: pairs xs := by simp [pairs]
        rw [this]
        simp [List.lookup_cons, hb, ih]

/-- reading a field from an optional entry -/
def rd {α} (conv : Lit → Option α) (zero : α) : Option Lit → Option α
  | none => some zero
  | some l => conv l

theorem field_pairs {α} (conv : Lit → Option α) (zero : α) (k : String) (xs : Spec)
    (h : (xs.map (·.1)).Nodup) : field conv zero k (pairs xs) = rd conv zero ((xs.lookup k).bind id) := by
  unfold field
  rw [lookup_pairs k xs h]
  cases (xs.lookup k).bind id <;> rfl

theorem structKVs_ents (name : String) (elided : Bool) (fields : List String) (ty : Option Ty) (xs : Spec) (tc : Bool)
    (hty : tyIs ty name elided = true) (hnd : (xs.map (·.1)).Nodup) (hal : ∀ k ∈ xs.map (·.1), fields.contains k = true) :
    structKVs name elided fields (.comp ty (ents xs) tc) = some (pairs xs) := by
  show (if tyIs ty name elided = true then
        match kvsOf (ents xs) with
        | some kvs => if (nodupKeys kvs && kvs.all fun kv => fields.contains kv.fst) = true then some kvs else none
        | none => none
      else none) = some (pairs xs)
  rw [if_pos hty, kvsOf_ents]
  simp only [nodupKeys_pairs xs hnd, allowed_pairs fields xs hal, Bool.and_self, if_true]

/-- side conditions about the (literal) keys of a struct -/
macro "keys_dec" : tactic => `(tactic| (simp only [List.map]; decide))

/-! ## optional values -/

def oInt (n : Int) : Option Lit := if n == 0 then none else some (.int n)
def oStr (b : Bytes) : Option Lit := if b.isEmpty then none else some (.str b)
def oOp (op : Nat) : Option Lit := if op == 0 then none else some (.sel "ir" (opIdent op))
def oVal : Val → Option Lit
  | .nil => none
  | .str b => some (.str b)
  | .int64 n => some (.conv "int64" n)

theorem rd_oInt (n : Int) : rd asInt 0 (oInt n) = some n := by
  unfold oInt
  by_cases h : n = 0
  · subst h; rfl
  · have : (n == 0) = false := by simpa using h
    simp [this, rd, asInt]

theorem rd_oStr (b : Bytes) : rd asStr [] (oStr b) = some b := by
  unfold oStr
  cases b with
  | nil => rfl
  | cons x xs => simp [rd, asStr]

theorem rd_some {α} (conv : Lit → Option α) (zero : α) (l : Lit) : rd conv zero (some l) = conv l := rfl

def oSlice (ty : Ty) (isNil : Bool) (es : List Lit) (tc : Bool) : Option Lit :=
  if isNil then none else some (.comp (some (.slice ty)) es tc)

theorem mapAll_map {α β} (conv : Lit → Option β) (L : α → Lit) (N : α → β) :
    ∀ l : List α, (∀ a ∈ l, conv (L a) = some (N a)) → mapAll conv (l.map L) = some (l.map N)
  | [], _ => rfl
  | a :: l, h => by
    have h1 := h a (by simp)
    have h2 := mapAll_map conv L N l (fun b hb => h b (by simp [hb]))
    simp [mapAll, h1, h2]

theorem isNil_elems {α} (s : Sl α) (h : s.isNil = true) : s.elems = [] := by
  unfold Sl.isNil at h
  cases hs : s.elems with
  | nil => rfl
  | cons _ _ => simp [hs] at h

theorem rd_oSlice {α β} (ty : Ty) (conv : Lit → Option β) (L : α → Lit) (N : α → β) (s : Sl α) (tc : Bool)
    (h : ∀ a ∈ s.elems, conv (L a) = some (N a)) :
    rd (sliceOf ty conv) Sl.nil (oSlice ty s.isNil (s.elems.map L) tc) = some ⟨s.elems.map N, false⟩ := by
  unfold oSlice
  by_cases hn : s.isNil = true
  · rw [if_pos hn, isNil_elems s hn]; rfl
  · rw [if_neg hn]
    show sliceOf ty conv (.comp (some (.slice ty)) (s.elems.map L) tc) = _
    simp [sliceOf, mapAll_map conv L N s.elems h]

/-! ## the literal trees of the leaf structs, and their interpretation -/

def elTy (inList : Bool) (name : String) : Option Ty := if inList then none else some (irTy name)

theorem tyIs_elTy (inList elided : Bool) (name : String) (h : inList = true → elided = true) :
    tyIs (elTy inList name) name elided = true := by
  cases inList <;> simp [elTy, tyIs, irTy] ; simpa using h

def LPattern (p : PatternString) : Lit :=
  .comp none (ents [("Line", some (.int p.line)), ("Value", some (.str p.value))]) false

theorem interp_LPattern (p : PatternString) : interpPattern true (LPattern p) = some p := by
  unfold interpPattern LPattern
  have hnd : (([("Line", some (Lit.int p.line)), ("Value", some (Lit.str p.value))] : Spec).map (·.1)).Nodup := by keys_dec
  rw [structKVs_ents _ _ _ _ _ _ rfl hnd (by keys_dec)]
  simp only [field_pairs _ _ _ _ hnd]
  simp [List.lookup, rd, asInt, asStr]

def LImport (i : PackageImport) : Lit :=
  .comp none (ents [("Path", oStr i.path), ("Name", oStr i.name)]) true

theorem interp_LImport (i : PackageImport) : interpImport true (LImport i) = some i := by
  unfold interpImport LImport
  have hnd : (([("Path", oStr i.path), ("Name", oStr i.name)] : Spec).map (·.1)).Nodup := by keys_dec
  rw [structKVs_ents _ _ _ _ _ _ rfl hnd (by keys_dec)]
  simp only [field_pairs _ _ _ _ hnd]
  simp [List.lookup, rd_oStr]

def LBundle (b : BundleImport) : Lit :=
  .comp none (ents [("Line", some (.int b.line)), ("PkgPath", some (.str b.pkgPath)), ("Prefix", some (.str b.pfx))]) false

theorem interp_LBundle (b : BundleImport) : interpBundle true (LBundle b) = some b := by
  unfold interpBundle LBundle
  have hnd : (([("Line", some (Lit.int b.line)), ("PkgPath", some (Lit.str b.pkgPath)), ("Prefix", some (Lit.str b.pfx))] : Spec).map (·.1)).Nodup := by keys_dec
  rw [structKVs_ents _ _ _ _ _ _ rfl hnd (by keys_dec)]
  simp only [field_pairs _ _ _ _ hnd]
  simp [List.lookup, rd, asInt, asStr]

/-! ## the op-name table -/

theorem lookup_mem {α β} [BEq α] [LawfulBEq α] (k : α) (v : β) : ∀ l : List (α × β), l.lookup k = some v → (k, v) ∈ l
  | [], h => by simp at h
  | (k', v') :: l, h => by
    rw [List.lookup_cons] at h
    by_cases hk : (k == k') = true
    · rw [hk] at h
      have : k = k' := by simpa using hk
      subst this
      have : v' = v := by simpa using h
      subst this
      simp
    · have hk' : (k == k') = false := by simpa using hk
      rw [hk'] at h
      exact List.mem_cons_of_mem _ (lookup_mem k v l h)

theorem asOp_opIdent (o : Nat) (h : (Gen.irOpNames.lookup o).isSome = true) :
    asOp (.sel "ir" (opIdent o)) = some o := by
  obtain ⟨nm, hnm⟩ := Option.isSome_iff_exists.mp h
  have hm := lookup_mem o nm _ hnm
  have := opOfIdent_table (o, nm) hm
  show opOfIdent (opIdent o) = some o
  unfold opIdent opName
  rw [hnm]
  exact this

theorem rd_oOp (o : Nat) (h : (Gen.irOpNames.lookup o).isSome = true) : rd asOp 0 (oOp o) = some o := by
  unfold oOp
  by_cases h0 : o = 0
  · subst h0; rfl
  · have : (o == 0) = false := by simpa using h0
    rw [this]; exact asOp_opIdent o h

/-! ## FilterExpr -/

/-- `tc` of a printed slice with `n` elements (fixed printer: every element is printed) -/
def sliceTc (strElems : Bool) (n : Nat) : Bool := !(isCompactSlice strElems n) || n == 0

def valStr : Val → Bytes
  | .str b => b
  | _ => []

mutual
def LFilter (inList : Bool) : FilterExpr → Lit
  | .mk l o s v as nn =>
    if isCompactOp o then
      .comp (elTy inList "FilterExpr")
        (ents [("Line", some (.int l)), ("Op", some (.sel "ir" (opIdent o))), ("Src", some (.str s)),
               ("Value", some (.str (valStr v)))]) false
    else
      .comp (elTy inList "FilterExpr")
        (ents [("Line", oInt l), ("Op", oOp o), ("Src", oStr s), ("Value", oVal v),
               ("Args", oSlice (irTy "FilterExpr") (as.isEmpty && !nn) (LFilterList as) (sliceTc false as.length))]) true
def LFilterList : List FilterExpr → List Lit
  | [] => []
  | a :: as => LFilter true a :: LFilterList as
end

theorem iff_nil (seen : List String) (acc : FilterExpr) : interpFilterFields [] seen acc = some acc := by
  unfold interpFilterFields; rfl

theorem iff_line (rest : List Lit) (seen : List String) (l : Int) (o : Nat) (s : Bytes) (vl : Val) (as : List FilterExpr) (nn : Bool)
    (n : Int) (h : "Line" ∉ seen) :
    interpFilterFields (.keyed "Line" (.int n) :: rest) seen (.mk l o s vl as nn)
      = interpFilterFields rest ("Line" :: seen) (.mk n o s vl as nn) := by
  conv => lhs; unfold interpFilterFields
  simp [h, asInt]

theorem iff_op (rest : List Lit) (seen : List String) (l : Int) (o : Nat) (s : Bytes) (vl : Val) (as : List FilterExpr) (nn : Bool)
    (v : Lit) (n : Nat) (hv : asOp v = some n) (h : "Op" ∉ seen) :
    interpFilterFields (.keyed "Op" v :: rest) seen (.mk l o s vl as nn)
      = interpFilterFields rest ("Op" :: seen) (.mk l n s vl as nn) := by
  conv => lhs; unfold interpFilterFields
  simp [h, hv]

theorem iff_src (rest : List Lit) (seen : List String) (l : Int) (o : Nat) (s : Bytes) (vl : Val) (as : List FilterExpr) (nn : Bool)
    (b : Bytes) (h : "Src" ∉ seen) :
    interpFilterFields (.keyed "Src" (.str b) :: rest) seen (.mk l o s vl as nn)
      = interpFilterFields rest ("Src" :: seen) (.mk l o b vl as nn) := by
  conv => lhs; unfold interpFilterFields
  simp [h, asStr]

theorem iff_value (rest : List Lit) (seen : List String) (l : Int) (o : Nat) (s : Bytes) (vl : Val) (as : List FilterExpr) (nn : Bool)
    (v : Lit) (x : Val) (hv : asVal v = some x) (h : "Value" ∉ seen) :
    interpFilterFields (.keyed "Value" v :: rest) seen (.mk l o s vl as nn)
      = interpFilterFields rest ("Value" :: seen) (.mk l o s x as nn) := by
  conv => lhs; unfold interpFilterFields
  simp [h, hv]

theorem iff_args (rest : List Lit) (seen : List String) (l : Int) (o : Nat) (s : Bytes) (vl : Val) (as : List FilterExpr) (nn : Bool)
    (es : List Lit) (tc : Bool) (as' : List FilterExpr) (hv : interpFilterList es = some as') (h : "Args" ∉ seen) :
    interpFilterFields (.keyed "Args" (.comp (some (.slice (.named "ir" "FilterExpr"))) es tc) :: rest) seen (.mk l o s vl as nn)
      = interpFilterFields rest ("Args" :: seen) (.mk l o s vl as' false) := by
  conv => lhs; unfold interpFilterFields
  simp [h, hv]

theorem ents_cons_none (k : String) (xs : Spec) : ents ((k, none) :: xs) = ents xs := rfl
theorem ents_cons_some (k : String) (v : Lit) (xs : Spec) : ents ((k, some v) :: xs) = .keyed k v :: ents xs := rfl

section chain
variable (as : List FilterExpr) (nn : Bool) (tc : Bool)
variable (hA : interpFilterList (LFilterList as) = some (FilterExpr.normList as))
include hA

theorem chain5 (seen : List String) (l : Int) (o : Nat) (s : Bytes) (vl : Val) (h : "Args" ∉ seen) :
    interpFilterFields (ents [("Args", oSlice (irTy "FilterExpr") (as.isEmpty && !nn) (LFilterList as) tc)]) seen (.mk l o s vl [] false)
      = some (.mk l o s vl (FilterExpr.normList as) false) := by
  unfold oSlice
  by_cases hn : (as.isEmpty && !nn) = true
  · rw [if_pos hn, ents_cons_none]
    have : as = [] := by
      cases as with
      | nil => rfl
      | cons _ _ => simp at hn
    subst this
    show interpFilterFields [] _ _ = _
    rw [iff_nil]; rfl
  · rw [if_neg hn, ents_cons_some]
    show interpFilterFields (.keyed "Args" (.comp (some (.slice (.named "ir" "FilterExpr"))) (LFilterList as) tc) :: []) _ _ = _
    rw [iff_args _ _ _ _ _ _ _ _ _ _ _ hA h, iff_nil]

theorem chain4 (v : Val) (seen : List String) (l : Int) (o : Nat) (s : Bytes) (h4 : "Value" ∉ seen) (h5 : "Args" ∉ seen) :
    interpFilterFields (ents [("Value", oVal v),
        ("Args", oSlice (irTy "FilterExpr") (as.isEmpty && !nn) (LFilterList as) tc)]) seen (.mk l o s .nil [] false)
      = some (.mk l o s v (FilterExpr.normList as) false) := by
  cases v with
  | nil => rw [show oVal .nil = none from rfl, ents_cons_none]; exact chain5 as nn tc hA seen l o s .nil h5
  | str b =>
    rw [show oVal (.str b) = some (.str b) from rfl, ents_cons_some, iff_value _ _ _ _ _ _ _ _ _ (.str b) rfl h4]
    exact chain5 as nn tc hA _ l o s _ (by simp [h5])
  | int64 n =>
    rw [show oVal (.int64 n) = some (.conv "int64" n) from rfl, ents_cons_some, iff_value _ _ _ _ _ _ _ _ _ (.int64 n) rfl h4]
    exact chain5 as nn tc hA _ l o s _ (by simp [h5])

theorem chain3 (v : Val) (s : Bytes) (seen : List String) (l : Int) (o : Nat)
    (h3 : "Src" ∉ seen) (h4 : "Value" ∉ seen) (h5 : "Args" ∉ seen) :
    interpFilterFields (ents [("Src", oStr s), ("Value", oVal v),
        ("Args", oSlice (irTy "FilterExpr") (as.isEmpty && !nn) (LFilterList as) tc)]) seen (.mk l o [] .nil [] false)
      = some (.mk l o s v (FilterExpr.normList as) false) := by
  cases s with
  | nil => rw [show oStr [] = none from rfl, ents_cons_none]; exact chain4 as nn tc hA v seen l o [] h4 h5
  | cons x xs =>
    rw [show oStr (x :: xs) = some (.str (x :: xs)) from rfl, ents_cons_some, iff_src _ _ _ _ _ _ _ _ _ h3]
    exact chain4 as nn tc hA v _ l o _ (by simp [h4]) (by simp [h5])

theorem chain2 (v : Val) (s : Bytes) (o : Nat) (ho : (Gen.irOpNames.lookup o).isSome = true) (seen : List String) (l : Int)
    (h2 : "Op" ∉ seen) (h3 : "Src" ∉ seen) (h4 : "Value" ∉ seen) (h5 : "Args" ∉ seen) :
    interpFilterFields (ents [("Op", oOp o), ("Src", oStr s), ("Value", oVal v),
        ("Args", oSlice (irTy "FilterExpr") (as.isEmpty && !nn) (LFilterList as) tc)]) seen (.mk l 0 [] .nil [] false)
      = some (.mk l o s v (FilterExpr.normList as) false) := by
  by_cases h0 : o = 0
  · subst h0
    rw [show oOp 0 = none from rfl, ents_cons_none]; exact chain3 as nn tc hA v s seen l 0 h3 h4 h5
  · have hb : (o == 0) = false := by simpa using h0
    have : oOp o = some (.sel "ir" (opIdent o)) := by unfold oOp; rw [hb]; rfl
    rw [this, ents_cons_some, iff_op _ _ _ _ _ _ _ _ _ o (asOp_opIdent o ho) h2]
    exact chain3 as nn tc hA v s _ l o (by simp [h3]) (by simp [h4]) (by simp [h5])

theorem chain1 (v : Val) (s : Bytes) (o : Nat) (ho : (Gen.irOpNames.lookup o).isSome = true) (l : Int) :
    interpFilterFields (ents [("Line", oInt l), ("Op", oOp o), ("Src", oStr s), ("Value", oVal v),
        ("Args", oSlice (irTy "FilterExpr") (as.isEmpty && !nn) (LFilterList as) tc)]) [] FilterExpr.zero
      = some (.mk l o s v (FilterExpr.normList as) false) := by
  by_cases h0 : l = 0
  · subst h0
    rw [show oInt 0 = none from rfl, ents_cons_none]
    exact chain2 as nn tc hA v s o ho [] 0 (by simp) (by simp) (by simp) (by simp)
  · have hb : (l == 0) = false := by simpa using h0
    have : oInt l = some (.int l) := by unfold oInt; rw [hb]; rfl
    rw [this, ents_cons_some]
    show interpFilterFields _ [] (.mk 0 0 [] .nil [] false) = _
    rw [iff_line _ _ _ _ _ _ _ _ _ (by simp)]
    exact chain2 as nn tc hA v s o ho _ l (by simp) (by simp) (by simp) (by simp)
end chain

theorem interpFilter_comp (elided : Bool) (ty : Option Ty) (es : List Lit) (tc : Bool)
    (h : tyIs ty "FilterExpr" elided = true) :
    interpFilter elided (.comp ty es tc) = interpFilterFields es [] FilterExpr.zero := by
  conv => lhs; unfold interpFilter
  simp [h]

theorem wf_mk (l : Int) (o : Nat) (s : Bytes) (v : Val) (as : List FilterExpr) (nn : Bool)
    (h : (FilterExpr.mk l o s v as nn).wf = true) :
    (Gen.irOpNames.lookup o).isSome = true ∧
    (isCompactOp o = true → (∃ b, v = .str b) ∧ as = []) ∧ FilterExpr.wfList as = true := by
  unfold FilterExpr.wf at h
  simp only [Bool.and_eq_true] at h
  refine ⟨h.1.1, ?_, h.2⟩
  intro hc
  have h2 := h.1.2
  rw [if_pos hc] at h2
  simp only [Bool.and_eq_true] at h2
  constructor
  · cases v with
    | str b => exact ⟨b, rfl⟩
    | nil => simp at h2
    | int64 n => simp at h2
  · cases as with
    | nil => rfl
    | cons _ _ => simp at h2

mutual
theorem interp_LFilter : ∀ (e : FilterExpr) (inList elided : Bool), (inList = true → elided = true) → e.wf = true →
    interpFilter elided (LFilter inList e) = some e.norm
  | .mk l o s v as nn, inList, elided, hie, hwf => by
    obtain ⟨ho, hcomp, hwl⟩ := wf_mk l o s v as nn hwf
    have hty := tyIs_elTy inList elided "FilterExpr" hie
    unfold LFilter
    by_cases hc : isCompactOp o = true
    · obtain ⟨⟨b, hb⟩, has⟩ := hcomp hc
      subst hb; subst has
      rw [if_pos hc, interpFilter_comp _ _ _ _ hty]
      simp only [ents_cons_some, valStr]
      show interpFilterFields _ [] (.mk 0 0 [] .nil [] false) = _
      rw [iff_line _ _ _ _ _ _ _ _ _ (by simp), iff_op _ _ _ _ _ _ _ _ _ o (asOp_opIdent o ho) (by simp),
        iff_src _ _ _ _ _ _ _ _ _ (by simp), iff_value _ _ _ _ _ _ _ _ _ (.str b) rfl (by simp)]
      show interpFilterFields [] _ _ = _
      rw [iff_nil]
      simp [FilterExpr.norm, FilterExpr.normList]
    · rw [if_neg hc, interpFilter_comp _ _ _ _ hty]
      have hA := interp_LFilterList as hwl
      rw [chain1 as nn _ hA v s o ho l]
      simp [FilterExpr.norm]
theorem interp_LFilterList : ∀ (as : List FilterExpr), FilterExpr.wfList as = true →
    interpFilterList (LFilterList as) = some (FilterExpr.normList as)
  | [], _ => by
    unfold LFilterList interpFilterList FilterExpr.normList; rfl
  | a :: as, h => by
    have hh : a.wf = true ∧ FilterExpr.wfList as = true := by
      unfold FilterExpr.wfList at h; simpa using h
    have h1 := interp_LFilter a true true (fun _ => rfl) hh.1
    have h2 := interp_LFilterList as hh.2
    unfold LFilterList interpFilterList FilterExpr.normList
    simp [h1, h2]
end

/-! ## Rule, RuleGroup, File -/

def oFilter (e : FilterExpr) : Option Lit := if e.isZero then none else some (LFilter false e)

theorem isZero_eq (e : FilterExpr) (h : e.isZero = true) : e = FilterExpr.zero := by
  cases e with
  | mk l o s v as nn =>
    simp only [FilterExpr.isZero, Bool.and_eq_true, beq_iff_eq, List.isEmpty_iff, Bool.not_eq_true'] at h
    obtain ⟨⟨⟨⟨h1, h2⟩, h3⟩, h4⟩, h5, h6⟩ := h
    subst h1 h2 h3 h5 h6
    cases v <;> simp [Val.isZero] at h4
    rfl

theorem rd_oFilter (e : FilterExpr) (h : e.wf = true) :
    rd (interpFilter false) FilterExpr.zero (oFilter e) = some e.norm := by
  unfold oFilter
  by_cases hz : e.isZero = true
  · rw [if_pos hz, isZero_eq e hz]; rfl
  · rw [if_neg hz]
    exact interp_LFilter e false false (by simp) h

def LRule (r : Rule) : Lit :=
  .comp none (ents [
    ("Line", oInt r.line),
    ("SyntaxPatterns", oSlice (irTy "PatternString") r.syntaxPatterns.isNil (r.syntaxPatterns.elems.map LPattern) (sliceTc false r.syntaxPatterns.elems.length)),
    ("CommentPatterns", oSlice (irTy "PatternString") r.commentPatterns.isNil (r.commentPatterns.elems.map LPattern) (sliceTc false r.commentPatterns.elems.length)),
    ("ReportTemplate", oStr r.reportTemplate),
    ("SuggestTemplate", oStr r.suggestTemplate),
    ("DoFuncName", oStr r.doFuncName),
    ("WhereExpr", oFilter r.whereExpr),
    ("LocationVar", oStr r.locationVar)]) true

theorem interp_LRule (r : Rule) (h : r.wf = true) : interpRule true (LRule r) = some r.norm := by
  unfold interpRule LRule
  have hnd : (([
    ("Line", oInt r.line),
    ("SyntaxPatterns", oSlice (irTy "PatternString") r.syntaxPatterns.isNil (r.syntaxPatterns.elems.map LPattern) (sliceTc false r.syntaxPatterns.elems.length)),
    ("CommentPatterns", oSlice (irTy "PatternString") r.commentPatterns.isNil (r.commentPatterns.elems.map LPattern) (sliceTc false r.commentPatterns.elems.length)),
    ("ReportTemplate", oStr r.reportTemplate),
    ("SuggestTemplate", oStr r.suggestTemplate),
    ("DoFuncName", oStr r.doFuncName),
    ("WhereExpr", oFilter r.whereExpr),
    ("LocationVar", oStr r.locationVar)] : Spec).map (·.1)).Nodup := by keys_dec
  rw [structKVs_ents _ _ _ _ _ _ rfl hnd (by unfold ruleFields; keys_dec)]
  simp only [field_pairs _ _ _ _ hnd]
  have hsp := rd_oSlice (irTy "PatternString") (interpPattern true) LPattern id r.syntaxPatterns (sliceTc false r.syntaxPatterns.elems.length)
    (fun a _ => interp_LPattern a)
  have hcp := rd_oSlice (irTy "PatternString") (interpPattern true) LPattern id r.commentPatterns (sliceTc false r.commentPatterns.elems.length)
    (fun a _ => interp_LPattern a)
  have hw := rd_oFilter r.whereExpr h
  simp [List.lookup, rd_oInt, rd_oStr, hsp, hcp, hw, Rule.norm, Sl.norm]

def LStrElem (b : Bytes) : Lit := .str b

def LGroup (g : RuleGroup) : Lit :=
  .comp none (ents [
    ("Line", oInt g.line),
    ("Name", oStr g.name),
    ("MatcherName", oStr g.matcherName),
    ("DocTags", oSlice stringTy g.docTags.isNil (g.docTags.elems.map LStrElem) (sliceTc true g.docTags.elems.length)),
    ("DocSummary", oStr g.docSummary),
    ("DocBefore", oStr g.docBefore),
    ("DocAfter", oStr g.docAfter),
    ("DocNote", oStr g.docNote),
    ("Imports", oSlice (irTy "PackageImport") g.imports.isNil (g.imports.elems.map LImport) (sliceTc false g.imports.elems.length)),
    ("Rules", oSlice (irTy "Rule") g.rules.isNil (g.rules.elems.map LRule) (sliceTc false g.rules.elems.length))]) true

theorem interp_LGroup (g : RuleGroup) (h : g.wf = true) : interpGroup true (LGroup g) = some g.norm := by
  unfold interpGroup LGroup
  have hnd : (([
    ("Line", oInt g.line),
    ("Name", oStr g.name),
    ("MatcherName", oStr g.matcherName),
    ("DocTags", oSlice stringTy g.docTags.isNil (g.docTags.elems.map LStrElem) (sliceTc true g.docTags.elems.length)),
    ("DocSummary", oStr g.docSummary),
    ("DocBefore", oStr g.docBefore),
    ("DocAfter", oStr g.docAfter),
    ("DocNote", oStr g.docNote),
    ("Imports", oSlice (irTy "PackageImport") g.imports.isNil (g.imports.elems.map LImport) (sliceTc false g.imports.elems.length)),
    ("Rules", oSlice (irTy "Rule") g.rules.isNil (g.rules.elems.map LRule) (sliceTc false g.rules.elems.length))] : Spec).map (·.1)).Nodup := by
    keys_dec
  rw [structKVs_ents _ _ _ _ _ _ rfl hnd (by unfold groupFields; keys_dec)]
  simp only [field_pairs _ _ _ _ hnd]
  have ht := rd_oSlice stringTy asStr LStrElem id g.docTags (sliceTc true g.docTags.elems.length) (fun a _ => rfl)
  have hi := rd_oSlice (irTy "PackageImport") (interpImport true) LImport id g.imports (sliceTc false g.imports.elems.length)
    (fun a _ => interp_LImport a)
  have hr := rd_oSlice (irTy "Rule") (interpRule true) LRule Rule.norm g.rules (sliceTc false g.rules.elems.length)
    (fun a ha => interp_LRule a (by
      unfold RuleGroup.wf at h
      exact List.all_eq_true.mp h a ha))
  simp [List.lookup, rd_oInt, rd_oStr, ht, hi, hr, RuleGroup.norm, Sl.norm, Sl.map]

/-- the whole file as the fixed printer writes it: the four fields are always present -/
def LFile (f : File) : Lit :=
  .comp (some (irTy "File")) (ents [
    ("PkgPath", some (.str f.pkgPath)),
    ("CustomDecls", some (.comp (some (.slice stringTy)) (f.customDecls.elems.map LStrElem) true)),
    ("BundleImports", some (.comp (some (.slice (irTy "BundleImport"))) (f.bundleImports.elems.map LBundle) true)),
    ("RuleGroups", oSlice (irTy "RuleGroup") f.ruleGroups.isNil (f.ruleGroups.elems.map LGroup) (sliceTc false f.ruleGroups.elems.length))]) true

theorem sliceOf_comp {α β} (ty : Ty) (conv : Lit → Option β) (L : α → Lit) (N : α → β) (l : List α) (tc : Bool)
    (h : ∀ a ∈ l, conv (L a) = some (N a)) :
    sliceOf ty conv (.comp (some (.slice ty)) (l.map L) tc) = some ⟨l.map N, false⟩ := by
  simp [sliceOf, mapAll_map conv L N l h]

theorem interp_LFile (f : File) (h : wfFile f = true) : interpFile (LFile f) = some (normalize f) := by
  unfold interpFile LFile
  have hnd : (([
    ("PkgPath", some (Lit.str f.pkgPath)),
    ("CustomDecls", some (.comp (some (.slice stringTy)) (f.customDecls.elems.map LStrElem) true)),
    ("BundleImports", some (.comp (some (.slice (irTy "BundleImport"))) (f.bundleImports.elems.map LBundle) true)),
    ("RuleGroups", oSlice (irTy "RuleGroup") f.ruleGroups.isNil (f.ruleGroups.elems.map LGroup) (sliceTc false f.ruleGroups.elems.length))] : Spec).map (·.1)).Nodup := by
    keys_dec
  rw [structKVs_ents _ _ _ _ _ _ rfl hnd (by unfold fileFields; keys_dec)]
  simp only [field_pairs _ _ _ _ hnd]
  have hd := sliceOf_comp stringTy asStr LStrElem id f.customDecls.elems true (fun a _ => rfl)
  have hb := sliceOf_comp (irTy "BundleImport") (interpBundle true) LBundle id f.bundleImports.elems true
    (fun a _ => interp_LBundle a)
  have hg := rd_oSlice (irTy "RuleGroup") (interpGroup true) LGroup RuleGroup.norm f.ruleGroups (sliceTc false f.ruleGroups.elems.length)
    (fun a ha => interp_LGroup a (by
      unfold wfFile at h
      exact List.all_eq_true.mp h a ha))
  simp [List.lookup, rd_some, asStr, hd, hb, hg, normalize, Sl.norm, Sl.map]

end IRProofs
