import Rg.Spec.Walk
/-! Lemmas: the imperative walker (state threading, flag save/set/flip/restore) computes the
declarative, ancestor-chain-based reference `specT` and leaves its state as it found it. -/
namespace Walk

/-- the walker's state after descending through `chain` from a start context `c0` -/
def stOf (C : Cfg) (c0 : Ctx0) (chain : List Anc) : WState :=
  { path := chain.map (·.id) ++ c0.path,
    dead := c0.dead || Dead C chain,
    func := (enclosingFunc C chain).or c0.func }

theorem seqKids_restoring {α} (f : α → WState → List Visit × WState) (g : α → List Visit)
    (S : WState) (L : List α) (h : ∀ c ∈ L, f c S = (g c, S)) :
    seqKids f L S = (L.flatMap g, S) := by
  induction L with
  | nil => rfl
  | cons c cs ih =>
    have hc := h c (by simp)
    have ih' := ih (fun c hc => h c (by simp [hc]))
    simp [seqKids, hc, ih']

theorem mem_slotKids {α} {so : α → Nat} {s : Nat} {L : List α} {c : α} (h : c ∈ slotKids so s L) :
    so c = s := by
  simp [slotKids] at h; exact h.2

theorem mem_orderedKids {α} {so : α → Nat} {order : List Nat} {L : List α} {c : α}
    (h : c ∈ orderedKids so order L) : so c ∈ order := by
  simp only [orderedKids, List.mem_flatMap] at h
  obtain ⟨s, hs, hc⟩ := h
  rw [mem_slotKids hc]; exact hs

theorem selfVisit_eq (C : Cfg) (T : Nat → Row) (c0 : Ctx0) (chain : List Anc) (k id : Nat) :
    selfVisit T k id (pushV (stOf C c0 chain) id) =
      (match (T k).tag with | some t => [visitAt C c0 chain id t] | none => []) := by
  unfold selfVisit
  cases (T k).tag with
  | none => rfl
  | some t =>
    simp only [visitAt, pushV, stOf, List.length_cons, List.length_append, List.length_map, List.tail_cons]
    congr 2
    · omega
    · cases chain <;> simp

theorem stOf_cons_path (C : Cfg) (c0 : Ctx0) (chain : List Anc) (a : Anc) :
    (stOf C c0 (a :: chain)).path = a.id :: (stOf C c0 chain).path := by
  simp [stOf]

theorem stOf_cons_func (C : Cfg) (c0 : Ctx0) (chain : List Anc) (a : Anc) :
    (stOf C c0 (a :: chain)).func = if a.kind = C.funcKind then some a.id else (stOf C c0 chain).func := by
  simp only [stOf, enclosingFunc]
  split <;> simp

theorem stOf_cons_dead (C : Cfg) (c0 : Ctx0) (chain : List Anc) (a : Anc) :
    (stOf C c0 (a :: chain)).dead = ((stOf C c0 chain).dead || deadBranch C a.kind a.attr a.slot) := by
  simp only [stOf, Dead, List.any_cons]
  cases c0.dead <;> cases deadBranch C a.kind a.attr a.slot <;> simp

theorem deadBranch_not_if (C : Cfg) {k : Nat} (attr s : Nat) (h : k ≠ C.ifKind) :
    deadBranch C k attr s = false := by
  simp [deadBranch, h]

theorem walk_eq_specT_aux (C : Cfg) (T : Nat → Row) (hC : CfgOK C) :
    ∀ (n : Nat) (t : Tree), sizeOf t < n → ∀ (c0 : Ctx0) (chain : List Anc),
      walk C T t (stOf C c0 chain) = (specT C T c0 chain t, stOf C c0 chain) := by
  intro n
  induction n with
  | zero => intro t h; omega
  | succ n ih =>
    intro t hsz c0 chain
    obtain ⟨k, id, slot, attr, kids⟩ := t
    have ihk : ∀ c ∈ kids, ∀ (c0 : Ctx0) (chain : List Anc),
        walk C T c (stOf C c0 chain) = (specT C T c0 chain c, stOf C c0 chain) := by
      intro c hc
      apply ih
      have := List.sizeOf_lt_of_mem hc
      simp at hsz; omega
    obtain ⟨h1, h2, h3, h4, h5, h6, h7⟩ := hC
    rw [walk, specT, selfVisit_eq]
    -- state every child of this node is walked in, and is left in
    have key : ∀ (c : { c // c ∈ kids }) (S : WState),
        S = stOf C c0 (⟨k, id, attr, c.1.slot⟩ :: chain) →
        walk C T c.1 S = (specT C T c0 (⟨k, id, attr, c.1.slot⟩ :: chain) c.1, S) := by
      intro c S hS; subst hS; exact ihk c.1 c.2 c0 _
    by_cases hif : k = C.ifKind
    · -- the IfStmt case
      subst hif
      have hnf : C.ifKind ≠ C.funcKind := h7
      simp only [if_true, effOrder, orderedKids, List.flatMap_cons, List.flatMap_nil, List.append_nil,
        List.flatMap_append]
      -- the four phases
      have phase : ∀ (s : Nat) (S : WState),
          (∀ c : { c // c ∈ kids }, c.1.slot = s → S = stOf C c0 (⟨C.ifKind, id, attr, c.1.slot⟩ :: chain)) →
          seqKids (fun (c : { c // c ∈ kids }) st => walk C T c.1 st)
            (slotKids (fun c : { c // c ∈ kids } => c.1.slot) s kids.attach) S =
          ((slotKids (fun c : { c // c ∈ kids } => c.1.slot) s kids.attach).flatMap
            (fun c => specT C T c0 (⟨C.ifKind, id, attr, c.1.slot⟩ :: chain) c.1), S) := by
        intro s S hS
        apply seqKids_restoring
        intro c hc
        exact key c S (hS c (mem_slotKids (so := fun c : { c // c ∈ kids } => c.1.slot) hc))
      -- base state after the push
      have hbase : ∀ s, deadBranch C C.ifKind attr s = false →
          pushV (stOf C c0 chain) id = stOf C c0 (⟨C.ifKind, id, attr, s⟩ :: chain) := by
        intro s hs
        simp only [pushV, stOf, Dead, List.any_cons, hs, List.map_cons, List.cons_append, enclosingFunc, hnf,
          if_false, Bool.false_or]
      have dInit : deadBranch C C.ifKind attr C.ifInit = false := by
        simp [deadBranch, h2, h3]
      have dCond : deadBranch C C.ifKind attr C.ifCond = false := by
        simp [deadBranch, h4, h5]
      rw [phase C.ifInit (pushV (stOf C c0 chain) id) (fun c hc => by rw [hc]; exact hbase _ dInit)]
      simp only []
      rw [phase C.ifCond (pushV (stOf C c0 chain) id) (fun c hc => by rw [hc]; exact hbase _ dCond)]
      simp only []
      have hpd : (pushV (stOf C c0 chain) id).dead = (stOf C c0 chain).dead := rfl
      by_cases hd : (!(stOf C c0 chain).dead && attr != 0) = true
      · -- constant condition, not already dead
        simp only [hpd, hd, if_true]
        have hdd : (stOf C c0 chain).dead = false := by
          cases h : (stOf C c0 chain).dead <;> simp [h] at hd ⊢
        have ha : attr ≠ 0 := by
          intro h; simp [h] at hd
        have hbody : ∀ c : { c // c ∈ kids }, c.1.slot = C.ifBody →
            ({ pushV (stOf C c0 chain) id with dead := !(stOf C c0 chain).dead && (attr == 2) } : WState) =
              stOf C c0 (⟨C.ifKind, id, attr, c.1.slot⟩ :: chain) := by
          intro c hc
          have e1 := stOf_cons_dead C c0 chain ⟨C.ifKind, id, attr, c.1.slot⟩
          have e2 := stOf_cons_path C c0 chain ⟨C.ifKind, id, attr, c.1.slot⟩
          have e3 := stOf_cons_func C c0 chain ⟨C.ifKind, id, attr, c.1.slot⟩
          simp only [hnf, if_false] at e3
          have : deadBranch C C.ifKind attr c.1.slot = (attr == 2) := by
            rw [hc]; simp [deadBranch, h6]
          rw [this, hdd] at e1
          cases hS : stOf C c0 (⟨C.ifKind, id, attr, c.1.slot⟩ :: chain) with
          | mk p d f =>
            rw [hS] at e1 e2 e3
            simp only at e1 e2 e3
            simp [pushV, hdd, e1, e2, e3]
        rw [phase C.ifBody _ hbody]
        simp only []
        have helse : ∀ c : { c // c ∈ kids }, c.1.slot = C.ifElse →
            ({ pushV (stOf C c0 chain) id with dead := !(!(stOf C c0 chain).dead && (attr == 2)) } : WState) =
              stOf C c0 (⟨C.ifKind, id, attr, c.1.slot⟩ :: chain) := by
          intro c hc
          have e1 := stOf_cons_dead C c0 chain ⟨C.ifKind, id, attr, c.1.slot⟩
          have e2 := stOf_cons_path C c0 chain ⟨C.ifKind, id, attr, c.1.slot⟩
          have e3 := stOf_cons_func C c0 chain ⟨C.ifKind, id, attr, c.1.slot⟩
          simp only [hnf, if_false] at e3
          have : deadBranch C C.ifKind attr c.1.slot = !(attr == 2) := by
            rw [hc]
            have h6' : (C.ifElse == C.ifBody) = false := by
              simp; exact fun h => h6 h.symm
            have ha' : (attr != 0) = true := by simp [ha]
            have ha0 : (attr == 0) = false := by simp [ha]
            simp only [deadBranch, h6', beq_self_eq_true, Bool.true_and, Bool.and_false, Bool.false_or,
              Bool.and_true, bne, ha0, Bool.not_false]
          rw [this, hdd] at e1
          cases hS : stOf C c0 (⟨C.ifKind, id, attr, c.1.slot⟩ :: chain) with
          | mk p d f =>
            rw [hS] at e1 e2 e3
            simp only at e1 e2 e3
            simp [pushV, hdd, e1, e2, e3]
        have hflip : ({ ({ pushV (stOf C c0 chain) id with dead := !(stOf C c0 chain).dead && (attr == 2) } : WState) with
              dead := !({ pushV (stOf C c0 chain) id with dead := !(stOf C c0 chain).dead && (attr == 2) } : WState).dead } : WState) =
            { pushV (stOf C c0 chain) id with dead := !(!(stOf C c0 chain).dead && (attr == 2)) } := rfl
        rw [hflip, phase C.ifElse _ helse]
        simp only [popV, pushV, List.tail_cons, List.append_assoc]
        rfl
      · -- not a constant, or already dead: plain descent
        have hd' : (!(stOf C c0 chain).dead && attr != 0) = false := by
          cases h : (!(stOf C c0 chain).dead && attr != 0) <;> simp_all
        simp only [hpd, hd', Bool.false_eq_true, if_false]
        have hall : ∀ c : { c // c ∈ kids },
            pushV (stOf C c0 chain) id = stOf C c0 (⟨C.ifKind, id, attr, c.1.slot⟩ :: chain) := by
          intro c
          have e1 := stOf_cons_dead C c0 chain ⟨C.ifKind, id, attr, c.1.slot⟩
          have e2 := stOf_cons_path C c0 chain ⟨C.ifKind, id, attr, c.1.slot⟩
          have e3 := stOf_cons_func C c0 chain ⟨C.ifKind, id, attr, c.1.slot⟩
          simp only [hnf, if_false] at e3
          cases hS : stOf C c0 (⟨C.ifKind, id, attr, c.1.slot⟩ :: chain) with
          | mk p d f =>
            rw [hS] at e1 e2 e3
            simp only at e1 e2 e3
            simp only [pushV, WState.mk.injEq]
            refine ⟨e2.symm, ?_, e3.symm⟩
            rw [e1]
            -- either already dead (then `true || _`) or attr = 0 (then no dead branch)
            cases hdd : (stOf C c0 chain).dead
            · have ha : attr = 0 := by
                rw [hdd] at hd'; simpa using hd'
              simp [deadBranch, ha]
            · simp
        rw [phase C.ifBody _ (fun c _ => hall c)]
        simp only []
        rw [phase C.ifElse _ (fun c _ => hall c)]
        simp only [popV, pushV, List.tail_cons, List.append_assoc]
        rfl
    · by_cases hfn : k = C.funcKind
      · -- the FuncDecl case
        subst hfn
        simp only [hif, if_false, if_true, effOrder]
        have hall : ∀ c : { c // c ∈ kids },
            ({ pushV (stOf C c0 chain) id with func := some id } : WState) =
              stOf C c0 (⟨C.funcKind, id, attr, c.1.slot⟩ :: chain) := by
          intro c
          have e1 := stOf_cons_dead C c0 chain ⟨C.funcKind, id, attr, c.1.slot⟩
          have e2 := stOf_cons_path C c0 chain ⟨C.funcKind, id, attr, c.1.slot⟩
          have e3 := stOf_cons_func C c0 chain ⟨C.funcKind, id, attr, c.1.slot⟩
          simp only [if_true] at e3
          rw [deadBranch_not_if C attr c.1.slot hif] at e1
          cases hS : stOf C c0 (⟨C.funcKind, id, attr, c.1.slot⟩ :: chain) with
          | mk p d f =>
            rw [hS] at e1 e2 e3
            simp only at e1 e2 e3
            simp [pushV, e1, e2, e3]
        rw [seqKids_restoring _ (fun c => specT C T c0 (⟨C.funcKind, id, attr, c.1.slot⟩ :: chain) c.1)
          _ _ (fun c _ => key c _ (hall c))]
        simp only [popV, pushV, List.tail_cons]
        rfl
      · -- every other kind
        simp only [hif, hfn, if_false, effOrder]
        have hall : ∀ c : { c // c ∈ kids },
            pushV (stOf C c0 chain) id = stOf C c0 (⟨k, id, attr, c.1.slot⟩ :: chain) := by
          intro c
          have e1 := stOf_cons_dead C c0 chain ⟨k, id, attr, c.1.slot⟩
          have e2 := stOf_cons_path C c0 chain ⟨k, id, attr, c.1.slot⟩
          have e3 := stOf_cons_func C c0 chain ⟨k, id, attr, c.1.slot⟩
          simp only [hfn, if_false] at e3
          rw [deadBranch_not_if C attr c.1.slot hif] at e1
          cases hS : stOf C c0 (⟨k, id, attr, c.1.slot⟩ :: chain) with
          | mk p d f =>
            rw [hS] at e1 e2 e3
            simp only at e1 e2 e3
            simp [pushV, e1, e2, e3]
        rw [seqKids_restoring _ (fun c => specT C T c0 (⟨k, id, attr, c.1.slot⟩ :: chain) c.1)
          _ _ (fun c _ => key c _ (hall c))]
        simp only [popV, pushV, List.tail_cons]
        rfl

/-- The walker computes the declarative reference and restores path, dead-code flag and current
function, from any start state. -/
theorem walk_eq_specT (C : Cfg) (T : Nat → Row) (hC : CfgOK C) (t : Tree) (c0 : Ctx0) (chain : List Anc) :
    walk C T t (stOf C c0 chain) = (specT C T c0 chain t, stOf C c0 chain) :=
  walk_eq_specT_aux C T hC (sizeOf t + 1) t (by omega) c0 chain

end Walk
