import Rg.Proofs.QSimDefs
/-!
# Facts about the structured compiler that do not mention execution

Expression compilation never touches the locals table and only appends to the constant pools.
Induction over the nested source trees goes through an explicit depth measure.
-/
namespace Q

mutual
def Expr.depth : Expr → Nat
  | .not x => x.depth + 1
  | .bin _ _ x y => max x.depth y.depth + 1
  | .sliceAll x => x.depth + 1
  | .sliceTo _ x h => max x.depth h.depth + 1
  | .sliceFrom _ x l => max x.depth l.depth + 1
  | .slice _ x l h => max x.depth (max l.depth h.depth) + 1
  | .len _ x => x.depth + 1
  | .call _ recv args => max (depthL recv) (depthL args) + 1
  | _ => 0
def depthL : List Expr → Nat
  | [] => 0
  | e :: es => max e.depth (depthL es) + 1
end

theorem internIn_spec {α} [BEq α] [LawfulBEq α] (v : α) (pool : List α) {id : Nat} {pool' : List α}
    (h : internIn v pool = (id, pool')) : pool <+: pool' ∧ pool'[id]? = some v := by
  unfold internIn at h
  cases hi : pool.idxOf? v with
  | some i =>
    simp only [hi, Prod.mk.injEq] at h
    obtain ⟨rfl, rfl⟩ := h
    obtain ⟨hl, hv, _⟩ := List.idxOf?_eq_some_iff.mp hi
    exact ⟨List.prefix_refl _, by simp [hl, hv]⟩
  | none =>
    simp only [hi, Prod.mk.injEq] at h
    obtain ⟨rfl, rfl⟩ := h
    exact ⟨List.prefix_append _ _, by simp⟩

/-- what compiling expressions does to the compiler state -/
def SMono (cs cs' : SState) : Prop :=
  cs'.locals = cs.locals ∧ cs.consts <+: cs'.consts ∧ cs.intConsts <+: cs'.intConsts

theorem SMono.refl (cs : SState) : SMono cs cs := ⟨rfl, List.prefix_refl _, List.prefix_refl _⟩

theorem SMono.trans {a b c : SState} (h1 : SMono a b) (h2 : SMono b c) : SMono a c :=
  ⟨h2.1.trans h1.1, h1.2.1.trans h2.2.1, h1.2.2.trans h2.2.2⟩

theorem PoolOK.of_mono {cs cs' : SState} {f : CFunc} (h : SMono cs cs') (hp : PoolOK cs' f) : PoolOK cs f :=
  ⟨h.2.1.trans hp.1, h.2.2.trans hp.2⟩

variable (fx : Fixes) (cenv : CEnv) (fn : CFn)

macro "ucomp" " at " h:ident : tactic =>
  `(tactic| simp only [compE, compEs, compArgs, bind, Option.bind_eq_bind, Option.bind_eq_some_iff, pure, Option.pure_def, Option.some.injEq,
      Prod.mk.injEq, Prod.exists] at $h:ident)

theorem comp_mono : ∀ k,
    (∀ e cs is cs', Expr.depth e < k → compE fx cenv fn e cs = some (is, cs') → SMono cs cs') ∧
    (∀ es cs is cs', depthL es < k → compEs fx cenv fn es cs = some (is, cs') → SMono cs cs') ∧
    (∀ v i es tys cs is cs', depthL es < k → compArgs fx cenv fn v i es tys cs = some (is, cs') → SMono cs cs') := by
  intro k
  induction k with
  | zero => exact ⟨fun _ _ _ _ h => by omega, fun _ _ _ _ h => by omega, fun _ _ _ _ _ _ _ h => by omega⟩
  | succ k ih =>
    obtain ⟨ihE, ihEs, ihA⟩ := ih
    refine ⟨?_, ?_, ?_⟩
    · intro e cs is cs' hd h
      cases e with
      | cint v =>
        ucomp at h
        obtain ⟨a, _, _, rfl⟩ := h
        exact ⟨rfl, List.prefix_refl _, (internIn_spec v cs.intConsts rfl).1⟩
      | cstr v =>
        ucomp at h
        obtain ⟨a, _, _, rfl⟩ := h
        exact ⟨rfl, (internIn_spec v cs.consts rfl).1, List.prefix_refl _⟩
      | cbool v l => ucomp at h; obtain ⟨_, rfl⟩ := h; exact SMono.refl _
      | cbad => simp [compE] at h
      | nil => simp [compE] at h
      | bad => simp [compE] at h
      | ident x ty =>
        simp only [compE] at h
        split at h
        · ucomp at h; obtain ⟨_, _, _, rfl⟩ := h; exact SMono.refl _
        · split at h
          · ucomp at h; obtain ⟨_, _, _, rfl⟩ := h; exact SMono.refl _
          · split at h
            · ucomp at h; obtain ⟨_, _, _, rfl⟩ := h; exact SMono.refl _
            · simp at h
      | not x =>
        simp only [Expr.depth] at hd
        ucomp at h
        obtain ⟨ix, s1, hx, _, rfl⟩ := h
        exact ihE x _ _ _ (by omega) hx
      | bin op ty x y =>
        simp only [Expr.depth] at hd
        have hx : x.depth < k := by omega
        have hy : y.depth < k := by omega
        cases op <;> simp only [compE] at h
        case lor =>
          ucomp at h
          obtain ⟨ix, s1, h1, iy, s2, h2, _, rfl⟩ := h
          exact (ihE x _ _ _ hx h1).trans (ihE y _ _ _ hy h2)
        case land =>
          ucomp at h
          obtain ⟨ix, s1, h1, iy, s2, h2, _, rfl⟩ := h
          exact (ihE x _ _ _ hx h1).trans (ihE y _ _ _ hy h2)
        case other => simp at h
        all_goals
          split at h
          · ucomp at h
            obtain ⟨iy, s2, h2, _, rfl⟩ := h
            exact ihE y _ _ _ hy h2
          · split at h
            · ucomp at h
              obtain ⟨ix, s1, h1, _, rfl⟩ := h
              exact ihE x _ _ _ hx h1
            · split at h
              · simp at h
              · ucomp at h
                obtain ⟨ix, s1, h1, iy, s2, h2, _, rfl⟩ := h
                exact (ihE x _ _ _ hx h1).trans (ihE y _ _ _ hy h2)
      | sliceAll x =>
        simp only [Expr.depth] at hd
        simp only [compE] at h
        exact ihE x _ _ _ (by omega) h
      | sliceTo xty x hi =>
        simp only [Expr.depth] at hd
        simp only [compE] at h
        split at h
        · simp at h
        · ucomp at h
          obtain ⟨ix, s1, h1, iy, s2, h2, _, rfl⟩ := h
          exact (ihE x _ _ _ (by omega) h1).trans (ihE hi _ _ _ (by omega) h2)
      | sliceFrom xty x lo =>
        simp only [Expr.depth] at hd
        simp only [compE] at h
        split at h
        · simp at h
        · ucomp at h
          obtain ⟨ix, s1, h1, iy, s2, h2, _, rfl⟩ := h
          exact (ihE x _ _ _ (by omega) h1).trans (ihE lo _ _ _ (by omega) h2)
      | slice xty x lo hi =>
        simp only [Expr.depth] at hd
        simp only [compE] at h
        split at h
        · simp at h
        · ucomp at h
          obtain ⟨ix, s1, h1, iy, s2, h2, iz, s3, h3, _, rfl⟩ := h
          exact ((ihE x _ _ _ (by omega) h1).trans (ihE lo _ _ _ (by omega) h2)).trans (ihE hi _ _ _ (by omega) h3)
      | len xty x =>
        simp only [Expr.depth] at hd
        ucomp at h
        obtain ⟨ix, s1, h1, h⟩ := h
        split at h
        · simp at h
        · simp only [Option.some.injEq, Prod.mk.injEq] at h
          obtain ⟨_, rfl⟩ := h
          exact ihE x _ _ _ (by omega) h1
      | call ci recv args =>
        simp only [Expr.depth] at hd
        ucomp at h
        obtain ⟨ir, s1, h1, h⟩ := h
        have m1 := ihEs recv _ _ _ (by omega) h1
        split at h
        · split at h
          · simp at h
          · split at h
            · simp at h
            · ucomp at h
              obtain ⟨ia, s2, h2, iv, _, _, rfl⟩ := h
              exact m1.trans (ihA _ _ args _ _ _ _ (by omega) h2)
        · split at h
          · simp at h
          · split at h
            · simp at h
            · split at h
              · simp at h
              · ucomp at h
                obtain ⟨ia, s2, h2, _, rfl⟩ := h
                exact m1.trans (ihEs args _ _ _ (by omega) h2)
    · intro es cs is cs' hd h
      cases es with
      | nil => ucomp at h; obtain ⟨_, rfl⟩ := h; exact SMono.refl _
      | cons e es =>
        simp only [depthL] at hd
        ucomp at h
        obtain ⟨i1, s1, h1, i2, s2, h2, _, rfl⟩ := h
        exact (ihE e _ _ _ (by omega) h1).trans (ihEs es _ _ _ (by omega) h2)
    · intro v i es tys cs is cs' hd h
      cases es with
      | nil => ucomp at h; obtain ⟨_, rfl⟩ := h; exact SMono.refl _
      | cons e es =>
        simp only [depthL] at hd
        ucomp at h
        obtain ⟨i1, s1, h1, i2, s2, h2, _, rfl⟩ := h
        exact (ihE e _ _ _ (by omega) h1).trans (ihA _ _ es _ _ _ _ (by omega) h2)

theorem compE_mono {e : Expr} {cs : SState} {is cs'} (h : compE fx cenv fn e cs = some (is, cs')) : SMono cs cs' :=
  (comp_mono fx cenv fn (e.depth + 1)).1 e cs is cs' (by omega) h

theorem compEs_mono {es : List Expr} {cs : SState} {is cs'} (h : compEs fx cenv fn es cs = some (is, cs')) : SMono cs cs' :=
  (comp_mono fx cenv fn (depthL es + 1)).2.1 es cs is cs' (by omega) h

end Q
