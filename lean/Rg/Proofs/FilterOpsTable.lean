import Rg.Spec.C05
/-! Obligations on the regenerated op-name table (`Rg/Gen/IROpNames.lean`), re-checked whenever the table changes. -/
namespace IRProofs
open SpecC05 IR

set_option maxRecDepth 100000 in
/-- table obligation (regenerated table): every row's identifier evaluates back to the row's number -/
theorem opOfIdent_table : ∀ p ∈ Gen.irOpNames, opOfIdent ("Filter" ++ p.2 ++ "Op") = some p.1 := by decide


/-- names are pairwise different -/
theorem opNames_nodup : (Gen.irOpNames.map (·.2)).Nodup := by decide

/-- numbers are pairwise different -/
theorem opNums_nodup : (Gen.irOpNames.map (·.1)).Nodup := by decide

/-- the three one-line ops exist and are different from `Invalid` -/
theorem compactOps_named : opString ≠ 0 ∧ opVarPure ≠ 0 ∧ opVarText ≠ 0 := by decide

end IRProofs
