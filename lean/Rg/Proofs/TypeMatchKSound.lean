import Rg.Proofs.TypeMatchK
/-!
# Soundness of the backtracking matcher

Whenever `matchK … k` answers `true`, the continuation was entered with binding tables `s'` (an extension of the
initial ones) and answered `true`, and under every assignment extending `s'` the pattern denotes the type
(`SpecC10.Denotes` with the reading `Rules.repaired` and identity `xtypes.Identical`).
-/
open XTypes TypeMatch
open SpecC10 (Denotes DenotesSeq Rules)

namespace TypeMatch

theorem unaliasTarget_repaired (t : Ty) : SpecC10.unaliasTarget Rules.repaired t = unalias t := by
  induction t using Ty.rec (motive_2 := fun _ => True) <;> simp_all [SpecC10.unaliasTarget, unalias, Rules.repaired]

theorem stripVendor_repaired (path : String) : SpecC10.stripVendor Rules.repaired path = vendorStrip path := by
  unfold SpecC10.stripVendor vendorStrip
  simp only [Rules.repaired, if_true]
  rfl

/-- looking through the aliases of the left operand first can only lose identities -/
theorem tidC_of_unalias_left (fx : Bool) : ∀ (t y : Ty), tidC fx (unalias t) y = true → tidC fx t y = true
  | .alias u o t, y, h => by
    unfold tidC
    by_cases he : Ty.alias u o t = y
    · simp [he]
    · rw [if_neg he]
      simp only [unalias] at h
      exact tidC_of_unalias_left fx t y h
  | .nil, _, h | .basic _, _, h | .array .., _, h | .slice _, _, h | .ptr _, _, h | .map .., _, h | .chan .., _, h
  | .tuple _, _, h | .sig .., _, h | .field .., _, h | .struct _, _, h | .method .., _, h | .iface .., _, h
  | .named .., _, h | .tparam .., _, h | .term .., _, h | .union .., _, h => by simpa [unalias] using h

theorem tid_of_unalias_left (fx : Bool) (t y : Ty) (h : tid fx (unalias t) y = true) : tid fx t y = true :=
  tidC_of_unalias_left fx t _ h

theorem norm_unalias (fx : Bool) (t : Ty) : norm fx (unalias t) = unalias t := by
  cases fx <;> simp [norm, unalias_idem]

theorem tid_unalias_self (fx : Bool) (t : Ty) : tid fx t (unalias t) = true := by
  unfold tid; rw [norm_unalias]; exact tidC_unalias_self fx t

/-- `W` is closed under the steps the matcher takes from a type to the types it compares next -/
structure WClosed (W : Ty → Prop) : Prop where
  w_unalias : ∀ x, W x → W (unalias x)
  w_ptr : ∀ a, W (.ptr a) → W a
  w_slice : ∀ a, W (.slice a) → W a
  w_array : ∀ n a, W (.array n a) → W a
  w_map : ∀ k v, W (.map k v) → W k ∧ W v
  w_chan : ∀ d a, W (.chan d a) → W a
  w_sig : ∀ v tps ps rs, W (.sig v tps ps rs) → (∀ e ∈ tupleElems ps, W e) ∧ (∀ e ∈ tupleElems rs, W e)
  w_struct : ∀ fs, W (.struct fs) → ∀ e ∈ fieldTypes fs, W e

theorem wclosed_true : WClosed (fun _ => True) := by
  constructor <;> intros <;> first | trivial | exact ⟨fun _ _ => trivial, fun _ _ => trivial⟩ | exact ⟨trivial, trivial⟩ | (intros; trivial)

/-- an invariant of the binding tables kept by binding types in `W` and lengths -/
structure TablesInv (W : Ty → Prop) (P : MState → Prop) : Prop where
  bindT : ∀ s x z, P s → W z → P { s with tm := (x, z) :: s.tm }
  bindI : ∀ s v n, P s → P { s with im := (v, n) :: s.im }

/-- every type in the tables is in `W` -/
def ValuesIn (W : Ty → Prop) (s : MState) : Prop := ∀ x y, lookupT s x = some y → W y

theorem valuesIn_inv (W : Ty → Prop) : TablesInv W (ValuesIn W) where
  bindT s x z hs hz := by
    intro x' y' h
    by_cases hx : x = x'
    · subst hx
      rw [lookupT_bind_self] at h
      cases h; exact hz
    · have : (x == x') = false := by simpa using hx
      exact hs x' y' (by simpa [lookupT, List.find?, this] using h)
  bindI s v n hs := fun x y h => hs x y h

section
variable {fx : Bool} {W : Ty → Prop} {P : MState → Prop}

theorem trySplits_sound {rest : List Ty → MState → Bool × MState} {k : MState → Bool × MState} {ps : List Pat}
    (Hr : ∀ fs, Restoring (rest fs))
    (Q : List Ty → Prop) (hQ : ∀ a l, Q (a :: l) → Q l)
    (H : ∀ fs st fin, Q fs → P st → rest fs st = (true, fin) → ∃ s', MState.le st s' ∧ P s' ∧ k s' = (true, fin) ∧
      ∀ σ, MState.le s' σ → DenotesSeq (tid fx) Rules.repaired σ ps fs) :
    ∀ (fields : List Ty) (st fin : MState), Q fields → P st → trySplits rest fields st = (true, fin) →
      ∃ s', MState.le st s' ∧ P s' ∧ k s' = (true, fin) ∧
        ∀ σ, MState.le s' σ → ∃ n, DenotesSeq (tid fx) Rules.repaired σ ps (fields.drop n)
  | [], st, fin, hq, hP, h => by
    unfold trySplits at h
    obtain ⟨s', h1, hp, h2, h3⟩ := H [] st fin hq hP h
    exact ⟨s', h1, hp, h2, fun σ hσ => ⟨0, h3 σ hσ⟩⟩
  | f :: fs, st, fin, hq, hP, h => by
    unfold trySplits at h
    rcases hr : rest (f :: fs) st with ⟨b, s1⟩
    rw [hr] at h
    cases b
    · simp only at h
      have e1 := Hr (f :: fs) st s1 hr
      subst e1
      obtain ⟨s', h1, hp, h2, h3⟩ := trySplits_sound Hr Q hQ H fs s1 fin (hQ f fs hq) hP h
      refine ⟨s', h1, hp, h2, fun σ hσ => ?_⟩
      obtain ⟨n, hn⟩ := h3 σ hσ
      exact ⟨n + 1, by simpa using hn⟩
    · simp only [Prod.mk.injEq, true_and] at h
      subst h
      obtain ⟨s', h1, hp, h2, h3⟩ := H (f :: fs) st s1 hq hP hr
      exact ⟨s', h1, hp, h2, fun σ hσ => ⟨0, h3 σ hσ⟩⟩

-- a branch that answered `(false, st)` cannot have answered `(true, fin)`
set_option hygiene false in
macro "absurd_false" : tactic => `(tactic| (simp only [Prod.mk.injEq, Bool.false_eq_true, false_and] at h))

/-- the conclusion of the soundness lemmas -/
def SoundAt (P : MState → Prop) (st fin : MState) (k : MState → Bool × MState) (D : MState → Prop) : Prop :=
  ∃ s', MState.le st s' ∧ P s' ∧ k s' = (true, fin) ∧ ∀ σ, MState.le s' σ → D σ

theorem SoundAt.leaf {P : MState → Prop} {st fin : MState} {k : MState → Bool × MState} {D : MState → Prop}
    (hp : P st) (h : k st = (true, fin)) (d : ∀ σ, MState.le st σ → D σ) : SoundAt P st fin k D :=
  ⟨st, MState.le_refl _, hp, h, d⟩

theorem SoundAt.mono {P : MState → Prop} {st fin : MState} {k : MState → Bool × MState} {D D' : MState → Prop}
    (h : SoundAt P st fin k D) (d : ∀ σ, D σ → D' σ) : SoundAt P st fin k D' := by
  obtain ⟨s', h1, hp, h2, h3⟩ := h
  exact ⟨s', h1, hp, h2, fun σ hσ => d σ (h3 σ hσ)⟩

mutual
theorem soundK (C : WClosed W) (T : TablesInv W P) : ∀ (p : Pat) (t : Ty) (k : MState → Bool × MState)
    (st fin : MState), Restoring k → W t → P st → matchK fx p t st k = (true, fin) →
    SoundAt P st fin k fun σ => Denotes (tid fx) Rules.repaired σ p t
  | .var name, t, k, st, fin, hk, hw, hp, h => by
    unfold matchK at h
    split at h
    · rename_i hn
      have : name = "_" := by simpa using hn
      subst this
      exact .leaf hp h fun σ _ => .wild t
    · split at h
      · rename_i hl
        rcases hn : k { st with tm := (name, unalias t) :: st.tm } with ⟨b, s1⟩
        rw [hn] at h
        cases b
        · absurd_false
        · simp only [Prod.mk.injEq, true_and] at h
          subst h
          refine ⟨_, le_bindT (unalias t) hl, T.bindT st name _ hp (C.w_unalias t hw), hn, fun σ hσ => ?_⟩
          exact .var name (unalias t) t (hσ.1 name _ (lookupT_bind_self st name _)) (tid_unalias_self fx t)
      · rename_i y hl
        split at h
        · rename_i hy
          subst hy
          split at h
          · rename_i hu
            refine .leaf hp h fun σ hσ => .var name .nil t (hσ.1 name _ hl) ?_
            have := tid_unalias_self fx t
            rwa [hu] at this
          · absurd_false
        · split at h
          · rename_i hi
            exact .leaf hp h fun σ hσ => .var name y t (hσ.1 name y hl) (tid_of_unalias_left fx t y hi)
          · absurd_false
  | .builtin b, t, k, st, fin, hk, hw, hp, h => by
    unfold matchK at h
    split at h
    · rename_i hi
      exact .leaf hp h fun σ _ => .builtin b t (tid_of_unalias_left fx t b hi)
    · absurd_false
  | .varSeq, t, k, st, fin, hk, hw, hp, h => by
    unfold matchK at h
    absurd_false
  | .ptr e, t, k, st, fin, hk, hw, hp, h => by
    unfold matchK at h
    split at h
    · rename_i a hu
      have hwa := C.w_ptr a (hu ▸ C.w_unalias t hw)
      exact (soundK C T e a k st fin hk hwa hp h).mono fun σ d => .ptr e t a (by rw [unaliasTarget_repaired, hu]) d
    · absurd_false
  | .slice e, t, k, st, fin, hk, hw, hp, h => by
    unfold matchK at h
    split at h
    · rename_i a hu
      have hwa := C.w_slice a (hu ▸ C.w_unalias t hw)
      exact (soundK C T e a k st fin hk hwa hp h).mono fun σ d => .slice e t a (by rw [unaliasTarget_repaired, hu]) d
    · absurd_false
  | .arrayVar v e, t, k, st, fin, hk, hw, hp, h => by
    unfold matchK at h
    split at h
    · rename_i n a hu
      have hwa := C.w_array n a (hu ▸ C.w_unalias t hw)
      split at h
      · rename_i hv
        have : v = "_" := by simpa using hv
        subst this
        exact (soundK C T e a k st fin hk hwa hp h).mono fun σ d =>
          .arrayWild e t n a (by rw [unaliasTarget_repaired, hu]) d
      · split at h
        · rename_i len hl
          split at h
          · rename_i hlen
            have : len = n := by simpa using hlen
            subst this
            obtain ⟨s', h1, hp', h2, h3⟩ := soundK C T e a k st fin hk hwa hp h
            exact ⟨s', h1, hp', h2, fun σ hσ => .arrayVar v e t len a (by rw [unaliasTarget_repaired, hu])
              (hσ.2 v len (h1.2 v len hl)) (h3 σ hσ)⟩
          · absurd_false
        · rename_i hl
          rcases hn : matchK fx e a { st with im := (v, n) :: st.im } k with ⟨b, s1⟩
          rw [hn] at h
          cases b
          · absurd_false
          · simp only [Prod.mk.injEq, true_and] at h
            subst h
            obtain ⟨s', h1, hp', h2, h3⟩ := soundK C T e a k _ _ hk hwa (T.bindI st v n hp) hn
            exact ⟨s', MState.le_trans (le_bindI n hl) h1, hp', h2, fun σ hσ =>
              .arrayVar v e t n a (by rw [unaliasTarget_repaired, hu])
                (hσ.2 v n (h1.2 v n (lookupI_bind_self st v n))) (h3 σ hσ)⟩
    · absurd_false
  | .arrayLit len e, t, k, st, fin, hk, hw, hp, h => by
    unfold matchK at h
    split at h
    · rename_i n a hu
      have hwa := C.w_array n a (hu ▸ C.w_unalias t hw)
      split at h
      · rename_i hlen
        have : len = n := by simpa using hlen
        subst this
        exact (soundK C T e a k st fin hk hwa hp h).mono fun σ d =>
          .arrayLit e t len a (by rw [unaliasTarget_repaired, hu]) d
      · absurd_false
    · absurd_false
  | .map pk pv, t, k, st, fin, hk, hw, hp, h => by
    unfold matchK at h
    split at h
    · rename_i tk tv hu
      have hwkv := C.w_map tk tv (hu ▸ C.w_unalias t hw)
      obtain ⟨s1, l1, p1, c1, d1⟩ := soundK C T pk tk _ st fin (matchK_restores pv tv k hk) hwkv.1 hp h
      obtain ⟨s2, l2, p2, c2, d2⟩ := soundK C T pv tv k s1 fin hk hwkv.2 p1 c1
      exact ⟨s2, MState.le_trans l1 l2, p2, c2, fun σ hσ =>
        .map pk pv t tk tv (by rw [unaliasTarget_repaired, hu]) (d1 σ (MState.le_trans l2 hσ)) (d2 σ hσ)⟩
    · absurd_false
  | .chan dir e, t, k, st, fin, hk, hw, hp, h => by
    unfold matchK at h
    split at h
    · rename_i d a hu
      have hwa := C.w_chan d a (hu ▸ C.w_unalias t hw)
      split at h
      · rename_i hd
        have : dir = d := by simpa using hd
        subst this
        exact (soundK C T e a k st fin hk hwa hp h).mono fun σ dd =>
          .chan dir e t a (by rw [unaliasTarget_repaired, hu]) dd
      · absurd_false
    · absurd_false
  | .named pkgPath typeName, t, k, st, fin, hk, hw, hp, h => by
    unfold matchK at h
    split at h
    · rename_i u o pkg name x loc targs hu
      split at h
      · absurd_false
      · rename_i objPath
        split at h
        · rename_i hc
          simp only [Bool.and_eq_true, beq_iff_eq, Bool.not_eq_true'] at hc
          obtain ⟨⟨rfl, rfl⟩, rfl⟩ := hc
          exact .leaf hp h fun σ _ => .named _ typeName t u o objPath x false targs
            (by rw [unaliasTarget_repaired, hu]) (stripVendor_repaired objPath) (by simp [Rules.repaired]) (by simp)
        · absurd_false
    · absurd_false
  | .funcNoSeq pps prs, t, k, st, fin, hk, hw, hp, h => by
    unfold matchK at h
    split at h
    · rename_i v tps params results hu
      have hws := C.w_sig _ _ _ _ (hu ▸ C.w_unalias t hw)
      split at h
      · absurd_false
      · rename_i hvt
        split at h
        · absurd_false
        · split at h
          · absurd_false
          · simp only [Bool.or_eq_true, Bool.not_eq_true', List.isEmpty_eq_false_iff, not_or, Bool.not_eq_true,
              ne_eq, Decidable.not_not] at hvt
            obtain ⟨s1, l1, p1, c1, d1⟩ :=
              soundFieldsK C T pps _ _ st fin (matchFieldsK_restores prs _ k hk) hws.1 hp h
            obtain ⟨s2, l2, p2, c2, d2⟩ := soundFieldsK C T prs _ k s1 fin hk hws.2 p1 c1
            exact ⟨s2, MState.le_trans l1 l2, p2, c2, fun σ hσ =>
              .funcNoSeq pps prs t v tps params results (by rw [unaliasTarget_repaired, hu]) (fun _ => hvt.1)
                (fun _ => hvt.2) (by rw [tupleElems_eq]; exact d1 σ (MState.le_trans l2 hσ))
                (by rw [tupleElems_eq]; exact d2 σ hσ)⟩
    · absurd_false
  | .func pps prs, t, k, st, fin, hk, hw, hp, h => by
    unfold matchK at h
    split at h
    · rename_i v tps params results hu
      have hws := C.w_sig _ _ _ _ (hu ▸ C.w_unalias t hw)
      split at h
      · absurd_false
      · rename_i hvt
        simp only [Bool.or_eq_true, Bool.not_eq_true', List.isEmpty_eq_false_iff, not_or, Bool.not_eq_true,
          ne_eq, Decidable.not_not] at hvt
        obtain ⟨s1, l1, p1, c1, d1⟩ :=
          soundFieldsK C T pps _ _ st fin (matchFieldsK_restores prs _ k hk) hws.1 hp h
        obtain ⟨s2, l2, p2, c2, d2⟩ := soundFieldsK C T prs _ k s1 fin hk hws.2 p1 c1
        exact ⟨s2, MState.le_trans l1 l2, p2, c2, fun σ hσ =>
          .func pps prs t v tps params results (by rw [unaliasTarget_repaired, hu]) (fun _ => hvt.1)
            (fun _ => hvt.2) (by rw [tupleElems_eq]; exact d1 σ (MState.le_trans l2 hσ))
            (by rw [tupleElems_eq]; exact d2 σ hσ)⟩
    · absurd_false
  | .structNoSeq subs, t, k, st, fin, hk, hw, hp, h => by
    unfold matchK at h
    split at h
    · rename_i fs hu
      have hws := C.w_struct fs (hu ▸ C.w_unalias t hw)
      split at h
      · absurd_false
      · exact (soundFieldsK C T subs _ k st fin hk hws hp h).mono fun σ d =>
          .structNoSeq subs t fs (by rw [unaliasTarget_repaired, hu]) (by rw [fieldTypes_eq]; exact d)
    · absurd_false
  | .struct subs, t, k, st, fin, hk, hw, hp, h => by
    unfold matchK at h
    split at h
    · rename_i fs hu
      have hws := C.w_struct fs (hu ▸ C.w_unalias t hw)
      exact (soundFieldsK C T subs _ k st fin hk hws hp h).mono fun σ d =>
        .struct subs t fs (by rw [unaliasTarget_repaired, hu]) (by rw [fieldTypes_eq]; exact d)
    · absurd_false
  | .anyIface, t, k, st, fin, hk, hw, hp, h => by
    unfold matchK at h
    split at h
    · rename_i a c ms es hu
      exact .leaf hp h fun σ _ => .anyIface t a c ms es (by rw [unaliasTarget_repaired, hu])
    · absurd_false
theorem soundFieldsK (C : WClosed W) (T : TablesInv W P) : ∀ (ps : List Pat) (fs : List Ty)
    (k : MState → Bool × MState) (st fin : MState), Restoring k → (∀ e ∈ fs, W e) → P st →
    matchFieldsK fx ps fs st k = (true, fin) →
    SoundAt P st fin k fun σ => DenotesSeq (tid fx) Rules.repaired σ ps fs
  | [], fs, k, st, fin, hk, hw, hp, h => by
    unfold matchFieldsK at h
    split at h
    · rename_i he
      have : fs = [] := by simpa using he
      subst this
      exact .leaf hp h fun σ _ => .nil
    · absurd_false
  | p :: ps, fs, k, st, fin, hk, hw, hp, h => by
    unfold matchFieldsK at h
    split at h
    · rename_i hs
      have hpp : p = .varSeq := by cases p <;> simp [Pat.isSeq] at hs ⊢
      subst hpp
      obtain ⟨s', h1, hp', h2, h3⟩ := trySplits_sound (fx := fx) (P := P) (k := k) (ps := ps)
        (fun fs' => matchFieldsK_restores ps fs' k hk)
        (fun fs' => ∀ e ∈ fs', W e) (fun a l hl e he => hl e (List.mem_cons_of_mem a he))
        (fun fs' st' fin' hw' hP hh => soundFieldsK C T ps fs' k st' fin' hk hw' hP hh) fs st fin hw hp h
      refine ⟨s', h1, hp', h2, fun σ hσ => ?_⟩
      obtain ⟨n, hn⟩ := h3 σ hσ
      exact .run ps fs n hn
    · split at h
      · absurd_false
      · rename_i f fs'
        obtain ⟨s1, l1, p1, c1, d1⟩ :=
          soundK C T p f _ st fin (matchFieldsK_restores ps fs' k hk) (hw f (by simp)) hp h
        obtain ⟨s2, l2, p2, c2, d2⟩ := soundFieldsK C T ps fs' k s1 fin hk (fun e he => hw e (by simp [he])) p1 c1
        exact ⟨s2, MState.le_trans l1 l2, p2, c2, fun σ hσ =>
          .cons p ps f fs' (d1 σ (MState.le_trans l2 hσ)) (d2 σ hσ)⟩
end

end

end TypeMatch
