import Rg.Model.Sink
import Rg.Spec.Sink
/-!
# Proofs for the sink model (C02, `SinkType.Is`)

`findSink` (the transcription of `findSinkRoot` / `findContainingFunc` / `findSinkType`) against `SpecSink.expectedAt`
(the definition of a sink type), frame by frame: `Agrees c fs` for every shape of the innermost context `fs`.
-/
namespace SinkProofs
open Sink SpecSink

/-! ## the loops -/

theorem firstIdx_unique (f : Nat → Bool) (p n : Nat) (h : ∀ j, f j = true → j = p) :
    firstIdx f n = if f p = true ∧ p < n then some p else none := by
  unfold firstIdx
  induction n with
  | zero => simp
  | succ n ih =>
    rw [List.range_succ, List.find?_append, ih]
    by_cases hp : f p = true ∧ p < n
    · have : f p = true ∧ p < n + 1 := ⟨hp.1, by omega⟩
      simp [hp, this]
    · rw [if_neg hp]
      simp only [Option.none_or]
      by_cases hn : f n = true
      · have := h n hn
        subst this
        simp [hn]
      · have : ¬ (f p = true ∧ p < n + 1) := by
          intro ⟨h1, h2⟩
          by_cases hpn : p < n
          · exact hp ⟨h1, hpn⟩
          · have : p = n := by omega
            subst this; exact hn h1
        simp [hn, this]

theorem context_not_paren (fs up : List Frame) : context fs ≠ .paren :: up := by
  induction fs with
  | nil => simp [context]
  | cons f fs ih =>
    cases f <;> simp [context]
    exact ih

theorem findSinkRoot_context (fs : List Frame) : findSinkRoot fs = findSinkRoot (context fs) := by
  induction fs with
  | nil => simp [context]
  | cons f fs ih =>
    cases f <;> simp [context, findSinkRoot]
    exact ih

theorem firstIdx_eq {p n : Nat} (h : p < n) : firstIdx (fun j => j == p) n = some p := by
  rw [firstIdx_unique _ p] <;> simp [h]

theorem firstIdx_eq' {p n : Nat} (h : p < n) : firstIdx (fun j => p == j) n = some p := by
  rw [firstIdx_unique _ p] <;> simp [h]

theorem firstIdx_false (n : Nat) : firstIdx (fun _ => false) n = none := by
  rw [firstIdx_unique _ 0] <;> simp

theorem firstIdx_some {f : Nat → Bool} {n i : Nat} (h : firstIdx f n = some i) : f i = true ∧ i < n := by
  unfold firstIdx at h
  exact ⟨List.find?_some h, by simpa using List.mem_of_find?_eq_some h⟩

theorem containingFunc_context {fs up : List Frame} {b a : Nat} (h : context fs = .ret b a :: up) :
    containingFunc fs = containingFunc up := by
  induction fs with
  | nil => simp [context] at h
  | cons f fs ih =>
    cases f <;> simp [context] at h
    case paren => simpa [containingFunc] using ih h
    case ret => obtain ⟨_, _, rfl⟩ := h; simp [containingFunc]

theorem findContainingFunc_context {fs up : List Frame} {b a : Nat} (h : context fs = .ret b a :: up) :
    findContainingFunc fs = containingFunc up := by
  unfold findContainingFunc
  cases fs with
  | nil => simp [context] at h
  | cons f fs =>
    cases f <;> simp [context] at h
    case paren => simpa using containingFunc_context h
    case ret => obtain ⟨_, _, rfl⟩ := h; simp

theorem containingFunc_of_enclosing {up : List Frame} {s : Sig} (h : enclosingFunc up = some (some s)) :
    containingFunc up = some s := by
  induction up with
  | nil => simp [enclosingFunc] at h
  | cons f up ih =>
    cases f <;> simp [enclosingFunc] at h <;> simp [containingFunc, *]

theorem wfFrames_context {fs : List Frame} (h : wfFrames fs = true) : wfFrames (context fs) = true := by
  induction fs with
  | nil => simpa [context]
  | cons f fs ih =>
    cases f <;> simp [context] <;> try exact h
    simp [wfFrames] at h
    exact ih h.2

/-! ## the cases of `findSinkType` -/

def sinkAt (c : Ctx) (fs : List Frame) : Res Ty :=
  match findSinkRoot fs with
  | .panic p => .panic p
  | .ok (parent, kv) => findSinkType c parent kv

/-- the statement proved frame by frame -/
def Agrees (c : Ctx) (fs : List Frame) : Prop := ∃ t, sinkAt c fs = .ok t ∧ tyId t = expectedAt fs

theorem agrees_valueSpec (c : Ctx) (slot dt up) (hg : gapAt (.valueSpec slot dt :: up) = none) :
    Agrees c (.valueSpec slot dt :: up) := by
  unfold Agrees sinkAt
  cases dt with
  | none => cases slot <;> exact ⟨.nil, by simp [findSinkRoot, findSinkType], by simp [expectedAt, tyId]⟩
  | some t =>
    cases slot <;> simp [gapAt] at hg
    exact ⟨t, by simp [findSinkRoot, findSinkType], by simp [expectedAt]⟩

theorem agrees_ret (c : Ctx) (b a up) (hctx : context c.frames = .ret b a :: up) (hp : c.matchIsParen = false)
    (hwf : wfFrames (.ret b a :: up) = true) (hg : gapAt (.ret b a :: up) = none) :
    Agrees c (.ret b a :: up) := by
  unfold Agrees sinkAt
  simp only [wfFrames, adjOk, Bool.and_eq_true] at hwf
  obtain ⟨⟨_, hadj⟩, _⟩ := hwf
  have hfi : firstIdx (fun j => (j == b) && !c.matchIsParen) (b + 1 + a) = some b := by
    rw [firstIdx_unique _ b] <;> simp [hp]
    omega
  cases he : enclosingFunc up with
  | none => simp [he] at hadj
  | some os =>
    cases os with
    | none => simp [he] at hadj
    | some s =>
      simp [he] at hadj
      simp [gapAt, he] at hg
      have hcf : findContainingFunc c.frames = some s := by
        rw [findContainingFunc_context hctx]; exact containingFunc_of_enclosing he
      cases hr : s.results[b]? with
      | none => simp at hr; omega
      | some t =>
        refine ⟨t, ?_, ?_⟩
        · simp [findSinkRoot, findSinkType, hfi, hcf, hr]
        · simp [expectedAt, he, hg, hr]

theorem agrees_index (c : Ctx) (inIndex xt xu up) (hp : c.matchIsParen = false)
    (hwf : wfFrames (.index inIndex xt xu :: up) = true) :
    Agrees c (.index inIndex xt xu :: up) := by
  unfold Agrees sinkAt
  simp only [wfFrames, frameOk, Bool.and_eq_true, bne_iff_ne, ne_eq] at hwf
  obtain ⟨⟨hx, _⟩, _⟩ := hwf
  cases inIndex with
  | false => exact ⟨.invalid, by simp [findSinkRoot, findSinkType], by simp [expectedAt, tyId]⟩
  | true =>
    cases xu <;> simp [findSinkRoot, findSinkType, hp, hx, expectedAt, tyId]

theorem agrees_assign (c : Ctx) (tok onRhs pos lhs nRhs up) (hp : c.matchIsParen = false)
    (hwf : wfFrames (.assign tok onRhs pos lhs nRhs :: up) = true) :
    Agrees c (.assign tok onRhs pos lhs nRhs :: up) := by
  unfold Agrees sinkAt
  simp only [wfFrames, frameOk, Bool.and_eq_true] at hwf
  obtain ⟨⟨hpos, _⟩, _⟩ := hwf
  by_cases htok : tok = .assign
  · subst htok
    by_cases hlen : lhs.length = nRhs
    · cases onRhs with
      | false =>
        exact ⟨.invalid, by simp [findSinkRoot, findSinkType, hlen, firstIdx_false], by simp [expectedAt, tyId]⟩
      | true =>
        simp at hpos
        have hfi := firstIdx_eq hpos
        cases hl : lhs[pos]? with
        | none => simp at hl; omega
        | some t => exact ⟨t, by simp [findSinkRoot, findSinkType, hlen, hp, hfi, hl], by simp [expectedAt, hlen, hl]⟩
    · refine ⟨.invalid, by simp [findSinkRoot, findSinkType, hlen], ?_⟩
      cases onRhs <;> simp [expectedAt, hlen, tyId]
  · refine ⟨.invalid, by simp [findSinkRoot, findSinkType, htok], ?_⟩
    cases tok <;> simp_all [expectedAt, tyId]

theorem agrees_send (c : Ctx) (v ct u up) (hg : gapAt (.send v ct u :: up) = none) : Agrees c (.send v ct u :: up) := by
  unfold Agrees sinkAt
  refine ⟨.invalid, by simp [findSinkRoot, findSinkType], ?_⟩
  cases v <;> cases u <;> simp_all [expectedAt, gapAt, tyId]

theorem agrees_misc (c : Ctx) (f up) (h : (∃ s, f = .funcLit s) ∨ (∃ s, f = .funcDecl s) ∨ (∃ e, f = .other e)) :
    Agrees c (f :: up) := by
  unfold Agrees sinkAt
  rcases h with ⟨s, rfl⟩ | ⟨s, rfl⟩ | ⟨e, rfl⟩ <;>
    exact ⟨.invalid, by simp [findSinkRoot, findSinkType], by simp [expectedAt, tyId]⟩

theorem fieldByName_eq_lookup (name : Nat) (fs : List (Nat × Ty)) : fieldByName name fs = fs.lookup name := by
  induction fs with
  | nil => rfl
  | cons f fs ih =>
    obtain ⟨n, t⟩ := f
    simp only [fieldByName, List.lookup, ih]
    by_cases h : n = name
    · subst h; simp
    · have h' : (name == n) = false := by simp; exact fun e => h e.symm
      simp [h, h']

theorem firstIdx_field {i n len : Nat} (hi : i < n) :
    firstIdx (fun j => (i == j) && decide (j < len)) n = if i < len then some i else none := by
  rw [firstIdx_unique _ i]
  · simp [hi]
  · intro j hj; simp at hj; omega

theorem agrees_composite (c : Ctx) (slot n lt u el up) (hp : c.matchIsParen = false)
    (hwf : wfFrames (.composite slot n lt u el :: up) = true) (hg : gapAt (.composite slot n lt u el :: up) = none) :
    Agrees c (.composite slot n lt u el :: up) := by
  unfold Agrees sinkAt
  simp only [wfFrames, frameOk, Bool.and_eq_true, bne_iff_ne, ne_eq] at hwf
  obtain ⟨⟨⟨hlt, hslot⟩, _⟩, _⟩ := hwf
  cases slot with
  | none =>
    cases u <;> simp [gapAt] at hg <;>
      simp [findSinkRoot, findSinkType, hlt, hp, expectedAt, tyId, firstIdx_false]
  | some i =>
    simp at hslot
    cases u <;> cases el <;> simp [gapAt] at hg <;>
      simp [findSinkRoot, findSinkType, hlt, hp, expectedAt, litUnder, elemExpects, tyId, firstIdx_field hslot]
    all_goals
      rename_i fields _
      by_cases hi : i < fields.length
      · have : fields[i]? = some fields[i] := by simp [hi]
        simp [hi]
      · have : fields[i]? = none := by simp; omega
        simp [hi]

theorem agrees_keyValue (c : Ctx) (k id up) (hp : c.matchIsParen = false)
    (hwf : wfFrames (.keyValue k id :: up) = true) (hg : gapAt (.keyValue k id :: up) = none) :
    Agrees c (.keyValue k id :: up) := by
  unfold Agrees sinkAt
  simp only [wfFrames, Bool.and_eq_true] at hwf
  obtain ⟨⟨_, hadj⟩, hup⟩ := hwf
  cases up with
  | nil => simp [adjOk] at hadj
  | cons f up =>
    cases f <;> simp [adjOk] at hadj
    rename_i slot n lt u el
    cases slot with
    | none => simp at hadj
    | some i =>
      simp only [wfFrames, frameOk, Bool.and_eq_true, bne_iff_ne, ne_eq] at hup
      obtain ⟨⟨⟨hlt, _⟩, _⟩, _⟩ := hup
      cases u <;> cases el <;> cases k <;> simp [gapAt] at hg <;>
        simp [findSinkRoot, Frame.isExpr, findSinkType, hlt, hp, expectedAt, litUnder, keyExpects, valueExpects, tyId,
          fieldByName_eq_lookup]
      all_goals
        rename_i fields _ _
        cases id with
        | none => simp
        | some name => cases hl : List.lookup name fields <;> simp [hl, tyId]

theorem paramTy_ok (s : Sig) (i : Nat) (h : i < s.params.length) :
    ∃ p, s.params[i]? = some p ∧ s.paramTy i = .ok p.ty := by
  refine ⟨s.params[i], by simp [h], ?_⟩
  simp [Sig.paramTy, h]

theorem callArg_spec (s : Sig) (ell : Bool) (n i : Nat) (hi : i < n)
    (hfn : sigOk s ell = true)
    (ha : arityOk s ell n = true) :
    ∃ t, callArg s ell i = .ok t ∧ tyId t = argExpects s ell n i := by
  unfold arityOk at ha
  unfold sigOk at hfn
  cases hv : s.variadic with
  | false =>
    simp [hv] at ha
    obtain ⟨p, hp1, hp2⟩ := paramTy_ok s i (by omega)
    refine ⟨p.ty, ?_, ?_⟩
    · have : (i : Int) < (s.params.length : Int) := by omega
      simp [callArg, hv, this, hp2]
    · simp [argExpects, hv, ha, hp1]
  | true =>
    simp [hv] at ha hfn
    cases hl : s.params.getLast? with
    | none => simp [hl] at hfn
    | some p =>
      simp [hl] at hfn
      have hne : s.params ≠ [] := by intro h; simp [h] at hl
      have hlen : 0 < s.params.length := List.length_pos_iff.mpr hne
      cases ell with
      | true =>
        simp at ha
        obtain ⟨q, hq1, hq2⟩ := paramTy_ok s i (by omega)
        refine ⟨q.ty, ?_, ?_⟩
        · have : (i : Int) < (s.params.length : Int) := by omega
          simp [callArg, hv, this, hq2]
        · simp [argExpects, hv, ha, hq1]
      | false =>
        simp at ha hfn
        by_cases hlt : i + 1 < s.params.length
        · obtain ⟨q, hq1, hq2⟩ := paramTy_ok s i (by omega)
          refine ⟨q.ty, ?_, ?_⟩
          · have h1 : ¬ ((s.params.length : Int) - 1 ≤ (i : Int)) := by omega
            have h2 : (i : Int) < (s.params.length : Int) := by omega
            simp [callArg, hv, h1, h2, hq2]
          · simp [argExpects, hv, ha, hlt, hq1]
        · cases hse : p.sliceElem with
          | none => simp [hse] at hfn
          | some el =>
            refine ⟨el, ?_, ?_⟩
            · have h1 : ((s.params.length : Int) - 1 ≤ (i : Int)) := by omega
              have h2 : ¬ ((s.params.length : Int) - 1 < 0) := by omega
              have h3 : ((s.params.length : Int) - 1).toNat = s.params.length - 1 := by omega
              have h4 : s.params[s.params.length - 1]? = some p := by
                rw [← List.getLast?_eq_getElem?]; exact hl
              simp [callArg, hv, h1, h2, h3, h4, hse]
            · simp [argExpects, hv, ha, hlt, hl, hse]

theorem agrees_call (c : Ctx) (slot n fn ell up) (hp : c.matchIsParen = false)
    (hwf : wfFrames (.call slot n fn ell :: up) = true) (hg : gapAt (.call slot n fn ell :: up) = none) :
    Agrees c (.call slot n fn ell :: up) := by
  unfold Agrees sinkAt
  simp only [wfFrames, frameOk, Bool.and_eq_true] at hwf
  obtain ⟨⟨⟨hslot, hfn⟩, _⟩, _⟩ := hwf
  cases fn with
  | notSig t isType =>
    cases slot with
    | none => simp [gapAt] at hg
    | some i =>
      cases isType <;> simp [gapAt] at hg
      exact ⟨t, by simp [findSinkRoot, findSinkType], by simp [expectedAt]⟩
  | sig s =>
    cases slot with
    | none => exact ⟨.invalid, by simp [findSinkRoot, findSinkType, firstIdx_false], by simp [expectedAt, tyId]⟩
    | some i =>
      simp at hslot
      simp [gapAt] at hg
      have hfi : firstIdx (fun j => i == j) n = some i := by
        rw [firstIdx_unique _ i] <;> simp [hslot]
      simp [findSinkRoot, findSinkType, hp, hfi, expectedAt]
      exact callArg_spec s ell n i hslot hfn hg

/-! ## assembly -/

theorem findSink_eq_sinkAt (c : Ctx) : findSink c = sinkAt c (context c.frames) := by
  unfold findSink sinkAt
  rw [findSinkRoot_context]
  cases findSinkRoot (context c.frames) <;> rfl

theorem agrees (c : Ctx) (fs : List Frame) (hctx : context c.frames = fs) (hp : c.matchIsParen = false)
    (hwf : wfFrames fs = true) (hg : gapAt fs = none) : Agrees c fs := by
  cases fs with
  | nil => exact ⟨.invalid, by simp [sinkAt, findSinkRoot, findSinkType], by simp [expectedAt, tyId]⟩
  | cons f up =>
    cases f with
    | paren => exact absurd hctx (context_not_paren _ _)
    | keyValue k id => exact agrees_keyValue c k id up hp hwf hg
    | valueSpec slot dt => exact agrees_valueSpec c slot dt up hg
    | ret b a => exact agrees_ret c b a up hctx hp hwf hg
    | index i xt xu => exact agrees_index c i xt xu up hp hwf
    | assign tok r pos lhs n => exact agrees_assign c tok r pos lhs n up hp hwf
    | composite slot n lt u el => exact agrees_composite c slot n lt u el up hp hwf hg
    | call slot n fn ell => exact agrees_call c slot n fn ell up hp hwf hg
    | funcLit s => exact agrees_misc c _ up (Or.inl ⟨s, rfl⟩)
    | funcDecl s => exact agrees_misc c _ up (Or.inr (Or.inl ⟨s, rfl⟩))
    | send v ct u => exact agrees_send c v ct u up hg
    | other e => exact agrees_misc c _ up (Or.inr (Or.inr ⟨e, rfl⟩))

/-! ## no panic, whatever the match and the context -/

theorem callArg_total (s : Sig) (ell : Bool) (i : Nat) (hfn : sigOk s ell = true) : ∃ t, callArg s ell i = .ok t := by
  unfold sigOk at hfn
  unfold callArg
  simp only
  split
  · rename_i hva
    simp only [Bool.and_eq_true, decide_eq_true_eq, Bool.not_eq_true'] at hva
    obtain ⟨⟨h1, hv⟩, hell⟩ := hva
    subst hell
    simp [hv] at hfn
    cases hl : s.params.getLast? with
    | none => simp [hl] at hfn
    | some p =>
      simp [hl] at hfn
      have hne : s.params ≠ [] := by intro h; simp [h] at hl
      have hlen : 0 < s.params.length := List.length_pos_iff.mpr hne
      have h2 : ¬ ((s.params.length : Int) - 1 < 0) := by omega
      have h3 : ((s.params.length : Int) - 1).toNat = s.params.length - 1 := by omega
      have h4 : s.params[s.params.length - 1]? = some p := by
        rw [← List.getLast?_eq_getElem?]; exact hl
      cases hse : p.sliceElem with
      | none => simp [hse] at hfn
      | some el => exact ⟨el, by simp [h2, h3, h4, hse]⟩
  · split
    · rename_i hlt
      have : i < s.params.length := by omega
      obtain ⟨p, _, hp2⟩ := paramTy_ok s i this
      exact ⟨p.ty, hp2⟩
    · exact ⟨.invalid, rfl⟩

theorem sinkAt_total (c : Ctx) (fs : List Frame) (hctx : context c.frames = fs) (hwf : wfFrames fs = true) :
    ∃ t, sinkAt c fs = .ok t := by
  unfold sinkAt
  cases fs with
  | nil => exact ⟨.invalid, by simp [findSinkRoot, findSinkType]⟩
  | cons f up =>
    simp only [wfFrames, Bool.and_eq_true] at hwf
    obtain ⟨⟨hok, hadj⟩, hup⟩ := hwf
    cases f with
    | paren => exact absurd hctx (context_not_paren _ _)
    | keyValue k id =>
      cases up with
      | nil => simp [adjOk] at hadj
      | cons g up =>
        cases g <;> simp [adjOk] at hadj
        rename_i slot n lt u el
        simp only [wfFrames, frameOk, Bool.and_eq_true, bne_iff_ne, ne_eq] at hup
        obtain ⟨⟨⟨hlt, _⟩, _⟩, _⟩ := hup
        cases u <;> simp [findSinkRoot, Frame.isExpr, findSinkType, hlt]
        · split <;> simp
        · cases id with
          | none => simp
          | some name =>
            simp only []
            generalize fieldByName _ _ = r
            cases r <;> exact ⟨_, rfl⟩
    | valueSpec slot dt => cases dt <;> simp [findSinkRoot, findSinkType]
    | ret b a =>
      simp only [findSinkRoot, findSinkType]
      cases hfi : firstIdx (fun j => (j == b) && !c.matchIsParen) (b + 1 + a) with
      | none => simp
      | some i =>
        have hib := (firstIdx_some hfi).1
        simp only [Bool.and_eq_true, beq_iff_eq] at hib
        obtain ⟨rfl, _⟩ := hib
        simp only [adjOk] at hadj
        cases he : enclosingFunc up with
        | none => simp [he] at hadj
        | some os =>
          cases os with
          | none => simp [he] at hadj
          | some s =>
            simp [he] at hadj
            have hcf : findContainingFunc c.frames = some s := by
              rw [findContainingFunc_context hctx]; exact containingFunc_of_enclosing he
            have : s.results[i]? = some s.results[i] := by simp [hadj]
            simp [hcf, this]
    | index i xt xu =>
      simp only [frameOk, bne_iff_ne, ne_eq] at hok
      simp only [findSinkRoot, findSinkType]
      split
      · cases xu <;> simp
      · simp
    | assign tok r pos lhs n =>
      simp only [findSinkRoot, findSinkType]
      split
      · simp
      · rename_i hcond
        simp only [Bool.or_eq_true, bne_iff_ne, ne_eq, not_or, Decidable.not_not] at hcond
        cases hfi : firstIdx (fun j => (r && j == pos) && !c.matchIsParen) n with
        | none => simp
        | some i =>
          have hin := (firstIdx_some hfi).2
          have : lhs[i]? = some lhs[i] := by simp
          simp [this]
    | composite slot n lt u el =>
      simp only [frameOk, Bool.and_eq_true, bne_iff_ne, ne_eq] at hok
      cases u <;> simp [findSinkRoot, findSinkType, hok.1]
      rename_i fields
      cases hfi : firstIdx (fun j => ((slot == some j) && !c.matchIsParen) && decide (j < fields.length)) n with
      | none => simp
      | some i =>
        have hib := (firstIdx_some hfi).1
        simp only [Bool.and_eq_true, decide_eq_true_eq] at hib
        have : fields[i]? = some fields[i] := by simp [hib.2]
        simp [this]
    | call slot n fn ell =>
      simp only [frameOk, Bool.and_eq_true] at hok
      cases fn with
      | notSig t isType => simp [findSinkRoot, findSinkType]
      | sig s =>
        simp only [findSinkRoot, findSinkType]
        cases hfi : firstIdx (fun j => (slot == some j) && !c.matchIsParen) n with
        | none => simp
        | some i => simpa using callArg_total s ell i hok.2
    | funcLit s => simp [findSinkRoot, findSinkType]
    | funcDecl s => simp [findSinkRoot, findSinkType]
    | send v ct u => simp [findSinkRoot, findSinkType]
    | other e => simp [findSinkRoot, findSinkType]

/-! ## the executable definition and the relation `Expects` say the same -/

theorem tyId_some {t : Ty} {n : Nat} (h : tyId t = some n) : t = .id n := by
  cases t <;> simp [tyId] at h; exact congrArg _ h

theorem expectedAt_of_expects {fs : List Frame} {n : Nat} (h : Expects fs n) : expectedAt (context fs) = some n := by
  induction h with
  | paren _ ih => simpa [context] using ih
  | varInit => simp [context, expectedAt, tyId]
  | retOperand he hl hr => simp [context, expectedAt, he, hl, hr, tyId]
  | mapIndex => simp [context, expectedAt, tyId]
  | assignOperand hl hr => simp [context, expectedAt, hl, hr, tyId]
  | litElem h => simpa [context, expectedAt] using h
  | litKey h => simpa [context, expectedAt] using h
  | litValue h => simpa [context, expectedAt] using h
  | callArg h => simpa [context, expectedAt] using h
  | conversion => simp [context, expectedAt, tyId]
  | sendOperand => simp [context, expectedAt, tyId]

theorem expects_of_expectedAt_head {fs : List Frame} {n : Nat} (h : expectedAt fs = some n) : Expects fs n := by
  unfold expectedAt at h
  split at h
  · rw [tyId_some h]; exact .varInit
  · split at h
    · split at h
      · rename_i he hl
        obtain ⟨t, hr, ht⟩ := Option.bind_eq_some_iff.mp h
        exact .retOperand he hl (by rw [hr, tyId_some ht])
      · cases h
    · cases h
  · rw [tyId_some h]; exact .mapIndex
  · split at h
    · rename_i hl
      obtain ⟨t, hr, ht⟩ := Option.bind_eq_some_iff.mp h
      exact .assignOperand hl (by rw [hr, tyId_some ht])
    · cases h
  · exact .litElem h
  · split at h
    · rename_i hk; subst hk; exact .litKey h
    · rename_i inKey _ _ _ _ _ _ _ hk
      have : inKey = false := by simpa using hk
      subst this; exact .litValue h
  · exact .callArg h
  · rw [tyId_some h]; exact .conversion
  · rw [tyId_some h]; exact .sendOperand
  · cases h

theorem expects_iff (fs : List Frame) (n : Nat) : Expects fs n ↔ expectedAt (context fs) = some n := by
  constructor
  · exact expectedAt_of_expects
  · intro h
    induction fs with
    | nil => exact expects_of_expectedAt_head (by simpa [context] using h)
    | cons f up ih =>
      by_cases hf : f = .paren
      · subst hf
        exact .paren (ih (by simpa [context] using h))
      · have : context (f :: up) = f :: up := by
          cases f <;> simp_all [context]
        rw [this] at h
        exact expects_of_expectedAt_head h

end SinkProofs
