import Rg.Proofs.QCompStmt
import Rg.Proofs.QSpecKeys
/-! # The statement-level invariant is preserved by what statements do to variables -/
namespace Q
open SpecC04 (Val Env lookup tagOf update leave KeysExt)

theorem lookup_cons (x : Nat) (v : Val) (env : Env) (y : Nat) :
    lookup ((x, v) :: env) y = if x = y then some v else lookup env y := by
  simp only [lookup, List.find?]
  by_cases h : x = y
  · simp [h]
  · have : (x == y) = false := by simpa using h
    simp [h, this]

theorem lookup_none_iff (env : Env) (x : Nat) : lookup env x = none ↔ x ∉ env.map Prod.fst := by
  induction env with
  | nil => simp [lookup]
  | cons p env ih =>
    obtain ⟨y, w⟩ := p
    rw [lookup_cons]
    by_cases h : y = x
    · simp [h]
    · have h' : ¬ x = y := fun e => h e.symm
      simp [h, h', ih]

theorem lookup_update : ∀ (env : Env) (x : Nat) (v : Val) (env' : Env), update env x v = some env' →
    ∀ y, lookup env' y = if y = x then some v else lookup env y
  | [], _, _, _, h => by simp [update] at h
  | (z, w) :: rest, x, v, env', h => by
    intro y
    simp only [update] at h
    split at h
    · rename_i hz
      have hz' : z = x := by simpa using hz
      simp at h; subst h; subst hz'
      rw [lookup_cons, lookup_cons]
      by_cases hy : z = y
      · simp [hy]
      · simp [hy]; intro h'; exact absurd h'.symm hy
    · rename_i hz
      have hz' : ¬ z = x := by simpa using hz
      cases hu : update rest x v with
      | none => simp [hu] at h
      | some r =>
        simp [hu] at h; subst h
        rw [lookup_cons, lookup_cons, lookup_update rest x v r hu y]
        by_cases hy : z = y
        · subst hy; simp [hz']
        · simp [hy]

theorem lookup_append_right {a b : Env} {x : Nat} (h : x ∉ a.map Prod.fst) : lookup (a ++ b) x = lookup b x := by
  induction a with
  | nil => rfl
  | cons p a ih =>
    obtain ⟨y, w⟩ := p
    simp only [List.map_cons, List.mem_cons, not_or] at h
    rw [List.cons_append, lookup_cons, ih h.2]
    simp [Ne.symm h.1]

theorem update_isSome_of_lookup : ∀ (env : Env) (x : Nat) (v w : Val), lookup env x = some w → ∃ env', update env x v = some env'
  | [], _, _, _, h => by simp [lookup] at h
  | (z, u) :: rest, x, v, w, h => by
    rw [lookup_cons] at h
    simp only [update]
    by_cases hz : z = x
    · simp [hz]
    · simp [hz] at h
      obtain ⟨r, hr⟩ := update_isSome_of_lookup rest x v w h
      simp [hz, hr]

/-! ### the invariant under the statements that change variables -/

theorem FrameOK.mono {fn : CFn} {l l' : List (Nat × Nat)} {env fr bO bI} (h : FrameOK fn l env fr bO bI)
    (hl : ∀ x i, mapGet l x = some i → mapGet l' x = some i) : FrameOK fn l' env fr bO bI := by
  intro x v hx
  rcases h x v hx with h1 | h2 | ⟨hp, hip, i, hi, hs⟩
  · exact Or.inl h1
  · exact Or.inr (Or.inl h2)
  · exact Or.inr (Or.inr ⟨hp, hip, i, hl x i hi, hs⟩)

theorem Inv.mono {fn : CFn} {l l' : List (Nat × Nat)} {env fr bO bI} (h : Inv fn l env fr bO bI)
    (hl : ∀ x i, mapGet l x = some i → mapGet l' x = some i) (hw : LocalsWF fn l') : Inv fn l' env fr bO bI :=
  ⟨h.frame.mono hl, h.nodup, hw, h.fwf⟩

theorem Inv.ext {fn : CFn} {cs cs' : SState} {env fr bO bI} (h : Inv fn cs.locals env fr bO bI) (he : SExt fn cs cs') :
    Inv fn cs'.locals env fr bO bI := h.mono he.locals (he.wf h.lwf)

/-- leaving a block -/
theorem Inv.leave {fn : CFn} {l : List (Nat × Nat)} {env env' : Env} {fr bO bI} (h : Inv fn l env' fr bO bI)
    (hk : KeysExt env env') : Inv fn l (leave env env') fr bO bI := by
  obtain ⟨a, he, hkeys⟩ := SpecC04.leave_of_keysExt hk
  have hnd := h.nodup
  rw [he, List.map_append, List.nodup_append] at hnd
  refine ⟨?_, hnd.2.1, h.lwf, h.fwf⟩
  intro x v hx
  apply h.frame x v
  rw [he, lookup_append_right]
  · exact hx
  · intro hxa
    have hxb : x ∈ (SpecC04.leave env env').map Prod.fst := by
      rw [← Classical.not_not (a := x ∈ _), ← lookup_none_iff]; simp [hx]
    exact hnd.2.2 x hxa x hxb rfl
/-- the frame after storing `v` into local slot `i` -/
def setSlot (fr : Frame) (i : Nat) : Val → Frame
  | .int k => { fr with intLocals := fr.intLocals.set i k }
  | v => { fr with locals := fr.locals.set i (objOf v) }

theorem setSlot_top (fr : Frame) (i : Nat) (v : Val) : (setSlot fr i v).top = fr.top ∧ (setSlot fr i v).intTop = fr.intTop := by
  cases v <;> simp [setSlot]

theorem setSlot_wf {fr : Frame} (h : FrameWF fr) (i : Nat) (v : Val) : FrameWF (setSlot fr i v) := by
  cases v <;> exact ⟨by simp [setSlot, h.lenO], by simp [setSlot, h.lenI]⟩

theorem slotHolds_setSlot_same {fr : Frame} (h : FrameWF fr) {i : Nat} (hi : i < 8) (v : Val) : slotHolds (setSlot fr i v) i v := by
  cases v <;> simp [slotHolds, setSlot, h.lenO, h.lenI, hi]

theorem slotHolds_setSlot_other {fr : Frame} {i j : Nat} (hij : j ≠ i) (v w : Val) (h : slotHolds fr j w) :
    slotHolds (setSlot fr i v) j w := by
  cases v <;> cases w <;> simp_all [slotHolds, setSlot, List.getElem?_set_ne (Ne.symm hij)]

theorem step_setSlot {f : CFunc} {fr : Frame} {st : Stack} {pc : Int} (hw : FrameWF fr) {i : Nat} (hi : i < 8) (v : Val) :
    step f fr (pushVal v st) pc (if isInt (tagOf v) then .setIntLocal i else .setLocal i) =
      .ok (.cont (setSlot fr i v) st (pc + 2)) := by
  cases v <;> simp [step, pushVal, pushInt, pushObj, popInt, popObj, setIdx, setSlot, tagOf, isInt, objOf, hw.lenO, hw.lenI, hi,
    bind, Res.bind]

/-- `x := v` with a fresh slot -/
theorem Inv.define {fn : CFn} {l : List (Nat × Nat)} {env : Env} {fr bO bI} (h : Inv fn l env fr bO bI)
    {x : Nat} (v : Val) (hn : mapGet l x = none) (hl : l.length ≠ 8) (hp : isParamName fn x = false) :
    Inv fn (mapSet l x l.length) ((x, v) :: env) (setSlot fr l.length v) bO bI := by
  have hlt : l.length < 8 := by have := h.lwf.len; omega
  have hpp : mapGet fn.params x = none ∧ mapGet fn.intParams x = none := by
    simp only [isParamName, Bool.or_eq_false_iff] at hp
    constructor
    · cases hq : mapGet fn.params x <;> simp_all
    · cases hq : mapGet fn.intParams x <;> simp_all
  have hxenv : x ∉ env.map Prod.fst := by
    rw [← lookup_none_iff]
    cases hq : lookup env x with
    | none => rfl
    | some w =>
      rcases h.frame x w hq with ⟨i, hi, _⟩ | ⟨_, i, k, hi, _⟩ | ⟨_, _, i, hi, _⟩
      · rw [hpp.1] at hi; simp at hi
      · rw [hpp.2] at hi; simp at hi
      · rw [hn] at hi; simp at hi
  refine ⟨?_, ?_, localsWF_define h.lwf hn hl hp, setSlot_wf h.fwf _ _⟩
  · intro y w hy
    rw [lookup_cons] at hy
    by_cases hxy : x = y
    · subst hxy
      simp at hy; subst hy
      refine Or.inr (Or.inr ⟨hpp.1, hpp.2, l.length, ?_, slotHolds_setSlot_same h.fwf hlt v⟩)
      rw [mapGet_mapSet_new hn]; simp
    · simp [hxy] at hy
      have ⟨e1, e2⟩ := setSlot_top fr l.length v
      rcases h.frame y w hy with ⟨i, hi, ht, hb⟩ | ⟨hq, i, k, hi, hk, hb⟩ | ⟨hq1, hq2, i, hi, hs⟩
      · exact Or.inl ⟨i, hi, ht, by rw [e1]; exact hb⟩
      · exact Or.inr (Or.inl ⟨hq, i, k, hi, hk, by rw [e2]; exact hb⟩)
      · refine Or.inr (Or.inr ⟨hq1, hq2, i, ?_, ?_⟩)
        · rw [mapGet_mapSet_new hn]; simp [Ne.symm hxy, hi]
        · have := h.lwf.lt y i hi
          exact slotHolds_setSlot_other (by omega) v w hs
  · simp only [List.map_cons, List.nodup_cons]
    exact ⟨hxenv, h.nodup⟩

/-- `x = v` for a local `x` -/
theorem Inv.assign {fn : CFn} {l : List (Nat × Nat)} {env env' : Env} {fr bO bI} (h : Inv fn l env fr bO bI)
    {x i : Nat} (v : Val) (hi : mapGet l x = some i) (hu : update env x v = some env') :
    Inv fn l env' (setSlot fr i v) bO bI := by
  have hlt : i < 8 := by have := h.lwf.lt x i hi; have := h.lwf.len; omega
  have hnp := h.lwf.noParam x i hi
  have hpp : mapGet fn.params x = none ∧ mapGet fn.intParams x = none := by
    simp only [isParamName, Bool.or_eq_false_iff] at hnp
    constructor
    · cases hq : mapGet fn.params x <;> simp_all
    · cases hq : mapGet fn.intParams x <;> simp_all
  refine ⟨?_, by rw [SpecC04.update_keys _ _ _ _ hu]; exact h.nodup, h.lwf, setSlot_wf h.fwf _ _⟩
  intro y w hy
  rw [lookup_update env x v env' hu] at hy
  have ⟨e1, e2⟩ := setSlot_top fr i v
  by_cases hyx : y = x
  · subst hyx
    simp at hy; subst hy
    exact Or.inr (Or.inr ⟨hpp.1, hpp.2, i, hi, slotHolds_setSlot_same h.fwf hlt v⟩)
  · simp [hyx] at hy
    rcases h.frame y w hy with ⟨j, hj, ht, hb⟩ | ⟨hq, j, k, hj, hk, hb⟩ | ⟨hq1, hq2, j, hj, hs⟩
    · exact Or.inl ⟨j, hj, ht, by rw [e1]; exact hb⟩
    · exact Or.inr (Or.inl ⟨hq, j, k, hj, hk, by rw [e2]; exact hb⟩)
    · refine Or.inr (Or.inr ⟨hq1, hq2, j, hj, ?_⟩)
      have hne : j ≠ i := fun e => hyx (h.lwf.inj y x i (e ▸ hj) hi)
      exact slotHolds_setSlot_other hne v w hs

end Q
