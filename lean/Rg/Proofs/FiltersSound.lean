import Rg.Proofs.Filters
/-! The loader's comparison dispatch computes what the comparison denotes (`SpecC17.semCmp`). -/
namespace FIR
open SpecC17

/-! ## lists: `exprListFilterApply` vs. "every element" -/

theorem allSome_cons_inv {x : Option Bool} {l : List (Option Bool)} {rb : Bool}
    (h : allSome (x :: l) = some rb) : ∃ b r, x = some b ∧ allSome l = some r ∧ rb = (b && r) := by
  cases x with
  | none => simp [allSome] at h
  | some b =>
    cases hl : allSome l with
    | none => simp [allSome, hl] at h
    | some r => simp [allSome, hl] at h; exact ⟨b, r, rfl, rfl, h.symm⟩

theorem mapM_cons_inv {α β} {f : α → Option β} {a : α} {as : List α} {bs : List β}
    (h : (a :: as).mapM f = some bs) : ∃ b bs', f a = some b ∧ as.mapM f = some bs' ∧ bs = b :: bs' := by
  simp only [List.mapM_cons, bind, Option.bind] at h
  cases hb : f a with
  | none => simp [hb] at h
  | some b =>
    simp only [hb] at h
    cases hbs : as.mapM f with
    | none => simp [hbs] at h
    | some bs' => simp [hbs] at h; exact ⟨b, bs', rfl, rfl, h.symm⟩

theorem sizeAll_sound {op : Op} {t : Tok} {k : CV} (ht : tokOf op = some t) :
    ∀ (es : List EF) (us : List V) (rb : Bool), es.mapM SpecC17.sizeOf = some us →
      allSome (us.map fun u => rel op u (vOf k)) = some rb → sizeAll t k es = .ok rb := by
  intro es
  induction es with
  | nil => intro us rb h1 h2; simp at h1; subst h1; simp [allSome] at h2; subst h2; rfl
  | cons e es ih =>
    intro us rb h1 h2
    obtain ⟨u, us', hs, hm, rfl⟩ := mapM_cons_inv h1
    rw [List.map_cons] at h2
    obtain ⟨b, r', hr, ha, rfl⟩ := allSome_cons_inv h2
    have ih' := ih us' r' hm ha
    unfold sizeAll
    by_cases htp : e.tparam = true
    · simp [SpecC17.sizeOf, htp] at hs; subst hs
      have := rel_unknown_l hr; subst this
      simp [htp]
    · simp [SpecC17.sizeOf, htp] at hs
      cases hsz : e.size with
      | none => simp [hsz] at hs
      | some s =>
        simp [hsz] at hs; subst hs
        have hc : constCompare (.int s) t k = b := rel_cv (x := .int s) ht hr
        cases b <;> simp_all [sizeOfEF]

theorem intAll_sound {op : Op} {t : Tok} {k : CV} (ht : tokOf op = some t) :
    ∀ (es : List EF) (rb : Bool),
      allSome (es.map fun e => rel op (intOf e) (vOf k)) = some rb →
      es.all (intElem t k) = rb := by
  intro es
  induction es with
  | nil => intro rb h; simp [allSome] at h; subst h; rfl
  | cons e es ih =>
    intro rb h
    rw [List.map_cons] at h
    obtain ⟨b, r', hr, ha, rfl⟩ := allSome_cons_inv h
    have ih' := ih r' ha
    simp only [List.all_cons, ih', intElem]
    cases hi : e.ival with
    | none =>
      simp [intOf, hi] at hr
      have := rel_unknown_l hr; subst this; simp
    | some i =>
      simp [intOf, hi] at hr
      have hc : constCompare (.int i) t k = b := rel_cv (x := .int i) ht hr
      simp [hc]

/-! ## single operands -/

theorem operand_size {c : Ctx} {v : Bytes} {as : List FE} {o : Operand}
    (h : operand c (.mk .varTypeSize (.str v) as) = some o) :
    (∃ l t e u, c.lookup v = some (.node l t (some e)) ∧ SpecC17.sizeOf e = some u ∧ o = .one u) ∨
    (∃ l t es us, c.lookup v = some (.list l t es) ∧ es.mapM SpecC17.sizeOf = some us ∧ o = .each us) := by
  simp only [operand] at h
  split at h
  · rename_i l t e hl
    cases hs : SpecC17.sizeOf e with
    | none => simp [hs] at h
    | some u => simp [hs] at h; exact .inl ⟨l, t, e, u, hl, hs, h.symm⟩
  · rename_i l t es hl
    cases hs : es.mapM SpecC17.sizeOf with
    | none => simp [hs] at h
    | some us => simp [hs] at h; exact .inr ⟨l, t, es, us, hl, hs, h.symm⟩
  · simp at h

theorem operand_int {c : Ctx} {v : Bytes} {as : List FE} {o : Operand}
    (h : operand c (.mk .varValueInt (.str v) as) = some o) :
    (∃ l t e, c.lookup v = some (.node l t (some e)) ∧ o = .one (intOf e)) ∨
    (∃ l t es, c.lookup v = some (.list l t es) ∧ o = .each (es.map intOf)) := by
  simp only [operand] at h
  split at h
  · rename_i l t e hl; simp at h; exact .inl ⟨l, t, e, hl, h.symm⟩
  · rename_i l t es hl; simp at h; exact .inr ⟨l, t, es, hl, h.symm⟩
  · simp at h

/-- a single size value against anything: what `makeTypeSize(Const)Filter` computes for one expression -/
theorem size_one {op : Op} {t : Tok} {e : EF} {u : V} {y : CV} {rb : Bool}
    (ht : tokOf op = some t) (hs : SpecC17.sizeOf e = some u) (hr : rel op u (vOf y) = some rb) :
    (if e.tparam then Res.ok false else
      match e.size with
      | none => Res.ok false
      | some s => Res.ok (constCompare (.int s) t y)) = .ok rb := by
  by_cases htp : e.tparam = true
  · simp [SpecC17.sizeOf, htp] at hs; subst hs
    have := rel_unknown_l hr; subst this; simp [htp]
  · simp [SpecC17.sizeOf, htp] at hs
    cases hsz : e.size with
    | none => simp [hsz] at hs
    | some s =>
      simp [hsz] at hs; subst hs
      have hc : constCompare (.int s) t y = rb := rel_cv (x := .int s) ht hr
      simp [htp, hsz, hc]

/-! ## the dispatch of `newBinaryExprFilter` below the swap -/

theorem semCmp_one_one {c : Ctx} {op : Op} {a b : FE} {u v : V}
    (ha : operand c a = some (.one u)) (hb : operand c b = some (.one v)) :
    semCmp c op a b = rel op u v := by
  simp [semCmp, ha, hb]

theorem semCmp_each_one {c : Ctx} {op : Op} {a b : FE} {us : List V} {v : V}
    (ha : operand c a = some (.each us)) (hb : operand c b = some (.one v)) (hl : b.op.isBasicLit = true) :
    semCmp c op a b = allSome (us.map fun u => rel op u v) := by
  simp [semCmp, ha, hb, hl]

theorem semCmp_each_one_nonlit {c : Ctx} {op : Op} {a b : FE} {us : List V} {v : V}
    (ha : operand c a = some (.each us)) (hb : operand c b = some (.one v)) (hl : b.op.isBasicLit = false) :
    semCmp c op a b = none := by
  simp [semCmp, ha, hb, hl]

theorem semCmp_lhs_none {c : Ctx} {op : Op} {a b : FE} (ha : operand c a = none) : semCmp c op a b = none := by
  simp [semCmp, ha]

theorem semCmp_rhs_none {c : Ctx} {op : Op} {a b : FE} (hb : operand c b = none) : semCmp c op a b = none := by
  simp only [semCmp, hb]
  split <;> simp_all

/-! ### literal on the right -/

theorem lineConst_sound {c : Ctx} {op : Op} {t : Tok} {v : Bytes} {as : List FE} {r : FE} {k : CV} {rb : Bool}
    (ht : tokOf op = some t) (hor : operand c r = some (.one (vOf k)))
    (hs : semCmp c op (.mk .varLine (.str v) as) r = some rb) : evalFlt c (.lineConst v t k) = .ok rb := by
  cases hol : operand c (.mk .varLine (.str v) as) with
  | none => rw [semCmp_lhs_none hol] at hs; simp at hs
  | some o =>
    obtain ⟨ln, rfl, hp⟩ := operand_line hol
    rw [semCmp_one_one hol hor] at hs
    have := rel_cv (x := .int ln) ht hs
    simp [evalFlt, hp, this]

theorem textConst_sound {c : Ctx} {op : Op} {t : Tok} {v : Bytes} {as : List FE} {r : FE} {k : CV} {rb : Bool}
    (ht : tokOf op = some t) (hor : operand c r = some (.one (vOf k)))
    (hs : semCmp c op (.mk .varText (.str v) as) r = some rb) : evalFlt c (.textConst v t k) = .ok rb := by
  cases hol : operand c (.mk .varText (.str v) as) with
  | none => rw [semCmp_lhs_none hol] at hs; simp at hs
  | some o =>
    obtain ⟨tx, rfl, hn⟩ := operand_text hol
    rw [semCmp_one_one hol hor] at hs
    have := rel_cv (x := .str tx) ht hs
    simp [evalFlt, hn, this]

theorem intConst_sound {c : Ctx} {op : Op} {t : Tok} {v : Bytes} {as : List FE} {r : FE} {k : CV} {rb : Bool}
    (ht : tokOf op = some t) (hlit : r.op.isBasicLit = true) (hor : operand c r = some (.one (vOf k)))
    (hs : semCmp c op (.mk .varValueInt (.str v) as) r = some rb) : evalFlt c (.intConst v t k) = .ok rb := by
  cases hol : operand c (.mk .varValueInt (.str v) as) with
  | none => rw [semCmp_lhs_none hol] at hs; simp at hs
  | some o =>
    rcases operand_int hol with ⟨ln, tx, e, hlk, rfl⟩ | ⟨ln, tx, es, hlk, rfl⟩
    · rw [semCmp_one_one hol hor] at hs
      simp only [evalFlt, hlk, subExprFacts]
      cases hi : e.ival with
      | none => simp [intOf, hi] at hs; have := rel_unknown_l hs; subst this; rfl
      | some i =>
        simp [intOf, hi] at hs
        have := rel_cv (x := .int i) ht hs
        simp [this]
    · rw [semCmp_each_one hol hor hlit, List.map_map] at hs
      have := intAll_sound ht es rb hs
      simp only [evalFlt, hlk]
      rw [this]

theorem sizeConst_sound {c : Ctx} {op : Op} {t : Tok} {v : Bytes} {as : List FE} {r : FE} {k : CV} {rb : Bool}
    (ht : tokOf op = some t) (hlit : r.op.isBasicLit = true) (hor : operand c r = some (.one (vOf k)))
    (hs : semCmp c op (.mk .varTypeSize (.str v) as) r = some rb) : evalFlt c (.sizeConst v t k) = .ok rb := by
  cases hol : operand c (.mk .varTypeSize (.str v) as) with
  | none => rw [semCmp_lhs_none hol] at hs; simp at hs
  | some o =>
    rcases operand_size hol with ⟨ln, tx, e, u, hlk, hsz, rfl⟩ | ⟨ln, tx, es, us, hlk, hsz, rfl⟩
    · rw [semCmp_one_one hol hor] at hs
      simp only [evalFlt, hlk, subExprFacts]
      exact size_one ht hsz hs
    · rw [semCmp_each_one hol hor hlit] at hs
      simp only [evalFlt, hlk]
      exact sizeAll_sound ht es us rb hsz hs

/-! ### variable on the right, same op -/

theorem line_sound {c : Ctx} {op : Op} {t : Tok} {v w : Bytes} {as bs : List FE} {rb : Bool}
    (ht : tokOf op = some t)
    (hs : semCmp c op (.mk .varLine (.str v) as) (.mk .varLine (.str w) bs) = some rb) :
    evalFlt c (.line v t w) = .ok rb := by
  cases hol : operand c (.mk .varLine (.str v) as) with
  | none => rw [semCmp_lhs_none hol] at hs; simp at hs
  | some o =>
    cases hor : operand c (.mk .varLine (.str w) bs) with
    | none => rw [semCmp_rhs_none hor] at hs; simp at hs
    | some o' =>
      obtain ⟨l1, rfl, hp1⟩ := operand_line hol
      obtain ⟨l2, rfl, hp2⟩ := operand_line hor
      rw [semCmp_one_one hol hor] at hs
      have := rel_cv (x := .int l1) (y := .int l2) ht hs
      simp [evalFlt, hp1, hp2, this]

theorem text_sound {c : Ctx} {op : Op} {t : Tok} {v w : Bytes} {as bs : List FE} {rb : Bool}
    (ht : tokOf op = some t)
    (hs : semCmp c op (.mk .varText (.str v) as) (.mk .varText (.str w) bs) = some rb) :
    evalFlt c (.text v t w) = .ok rb := by
  cases hol : operand c (.mk .varText (.str v) as) with
  | none => rw [semCmp_lhs_none hol] at hs; simp at hs
  | some o =>
    cases hor : operand c (.mk .varText (.str w) bs) with
    | none => rw [semCmp_rhs_none hor] at hs; simp at hs
    | some o' =>
      obtain ⟨t1, rfl, hp1⟩ := operand_text hol
      obtain ⟨t2, rfl, hp2⟩ := operand_text hor
      rw [semCmp_one_one hol hor] at hs
      have := rel_cv (x := .str t1) (y := .str t2) ht hs
      simp [evalFlt, hp1, hp2, this]

theorem semCmp_each_right {c : Ctx} {op : Op} {a b : FE} {o : Operand} {vs : List V}
    (ha : operand c a = some o) (hb : operand c b = some (.each vs)) (hl : a.op.isBasicLit = false) :
    semCmp c op a b = none := by
  cases o <;> simp [semCmp, ha, hb, hl]

theorem int_sound {c : Ctx} {op : Op} {t : Tok} {v w : Bytes} {as bs : List FE} {rb : Bool}
    (ht : tokOf op = some t)
    (hs : semCmp c op (.mk .varValueInt (.str v) as) (.mk .varValueInt (.str w) bs) = some rb) :
    evalFlt c (.int v t w) = .ok rb := by
  cases hol : operand c (.mk .varValueInt (.str v) as) with
  | none => rw [semCmp_lhs_none hol] at hs; simp at hs
  | some o =>
    cases hor : operand c (.mk .varValueInt (.str w) bs) with
    | none => rw [semCmp_rhs_none hor] at hs; simp at hs
    | some o' =>
      rcases operand_int hor with ⟨l2, t2, e2, hk2, rfl⟩ | ⟨l2, t2, es2, hk2, rfl⟩
      · rcases operand_int hol with ⟨l1, t1, e1, hk1, rfl⟩ | ⟨l1, t1, es1, hk1, rfl⟩
        · rw [semCmp_one_one hol hor] at hs
          simp only [evalFlt, subExprFacts, hk1, hk2]
          cases h1 : e1.ival with
          | none => simp [intOf, h1] at hs; have := rel_unknown_l hs; subst this; rfl
          | some i =>
            cases h2 : e2.ival with
            | none => simp [intOf, h2] at hs; have := rel_unknown_r hs; subst this; rfl
            | some j =>
              simp [intOf, h1, h2] at hs
              have := rel_cv (x := .int i) (y := .int j) ht hs
              simp [this]
        · rw [semCmp_each_one_nonlit hol hor (by simp [FE.op, Op.isBasicLit])] at hs; simp at hs
      · rw [semCmp_each_right hol hor (by simp [FE.op, Op.isBasicLit])] at hs; simp at hs

theorem size_sound {c : Ctx} {op : Op} {t : Tok} {v w : Bytes} {as bs : List FE} {rb : Bool}
    (ht : tokOf op = some t)
    (hs : semCmp c op (.mk .varTypeSize (.str v) as) (.mk .varTypeSize (.str w) bs) = some rb) :
    evalFlt c (.size v t w) = .ok rb := by
  cases hol : operand c (.mk .varTypeSize (.str v) as) with
  | none => rw [semCmp_lhs_none hol] at hs; simp at hs
  | some o =>
    cases hor : operand c (.mk .varTypeSize (.str w) bs) with
    | none => rw [semCmp_rhs_none hor] at hs; simp at hs
    | some o' =>
      rcases operand_size hor with ⟨l2, t2, e2, u2, hk2, hz2, rfl⟩ | ⟨l2, t2, es2, us2, hk2, hz2, rfl⟩
      · rcases operand_size hol with ⟨l1, t1, e1, u1, hk1, hz1, rfl⟩ | ⟨l1, t1, es1, us1, hk1, hz1, rfl⟩
        · rw [semCmp_one_one hol hor] at hs
          simp only [evalFlt, subExprFacts, hk1, hk2]
          by_cases hp1 : e1.tparam = true
          · simp [SpecC17.sizeOf, hp1] at hz1; subst hz1
            have := rel_unknown_l hs; subst this; simp [hp1]
          · by_cases hp2 : e2.tparam = true
            · simp [SpecC17.sizeOf, hp2] at hz2; subst hz2
              have := rel_unknown_r hs; subst this; simp [hp2]
            · simp [SpecC17.sizeOf, hp1] at hz1
              simp [SpecC17.sizeOf, hp2] at hz2
              cases hs1 : e1.size with
              | none => simp [hs1] at hz1
              | some s1 =>
                cases hs2 : e2.size with
                | none => simp [hs2] at hz2
                | some s2 =>
                  simp [hs1] at hz1; simp [hs2] at hz2; subst hz1; subst hz2
                  have := rel_cv (x := .int s1) (y := .int s2) ht hs
                  simp [hp1, hp2, sizeOfEF, hs1, hs2, this]
        · rw [semCmp_each_one_nonlit hol hor (by simp [FE.op, Op.isBasicLit])] at hs; simp at hs
      · rw [semCmp_each_right hol hor (by simp [FE.op, Op.isBasicLit])] at hs; simp at hs

end FIR
