import Rg.Proofs.QEnc
/-!
# Execution lemmas about the VM model (`Q.run`)

`Reaches c₁ c₂`: whatever the machine does from `c₂` (any outcome other than running out of fuel) it
also does from `c₁` (with more fuel).  Single instructions give `Reaches` steps; `run_mono` (more
fuel never changes an outcome) is needed to combine a callee's run with its caller's continuation.
-/
namespace Q

structure Cfg where
  fr : Frame
  pc : Int
  st : Stack

variable (fx : Fixes) (env : VEnv) (f : CFunc)

def Reaches (c1 c2 : Cfg) : Prop :=
  ∀ n K, run fx env n f c2.fr c2.pc c2.st = K → K ≠ .fuel →
    ∃ m, run fx env m f c1.fr c1.pc c1.st = K

theorem Reaches.refl (c : Cfg) : Reaches fx env f c c := fun n K h _ => ⟨n, h⟩

theorem Reaches.trans {c1 c2 c3 : Cfg} (h12 : Reaches fx env f c1 c2) (h23 : Reaches fx env f c2 c3) :
    Reaches fx env f c1 c3 := by
  intro n K h hK
  obtain ⟨m, hm⟩ := h23 n K h hK
  exact h12 m K hm hK

/-- one instruction that continues in the same frame -/
theorem reaches_step {fr : Frame} {pc : Int} {st : Stack} {ins : Instr} {fr' : Frame} {st' : Stack} {pc' : Int}
    (hd : decodeAt f.code pc = .ok ins) (hs : step f fr st pc ins = .ok (.cont fr' st' pc')) :
    Reaches fx env f ⟨fr, pc, st⟩ ⟨fr', pc', st'⟩ := by
  intro n K h _
  exact ⟨n + 1, by simp only [run, hd, hs]; exact h⟩

theorem run_ret {fr : Frame} {pc : Int} {st : Stack} {ins : Instr} {r : CallResult} {st' : Stack}
    (hd : decodeAt f.code pc = .ok ins) (hs : step f fr st pc ins = .ok (.ret r st')) (n : Nat) :
    run fx env (n + 1) f fr pc st = .done (r, st') := by
  simp only [run, hd, hs]

theorem run_panic {fr : Frame} {pc : Int} {st : Stack} {ins : Instr} {p : Panic}
    (hd : decodeAt f.code pc = .ok ins) (hs : step f fr st pc ins = .panic p) (n : Nat) :
    run fx env (n + 1) f fr pc st = .panic p := by
  simp only [run, hd, hs]

/-- a configuration from which the machine ends with outcome `K` -/
def Ends (c : Cfg) (K : Out (CallResult × Stack)) : Prop :=
  ∃ m, run fx env m f c.fr c.pc c.st = K

theorem Ends.of_reaches {c1 c2 : Cfg} {K} (h : Reaches fx env f c1 c2) (hK : K ≠ .fuel)
    (he : Ends fx env f c2 K) : Ends fx env f c1 K := by
  obtain ⟨m, hm⟩ := he
  exact h m K hm hK

theorem run_mono : ∀ (n : Nat) (f : CFunc) (fr : Frame) (pc : Int) (st : Stack) (K : Out (CallResult × Stack)),
    run fx env n f fr pc st = K → K ≠ .fuel → ∀ k, run fx env (n + k) f fr pc st = K := by
  intro n
  induction n with
  | zero => intro f fr pc st K h hK; simp [run] at h; exact absurd h.symm hK
  | succ n ih =>
    intro f fr pc st K h hK k
    have e : n + 1 + k = (n + k) + 1 := by omega
    rw [e]
    simp only [run] at h ⊢
    cases hd : decodeAt f.code pc with
    | panic p => simpa [hd] using h
    | ok ins =>
      simp only [hd] at h ⊢
      cases hs : step f fr st pc ins with
      | panic p => simpa [hs] using h
      | ok nx =>
        simp only [hs] at h ⊢
        cases nx with
        | cont fr' st' pc' => exact ih _ _ _ _ _ h hK k
        | ret r st' => exact h
        | native id =>
          simp only at h ⊢
          cases hf : funcAt env.natives id with
          | panic p => simpa [hf] using h
          | ok nat =>
            simp only [hf] at h ⊢
            cases hn : runNative nat st with
            | done st' => simp only [hn] at h ⊢; exact ih _ _ _ _ _ h hK k
            | panic p => simpa [hn] using h
            | fuel => simpa [hn] using h
            | unsup => simpa [hn] using h
        | call id kind =>
          simp only at h ⊢
          cases hf : funcAt env.funcs id with
          | panic p => simpa [hf] using h
          | ok g =>
            simp only [hf] at h ⊢
            cases hc : run fx env n g (newFrame (↑st.objs.length - ↑g.numObjectParams) (↑st.ints.length - ↑g.numIntParams)) 0 st with
            | fuel => simp [hc] at h; exact absurd h.symm hK
            | panic p =>
              rw [ih _ _ _ _ _ hc (by simp) k]; simpa [hc] using h
            | unsup =>
              rw [ih _ _ _ _ _ hc (by simp) k]; simpa [hc] using h
            | done rs =>
              rw [ih _ _ _ _ _ hc (by simp) k]
              simp only [hc] at h ⊢
              obtain ⟨r, st1⟩ := rs
              simp only at h ⊢
              split at h
              · exact h
              · exact ih _ _ _ _ _ h hK k

/-- the stacks after a call returned: cut back to the callee's frame base when the frame repair is on -/
def afterCall (fx : Fixes) (st st1 : Stack) (g : CFunc) : Res Stack :=
  if fx.frame then
    (do let o ← truncTo st1.objs ((st.objs.length : Int) - g.numObjectParams)
        let i ← truncTo st1.ints ((st.ints.length : Int) - g.numIntParams)
        pure { st1 with objs := o, ints := i } : Res Stack)
  else .ok st1

def pushResult (kind : Nat) (r : CallResult) (st : Stack) : Stack :=
  if kind = 0 then pushObj r.value st else if kind = 1 then pushInt r.scalar st else st

/-- a call instruction whose callee ends with a result continues behind the call -/
theorem reaches_call {f : CFunc} {fr : Frame} {pc : Int} {st : Stack} {ins : Instr} {id : Int} {kind : Nat} {g : CFunc}
    {r : CallResult} {st1 st2 : Stack}
    (hd : decodeAt f.code pc = .ok ins) (hs : step f fr st pc ins = .ok (.call id kind))
    (hf : funcAt env.funcs id = .ok g)
    (hc : Ends fx env g ⟨newFrame ((st.objs.length : Int) - g.numObjectParams) ((st.ints.length : Int) - g.numIntParams), 0, st⟩
            (.done (r, st1)))
    (ha : afterCall fx st st1 g = .ok st2) :
    Reaches fx env f ⟨fr, pc, st⟩ ⟨fr, pc + 3, pushResult kind r st2⟩ := by
  intro n K h hK
  obtain ⟨m, hm⟩ := hc
  refine ⟨max m n + 1, ?_⟩
  have h1 := run_mono fx env m _ _ _ _ _ hm (by simp) (max m n - m)
  have h2 := run_mono fx env n _ _ _ _ _ h hK (max m n - n)
  have e1 : m + (max m n - m) = max m n := by omega
  have e2 : n + (max m n - n) = max m n := by omega
  rw [e1] at h1; rw [e2] at h2
  simp only [run, hd, hs, hf]
  simp only at h1
  rw [h1]
  simp only [afterCall] at ha
  simp only [ha]
  exact h2

/-- a call whose callee panics (or meets an unsupported native) ends the caller the same way -/
theorem ends_call_abort {f : CFunc} {fr : Frame} {pc : Int} {st : Stack} {ins : Instr} {id : Int} {kind : Nat} {g : CFunc}
    {K : Out (CallResult × Stack)}
    (hd : decodeAt f.code pc = .ok ins) (hs : step f fr st pc ins = .ok (.call id kind))
    (hf : funcAt env.funcs id = .ok g)
    (hc : Ends fx env g ⟨newFrame ((st.objs.length : Int) - g.numObjectParams) ((st.ints.length : Int) - g.numIntParams), 0, st⟩ K)
    (hK : (∃ p, K = .panic p) ∨ K = .unsup) :
    Ends fx env f ⟨fr, pc, st⟩ K := by
  obtain ⟨m, hm⟩ := hc
  refine ⟨m + 1, ?_⟩
  simp only [run, hd, hs, hf]
  simp only at hm
  rw [hm]
  rcases hK with ⟨p, rfl⟩ | rfl <;> rfl


theorem Reaches.pc_cast {fx : Fixes} {env : VEnv} {f : CFunc} {fr fr' : Frame} {st st' : Stack} {p1 p1' p2 p2' : Int}
    (h : Reaches fx env f ⟨fr, p1, st⟩ ⟨fr', p2, st'⟩) (e1 : p1 = p1') (e2 : p2 = p2') :
    Reaches fx env f ⟨fr, p1', st⟩ ⟨fr', p2', st'⟩ := by subst e1; subst e2; exact h

theorem Ends.pc_cast {fx : Fixes} {env : VEnv} {f : CFunc} {fr : Frame} {st : Stack} {p1 p1' : Int} {K}
    (h : Ends fx env f ⟨fr, p1, st⟩ K) (e1 : p1 = p1') : Ends fx env f ⟨fr, p1', st⟩ K := by subst e1; exact h

theorem At.pc_cast {code : Bytes} {p p' : Int} {is : List Instr} (h : At code p is) (e : p = p') : At code p' is := by
  subst e; exact h

theorem decodeAt_cast {code : Bytes} {p p' : Int} {i : Instr} (h : decodeAt code p = .ok i) (e : p = p') :
    decodeAt code p' = .ok i := by subst e; exact h


/-- program-counter arithmetic: sizes of concrete instruction lists, then linear arithmetic -/
macro "pcarith" : tactic =>
  `(tactic| first
    | omega
    | (simp only [isize_append, isize_cons, isize_nil, Instr.w_pop, Instr.w_dup, Instr.w_pushFalse, Instr.w_pushTrue,
        Instr.w_convIntToIface, Instr.w_returnTop, Instr.w_returnIntTop, Instr.w_returnFalse, Instr.w_returnTrue, Instr.w_ret,
        Instr.w_isNil, Instr.w_isNotNil, Instr.w_not, Instr.w_eqInt, Instr.w_notEqInt, Instr.w_gtInt, Instr.w_gtEqInt,
        Instr.w_ltInt, Instr.w_ltEqInt, Instr.w_eqString, Instr.w_notEqString, Instr.w_concat, Instr.w_add, Instr.w_sub,
        Instr.w_stringSlice, Instr.w_stringSliceFrom, Instr.w_stringSliceTo, Instr.w_stringLen,
        Instr.w_pushParam, Instr.w_pushIntParam, Instr.w_pushLocal, Instr.w_pushIntLocal, Instr.w_pushConst, Instr.w_pushIntConst,
        Instr.w_setLocal, Instr.w_setIntLocal, Instr.w_incLocal, Instr.w_decLocal, Instr.w_setVariadicLen,
        Instr.w_jump, Instr.w_jumpFalse, Instr.w_jumpTrue, Instr.w_callNative, Instr.w_call, Instr.w_intCall, Instr.w_voidCall,
        Instr.w_ite_jump, Instr.w_ite_nil, Instr.w_ite_bool]; omega))

end Q
