import Rg.Model.Comment
import Rg.Proofs.Regex
import Rg.Proofs.CommentSpan
/-! Helper lemmas about the comment-rule model. -/
namespace CM
open Rx

def slice (b : Bytes) (lo hi : Nat) : Bytes := (b.drop lo).take (hi - lo)

theorem goSlice_ok (s : Bytes) (lo hi : Int) (h0 : 0 ≤ lo) (h1 : lo ≤ hi) (h2 : hi ≤ s.length) :
    goSlice s lo hi = .ok (slice s lo.toNat hi.toNat) := by
  unfold goSlice slice
  rw [if_pos ⟨h0, h1, h2⟩]
  congr 2
  omega

theorem filePos_in (size : Nat) (x : Int) (h0 : 0 ≤ x) (h1 : x ≤ size) : filePos size x = x.toNat := by
  unfold filePos
  rw [if_neg (by omega), if_neg (by omega)]

theorem slice_length (b : Bytes) (lo hi : Nat) (h1 : lo ≤ hi) (h2 : hi ≤ b.length) : (slice b lo hi).length = hi - lo := by
  simp [slice]; omega

/-- the comment's `Text` is literally the bytes of the file at the comment's offset (false for a comment from
which go/scanner stripped carriage returns) -/
def NoCR (src : Bytes) (off : Nat) (text : Bytes) : Prop := slice src off (off + text.length) = text

theorem noCR_drop {src : Bytes} {off : Nat} {text : Bytes} (h : NoCR src off text) :
    src.drop off = text ++ (src.drop off).drop text.length := by
  unfold NoCR slice at h
  have : off + text.length - off = text.length := by omega
  rw [this] at h
  have := List.take_append_drop text.length (src.drop off)
  rw [h] at this
  exact this.symm

theorem crtext_of_noCR {src : Bytes} {off : Nat} {text : Bytes} (h : NoCR src off text) : CRText src off text := by
  unfold CRText
  rw [noCR_drop h]
  exact (Del.refl text).emb _

/-- how the runner's view of the file (`msrc` = what `fileBytes()` returns) relates to the file `src` and the
comment in it: the comment text is the file's bytes at `off` up to carriage returns the scanner removed; the
runner reads that very file — or nothing, and then nothing can have been removed; the comment lies in the file. -/
structure View (msrc src : Bytes) (size off : Nat) (text : Bytes) : Prop where
  cr : CRText src off text
  seen : msrc = src ∨ (msrc = [] ∧ NoCR src off text)
  fit : off + text.length ≤ size
  size : src.length ≤ size

/-- the node for `text[lo:hi]`: that text at the span of the file it stands for -/
def spanNode (src : Bytes) (off : Nat) (text : Bytes) (lo hi : Nat) : Node :=
  ⟨(SpecC12.fileSpan src off text lo hi).1, slice text lo hi, (SpecC12.fileSpan src off text lo hi).2⟩

theorem fileSpan_zero (src : Bytes) (off : Nat) (text : Bytes) : SpecC12.fileSpan src off text 0 0 = (off, off) := by
  unfold SpecC12.fileSpan
  cases SpecC12.origins (src.drop off) text off <;> simp

/-- `commentTextSpan` on what the runner sees gives the span in the file -/
theorem textSpan_view {msrc src : Bytes} {size off : Nat} {text : Bytes} (vw : View msrc src size off text)
    (lo hi : Nat) (hle : lo ≤ hi) (hhi : hi ≤ text.length) :
    textSpan msrc off text lo hi = .ok (SpecC12.fileSpan src off text lo hi) := by
  obtain ⟨K, hK⟩ := crtext_after vw.cr
  rw [fileSpan_eq src off text lo hi K hle hhi hK]
  rcases vw.seen with h | ⟨h, hno⟩
  · subst h
    obtain ⟨k, hk, _⟩ := after_mono hK hi hhi
    exact textSpan_eq msrc off text lo hi k hle hk
  · subst h
    rw [textSpan_nosrc off text lo hi hle, noCR_drop hno, spanC_prefix text _ off lo hi hle hhi]

/-- the span lies in the file -/
theorem fileSpan_le {msrc src : Bytes} {size off : Nat} {text : Bytes} (vw : View msrc src size off text)
    (lo hi : Nat) (hle : lo ≤ hi) (hhi : hi ≤ text.length) :
    off ≤ (SpecC12.fileSpan src off text lo hi).1 ∧ (SpecC12.fileSpan src off text lo hi).1 ≤ (SpecC12.fileSpan src off text lo hi).2 ∧
      (SpecC12.fileSpan src off text lo hi).2 ≤ size := by
  obtain ⟨K, hK⟩ := crtext_after vw.cr
  rw [fileSpan_eq src off text lo hi K hle hhi hK]
  obtain ⟨a, b, he, hab, hb, _, hhb, _⟩ := spanC_spec hK off lo hi hle hhi
  rw [he]
  refine ⟨by simp, by simp; omega, ?_⟩
  have h1 := vw.fit
  have h2 := vw.size
  simp only [List.length_drop] at hb
  simp only
  omega

/-- in-range indices: the node carries `text[lo:hi]` at the span of the file that piece stands for -/
theorem mkNode_ok {msrc src : Bytes} {size off : Nat} {text : Bytes} (vw : View msrc src size off text)
    (lo hi : Int) (h0 : 0 ≤ lo) (h1 : lo ≤ hi) (h2 : hi ≤ text.length) :
    mkNode msrc size off text lo hi = .ok (spanNode src off text lo.toNat hi.toNat) := by
  unfold mkNode
  rw [goSlice_ok text lo hi h0 h1 h2]
  simp only [Res.bind]
  rw [textSpan_view vw lo.toNat hi.toNat (by omega) (by omega)]
  obtain ⟨_, hpe, he⟩ := fileSpan_le vw lo.toNat hi.toNat (by omega) (by omega)
  simp only
  rw [filePos_in size _ (by omega) (by omega), filePos_in size _ (by omega) (by omega)]
  rfl

/-- the node of a group that did not participate: empty, at the comment's start -/
theorem mkNode_zero {msrc src : Bytes} {size off : Nat} {text : Bytes} (vw : View msrc src size off text) :
    mkNode msrc size off text 0 0 = .ok ⟨off, [], off⟩ := by
  rw [mkNode_ok vw 0 0 (by omega) (by omega) (by omega)]
  simp [spanNode, fileSpan_zero, slice]

/-! ## the rule loop -/

/-- a rule that does not report: its regexp does not match, or its filter rejects -/
def Rejected (alt : Bool) (src : Bytes) (size : Nat) (cfg : Int) (off : Nat) (text : Bytes) (r : CRule) : Prop :=
  buildMatch src size off text r = .ok none ∨
    ∃ m j, buildMatch src size off text r = .ok (some m) ∧ handleCommentMatch alt cfg j r m = .ok none

theorem runFrom_some (alt : Bool) (src : Bytes) (size : Nat) (cfg : Int) (off : Nat) (text : Bytes) (rules : List CRule)
    (k : Nat) (rep : Report) (h : runFrom alt src size cfg off text k rules = .ok (some rep)) :
    ∃ pre r post m, rules = pre ++ r :: post ∧ buildMatch src size off text r = .ok (some m) ∧
      handleCommentMatch alt cfg (k + pre.length) r m = .ok (some rep) ∧
      ∀ r', r' ∈ pre → Rejected alt src size cfg off text r' := by
  induction rules generalizing k with
  | nil => simp [runFrom] at h
  | cons r rest ih =>
    unfold runFrom at h
    cases hb : buildMatch src size off text r with
    | panic p => simp [hb, Res.bind] at h
    | ok om =>
      simp only [hb, Res.bind] at h
      cases om with
      | none =>
        simp only at h
        obtain ⟨pre, r0, post, m, he, hm, hh, hrej⟩ := ih (k + 1) h
        refine ⟨r :: pre, r0, post, m, by rw [he]; rfl, hm, ?_, ?_⟩
        · have : k + (r :: pre).length = k + 1 + pre.length := by simp; omega
          rw [this]; exact hh
        · intro r' hr'
          rcases List.mem_cons.1 hr' with rfl | hr'
          · exact .inl hb
          · exact hrej r' hr'
      | some m =>
        simp only at h
        cases hh : handleCommentMatch alt cfg k r m with
        | panic p => simp [hh] at h
        | ok orep =>
          simp only [hh] at h
          cases orep with
          | some x =>
            simp only [Res.ok.injEq, Option.some.injEq] at h
            subst h
            exact ⟨[], r, rest, m, rfl, hb, by simpa using hh, by intro _ h'; simp at h'⟩
          | none =>
            simp only at h
            obtain ⟨pre, r0, post, m0, he, hm, hh0, hrej⟩ := ih (k + 1) h
            refine ⟨r :: pre, r0, post, m0, by rw [he]; rfl, hm, ?_, ?_⟩
            · have : k + (r :: pre).length = k + 1 + pre.length := by simp; omega
              rw [this]; exact hh0
            · intro r' hr'
              rcases List.mem_cons.1 hr' with rfl | hr'
              · exact .inr ⟨m, k, hb, hh⟩
              · exact hrej r' hr'

theorem runFrom_none (alt : Bool) (src : Bytes) (size : Nat) (cfg : Int) (off : Nat) (text : Bytes) (rules : List CRule)
    (k : Nat) (h : runFrom alt src size cfg off text k rules = .ok none) :
    ∀ r, r ∈ rules → Rejected alt src size cfg off text r := by
  induction rules generalizing k with
  | nil => intro r hr; simp at hr
  | cons r rest ih =>
    unfold runFrom at h
    cases hb : buildMatch src size off text r with
    | panic p => simp [hb, Res.bind] at h
    | ok om =>
      simp only [hb, Res.bind] at h
      cases om with
      | none =>
        simp only at h
        intro r' hr'
        rcases List.mem_cons.1 hr' with rfl | hr'
        · exact .inl hb
        · exact ih (k + 1) h r' hr'
      | some m =>
        simp only at h
        cases hh : handleCommentMatch alt cfg k r m with
        | panic p => simp [hh] at h
        | ok orep =>
          simp only [hh] at h
          cases orep with
          | some x => simp at h
          | none =>
            simp only at h
            intro r' hr'
            rcases List.mem_cons.1 hr' with rfl | hr'
            · exact .inr ⟨m, k, hb, hh⟩
            · exact ih (k + 1) h r' hr'

/-! ## one accepted match -/

def atomVar : Atom → Bytes | .textEq v _ => v | .textNe v _ => v
def atomHolds (a : Atom) (t : Bytes) : Bool :=
  match a with | .textEq _ l => t == l | .textNe _ l => !(t == l)

/-- an accepting filter saw, for each of its atoms, the text of the named submatch and found the comparison true -/
theorem evalFilter_true (m : MatchD) (atoms : List Atom) (h : evalFilter m atoms = .ok true) :
    ∀ a, a ∈ atoms → ∃ n, capturedByName m (atomVar a) = some n ∧ atomHolds a n.text = true := by
  induction atoms with
  | nil => intro a ha; simp at ha
  | cons a rest ih =>
    unfold evalFilter at h
    cases a with
    | textEq v l =>
      simp only at h
      cases hc : capturedByName m v with
      | none => simp [hc] at h
      | some n =>
        simp only [hc] at h
        by_cases hcmp : ((nodeText n == l) == true) = true
        · rw [if_pos hcmp] at h
          intro a' ha'
          rcases List.mem_cons.1 ha' with rfl | ha'
          · exact ⟨n, hc, by simpa [atomHolds, nodeText] using hcmp⟩
          · exact ih h a' ha'
        · rw [if_neg hcmp] at h; simp at h
    | textNe v l =>
      simp only at h
      cases hc : capturedByName m v with
      | none => simp [hc] at h
      | some n =>
        simp only [hc] at h
        by_cases hcmp : ((nodeText n == l) == false) = true
        · rw [if_pos hcmp] at h
          intro a' ha'
          rcases List.mem_cons.1 ha' with rfl | ha'
          · refine ⟨n, hc, ?_⟩
            simp only [atomHolds, nodeText] at hcmp ⊢
            cases hb : (n.text == l) <;> simp [hb] at hcmp ⊢
          · exact ih h a' ha'
        · rw [if_neg hcmp] at h; simp at h

/-- what a delivered report consists of -/
theorem handle_some (alt : Bool) (cfg : Int) (k : Nat) (r : CRule) (m : MatchD) (rep : Report)
    (h : handleCommentMatch alt cfg k r m = .ok (some rep)) :
    rep.rule = k ∧ rep.line = (if alt then r.altLine else r.line) ∧
      rep.node = reportNode m r ∧
      renderMessage cfg r.msg m true = .ok rep.msg ∧
      (r.suggestion = [] → rep.sugg = none) ∧
      (r.suggestion ≠ [] → ∃ n repl, rep.node = some n ∧ renderMessage cfg r.suggestion m false = .ok repl ∧
          rep.sugg = some (n.pos, n.endPos, repl)) ∧
      (∀ atoms, r.filter = some atoms → evalFilter m atoms = .ok true) := by
  unfold handleCommentMatch at h
  cases hf : filterResult m r with
  | panic p => rw [hf] at h; simp [Res.bind] at h
  | ok okb =>
    rw [hf] at h
    simp only [Res.bind] at h
    cases okb with
    | false => simp at h
    | true =>
      simp only [Bool.not_true, Bool.false_eq_true, if_false] at h
      cases hm : renderMessage cfg r.msg m true with
      | panic p => simp [hm] at h
      | ok message =>
        simp only [hm] at h
        have hfilter : ∀ atoms, r.filter = some atoms → evalFilter m atoms = .ok true := by
          intro atoms ha; unfold filterResult at hf; rw [ha] at hf; exact hf
        cases hsg : suggestionOf cfg m r with
        | panic p => simp [hsg] at h
        | ok sugg =>
          simp only [hsg, Res.ok.injEq, Option.some.injEq] at h
          subst h
          refine ⟨rfl, rfl, rfl, rfl, ?_, ?_, hfilter⟩
          · intro hs
            unfold suggestionOf at hsg
            rw [if_neg (by simp [hs])] at hsg
            simp only [Res.ok.injEq] at hsg
            exact hsg.symm
          · intro hs
            unfold suggestionOf at hsg
            rw [if_pos hs] at hsg
            cases hr : renderMessage cfg r.suggestion m false with
            | panic p => simp [hr, Res.bind] at hsg
            | ok repl =>
              simp only [hr, Res.bind] at hsg
              cases hn : reportNode m r with
              | none => simp [hn] at hsg
              | some n =>
                simp only [hn, Res.ok.injEq] at hsg
                exact ⟨n, repl, rfl, rfl, hsg.symm⟩

/-! ## the path without submatches -/

theorem capsLoop_unnamed (src : Bytes) (size off : Nat) (text : Bytes) (v : List Int) (i : Nat) (names : List Bytes)
    (h : ∀ n, n ∈ names → n = []) : capsLoop src size off text v i names = .ok [] := by
  induction names generalizing i with
  | nil => rfl
  | cons n rest ih =>
    unfold capsLoop
    rw [if_pos (.inr (h n List.mem_cons_self))]
    exact ih (i + 1) (fun n' hn' => h n' (List.mem_cons_of_mem _ hn'))

/-! ## `regexpHasCaptureGroups` -/

mutual
def anyCapture : Re → Bool
  | .mk op _ _ subs _ _ => op == .capture || anyCaptureL subs
def anyCaptureL : List Re → Bool
  | [] => false
  | r :: rs => anyCapture r || anyCaptureL rs
end

theorem walkList_eq (subs : List Re) (ih : ∀ r, r ∈ subs → ∀ found, walkRe found r = (found || anyCapture r)) (found : Bool) :
    walkList found subs = (found || anyCaptureL subs) := by
  induction subs generalizing found with
  | nil => simp [walkList, anyCaptureL]
  | cons r rs ihl =>
    simp only [walkList, anyCaptureL]
    rw [ihl (fun r' hr' => ih r' (List.mem_cons_of_mem _ hr')), ih r List.mem_cons_self, Bool.or_assoc]

theorem walkRe_eq (re : Re) : ∀ found, walkRe found re = (found || anyCapture re) := by
  refine SpecC11.Re.ind (P := fun re => ∀ found, walkRe found re = (found || anyCapture re)) ?_ re
  intro op fl rs subs mn mx ih found
  simp only [walkRe, anyCapture]
  cases found with
  | true => simp
  | false =>
    simp only [Bool.false_eq_true, if_false, Bool.false_or]
    by_cases hop : op = .capture
    · simp [hop]
    · rw [if_neg hop, walkList_eq subs ih]
      simp [hop]

/-- in-range index pair, as `regexp` returns them -/
def InRange (text : Bytes) (lo hi : Int) : Prop := 0 ≤ lo ∧ lo ≤ hi ∧ hi ≤ text.length


/-- the capture the property prescribes for group `i` called `name`: its submatch text at the span of the file
it stands for, or the empty text at the comment's start when the group did not participate -/
def groupCap (src : Bytes) (off : Nat) (text : Bytes) (v : List Int) (i : Nat) (name : Bytes) : Cap :=
  match v[2 * i]?, v[2 * i + 1]? with
  | some b, some e =>
    if b < 0 ∨ e < 0 then ⟨name, ⟨off, [], off⟩⟩ else ⟨name, spanNode src off text b.toNat e.toNat⟩
  | _, _ => ⟨name, ⟨off, [], off⟩⟩

/-- one capture per *named* group (index 0 and unnamed groups are skipped), in group order -/
def namedCaps (src : Bytes) (off : Nat) (text : Bytes) (v : List Int) : Nat → List Bytes → List Cap
  | _, [] => []
  | i, n :: rest =>
    if i = 0 ∨ n = [] then namedCaps src off text v (i + 1) rest
    else groupCap src off text v i n :: namedCaps src off text v (i + 1) rest

/-- what `FindStringSubmatchIndex` guarantees about group `i` -/
def WFGroup (text : Bytes) (v : List Int) (i : Nat) : Prop :=
  ∃ b e, v[2 * i]? = some b ∧ v[2 * i + 1]? = some e ∧ (b < 0 ∨ e < 0 ∨ InRange text b e)


theorem group_text_core {msrc src : Bytes} {size off : Nat} {text : Bytes} (vw : View msrc src size off text)
    (v : List Int) (i : Nat) (names : List Bytes)
    (hwf : ∀ j, i ≤ j → j < i + names.length → WFGroup text v j) :
    capsLoop msrc size off text v i names = .ok (namedCaps src off text v i names) := by
  induction names generalizing i with
  | nil => rfl
  | cons n rest ih =>
    have ihr := ih (i + 1) (fun j h1 h2 => hwf j (by omega) (by simp; omega))
    unfold capsLoop namedCaps
    by_cases hskip : i = 0 ∨ n = []
    · rw [if_pos hskip, if_pos hskip]; exact ihr
    · rw [if_neg hskip, if_neg hskip]
      obtain ⟨b, e, hb, he, hcase⟩ := hwf i (Nat.le_refl _) (by simp)
      simp only [hb, he, groupCap]
      by_cases hneg : b < 0 ∨ e < 0
      · rw [if_pos hneg, if_pos hneg, mkNode_zero vw, ihr]; rfl
      · rw [if_neg hneg, if_neg hneg]
        have hin : InRange text b e := by
          rcases hcase with h | h | h
          · exact absurd (.inl h) hneg
          · exact absurd (.inr h) hneg
          · exact h
        obtain ⟨h0, h1, h2⟩ := hin
        rw [mkNode_ok vw b e h0 h1 h2, ihr]
        rfl


end CM
