import Rg.Model.Comment
import Rg.Proofs.Regex
/-! Helper lemmas about the comment-rule model. -/
namespace CM
open Rx

def slice (b : Bytes) (lo hi : Nat) : Bytes := (b.drop lo).take (hi - lo)

theorem goSlice_ok (s : Bytes) (lo hi : Int) (h0 : 0 ≤ lo) (h1 : lo ≤ hi) (h2 : hi ≤ s.length) :
    goSlice s lo hi = .ok (slice s lo.toNat hi.toNat) := by
  unfold goSlice slice
  rw [if_pos ⟨h0, h1, h2⟩]
  congr 2
  omega

theorem filePos_in (size : Nat) (x : Int) (h0 : 0 ≤ x) (h1 : x ≤ size) : filePos size x = x.toNat := by
  unfold filePos
  rw [if_neg (by omega), if_neg (by omega)]

/-- in-range indices: the node is the span `[off+lo, off+hi)` carrying `text[lo:hi]` -/
theorem mkNode_ok (size off : Nat) (text : Bytes) (lo hi : Int) (h0 : 0 ≤ lo) (h1 : lo ≤ hi) (h2 : hi ≤ text.length)
    (hfit : off + text.length ≤ size) :
    mkNode size off text lo hi = .ok ⟨off + lo.toNat, slice text lo.toNat hi.toNat⟩ := by
  unfold mkNode
  rw [goSlice_ok text lo hi h0 h1 h2]
  simp only [Res.bind]
  rw [filePos_in size (lo + off) (by omega) (by omega)]
  congr 2
  omega

theorem slice_length (b : Bytes) (lo hi : Nat) (h1 : lo ≤ hi) (h2 : hi ≤ b.length) : (slice b lo hi).length = hi - lo := by
  simp [slice]; omega

/-- a sub-slice of a slice is a slice of the whole -/
theorem slice_slice (src : Bytes) (off n lo hi : Nat) (h1 : lo ≤ hi) (h2 : hi ≤ n) :
    slice (slice src off (off + n)) lo hi = slice src (off + lo) (off + hi) := by
  unfold slice
  rw [List.drop_take, List.take_take, List.drop_drop]
  congr 1
  omega

/-- when the comment's text is literally the file's bytes at its offset, the node's span holds the node's text -/
theorem span_bytes (src text : Bytes) (off lo hi : Nat) (hsrc : slice src off (off + text.length) = text)
    (h1 : lo ≤ hi) (h2 : hi ≤ text.length) : slice src (off + lo) (off + hi) = slice text lo hi := by
  rw [← slice_slice src off text.length lo hi h1 h2, hsrc]

theorem offsetOf_in (size p : Nat) (h : p ≤ size) : offsetOf size p = p := by simp [offsetOf, h]

/-- filters and templates read a node's text either from the file or from the node; both are the node's
text as soon as the file holds that text at the node's span -/
theorem nodeText_exact (src : Bytes) (size : Nat) (n : Node) (hend : n.endPos ≤ size)
    (hbytes : n.endPos < src.length → slice src n.pos n.endPos = n.text) : nodeText src size n = .ok n.text := by
  unfold nodeText
  have hpos : n.pos ≤ size := by unfold Node.endPos at hend; omega
  rw [offsetOf_in size n.pos hpos, offsetOf_in size n.endPos hend]
  simp only
  by_cases hc : n.pos < src.length ∧ n.endPos < src.length
  · rw [if_pos hc]
    have hle : n.pos ≤ n.endPos := by unfold Node.endPos; omega
    rw [goSlice_ok src n.pos n.endPos (by omega) (by omega) (by omega)]
    simp only [Int.toNat_natCast]
    rw [hbytes hc.2]
  · rw [if_neg hc]

/-! ## the rule loop -/

/-- a rule that does not report: its regexp does not match, or its filter rejects -/
def Rejected (alt : Bool) (src : Bytes) (size : Nat) (cfg : Int) (off : Nat) (text : Bytes) (r : CRule) : Prop :=
  buildMatch size off text r = .ok none ∨
    ∃ m j, buildMatch size off text r = .ok (some m) ∧ handleCommentMatch alt src size cfg j r m = .ok none

theorem runFrom_some (alt : Bool) (src : Bytes) (size : Nat) (cfg : Int) (off : Nat) (text : Bytes) (rules : List CRule)
    (k : Nat) (rep : Report) (h : runFrom alt src size cfg off text k rules = .ok (some rep)) :
    ∃ pre r post m, rules = pre ++ r :: post ∧ buildMatch size off text r = .ok (some m) ∧
      handleCommentMatch alt src size cfg (k + pre.length) r m = .ok (some rep) ∧
      ∀ r', r' ∈ pre → Rejected alt src size cfg off text r' := by
  induction rules generalizing k with
  | nil => simp [runFrom] at h
  | cons r rest ih =>
    unfold runFrom at h
    cases hb : buildMatch size off text r with
    | panic p => simp [hb, Res.bind] at h
    | ok om =>
      simp only [hb, Res.bind] at h
      cases om with
      | none =>
        simp only at h
        obtain ⟨pre, r0, post, m, he, hm, hh, hrej⟩ := ih (k + 1) h
        refine ⟨r :: pre, r0, post, m, by rw [he]; rfl, hm, ?_, ?_⟩
        · have : k + (r :: pre).length = k + 1 + pre.length := by simp; omega
          rw [this]; exact hh
        · intro r' hr'
          rcases List.mem_cons.1 hr' with rfl | hr'
          · exact .inl hb
          · exact hrej r' hr'
      | some m =>
        simp only at h
        cases hh : handleCommentMatch alt src size cfg k r m with
        | panic p => simp [hh] at h
        | ok orep =>
          simp only [hh] at h
          cases orep with
          | some x =>
            simp only [Res.ok.injEq, Option.some.injEq] at h
            subst h
            exact ⟨[], r, rest, m, rfl, hb, by simpa using hh, by intro _ h'; simp at h'⟩
          | none =>
            simp only at h
            obtain ⟨pre, r0, post, m0, he, hm, hh0, hrej⟩ := ih (k + 1) h
            refine ⟨r :: pre, r0, post, m0, by rw [he]; rfl, hm, ?_, ?_⟩
            · have : k + (r :: pre).length = k + 1 + pre.length := by simp; omega
              rw [this]; exact hh0
            · intro r' hr'
              rcases List.mem_cons.1 hr' with rfl | hr'
              · exact .inr ⟨m, k, hb, hh⟩
              · exact hrej r' hr'

theorem runFrom_none (alt : Bool) (src : Bytes) (size : Nat) (cfg : Int) (off : Nat) (text : Bytes) (rules : List CRule)
    (k : Nat) (h : runFrom alt src size cfg off text k rules = .ok none) :
    ∀ r, r ∈ rules → Rejected alt src size cfg off text r := by
  induction rules generalizing k with
  | nil => intro r hr; simp at hr
  | cons r rest ih =>
    unfold runFrom at h
    cases hb : buildMatch size off text r with
    | panic p => simp [hb, Res.bind] at h
    | ok om =>
      simp only [hb, Res.bind] at h
      cases om with
      | none =>
        simp only at h
        intro r' hr'
        rcases List.mem_cons.1 hr' with rfl | hr'
        · exact .inl hb
        · exact ih (k + 1) h r' hr'
      | some m =>
        simp only at h
        cases hh : handleCommentMatch alt src size cfg k r m with
        | panic p => simp [hh] at h
        | ok orep =>
          simp only [hh] at h
          cases orep with
          | some x => simp at h
          | none =>
            simp only at h
            intro r' hr'
            rcases List.mem_cons.1 hr' with rfl | hr'
            · exact .inr ⟨m, k, hb, hh⟩
            · exact ih (k + 1) h r' hr'

/-! ## one accepted match -/

def atomVar : Atom → Bytes | .textEq v _ => v | .textNe v _ => v
def atomHolds (a : Atom) (t : Bytes) : Bool :=
  match a with | .textEq _ l => t == l | .textNe _ l => !(t == l)

/-- an accepting filter saw, for each of its atoms, the text of the named submatch and found the comparison true -/
theorem evalFilter_true (src : Bytes) (size : Nat) (m : MatchD) (atoms : List Atom)
    (h : evalFilter src size m atoms = .ok true) :
    ∀ a, a ∈ atoms → ∃ n t, capturedByName m (atomVar a) = some n ∧ nodeText src size n = .ok t ∧ atomHolds a t = true := by
  induction atoms with
  | nil => intro a ha; simp at ha
  | cons a rest ih =>
    unfold evalFilter at h
    cases a with
    | textEq v l =>
      simp only at h
      cases hc : capturedByName m v with
      | none => simp [hc] at h
      | some n =>
        simp only [hc] at h
        cases ht : nodeText src size n with
        | panic p => simp [ht, Res.bind] at h
        | ok t =>
          simp only [ht, Res.bind] at h
          by_cases hcmp : ((t == l) == true) = true
          · rw [if_pos hcmp] at h
            intro a' ha'
            rcases List.mem_cons.1 ha' with rfl | ha'
            · exact ⟨n, t, hc, ht, by simpa [atomHolds] using hcmp⟩
            · exact ih h a' ha'
          · rw [if_neg hcmp] at h; simp at h
    | textNe v l =>
      simp only at h
      cases hc : capturedByName m v with
      | none => simp [hc] at h
      | some n =>
        simp only [hc] at h
        cases ht : nodeText src size n with
        | panic p => simp [ht, Res.bind] at h
        | ok t =>
          simp only [ht, Res.bind] at h
          by_cases hcmp : ((t == l) == false) = true
          · rw [if_pos hcmp] at h
            intro a' ha'
            rcases List.mem_cons.1 ha' with rfl | ha'
            · refine ⟨n, t, hc, ht, ?_⟩
              simp only [atomHolds]
              cases hb : (t == l) <;> simp [hb] at hcmp ⊢
            · exact ih h a' ha'
          · rw [if_neg hcmp] at h; simp at h

/-- what a delivered report consists of -/
theorem handle_some (alt : Bool) (src : Bytes) (size : Nat) (cfg : Int) (k : Nat) (r : CRule) (m : MatchD) (rep : Report)
    (h : handleCommentMatch alt src size cfg k r m = .ok (some rep)) :
    rep.rule = k ∧ rep.line = (if alt then r.altLine else r.line) ∧
      rep.node = reportNode m r ∧
      renderMessage src size cfg r.msg m true = .ok rep.msg ∧
      (r.suggestion = [] → rep.sugg = none) ∧
      (r.suggestion ≠ [] → ∃ n repl, rep.node = some n ∧ renderMessage src size cfg r.suggestion m false = .ok repl ∧
          rep.sugg = some (n.pos, n.endPos, repl)) ∧
      (∀ atoms, r.filter = some atoms → evalFilter src size m atoms = .ok true) := by
  unfold handleCommentMatch at h
  cases hf : filterResult src size m r with
  | panic p => rw [hf] at h; simp [Res.bind] at h
  | ok okb =>
    rw [hf] at h
    simp only [Res.bind] at h
    cases okb with
    | false => simp at h
    | true =>
      simp only [Bool.not_true, Bool.false_eq_true, if_false] at h
      cases hm : renderMessage src size cfg r.msg m true with
      | panic p => simp [hm] at h
      | ok message =>
        simp only [hm] at h
        have hfilter : ∀ atoms, r.filter = some atoms → evalFilter src size m atoms = .ok true := by
          intro atoms ha; unfold filterResult at hf; rw [ha] at hf; exact hf
        cases hsg : suggestionOf src size cfg m r with
        | panic p => simp [hsg] at h
        | ok sugg =>
          simp only [hsg, Res.ok.injEq, Option.some.injEq] at h
          subst h
          refine ⟨rfl, rfl, rfl, rfl, ?_, ?_, hfilter⟩
          · intro hs
            unfold suggestionOf at hsg
            rw [if_neg (by simp [hs])] at hsg
            simp only [Res.ok.injEq] at hsg
            exact hsg.symm
          · intro hs
            unfold suggestionOf at hsg
            rw [if_pos hs] at hsg
            cases hr : renderMessage src size cfg r.suggestion m false with
            | panic p => simp [hr, Res.bind] at hsg
            | ok repl =>
              simp only [hr, Res.bind] at hsg
              cases hn : reportNode m r with
              | none => simp [hn] at hsg
              | some n =>
                simp only [hn, Res.ok.injEq] at hsg
                exact ⟨n, repl, rfl, rfl, hsg.symm⟩

/-! ## the path without submatches -/

theorem capsLoop_unnamed (size off : Nat) (text : Bytes) (v : List Int) (i : Nat) (names : List Bytes)
    (h : ∀ n, n ∈ names → n = []) : capsLoop size off text v i names = .ok [] := by
  induction names generalizing i with
  | nil => rfl
  | cons n rest ih =>
    unfold capsLoop
    rw [if_pos (.inr (h n List.mem_cons_self))]
    exact ih (i + 1) (fun n' hn' => h n' (List.mem_cons_of_mem _ hn'))

/-! ## `regexpHasCaptureGroups` -/

mutual
def anyCapture : Re → Bool
  | .mk op _ _ subs _ _ => op == .capture || anyCaptureL subs
def anyCaptureL : List Re → Bool
  | [] => false
  | r :: rs => anyCapture r || anyCaptureL rs
end

theorem walkList_eq (subs : List Re) (ih : ∀ r, r ∈ subs → ∀ found, walkRe found r = (found || anyCapture r)) (found : Bool) :
    walkList found subs = (found || anyCaptureL subs) := by
  induction subs generalizing found with
  | nil => simp [walkList, anyCaptureL]
  | cons r rs ihl =>
    simp only [walkList, anyCaptureL]
    rw [ihl (fun r' hr' => ih r' (List.mem_cons_of_mem _ hr')), ih r List.mem_cons_self, Bool.or_assoc]

theorem walkRe_eq (re : Re) : ∀ found, walkRe found re = (found || anyCapture re) := by
  refine SpecC11.Re.ind (P := fun re => ∀ found, walkRe found re = (found || anyCapture re)) ?_ re
  intro op fl rs subs mn mx ih found
  simp only [walkRe, anyCapture]
  cases found with
  | true => simp
  | false =>
    simp only [Bool.false_eq_true, if_false, Bool.false_or]
    by_cases hop : op = .capture
    · simp [hop]
    · rw [if_neg hop, walkList_eq subs ih]
      simp [hop]

/-- the comment's `Text` is literally the bytes of the file at the comment's offset (go/scanner strips
carriage returns from comment text, so this fails for multi-line block comments of CRLF files) -/
def NoCR (src : Bytes) (off : Nat) (text : Bytes) : Prop := slice src off (off + text.length) = text

/-- in-range index pair, as `regexp` returns them -/
def InRange (text : Bytes) (lo hi : Int) : Prop := 0 ≤ lo ∧ lo ≤ hi ∧ hi ≤ text.length


/-- the capture the property prescribes for group `i` called `name`: its submatch text at its span, or the
empty text at the comment's start when the group did not participate -/
def groupCap (off : Nat) (text : Bytes) (v : List Int) (i : Nat) (name : Bytes) : Cap :=
  match v[2 * i]?, v[2 * i + 1]? with
  | some b, some e =>
    if b < 0 ∨ e < 0 then ⟨name, ⟨off, []⟩⟩ else ⟨name, ⟨off + b.toNat, slice text b.toNat e.toNat⟩⟩
  | _, _ => ⟨name, ⟨off, []⟩⟩

/-- one capture per *named* group (index 0 and unnamed groups are skipped), in group order -/
def namedCaps (off : Nat) (text : Bytes) (v : List Int) : Nat → List Bytes → List Cap
  | _, [] => []
  | i, n :: rest =>
    if i = 0 ∨ n = [] then namedCaps off text v (i + 1) rest
    else groupCap off text v i n :: namedCaps off text v (i + 1) rest

/-- what `FindStringSubmatchIndex` guarantees about group `i` -/
def WFGroup (text : Bytes) (v : List Int) (i : Nat) : Prop :=
  ∃ b e, v[2 * i]? = some b ∧ v[2 * i + 1]? = some e ∧ (b < 0 ∨ e < 0 ∨ InRange text b e)


theorem group_text_core (size off : Nat) (text : Bytes) (v : List Int) (i : Nat) (names : List Bytes)
    (hwf : ∀ j, i ≤ j → j < i + names.length → WFGroup text v j) (hfit : off + text.length ≤ size) :
    capsLoop size off text v i names = .ok (namedCaps off text v i names) := by
  induction names generalizing i with
  | nil => rfl
  | cons n rest ih =>
    have ihr := ih (i + 1) (fun j h1 h2 => hwf j (by omega) (by simp; omega))
    unfold capsLoop namedCaps
    by_cases hskip : i = 0 ∨ n = []
    · rw [if_pos hskip, if_pos hskip]; exact ihr
    · rw [if_neg hskip, if_neg hskip]
      obtain ⟨b, e, hb, he, hcase⟩ := hwf i (Nat.le_refl _) (by simp)
      simp only [hb, he, groupCap]
      by_cases hneg : b < 0 ∨ e < 0
      · rw [if_pos hneg, if_pos hneg, ihr]; rfl
      · rw [if_neg hneg, if_neg hneg]
        have hin : InRange text b e := by
          rcases hcase with h | h | h
          · exact absurd (.inl h) hneg
          · exact absurd (.inr h) hneg
          · exact h
        obtain ⟨h0, h1, h2⟩ := hin
        rw [goSlice_ok text b e h0 h1 h2, ihr]
        simp only [Res.bind]
        rw [filePos_in size (b + off) (by omega) (by omega)]
        congr 4
        omega


end CM
