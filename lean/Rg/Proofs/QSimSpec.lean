import Rg.Proofs.QCompLemmas
/-!
# Statements of the simulation (one per mutually recursive function of the reference semantics)

Everything is relative to a `Ctx`: the repairs in force, the source program, the compile-time
environment and parameter table of the function being executed, its compiled form `f`, and the
run-time environment.  `SimE n`, `SimArgs n`, `SimCall n`, `SimFn n`, `SimS n`, `SimBlock n`,
`SimLoop n` say that `n` units of source fuel are simulated by the machine; they are proved together
by induction on `n` (Rg/Proofs/QSimExpr.lean, QSimStmt.lean, QSimCall.lean).
-/
namespace Q
open SpecC04 (Val Env lookup tagOf evalExpr evalArgs evalCall callFn execStmt execBlock loop Flow)

/-- static context of the function being simulated -/
structure Ctx where
  fx : Fixes
  P : SpecC04.Prog
  cenv : CEnv
  fn : CFn
  f : CFunc
  venv : VEnv

/-- the result a `return` hands to `quasigo.Call` -/
def resOf : Option Val → CallResult
  | none => {}
  | some (.int k) => { scalar := k }
  | some v => { value := objOf v }

def pushVals : List Val → Stack → Stack
  | [], st => st
  | v :: vs, st => pushVals vs (pushVal v st)

theorem BaseOf.pushVals {bO bI} : ∀ (vs : List Val) {st}, BaseOf st bO bI → BaseOf (pushVals vs st) bO bI
  | [], _, h => h
  | v :: vs, _, h => BaseOf.pushVals vs (h.pushVal v)

/-- the locals table: at most 8 slots, slot numbers below the table size (hence pairwise distinct),
no local is also a parameter -/
structure LocalsWF (fn : CFn) (locals : List (Nat × Nat)) : Prop where
  len : locals.length ≤ 8
  lt : ∀ x i, mapGet locals x = some i → i < locals.length
  inj : ∀ x y i, mapGet locals x = some i → mapGet locals y = some i → x = y
  noParam : ∀ x i, mapGet locals x = some i → isParamName fn x = false

structure FrameWF (fr : Frame) : Prop where
  lenO : fr.locals.length = 8
  lenI : fr.intLocals.length = 8

/-- the invariant at a statement boundary -/
structure Inv (fn : CFn) (locals : List (Nat × Nat)) (env : Env) (fr : Frame) (bO : List Obj) (bI : List Int64) : Prop where
  frame : FrameOK fn locals env fr bO bI
  nodup : (env.map Prod.fst).Nodup
  lwf : LocalsWF fn locals
  fwf : FrameWF fr

section
variable (C : Ctx)

/-- goal for an expression: its value is pushed, or the machine panics the same way -/
def EGoal (o : SpecC04.Out Val) (fr : Frame) (p p' : Int) (st : Stack) : Prop :=
  match o with
  | .ok v => Reaches C.fx C.venv C.f ⟨fr, p, st⟩ ⟨fr, p', pushVal v st⟩
  | .panic q => Ends C.fx C.venv C.f ⟨fr, p, st⟩ (.panic q)
  | _ => True

def LGoal (o : SpecC04.Out (List Val)) (fr : Frame) (p p' : Int) (st : Stack) : Prop :=
  match o with
  | .ok vs => Reaches C.fx C.venv C.f ⟨fr, p, st⟩ ⟨fr, p', pushVals vs st⟩
  | .panic q => Ends C.fx C.venv C.f ⟨fr, p, st⟩ (.panic q)
  | _ => True

/-- goal for a call: at most one result, pushed -/
def CGoal (o : SpecC04.Out (List Val)) (fr : Frame) (p p' : Int) (st : Stack) : Prop :=
  match o with
  | .ok vs => vs.length ≤ 1 ∧ Reaches C.fx C.venv C.f ⟨fr, p, st⟩ ⟨fr, p', pushVals vs st⟩
  | .panic q => Ends C.fx C.venv C.f ⟨fr, p, st⟩ (.panic q)
  | _ => True

def SimE (n : Nat) : Prop :=
  ∀ env e cs is cs', compE C.fx C.cenv C.fn e cs = some (is, cs') →
  ∀ p, At C.f.code p is → PoolOK cs' C.f →
  ∀ fr bO bI, FrameOK C.fn cs.locals env fr bO bI →
  ∀ st, BaseOf st bO bI →
    EGoal C (evalExpr C.P n env e) fr p (p + isize is) st

def SimArgs (n : Nat) : Prop :=
  ∀ env es cs is cs', compEs C.fx C.cenv C.fn es cs = some (is, cs') →
  ∀ p, At C.f.code p is → PoolOK cs' C.f →
  ∀ fr bO bI, FrameOK C.fn cs.locals env fr bO bI →
  ∀ st, BaseOf st bO bI →
    LGoal C (evalArgs C.P n env es) fr p (p + isize is) st

def SimCall (n : Nat) : Prop :=
  ∀ env ci recv args cs is cs', compE C.fx C.cenv C.fn (.call ci recv args) cs = some (is, cs') →
  ∀ p, At C.f.code p is → PoolOK cs' C.f →
  ∀ fr bO bI, FrameOK C.fn cs.locals env fr bO bI →
  ∀ st, BaseOf st bO bI →
    CGoal C (evalCall C.P n env ci recv args) fr p (p + isize is) st

/-- goal for a statement compiled to `sis` at `p`, inside a loop whose exit is `d` bytes behind it -/
def SGoal (o : SpecC04.Out (Flow × Env)) (locals' : List (Nat × Nat)) (fr : Frame) (p : Int) (sz d : Nat)
    (st : Stack) (bO : List Obj) (bI : List Int64) : Prop :=
  match o with
  | .ok (.next, env') =>
    ∃ fr', Reaches C.fx C.venv C.f ⟨fr, p, st⟩ ⟨fr', p + sz, st⟩ ∧ Inv C.fn locals' env' fr' bO bI ∧
      fr'.top = fr.top ∧ fr'.intTop = fr.intTop
  | .ok (.brk, env') =>
    ∃ fr', Reaches C.fx C.venv C.f ⟨fr, p, st⟩ ⟨fr', p + sz + d, st⟩ ∧ Inv C.fn locals' env' fr' bO bI ∧
      fr'.top = fr.top ∧ fr'.intTop = fr.intTop
  | .ok (.ret rv, _) =>
    (rv.isSome ↔ C.fn.retVoid = false) →
    ∃ st1, Ends C.fx C.venv C.f ⟨fr, p, st⟩ (.done (resOf rv, st1)) ∧ BaseOf st1 bO bI ∧ st1.variadicLen = st.variadicLen
  | .panic q => Ends C.fx C.venv C.f ⟨fr, p, st⟩ (.panic q)
  | _ => True

def SimS (n : Nat) : Prop :=
  ∀ env s inLoop cs lu sis cs' lu', compS C.fx C.cenv C.fn inLoop s cs lu = some (sis, cs', lu') →
  ∀ d p, At C.f.code p (resolve sis d) → PoolOK cs' C.f →
  ∀ fr bO bI, Inv C.fn cs.locals env fr bO bI →
  ∀ st, BaseOf st bO bI →
    SGoal C (execStmt C.P C.fn.retVoid n env s) cs'.locals fr p (ssize sis) d st bO bI

def SimBlock (n : Nat) : Prop :=
  ∀ env ss inLoop cs lu sis cs' lu', compSs C.fx C.cenv C.fn inLoop ss cs lu = some (sis, cs', lu') →
  ∀ d p, At C.f.code p (resolve sis d) → PoolOK cs' C.f →
  ∀ fr bO bI, Inv C.fn cs.locals env fr bO bI →
  ∀ st, BaseOf st bO bI →
    SGoal C (execBlock C.P C.fn.retVoid n env ss) cs'.locals fr p (ssize sis) d st bO bI

end
end Q
