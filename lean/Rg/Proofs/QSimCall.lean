import Rg.Proofs.QSimStmt
/-! # Simulation of argument lists, calls and whole functions -/
namespace Q
open SpecC04 (Val Env lookup tagOf evalExpr evalArgs evalCall callFn execStmt execBlock loop Flow Out.bind_eq_ok inScope_eq_ok KeysExt update defineAll assignAll inScope leave bindParams)
variable (C : Ctx)

theorem LGoal.of_reaches {o : SpecC04.Out (List Val)} {fr : Frame} {p p1 p' : Int} {st st1 st' : Stack}
    (h1 : Reaches C.fx C.venv C.f ⟨fr, p, st⟩ ⟨fr, p1, st1⟩)
    (h2 : match o with
          | .ok vs => Reaches C.fx C.venv C.f ⟨fr, p1, st1⟩ ⟨fr, p', pushVals vs st'⟩
          | .panic q => Ends C.fx C.venv C.f ⟨fr, p1, st1⟩ (.panic q)
          | _ => True) :
    match o with
    | .ok vs => Reaches C.fx C.venv C.f ⟨fr, p, st⟩ ⟨fr, p', pushVals vs st'⟩
    | .panic q => Ends C.fx C.venv C.f ⟨fr, p, st⟩ (.panic q)
    | _ => True := by
  cases o with
  | ok v => exact h1.trans _ _ _ h2
  | panic q => exact Ends.of_reaches _ _ _ h1 (by simp) h2
  | _ => trivial

theorem simArgs_step (n : Nat) (ihE : SimE C n) (ihA : SimArgs C n) : SimArgs C (n + 1) := by
  intro env es cs is cs' hc p hat hpool fr bO bI hF st hB
  cases es with
  | nil =>
    simp [compEs] at hc
    obtain ⟨rfl, rfl⟩ := hc
    simp only [evalArgs, LGoal, pushVals]
    exact (Reaches.refl _ _ _ _).pc_cast rfl (by simp)
  | cons e es =>
    ucomp at hc
    obtain ⟨i1, s1, h1, i2, s2, h2, rfl, rfl⟩ := hc
    rw [at_append] at hat
    have m2 := compEs_mono _ _ _ h2
    have m1 := compE_mono _ _ _ h1
    have hE := ihE env e cs i1 s1 h1 p hat.1 (hpool.of_mono m2) fr bO bI hF st hB
    simp only [evalArgs]
    cases hv : evalExpr C.P n env e with
    | ok v =>
      simp only [hv, EGoal] at hE
      simp only [SpecC04.Out.bind_ok]
      have hA := ihA env es s1 i2 s2 h2 (p + isize i1) hat.2 hpool fr bO bI (frameOK_locals m1.1 hF) (pushVal v st) (hB.pushVal v)
      cases hvs : evalArgs C.P n env es with
      | ok vs =>
        simp only [hvs, LGoal] at hA
        simp only [SpecC04.Out.bind_ok, pure, LGoal, pushVals]
        exact (hE.trans _ _ _ hA).pc_cast rfl (by simp [isize_append]; omega)
      | panic q =>
        simp only [hvs, LGoal] at hA
        simp only [SpecC04.Out.bind_panic, LGoal]
        exact Ends.of_reaches _ _ _ hE (by simp) hA
      | _ => simp [bind, SpecC04.Out.bind, LGoal]
    | panic q => simpa [hv, EGoal, LGoal, bind, SpecC04.Out.bind] using hE
    | _ => simp [bind, SpecC04.Out.bind, LGoal]

/-- what a call of `g`, compiled to `gc`, does on a stack onto which the argument values have been pushed:
it ends with `g`'s result, leaving the caller's part of the stacks (and the arguments) in place -/
def FnGoal (fx : Fixes) (P : SpecC04.Prog) (venv : VEnv) (n : Nat) (g : FuncDecl) (gc : CFunc) : Prop :=
  ∀ av st0,
    match callFn P n g av with
    | .ok r =>
      (pushVals av st0).objs.length = st0.objs.length + gc.numObjectParams ∧
      (pushVals av st0).ints.length = st0.ints.length + gc.numIntParams ∧
      ∃ st1, Ends fx venv gc ⟨newFrame (st0.objs.length : Int) (st0.ints.length : Int), 0, pushVals av st0⟩ (.done (resOf r, st1)) ∧
        BaseOf st1 (pushVals av st0).objs (pushVals av st0).ints ∧ st1.variadicLen = st0.variadicLen
    | .panic q =>
      (pushVals av st0).objs.length = st0.objs.length + gc.numObjectParams ∧
      (pushVals av st0).ints.length = st0.ints.length + gc.numIntParams ∧
      Ends fx venv gc ⟨newFrame (st0.objs.length : Int) (st0.ints.length : Int), 0, pushVals av st0⟩ (.panic q)
    | _ => True

variable (C : Ctx)

/-- the functions a call instruction of this context can reach behave (for `n` units of fuel) -/
def CallsOK (n : Nat) : Prop :=
  ∀ key fid, idOf C.cenv.funcs key = some fid →
    ∃ g gc, C.P.funcs.find? (·.key == key) = some g ∧ funcAt C.venv.funcs (fid : Int) = .ok gc ∧
      g.results.length ≤ 1 ∧ FnGoal C.fx C.P C.venv n g gc

/-- a function with one declared result returns a value of that type -/
theorem callFn_tag (P : SpecC04.Prog) (n : Nat) (g : FuncDecl) (av : List Val) (v : Val) (t : Ty)
    (hres : g.results = [t]) (h : callFn P n g av = .ok (some v)) : tagOf v = t := by
  cases n with
  | zero => simp [callFn] at h
  | succ m =>
    simp only [callFn] at h
    cases hb : bindParams g.params av with
    | none => simp [hb] at h
    | some env =>
      simp only [hb] at h
      obtain ⟨⟨fl, e⟩, _, h⟩ := Out.bind_eq_ok h
      cases fl with
      | ret rv =>
        cases rv with
        | some v' =>
          simp only [hres] at h
          by_cases ht : (tagOf v' == t) = true
          · simp only [ht, if_true, pure, SpecC04.Out.ok.injEq, Option.some.injEq] at h
            subst h; simpa using ht
          · simp [ht] at h
        | none => simp only [hres] at h; simp [pure] at h
      | next => simp only [hres] at h; simp [pure] at h
      | brk => simp at h

theorem truncTo_append {α} (t b : List α) : truncTo (t ++ b) (b.length : Int) = .ok b := by
  simp [truncTo]

theorem pushVals_variadicLen (vs : List Val) (st : Stack) : (pushVals vs st).variadicLen = st.variadicLen := by
  induction vs generalizing st with
  | nil => rfl
  | cons v vs ih => rw [pushVals, ih]; cases v <;> rfl

/-- the stacks after pushing values: new elements on top of the old ones -/
theorem pushVals_base (vs : List Val) (st : Stack) : BaseOf (pushVals vs st) st.objs st.ints :=
  BaseOf.pushVals vs ⟨[], [], rfl, rfl⟩

/-- a call instruction whose callee meets `FnGoal`: result pushed on the caller's stack, arguments gone -/
theorem call_done (hfx : FxOK C.fx) {fr : Frame} {pc : Int} {st : Stack} {av : List Val} {gc : CFunc} {fid : Int} {kind : Nat}
    {ins : Instr} {r : CallResult} {st1 : Stack}
    (hd : decodeAt C.f.code pc = .ok ins) (hs : ∀ s, step C.f fr s pc ins = .ok (.call fid kind))
    (hfun : funcAt C.venv.funcs fid = .ok gc)
    (hlo : (pushVals av st).objs.length = st.objs.length + gc.numObjectParams)
    (hli : (pushVals av st).ints.length = st.ints.length + gc.numIntParams)
    (hends : Ends C.fx C.venv gc ⟨newFrame (st.objs.length : Int) (st.ints.length : Int), 0, pushVals av st⟩ (.done (r, st1)))
    (hb1 : BaseOf st1 (pushVals av st).objs (pushVals av st).ints) (hvl : st1.variadicLen = st.variadicLen) :
    Reaches C.fx C.venv C.f ⟨fr, pc, pushVals av st⟩ ⟨fr, pc + 3, pushResult kind r st⟩ := by
  obtain ⟨tO, tI, hbO, hbI⟩ := pushVals_base av st
  obtain ⟨uO, uI, hu1, hu2⟩ := hb1
  have e1 : ((st.objs.length + gc.numObjectParams : Nat) : Int) - gc.numObjectParams = (st.objs.length : Int) := by omega
  have e2 : ((st.ints.length + gc.numIntParams : Nat) : Int) - gc.numIntParams = (st.ints.length : Int) := by omega
  have hafter : afterCall C.fx (pushVals av st) st1 gc = .ok st := by
    simp only [afterCall, hfx.frame, if_true, hlo, hli]
    rw [e1, e2, hu1, hu2, hbO, hbI, ← List.append_assoc, ← List.append_assoc, truncTo_append, truncTo_append]
    simp only [bind, Res.bind, pure]
    cases st; cases st1; simp_all
  have hends' : Ends C.fx C.venv gc ⟨newFrame (((pushVals av st).objs.length : Int) - gc.numObjectParams)
      (((pushVals av st).ints.length : Int) - gc.numIntParams), 0, pushVals av st⟩ (.done (r, st1)) := by
    rw [hlo, hli, e1, e2]; exact hends
  exact reaches_call C.fx C.venv (f := C.f) (fr := fr) (kind := kind) (hd := hd) (hs _) hfun hends' hafter

theorem call_panic {fr : Frame} {pc : Int} {st : Stack} {av : List Val} {gc : CFunc} {fid : Int} {kind : Nat}
    {ins : Instr} {q : Panic}
    (hd : decodeAt C.f.code pc = .ok ins) (hs : ∀ s, step C.f fr s pc ins = .ok (.call fid kind))
    (hfun : funcAt C.venv.funcs fid = .ok gc)
    (hlo : (pushVals av st).objs.length = st.objs.length + gc.numObjectParams)
    (hli : (pushVals av st).ints.length = st.ints.length + gc.numIntParams)
    (hends : Ends C.fx C.venv gc ⟨newFrame (st.objs.length : Int) (st.ints.length : Int), 0, pushVals av st⟩ (.panic q)) :
    Ends C.fx C.venv C.f ⟨fr, pc, pushVals av st⟩ (.panic q) := by
  have e1 : ((st.objs.length + gc.numObjectParams : Nat) : Int) - gc.numObjectParams = (st.objs.length : Int) := by omega
  have e2 : ((st.ints.length + gc.numIntParams : Nat) : Int) - gc.numIntParams = (st.ints.length : Int) := by omega
  have hends' : Ends C.fx C.venv gc ⟨newFrame (((pushVals av st).objs.length : Int) - gc.numObjectParams)
      (((pushVals av st).ints.length : Int) - gc.numIntParams), 0, pushVals av st⟩ (.panic q) := by
    rw [hlo, hli, e1, e2]; exact hends
  exact ends_call_abort C.fx C.venv (f := C.f) (fr := fr) (kind := kind) (hd := hd) (hs _) hfun hends' (Or.inl ⟨q, rfl⟩)

theorem simCall_step (hfx : FxOK C.fx) (hnat : ∀ k, C.P.nat k = none) (hnn : C.cenv.natives = [])
    (n : Nat) (ihA : SimArgs C n) (hcalls : CallsOK C n) : SimCall C (n + 1) := by
  intro env ci recv args cs is cs' hc p hat hpool fr bO bI hF st hB
  simp only [compE, bind, Option.bind_eq_bind, Option.bind_eq_some_iff, Prod.exists] at hc
  obtain ⟨ir, s1, hr, hc⟩ := hc
  simp only [hnn, idOf, idOfAux] at hc
  split at hc
  · simp at hc
  · split at hc
    · simp at hc
    · cases hid : idOf C.cenv.funcs ci.key with
      | none => simp [idOf] at hid; simp [hid] at hc
      | some fid =>
        simp only [idOf] at hid
        simp only [hid, pure, Option.pure_def, Option.bind_eq_some_iff, Option.some.injEq, Prod.mk.injEq, Prod.exists] at hc
        obtain ⟨ia, s2, ha, rfl, rfl⟩ := hc
        obtain ⟨g, gc, hfind, hfun, hres, hfn⟩ := hcalls ci.key fid (by simpa [idOf] using hid)
        rw [at_append, at_append] at hat
        obtain ⟨⟨hatr, hata⟩, hati⟩ := hat
        have m1 := compEs_mono _ _ _ hr
        have m2 := compEs_mono _ _ _ ha
        have hR := ihA env recv cs ir s1 hr p hatr (hpool.of_mono m2) fr bO bI hF st hB
        simp only [evalCall, hnat]
        cases hrv : evalArgs C.P n env recv with
        | ok rv =>
          simp only [hrv, LGoal] at hR
          simp only [SpecC04.Out.bind_ok]
          have hA := ihA env args s1 ia _ ha (p + isize ir) hata hpool fr bO bI (frameOK_locals m1.1 hF) _ (hB.pushVals rv)
          cases hav : evalArgs C.P n env args with
          | ok av =>
            simp only [hav, LGoal] at hA
            simp only [SpecC04.Out.bind_ok]
            cases recv with
            | cons r0 rs => simp [CGoal]
            | nil =>
              -- no receiver: its value list is empty
              have hrv0 : rv = [] := by
                cases n with
                | zero => simp [evalArgs] at hrv
                | succ m => simp [evalArgs] at hrv; exact hrv
              subst hrv0
              simp only [List.isEmpty_nil, Bool.not_true, Bool.false_eq_true, if_false, hfind, pushVals] at hA ⊢
              have hargs : Reaches C.fx C.venv C.f ⟨fr, p, st⟩ ⟨fr, p + isize ir + isize ia, pushVals av st⟩ := hR.trans _ _ _ hA
              have hgoal := hfn av st
              -- the call instruction
              have hdec := decodeAt_cast hati.1 (show p + ↑(isize (ir ++ ia)) = p + isize ir + isize ia by rw [isize_append]; omega)
              have hres' := hres
              cases hres : g.results with
              | nil =>
                simp only []
                by_cases hvoid : (ci.res != Ty.void) = true
                · simp [hvoid, CGoal]
                · have hv : ci.res = .void := by simpa using hvoid
                  simp only [hvoid, Bool.false_eq_true, if_false]
                  rw [hv] at hdec
                  simp only [beq_self_eq_true, if_true] at hdec
                  cases hcf : callFn C.P n g av with
                  | ok r =>
                    simp only [hcf] at hgoal
                    obtain ⟨hlo, hli, st1, hends, hb1, hvl⟩ := hgoal
                    have hcall := call_done C hfx (fr := fr) (kind := 2) hdec (fun _ => rfl) hfun hlo hli hends hb1 hvl
                    simp only [CGoal, pushVals, List.length_nil]
                    refine ⟨by omega, ?_⟩
                    refine (hargs.trans _ _ _ hcall).pc_cast rfl ?_
                    simp [isize_append, hv]; omega
                  | panic q =>
                    simp only [hcf] at hgoal
                    obtain ⟨hlo, hli, hends⟩ := hgoal
                    have := call_panic C (fr := fr) (kind := 2) hdec (fun _ => rfl) hfun hlo hli hends
                    simp only [CGoal]
                    exact Ends.of_reaches _ _ _ hargs (by simp) this
                  | _ => simp [CGoal]
              | cons t ts =>
                cases ts with
                | cons _ _ => simp [hres] at hres'
                | nil =>
                  simp only []
                  by_cases hty : (ci.res != t) = true
                  · simp [hty, CGoal]
                  · have hv : ci.res = t := by simpa using hty
                    simp only [hty, Bool.false_eq_true, if_false]
                    cases hcf : callFn C.P n g av with
                    | ok r =>
                      simp only [hcf] at hgoal
                      obtain ⟨hlo, hli, st1, hends, hb1, hvl⟩ := hgoal
                      cases r with
                      | none => simp [CGoal]
                      | some v =>
                        -- the value has the declared result type
                        have htv : tagOf v = t := callFn_tag C.P n g av v t hres hcf
                        simp only [CGoal, pushVals, List.length_singleton, Nat.le_refl, true_and]
                        by_cases hvoid : t = .void
                        · subst hvoid; cases v <;> simp [tagOf] at htv
                        · have hnv : (ci.res == Ty.void) = false := by rw [hv]; simpa using hvoid
                          simp only [hnv, Bool.false_eq_true, if_false] at hdec
                          by_cases hint : isInt ci.res = true
                          · simp only [hint, if_true] at hdec
                            have hcall := call_done C hfx (fr := fr) (kind := 1) hdec (fun _ => rfl) hfun hlo hli hends hb1 hvl
                            have hti : t = .int := by rw [← hv]; simpa [isInt] using hint
                            subst hti
                            have hr := hargs.trans _ _ _ hcall
                            have e : pushResult 1 (resOf (some v)) st = pushVal v st := by
                              cases v <;> simp [tagOf] at htv; rfl
                            rw [e] at hr
                            exact hr.pc_cast rfl (by simp [isize_append, hint, hnv]; omega)
                          · simp only [hint, Bool.false_eq_true, if_false] at hdec
                            have hcall := call_done C hfx (fr := fr) (kind := 0) hdec (fun _ => rfl) hfun hlo hli hends hb1 hvl
                            have hni : tagOf v ≠ .int := by rw [htv, ← hv]; simpa [isInt] using hint
                            have hr := hargs.trans _ _ _ hcall
                            have e : pushResult 0 (resOf (some v)) st = pushVal v st := by
                              cases v <;> simp [tagOf] at hni <;> rfl
                            rw [e] at hr
                            exact hr.pc_cast rfl (by simp [isize_append, hint, hnv]; omega)
                    | panic q =>
                      simp only [hcf] at hgoal
                      obtain ⟨hlo, hli, hends⟩ := hgoal
                      by_cases hvoid : (ci.res == Ty.void) = true
                      · simp only [hvoid, if_true] at hdec
                        have := call_panic C (fr := fr) (kind := 2) hdec (fun _ => rfl) hfun hlo hli hends
                        simp only [CGoal]
                        exact Ends.of_reaches _ _ _ hargs (by simp) this
                      · simp only [hvoid, Bool.false_eq_true, if_false] at hdec
                        by_cases hint : isInt ci.res = true
                        · simp only [hint, if_true] at hdec
                          have := call_panic C (fr := fr) (kind := 1) hdec (fun _ => rfl) hfun hlo hli hends
                          simp only [CGoal]
                          exact Ends.of_reaches _ _ _ hargs (by simp) this
                        · simp only [hint, Bool.false_eq_true, if_false] at hdec
                          have := call_panic C (fr := fr) (kind := 0) hdec (fun _ => rfl) hfun hlo hli hends
                          simp only [CGoal]
                          exact Ends.of_reaches _ _ _ hargs (by simp) this
                    | _ => simp [CGoal]
          | panic q =>
            simp only [hav, LGoal] at hA
            simp only [SpecC04.Out.bind_panic, CGoal]
            exact Ends.of_reaches _ _ _ hR (by simp) hA
          | _ => simp [bind, SpecC04.Out.bind, CGoal]
        | panic q => simpa [hrv, LGoal, CGoal, bind, SpecC04.Out.bind] using hR
        | _ => simp [bind, SpecC04.Out.bind, CGoal]

def objVals : List Val → List Obj
  | [] => []
  | .int _ :: vs => objVals vs
  | v :: vs => objOf v :: objVals vs

def intVals : List Val → List Int64
  | [] => []
  | .int k :: vs => k :: intVals vs
  | _ :: vs => intVals vs

theorem pushVals_shape (vs : List Val) (st : Stack) :
    (pushVals vs st).objs = (objVals vs).reverse ++ st.objs ∧ (pushVals vs st).ints = (intVals vs).reverse ++ st.ints := by
  induction vs generalizing st with
  | nil => simp [pushVals, objVals, intVals]
  | cons v vs ih =>
    rw [pushVals]
    obtain ⟨h1, h2⟩ := ih (pushVal v st)
    rw [h1, h2]
    cases v <;> simp [objVals, intVals, pushVal, pushInt, pushObj]

theorem fromBottom_rev {α} (l b : List α) (j : Nat) (a : α) (h : l[j]? = some a) :
    fromBottom (l.reverse ++ b) ((b.length : Int) + j) = .ok a := by
  have hj : j < l.length := (List.getElem?_eq_some_iff.mp h).1
  unfold fromBottom
  have h0 : ¬ ((b.length : Int) + j < 0) := by omega
  have e : ((b.length : Int) + j).toNat = b.length + j := by omega
  simp only [h0, if_false, e]
  have hl : b.length + j < (l.reverse ++ b).length := by simp; omega
  simp only [hl, if_true]
  have e2 : (l.reverse ++ b).length - 1 - (b.length + j) = l.length - 1 - j := by simp; omega
  rw [e2, List.getElem?_append_left (by simp; omega), List.getElem?_reverse (by omega)]
  have e3 : l.length - 1 - (l.length - 1 - j) = j := by omega
  rw [e3, h]

/-- where `collectParams` puts the parameters, against where the caller pushed the arguments -/
theorem params_layout : ∀ (params : List (Nat × Ty)) (av : List Val) (env : Env) (ps0 ips0 ps ips : List (Nat × Nat)),
    bindParams params av = some env →
    collectParams params ps0 ips0 = .ok (ps, ips) →
    (params.map Prod.fst).Nodup →
    (∀ x ∈ params.map Prod.fst, mapGet ps0 x = none ∧ mapGet ips0 x = none) →
    ps.length = ps0.length + (objVals av).length ∧ ips.length = ips0.length + (intVals av).length ∧
    (∀ x, x ∉ params.map Prod.fst → mapGet ps x = mapGet ps0 x ∧ mapGet ips x = mapGet ips0 x) ∧
    (env.map Prod.fst = params.map Prod.fst) ∧
    ∀ x v, lookup env x = some v →
      (tagOf v ≠ .int → mapGet ips x = none ∧ ∃ j, mapGet ps x = some (ps0.length + j) ∧ (objVals av)[j]? = some (objOf v)) ∧
      (∀ k, v = .int k → mapGet ps x = none ∧ ∃ j, mapGet ips x = some (ips0.length + j) ∧ (intVals av)[j]? = some k)
  | [], av, env, ps0, ips0, ps, ips, hb, hc, _, _ => by
    cases av with
    | nil =>
      simp [bindParams] at hb; subst hb
      simp [collectParams] at hc; obtain ⟨rfl, rfl⟩ := hc
      simp [objVals, intVals, lookup]
    | cons _ _ => simp [bindParams] at hb
  | (x, t) :: rest, av, env, ps0, ips0, ps, ips, hb, hc, hnd, hfresh => by
    cases av with
    | nil => simp [bindParams] at hb
    | cons v vs =>
      simp only [bindParams] at hb
      split at hb
      · rename_i htag
        have htag' : tagOf v = t := by simpa using htag
        cases hbr : bindParams rest vs with
        | none => simp [hbr] at hb
        | some env' =>
          simp [hbr] at hb; subst hb
          simp only [List.map_cons, List.nodup_cons] at hnd
          have hx0 := hfresh x (by simp)
          simp only [collectParams] at hc
          split at hc
          · simp at hc
          · split at hc
            · -- int parameter
              rename_i hint
              have hti : t = .int := by simpa [isInt] using hint
              obtain ⟨k, rfl⟩ : ∃ k, v = .int k := by
                cases v <;> simp [tagOf, hti] at htag' ⊢
              have ih := params_layout rest vs env' ps0 (mapSet ips0 x ips0.length) ps ips hbr hc hnd.2 (by
                intro y hy
                have hyx : y ≠ x := fun e => hnd.1 (e ▸ hy)
                have := hfresh y (by simp [hy])
                exact ⟨this.1, by rw [mapGet_mapSet_new hx0.2]; simp [hyx, this.2]⟩)
              obtain ⟨l1, l2, hout, hkeys, hin⟩ := ih
              have hlen := mapSet_length_new (v := ips0.length) hx0.2
              refine ⟨by simpa [objVals] using l1, by simp [intVals]; omega, ?_, by simp [hkeys], ?_⟩
              · intro y hy
                simp only [List.map_cons, List.mem_cons, not_or] at hy
                have := hout y hy.2
                exact ⟨this.1, by rw [this.2, mapGet_mapSet_new hx0.2]; simp [hy.1]⟩
              · intro y w hy
                rw [lookup_cons] at hy
                by_cases hxy : x = y
                · subst hxy
                  simp at hy; subst hy
                  have hxr := hout x hnd.1
                  refine ⟨fun h => absurd rfl h, ?_⟩
                  intro k' hk'; cases hk'
                  refine ⟨by rw [hxr.1]; exact hx0.1, 0, ?_, by simp [intVals]⟩
                  rw [hxr.2, mapGet_mapSet_new hx0.2]; simp
                · simp [hxy] at hy
                  obtain ⟨ho, hi⟩ := hin y w hy
                  refine ⟨by simpa [objVals] using ho, ?_⟩
                  intro k' hk'
                  obtain ⟨hn, j, hj, hv⟩ := hi k' hk'
                  refine ⟨hn, j + 1, ?_, by simpa [intVals] using hv⟩
                  rw [hj, hlen]; congr 1; omega
            · -- object parameter
              rename_i hint
              have hti : t ≠ .int := by simpa [isInt] using hint
              have hvo : tagOf v ≠ .int := by rw [htag']; exact hti
              have ih := params_layout rest vs env' (mapSet ps0 x ps0.length) ips0 ps ips hbr hc hnd.2 (by
                intro y hy
                have hyx : y ≠ x := fun e => hnd.1 (e ▸ hy)
                have := hfresh y (by simp [hy])
                exact ⟨by rw [mapGet_mapSet_new hx0.1]; simp [hyx, this.1], this.2⟩)
              obtain ⟨l1, l2, hout, hkeys, hin⟩ := ih
              have hlen := mapSet_length_new (v := ps0.length) hx0.1
              have hov : objVals (v :: vs) = objOf v :: objVals vs := by cases v <;> simp [objVals, tagOf] at hvo ⊢
              have hiv : intVals (v :: vs) = intVals vs := by cases v <;> simp [intVals, tagOf] at hvo ⊢
              refine ⟨by rw [hov]; simp; omega, by rw [hiv]; exact l2, ?_, by simp [hkeys], ?_⟩
              · intro y hy
                simp only [List.map_cons, List.mem_cons, not_or] at hy
                have := hout y hy.2
                exact ⟨by rw [this.1, mapGet_mapSet_new hx0.1]; simp [hy.1], this.2⟩
              · intro y w hy
                rw [lookup_cons] at hy
                by_cases hxy : x = y
                · subst hxy
                  simp at hy; subst hy
                  have hxr := hout x hnd.1
                  refine ⟨fun _ => ⟨by rw [hxr.2]; exact hx0.2, 0, ?_, by rw [hov]; simp⟩, ?_⟩
                  · rw [hxr.1, mapGet_mapSet_new hx0.1]; simp
                  · intro k' hk'; subst hk'; exact absurd rfl hvo
                · simp [hxy] at hy
                  obtain ⟨ho, hi⟩ := hin y w hy
                  refine ⟨?_, by rw [hiv]; exact hi⟩
                  intro hw
                  obtain ⟨hn, j, hj, hv⟩ := ho hw
                  refine ⟨hn, j + 1, ?_, by rw [hov]; simpa using hv⟩
                  rw [hj, hlen]; congr 1; omega
      · simp at hb

/-- `gc` is what the structured compiler makes of `g` in the compile-time environment `cenv` -/
structure FnLinked (fx : Fixes) (cenv : CEnv) (g : FuncDecl) (gc : CFunc) : Prop where
  compiled : ∃ sf, structCompile fx cenv g = some sf ∧ gc = sf.toCFunc ∧ ∀ i ∈ sf.instrs, i.wf
  nodup : (g.params.map Prod.fst).Nodup
  novoid : ∀ t ∈ g.results, t ≠ Ty.void

theorem newFrame_wf (a b : Int) : FrameWF (newFrame a b) := ⟨by simp [newFrame, Opc.maxLocals], by simp [newFrame, Opc.maxLocals]⟩

theorem structCompile_some {fx : Fixes} {cenv : CEnv} {g : FuncDecl} {sf : SFunc} (h : structCompile fx cenv g = some sf) :
    ∃ retTy ps ips sis s lu, retTyOf g.results = some retTy ∧ collectParams g.params [] [] = .ok (ps, ips) ∧
      compS fx cenv { retVoid := retTy == Ty.void, params := ps, intParams := ips } false g.body {} false = some (sis, s, lu) ∧
      sf = { instrs := resolve sis 0 ++ (if (retTy == Ty.void) = true then [Instr.ret] else []), consts := s.consts,
             intConsts := s.intConsts, numObjectParams := ps.length, numIntParams := ips.length } := by
  unfold structCompile at h
  cases hr : retTyOf g.results with
  | none => simp [hr] at h
  | some retTy =>
    simp only [hr] at h
    split at h
    · simp at h
    · cases hcp : collectParams g.params [] [] with
      | err => simp [hcp] at h
      | panic q => simp [hcp] at h
      | ok pp =>
        obtain ⟨ps, ips⟩ := pp
        simp only [hcp] at h
        cases hcs : compS fx cenv { retVoid := retTy == Ty.void, params := ps, intParams := ips } false g.body {} false with
        | none => simp [hcs] at h
        | some r =>
          obtain ⟨sis, s, lu⟩ := r
          simp only [hcs] at h
          generalize hgen : (resolve sis 0 ++ if (retTy == Ty.void) = true then [Instr.ret] else []) = is at h
          split at h
          · simp at h
          · simp only [Option.some.injEq] at h
            subst hgen
            exact ⟨retTy, ps, ips, sis, s, lu, rfl, rfl, hcs, h.symm⟩

theorem fnGoal_step {fx : Fixes} (hfx : FxOK fx) (P : SpecC04.Prog) (venv : VEnv) (cenv : CEnv) (g : FuncDecl) (gc : CFunc)
    (hl : FnLinked fx cenv g gc) (n : Nat) (hS : ∀ fnc, SimS ⟨fx, P, cenv, fnc, gc, venv⟩ n) :
    FnGoal fx P venv (n + 1) g gc := by
  intro av st0
  obtain ⟨sf, hsc, rfl, hwf⟩ := hl.compiled
  obtain ⟨retTy, ps, ips, sis, s, lu, hrt, hcp, hcs, rfl⟩ := structCompile_some hsc
  have hvoid : (retTy == Ty.void) = g.results.isEmpty := by
    cases hres : g.results with
    | nil => simp [retTyOf, hres] at hrt; subst hrt; rfl
    | cons t ts =>
      cases ts with
      | nil =>
        simp [retTyOf, hres] at hrt; subst hrt
        have := hl.novoid t (by simp [hres])
        simpa using this
      | cons _ _ => simp [retTyOf, hres] at hrt
  simp only [SFunc.toCFunc] at hwf hS ⊢
  simp only [callFn]
  cases hb : bindParams g.params av with
  | none => trivial
  | some env =>
    simp only []
    have hlay := params_layout g.params av env [] [] ps ips hb hcp hl.nodup (by intros; simp [mapGet])
    obtain ⟨hlo, hli, _, hkeys, hin⟩ := hlay
    simp only [List.length_nil, Nat.zero_add] at hlo hli
    obtain ⟨hso, hsi⟩ := pushVals_shape av st0
    have hlenO : (pushVals av st0).objs.length = st0.objs.length + ps.length := by rw [hso]; simp; omega
    have hlenI : (pushVals av st0).ints.length = st0.ints.length + ips.length := by rw [hsi]; simp; omega
    generalize hfnc : ({ retVoid := retTy == Ty.void, params := ps, intParams := ips } : CFn) = fnc at hcs
    have hrv : fnc.retVoid = (retTy == Ty.void) := by rw [← hfnc]
    have hpar : fnc.params = ps ∧ fnc.intParams = ips := by rw [← hfnc]; exact ⟨rfl, rfl⟩
    generalize hgc : (CFunc.mk (enc (resolve sis 0 ++ if (retTy == Ty.void) = true then [Instr.ret] else [])) s.consts s.intConsts ps.length ips.length) = gc at hS ⊢
    have hcode : gc.code = enc (resolve sis 0 ++ if (retTy == Ty.void) = true then [Instr.ret] else []) := by rw [← hgc]
    have hpools : gc.consts = s.consts ∧ gc.intConsts = s.intConsts := by rw [← hgc]; exact ⟨rfl, rfl⟩
    have hnum : gc.numObjectParams = ps.length ∧ gc.numIntParams = ips.length := by rw [← hgc]; exact ⟨rfl, rfl⟩
    have hat : At gc.code 0 (resolve sis 0 ++ if (retTy == Ty.void) = true then [Instr.ret] else []) := by
      have := at_enc _ hwf [] []
      rw [hcode]; simpa using this
    rw [at_append] at hat
    have hI : Inv fnc [] env (newFrame (st0.objs.length : Int) (st0.ints.length : Int)) (pushVals av st0).objs (pushVals av st0).ints := by
      refine ⟨?_, by rw [hkeys]; exact hl.nodup, ⟨by simp, by intros; simp_all [mapGet], by intros; simp_all [mapGet], by intros; simp_all [mapGet]⟩,
        newFrame_wf _ _⟩
      intro x v hx
      obtain ⟨ho, hi⟩ := hin x v hx
      rw [hpar.1, hpar.2]
      cases v with
      | int k =>
        obtain ⟨hn, j, hj, hv⟩ := hi k rfl
        refine Or.inr (Or.inl ⟨hn, j, k, by simpa using hj, rfl, ?_⟩)
        rw [hsi]; exact fromBottom_rev _ _ _ _ hv
      | _ =>
        all_goals
          obtain ⟨hn, j, hj, hv⟩ := ho (by simp [tagOf])
          refine Or.inl ⟨j, by simpa using hj, by simp [tagOf], ?_⟩
          rw [hso]; exact fromBottom_rev _ _ _ _ hv
    have hSG := hS fnc env g.body false {} false sis s lu hcs 0 0 hat.1 ⟨by rw [hpools.1]; exact List.prefix_refl _, by rw [hpools.2]; exact List.prefix_refl _⟩
      (newFrame (st0.objs.length : Int) (st0.ints.length : Int)) _ _ hI (pushVals av st0) ⟨[], [], rfl, rfl⟩
    simp only [] at hSG
    rw [← hvoid, ← hrv]
    cases hex : execStmt P fnc.retVoid n env g.body with
    | ok r =>
      obtain ⟨fl, env'⟩ := r
      simp only [hex, SGoal] at hSG
      simp only [SpecC04.Out.bind_ok]
      cases fl with
      | ret rv =>
        cases rv with
        | some v =>
          simp only []
          cases hres : g.results with
          | nil => trivial
          | cons t ts =>
            cases ts with
            | cons _ _ => trivial
            | nil =>
              simp only []
              by_cases htag : (tagOf v == t) = true
              · simp only [htag, if_true, pure]
                have hnv : fnc.retVoid = false := by rw [hrv, hvoid, hres]; rfl
                obtain ⟨st1, he, hb1, hvl⟩ := hSG (by simp [hnv])
                exact ⟨hlenO, hlenI, st1, he, hb1, by rw [hvl, pushVals_variadicLen]⟩
              · simp only [htag]; trivial
        | none =>
          simp only []
          by_cases hnv : fnc.retVoid = true
          · simp only [hnv, if_true, pure]
            obtain ⟨st1, he, hb1, hvl⟩ := hSG (by simp [hnv])
            exact ⟨hlenO, hlenI, st1, he, hb1, by rw [hvl, pushVals_variadicLen]⟩
          · simp only [hnv]; trivial
      | next =>
        simp only []
        by_cases hnv' : fnc.retVoid = true
        · simp only [hnv', if_true, pure]
          have hnv : (retTy == Ty.void) = true := by rw [← hrv]; exact hnv'
          obtain ⟨fr', hreach, _, _, _⟩ := hSG
          simp only [hnv, if_true, At] at hat
          have hret := run_ret fx venv gc (fr := fr') (st := pushVals av st0) (ins := .ret) (r := resOf none) (st' := pushVals av st0)
            (hd := by simpa [isize_resolve] using hat.2.1) (by simp [step, resOf]) 0
          exact ⟨hlenO, hlenI, pushVals av st0, Ends.of_reaches _ _ _ (hreach.pc_cast rfl (by simp)) (by simp) ⟨1, hret⟩,
            ⟨[], [], rfl, rfl⟩, pushVals_variadicLen _ _⟩
        · simp only [hnv']; trivial
      | brk => trivial
    | panic q =>
      simp only [hex, SGoal] at hSG
      simp only [SpecC04.Out.bind_panic]
      exact ⟨hlenO, hlenI, hSG⟩
    | _ => simp [bind, SpecC04.Out.bind]

end Q
