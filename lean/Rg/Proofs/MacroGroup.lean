import Rg.Model.MacroLit
/-!
# The statement loop of `convertRuleGroup` gives every helper call Go's binding

`findLocalMacro` returns the *first* recorded helper of a name; Go's meaning of a call is the *latest*
value of the variable.  The two agree on every group the loop accepts because (a) a plain `=` is not a
recognised statement — the group is refused — and (b) Go's type checker refuses a second `:=` of the same
name in one scope (hypothesis `Nodup`; nested scopes are `other` statements: refused).
-/
namespace MacroLit

def defsOf : List Stmt → List MacroDef
  | [] => []
  | .define n ps b :: r => ⟨n, ps, b⟩ :: defsOf r
  | .defineBad :: r => defsOf r
  | .assign _ _ _ :: r => defsOf r
  | .decl :: r => defsOf r
  | .rule _ :: r => defsOf r
  | .other :: r => defsOf r

def defNames : List Stmt → List String
  | [] => []
  | .define n _ _ :: r => n :: defNames r
  | .defineBad :: r => defNames r
  | .assign _ _ _ :: r => defNames r
  | .decl :: r => defNames r
  | .rule _ :: r => defNames r
  | .other :: r => defNames r

def noAssign : List Stmt → Bool
  | [] => true
  | .assign _ _ _ :: _ => false
  | .define _ _ _ :: r => noAssign r
  | .defineBad :: r => noAssign r
  | .decl :: r => noAssign r
  | .rule _ :: r => noAssign r
  | .other :: r => noAssign r

theorem defsOf_append (a b : List Stmt) : defsOf (a ++ b) = defsOf a ++ defsOf b := by
  induction a with
  | nil => rfl
  | cons s r ih => cases s <;> simp [defsOf, ih]

theorem defNames_append (a b : List Stmt) : defNames (a ++ b) = defNames a ++ defNames b := by
  induction a with
  | nil => rfl
  | cons s r ih => cases s <;> simp [defNames, ih]

theorem noAssign_append (a b : List Stmt) : noAssign (a ++ b) = (noAssign a && noAssign b) := by
  induction a with
  | nil => simp [noAssign]
  | cons s r ih => cases s <;> simp [noAssign, ih]

theorem goBinding_none (name : String) : ∀ pre, noAssign pre = true → name ∉ defNames pre → goBinding pre name = none
  | [], _, _ => rfl
  | s :: r, hna, hn => by
    cases s with
    | define n ps b =>
      have hr := goBinding_none name r (by simpa [noAssign] using hna) (fun h => hn (by simp [defNames, h]))
      have hne : (n == name) = false := by
        have : n ≠ name := fun h => hn (by simp [defNames, h])
        simpa using this
      simp [goBinding, hr, hne]
    | assign n ps b => simp [noAssign] at hna
    | defineBad => simpa [goBinding] using goBinding_none name r (by simpa [noAssign] using hna) (by simpa [defNames] using hn)
    | decl => simpa [goBinding] using goBinding_none name r (by simpa [noAssign] using hna) (by simpa [defNames] using hn)
    | rule c => simpa [goBinding] using goBinding_none name r (by simpa [noAssign] using hna) (by simpa [defNames] using hn)
    | other => simpa [goBinding] using goBinding_none name r (by simpa [noAssign] using hna) (by simpa [defNames] using hn)

/-- first recorded = latest bound, when no name is defined twice and nothing is re-assigned -/
theorem find_eq_binding (name : String) : ∀ pre, noAssign pre = true → (defNames pre).Nodup →
    findMacro (defsOf pre) name = goBinding pre name
  | [], _, _ => rfl
  | s :: r, hna, hnd => by
    cases s with
    | define n ps b =>
      have hna' : noAssign r = true := by simpa [noAssign] using hna
      simp only [defNames, List.nodup_cons] at hnd
      have ih := find_eq_binding name r hna' hnd.2
      by_cases hn : n = name
      · subst hn
        have := goBinding_none n r hna' hnd.1
        simp [findMacro, defsOf, goBinding, this]
      · have hne : (n == name) = false := by simpa using hn
        unfold findMacro at ih ⊢
        simp only [defsOf, List.find?_cons, hne, goBinding, ih]
        cases goBinding r name <;> simp
    | assign n ps b => simp [noAssign] at hna
    | defineBad => simpa [defsOf, goBinding] using find_eq_binding name r (by simpa [noAssign] using hna) (by simpa [defNames] using hnd)
    | decl => simpa [defsOf, goBinding] using find_eq_binding name r (by simpa [noAssign] using hna) (by simpa [defNames] using hnd)
    | rule c => simpa [defsOf, goBinding] using find_eq_binding name r (by simpa [noAssign] using hna) (by simpa [defNames] using hnd)
    | other => simpa [defsOf, goBinding] using find_eq_binding name r (by simpa [noAssign] using hna) (by simpa [defNames] using hnd)

theorem groupLoop_is_go : ∀ (stmts pre : List Stmt) (out : List (List (Option MacroDef))),
    noAssign pre = true → (defNames (pre ++ stmts)).Nodup →
    groupLoop (defsOf pre) stmts = some out → out = goGroup pre stmts
  | [], pre, out, _, _, h => by
    simp only [groupLoop, Option.some.injEq] at h
    simp [goGroup, ← h]
  | .define n ps b :: rest, pre, out, hna, hnd, h => by
    have := groupLoop_is_go rest (pre ++ [.define n ps b]) out (by simp [noAssign_append, hna, noAssign])
      (by simpa [List.append_assoc] using hnd)
      (by simpa [defsOf_append, defsOf, groupLoop] using h)
    simpa [goGroup] using this
  | .defineBad :: rest, pre, out, _, _, h => by simp [groupLoop] at h
  | .assign n ps b :: rest, pre, out, _, _, h => by simp [groupLoop] at h
  | .other :: rest, pre, out, _, _, h => by simp [groupLoop] at h
  | .decl :: rest, pre, out, hna, hnd, h => by
    have := groupLoop_is_go rest (pre ++ [.decl]) out (by simp [noAssign_append, hna, noAssign])
      (by simpa [List.append_assoc] using hnd)
      (by simpa [defsOf_append, defsOf, groupLoop] using h)
    simpa [goGroup] using this
  | .rule calls :: rest, pre, out, hna, hnd, h => by
    simp only [groupLoop] at h
    cases hr : groupLoop (defsOf pre) rest with
    | none => simp [hr] at h
    | some out' =>
      rw [hr] at h
      simp only [Option.some.injEq] at h
      have ih := groupLoop_is_go rest (pre ++ [.rule calls]) out' (by simp [noAssign_append, hna, noAssign])
        (by simpa [List.append_assoc] using hnd)
        (by simpa [defsOf_append, defsOf] using hr)
      have hpre : (defNames pre).Nodup := by
        rw [defNames_append] at hnd
        exact (List.nodup_append.1 hnd).1
      have hmap : calls.map (findMacro (defsOf pre)) = calls.map (goBinding pre) :=
        List.map_congr_left (fun name _ => find_eq_binding name pre hna hpre)
      rw [← h, hmap, ih]
      simp [goGroup]

end MacroLit
