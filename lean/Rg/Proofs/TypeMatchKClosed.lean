import Rg.Proofs.TypeMatch
import Rg.Proofs.TypeMatchK
/-!
# Closed patterns (no named variable, no `$*_`) on tame types, backtracking matcher

The matcher calls its continuation with the binding tables unchanged, or answers `false`, according to whether the
strict spec finds the (single) assignment `st`.
-/
open XTypes TypeMatch

namespace TypeMatch

section
variable {fx : Bool} {I : Ty → Ty → Bool} {bs : List Ty}
open SpecC10 (specM specSeq Rules)

theorem tame_unalias {t : Ty} (h : tame fx I bs t = true) : unalias t = t := by
  cases t <;> simp_all [tame, unalias]

/-- the shape of the conclusion: one verdict `b` for the spec and for the matcher under every continuation -/
def ClosedAt (st : MState) (spec : List MState) (run : (MState → Bool × MState) → Bool × MState) : Prop :=
  ∃ b : Bool, spec = (if b then [st] else []) ∧ ∀ k, run k = if b then k st else (false, st)

theorem ClosedAt.no {st : MState} {spec : List MState} {run : (MState → Bool × MState) → Bool × MState}
    (h1 : spec = []) (h2 : ∀ k, run k = (false, st)) : ClosedAt st spec run :=
  ⟨false, by simp [h1], by simp [h2]⟩

theorem ClosedAt.yes {st : MState} {spec : List MState} {run : (MState → Bool × MState) → Bool × MState}
    (h1 : spec = [st]) (h2 : ∀ k, run k = k st) : ClosedAt st spec run :=
  ⟨true, by simp [h1], by simp [h2]⟩

theorem ClosedAt.ofBool {st : MState} {spec : List MState} {run : (MState → Bool × MState) → Bool × MState}
    (b : Bool) (h1 : spec = if b then [st] else []) (h2 : ∀ k, run k = if b then k st else (false, st)) :
    ClosedAt st spec run := ⟨b, h1, h2⟩

mutual
theorem closed_runK : ∀ (p : Pat) (st : MState) (t : Ty), closedIn bs p = true → tame fx I bs t = true →
    ClosedAt st (specM I Rules.strict st p t) (fun k => matchK fx p t st k)
  | .builtin b, st, t, hc, ht => by
    have hid := idAt_apply (tame_idAt ht) (by simpa [closedIn] using hc)
    have hu := tame_unalias ht
    refine .ofBool (I t b) ?_ (fun k => ?_)
    · unfold specM; cases t <;> simp
    · show matchK fx _ t st k = _; unfold matchK; rw [hu, hid]
  | .var n, st, t, hc, ht => by
    have : n = "_" := by simpa [closedIn] using hc
    subst this
    refine .yes ?_ (fun k => ?_)
    · unfold specM; cases t <;> simp
    · show matchK fx _ t st k = _; unfold matchK; simp
  | .varSeq, st, t, hc, ht => by simp [closedIn] at hc
  | .ptr e, st, t, hc, ht => by
    have hu := tame_notAlias ht
    have hu' := tame_unalias ht
    simp only [closedIn] at hc
    unfold specM matchK
    rw [hu, hu']
    cases t
    case ptr a =>
      simp only [tame, Bool.and_eq_true] at ht
      exact closed_runK e st a hc ht.2
    all_goals exact .no (by simp) (by simp)
  | .slice e, st, t, hc, ht => by
    have hu := tame_notAlias ht
    have hu' := tame_unalias ht
    simp only [closedIn] at hc
    unfold specM matchK
    rw [hu, hu']
    cases t
    case slice a =>
      simp only [tame, Bool.and_eq_true] at ht
      exact closed_runK e st a hc ht.2
    all_goals exact .no (by simp) (by simp)
  | .arrayVar v e, st, t, hc, ht => by
    have hu := tame_notAlias ht
    have hu' := tame_unalias ht
    simp only [closedIn, Bool.and_eq_true, beq_iff_eq] at hc
    obtain ⟨rfl, hc⟩ := hc
    unfold specM matchK
    rw [hu, hu']
    cases t
    case array n a =>
      simp only [tame, Bool.and_eq_true] at ht
      simpa using closed_runK e st a hc ht.2
    all_goals exact .no (by simp) (by simp)
  | .arrayLit len e, st, t, hc, ht => by
    have hu := tame_notAlias ht
    have hu' := tame_unalias ht
    simp only [closedIn] at hc
    unfold specM matchK
    rw [hu, hu']
    cases t
    case array n a =>
      simp only [tame, Bool.and_eq_true] at ht
      by_cases hl : len = n
      · simpa [hl] using closed_runK e st a hc ht.2
      · exact .no (by simp [hl]) (by simp [hl])
    all_goals exact .no (by simp) (by simp)
  | .map pk pv, st, t, hc, ht => by
    have hu := tame_notAlias ht
    have hu' := tame_unalias ht
    simp only [closedIn, Bool.and_eq_true] at hc
    unfold specM matchK
    rw [hu, hu']
    cases t
    case map tk tv =>
      simp only [tame, Bool.and_eq_true] at ht
      obtain ⟨b1, s1, r1⟩ := closed_runK pk st tk hc.1 ht.1.2
      obtain ⟨b2, s2, r2⟩ := closed_runK pv st tv hc.2 ht.2
      refine .ofBool (b1 && b2) ?_ (fun k => ?_)
      · simp only [s1]; cases b1 <;> simp [s2]
      · simp only at r1 r2 ⊢; rw [r1]; cases b1 <;> simp [r2]
    all_goals exact .no (by simp) (by simp)
  | .chan dir e, st, t, hc, ht => by
    have hu := tame_notAlias ht
    have hu' := tame_unalias ht
    simp only [closedIn] at hc
    unfold specM matchK
    rw [hu, hu']
    cases t
    case chan d a =>
      simp only [tame, Bool.and_eq_true] at ht
      by_cases hl : dir = d
      · simpa [hl] using closed_runK e st a hc ht.2
      · exact .no (by simp [hl]) (by simp [hl])
    all_goals exact .no (by simp) (by simp)
  | .named pkgPath typeName, st, t, hc, ht => by
    have hu := tame_notAlias ht
    have hu' := tame_unalias ht
    unfold specM matchK
    rw [hu, hu']
    cases t
    case named u o p n x l ts =>
      simp only [tame, Bool.and_eq_true, List.isEmpty_iff, Bool.not_eq_true'] at ht
      obtain ⟨⟨⟨_, rfl⟩, rfl⟩, hv⟩ := ht
      cases p with
      | none => exact .no (by simp) (by simp)
      | some path =>
        have hv' : SpecC10.stripVendor Rules.strict path = vendorStrip path := by simpa [vendorSimple] using hv
        refine .ofBool (typeName == n && vendorStrip path == pkgPath) ?_ (fun k => ?_)
        · simp only; rw [hv']; simp [Rules.strict]
        · simp
    all_goals exact .no (by simp) (by simp)
  | .funcNoSeq pps prs, st, t, hc, ht => by
    have hu := tame_notAlias ht
    have hu' := tame_unalias ht
    simp only [closedIn, Bool.and_eq_true] at hc
    unfold specM matchK
    rw [hu, hu']
    cases t
    case sig v tps params results =>
      simp only [tame, Bool.and_eq_true, Bool.not_eq_true', List.isEmpty_iff] at ht
      obtain ⟨⟨⟨⟨_, rfl⟩, rfl⟩, hp⟩, hr⟩ := ht
      obtain ⟨b1, s1, r1, l1⟩ := closed_runFieldsK pps st (tupleElems params) hc.1 (tameList_tupleElems hp)
      obtain ⟨b2, s2, r2, l2⟩ := closed_runFieldsK prs st (tupleElems results) hc.2 (tameList_tupleElems hr)
      refine .ofBool (b1 && b2) ?_ (fun k => ?_)
      · simp only [tupleElems_eq, s1, Bool.and_false, List.isEmpty_nil, Bool.not_true, Bool.or_self, Bool.false_eq_true, if_false]; cases b1 <;> simp [s2]
      · simp only at r1 r2 ⊢
        by_cases h1 : (tupleElems params).length = pps.length
        · by_cases h2 : (tupleElems results).length = prs.length
          · simp only [h1, h2, bne_self_eq_false, Bool.false_or, List.isEmpty_nil, Bool.not_true,
              Bool.false_eq_true, if_false]
            rw [r1]; cases b1 <;> simp [r2]
          · have : b2 = false := by
              cases b2
              · rfl
              · exact absurd (l2 rfl).symm h2
            simp [h1, h2, this]
        · have : b1 = false := by
            cases b1
            · rfl
            · exact absurd (l1 rfl).symm h1
          simp [h1, this]
    all_goals exact .no (by simp) (by simp)
  | .func _ _, st, t, hc, ht => by simp [closedIn] at hc
  | .structNoSeq subs, st, t, hc, ht => by
    have hu := tame_notAlias ht
    have hu' := tame_unalias ht
    simp only [closedIn] at hc
    unfold specM matchK
    rw [hu, hu']
    cases t
    case struct fs =>
      simp only [tame, Bool.and_eq_true] at ht
      obtain ⟨b1, s1, r1, l1⟩ := closed_runFieldsK subs st (fieldTypes fs) hc (tameList_fieldTypes fs ht.2)
      refine .ofBool b1 ?_ (fun k => ?_)
      · simp only [fieldTypes_eq, s1]
      · simp only at r1 ⊢
        by_cases h1 : fs.length = subs.length
        · simp only [h1, bne_self_eq_false, Bool.false_eq_true, if_false]
          exact r1 k
        · have : b1 = false := by
            cases b1
            · rfl
            · exact absurd (by rw [← fieldTypes_length fs]; exact (l1 rfl).symm) h1
          simp [h1, this]
    all_goals exact .no (by simp) (by simp)
  | .struct _, st, t, hc, ht => by simp [closedIn] at hc
  | .anyIface, st, t, hc, ht => by
    have hu := tame_notAlias ht
    have hu' := tame_unalias ht
    unfold specM matchK
    rw [hu, hu']
    cases t
    case iface a c ms es => exact .yes (by simp) (by simp)
    all_goals exact .no (by simp) (by simp)
theorem closed_runFieldsK : ∀ (ps : List Pat) (st : MState) (ts : List Ty), closedInList bs ps = true →
    tameList fx I bs ts = true →
    ∃ b : Bool, specSeq I Rules.strict st ps ts = (if b then [st] else []) ∧
      (∀ k, matchFieldsK fx ps ts st k = if b then k st else (false, st)) ∧ (b = true → ps.length = ts.length)
  | [], st, [], _, _ => ⟨true, by simp [specSeq], fun k => by simp [matchFieldsK], fun _ => rfl⟩
  | [], st, _ :: _, _, _ => ⟨false, by simp [specSeq], fun k => by simp [matchFieldsK], fun h => by cases h⟩
  | p :: ps, st, [], hc, _ => by
    refine ⟨false, ?_, fun k => ?_, fun h => by cases h⟩
    · cases p <;> simp [specSeq, closedInList, closedIn] at hc ⊢
    · unfold matchFieldsK
      cases p <;> simp [Pat.isSeq, closedInList, closedIn] at hc ⊢
  | p :: ps, st, t :: ts, hc, ht => by
    simp only [closedInList, Bool.and_eq_true] at hc
    simp only [tameList, Bool.and_eq_true] at ht
    obtain ⟨b1, s1, r1⟩ := closed_runK p st t hc.1 ht.1
    obtain ⟨b2, s2, r2, l2⟩ := closed_runFieldsK ps st ts hc.2 ht.2
    have hns : p.isSeq = false := by cases p <;> simp [closedIn, Pat.isSeq] at hc ⊢
    refine ⟨b1 && b2, ?_, fun k => ?_, fun h => ?_⟩
    · have hne : p ≠ Pat.varSeq := by rintro rfl; simp [Pat.isSeq] at hns
      unfold specSeq
      cases p <;> first | (exact absurd rfl hne) | (simp only [s1]; cases b1 <;> simp [s2])
    · unfold matchFieldsK
      simp only [hns, Bool.false_eq_true, if_false]
      simp only at r1
      rw [r1]; cases b1 <;> simp [r2]
    · simp only [Bool.and_eq_true] at h
      simp [l2 h.2]
end

end

end TypeMatch
