import Rg.Proofs.TypeMatchKComplete
import Rg.Proofs.XTypesTrans
/-!
# `xtypes.Identical` satisfies the laws completeness of the matcher needs (`IdLaws`)

on well-formed trees (`wfT`: one spelling per declaration, known array lengths; `flagsOK`: `exported` flags are a
function of the name) — for the identity before `fixes/xtypes-identical.diff` on alias-free trees only.
-/
open XTypes TypeMatch

namespace TypeMatch

/-- the trees on which `xtypes.Identical` (variant `fx`) is an equivalence -/
def WellFormed (fx : Bool) (E : String → Bool) (D : Nat → Decl) (t : Ty) : Prop :=
  wfT E D t = true ∧ flagsOK E t = true ∧ (fx || noAlias t) = true

theorem mem_wfTList {E : String → Bool} {D : Nat → Decl} : ∀ {es : List Ty}, wfTList E D es = true → ∀ e ∈ es, wfT E D e = true
  | [], _, e, he => by simp at he
  | a :: as, h, e, he => by
    simp only [wfTList, Bool.and_eq_true] at h
    rcases List.mem_cons.mp he with rfl | he
    · exact h.1
    · exact mem_wfTList h.2 e he

theorem mem_flagsOKList {E : String → Bool} : ∀ {es : List Ty}, flagsOKList E es = true → ∀ e ∈ es, flagsOK E e = true
  | [], _, e, he => by simp at he
  | a :: as, h, e, he => by
    simp only [flagsOKList, Bool.and_eq_true] at h
    rcases List.mem_cons.mp he with rfl | he
    · exact h.1
    · exact mem_flagsOKList h.2 e he

theorem mem_noAliasList {fx : Bool} : ∀ {es : List Ty}, (fx || noAliasList es) = true → ∀ e ∈ es, (fx || noAlias e) = true
  | [], _, e, he => by simp at he
  | a :: as, h, e, he => by
    cases fx
    · simp only [Bool.false_or, noAliasList, Bool.and_eq_true] at h ⊢
      rcases List.mem_cons.mp he with rfl | he
      · exact h.1
      · simpa using mem_noAliasList (fx := false) (by simpa using h.2) e he
    · rfl

theorem wellFormed_tupleElems {fx : Bool} {E : String → Bool} {D : Nat → Decl} {t : Ty} (h : WellFormed fx E D t) :
    ∀ e ∈ tupleElems t, WellFormed fx E D e := by
  intro e he
  cases t <;> simp only [tupleElems, List.not_mem_nil] at he
  obtain ⟨h1, h2, h3⟩ := h
  simp only [wfT, flagsOK, noAlias] at h1 h2 h3
  exact ⟨mem_wfTList h1 e he, mem_flagsOKList h2 e he, mem_noAliasList h3 e he⟩

theorem wellFormed_fieldTypes {fx : Bool} {E : String → Bool} {D : Nat → Decl} : ∀ (fs : List Ty),
    wfTList E D fs = true → flagsOKList E fs = true → (fx || noAliasList fs) = true →
    ∀ e ∈ fieldTypes fs, WellFormed fx E D e
  | [], _, _, _, e, he => by simp [fieldTypes] at he
  | f :: fs, h1, h2, h3, e, he => by
    simp only [wfTList, flagsOKList, Bool.and_eq_true] at h1 h2
    have h3a : (fx || noAlias f) = true := mem_noAliasList h3 f (by simp)
    have h3b : (fx || noAliasList fs) = true := by
      cases fx
      · simp only [Bool.false_or, noAliasList, Bool.and_eq_true] at h3 ⊢; exact h3.2
      · rfl
    have ih := wellFormed_fieldTypes fs h1.2 h2.2 h3b
    cases f
    case field n p x m tg ty =>
      simp only [fieldTypes, List.mem_cons] at he
      rcases he with rfl | he
      · have a := h1.1; have b := h2.1
        simp only [wfT, flagsOK, Bool.and_eq_true] at a b
        exact ⟨a.2, b.2, by simpa [noAlias] using h3a⟩
      · exact ih e he
    all_goals
      simp only [fieldTypes, List.mem_cons] at he
      rcases he with rfl | he
      · exact ⟨h1.1, h2.1, h3a⟩
      · exact ih e he

/-- `tid true` does not see aliases of its left operand -/
theorem tid_unalias_left (x y : Ty) : tid true (unalias x) y = tid true x y := by
  unfold tid
  have := tidC_norm_left true x (norm true y) (by simp) (by simp [norm, notAlias_unalias])
  simpa [norm] using this

theorem wclosed_wellFormed (fx : Bool) (E : String → Bool) (D : Nat → Decl) : WClosed (WellFormed fx E D) where
  w_unalias x hx := by
    refine ⟨?_, by rw [flagsOK_unalias]; exact hx.2.1, noAlias_or_unalias hx.2.2⟩
    have := wfT_norm E D true x
    simp only [norm, if_true] at this
    rw [this]; exact hx.1
  w_ptr a h := by
    obtain ⟨h1, h2, h3⟩ := h
    simp only [wfT, flagsOK, noAlias] at h1 h2 h3
    exact ⟨h1, h2, h3⟩
  w_slice a h := by
    obtain ⟨h1, h2, h3⟩ := h
    simp only [wfT, flagsOK, noAlias] at h1 h2 h3
    exact ⟨h1, h2, h3⟩
  w_array n a h := by
    obtain ⟨h1, h2, h3⟩ := h
    simp only [wfT, flagsOK, noAlias, Bool.and_eq_true] at h1 h2 h3
    exact ⟨h1.2, h2, h3⟩
  w_map k v h := by
    obtain ⟨h1, h2, h3⟩ := h
    simp only [wfT, flagsOK, Bool.and_eq_true] at h1 h2
    have h3' := fx_or_and h3
    exact ⟨⟨h1.1, h2.1, h3'.1⟩, ⟨h1.2, h2.2, h3'.2⟩⟩
  w_chan d a h := by
    obtain ⟨h1, h2, h3⟩ := h
    simp only [wfT, flagsOK, noAlias] at h1 h2 h3
    exact ⟨h1, h2, h3⟩
  w_sig v tps ps rs h := by
    obtain ⟨h1, h2, h3⟩ := h
    simp only [wfT, flagsOK, Bool.and_eq_true] at h1 h2
    have h3' := fx_or_and h3
    have h3'' := fx_or_and h3'.1
    exact ⟨wellFormed_tupleElems ⟨h1.1.2, h2.1.2, h3''.2⟩, wellFormed_tupleElems ⟨h1.2, h2.2, h3'.2⟩⟩
  w_struct fs h := by
    obtain ⟨h1, h2, h3⟩ := h
    simp only [wfT, flagsOK, noAlias] at h1 h2 h3
    exact wellFormed_fieldTypes fs h1 h2 h3


theorem idLaws_xtypes (fx : Bool) (E : String → Bool) (D : Nat → Decl) : IdLaws fx (WellFormed fx E D) where
  toWClosed := wclosed_wellFormed fx E D
  symm x y hx hy h := by rw [← tid_symm x y hx.2.1 hy.2.1 hx.2.2 hy.2.2]; exact h
  trans x y z hx hy hz h1 h2 := tid_trans x y z hx.1 hy.1 hz.1 hx.2.2 hy.2.2 hz.2.2 h1 h2
  unaliasL x y hx h := by
    cases fx
    · have : noAlias x = true := by simpa using hx.2.2
      rw [unalias_of_notAlias (noAlias_notAlias this)]; exact h
    · rw [tid_unalias_left]; exact h

end TypeMatch
