import Rg.Model.Loads
import Rg.Spec.C13
/-! Helper lemmas about the load state machine (C13): what a successful `loadFile` produces,
what `mergeRuleSets` does, and the invariants of the engine. -/
namespace LoadM
open SpecC13

/-- what identifies a rule independently of the functions bound to it -/
abbrev Shape := (Nat × Nat) × Nat × Nat × Nat × Bool × Nat

def Rule.shape (r : Rule) : Shape := (r.group, r.line, r.bucket, r.key, r.wild, r.msg)
def declShape (g : Nat × Nat) (r : RuleDecl) : Shape := (g, r.line, r.bucket, r.key, r.wild, r.msg)

def infos (u : List SGroup) : List GroupInfo := u.map (·.info)
def shapes (u : List SGroup) : List Shape := u.flatMap fun g => g.decls.map (declShape g.info.name)

@[simp] theorem infos_append (a b : List SGroup) : infos (a ++ b) = infos a ++ infos b := by simp [infos]
@[simp] theorem shapes_append (a b : List SGroup) : shapes (a ++ b) = shapes a ++ shapes b := by simp [shapes]
@[simp] theorem infos_nil : infos [] = [] := rfl
@[simp] theorem shapes_nil : shapes [] = [] := rfl

/-! ### loadRule / loadRules -/

theorem loadRule_shape {fixed env own pkg g r x} (h : loadRule fixed env own pkg g r = .ok x) :
    x.shape = declShape g r := by
  unfold loadRule at h
  split at h <;> try cases h
  split at h <;> try cases h
  split at h <;> try cases h
  rfl

theorem loadRules_shape {fixed env own pkg g} : ∀ {rs xs}, loadRules fixed env own pkg g rs = .ok xs →
    xs.map Rule.shape = rs.map (declShape g)
  | [], xs, h => by simp [loadRules] at h; subst h; rfl
  | r :: rs, xs, h => by
    unfold loadRules at h
    split at h <;> try cases h
    rename_i x hx
    split at h
    · rename_i ys hys
      cases h
      simp [loadRule_shape hx, loadRules_shape hys]
    · rename_i o hne
      cases o <;> simp_all

/-! ### loadGroup / loadGroups -/

theorem loadGroup_ok {fixed env own pkg pfx file rejected res g res'}
    (h : loadGroup fixed env own pkg pfx file rejected res g = .ok res') :
    (rejected.contains (pfx, g.name) = true ∧ res' = res) ∨
    (rejected.contains (pfx, g.name) = false ∧
      res.groups.any (fun x => x.name == (pfx, g.name)) = false ∧
      res'.groups = res.groups ++ [⟨(pfx, g.name), file, g.line⟩] ∧
      res'.rules.map Rule.shape = res.rules.map Rule.shape ++ g.rules.map (declShape (pfx, g.name))) := by
  unfold loadGroup at h
  simp only at h
  split at h
  · left; cases h; simp_all
  · rename_i hrej
    split at h
    · cases fixed <;> simp at h
    · rename_i hdup
      split at h <;> try cases h
      rename_i rs hrs
      right
      refine ⟨by simpa using hrej, by simpa using hdup, rfl, ?_⟩
      simp [loadRules_shape hrs]

/-- the groups of a unit that the filter lets through -/
def acceptedDecls (pfx : Nat) (rejected : List (Nat × Nat)) (gs : List GroupDecl) : List GroupDecl :=
  gs.filter fun g => !rejected.contains (pfx, g.name)

theorem acceptedDecls_cons_rej {pfx rejected g gs} (h : rejected.contains (pfx, g.name) = true) :
    acceptedDecls pfx rejected (g :: gs) = acceptedDecls pfx rejected gs := by
  unfold acceptedDecls; rw [List.filter_cons]; simp_all

theorem acceptedDecls_cons_acc {pfx rejected g gs} (h : rejected.contains (pfx, g.name) = false) :
    acceptedDecls pfx rejected (g :: gs) = g :: acceptedDecls pfx rejected gs := by
  unfold acceptedDecls; rw [List.filter_cons]; simp_all

theorem loadGroups_ok {fixed env own pkg pfx file rejected} : ∀ {gs res res'},
    loadGroups fixed env own pkg pfx file rejected res gs = .ok res' →
    res'.groups = res.groups ++ (acceptedDecls pfx rejected gs).map (fun g => ⟨(pfx, g.name), file, g.line⟩) ∧
    res'.rules.map Rule.shape = res.rules.map Rule.shape ++
      (acceptedDecls pfx rejected gs).flatMap (fun g => g.rules.map (declShape (pfx, g.name)))
  | [], res, res', h => by simp [loadGroups] at h; subst h; simp [acceptedDecls]
  | g :: gs, res, res', h => by
    unfold loadGroups at h
    split at h
    · rename_i r1 h1
      have ih := loadGroups_ok h
      rcases loadGroup_ok h1 with ⟨hr, rfl⟩ | ⟨hr, _, hg, hs⟩
      · rw [acceptedDecls_cons_rej hr]; exact ih
      · rw [acceptedDecls_cons_acc hr, ih.1, ih.2, hg, hs]; simp
    · rename_i o hne
      cases o <;> simp_all


theorem infos_acceptedOfUnit (pfx rejected) (u : FileUnit) :
    infos (acceptedOfUnit pfx rejected u) =
      (acceptedDecls pfx rejected u.groups).map (fun g => ⟨(pfx, g.name), u.file, g.line⟩) := by
  simp [infos, acceptedOfUnit, acceptedDecls, List.map_map, Function.comp_def]

theorem shapes_acceptedOfUnit (pfx rejected) (u : FileUnit) :
    shapes (acceptedOfUnit pfx rejected u) =
      (acceptedDecls pfx rejected u.groups).flatMap (fun g => g.rules.map (declShape (pfx, g.name))) := by
  simp [shapes, acceptedOfUnit, acceptedDecls, List.flatMap_map]

/-! ### loadUnit -/

theorem loadUnit_ok {fixed env pkg pfx rejected u env' rs}
    (h : loadUnit fixed env pkg pfx rejected u = (env', .ok rs)) :
    rs.groups = infos (acceptedOfUnit pfx rejected u) ∧
    rs.rules.map Rule.shape = shapes (acceptedOfUnit pfx rejected u) := by
  unfold loadUnit at h
  split at h
  · rename_i e1 hc
    simp only [Prod.mk.injEq] at h
    have := loadGroups_ok h.2
    rw [infos_acceptedOfUnit, shapes_acceptedOfUnit]
    simpa using this
  · simp at h
  · simp at h

/-! ### mergeRuleSets -/

theorem mergeInto_ok {out x out'} (h : mergeInto out x = .ok out') :
    out'.groups = out.groups ++ x.groups ∧ out'.rules = out.rules ++ x.rules ∧
    x.groups.any (fun g => out.groups.any (fun h => h.name == g.name)) = false := by
  unfold mergeInto at h
  split at h
  · cases h
  · rename_i hc; cases h; exact ⟨rfl, rfl, by simpa using hc⟩

theorem mergeInto_err {out x e} (h : mergeInto out x = .err e) :
    e = .redef ∧ x.groups.any (fun g => out.groups.any (fun h => h.name == g.name)) = true := by
  unfold mergeInto at h
  split at h
  · rename_i hc; cases h; exact ⟨rfl, hc⟩
  · cases h

theorem mergeInto_not_panic {out x p} : mergeInto out x ≠ .panic p := by
  unfold mergeInto; split <;> simp

theorem mergeFrom_ok : ∀ {xs out m}, mergeRuleSetsFrom out xs = .ok m →
    m.groups = out.groups ++ xs.flatMap (·.groups) ∧ m.rules = out.rules ++ xs.flatMap (·.rules)
  | [], out, m, h => by simp [mergeRuleSetsFrom] at h; subst h; simp
  | x :: xs, out, m, h => by
    unfold mergeRuleSetsFrom at h
    split at h
    · rename_i o1 h1
      obtain ⟨hg, hr, _⟩ := mergeInto_ok h1
      obtain ⟨ig, ir⟩ := mergeFrom_ok h
      simp [ig, ir, hg, hr]
    · rename_i o hne
      cases o <;> simp_all

theorem mergeFrom_not_panic : ∀ {xs out p}, mergeRuleSetsFrom out xs ≠ .panic p
  | [], out, p => by simp [mergeRuleSetsFrom]
  | x :: xs, out, p => by
    unfold mergeRuleSetsFrom
    split
    · exact mergeFrom_not_panic
    · exact mergeInto_not_panic

theorem mergeFrom_err_redef : ∀ {xs out e}, mergeRuleSetsFrom out xs = .err e → e = .redef
  | [], out, e, h => by simp [mergeRuleSetsFrom] at h
  | x :: xs, out, e, h => by
    unfold mergeRuleSetsFrom at h
    split at h
    · exact mergeFrom_err_redef h
    · exact (mergeInto_err h).1

theorem merge_ok {xs m} (h : mergeRuleSets xs = .ok m) :
    m.groups = xs.flatMap (·.groups) ∧ m.rules = xs.flatMap (·.rules) := by
  have := mergeFrom_ok h; simpa using this

/-- the merge of the engine's rule set with a new one: succeeds iff no name is shared -/
theorem merge_pair (cur rset : RuleSet) :
    (rset.groups.any (fun g => cur.groups.any (fun h => h.name == g.name)) = false ∧
      mergeRuleSets [cur, rset] = .ok ⟨cur.rules ++ rset.rules, cur.groups ++ rset.groups⟩) ∨
    (rset.groups.any (fun g => cur.groups.any (fun h => h.name == g.name)) = true ∧
      mergeRuleSets [cur, rset] = .err .redef) := by
  cases hc : rset.groups.any (fun g => cur.groups.any (fun h => h.name == g.name))
  · left; refine ⟨rfl, ?_⟩
    simp [mergeRuleSets, mergeRuleSetsFrom, mergeInto, hc]
  · right; refine ⟨rfl, ?_⟩
    simp [mergeRuleSets, mergeRuleSetsFrom, mergeInto, hc]


/-! ### bundles and loadFile -/

theorem loadBundleFiles_ok {fixed pfx rejected} : ∀ {us env env' rss},
    loadBundleFiles fixed env pfx rejected us = (env', .ok rss) →
    rss.flatMap (·.groups) = infos (us.flatMap (acceptedOfUnit pfx rejected)) ∧
    (rss.flatMap (·.rules)).map Rule.shape = shapes (us.flatMap (acceptedOfUnit pfx rejected))
  | [], env, env', rss, h => by simp [loadBundleFiles] at h; obtain ⟨_, rfl⟩ := h; simp
  | u :: us, env, env', rss, h => by
    unfold loadBundleFiles at h
    split at h
    · simp at h
    · split at h
      · rename_i e1 rs h1
        split at h
        · rename_i e2 rss' h2
          simp only [Prod.mk.injEq, Out.ok.injEq] at h
          obtain ⟨_, rfl⟩ := h
          obtain ⟨g1, r1⟩ := loadUnit_ok h1
          obtain ⟨g2, r2⟩ := loadBundleFiles_ok h2
          simp [g1, g2, r1, r2]
        · rename_i o hne
          rcases o with ⟨e3, o3⟩
          cases o3 <;> simp_all
      · simp at h
      · simp at h

theorem loadBundles_ok {fixed rejected} : ∀ {bs env env' imported},
    loadBundles fixed env rejected bs = (env', .ok imported) →
    imported.flatMap (·.groups) =
      infos (bs.flatMap fun b => b.files.flatMap (acceptedOfUnit b.pfx rejected)) ∧
    (imported.flatMap (·.rules)).map Rule.shape =
      shapes (bs.flatMap fun b => b.files.flatMap (acceptedOfUnit b.pfx rejected))
  | [], env, env', imported, h => by simp [loadBundles] at h; obtain ⟨_, rfl⟩ := h; simp
  | b :: bs, env, env', imported, h => by
    unfold loadBundles at h
    split at h
    · simp at h
    · split at h
      · rename_i e1 rss h1
        split at h
        · rename_i e2 more h2
          simp only [Prod.mk.injEq, Out.ok.injEq] at h
          obtain ⟨_, rfl⟩ := h
          obtain ⟨g1, r1⟩ := loadBundleFiles_ok h1
          obtain ⟨g2, r2⟩ := loadBundles_ok h2
          simp [g1, g2, r1, r2]
        · rename_i o hne
          rcases o with ⟨e3, o3⟩
          cases o3 <;> simp_all
      · rename_i o hne
        rcases o with ⟨e3, o3⟩
        cases o3 <;> simp_all

theorem loadFile_ok {fixed env r env' rset} (h : loadFile fixed env r = (env', .ok rset)) :
    rset.groups = infos (accepted r) ∧ rset.rules.map Rule.shape = shapes (accepted r) := by
  unfold loadFile at h
  split at h
  · simp at h
  · simp at h
  · rename_i env1 imported hb
    obtain ⟨bg, br⟩ := loadBundles_ok hb
    split at h
    · rename_i env2 res hu
      obtain ⟨ug, ur⟩ := loadUnit_ok hu
      split at h
      · rename_i hemp
        simp only [Prod.mk.injEq, Out.ok.injEq] at h
        obtain ⟨_, rfl⟩ := h
        have : imported = [] := by simpa using hemp
        subst this
        simp at bg br
        simp [accepted, ug, ur, ← bg, ← br]
      · simp only [Prod.mk.injEq] at h
        obtain ⟨mg, mr⟩ := merge_ok h.2
        simp [accepted, mg, mr, ug, ur, bg, br]
    · rename_i o hne
      rcases o with ⟨e3, o3⟩
      cases o3 <;> simp_all


/-! ### the engine as the ordered union -/

def okOut : Out Unit → Bool
  | .ok () => true
  | _ => false

/-- the engine's rule set seen as (group list, rule shapes in order) equals that of `u` -/
def View (e : Engine) (u : List SGroup) : Prop :=
  match e.ruleSet with
  | none => u = []
  | some rs => rs.groups = infos u ∧ rs.rules.map Rule.shape = shapes u

/-- the three ways a call can end: failure (rule set untouched), first successful load, merge -/
theorem load_cases (fixed : Bool) (e : Engine) (r : Req) :
    (∃ env' x, load fixed e r = (⟨e.ruleSet, env'⟩, x) ∧ okOut x = false) ∨
    (∃ env' rset, loadFile fixed e.env r = (env', .ok rset) ∧ e.ruleSet = none ∧
        load fixed e r = (⟨some rset, env'⟩, .ok ())) ∨
    (∃ env' rset cur, loadFile fixed e.env r = (env', .ok rset) ∧ e.ruleSet = some cur ∧
        rset.groups.any (fun g => cur.groups.any (fun h => h.name == g.name)) = false ∧
        load fixed e r = (⟨some ⟨cur.rules ++ rset.rules, cur.groups ++ rset.groups⟩, env'⟩, .ok ())) := by
  unfold load
  split
  · left; exact ⟨e.env, _, rfl, rfl⟩
  · split
    · left; exact ⟨_, _, rfl, rfl⟩
    · left; exact ⟨_, _, rfl, rfl⟩
    · rename_i env' rset hf
      split
      · rename_i hn
        right; left; exact ⟨env', rset, hf, hn, rfl⟩
      · rename_i cur hc
        rcases merge_pair cur rset with ⟨hno, hm⟩ | ⟨_, hm⟩
        · right; right
          refine ⟨env', rset, cur, hf, hc, hno, ?_⟩
          rw [hm]
        · left
          refine ⟨env', .err .redef, ?_, rfl⟩
          rw [hm, hc]

theorem load_ruleSet_of_not_ok {fixed e r} (h : okOut (load fixed e r).2 = false) :
    (load fixed e r).1.ruleSet = e.ruleSet := by
  rcases load_cases fixed e r with ⟨env', x, hl, _⟩ | ⟨env', rset, _, _, hl⟩ | ⟨env', rset, cur, _, _, _, hl⟩
  · rw [hl]
  · rw [hl] at h; simp [okOut] at h
  · rw [hl] at h; simp [okOut] at h

theorem load_step_view {fixed e r u} (hv : View e u) :
    View (load fixed e r).1 (u ++ if okOut (load fixed e r).2 then accepted r else []) := by
  rcases load_cases fixed e r with ⟨env', x, hl, hx⟩ | ⟨env', rset, hf, hn, hl⟩ | ⟨env', rset, cur, hf, hc, _, hl⟩
  · rw [hl]; simp only [hx, Bool.false_eq_true, if_false, List.append_nil]
    unfold View at hv ⊢; exact hv
  · obtain ⟨fg, fr⟩ := loadFile_ok hf
    rw [hl]; simp only [okOut, if_true]
    unfold View at hv ⊢
    simp only [hn] at hv
    subst hv
    simp [fg, fr]
  · obtain ⟨fg, fr⟩ := loadFile_ok hf
    rw [hl]; simp only [okOut, if_true]
    unfold View at hv ⊢
    simp only [hc] at hv
    simp [hv.1, hv.2, fg, fr]

/-- the union the property prescribes, with "successful" read off the model's own outcomes -/
def unionFrom (fixed : Bool) : Engine → List Req → List SGroup
  | _, [] => []
  | e, r :: rs =>
    (if okOut (load fixed e r).2 then accepted r else []) ++ unionFrom fixed (load fixed e r).1 rs

theorem view_final {fixed} : ∀ {hist e u}, View e u →
    View (finalEngine fixed e hist) (u ++ unionFrom fixed e hist)
  | [], e, u, hv => by simpa [finalEngine, unionFrom] using hv
  | r :: rs, e, u, hv => by
    have := view_final (fixed := fixed) (hist := rs) (load_step_view (fixed := fixed) (r := r) hv)
    simpa [finalEngine, unionFrom, List.append_assoc] using this


/-! ### LoadedGroups: insertion sort by name -/

theorem nameLt_iff (a b : Nat × Nat) : nameLt a b = true ↔ a.1 < b.1 ∨ (a.1 = b.1 ∧ a.2 < b.2) := by
  simp [nameLt]

theorem nameLt_false_iff (a b : Nat × Nat) : nameLt a b = false ↔ b.1 < a.1 ∨ (a.1 = b.1 ∧ b.2 ≤ a.2) := by
  rw [← Bool.not_eq_true, nameLt_iff]; omega

/-- `a` does not come after `b` -/
def GLe (a b : GroupInfo) : Prop := nameLt b.name a.name = false

theorem GLe_trans {a b c : GroupInfo} (h1 : GLe a b) (h2 : GLe b c) : GLe a c := by
  unfold GLe at *; rw [nameLt_false_iff] at *; omega

theorem GLe_of_lt {a b : GroupInfo} (h : nameLt a.name b.name = true) : GLe a b := by
  unfold GLe; rw [nameLt_false_iff]; rw [nameLt_iff] at h; omega

theorem GLe_of_not_lt {a b : GroupInfo} (h : nameLt a.name b.name = false) : GLe b a := h

theorem insertSorted_perm (g : GroupInfo) : ∀ l, (insertSorted g l).Perm (g :: l)
  | [] => by simp [insertSorted]
  | h :: t => by
    unfold insertSorted
    split
    · exact List.Perm.refl _
    · exact ((insertSorted_perm g t).cons h).trans (List.Perm.swap g h t)

theorem sortGroups_perm : ∀ l, (sortGroups l).Perm l
  | [] => by simp [sortGroups]
  | g :: gs => by
    unfold sortGroups
    exact (insertSorted_perm g _).trans ((sortGroups_perm gs).cons g)

theorem insertSorted_sorted (g : GroupInfo) : ∀ l, l.Pairwise GLe → (insertSorted g l).Pairwise GLe
  | [], _ => by simp [insertSorted]
  | h :: t, hs => by
    unfold insertSorted
    rw [List.pairwise_cons] at hs
    split
    · rename_i hlt
      rw [List.pairwise_cons]
      refine ⟨?_, List.pairwise_cons.2 hs⟩
      intro x hx
      rcases List.mem_cons.1 hx with rfl | hx
      · exact GLe_of_lt hlt
      · exact GLe_trans (GLe_of_lt hlt) (hs.1 x hx)
    · rename_i hnlt
      rw [List.pairwise_cons]
      refine ⟨?_, insertSorted_sorted g t hs.2⟩
      intro x hx
      rcases List.mem_cons.1 ((insertSorted_perm g t).mem_iff.1 hx) with rfl | hx
      · exact GLe_of_not_lt (by simpa using hnlt)
      · exact hs.1 x hx

theorem sortGroups_sorted : ∀ l, (sortGroups l).Pairwise GLe
  | [] => by simp [sortGroups]
  | g :: gs => by unfold sortGroups; exact insertSorted_sorted g _ (sortGroups_sorted gs)


/-! ### the function table only grows; ids stay valid -/

def EnvWF (env : Env) : Prop :=
  (∀ x ∈ env.names, x.2 < env.funcs.length) ∧
  (∀ (id : Nat) (f : Func), env.funcs[id]? = some f → ∀ c, f.callee = some c → c < id)

/-- `env'` extends `env`: same functions under the same ids, possibly more; well-formedness is kept -/
def Ext (env env' : Env) : Prop :=
  (∃ more, env'.funcs = env.funcs ++ more) ∧ (EnvWF env → EnvWF env')

theorem Ext.refl (env : Env) : Ext env env := ⟨⟨[], by simp⟩, id⟩

theorem Ext.trans {a b c : Env} (h1 : Ext a b) (h2 : Ext b c) : Ext a c := by
  obtain ⟨⟨m1, e1⟩, w1⟩ := h1
  obtain ⟨⟨m2, e2⟩, w2⟩ := h2
  exact ⟨⟨m1 ++ m2, by rw [e2, e1, List.append_assoc]⟩, fun h => w2 (w1 h)⟩

theorem lookup_lt {env : Env} (hw : EnvWF env) {k id} (h : env.lookup k = some id) : id < env.funcs.length := by
  unfold Env.lookup at h
  split at h
  · rename_i x hx
    cases h
    exact hw.1 x (List.mem_of_find?_eq_some hx)
  · cases h

theorem EnvWF_addFunc {env : Env} (hw : EnvWF env) (k : Nat × Nat) (f : Func)
    (hc : ∀ c, f.callee = some c → c < env.funcs.length) : EnvWF (env.addFunc k f) := by
  unfold EnvWF
  constructor
  · intro x hx
    simp only [Env.addFunc, List.mem_cons] at hx
    simp only [Env.addFunc, List.length_append, List.length_singleton]
    rcases hx with rfl | hx
    · simp
    · have := hw.1 x hx; omega
  · intro id g hg c hcal
    simp only [Env.addFunc] at hg
    by_cases hlt : id < env.funcs.length
    · rw [List.getElem?_append_left hlt] at hg
      exact hw.2 id g hg c hcal
    · have hge : env.funcs.length ≤ id := by omega
      rw [List.getElem?_append_right hge] at hg
      have : id - env.funcs.length = 0 := by
        cases hi : id - env.funcs.length with
        | zero => rfl
        | succ n => rw [hi] at hg; simp at hg
      rw [this] at hg
      simp at hg
      subst hg
      have := hc c hcal
      omega

theorem Ext_addFunc (env : Env) (k : Nat × Nat) (f : Func)
    (hc : EnvWF env → ∀ c, f.callee = some c → c < env.funcs.length) : Ext env (env.addFunc k f) :=
  ⟨⟨[f], rfl⟩, fun hw => EnvWF_addFunc hw k f (hc hw)⟩

theorem Ext_forget (env : Env) (ks : List (Nat × Nat)) : Ext env (env.forget ks) := by
  refine ⟨⟨[], by simp [Env.forget]⟩, fun hw => ⟨?_, hw.2⟩⟩
  intro x hx
  simp only [Env.forget, List.mem_filter] at hx
  exact hw.1 x hx.1

theorem compileFuncs_ext : ∀ (ds : List FuncDecl) (env : Env), Ext env (compileFuncs env ds).1
  | [], env => Ext.refl env
  | d :: ds, env => by
    unfold compileFuncs
    split
    · exact Ext.refl env
    · split
      · exact (Ext_addFunc env _ _ (by intro _ c hc; cases hc)).trans (compileFuncs_ext ds _)
      · split
        · exact Ext.refl env
        · rename_i c id hl
          refine (Ext_addFunc env _ _ ?_).trans (compileFuncs_ext ds _)
          intro hw c' hc'
          cases hc'
          exact lookup_lt hw hl

theorem compileFilterFuncs_ext (fixed : Bool) (env : Env) (u : FileUnit) :
    Ext env (compileFilterFuncs fixed env u).1 := by
  unfold compileFilterFuncs
  split
  · exact Ext.refl env
  · cases fixed
    · exact compileFuncs_ext _ _
    · exact (Ext_forget env _).trans (compileFuncs_ext _ _)

theorem loadUnit_ext (fixed : Bool) (env : Env) (pkg pfx rejected) (u : FileUnit) :
    Ext env (loadUnit fixed env pkg pfx rejected u).1 := by
  have := compileFilterFuncs_ext fixed env u
  unfold loadUnit
  split <;> (rename_i h; rw [h] at this; exact this)

theorem loadBundleFiles_ext (fixed : Bool) (pfx rejected) : ∀ (us : List FileUnit) (env : Env),
    Ext env (loadBundleFiles fixed env pfx rejected us).1
  | [], env => Ext.refl env
  | u :: us, env => by
    have h1 := loadUnit_ext fixed env gorules pfx rejected u
    unfold loadBundleFiles
    split
    · exact Ext.refl env
    · split
      · rename_i e1 rs hu
        rw [hu] at h1
        have h2 := loadBundleFiles_ext fixed pfx rejected us e1
        split
        · rename_i e2 rss hb; rw [hb] at h2; exact h1.trans h2
        · exact h1.trans h2
      · rename_i e1 x hu; rw [hu] at h1; exact h1
      · rename_i e1 x hu; rw [hu] at h1; exact h1

theorem loadBundles_ext (fixed : Bool) (rejected) : ∀ (bs : List BundleDecl) (env : Env),
    Ext env (loadBundles fixed env rejected bs).1
  | [], env => Ext.refl env
  | b :: bs, env => by
    have h1 := loadBundleFiles_ext fixed b.pfx rejected b.files env
    unfold loadBundles
    split
    · exact Ext.refl env
    · split
      · rename_i e1 rss hb
        rw [hb] at h1
        have h2 := loadBundles_ext fixed rejected bs e1
        split
        · rename_i e2 more hm; rw [hm] at h2; exact h1.trans h2
        · exact h1.trans h2
      · exact h1

theorem loadFile_ext (fixed : Bool) (env : Env) (r : Req) : Ext env (loadFile fixed env r).1 := by
  have h1 := loadBundles_ext fixed r.rejected r.bundles env
  unfold loadFile
  split
  · rename_i e1 x hb; rw [hb] at h1; exact h1
  · rename_i e1 x hb; rw [hb] at h1; exact h1
  · rename_i e1 imported hb
    rw [hb] at h1
    have h2 := loadUnit_ext fixed e1 r.pkgPath 0 r.rejected r.unit
    split
    · rename_i e2 res hu
      rw [hu] at h2
      split <;> exact h1.trans h2
    · exact h1.trans h2

theorem load_ext (fixed : Bool) (e : Engine) (r : Req) : Ext e.env (load fixed e r).1.env := by
  have h := loadFile_ext fixed e.env r
  unfold load
  split
  · exact Ext.refl _
  · split
    · rename_i env' x hf; rw [hf] at h; exact h
    · rename_i env' x hf; rw [hf] at h; exact h
    · rename_i env' rset hf
      rw [hf] at h
      split
      · exact h
      · split <;> exact h


/-! ### the value table is stable under growth of the function table -/

theorem tableFrom_length (snap : Nat) : ∀ (fs : List Func) (vals : List Val),
    (tableFrom snap vals fs).length = vals.length + fs.length
  | [], vals => by simp [tableFrom]
  | f :: fs, vals => by simp [tableFrom, tableFrom_length snap fs]; omega

theorem table_length (snap : Nat) (fs : List Func) : (table snap fs).length = fs.length := by
  simp [table, tableFrom_length]

theorem tableFrom_append (snap : Nat) : ∀ (fs gs : List Func) (vals : List Val),
    tableFrom snap vals (fs ++ gs) = tableFrom snap (tableFrom snap vals fs) gs
  | [], gs, vals => by simp [tableFrom]
  | f :: fs, gs, vals => by simp [tableFrom, tableFrom_append snap fs gs]

theorem tableFrom_prefix (snap : Nat) : ∀ (fs : List Func) (vals : List Val),
    ∃ rest, tableFrom snap vals fs = vals ++ rest
  | [], vals => ⟨[], by simp [tableFrom]⟩
  | f :: fs, vals => by
    obtain ⟨rest, h⟩ := tableFrom_prefix snap fs (vals ++ [valOf snap vals f])
    exact ⟨valOf snap vals f :: rest, by simp [tableFrom, h]⟩

theorem table_append_prefix (snap : Nat) (fs gs : List Func) :
    ∃ rest, table snap (fs ++ gs) = table snap fs ++ rest := by
  unfold table; rw [tableFrom_append]; exact tableFrom_prefix snap gs _

theorem valOf_snap_congr {s1 s2 : Nat} {vals : List Val} {f : Func}
    (h : ∀ c, f.callee = some c → c < s1 ∧ c < s2) : valOf s1 vals f = valOf s2 vals f := by
  unfold valOf
  split
  · rfl
  · rename_i c hc
    have := h c hc
    have h1 : ¬ s1 ≤ c := by omega
    have h2 : ¬ s2 ≤ c := by omega
    simp [h1, h2]

theorem tableFrom_snap_congr {s1 s2 : Nat} : ∀ (fs : List Func) (vals : List Val),
    (∀ f ∈ fs, ∀ c, f.callee = some c → c < s1 ∧ c < s2) → tableFrom s1 vals fs = tableFrom s2 vals fs
  | [], vals, _ => rfl
  | f :: fs, vals, h => by
    simp only [tableFrom]
    rw [valOf_snap_congr (h f (List.mem_cons_self ..))]
    exact tableFrom_snap_congr fs _ (fun g hg => h g (List.mem_cons_of_mem _ hg))

theorem callee_lt_length {env : Env} (hw : EnvWF env) : ∀ f ∈ env.funcs, ∀ c, f.callee = some c →
    c < env.funcs.length := by
  intro f hf c hc
  obtain ⟨i, hi, rfl⟩ := List.getElem_of_mem hf
  have := hw.2 i env.funcs[i] (by simp [hi]) c hc
  omega

/-- for ids below `env.funcs.length` nothing changes when the table grows (fresh state in both) -/
theorem table_ext {env env' : Env} (hw : EnvWF env) (hx : ∃ more, env'.funcs = env.funcs ++ more)
    {id : Nat} (hid : id < env.funcs.length) :
    env'.funcs[id]? = env.funcs[id]? ∧
    (table env'.funcs.length env'.funcs)[id]? = (table env.funcs.length env.funcs)[id]? := by
  obtain ⟨more, hm⟩ := hx
  constructor
  · rw [hm, List.getElem?_append_left hid]
  · have hlen : env.funcs.length ≤ env'.funcs.length := by rw [hm]; simp
    have e1 : table env.funcs.length env.funcs = table env'.funcs.length env.funcs := by
      unfold table
      apply tableFrom_snap_congr
      intro f hf c hc
      have := callee_lt_length hw f hf c hc
      omega
    rw [e1, hm]
    obtain ⟨rest, hr⟩ := table_append_prefix (env.funcs ++ more).length env.funcs more
    rw [hr, List.getElem?_append_left (by rw [table_length]; exact hid)]


/-! ### a run only looks at the functions its rules hold -/

def RuleIdsBelow (n : Nat) (rules : List Rule) : Prop :=
  ∀ r ∈ rules, (∀ id, r.doFn = some id → id < n) ∧ (∀ id, r.filtFn = some id → id < n)

/-- `funcs'`/`vals'` and `funcs`/`vals` agree on every id below `n` -/
def AgreeBelow (n : Nat) (funcs funcs' : List Func) (vals vals' : List Val) : Prop :=
  ∀ id, id < n → funcs'[id]? = funcs[id]? ∧ vals'[id]? = vals[id]?

theorem filterAccepts_congr {n funcs funcs' vals vals'} (ha : AgreeBelow n funcs funcs' vals vals')
    {o : Option Nat} (ho : ∀ id, o = some id → id < n) :
    filterAccepts funcs' vals' o = filterAccepts funcs vals o := by
  cases o with
  | none => rfl
  | some id =>
    obtain ⟨h1, h2⟩ := ha id (ho id rfl)
    simp only [filterAccepts, h1, h2]

theorem message_congr {n funcs funcs' vals vals'} (ha : AgreeBelow n funcs funcs' vals vals')
    {r : Rule} (ho : ∀ id, r.doFn = some id → id < n) :
    message funcs' vals' r = message funcs vals r := by
  unfold message
  split
  · rfl
  · split
    · rfl
    · rename_i id hid
      obtain ⟨h1, h2⟩ := ha id (ho id hid)
      simp only [h1, h2]

theorem runNode_congr {n funcs funcs' vals vals'} (ha : AgreeBelow n funcs funcs' vals vals') (node : Nat × Nat) :
    ∀ (rules : List Rule), RuleIdsBelow n rules →
      runNode funcs' vals' node rules = runNode funcs vals node rules
  | [], _ => rfl
  | r :: rs, hb => by
    have hr := hb r (List.mem_cons_self ..)
    have ih := runNode_congr ha node rs (fun x hx => hb x (List.mem_cons_of_mem _ hx))
    simp only [runNode, filterAccepts_congr ha hr.2, message_congr ha hr.1, ih]

theorem runNodes_congr {n funcs funcs' vals vals'} (ha : AgreeBelow n funcs funcs' vals vals')
    {rules : List Rule} (hb : RuleIdsBelow n rules) :
    ∀ (probe : List (Nat × Nat)), runNodes funcs' vals' rules probe = runNodes funcs vals rules probe
  | [] => rfl
  | nd :: ns => by
    simp only [runNodes, runNode_congr ha nd rules hb, runNodes_congr ha hb ns]


/-! ### rules only hold valid function ids -/

theorem RuleIdsBelow.mono {n m : Nat} {rules : List Rule} (h : RuleIdsBelow n rules) (hnm : n ≤ m) :
    RuleIdsBelow m rules := by
  intro r hr
  obtain ⟨h1, h2⟩ := h r hr
  exact ⟨fun id hid => Nat.lt_of_lt_of_le (h1 id hid) hnm, fun id hid => Nat.lt_of_lt_of_le (h2 id hid) hnm⟩

theorem RuleIdsBelow.append {n : Nat} {a b : List Rule} (ha : RuleIdsBelow n a) (hb : RuleIdsBelow n b) :
    RuleIdsBelow n (a ++ b) := by
  intro r hr
  rcases List.mem_append.1 hr with h | h
  · exact ha r h
  · exact hb r h

theorem Ext.len_le {a b : Env} (h : Ext a b) : a.funcs.length ≤ b.funcs.length := by
  obtain ⟨⟨m, hm⟩, _⟩ := h; rw [hm]; simp

theorem getFunc_lt {fixed env k id} (h : getFunc fixed env k = .ok id) : id < env.funcs.length := by
  unfold getFunc at h
  split at h
  · split at h
    · cases h; assumption
    · cases h
  · split at h
    · cases h
    · split at h
      · cases h; assumption
      · cases h

/-! ### the repaired loader's table of the file's own functions -/

/-- every id in `own` is below `n` -/
def OwnBelow (n : Nat) (own : List (Nat × Nat)) : Prop := ∀ x ∈ own, x.2 < n

theorem customFuncs_mem : ∀ (ds : List FuncDecl) (base : Nat) (x : Nat × Nat), x ∈ customFuncs base ds →
    ∃ i d, ds[i]? = some d ∧ x = (d.name, base + i)
  | [], base, x, h => by simp [customFuncs] at h
  | d :: ds, base, x, h => by
    simp only [customFuncs, List.mem_append, List.mem_singleton] at h
    rcases h with h | rfl
    · obtain ⟨i, d', h1, rfl⟩ := customFuncs_mem ds (base + 1) x h
      refine ⟨i + 1, d', by simpa using h1, ?_⟩
      rw [Nat.add_assoc, Nat.add_comm 1 i]
    · exact ⟨0, d, rfl, rfl⟩

theorem ownLookup_mem {own : List (Nat × Nat)} {n id : Nat} (h : ownLookup own n = some id) : (n, id) ∈ own := by
  unfold ownLookup at h
  split at h
  · rename_i x hx
    cases h
    have h1 := List.find?_some hx
    have h2 := List.mem_of_find?_eq_some hx
    have : x.1 = n := by simpa using h1
    rw [← this]; exact h2
  · cases h

theorem ownLookup_append (a b : List (Nat × Nat)) (n : Nat) :
    ownLookup (a ++ b) n = match ownLookup a n with | some id => some id | none => ownLookup b n := by
  unfold ownLookup
  rw [List.find?_append]
  cases List.find? (fun x => x.1 == n) a <;> rfl

theorem compileFuncs_len : ∀ (ds : List FuncDecl) (env env' : Env), compileFuncs env ds = (env', .ok ()) →
    env'.funcs.length = env.funcs.length + ds.length
  | [], env, env', h => by simp [compileFuncs] at h; subst h; rfl
  | d :: ds, env, env', h => by
    unfold compileFuncs at h
    split at h
    · simp at h
    · split at h
      · have := compileFuncs_len ds _ _ h
        simp only [Env.addFunc, List.length_append, List.length_singleton] at this
        simp only [List.length_cons]; omega
      · split at h
        · simp at h
        · have := compileFuncs_len ds _ _ h
          simp only [Env.addFunc, List.length_append, List.length_singleton] at this
          simp only [List.length_cons]; omega

/-- `customFuncs` is exactly what the declaration loop prepends to the engine-wide name table -/
theorem compileFuncs_names : ∀ (ds : List FuncDecl) (env env' : Env), compileFuncs env ds = (env', .ok ()) →
    env'.names = (customFuncs env.funcs.length ds).map (fun x => ((gorules, x.1), x.2)) ++ env.names
  | [], env, env', h => by simp [compileFuncs] at h; subst h; simp [customFuncs]
  | d :: ds, env, env', h => by
    unfold compileFuncs at h
    split at h
    · simp at h
    · split at h
      · have := compileFuncs_names ds _ _ h
        simpa [Env.addFunc, customFuncs] using this
      · split at h
        · simp at h
        · have := compileFuncs_names ds _ _ h
          simpa [Env.addFunc, customFuncs] using this

theorem customFuncs_below (ds : List FuncDecl) (base : Nat) : OwnBelow (base + ds.length) (customFuncs base ds) := by
  intro x hx
  obtain ⟨i, d, h1, rfl⟩ := customFuncs_mem ds base x hx
  have : i < ds.length := by
    rcases Nat.lt_or_ge i ds.length with h | h
    · exact h
    · rw [List.getElem?_eq_none h] at h1; cases h1
  simp only; omega

/-- after a successful `compileFilterFuncs` the table of own functions only holds valid ids -/
theorem ownOf_below {fixed : Bool} {env e1 : Env} {u : FileUnit}
    (hc : compileFilterFuncs fixed env u = (e1, .ok ())) : OwnBelow e1.funcs.length (ownOf fixed env u) := by
  unfold ownOf
  cases fixed
  · intro x hx; simp at hx
  · unfold compileFilterFuncs at hc
    split at hc
    · simp at hc
    · simp only [if_true] at hc ⊢
      have := compileFuncs_len _ _ _ hc
      simp only [Env.forget] at this
      rw [this]
      exact customFuncs_below _ _

theorem ownFunc_ok {own : List (Nat × Nat)} {n id : Nat} (h : ownFunc own n = .ok id) : ownLookup own n = some id := by
  unfold ownFunc at h
  split at h
  · cases h; assumption
  · cases h

theorem getFuncOpt_lt {fixed env own pkg o x} (hown : OwnBelow env.funcs.length own)
    (h : getFuncOpt fixed env own pkg o = .ok x) :
    ∀ id, x = some id → id < env.funcs.length := by
  unfold getFuncOpt at h
  split at h
  · cases h; intro id hid; cases hid
  · split at h
    · rename_i id' hg
      cases h
      intro id hid; cases hid
      cases fixed
      · exact getFunc_lt (by simpa using hg)
      · exact hown _ (ownLookup_mem (ownFunc_ok (by simpa using hg)))
    · cases h
    · cases h

theorem loadRule_ids {fixed env own pkg g r x} (hown : OwnBelow env.funcs.length own)
    (h : loadRule fixed env own pkg g r = .ok x) :
    (∀ id, x.doFn = some id → id < env.funcs.length) ∧ (∀ id, x.filtFn = some id → id < env.funcs.length) := by
  unfold loadRule at h
  split at h <;> try cases h
  rename_i d hd
  split at h <;> try cases h
  rename_i f hf
  split at h <;> try cases h
  exact ⟨getFuncOpt_lt hown hd, getFuncOpt_lt hown hf⟩

theorem loadRules_ids {fixed env own pkg g} (hown : OwnBelow env.funcs.length own) :
    ∀ {rs xs}, loadRules fixed env own pkg g rs = .ok xs → RuleIdsBelow env.funcs.length xs
  | [], xs, h => by simp [loadRules] at h; subst h; intro r hr; cases hr
  | r :: rs, xs, h => by
    unfold loadRules at h
    split at h <;> try cases h
    rename_i x hx
    split at h
    · rename_i ys hys
      cases h
      intro q hq
      rcases List.mem_cons.1 hq with rfl | hq
      · exact loadRule_ids hown hx
      · exact loadRules_ids hown hys q hq
    · rename_i o hne
      cases o <;> simp_all

theorem loadGroup_ids {fixed env own pkg pfx file rejected res g res'} (hown : OwnBelow env.funcs.length own)
    (h : loadGroup fixed env own pkg pfx file rejected res g = .ok res')
    (hb : RuleIdsBelow env.funcs.length res.rules) : RuleIdsBelow env.funcs.length res'.rules := by
  unfold loadGroup at h
  simp only at h
  split at h
  · cases h; exact hb
  · split at h
    · cases fixed <;> simp at h
    · split at h <;> try cases h
      rename_i rs hrs
      exact hb.append (loadRules_ids hown hrs)

theorem loadGroups_ids {fixed env own pkg pfx file rejected} (hown : OwnBelow env.funcs.length own) :
    ∀ {gs res res'}, loadGroups fixed env own pkg pfx file rejected res gs = .ok res' →
    RuleIdsBelow env.funcs.length res.rules → RuleIdsBelow env.funcs.length res'.rules
  | [], res, res', h, hb => by simp [loadGroups] at h; subst h; exact hb
  | g :: gs, res, res', h, hb => by
    unfold loadGroups at h
    split at h
    · rename_i r1 h1
      exact loadGroups_ids hown h (loadGroup_ids hown h1 hb)
    · rename_i o hne
      cases o <;> simp_all

theorem loadUnit_ids {fixed env pkg pfx rejected u env' rs}
    (h : loadUnit fixed env pkg pfx rejected u = (env', .ok rs)) : RuleIdsBelow env'.funcs.length rs.rules := by
  unfold loadUnit at h
  split at h
  · rename_i e1 hc
    simp only [Prod.mk.injEq] at h
    obtain ⟨rfl, h2⟩ := h
    exact loadGroups_ids (ownOf_below hc) h2 (by intro r hr; cases hr)
  · simp at h
  · simp at h

theorem loadBundleFiles_ids {fixed pfx rejected} : ∀ {us env env' rss},
    loadBundleFiles fixed env pfx rejected us = (env', .ok rss) →
    RuleIdsBelow env'.funcs.length (rss.flatMap (·.rules))
  | [], env, env', rss, h => by
    simp [loadBundleFiles] at h; obtain ⟨_, rfl⟩ := h; intro r hr; simp at hr
  | u :: us, env, env', rss, h => by
    unfold loadBundleFiles at h
    split at h
    · simp at h
    · split at h
      · rename_i e1 rs h1
        have hx := loadBundleFiles_ext fixed pfx rejected us e1
        split at h
        · rename_i e2 rss' h2
          simp only [Prod.mk.injEq, Out.ok.injEq] at h
          obtain ⟨rfl, rfl⟩ := h
          rw [h2] at hx
          simp only [List.flatMap_cons]
          exact ((loadUnit_ids h1).mono hx.len_le).append (loadBundleFiles_ids h2)
        · rename_i o hne
          rcases o with ⟨e3, o3⟩
          cases o3 <;> simp_all
      · simp at h
      · simp at h

theorem loadBundles_ids {fixed rejected} : ∀ {bs env env' imported},
    loadBundles fixed env rejected bs = (env', .ok imported) →
    RuleIdsBelow env'.funcs.length (imported.flatMap (·.rules))
  | [], env, env', imported, h => by
    simp [loadBundles] at h; obtain ⟨_, rfl⟩ := h; intro r hr; simp at hr
  | b :: bs, env, env', imported, h => by
    unfold loadBundles at h
    split at h
    · simp at h
    · split at h
      · rename_i e1 rss h1
        have hx := loadBundles_ext fixed rejected bs e1
        split at h
        · rename_i e2 more h2
          simp only [Prod.mk.injEq, Out.ok.injEq] at h
          obtain ⟨rfl, rfl⟩ := h
          rw [h2] at hx
          simp only [List.flatMap_append]
          exact ((loadBundleFiles_ids h1).mono hx.len_le).append (loadBundles_ids h2)
        · rename_i o hne
          rcases o with ⟨e3, o3⟩
          cases o3 <;> simp_all
      · rename_i o hne
        rcases o with ⟨e3, o3⟩
        cases o3 <;> simp_all

theorem loadFile_ids {fixed env r env' rset} (h : loadFile fixed env r = (env', .ok rset)) :
    RuleIdsBelow env'.funcs.length rset.rules := by
  unfold loadFile at h
  split at h
  · simp at h
  · simp at h
  · rename_i env1 imported hb
    have bi := loadBundles_ids hb
    have hx := loadUnit_ext fixed env1 r.pkgPath 0 r.rejected r.unit
    split at h
    · rename_i env2 res hu
      rw [hu] at hx
      have ui := loadUnit_ids hu
      split at h
      · simp only [Prod.mk.injEq, Out.ok.injEq] at h
        obtain ⟨rfl, rfl⟩ := h
        exact ui
      · simp only [Prod.mk.injEq] at h
        obtain ⟨rfl, hm⟩ := h
        obtain ⟨_, mr⟩ := merge_ok hm
        rw [mr]
        simp only [List.flatMap_cons]
        exact ui.append (bi.mono hx.len_le)
    · rename_i o hne
      rcases o with ⟨e3, o3⟩
      cases o3 <;> simp_all

/-- invariant of every reachable engine -/
def EngineWF (e : Engine) : Prop :=
  EnvWF e.env ∧ ∀ rs, e.ruleSet = some rs → RuleIdsBelow e.env.funcs.length rs.rules

theorem EngineWF_new : EngineWF Engine.new := by
  refine ⟨⟨?_, ?_⟩, ?_⟩
  · intro x hx; simp [Engine.new] at hx
  · intro id f hf; simp [Engine.new] at hf
  · intro rs h; simp [Engine.new] at h

theorem load_wf {fixed e r} (hw : EngineWF e) : EngineWF (load fixed e r).1 := by
  have hx := load_ext fixed e r
  refine ⟨hx.2 hw.1, ?_⟩
  rcases load_cases fixed e r with ⟨env', x, hl, _⟩ | ⟨env', rset, hf, hn, hl⟩ | ⟨env', rset, cur, hf, hc, _, hl⟩
  · rw [hl] at hx ⊢
    intro rs hrs
    exact (hw.2 rs hrs).mono hx.len_le
  · rw [hl]
    intro rs hrs
    cases hrs
    exact loadFile_ids hf
  · rw [hl] at hx ⊢
    intro rs hrs
    cases hrs
    exact ((hw.2 cur hc).mono hx.len_le).append (loadFile_ids hf)

theorem finalEngine_wf {fixed} : ∀ {hist e}, EngineWF e → EngineWF (finalEngine fixed e hist)
  | [], e, h => h
  | r :: rs, e, h => finalEngine_wf (hist := rs) (load_wf (r := r) h)

/-- a run with a fresh state gives the same reports after the function table has grown -/
theorem run_ext {e e' : Engine} (hw : EngineWF e) (hrs : e'.ruleSet = e.ruleSet) (hx : Ext e.env e'.env)
    (probe : List (Nat × Nat)) : run e' probe = run e probe := by
  unfold run runWith
  rw [hrs]
  cases hc : e.ruleSet with
  | none => rfl
  | some rs =>
    have ha : AgreeBelow e.env.funcs.length e.env.funcs e'.env.funcs
        (table e.env.funcs.length e.env.funcs) (table e'.env.funcs.length e'.env.funcs) :=
      fun id hid => table_ext hw.1 hx.1 hid
    simp only [runNodes_congr ha (hw.2 rs hc) probe]

end LoadM
