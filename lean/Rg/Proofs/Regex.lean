import Rg.Spec.C11
import Rg.Proofs.Utf8
/-!
# The executable semantics decides the declarative one

`mem_ends : i ≤ |s| → (j ∈ ends fold re s i ↔ M fold re s i j)` and
`searchB_iff : searchB fold re s = true ↔ search fold re s`, for every tree.
-/
namespace SpecC11
open Rx Utf8

/-! ## induction over `Re` (nested through `List Re`) -/
mutual
theorem Re.ind {P : Re → Prop}
    (h : ∀ op flags runes subs mn mx, (∀ r, r ∈ subs → P r) → P (.mk op flags runes subs mn mx)) :
    (r : Re) → P r
  | .mk op f rs subs mn mx => h op f rs subs mn mx (Re.indList h subs)
theorem Re.indList {P : Re → Prop}
    (h : ∀ op flags runes subs mn mx, (∀ r, r ∈ subs → P r) → P (.mk op flags runes subs mn mx)) :
    (l : List Re) → ∀ r, r ∈ l → P r
  | [] => fun _ hm => absurd hm List.not_mem_nil
  | x :: xs => fun r hm =>
    (List.mem_cons.1 hm).elim (fun e => e ▸ Re.ind h x) (Re.indList h xs r)
end

/-! ## `Pow`, `bfs`, `powL` -/

theorem Pow_add {R : Nat → Nat → Prop} (a b i j : Nat) :
    Pow R (a + b) i j ↔ ∃ c, Pow R a i c ∧ Pow R b c j := by
  induction a generalizing i with
  | zero => simp [Pow]
  | succ a ih =>
    have : a + 1 + b = (a + b) + 1 := by omega
    rw [this]
    simp only [Pow, ih]
    constructor
    · rintro ⟨k, hk, c, h1, h2⟩; exact ⟨c, ⟨k, hk, h1⟩, h2⟩
    · rintro ⟨c, ⟨k, hk, h1⟩, h2⟩; exact ⟨k, hk, c, h1, h2⟩

/-- steps that never move left and never leave `[0, N]` -/
def Mono (N : Nat) (R : Nat → Nat → Prop) : Prop := ∀ a b, a ≤ N → R a b → a ≤ b ∧ b ≤ N

theorem Pow_mono {N : Nat} {R : Nat → Nat → Prop} (hR : Mono N R) (m i j : Nat) (hi : i ≤ N) (h : Pow R m i j) :
    i ≤ j ∧ j ≤ N := by
  induction m generalizing i with
  | zero => simp only [Pow] at h; subst h; exact ⟨Nat.le_refl _, hi⟩
  | succ m ih =>
    obtain ⟨k, hk, hp⟩ := h
    have := hR i k hi hk
    have := ih k this.2 hp
    omega

/-- stationary steps can be dropped: a path needs at most `N - i` steps -/
theorem Pow_shorten {N : Nat} {R : Nat → Nat → Prop} (hR : Mono N R) (m i j : Nat) (hi : i ≤ N) (h : Pow R m i j) :
    ∃ m', m' ≤ N - i ∧ Pow R m' i j := by
  induction m generalizing i with
  | zero => exact ⟨0, Nat.zero_le _, h⟩
  | succ m ih =>
    obtain ⟨k, hk, hp⟩ := h
    have hb := hR i k hi hk
    obtain ⟨m', hm', hp'⟩ := ih k hb.2 hp
    by_cases e : k = i
    · subst e; exact ⟨m', hm', hp'⟩
    · exact ⟨m' + 1, by omega, k, hk, hp'⟩

theorem Pow_congr {N : Nat} {R R' : Nat → Nat → Prop} (hR : Mono N R) (hc : ∀ a b, a ≤ N → (R a b ↔ R' a b))
    (m i j : Nat) (hi : i ≤ N) : Pow R m i j ↔ Pow R' m i j := by
  induction m generalizing i with
  | zero => simp [Pow]
  | succ m ih =>
    simp only [Pow]
    constructor
    · rintro ⟨k, hk, hp⟩; exact ⟨k, (hc i k hi).1 hk, (ih k (hR i k hi hk).2).1 hp⟩
    · rintro ⟨k, hk, hp⟩
      have hk' := (hc i k hi).2 hk
      exact ⟨k, hk', (ih k (hR i k hi hk').2).2 hp⟩

theorem mem_dedup (l : List Nat) (x : Nat) : x ∈ dedup l ↔ x ∈ l := by
  simp [dedup]

theorem subset_bfs (f : Nat → List Nat) (n : Nat) (cur : List Nat) (x : Nat) (h : x ∈ cur) : x ∈ bfs f n cur := by
  induction n generalizing cur with
  | zero => exact h
  | succ n ih => simp only [bfs]; apply ih; rw [mem_dedup]; exact List.mem_append_left _ h

theorem mem_bfs (f : Nat → List Nat) (n : Nat) (cur : List Nat) (j : Nat) :
    j ∈ bfs f n cur ↔ ∃ c, c ∈ cur ∧ ∃ m, m ≤ n ∧ Pow (fun a b => b ∈ f a) m c j := by
  induction n generalizing cur with
  | zero =>
    simp only [bfs]
    constructor
    · intro h; exact ⟨j, h, 0, Nat.le_refl _, rfl⟩
    · rintro ⟨c, hc, m, hm, hp⟩
      have : m = 0 := by omega
      subst this; simp only [Pow] at hp; subst hp; exact hc
  | succ n ih =>
    simp only [bfs]
    rw [ih]
    constructor
    · rintro ⟨c, hc, m, hm, hp⟩
      rw [mem_dedup, List.mem_append, List.mem_flatMap] at hc
      rcases hc with hc | ⟨a, ha, hca⟩
      · exact ⟨c, hc, m, by omega, hp⟩
      · exact ⟨a, ha, m + 1, by omega, c, hca, hp⟩
    · rintro ⟨c, hc, m, hm, hp⟩
      cases m with
      | zero =>
        refine ⟨c, ?_, 0, Nat.zero_le _, hp⟩
        rw [mem_dedup]; exact List.mem_append_left _ hc
      | succ m =>
        obtain ⟨k, hk, hp'⟩ := hp
        refine ⟨k, ?_, m, by omega, hp'⟩
        rw [mem_dedup, List.mem_append, List.mem_flatMap]
        exact .inr ⟨c, hc, hk⟩

theorem mem_powL (f : Nat → List Nat) (n : Nat) (cur : List Nat) (j : Nat) :
    j ∈ powL f n cur ↔ ∃ c, c ∈ cur ∧ Pow (fun a b => b ∈ f a) n c j := by
  induction n generalizing cur with
  | zero =>
    simp only [powL, Pow]
    constructor
    · intro h; exact ⟨j, h, rfl⟩
    · rintro ⟨c, hc, rfl⟩; exact hc
  | succ n ih =>
    simp only [powL, Pow]
    rw [ih]
    constructor
    · rintro ⟨c, hc, hp⟩
      rw [mem_dedup, List.mem_flatMap] at hc
      obtain ⟨a, ha, hca⟩ := hc
      exact ⟨a, ha, c, hca, hp⟩
    · rintro ⟨c, hc, k, hk, hp⟩
      refine ⟨k, ?_, hp⟩
      rw [mem_dedup, List.mem_flatMap]
      exact ⟨c, hc, hk⟩


/-! ## one input step -/

theorem stepAt_bounds {s : Bytes} {i c k : Nat} (h : stepAt s i = some (c, k)) : i < k ∧ k ≤ s.length := by
  unfold stepAt at h
  split at h
  · rename_i hi
    simp only [Option.some.injEq, Prod.mk.injEq] at h
    obtain ⟨-, rfl⟩ := h
    have hd : s.drop i = s[i] :: s.drop (i + 1) := List.drop_eq_getElem_cons hi
    have := decode_shape s[i] (s.drop (i + 1))
    rw [← hd] at this
    have hl : (s.drop i).length = s.length - i := List.length_drop
    omega
  · simp at h

theorem stepAt_lt {s : Bytes} {i : Nat} {x : Nat × Nat} (h : stepAt s i = some x) : i < s.length := by
  unfold stepAt at h
  split at h
  · assumption
  · simp at h

theorem mem_stepEnds (s : Bytes) (i : Nat) (ok : Nat → Bool) (j : Nat) :
    j ∈ stepEnds s i ok ↔ ∃ c, stepAt s i = some (c, j) ∧ ok c = true := by
  unfold stepEnds
  cases h : stepAt s i with
  | none => simp
  | some x =>
    obtain ⟨c, k⟩ := x
    by_cases hc : ok c = true
    · simp only [hc, if_true, List.mem_singleton, Option.some.injEq, Prod.mk.injEq]
      constructor
      · rintro rfl; exact ⟨c, ⟨rfl, rfl⟩, hc⟩
      · rintro ⟨c', ⟨rfl, rfl⟩, _⟩; rfl
    · simp only [hc, Bool.false_eq_true, if_false, List.not_mem_nil, Option.some.injEq, Prod.mk.injEq, false_iff]
      rintro ⟨c', ⟨rfl, rfl⟩, h'⟩; exact hc h'

theorem litEnd_iff (fold : Nat → List Nat) (fc : Bool) (rs : List Nat) (s : Bytes) (i j : Nat) :
    litEnd fold fc rs s i = some j ↔ LitAt fold fc rs s i j := by
  induction rs generalizing i with
  | nil => simp [litEnd, LitAt]
  | cons r rs ih =>
    simp only [litEnd, LitAt]
    cases h : stepAt s i with
    | none => simp
    | some x =>
      obtain ⟨c, k⟩ := x
      by_cases hc : runeEq fold fc r c = true
      · simp only [hc, if_true, ih, Option.some.injEq, Prod.mk.injEq]
        constructor
        · intro hl; exact ⟨c, k, ⟨rfl, rfl⟩, hc, hl⟩
        · rintro ⟨c', k', ⟨rfl, rfl⟩, _, hl⟩; exact hl
      · simp only [hc, Bool.false_eq_true, if_false, Option.some.injEq, Prod.mk.injEq, false_iff, reduceCtorEq]
        rintro ⟨c', k', ⟨rfl, rfl⟩, h', _⟩; exact hc h'

theorem LitAt_bounds {fold : Nat → List Nat} {fc : Bool} {rs : List Nat} {s : Bytes} {i j : Nat} (hi : i ≤ s.length)
    (h : LitAt fold fc rs s i j) : i ≤ j ∧ j ≤ s.length := by
  induction rs generalizing i with
  | nil => simp only [LitAt] at h; subst h; exact ⟨Nat.le_refl _, hi⟩
  | cons r rs ih =>
    obtain ⟨c, k, hs, _, hl⟩ := h
    have := stepAt_bounds hs
    have := ih this.2 hl
    omega

/-! ## matches move right and stay inside the input -/

def Bounded (fold : Nat → List Nat) (r : Re) : Prop :=
  ∀ s i j, i ≤ s.length → M fold r s i j → i ≤ j ∧ j ≤ s.length

theorem MHead_mono {fold : Nat → List Nat} {subs : List Re} (ih : ∀ r, r ∈ subs → Bounded fold r) (s : Bytes) :
    Mono s.length (MHead fold subs s) := by
  intro a b ha h
  cases subs with
  | nil => simp [MHead] at h
  | cons r rs => simp only [MHead] at h; exact ih r List.mem_cons_self s a b ha h

theorem MSeq_bounds {fold : Nat → List Nat} {subs : List Re} (ih : ∀ r, r ∈ subs → Bounded fold r) (s : Bytes) (i j : Nat)
    (hi : i ≤ s.length) (h : MSeq fold subs s i j) : i ≤ j ∧ j ≤ s.length := by
  induction subs generalizing i with
  | nil => simp only [MSeq] at h; subst h; exact ⟨Nat.le_refl _, hi⟩
  | cons r rs ihl =>
    simp only [MSeq] at h
    obtain ⟨k, h1, h2⟩ := h
    have b1 := ih r List.mem_cons_self s i k hi h1
    have b2 := ihl (fun r' hr' => ih r' (List.mem_cons_of_mem _ hr')) k b1.2 h2
    omega

theorem MAlt_bounds {fold : Nat → List Nat} {subs : List Re} (ih : ∀ r, r ∈ subs → Bounded fold r) (s : Bytes) (i j : Nat)
    (hi : i ≤ s.length) (h : MAlt fold subs s i j) : i ≤ j ∧ j ≤ s.length := by
  induction subs with
  | nil => simp [MAlt] at h
  | cons r rs ihl =>
    simp only [MAlt] at h
    rcases h with h | h
    · exact ih r List.mem_cons_self s i j hi h
    · exact ihl (fun r' hr' => ih r' (List.mem_cons_of_mem _ hr')) h

theorem M_bounds (fold : Nat → List Nat) (re : Re) : Bounded fold re := by
  refine Re.ind (P := Bounded fold) ?_ re
  intro op flags runes subs mn mx ih s i j hi h
  have hm := MHead_mono ih s
  cases op <;> simp only [M] at h
  case emptyMatch => subst h; exact ⟨Nat.le_refl _, hi⟩
  case literal => exact LitAt_bounds hi h
  case charClass => obtain ⟨c, hs, _⟩ := h; have := stepAt_bounds hs; omega
  case anyCharNotNL => obtain ⟨c, hs, _⟩ := h; have := stepAt_bounds hs; omega
  case anyChar => obtain ⟨c, hs⟩ := h; have := stepAt_bounds hs; omega
  case beginLine => obtain ⟨rfl, _⟩ := h; exact ⟨Nat.le_refl _, hi⟩
  case endLine => obtain ⟨rfl, _⟩ := h; exact ⟨Nat.le_refl _, hi⟩
  case beginText => obtain ⟨rfl, _⟩ := h; exact ⟨Nat.le_refl _, hi⟩
  case endText => obtain ⟨rfl, _⟩ := h; exact ⟨Nat.le_refl _, hi⟩
  case wordBoundary => obtain ⟨rfl, _⟩ := h; exact ⟨Nat.le_refl _, hi⟩
  case noWordBoundary => obtain ⟨rfl, _⟩ := h; exact ⟨Nat.le_refl _, hi⟩
  case capture => exact hm i j hi h
  case star => obtain ⟨m, hp⟩ := h; exact Pow_mono hm m i j hi hp
  case plus => obtain ⟨m, _, hp⟩ := h; exact Pow_mono hm m i j hi hp
  case quest => obtain ⟨m, _, hp⟩ := h; exact Pow_mono hm m i j hi hp
  case «repeat» => obtain ⟨m, _, _, hp⟩ := h; exact Pow_mono hm m i j hi hp
  case concat => exact MSeq_bounds ih s i j hi h
  case alternate => exact MAlt_bounds ih s i j hi h

/-! ## `ends` enumerates exactly the matches -/

def Decides (fold : Nat → List Nat) (r : Re) : Prop :=
  ∀ s i j, i ≤ s.length → (j ∈ ends fold r s i ↔ M fold r s i j)

theorem mono_of_iff {N : Nat} {f : Nat → List Nat} {R : Nat → Nat → Prop} (hR : Mono N R)
    (hf : ∀ a b, a ≤ N → (b ∈ f a ↔ R a b)) : Mono N (fun a b => b ∈ f a) :=
  fun a b ha h => hR a b ha ((hf a b ha).1 h)

theorem mem_bfs_R {N : Nat} {f : Nat → List Nat} {R : Nat → Nat → Prop} (hR : Mono N R)
    (hf : ∀ a b, a ≤ N → (b ∈ f a ↔ R a b)) (n : Nat) (cur : List Nat) (hcur : ∀ c, c ∈ cur → c ≤ N) (j : Nat) :
    j ∈ bfs f n cur ↔ ∃ c, c ∈ cur ∧ ∃ m, m ≤ n ∧ Pow R m c j := by
  rw [mem_bfs]
  constructor
  · rintro ⟨c, hc, m, hm, hp⟩
    exact ⟨c, hc, m, hm, (Pow_congr (mono_of_iff hR hf) hf m c j (hcur c hc)).1 hp⟩
  · rintro ⟨c, hc, m, hm, hp⟩
    exact ⟨c, hc, m, hm, (Pow_congr (mono_of_iff hR hf) hf m c j (hcur c hc)).2 hp⟩

theorem mem_powL_R {N : Nat} {f : Nat → List Nat} {R : Nat → Nat → Prop} (hR : Mono N R)
    (hf : ∀ a b, a ≤ N → (b ∈ f a ↔ R a b)) (n : Nat) (cur : List Nat) (hcur : ∀ c, c ∈ cur → c ≤ N) (j : Nat) :
    j ∈ powL f n cur ↔ ∃ c, c ∈ cur ∧ Pow R n c j := by
  rw [mem_powL]
  constructor
  · rintro ⟨c, hc, hp⟩
    exact ⟨c, hc, (Pow_congr (mono_of_iff hR hf) hf n c j (hcur c hc)).1 hp⟩
  · rintro ⟨c, hc, hp⟩
    exact ⟨c, hc, (Pow_congr (mono_of_iff hR hf) hf n c j (hcur c hc)).2 hp⟩

/-- with enough fuel the bound on the number of steps disappears -/
theorem exists_le_iff {N : Nat} {R : Nat → Nat → Prop} (hR : Mono N R) (i j : Nat) (hi : i ≤ N) :
    (∃ m, m ≤ N + 1 ∧ Pow R m i j) ↔ ∃ m, Pow R m i j := by
  constructor
  · rintro ⟨m, _, hp⟩; exact ⟨m, hp⟩
  · rintro ⟨m, hp⟩
    obtain ⟨m', hm', hp'⟩ := Pow_shorten hR m i j hi hp
    exact ⟨m', by omega, hp'⟩

theorem mem_endsHead {fold : Nat → List Nat} {subs : List Re} (ih : ∀ r, r ∈ subs → Decides fold r) (s : Bytes) (i j : Nat)
    (hi : i ≤ s.length) : j ∈ endsHead fold subs s i ↔ MHead fold subs s i j := by
  cases subs with
  | nil => simp [endsHead, MHead]
  | cons r rs => simp only [endsHead, MHead]; exact ih r List.mem_cons_self s i j hi

theorem mem_endsSeq {fold : Nat → List Nat} {subs : List Re} (ih : ∀ r, r ∈ subs → Decides fold r) (s : Bytes)
    (cur : List Nat) (hcur : ∀ c, c ∈ cur → c ≤ s.length) (j : Nat) :
    j ∈ endsSeq fold subs s cur ↔ ∃ c, c ∈ cur ∧ MSeq fold subs s c j := by
  induction subs generalizing cur with
  | nil =>
    simp only [endsSeq, MSeq]
    constructor
    · intro h; exact ⟨j, h, rfl⟩
    · rintro ⟨c, hc, rfl⟩; exact hc
  | cons r rs ihl =>
    simp only [endsSeq, MSeq]
    have ihr := ih r List.mem_cons_self
    have hb := M_bounds fold r
    rw [ihl (fun r' hr' => ih r' (List.mem_cons_of_mem _ hr'))]
    · constructor
      · rintro ⟨k, hk, hs⟩
        rw [mem_dedup, List.mem_flatMap] at hk
        obtain ⟨c, hc, hck⟩ := hk
        exact ⟨c, hc, k, (ihr s c k (hcur c hc)).1 hck, hs⟩
      · rintro ⟨c, hc, k, hck, hs⟩
        refine ⟨k, ?_, hs⟩
        rw [mem_dedup, List.mem_flatMap]
        exact ⟨c, hc, (ihr s c k (hcur c hc)).2 hck⟩
    · intro k hk
      rw [mem_dedup, List.mem_flatMap] at hk
      obtain ⟨c, hc, hck⟩ := hk
      exact (hb s c k (hcur c hc) ((ihr s c k (hcur c hc)).1 hck)).2

theorem mem_endsAlt {fold : Nat → List Nat} {subs : List Re} (ih : ∀ r, r ∈ subs → Decides fold r) (s : Bytes) (i j : Nat)
    (hi : i ≤ s.length) : j ∈ endsAlt fold subs s i ↔ MAlt fold subs s i j := by
  induction subs with
  | nil => simp [endsAlt, MAlt]
  | cons r rs ihl =>
    simp only [endsAlt, MAlt, List.mem_append]
    rw [ih r List.mem_cons_self s i j hi, ihl (fun r' hr' => ih r' (List.mem_cons_of_mem _ hr'))]

theorem mem_ite_singleton (p : Prop) [Decidable p] (i j : Nat) :
    j ∈ (if p then [i] else []) ↔ i = j ∧ p := by
  by_cases h : p
  · simp [h, eq_comm]
  · simp [h]

theorem mem_ends (fold : Nat → List Nat) (re : Re) : Decides fold re := by
  refine Re.ind (P := Decides fold) ?_ re
  intro op flags runes subs mn mx ih s i j hi
  have hR : Mono s.length (MHead fold subs s) := MHead_mono (fun r _ => M_bounds fold r) s
  have hf : ∀ a b, a ≤ s.length → (b ∈ endsHead fold subs s a ↔ MHead fold subs s a b) :=
    fun a b ha => mem_endsHead ih s a b ha
  have hsingle : ∀ c, c ∈ [i] → c ≤ s.length := by intro c hc; simp at hc; omega
  cases op <;> simp only [ends, M]
  case noMatch => simp
  case emptyMatch => simp [eq_comm]
  case literal => simp [Option.mem_toList, litEnd_iff]
  case charClass => exact mem_stepEnds s i _ j
  case anyCharNotNL =>
    rw [mem_stepEnds]
    constructor
    · rintro ⟨c, h1, h2⟩; exact ⟨c, h1, by simpa using h2⟩
    · rintro ⟨c, h1, h2⟩; exact ⟨c, h1, by simpa using h2⟩
  case anyChar =>
    rw [mem_stepEnds]
    constructor
    · rintro ⟨c, h1, _⟩; exact ⟨c, h1⟩
    · rintro ⟨c, h1⟩; exact ⟨c, h1, rfl⟩
  case beginLine => rw [mem_ite_singleton]
  case endLine => rw [mem_ite_singleton]
  case beginText => rw [mem_ite_singleton]
  case endText => rw [mem_ite_singleton]
  case wordBoundary => rw [mem_ite_singleton]; simp
  case noWordBoundary => rw [mem_ite_singleton]; simp
  case capture => exact hf i j hi
  case star =>
    rw [mem_bfs_R hR hf _ _ hsingle]
    simp only [List.mem_singleton, exists_eq_left]
    exact exists_le_iff hR i j hi
  case plus =>
    rw [mem_bfs_R hR hf _ _ (fun c hc => (hR i c hi ((hf i c hi).1 hc)).2)]
    constructor
    · rintro ⟨c, hc, m, _, hp⟩
      exact ⟨m + 1, by omega, c, (hf i c hi).1 hc, hp⟩
    · rintro ⟨m, hm, hp⟩
      obtain ⟨m', rfl⟩ : ∃ m', m = m' + 1 := ⟨m - 1, by omega⟩
      obtain ⟨c, hc, hp'⟩ := hp
      have hcN := (hR i c hi hc).2
      obtain ⟨m'', hm'', hp''⟩ := Pow_shorten hR m' c j hcN hp'
      exact ⟨c, (hf i c hi).2 hc, m'', by omega, hp''⟩
  case quest =>
    rw [mem_bfs_R hR hf _ _ hsingle]
    simp only [List.mem_singleton, exists_eq_left]
  case «repeat» =>
    by_cases hneg : mx < 0
    · simp only [hneg, if_true, true_or, true_and]
      rw [mem_bfs_R hR hf _ _ (fun c hc => by
        rw [mem_powL_R hR hf _ _ hsingle] at hc
        obtain ⟨a, ha, hp⟩ := hc
        exact (Pow_mono hR _ a c (hsingle a ha) hp).2)]
      constructor
      · rintro ⟨c, hc, m, _, hp⟩
        rw [mem_powL_R hR hf _ _ hsingle] at hc
        simp only [List.mem_singleton, exists_eq_left] at hc
        exact ⟨mn.toNat + m, by omega, (Pow_add _ _ _ _).2 ⟨c, hc, hp⟩⟩
      · rintro ⟨m, hm, hp⟩
        obtain ⟨d, rfl⟩ : ∃ d, m = mn.toNat + d := ⟨m - mn.toNat, by omega⟩
        obtain ⟨c, h1, h2⟩ := (Pow_add _ _ _ _).1 hp
        have hcN := (Pow_mono hR _ i c hi h1).2
        obtain ⟨d', hd', h2'⟩ := Pow_shorten hR d c j hcN h2
        refine ⟨c, ?_, d', by omega, h2'⟩
        rw [mem_powL_R hR hf _ _ hsingle]
        exact ⟨i, List.mem_singleton_self _, h1⟩
    · simp only [hneg, if_false, false_or]
      by_cases hle : mn ≤ mx
      · simp only [hle, if_true]
        rw [mem_bfs_R hR hf _ _ (fun c hc => by
          rw [mem_powL_R hR hf _ _ hsingle] at hc
          obtain ⟨a, ha, hp⟩ := hc
          exact (Pow_mono hR _ a c (hsingle a ha) hp).2)]
        constructor
        · rintro ⟨c, hc, m, hm, hp⟩
          rw [mem_powL_R hR hf _ _ hsingle] at hc
          simp only [List.mem_singleton, exists_eq_left] at hc
          exact ⟨mn.toNat + m, by omega, by omega, (Pow_add _ _ _ _).2 ⟨c, hc, hp⟩⟩
        · rintro ⟨m, hm, hm', hp⟩
          obtain ⟨d, rfl⟩ : ∃ d, m = mn.toNat + d := ⟨m - mn.toNat, by omega⟩
          obtain ⟨c, h1, h2⟩ := (Pow_add _ _ _ _).1 hp
          refine ⟨c, ?_, d, by omega, h2⟩
          rw [mem_powL_R hR hf _ _ hsingle]
          exact ⟨i, List.mem_singleton_self _, h1⟩
      · simp only [hle, if_false]
        rw [mem_bfs_R hR hf _ _ (fun c hc => by simp at hc)]
        constructor
        · rintro ⟨c, hc, _⟩; simp at hc
        · rintro ⟨m, hm, hm', _⟩; omega
  case concat =>
    rw [mem_endsSeq ih s _ hsingle]
    simp only [List.mem_singleton, exists_eq_left]
  case alternate => exact mem_endsAlt ih s i j hi
  case other => simp

/-! ## the search -/

def StepRel (s : Bytes) : Nat → Nat → Prop := fun a b => ∃ c, stepAt s a = some (c, b)

theorem StepRel_mono (s : Bytes) : Mono s.length (StepRel s) := by
  rintro a b _ ⟨c, h⟩
  have := stepAt_bounds h
  omega

theorem Boundary_le {s : Bytes} {i : Nat} (h : Boundary s i) : i ≤ s.length := by
  obtain ⟨m, hp⟩ := h
  exact (Pow_mono (StepRel_mono s) m 0 i (Nat.zero_le _) hp).2

theorem mem_boundaries (s : Bytes) (i : Nat) : i ∈ boundaries s ↔ Boundary s i := by
  unfold boundaries Boundary
  have hf : ∀ a b, a ≤ s.length → (b ∈ stepEnds s a (fun _ => true) ↔ StepRel s a b) := by
    intro a b _
    rw [mem_stepEnds]
    constructor
    · rintro ⟨c, h, _⟩; exact ⟨c, h⟩
    · rintro ⟨c, h⟩; exact ⟨c, h, rfl⟩
  rw [mem_bfs_R (StepRel_mono s) hf _ _ (by intro c hc; simp at hc; omega)]
  simp only [List.mem_singleton, exists_eq_left]
  exact exists_le_iff (StepRel_mono s) 0 i (Nat.zero_le _)

/-- the executable search decides the declarative one, for every tree and every input -/
theorem searchB_iff (fold : Nat → List Nat) (re : Re) (s : Bytes) :
    searchB fold re s = true ↔ search fold re s := by
  unfold searchB search
  rw [List.any_eq_true]
  constructor
  · rintro ⟨i, hi, hne⟩
    rw [mem_boundaries] at hi
    cases he : ends fold re s i with
    | nil => simp [he] at hne
    | cons j rest =>
      have hj : j ∈ ends fold re s i := by rw [he]; exact List.mem_cons_self
      exact ⟨i, j, hi, (mem_ends fold re s i j (Boundary_le hi)).1 hj⟩
  · rintro ⟨i, j, hi, hm⟩
    refine ⟨i, (mem_boundaries s i).2 hi, ?_⟩
    have hj := (mem_ends fold re s i j (Boundary_le hi)).2 hm
    cases he : ends fold re s i with
    | nil => rw [he] at hj; simp at hj
    | cons _ _ => simp

end SpecC11
