import Rg.Proofs.LoadsBeh
import Rg.Proofs.LoadsNoPanic
/-! Linking the repaired load model to the executable statement of C13. -/
namespace LoadM
open SpecC13

/-! ### accepted names never repeat in a successful call -/

def NodupG (gs : List GroupInfo) : Prop := (gs.map (·.name)).Nodup

theorem any_name_false {gs : List GroupInfo} {n : Nat × Nat} (h : gs.any (fun x => x.name == n) = false) :
    n ∉ gs.map (·.name) := by
  intro hm
  obtain ⟨g, hg, rfl⟩ := List.mem_map.1 hm
  have := List.any_eq_false.1 h g hg
  simp at this

theorem loadGroups_nodup {fixed env own pkg pfx file rejected} : ∀ {gs : List GroupDecl} {res res' : RuleSet},
    loadGroups fixed env own pkg pfx file rejected res gs = .ok res' → NodupG res.groups → NodupG res'.groups
  | [], res, res', h, hn => by simp [loadGroups] at h; subst h; exact hn
  | g :: gs, res, res', h, hn => by
    unfold loadGroups at h
    split at h
    · rename_i r1 h1
      refine loadGroups_nodup h ?_
      rcases loadGroup_ok h1 with ⟨_, rfl⟩ | ⟨_, hany, hg, _⟩
      · exact hn
      · unfold NodupG at hn ⊢
        rw [hg, List.map_append, List.nodup_append]
        refine ⟨hn, by simp, ?_⟩
        intro a ha b hb
        simp at hb; subst hb
        intro e; subst e
        exact any_name_false hany ha
    · rename_i o hne
      cases o <;> simp_all

theorem loadUnit_nodup {fixed env pkg pfx rejected u env' rs}
    (h : loadUnit fixed env pkg pfx rejected u = (env', .ok rs)) : NodupG rs.groups := by
  unfold loadUnit at h
  split at h
  · simp only [Prod.mk.injEq] at h
    exact loadGroups_nodup h.2 (by simp [NodupG])
  · simp at h
  · simp at h

theorem mergeInto_nodup {out x out'} (h : mergeInto out x = .ok out') (h1 : NodupG out.groups) (h2 : NodupG x.groups) :
    NodupG out'.groups := by
  obtain ⟨hg, _, hany⟩ := mergeInto_ok h
  unfold NodupG at *
  rw [hg, List.map_append, List.nodup_append]
  refine ⟨h1, h2, ?_⟩
  intro a ha b hb e
  subst e
  obtain ⟨g, hgm, rfl⟩ := List.mem_map.1 hb
  have := List.any_eq_false.1 hany g hgm
  exact any_name_false (by simpa using this) ha

theorem mergeFrom_nodup : ∀ {xs : List RuleSet} {out m : RuleSet}, mergeRuleSetsFrom out xs = .ok m →
    NodupG out.groups → (∀ x ∈ xs, NodupG x.groups) → NodupG m.groups
  | [], out, m, h, h1, _ => by simp [mergeRuleSetsFrom] at h; subst h; exact h1
  | x :: xs, out, m, h, h1, h2 => by
    unfold mergeRuleSetsFrom at h
    split at h
    · rename_i o1 hm
      exact mergeFrom_nodup h (mergeInto_nodup hm h1 (h2 x (List.mem_cons_self ..)))
        (fun y hy => h2 y (List.mem_cons_of_mem _ hy))
    · rename_i o hne
      cases o <;> simp_all

theorem loadBundleFiles_nodup {fixed pfx rejected} : ∀ {us env env' rss},
    loadBundleFiles fixed env pfx rejected us = (env', .ok rss) → ∀ rs ∈ rss, NodupG rs.groups
  | [], env, env', rss, h => by simp [loadBundleFiles] at h; obtain ⟨_, rfl⟩ := h; intro rs hrs; cases hrs
  | u :: us, env, env', rss, h => by
    unfold loadBundleFiles at h
    split at h
    · simp at h
    · split at h
      · rename_i e1 rs h1
        split at h
        · rename_i e2 rss' h2
          simp only [Prod.mk.injEq, Out.ok.injEq] at h
          obtain ⟨_, rfl⟩ := h
          intro x hx
          rcases List.mem_cons.1 hx with rfl | hx
          · exact loadUnit_nodup h1
          · exact loadBundleFiles_nodup h2 x hx
        · rename_i o hne
          rcases o with ⟨e3, o3⟩
          cases o3 <;> simp_all
      · simp at h
      · simp at h

theorem loadBundles_nodup {fixed rejected} : ∀ {bs env env' imported},
    loadBundles fixed env rejected bs = (env', .ok imported) → ∀ rs ∈ imported, NodupG rs.groups
  | [], env, env', imported, h => by simp [loadBundles] at h; obtain ⟨_, rfl⟩ := h; intro rs hrs; cases hrs
  | b :: bs, env, env', imported, h => by
    unfold loadBundles at h
    split at h
    · simp at h
    · split at h
      · rename_i e1 rss h1
        split at h
        · rename_i e2 more h2
          simp only [Prod.mk.injEq, Out.ok.injEq] at h
          obtain ⟨_, rfl⟩ := h
          intro x hx
          rcases List.mem_append.1 hx with hx | hx
          · exact loadBundleFiles_nodup h1 x hx
          · exact loadBundles_nodup h2 x hx
        · rename_i o hne
          rcases o with ⟨e3, o3⟩
          cases o3 <;> simp_all
      · rename_i o hne
        rcases o with ⟨e3, o3⟩
        cases o3 <;> simp_all

theorem loadFile_nodup {fixed env r env' rset} (h : loadFile fixed env r = (env', .ok rset)) : NodupG rset.groups := by
  unfold loadFile at h
  split at h
  · simp at h
  · simp at h
  · rename_i env1 imported hb
    split at h
    · rename_i env2 res hu
      split at h
      · simp only [Prod.mk.injEq, Out.ok.injEq] at h
        obtain ⟨_, rfl⟩ := h
        exact loadUnit_nodup hu
      · simp only [Prod.mk.injEq] at h
        refine mergeFrom_nodup h.2 (by simp [NodupG]) ?_
        intro x hx
        rcases List.mem_cons.1 hx with rfl | hx
        · exact loadUnit_nodup hu
        · exact loadBundles_nodup hb x hx
    · rename_i o hne
      rcases o with ⟨e3, o3⟩
      cases o3 <;> simp_all

theorem nodupNames_iff : ∀ (l : List (Nat × Nat)), nodupNames l = true ↔ l.Nodup
  | [] => by simp [nodupNames]
  | a :: as => by simp [nodupNames, nodupNames_iff as]


/-! ### closed requests -/

def AllSome (u : List SGroup) : Prop := ∀ x ∈ u.flatMap SGroup.rules, x.isSome = true

theorem options_of_allSome {α : Type} : ∀ (l : List (Option α)), (∀ x ∈ l, x.isSome = true) →
    l = (l.filterMap id).map some
  | [], _ => rfl
  | none :: _, h => by have := h none (List.mem_cons_self ..); simp at this
  | some a :: l, h => by
    have := options_of_allSome l (fun x hx => h x (List.mem_cons_of_mem _ hx))
    simp [← this]

theorem rules_of_allSome : ∀ (u : List SGroup), AllSome u → u.flatMap SGroup.rules = (rulesOf u).map some
  | [], _ => rfl
  | g :: u, h => by
    have hg : ∀ x ∈ g.rules, x.isSome = true := fun x hx => h x (by simp [hx])
    have hu : AllSome u := fun x hx => h x (by
      simp only [List.flatMap_cons, List.mem_append]; exact Or.inr hx)
    have := rules_of_allSome u hu
    simp only [List.flatMap_cons, rulesOf, List.map_append] at this ⊢
    rw [this, ← options_of_allSome g.rules hg]

theorem AllSome.append {a b : List SGroup} (ha : AllSome a) (hb : AllSome b) : AllSome (a ++ b) := by
  intro x hx
  simp only [List.flatMap_append, List.mem_append] at hx
  rcases hx with h | h
  · exact ha x h
  · exact hb x h

theorem unitOK_allSome {pfx rejected u} (h : UnitOK pfx rejected u) : AllSome (acceptedOfUnit pfx rejected u) := by
  intro x hx
  rw [rules_acceptedOfUnit] at hx
  simp only [List.mem_flatMap, List.mem_map] at hx
  obtain ⟨g, hg, r, hr, rfl⟩ := hx
  exact h.2 g hg r hr

theorem reqOK_allSome {r : Req} (h : ReqOK r) : AllSome (accepted r) := by
  obtain ⟨hu, hb⟩ := h
  unfold accepted
  refine (unitOK_allSome hu).append ?_
  intro x hx
  simp only [List.mem_flatMap] at hx
  obtain ⟨g, ⟨b, hbm, u, hum, hg⟩, hxg⟩ := hx
  exact unitOK_allSome (hb b hbm u hum) x (List.mem_flatMap.2 ⟨g, hg, hxg⟩)

theorem closed_of_allSome {a : List SGroup} (h : AllSome a) : closed a = true := by
  unfold closed
  rw [List.all_eq_true]
  intro g hg
  rw [List.all_eq_true]
  intro x hx
  exact h x (List.mem_flatMap.2 ⟨g, hg, hx⟩)

/-! ### the invariant carried along a history -/

structure Inv (e : Engine) (u : List SGroup) (anyLoaded : Bool) : Prop where
  wf : EngineWF e
  view : View e u
  beh : Behaves e u
  allSome : AllSome u
  loaded : anyLoaded = e.ruleSet.isSome

theorem inv_new : Inv Engine.new [] false :=
  ⟨EngineWF_new, by simp [View, Engine.new], by simp [Behaves, Engine.new], by intro x hx; simp at hx, rfl⟩

theorem load_isSome (fixed : Bool) (e : Engine) (r : Req) :
    (load fixed e r).1.ruleSet.isSome = (e.ruleSet.isSome || okOut (load fixed e r).2) := by
  rcases load_cases fixed e r with ⟨env', x, hl, hx⟩ | ⟨env', rset, _, hn, hl⟩ | ⟨env', rset, cur, _, hc, _, hl⟩
  · rw [hl]; simp [hx]
  · rw [hl]; simp [okOut]
  · rw [hl]; simp [okOut]

theorem inv_step {e : Engine} {u : List SGroup} {al : Bool} {r : Req} (hi : Inv e u al) (hok : ReqOK r) :
    Inv (load true e r).1 (if okOut (load true e r).2 then u ++ accepted r else u) (al || okOut (load true e r).2) := by
  have e1 : (if okOut (load true e r).2 then u ++ accepted r else u) =
      u ++ (if okOut (load true e r).2 then accepted r else []) := by
    cases okOut (load true e r).2 <;> simp
  rw [e1]
  refine ⟨load_wf hi.wf, load_step_view hi.view, load_step_behaves hi.wf hok hi.beh, ?_, ?_⟩
  · cases okOut (load true e r).2
    · simpa using hi.allSome
    · simpa using hi.allSome.append (reqOK_allSome hok)
  · rw [load_isSome, hi.loaded]

theorem names_eq (a : List SGroup) : names a = (infos a).map (·.name) := by
  simp [names, infos, List.map_map, Function.comp_def]

theorem nodup_names_of_groups {a : List SGroup} {gs : List GroupInfo} (hg : gs = infos a) (hnd : NodupG gs) :
    nodupNames (names a) = true := by
  rw [nodupNames_iff, names_eq, ← hg]; exact hnd

/-- a call that returned nil did not collide with anything loaded before, nor within itself -/
theorem ok_collisionFree {e : Engine} {u : List SGroup} {r : Req} (hv : View e u)
    (hok : okOut (load true e r).2 = true) : collisionFree u (accepted r) = true := by
  rcases load_cases true e r with ⟨env', x, hl, hx⟩ | ⟨env', rset, hf, hn, hl⟩ | ⟨env', rset, cur, hf, hc, hno, hl⟩
  · rw [hl] at hok; simp [hx] at hok
  · have h1 := nodup_names_of_groups (loadFile_ok hf).1 (loadFile_nodup hf)
    unfold View at hv; rw [hn] at hv; subst hv
    unfold collisionFree
    rw [h1]
    simp [names]
  · have h1 := nodup_names_of_groups (loadFile_ok hf).1 (loadFile_nodup hf)
    have hg := (loadFile_ok hf).1
    unfold View at hv; rw [hc] at hv
    unfold collisionFree
    rw [h1]
    have h2 : (names (accepted r)).all (fun n => !(names u).contains n) = true := by
      rw [List.all_eq_true]
      intro n hn
      rw [names_eq] at hn
      obtain ⟨gi, hgm, rfl⟩ := List.mem_map.1 hn
      have h3 := List.any_eq_false.1 hno gi (by rw [hg]; exact hgm)
      have h4 : (cur.groups.any fun h => h.name == gi.name) = false := by simpa using h3
      have h5 := any_name_false h4
      rw [hv.1, ← names_eq] at h5
      simp [h5]
    rw [h2]; rfl


/-! ### a redefinition error always comes from a repeated accepted name -/

theorem getFunc_not_redef {fixed env k} : getFunc fixed env k ≠ .err .redef := by
  intro hg
  unfold getFunc at hg
  split at hg
  · split at hg <;> cases hg
  · split at hg
    · cases hg
    · split at hg <;> cases hg

theorem ownFunc_not_redef {own n} : ownFunc own n ≠ .err .redef := by
  unfold ownFunc
  split <;> simp

theorem getFuncOpt_not_redef {fixed env own pkg o} : getFuncOpt fixed env own pkg o ≠ .err .redef := by
  unfold getFuncOpt
  split
  · simp
  · split
    · simp
    · rename_i e hg
      intro h; cases h
      cases fixed
      · exact getFunc_not_redef (by simpa using hg)
      · exact ownFunc_not_redef (by simpa using hg)
    · simp

theorem loadRule_not_redef {fixed env own pkg g r} : loadRule fixed env own pkg g r ≠ .err .redef := by
  unfold loadRule
  split
  · simp
  · rename_i e he; intro h; cases h; exact getFuncOpt_not_redef he
  · split
    · simp
    · rename_i e he; intro h; cases h; exact getFuncOpt_not_redef he
    · split <;> simp

theorem loadRules_not_redef {fixed env own pkg g} : ∀ (rs : List RuleDecl), loadRules fixed env own pkg g rs ≠ .err .redef
  | [] => by simp [loadRules]
  | r :: rs => by
    unfold loadRules
    split
    · simp
    · rename_i e he; intro h; cases h; exact loadRule_not_redef he
    · split
      · simp
      · exact loadRules_not_redef rs

theorem loadGroups_redef {env own pkg pfx file rejected} : ∀ {gs : List GroupDecl} {res : RuleSet},
    loadGroups true env own pkg pfx file rejected res gs = .err .redef →
    ¬ (res.groups.map (·.name) ++ (acceptedDecls pfx rejected gs).map (fun g => (pfx, g.name))).Nodup
  | [], res, h => by simp [loadGroups] at h
  | g :: gs, res, h => by
    unfold loadGroups at h
    split at h
    · rename_i r1 h1
      have ih := loadGroups_redef h
      rcases loadGroup_ok h1 with ⟨hr, rfl⟩ | ⟨hr, _, hg, _⟩
      · rw [acceptedDecls_cons_rej hr]; exact ih
      · rw [acceptedDecls_cons_acc hr]
        rw [hg] at ih
        simpa using ih
    · -- the group itself failed
      unfold loadGroup at h
      simp only at h
      split at h
      · cases h
      · rename_i hrej
        have hrej' : rejected.contains (pfx, g.name) = false := by simpa using hrej
        rw [acceptedDecls_cons_acc hrej']
        split at h
        · rename_i hdup
          intro hnd
          rw [List.map_cons, List.nodup_append] at hnd
          obtain ⟨x, hx, hxn⟩ := List.any_eq_true.1 hdup
          have hxn' : x.name = (pfx, g.name) := by simpa using hxn
          exact hnd.2.2 _ (List.mem_map_of_mem hx) _ (List.mem_cons_self ..) hxn'
        · split at h
          · cases h
          · rename_i e he; cases h; exact absurd he (loadRules_not_redef _)
          · cases h

theorem names_acceptedOfUnit (pfx rejected) (u : FileUnit) :
    names (acceptedOfUnit pfx rejected u) = (acceptedDecls pfx rejected u.groups).map (fun g => (pfx, g.name)) := by
  simp [names, acceptedOfUnit, acceptedDecls, List.map_map, Function.comp_def]

theorem compileFuncs_not_redef : ∀ (ds : List FuncDecl) (env : Env), (compileFuncs env ds).2 ≠ .err .redef
  | [], env => by simp [compileFuncs]
  | d :: ds, env => by
    unfold compileFuncs
    split
    · simp
    · split
      · exact compileFuncs_not_redef ds _
      · split
        · simp
        · exact compileFuncs_not_redef ds _

theorem loadUnit_redef {env pkg pfx rejected u env'} (h : loadUnit true env pkg pfx rejected u = (env', .err .redef)) :
    ¬ (names (acceptedOfUnit pfx rejected u)).Nodup := by
  unfold loadUnit at h
  split at h
  · simp only [Prod.mk.injEq] at h
    have := loadGroups_redef h.2
    rw [names_acceptedOfUnit]
    simpa using this
  · rename_i e1 e hc
    simp only [Prod.mk.injEq, Out.err.injEq] at h
    obtain ⟨_, rfl⟩ := h
    exfalso
    unfold compileFilterFuncs at hc
    split at hc
    · cases hc
    · have := compileFuncs_not_redef u.funcs (env.forget (u.funcs.map fun d => (gorules, d.name)))
      simp only [if_true] at hc
      rw [hc] at this
      exact this rfl
  · simp at h

theorem mergeFrom_err_dup : ∀ {xs : List RuleSet} {out : RuleSet} {e : LoadErr}, mergeRuleSetsFrom out xs = .err e →
    ¬ ((out.groups ++ xs.flatMap (·.groups)).map (·.name)).Nodup
  | [], out, e, h => by simp [mergeRuleSetsFrom] at h
  | x :: xs, out, e, h => by
    unfold mergeRuleSetsFrom at h
    split at h
    · rename_i o1 hm
      have ih := mergeFrom_err_dup h
      rw [(mergeInto_ok hm).1] at ih
      simpa [List.append_assoc] using ih
    · obtain ⟨_, hany⟩ := mergeInto_err h
      obtain ⟨g, hg, hgo⟩ := List.any_eq_true.1 hany
      obtain ⟨o, ho, hon⟩ := List.any_eq_true.1 hgo
      have hon' : o.name = g.name := by simpa using hon
      intro hnd
      rw [List.map_append, List.nodup_append] at hnd
      refine hnd.2.2 _ (List.mem_map_of_mem ho) g.name ?_ hon'
      simp only [List.flatMap_cons, List.map_append, List.mem_append]
      exact Or.inl (List.mem_map_of_mem hg)

theorem not_nodup_append_left {α : Type} {a b : List α} (h : ¬ a.Nodup) : ¬ (a ++ b).Nodup :=
  fun hn => h (List.nodup_append.1 hn).1

theorem not_nodup_append_right {α : Type} {a b : List α} (h : ¬ b.Nodup) : ¬ (a ++ b).Nodup :=
  fun hn => h (List.nodup_append.1 hn).2.1

theorem names_append (a b : List SGroup) : names (a ++ b) = names a ++ names b := by simp [names]

theorem loadBundleFiles_redef {pfx rejected} : ∀ {us : List FileUnit} {env env' : Env},
    loadBundleFiles true env pfx rejected us = (env', .err .redef) →
    ¬ (names (us.flatMap (acceptedOfUnit pfx rejected))).Nodup
  | [], env, env', h => by simp [loadBundleFiles] at h
  | u :: us, env, env', h => by
    unfold loadBundleFiles at h
    simp only [List.flatMap_cons, names_append]
    split at h
    · simp at h
    · split at h
      · rename_i e1 rs h1
        split at h
        · simp at h
        · rename_i o hne
          exact not_nodup_append_right (loadBundleFiles_redef h)
      · rename_i e1 e hu
        simp only [Prod.mk.injEq, Out.err.injEq] at h
        obtain ⟨rfl, rfl⟩ := h
        exact not_nodup_append_left (loadUnit_redef hu)
      · simp at h

theorem loadBundles_redef {rejected} : ∀ {bs : List BundleDecl} {env env' : Env},
    loadBundles true env rejected bs = (env', .err .redef) →
    ¬ (names (bs.flatMap fun b => b.files.flatMap (acceptedOfUnit b.pfx rejected))).Nodup
  | [], env, env', h => by simp [loadBundles] at h
  | b :: bs, env, env', h => by
    unfold loadBundles at h
    simp only [List.flatMap_cons, names_append]
    split at h
    · simp at h
    · split at h
      · rename_i e1 rss h1
        split at h
        · simp at h
        · rename_i o hne
          exact not_nodup_append_right (loadBundles_redef h)
      · rename_i o hne
        exact not_nodup_append_left (loadBundleFiles_redef h)

theorem loadFile_redef {env env' : Env} {r : Req} (h : loadFile true env r = (env', .err .redef)) :
    ¬ (names (accepted r)).Nodup := by
  unfold loadFile at h
  unfold accepted
  rw [names_append]
  split at h
  · rename_i env1 e hb
    simp only [Prod.mk.injEq, Out.err.injEq] at h
    obtain ⟨rfl, rfl⟩ := h
    exact not_nodup_append_right (loadBundles_redef hb)
  · simp at h
  · rename_i env1 imported hb
    split at h
    · rename_i env2 res hu
      split at h
      · simp at h
      · simp only [Prod.mk.injEq] at h
        have hm := mergeFrom_err_dup h.2
        obtain ⟨ug, _⟩ := loadUnit_ok hu
        obtain ⟨bg, _⟩ := loadBundles_ok hb
        simp only [List.flatMap_cons, List.nil_append] at hm
        rw [ug, bg] at hm
        simpa [names_eq, List.map_append] using hm
    · rename_i o hne
      exact not_nodup_append_left (loadUnit_redef h)

/-- a call that fails with the redefinition error had a name collision -/
theorem redef_not_free {e : Engine} {u : List SGroup} {r : Req} (hv : View e u)
    (h : (load true e r).2 = .err .redef) : collisionFree u (accepted r) = false := by
  unfold load at h
  split at h
  · cases h
  · split at h
    · rename_i env' x hf
      simp only [Out.err.injEq] at h
      subst h
      have := loadFile_redef hf
      unfold collisionFree
      have : nodupNames (names (accepted r)) = false := by
        rw [← Bool.not_eq_true, nodupNames_iff]; exact this
      simp [this]
    · cases h
    · rename_i env' rset hf
      split at h
      · cases h
      · rename_i cur hc
        rcases merge_pair cur rset with ⟨_, hm⟩ | ⟨hyes, hm⟩
        · rw [hm] at h; cases h
        · obtain ⟨g, hg, hgo⟩ := List.any_eq_true.1 hyes
          obtain ⟨o, ho, hon⟩ := List.any_eq_true.1 hgo
          have hon' : o.name = g.name := by simpa using hon
          unfold View at hv; rw [hc] at hv
          have hgn : g.name ∈ names (accepted r) := by
            rw [names_eq, ← (loadFile_ok hf).1]; exact List.mem_map_of_mem hg
          have hon2 : g.name ∈ names u := by
            rw [names_eq, ← hv.1, ← hon']; exact List.mem_map_of_mem ho
          unfold collisionFree
          have : (names (accepted r)).all (fun n => !(names u).contains n) = false := by
            rw [← Bool.not_eq_true, List.all_eq_true]
            intro hall
            have := hall _ hgn
            simp [hon2] at this
          rw [this, Bool.and_false]

end LoadM
