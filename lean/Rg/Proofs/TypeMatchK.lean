import Rg.Proofs.TypeMatchSound
/-!
# The backtracking matcher (`matchK` / `matchFieldsK`): failed attempts leave the binding tables as they were

`Restoring k`: when the continuation `k` answers `false` the tables are back in the state it was entered with.
`matched` is restoring, and `matchK … k` / `matchFieldsK … k` / `trySplits` are restoring whenever `k` is: every
binding made on the way is deleted again (`delete(state.typeMatches, name)`, `delete(state.int64Matches, v)`).
-/
open XTypes TypeMatch

namespace TypeMatch

def Restoring (k : MState → Bool × MState) : Prop := ∀ s s', k s = (false, s') → s' = s

theorem restoring_matched : Restoring matchedK := by
  intro s s' h; simp [matchedK] at h

theorem filter_of_find_none {α : Type} (p : α → Bool) : ∀ l : List α, l.find? p = none → l.filter (fun a => !p a) = l
  | [], _ => rfl
  | a :: l, h => by
    simp only [List.find?_cons] at h
    split at h
    · cases h
    · rename_i hp
      simp [hp, filter_of_find_none p l h]

theorem delT_bind (st : MState) (x : String) (t : Ty) (h : lookupT st x = none) :
    MState.delT { st with tm := (x, t) :: st.tm } x = st := by
  have hf : st.tm.find? (fun kv => kv.1 == x) = none := by
    simpa [lookupT] using h
  cases st with
  | mk tm im =>
    simp only [MState.delT, List.filter_cons, beq_self_eq_true, Bool.not_true, Bool.false_eq_true, if_false]
    congr 1
    exact filter_of_find_none (fun kv : String × Ty => kv.1 == x) tm hf

theorem delI_bind (st : MState) (x : String) (n : Int) (h : lookupI st x = none) :
    MState.delI { st with im := (x, n) :: st.im } x = st := by
  have hf : st.im.find? (fun kv => kv.1 == x) = none := by
    simpa [lookupI] using h
  cases st with
  | mk tm im =>
    simp only [MState.delI, List.filter_cons, beq_self_eq_true, Bool.not_true, Bool.false_eq_true, if_false]
    congr 1
    exact filter_of_find_none (fun kv : String × Int => kv.1 == x) im hf

theorem trySplits_restores {rest : List Ty → MState → Bool × MState} (H : ∀ fs, Restoring (rest fs)) :
    ∀ fields, Restoring (trySplits rest fields)
  | [], s, s', h => by
    unfold trySplits at h
    exact H [] s s' h
  | f :: fs, s, s', h => by
    unfold trySplits at h
    rcases hr : rest (f :: fs) s with ⟨b, s1⟩
    rw [hr] at h
    cases b
    · simp only at h
      have e1 := H (f :: fs) s s1 hr
      subst e1
      exact trySplits_restores H fs s1 s' h
    · simp at h

section
variable {fx : Bool}

-- closes a goal `s' = st` from `h : (false, st) = (false, s')` or from `h : k st = (false, s')` with `hk : Restoring k`
set_option hygiene false in
macro "restore_leaf" : tactic => `(tactic| first
  | exact hk _ _ h
  | (simp only [Prod.mk.injEq, true_and] at h; exact h.symm)
  | (simp only [Prod.mk.injEq] at h; exact h.2.symm)
  | (simp at h))

mutual
theorem matchK_restores : ∀ (p : Pat) (t : Ty) (k : MState → Bool × MState), Restoring k →
    Restoring (fun st => matchK fx p t st k)
  | .var name, t, k, hk, st, s', h => by
    simp only at h
    unfold matchK at h
    split at h
    · restore_leaf
    · split at h
      · rename_i hl
        rcases hn : k { st with tm := (name, unalias t) :: st.tm } with ⟨b, s1⟩
        rw [hn] at h
        cases b
        · simp only [Prod.mk.injEq, true_and] at h
          have := hk _ _ hn
          subst this
          rw [← h]
          exact delT_bind st name (unalias t) hl
        · simp at h
      · split at h
        · split at h <;> restore_leaf
        · split at h <;> restore_leaf
  | .builtin b, t, k, hk, st, s', h => by
    simp only at h
    unfold matchK at h
    split at h <;> restore_leaf
  | .varSeq, t, k, hk, st, s', h => by
    simp only at h
    unfold matchK at h
    restore_leaf
  | .ptr e, t, k, hk, st, s', h => by
    simp only at h
    unfold matchK at h
    split at h
    · exact matchK_restores e _ k hk st s' h
    · restore_leaf
  | .slice e, t, k, hk, st, s', h => by
    simp only at h
    unfold matchK at h
    split at h
    · exact matchK_restores e _ k hk st s' h
    · restore_leaf
  | .arrayVar v e, t, k, hk, st, s', h => by
    simp only at h
    unfold matchK at h
    split at h
    · rename_i n a _
      split at h
      · exact matchK_restores e _ k hk st s' h
      · split at h
        · split at h
          · exact matchK_restores e _ k hk st s' h
          · restore_leaf
        · rename_i hl
          rcases hn : matchK fx e a { st with im := (v, n) :: st.im } k with ⟨b, s1⟩
          rw [hn] at h
          cases b
          · simp only [Prod.mk.injEq, true_and] at h
            have := matchK_restores e a k hk _ _ hn
            subst this
            rw [← h]
            exact delI_bind st v n hl
          · simp at h
    · restore_leaf
  | .arrayLit len e, t, k, hk, st, s', h => by
    simp only at h
    unfold matchK at h
    split at h
    · split at h
      · exact matchK_restores e _ k hk st s' h
      · restore_leaf
    · restore_leaf
  | .map pk pv, t, k, hk, st, s', h => by
    simp only at h
    unfold matchK at h
    split at h
    · exact matchK_restores pk _ _ (matchK_restores pv _ k hk) st s' h
    · restore_leaf
  | .chan dir e, t, k, hk, st, s', h => by
    simp only at h
    unfold matchK at h
    split at h
    · split at h
      · exact matchK_restores e _ k hk st s' h
      · restore_leaf
    · restore_leaf
  | .named pkgPath typeName, t, k, hk, st, s', h => by
    simp only at h
    unfold matchK at h
    split at h
    · split at h
      · restore_leaf
      · split at h <;> restore_leaf
    · restore_leaf
  | .funcNoSeq pps prs, t, k, hk, st, s', h => by
    simp only at h
    unfold matchK at h
    split at h
    · split at h
      · restore_leaf
      · split at h
        · restore_leaf
        · split at h
          · restore_leaf
          · exact matchFieldsK_restores pps _ _ (matchFieldsK_restores prs _ k hk) st s' h
    · restore_leaf
  | .func pps prs, t, k, hk, st, s', h => by
    simp only at h
    unfold matchK at h
    split at h
    · split at h
      · restore_leaf
      · exact matchFieldsK_restores pps _ _ (matchFieldsK_restores prs _ k hk) st s' h
    · restore_leaf
  | .structNoSeq subs, t, k, hk, st, s', h => by
    simp only at h
    unfold matchK at h
    split at h
    · split at h
      · restore_leaf
      · exact matchFieldsK_restores subs _ k hk st s' h
    · restore_leaf
  | .struct subs, t, k, hk, st, s', h => by
    simp only at h
    unfold matchK at h
    split at h
    · exact matchFieldsK_restores subs _ k hk st s' h
    · restore_leaf
  | .anyIface, t, k, hk, st, s', h => by
    simp only at h
    unfold matchK at h
    split at h <;> restore_leaf
theorem matchFieldsK_restores : ∀ (ps : List Pat) (fs : List Ty) (k : MState → Bool × MState), Restoring k →
    Restoring (fun st => matchFieldsK fx ps fs st k)
  | [], fs, k, hk, st, s', h => by
    simp only at h
    unfold matchFieldsK at h
    split at h <;> restore_leaf
  | p :: ps, fs, k, hk, st, s', h => by
    simp only at h
    unfold matchFieldsK at h
    split at h
    · exact trySplits_restores (fun fs' => matchFieldsK_restores ps fs' k hk) fs st s' h
    · split at h
      · restore_leaf
      · exact matchK_restores p _ _ (matchFieldsK_restores ps _ k hk) st s' h
end

end

end TypeMatch
