import Rg.Model.CommentSpan
import Rg.Spec.C12
/-!
# Carriage returns in comment text: what go/scanner removes, and where `commentTextSpan` finds the text again

* `Del s t` — `t` is `s` with some carriage returns removed; `Emb s t` — the same for a prefix of `s`.
* `emb_commentText` — the text go/scanner delivers for ANY comment source is that (no matter which ones `stripCR` keeps).
* `after s t n` — how many bytes of `s` the first `n` bytes of `t` take (each byte as far left as possible);
  `spanC` — the span of `t[lo:hi]` in those terms; `textSpan_eq` (the Go loop) and `fileSpan_eq` (the spec's
  `origins`) both compute it.
* `spanC_*` — for all `s`, `t`, `lo ≤ hi ≤ |t|`: inside the source, monotone, disjoint pieces stay disjoint, and
  the source bytes of the span are the piece of the text up to removed carriage returns, none at either end.
-/
namespace CM

/-- `t` is `s` with some carriage returns removed -/
inductive Del : Bytes → Bytes → Prop
  | nil : Del [] []
  | keep (b : UInt8) {s t : Bytes} : Del s t → Del (b :: s) (b :: t)
  | skip {s t : Bytes} : Del s t → Del (cr :: s) t

/-- `t` is a prefix of `s` with some carriage returns removed -/
inductive Emb : Bytes → Bytes → Prop
  | done (s : Bytes) : Emb s []
  | keep (b : UInt8) {s t : Bytes} : Emb s t → Emb (b :: s) (b :: t)
  | skip {s t : Bytes} : Emb s t → Emb (cr :: s) t

theorem Del.emb {s t : Bytes} (h : Del s t) (rest : Bytes) : Emb (s ++ rest) t := by
  induction h with
  | nil => exact .done _
  | keep b _ ih => exact .keep b ih
  | skip _ ih => exact .skip ih

theorem Del.refl (s : Bytes) : Del s s := by
  induction s with
  | nil => exact .nil
  | cons b s ih => exact .keep b ih

/-- removing one more carriage return -/
theorem Del.drop_cr {s t : Bytes} (h : Del s (cr :: t)) : Del s t := by
  generalize ht : cr :: t = t' at h
  induction h generalizing t with
  | nil => cases ht
  | keep b h' _ =>
    cases ht
    exact .skip h'
  | skip _ ih => exact .skip (ih ht)

theorem Emb.drop_cr {s t : Bytes} (h : Emb s (cr :: t)) : Emb s t := by
  generalize ht : cr :: t = t' at h
  induction h generalizing t with
  | done => cases ht
  | keep b h' _ =>
    cases ht
    exact .skip h'
  | skip _ ih => exact .skip (ih ht)

/-! ## go/scanner -/

theorem del_stripLoop (comment : Bool) (b : Bytes) (i : Nat) (prev : UInt8) : Del b (stripLoop comment b i prev) := by
  induction b generalizing i prev with
  | nil => exact .nil
  | cons ch rest ih =>
    unfold stripLoop
    split
    · exact .keep ch (ih _ _)
    · rename_i hc
      have : ch = cr := by
        false_or_by_contra
        exact hc (.inl ‹_›)
      subst this
      exact .skip (ih _ _)

theorem del_stripCR (comment : Bool) (b : Bytes) : Del b (stripCR comment b) := del_stripLoop comment b 0 0

theorem lopFinalCR_spec (raw : Bytes) : lopFinalCR raw = raw ∨ raw = lopFinalCR raw ++ [cr] := by
  unfold lopFinalCR
  split
  · rename_i h
    right
    have hne : raw ≠ [] := by
      intro e; rw [e] at h; simp at h
    have hl := List.dropLast_concat_getLast hne
    have : raw.getLast hne = cr := by
      have := h.2
      rw [List.getLast?_eq_some_getLast hne] at this
      exact Option.some.inj this
    rw [this] at hl
    exact hl.symm
  · exact .inl rfl

/-- **what the scanner does to any comment**: its text is the comment's source bytes with some carriage
returns removed (followed by whatever comes after the comment) -/
theorem emb_commentText (raw rest : Bytes) : Emb (raw ++ rest) (commentText raw) := by
  unfold commentText
  rcases lopFinalCR_spec raw with h | h
  · rw [h]; exact (del_stripCR _ raw).emb rest
  · have := (del_stripCR (raw[1]? = some 42) (lopFinalCR raw)).emb ([cr] ++ rest)
    rw [← List.append_assoc, ← h] at this
    exact this

/-- the same, naming the part of the comment's source the text accounts for (all of it, or all but the final
carriage return of a `//` comment line) -/
theorem del_commentText (raw : Bytes) : ∃ core tail, raw = core ++ tail ∧ Del core (commentText raw) := by
  unfold commentText
  rcases lopFinalCR_spec raw with h | h
  · exact ⟨raw, [], by simp, by rw [h]; exact del_stripCR _ raw⟩
  · exact ⟨lopFinalCR raw, [cr], h, del_stripCR _ _⟩

/-- a comment text without carriage returns in its source is its source -/
theorem stripLoop_noCR (comment : Bool) (b : Bytes) (i : Nat) (prev : UInt8) (h : cr ∉ b) : stripLoop comment b i prev = b := by
  induction b generalizing i prev with
  | nil => rfl
  | cons ch rest ih =>
    unfold stripLoop
    have hch : ch ≠ cr := fun e => h (e ▸ List.mem_cons_self)
    rw [if_pos (.inl hch), ih _ _ (fun hm => h (List.mem_cons_of_mem _ hm))]

theorem commentText_noCR (raw : Bytes) (h : cr ∉ raw) : commentText raw = raw := by
  unfold commentText
  have : lopFinalCR raw = raw := by
    unfold lopFinalCR
    split
    · rename_i hc
      exact absurd (List.mem_of_getLast? hc.2) h
    · rfl
  rw [this]
  exact stripLoop_noCR _ raw 0 0 h

/-! ## `after` -/

/-- the number of bytes of `s` that the first `n` bytes of `t` take, every byte of `t` being the next byte of
`s` after the carriage returns `t` lacks; `none`: `t[:n]` is not a prefix of `s` with carriage returns removed -/
def after : Bytes → Bytes → Nat → Option Nat
  | _, _, 0 => some 0
  | [], _, _ + 1 => none
  | _ :: _, [], _ + 1 => none
  | b :: s, c :: t, n + 1 =>
    if b = c then (after s t n).map (· + 1)
    else if b = cr then (after s (c :: t) (n + 1)).map (· + 1)
    else none

@[simp] theorem after_zero (s t : Bytes) : after s t 0 = some 0 := by
  cases s <;> cases t <;> rfl

theorem after_keep (b : UInt8) (s t : Bytes) (n : Nat) : after (b :: s) (b :: t) (n + 1) = (after s t n).map (· + 1) := by
  simp [after]

theorem after_skip (s : Bytes) (c : UInt8) (t : Bytes) (n : Nat) (h : c ≠ cr) :
    after (cr :: s) (c :: t) (n + 1) = (after s (c :: t) (n + 1)).map (· + 1) := by
  simp [after, Ne.symm h]

theorem emb_after {s t : Bytes} (h : Emb s t) : ∀ n, n ≤ t.length → ∃ k, after s t n = some k := by
  induction s generalizing t with
  | nil =>
    intro n hn
    cases h with
    | done => simp at hn; subst hn; exact ⟨0, by simp⟩
  | cons b s ih =>
    intro n hn
    cases n with
    | zero => exact ⟨0, by simp⟩
    | succ n =>
      cases t with
      | nil => simp at hn
      | cons c t =>
        simp only [List.length_cons, Nat.add_le_add_iff_right] at hn
        by_cases hbc : b = c
        · subst hbc
          have h' : Emb s t := by
            cases h with
            | keep _ h' => exact h'
            | skip h' => exact h'.drop_cr
          obtain ⟨k, hk⟩ := ih h' n hn
          exact ⟨k + 1, by rw [after_keep, hk]; rfl⟩
        · cases h with
          | keep _ _ => exact absurd rfl hbc
          | skip h' =>
            obtain ⟨k, hk⟩ := ih h' (n + 1) (by simp; omega)
            exact ⟨k + 1, by rw [after_skip s c t n (fun e => hbc e.symm), hk]; rfl⟩

/-- everything known about one successful `after` -/
theorem after_some {s t : Bytes} {n k : Nat} (h : after s t n = some k) :
    n ≤ t.length ∧ n ≤ k ∧ k ≤ s.length ∧ Del (s.take k) (t.take n) := by
  induction s generalizing t n k with
  | nil =>
    cases n with
    | zero => simp at h; subst h; exact ⟨by omega, by omega, by simp, by simpa using Del.nil⟩
    | succ n => simp [after] at h
  | cons b s ih =>
    cases n with
    | zero => simp at h; subst h; exact ⟨by omega, by omega, by omega, by simpa using Del.nil⟩
    | succ n =>
      cases t with
      | nil => simp [after] at h
      | cons c t =>
        by_cases hbc : b = c
        · subst hbc
          rw [after_keep] at h
          cases hk : after s t n with
          | none => simp [hk] at h
          | some k' =>
            simp only [hk, Option.map_some, Option.some.injEq] at h
            subst h
            obtain ⟨h1, h2, h3, h4⟩ := ih hk
            exact ⟨by simp; omega, by omega, by simp; omega, by simpa using Del.keep b h4⟩
        · by_cases hb : b = cr
          · subst hb
            rw [after_skip s c t n (fun e => hbc e.symm)] at h
            cases hk : after s (c :: t) (n + 1) with
            | none => simp [hk] at h
            | some k' =>
              simp only [hk, Option.map_some, Option.some.injEq] at h
              subst h
              obtain ⟨h1, h2, h3, h4⟩ := ih hk
              exact ⟨h1, by omega, by simp; omega, by simpa using Del.skip h4⟩
          · simp [after, hbc, hb] at h

/-- a shorter prefix takes fewer bytes -/
theorem after_mono {s t : Bytes} {n k : Nat} (h : after s t n = some k) (m : Nat) (hm : m ≤ n) :
    ∃ k', after s t m = some k' ∧ k' + (n - m) ≤ k := by
  induction s generalizing t n k m with
  | nil =>
    cases n with
    | zero => exact ⟨0, by simp [show m = 0 by omega], by omega⟩
    | succ n => simp [after] at h
  | cons b s ih =>
    cases m with
    | zero => exact ⟨0, by simp, by have := (after_some h).2.1; omega⟩
    | succ m =>
      cases n with
      | zero => omega
      | succ n =>
        cases t with
        | nil => simp [after] at h
        | cons c t =>
          by_cases hbc : b = c
          · subst hbc
            rw [after_keep] at h ⊢
            cases hk : after s t n with
            | none => simp [hk] at h
            | some k0 =>
              simp only [hk, Option.map_some, Option.some.injEq] at h
              subst h
              obtain ⟨k', h1, h2⟩ := ih hk m (by omega)
              exact ⟨k' + 1, by rw [h1]; rfl, by omega⟩
          · by_cases hb : b = cr
            · subst hb
              rw [after_skip s c t _ (fun e => hbc e.symm)] at h ⊢
              cases hk : after s (c :: t) (n + 1) with
              | none => simp [hk] at h
              | some k0 =>
                simp only [hk, Option.map_some, Option.some.injEq] at h
                subst h
                obtain ⟨k', h1, h2⟩ := ih hk (m + 1) hm
                exact ⟨k' + 1, by rw [h1]; rfl, by omega⟩
            · simp [after, hbc, hb] at h

/-- the last byte taken is the last byte of the prefix (no carriage return is taken after it) -/
theorem after_last {s t : Bytes} {n k : Nat} (h : after s t (n + 1) = some k) : 0 < k ∧ s[k - 1]? = t[n]? ∧ t[n]?.isSome := by
  induction s generalizing t n k with
  | nil => simp [after] at h
  | cons b s ih =>
    cases t with
    | nil => simp [after] at h
    | cons c t =>
      by_cases hbc : b = c
      · subst hbc
        rw [after_keep] at h
        cases hk : after s t n with
        | none => simp [hk] at h
        | some k0 =>
          simp only [hk, Option.map_some, Option.some.injEq] at h
          subst h
          cases n with
          | zero => simp at hk; subst hk; simp
          | succ n =>
            obtain ⟨h1, h2, h3⟩ := ih hk
            refine ⟨by omega, ?_, by simpa using h3⟩
            have : k0 + 1 - 1 = (k0 - 1) + 1 := by omega
            rw [this]
            simpa using h2
      · by_cases hb : b = cr
        · subst hb
          rw [after_skip s c t _ (fun e => hbc e.symm)] at h
          cases hk : after s (c :: t) (n + 1) with
          | none => simp [hk] at h
          | some k0 =>
            simp only [hk, Option.map_some, Option.some.injEq] at h
            subst h
            obtain ⟨h1, h2, h3⟩ := ih hk
            refine ⟨by omega, ?_, h3⟩
            have : k0 + 1 - 1 = (k0 - 1) + 1 := by omega
            rw [this]
            simpa using h2
        · simp [after, hbc, hb] at h

/-- the source bytes between two prefixes are the text between them, up to removed carriage returns -/
theorem after_segment {s t : Bytes} {lo hi kl kh : Nat} (hl : after s t lo = some kl) (hh : after s t hi = some kh) (hle : lo ≤ hi) :
    Del ((s.take kh).drop kl) ((t.take hi).drop lo) := by
  induction s generalizing t lo hi kl kh with
  | nil =>
    cases hi with
    | zero =>
      have : lo = 0 := by omega
      subst this
      simp at hl hh; subst hl; subst hh
      simpa using Del.nil
    | succ hi => simp [after] at hh
  | cons b s ih =>
    cases lo with
    | zero =>
      simp at hl; subst hl
      simpa using (after_some hh).2.2.2
    | succ lo =>
      cases hi with
      | zero => omega
      | succ hi =>
        cases t with
        | nil => simp [after] at hh
        | cons c t =>
          by_cases hbc : b = c
          · subst hbc
            rw [after_keep] at hl hh
            cases hkl : after s t lo with
            | none => simp [hkl] at hl
            | some kl' =>
              cases hkh : after s t hi with
              | none => simp [hkh] at hh
              | some kh' =>
                simp only [hkl, hkh, Option.map_some, Option.some.injEq] at hl hh
                subst hl; subst hh
                simpa using ih hkl hkh (by omega)
          · by_cases hb : b = cr
            · subst hb
              rw [after_skip s c t _ (fun e => hbc e.symm)] at hl hh
              cases hkl : after s (c :: t) (lo + 1) with
              | none => simp [hkl] at hl
              | some kl' =>
                cases hkh : after s (c :: t) (hi + 1) with
                | none => simp [hkh] at hh
                | some kh' =>
                  simp only [hkl, hkh, Option.map_some, Option.some.injEq] at hl hh
                  subst hl; subst hh
                  have := ih hkl hkh (by omega)
                  simpa using this
            · simp [after, hbc, hb] at hh

/-- a text that is literally at the start of the source takes as many bytes as it has -/
theorem after_prefix (t rest : Bytes) (n : Nat) (h : n ≤ t.length) : after (t ++ rest) t n = some n := by
  induction t generalizing n with
  | nil => simp at h; subst h; simp
  | cons c t ih =>
    cases n with
    | zero => simp
    | succ n =>
      simp only [List.length_cons, Nat.add_le_add_iff_right] at h
      rw [List.cons_append, after_keep, ih n h]; rfl

/-- the leftmost placement ends no later than any placement -/
theorem after_le_of_del {s t : Bytes} (h : Del s t) (rest : Bytes) {k : Nat} (hk : after (s ++ rest) t t.length = some k) :
    k ≤ s.length := by
  induction s generalizing t k with
  | nil =>
    cases h
    simp at hk; omega
  | cons b s ih =>
    cases t with
    | nil => simp at hk; omega
    | cons c t =>
      by_cases hbc : b = c
      · subst hbc
        simp only [List.cons_append, List.length_cons] at hk
        rw [after_keep] at hk
        cases hk' : after (s ++ rest) t t.length with
        | none => simp [hk'] at hk
        | some k' =>
          simp only [hk', Option.map_some, Option.some.injEq] at hk
          subst hk
          have h' : Del s t := by
            cases h with
            | keep _ h' => exact h'
            | skip h' => exact h'.drop_cr
          have := ih h' hk'
          simp; omega
      · cases h with
        | keep _ _ => exact absurd rfl hbc
        | skip h' =>
          simp only [List.cons_append, List.length_cons] at hk
          rw [after_skip _ c t _ (fun e => hbc e.symm)] at hk
          cases hk' : after (s ++ rest) (c :: t) (t.length + 1) with
          | none => simp [hk'] at hk
          | some k' =>
            simp only [hk', Option.map_some, Option.some.injEq] at hk
            subst hk
            have := ih h' (by simpa using hk')
            simp; omega

/-! ## the Go loop computes `after` -/

theorem skipCR_keep (c : UInt8) (b : UInt8) (s : Bytes) (h : ¬ (b = cr ∧ c ≠ cr)) : skipCR c (b :: s) = (b :: s, 0) := by
  simp [skipCR, h]

theorem skipCR_skip (c : UInt8) (s : Bytes) (h : c ≠ cr) : skipCR c (cr :: s) = ((skipCR c s).1, (skipCR c s).2 + 1) := by
  simp [skipCR, h]

/-- one iteration of the outer loop of `commentTextSpan` in terms of `after` -/
theorem after_step (s : Bytes) (c : UInt8) (t : Bytes) (m : Nat) :
    after s (c :: t) (m + 1) =
      match skipCR c s with
      | ([], _) => none
      | (b :: s', k) => if b = c then (after s' t m).map (· + (k + 1)) else none := by
  induction s with
  | nil => simp [skipCR, after]
  | cons b s ih =>
    by_cases hsk : b = cr ∧ c ≠ cr
    · obtain ⟨hb, hc⟩ := hsk
      subst hb
      rw [skipCR_skip c s hc, after_skip s c t m hc, ih]
      cases hs : skipCR c s with
      | mk s1 k1 =>
        cases s1 with
        | nil => simp
        | cons b' s' =>
          simp only
          by_cases hbc : b' = c
          · simp only [hbc, if_true, Option.map_map]
            congr 1
          · simp [hbc]
    · rw [skipCR_keep c b s hsk]
      simp only
      by_cases hbc : b = c
      · subst hbc
        rw [after_keep]; simp
      · have hb : b ≠ cr := by
          intro e
          apply hsk
          exact ⟨e, fun ec => hbc (by rw [e, ec])⟩
        simp [after, hbc, hb]

/-- the whole loop: `frm` is set in the iteration `i = begin`, the end is where the loop stops -/
theorem spanLoop_eq (base begin end_ : Nat) (n : Nat) (t s : Bytes) (i pos frm k : Nat) (hi : i + n = end_)
    (hk : after s t n = some k) :
    spanLoop base begin end_ n t s i pos frm =
      .ok (if begin = end_ then pos + k
           else if i ≤ begin ∧ begin < end_ then pos + ((after s t (begin - i + 1)).getD 0 - 1)
           else frm, pos + k) := by
  induction n generalizing t s i pos frm k with
  | zero =>
    simp at hk; subst hk
    unfold spanLoop
    by_cases hb : begin = end_
    · simp [hb]
    · have : ¬ (i ≤ begin ∧ begin < end_) := by omega
      simp [hb, this]
  | succ n ih =>
    cases t with
    | nil => cases s <;> simp [after] at hk
    | cons c t =>
      have hstep := after_step s c t
      unfold spanLoop
      rw [hstep n] at hk
      cases hs : skipCR c s with
      | mk s1 k0 =>
        rw [hs] at hk
        cases s1 with
        | nil => simp at hk
        | cons b s' =>
          simp only at hk ⊢
          by_cases hbc : b = c
          · subst hbc
            simp only [if_true] at hk
            cases hk1 : after s' t n with
            | none => simp [hk1] at hk
            | some k1 =>
              simp only [hk1, Option.map_some, Option.some.injEq] at hk
              subst hk
              simp only [ne_eq, not_true_eq_false, if_false]
              rw [ih t s' (i + 1) (pos + k0 + 1) _ k1 (by omega) hk1]
              congr 1
              have hpos : pos + k0 + 1 + k1 = pos + (k1 + (k0 + 1)) := by omega
              rw [hpos]
              congr 1
              by_cases hb : begin = end_
              · simp [hb]
              · simp only [hb, if_false]
                by_cases hib : i = begin
                · subst hib
                  have h1 : ¬ (i + 1 ≤ i ∧ i < end_) := by omega
                  have h2 : i ≤ i ∧ i < end_ := by omega
                  rw [if_neg h1, if_pos h2, if_pos rfl]
                  have : i - i + 1 = 0 + 1 := by omega
                  rw [this, hstep 0, hs]
                  simp
                · rw [if_neg hib]
                  by_cases hlt : i + 1 ≤ begin ∧ begin < end_
                  · have h2 : i ≤ begin ∧ begin < end_ := by omega
                    rw [if_pos hlt, if_pos h2]
                    obtain ⟨a, ha, _⟩ := after_mono hk1 (begin - i) (by omega)
                    have hge := (after_some ha).2.1
                    have e1 : begin - (i + 1) + 1 = begin - i := by omega
                    have e2 : begin - i + 1 = (begin - i) + 1 := rfl
                    rw [e1, ha, hstep (begin - i), hs]
                    simp only [if_true, ha, Option.map_some, Option.getD_some]
                    omega
                  · have h2 : ¬ (i ≤ begin ∧ begin < end_) := by omega
                    rw [if_neg hlt, if_neg h2]
          · simp [hbc] at hk

/-- the span of `t[lo:hi]` inside `s` (the source from `base` on), in terms of `after` -/
def spanC (s t : Bytes) (base lo hi : Nat) : Nat × Nat :=
  if lo < hi then (base + ((after s t (lo + 1)).getD 0 - 1), base + (after s t hi).getD 0)
  else (base + (after s t lo).getD 0, base + (after s t lo).getD 0)

/-- **`commentTextSpan` computes `spanC`** whenever the text up to `hi` is in the source -/
theorem textSpan_eq (src : Bytes) (base : Nat) (text : Bytes) (lo hi k : Nat) (hle : lo ≤ hi)
    (hk : after (src.drop base) text hi = some k) :
    textSpan src base text lo hi = .ok (spanC (src.drop base) text base lo hi) := by
  unfold textSpan
  rw [spanLoop_eq base lo hi hi text (src.drop base) 0 base 0 k (by omega) hk]
  unfold spanC
  by_cases heq : lo = hi
  · subst heq
    simp [hk]
  · have hlt : lo < hi := by omega
    have h2 : 0 ≤ lo ∧ lo < hi := by omega
    simp [heq, hlt, hk]

/-- no source at all: the text is taken for an exact copy -/
theorem textSpan_nosrc (base : Nat) (text : Bytes) (lo hi : Nat) (hle : lo ≤ hi) :
    textSpan [] base text lo hi = .ok (base + lo, base + hi) := by
  unfold textSpan
  cases hi with
  | zero =>
    have : lo = 0 := by omega
    subst this
    simp [spanLoop]
  | succ hi =>
    cases text with
    | nil => simp [spanLoop]
    | cons c t => simp [spanLoop, skipCR]

/-! ## the spec's `origins` computes `after` too -/

theorem origins_after (s t : Bytes) (pos k : Nat) (hk : after s t t.length = some k) :
    ∃ os, SpecC12.origins s t pos = some os ∧
      ∀ i, i < t.length → ∃ k', after s t (i + 1) = some k' ∧ 0 < k' ∧ os[i]? = some (pos + (k' - 1)) := by
  induction s generalizing t pos k with
  | nil =>
    cases t with
    | nil => exact ⟨[], rfl, by intro i hi; simp at hi⟩
    | cons c t => simp [after] at hk
  | cons b s ih =>
    cases t with
    | nil => exact ⟨[], rfl, by intro i hi; simp at hi⟩
    | cons c t =>
      by_cases hbc : b = c
      · subst hbc
        simp only [List.length_cons] at hk
        rw [after_keep] at hk
        cases hk' : after s t t.length with
        | none => simp [hk'] at hk
        | some k0 =>
          obtain ⟨os, ho, hall⟩ := ih (t := t) (pos + 1) k0 hk'
          refine ⟨pos :: os, by simp [SpecC12.origins, ho], ?_⟩
          intro i hi
          cases i with
          | zero => exact ⟨1, by rw [after_keep]; simp, by omega, by simp⟩
          | succ i =>
            obtain ⟨k', h1, h2, h3⟩ := hall i (by simpa using hi)
            refine ⟨k' + 1, by rw [after_keep, h1]; rfl, by omega, ?_⟩
            simp only [List.getElem?_cons_succ, h3, Option.some.injEq]
            omega
      · by_cases hb : b = cr
        · subst hb
          have hc : c ≠ cr := fun e => hbc e.symm
          simp only [List.length_cons] at hk
          rw [after_skip s c t _ hc] at hk
          cases hk' : after s (c :: t) (t.length + 1) with
          | none => simp [hk'] at hk
          | some k0 =>
            obtain ⟨os, ho, hall⟩ := ih (t := c :: t) (pos + 1) k0 (by simpa using hk')
            refine ⟨os, ?_, ?_⟩
            · simp only [SpecC12.origins, hbc, if_false]
              exact ho
            · intro i hi
              obtain ⟨k', h1, h2, h3⟩ := hall i hi
              refine ⟨k' + 1, by rw [after_skip s c t _ hc, h1]; rfl, by omega, ?_⟩
              rw [h3]; congr 1; omega
        · simp [after, hbc, hb] at hk

theorem origins_none (s t : Bytes) (pos : Nat) (h : SpecC12.origins s t pos = none) : after s t t.length = none := by
  induction s generalizing t pos with
  | nil =>
    cases t with
    | nil => simp [SpecC12.origins] at h
    | cons c t => simp [after]
  | cons b s ih =>
    cases t with
    | nil => simp [SpecC12.origins] at h
    | cons c t =>
      by_cases hbc : b = c
      · subst hbc
        simp only [SpecC12.origins, if_true, Option.map_eq_none_iff] at h
        simp only [List.length_cons]
        rw [after_keep, ih t (pos + 1) h]; rfl
      · by_cases hb : b = cr
        · subst hb
          simp only [SpecC12.origins, hbc, if_false] at h
          simp only [List.length_cons]
          rw [after_skip s c t _ (fun e => hbc e.symm)]
          have := ih (c :: t) (pos + 1) h
          simp only [List.length_cons] at this
          rw [this]; rfl
        · simp [after, hbc, hb]

/-- **the spec's `fileSpan` is `spanC`** -/
theorem fileSpan_eq (src : Bytes) (off : Nat) (text : Bytes) (lo hi k : Nat) (hle : lo ≤ hi) (hhi : hi ≤ text.length)
    (hk : after (src.drop off) text text.length = some k) :
    SpecC12.fileSpan src off text lo hi = spanC (src.drop off) text off lo hi := by
  obtain ⟨os, ho, hall⟩ := origins_after (src.drop off) text off k hk
  have hafter : ∀ i, i ≤ text.length →
      (if i = 0 then off else os.getD (i - 1) 0 + 1) = off + (after (src.drop off) text i).getD 0 := by
    intro i hi
    by_cases h0 : i = 0
    · subst h0; simp
    · obtain ⟨k', h1, h2, h3⟩ := hall (i - 1) (by omega)
      have : i - 1 + 1 = i := by omega
      rw [this] at h1
      rw [if_neg h0, List.getD_eq_getElem?_getD, h3, h1]
      simp only [Option.getD_some]
      omega
  unfold SpecC12.fileSpan spanC
  rw [ho]
  simp only
  by_cases hlt : lo < hi
  · rw [if_pos hlt, if_pos hlt]
    obtain ⟨k', h1, h2, h3⟩ := hall lo (by omega)
    rw [List.getD_eq_getElem?_getD, h3, h1, hafter hi hhi]
    simp
  · rw [if_neg hlt, if_neg hlt, hafter lo (by omega)]

/-! ## properties of the span, for all sources, texts and index pairs -/

theorem after_getD_mono {s t : Bytes} {N K : Nat} (h : after s t N = some K) (m n : Nat) (hmn : m ≤ n) (hn : n ≤ N) :
    (after s t m).getD 0 + (n - m) ≤ (after s t n).getD 0 ∧ after s t n = some ((after s t n).getD 0) := by
  obtain ⟨kn, h1, _⟩ := after_mono h n hn
  obtain ⟨km, h2, h3⟩ := after_mono h1 m hmn
  rw [h1, h2]
  exact ⟨by simpa using h3, rfl⟩

theorem drop_cons_of_getElem? {α : Type} (l : List α) (a : Nat) (x : α) (h : l[a]? = some x) : l.drop a = x :: l.drop (a + 1) := by
  induction l generalizing a with
  | nil => simp at h
  | cons y l ih =>
    cases a with
    | zero => simp at h; subst h; rfl
    | succ a => simpa using ih a (by simpa using h)

/-- everything about one span: where it is, and what the source holds there -/
theorem spanC_spec {s t : Bytes} {K : Nat} (hK : after s t t.length = some K) (base lo hi : Nat) (hle : lo ≤ hi) (hhi : hi ≤ t.length) :
    ∃ a b, spanC s t base lo hi = (base + a, base + b) ∧ a ≤ b ∧ b ≤ s.length ∧ lo ≤ a ∧ hi ≤ b ∧ hi - lo ≤ b - a ∧
      after s t hi = some b ∧
      Del ((s.take b).drop a) ((t.take hi).drop lo) ∧
      ((s.take b).drop a).head? = ((t.take hi).drop lo).head? ∧
      ((s.take b).drop a).getLast? = ((t.take hi).drop lo).getLast? := by
  obtain ⟨b, hb, _⟩ := after_mono hK hi hhi
  obtain ⟨_, hb2, hb3, _⟩ := after_some hb
  by_cases hlt : lo < hi
  · obtain ⟨a1, ha1, ha2⟩ := after_mono hb (lo + 1) (by omega)
    obtain ⟨ha0, hal, hals⟩ := after_last ha1
    have hage := (after_some ha1).2.1
    obtain ⟨x, hx⟩ := Option.isSome_iff_exists.1 hals
    rw [hx] at hal
    refine ⟨a1 - 1, b, ?_, by omega, hb3, by omega, hb2, by omega, hb, ?_, ?_, ?_⟩
    · unfold spanC; rw [if_pos hlt, ha1, hb]; rfl
    · have hs : (s.take b)[a1 - 1]? = some x := by rw [List.getElem?_take, if_pos (by omega)]; exact hal
      have ht : (t.take hi)[lo]? = some x := by rw [List.getElem?_take, if_pos hlt]; exact hx
      rw [drop_cons_of_getElem? _ _ x hs, drop_cons_of_getElem? _ _ x ht]
      have : a1 - 1 + 1 = a1 := by omega
      rw [this]
      exact .keep x (after_segment ha1 hb (by omega))
    · rw [List.head?_drop, List.head?_drop, List.getElem?_take, List.getElem?_take, if_pos (by omega), if_pos hlt, hal, hx]
    · obtain ⟨hb0, hbl, hbls⟩ := after_last (n := hi - 1) (k := b) (by rw [show hi - 1 + 1 = hi by omega]; exact hb)
      have hslen : b - 1 < s.length := by omega
      have htlen : hi - 1 < t.length := by omega
      rw [List.getLast?_drop, List.getLast?_drop, List.getLast?_take, List.getLast?_take]
      simp only [List.length_take]
      rw [if_neg (by omega), if_neg (by omega), if_neg (by omega), if_neg (by omega)]
      obtain ⟨y, hy⟩ := Option.isSome_iff_exists.1 hbls
      rw [hy] at hbl
      rw [hbl, hy]
      rfl
  · have : lo = hi := by omega
    subst this
    refine ⟨b, b, ?_, by omega, hb3, hb2, hb2, by omega, hb, ?_, ?_, ?_⟩
    · unfold spanC; rw [if_neg hlt, hb]; rfl
    · simpa using Del.nil
    · simp
    · simp

/-- later pieces of the text lie later in the source; pieces that do not overlap in the text do not overlap there -/
theorem spanC_mono {s t : Bytes} {K : Nat} (hK : after s t t.length = some K) (base lo hi lo' hi' : Nat)
    (h1 : lo ≤ hi) (h2 : lo' ≤ hi') (h3 : hi' ≤ t.length) (hlo : lo ≤ lo') (hhi : hi ≤ hi') :
    (spanC s t base lo hi).1 ≤ (spanC s t base lo' hi').1 ∧ (spanC s t base lo hi).2 ≤ (spanC s t base lo' hi').2 ∧
      (hi ≤ lo' → (spanC s t base lo hi).2 ≤ (spanC s t base lo' hi').1) := by
  have A := fun m n hmn hn => (after_getD_mono hK m n hmn hn).1
  have a1 := A lo lo' hlo (by omega)
  have a2 := A hi hi' hhi h3
  have a3 := A lo' hi' h2 h3
  have a4 := A lo hi h1 (by omega)
  unfold spanC
  by_cases c1 : lo < hi <;> by_cases c2 : lo' < hi'
  · have b1 := A (lo + 1) (lo' + 1) (by omega) (by omega)
    have b2 := A lo (lo + 1) (by omega) (by omega)
    have b3 := A lo' (lo' + 1) (by omega) (by omega)
    simp only [c1, c2, if_true]
    refine ⟨by omega, by omega, ?_⟩
    intro hd
    have b4 := A hi lo' hd (by omega)
    omega
  · have : lo' = hi' := by omega
    subst this
    have b2 := A lo (lo + 1) (by omega) (by omega)
    have b5 := A (lo + 1) lo' (by omega) (by omega)
    simp only [c1, c2, if_true, if_false]
    refine ⟨by omega, by omega, ?_⟩
    intro hd
    have b4 := A hi lo' hd (by omega)
    omega
  · have : lo = hi := by omega
    subst this
    have b3 := A lo' (lo' + 1) (by omega) (by omega)
    have b6 := A (lo' + 1) hi' (by omega) h3
    simp only [c1, c2, if_true, if_false]
    refine ⟨by omega, by omega, ?_⟩
    intro _
    omega
  · have : lo = hi := by omega
    subst this
    have : lo' = hi' := by omega
    subst this
    simp only [c1, c2, if_false]
    refine ⟨by omega, by omega, ?_⟩
    intro _
    omega

/-- a text that is literally in the source: plain arithmetic -/
theorem spanC_prefix (t rest : Bytes) (base lo hi : Nat) (hle : lo ≤ hi) (hhi : hi ≤ t.length) :
    spanC (t ++ rest) t base lo hi = (base + lo, base + hi) := by
  unfold spanC
  by_cases hlt : lo < hi
  · rw [if_pos hlt, after_prefix t rest (lo + 1) (by omega), after_prefix t rest hi hhi]; simp
  · have : lo = hi := by omega
    subst this
    rw [if_neg hlt, after_prefix t rest lo hhi]; simp

/-! ## the same, about a file and a comment in it -/

/-- the comment text is the file's bytes from the comment's offset on, with some carriage returns removed -/
def CRText (src : Bytes) (off : Nat) (text : Bytes) : Prop := Emb (src.drop off) text

/-- **go/scanner establishes `CRText`** for every comment of every file -/
theorem crtext_of_scan (pre raw rest : Bytes) : CRText (pre ++ raw ++ rest) pre.length (commentText raw) := by
  unfold CRText
  rw [List.append_assoc, List.drop_left]
  exact emb_commentText raw rest

theorem crtext_after {src : Bytes} {off : Nat} {text : Bytes} (h : CRText src off text) :
    ∃ K, after (src.drop off) text text.length = some K := emb_after h text.length (Nat.le_refl _)

theorem slice_drop (src : Bytes) (off a b : Nat) : ((src.drop off).take b).drop a = SpecC12.slice src (off + a) (off + b) := by
  unfold SpecC12.slice
  rw [List.drop_take, List.drop_drop]
  have : off + b - (off + a) = b - a := by omega
  rw [this]

theorem slice_text (t : Bytes) (lo hi : Nat) : (t.take hi).drop lo = SpecC12.slice t lo hi := by
  unfold SpecC12.slice
  rw [List.drop_take]

end CM
